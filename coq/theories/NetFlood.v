(* NetFlood.v — a global broadcast on a loop-free internetwork reaches every station of every network exactly once
   (lemmas about Net.v, property C06). *)
From Coq Require Import ZifyBool ZifyN ZifyNat.
From Bac Require Import Base Net NetFacts NetTerm NetTerm2 NetReply NetOnce NetRoute NetArrive NetLocal NetBcast NetTree.
Ltac Zify.zify_post_hook ::= Z.to_euclidean_division_equations.
Open Scope N_scope.

(* ---- what one member of the LAN does with a frame (the body of `deliver`) *)
Definition member_out (ns : list wnode) (f : frame) (x : nat * nat) : option wnode * list frame * list obs :=
  match nth_error ns (fst x) with
  | None => (None, [], [])
  | Some w =>
      match nth_error (w_ports w) (snd x) with
      | None => (None, [], [])
      | Some (_, wmac) =>
          if accepts wmac f then
            let '(n', acts) := process_npdu (w_node w) (snd x) (f_src f) (f_dst f) (f_npdu f) in
            let '(fs, os) := emit (mkW n' (w_ports w)) (fst x) acts in
            (Some (mkW n' (w_ports w)), fs, os)
          else (None, [], [])
      end
  end.

Definition out_frames (ns : list wnode) (f : frame) (x : nat * nat) : list frame := snd (fst (member_out ns f x)).
Definition out_obs (ns : list wnode) (f : frame) (x : nat * nat) : list obs := snd (member_out ns f x).

Lemma member_out_other : forall ns who w' f x, fst x <> who ->
  member_out (set_nth ns who w') f x = member_out ns f x.
Proof. intros. unfold member_out. rewrite set_nth_nth_other by auto. reflexivity. Qed.

Lemma flat_map_ext_in' : forall {A B} (f g : A -> list B) l, (forall a, In a l -> f a = g a) -> flat_map f l = flat_map g l.
Proof.
  induction l as [|a l IH]; intro H; cbn; [reflexivity|]. rewrite H by (left; reflexivity).
  rewrite IH; [reflexivity|]. intros b Hb. apply H. right. assumption.
Qed.

(* nodes after the delivery: node `who` is whatever its member produced, the others are untouched *)
Lemma deliver_as_map : forall members ns f q tr ns' q' tr',
  deliver ns f members q tr = (ns', q', tr') -> NoDup (map fst members) ->
  q' = q ++ flat_map (out_frames ns f) members /\
  tr' = rev (flat_map (out_obs ns f) members) ++ tr /\
  (forall who, ~ In who (map fst members) -> nth_error ns' who = nth_error ns who) /\
  (forall x, In x members ->
     nth_error ns' (fst x) = match fst (fst (member_out ns f x)) with Some w' => Some w' | None => nth_error ns (fst x) end).
Proof.
  induction members as [|[who port] r IH]; intros ns f q tr ns' q' tr' H Hnd; cbn [deliver] in H.
  - inversion H; subst. cbn. rewrite app_nil_r. repeat split; auto. intros x [].
  - cbn [map fst] in Hnd. inversion Hnd as [|? ? Hnotin Hnd']; subst.
    assert (Hrest : forall y, In y r -> fst y <> who).
    { intros y Hy E. apply Hnotin. rewrite <- E. apply in_map. assumption. }
    cbn [flat_map]. unfold out_frames at 1, out_obs at 1, member_out at 1 2. cbn [fst snd].
    destruct (nth_error ns who) as [w|] eqn:En.
    2:{ destruct (IH _ _ _ _ _ _ _ H Hnd') as (A1 & A2 & A3 & A4). cbn [fst snd app]. repeat split; auto.
        - intros z Hz. apply A3. intro Hin. apply Hz. right. assumption.
        - intros x [Hx|Hx]; [subst x; cbn [fst snd]; unfold member_out; cbn [fst snd]; rewrite En; cbn;
                              rewrite A3 by assumption; exact En|apply A4; assumption]. }
    destruct (nth_error (w_ports w) port) as [[lan wmac]|] eqn:Ep.
    2:{ destruct (IH _ _ _ _ _ _ _ H Hnd') as (A1 & A2 & A3 & A4). cbn [fst snd app]. repeat split; auto.
        - intros z Hz. apply A3. intro Hin. apply Hz. right. assumption.
        - intros x [Hx|Hx]; [subst x; cbn [fst snd]; unfold member_out; cbn [fst snd]; rewrite En, Ep; cbn;
                              rewrite A3 by assumption; exact En|apply A4; assumption]. }
    destruct (accepts wmac f) eqn:Eacc.
    2:{ destruct (IH _ _ _ _ _ _ _ H Hnd') as (A1 & A2 & A3 & A4). cbn [fst snd app]. repeat split; auto.
        - intros z Hz. apply A3. intro Hin. apply Hz. right. assumption.
        - intros x [Hx|Hx]; [subst x; cbn [fst snd]; unfold member_out; cbn [fst snd]; rewrite En, Ep, Eacc; cbn;
                              rewrite A3 by assumption; exact En|apply A4; assumption]. }
    destruct (process_npdu (w_node w) port (f_src f) (f_dst f) (f_npdu f)) as [n' acts] eqn:Epr.
    destruct (emit (mkW n' (w_ports w)) who acts) as [fs os] eqn:Ee.
    destruct (IH _ _ _ _ _ _ _ H Hnd') as (A1 & A2 & A3 & A4). cbn [fst snd].
    assert (Hff : flat_map (out_frames (set_nth ns who (mkW n' (w_ports w))) f) r = flat_map (out_frames ns f) r).
    { apply flat_map_ext_in'. intros y Hy. unfold out_frames. rewrite member_out_other by (apply Hrest; assumption). reflexivity. }
    assert (Hfo : flat_map (out_obs (set_nth ns who (mkW n' (w_ports w))) f) r = flat_map (out_obs ns f) r).
    { apply flat_map_ext_in'. intros y Hy. unfold out_obs. rewrite member_out_other by (apply Hrest; assumption). reflexivity. }
    rewrite Hff in A1. rewrite Hfo in A2. repeat split.
    + rewrite A1, app_assoc. reflexivity.
    + rewrite A2, rev_append_rev, rev_app_distr, <- app_assoc. reflexivity.
    + intros z Hz. rewrite A3 by (intro Hin; apply Hz; right; assumption).
      apply set_nth_nth_other. intro E. apply Hz. left. auto.
    + intros x [Hx|Hx].
      * subst x. cbn [fst snd]. unfold member_out. cbn [fst snd]. rewrite En, Ep, Eacc, Epr, Ee. cbn [fst].
        rewrite A3 by assumption. apply (set_nth_nth_same _ _ _ _ En).
      * rewrite (A4 x Hx). rewrite member_out_other by (apply Hrest; assumption).
        destruct (fst (fst (member_out ns f x))); [reflexivity|].
        apply set_nth_nth_other. intro E. apply (Hrest x Hx). auto.
Qed.

(* ---- exact behaviour of the nodes for a global broadcast *)
Lemma router_floods : forall n i ai inet src dst p,
  nth_adapter n i = Some ai -> modelled_config n = true -> is_router n = true -> has_app n = false ->
  a_net ai = Some inet ->
  n_msg p = None -> n_dadr p = Some DGlobal -> n_hop p <> 0 ->
  (forall snet sm, n_sadr p = Some (snet, sm) -> find_net n (Some snet) = None) ->
  process_npdu n i src dst p =
    (learned n ai src p,
     map (fun j => Fwd j LBcast (mkNpdu (Some DGlobal) (Some (fwd_sadr inet src p)) (n_hop p - 1) None (n_data p)))
         (other_ports n i)).
Proof.
  intros n i ai inet src dst p Ha Hm Hr Happ Hi Hmsg Hd Hh Hs.
  destruct (local_adapter_exists _ _ _ Ha) as [la Hla].
  unfold process_npdu. rewrite Ha, Hm, Hla. cbn [negb].
  assert (Hspoof : match n_sadr p with
                   | Some (snet, _) => match find_net n (Some snet) with Some _ => true | None => false end
                   | None => false end = false).
  { destruct (n_sadr p) as [[snet sm]|] eqn:Es; [|reflexivity]. rewrite (Hs snet sm eq_refl). reflexivity. }
  rewrite Hspoof. fold (learned n ai src p).
  rewrite Hd, Hmsg. cbv iota beta.
  assert (Hha : has_app (learned n ai src p) = false) by (unfold learned; destruct (n_sadr p) as [[? ?]|]; exact Happ).
  rewrite Hha. cbn [andb].
  unfold forward.
  assert (Er : is_router (learned n ai src p) = true) by (unfold is_router; rewrite learned_adapters; exact Hr).
  rewrite Er. cbn [negb].
  destruct (N.eqb_spec (n_hop p) 0); [contradiction|]. rewrite Hi.
  assert (Eo : other_ports (learned n ai src p) i = other_ports n i) by (unfold other_ports; rewrite learned_adapters; reflexivity).
  rewrite Eo, Hmsg, Hd. reflexivity.
Qed.

Lemma station_hears_global : forall n a src dst p,
  adapters n = [a] -> has_app n = true ->
  n_msg p = None -> n_dadr p = Some DGlobal -> apdu_ok (n_data p) = true ->
  (forall sn sm, n_sadr p = Some (sn, sm) -> optN_eqb (a_net a) (Some sn) = false) ->
  exists s, process_npdu n 0 src dst p = (learned n a src p, [Up s AGB (n_data p)]).
Proof.
  intros n a src dst p Had Happ Hmsg Hd Hok Hs.
  unfold process_npdu, nth_adapter, modelled_config, local_idx, find_net, learned. rewrite Had, Hd, Hmsg.
  cbn [nth_error negb find_net_from last_with_addr].
  assert (Hl : match match a_mac a with Some _ => Some 0%nat | None => None end with Some i => i | None => 0%nat end = 0%nat)
    by (destruct (a_mac a); reflexivity).
  rewrite Hl. cbn [nth_error].
  destruct (n_sadr p) as [[sn sm]|] eqn:Es.
  - rewrite (Hs sn sm eq_refl). cbn [has_app set_cache andb]. rewrite Happ, Hok. cbn [negb andb].
    unfold forward, is_router. cbn [adapters set_cache]. rewrite Had. cbn [length Nat.eqb negb andb]. eexists. reflexivity.
  - cbn [andb]. rewrite Happ, Hok. cbn [negb andb].
    unfold forward, is_router. rewrite Had. cbn [length Nat.eqb negb andb]. eexists. reflexivity.
Qed.

(* frames a router puts on its other ports *)
Definition port_frames (ports : list (N * mac)) (q : npdu) (js : list nat) : list frame :=
  flat_map (fun j => match nth_error ports j with Some (lan, m) => [mkFrame lan m LBcast q] | None => [] end) js.

Lemma emit_flood : forall n' ports who q js,
  emit (mkW n' ports) who (map (fun j => Fwd j LBcast q) js) = (port_frames ports q js, []).
Proof.
  intros n' ports who q. induction js as [|j js IH]; [reflexivity|].
  cbn [map emit w_ports port_frames flat_map]. rewrite IH. fold (port_frames ports q js).
  destruct (nth_error ports j) as [[lan m]|]; reflexivity.
Qed.

(* ---- loop-free, seen from the source network s: levels, one up-port per router, exactly one down-port (par) on
   every LAN other than s *)
Record tree_from (lns : list (N * list (nat * nat))) (ns : list wnode) (s : N)
                 (lv : N -> nat) (up : nat -> nat) (par : N -> nat * nat) : Prop := {
  tf_root : lv s = 0%nat;
  tf_zero : forall L, (exists x m, port_of ns x = Some (L, m)) -> lv L = 0%nat -> L = s;
  tf_bound : forall L, (exists x m, port_of ns x = Some (L, m)) -> (lv L < 255)%nat;
  tf_router : forall who w, nth_error ns who = Some w -> router_shape w ->
      exists lu mu, nth_error (w_ports w) (up who) = Some (lu, mu) /\
        forall p lp mp, nth_error (w_ports w) p = Some (lp, mp) -> p <> up who -> lv lp = S (lv lu);
  tf_parent : forall L, (exists x m, port_of ns x = Some (L, m)) -> lv L <> 0%nat ->
      In (par L) (lan_members lns L) /\
      exists w, nth_error ns (fst (par L)) = Some w /\ router_shape w /\ snd (par L) <> up (fst (par L));
  tf_unique : forall L x w, In x (lan_members lns L) -> nth_error ns (fst x) = Some w -> router_shape w ->
      snd x <> up (fst x) -> x = par L
}.

Definition sender_mac (ns : list wnode) (par : N -> nat * nat) (s : N) (smac : mac) (L : N) : mac :=
  if L =? s then smac else match port_mac ns (par L) with Some m => m | None => [] end.

(* the copy of the broadcast that travels on LAN L *)
Definition ff (ns : list wnode) (par : N -> nat * nat) (s : N) (smac : mac) (data : list N) (lv : N -> nat) (L : N) : frame :=
  mkFrame L (sender_mac ns par s smac L) LBcast
          (mkNpdu (Some DGlobal) (if L =? s then None else Some (s, smac)) (255 - N.of_nat (lv L)) None data).

Definition kids (ns : list wnode) (up : nat -> nat) (x : nat * nat) : list N :=
  match nth_error ns (fst x) with
  | Some w => if (2 <=? length (w_ports w))%nat && Nat.eqb (snd x) (up (fst x))
              then flat_map (fun j => match nth_error (w_ports w) j with Some (lan, _) => [lan] | None => [] end)
                            (filter (fun j => negb (Nat.eqb j (snd x))) (seq 0 (length (w_ports w))))
              else []
  | None => []
  end.

Definition children (lns : list (N * list (nat * nat))) (ns : list wnode) (up : nat -> nat) (L : N) : list N :=
  flat_map (kids ns up) (lan_members lns L).

(* who is handed the payload when the copy on LAN L is delivered: the stations of L other than the source *)
Definition hears (ns : list wnode) (src : nat) (x : nat * nat) : list nat :=
  if appb ns x && negb (Nat.eqb (fst x) src) then [fst x] else [].

Lemma learned_sim : forall dd w0 w' ai src p,
  node_sim dd w0 w' -> (forall snet sm, n_sadr p = Some (snet, sm) -> snet <> dd) ->
  node_sim dd w0 (mkW (learned (w_node w') ai src p) (w_ports w')).
Proof.
  intros dd w0 w' ai src p (H1 & H2 & H3 & H4) Hs. unfold node_sim. cbn [w_ports w_node].
  rewrite learned_adapters, (learned_find_path _ _ _ _ _ Hs). repeat split; auto.
  unfold learned. destruct (n_sadr p) as [[? ?]|]; exact H3.
Qed.

Lemma port_frames_map : forall (F : N -> frame) ports q js,
  (forall j lan mj, In j js -> nth_error ports j = Some (lan, mj) -> mkFrame lan mj LBcast q = F lan) ->
  port_frames ports q js =
  map F (flat_map (fun j => match nth_error ports j with Some (lan, _) => [lan] | None => [] end) js).
Proof.
  intros F ports q. induction js as [|j js IH]; intro H; [reflexivity|].
  cbn [port_frames flat_map]. fold (port_frames ports q js). rewrite map_app, IH by (intros; eapply H; eauto; right; assumption).
  destruct (nth_error ports j) as [[lan mj]|] eqn:E; [|reflexivity].
  cbn [map app]. rewrite (H j lan mj (or_introl eq_refl) E). reflexivity.
Qed.

Lemma member_flood : forall lns ns0 s lv up par src ws smac data ns L x,
  internet_ok lns ns0 -> tree_from lns ns0 s lv up par ->
  nth_error ns0 src = Some ws -> w_ports ws = [(s, smac)] -> station_shape ws ->
  apdu_ok data = true ->
  sim (s + 1) ns0 ns -> In x (lan_members lns L) ->
  out_frames ns (ff ns0 par s smac data lv L) x = map (ff ns0 par s smac data lv) (kids ns0 up x) /\
  hearers (out_obs ns (ff ns0 par s smac data lv L) x) = hears ns0 src x /\
  match fst (fst (member_out ns (ff ns0 par s smac data lv L) x)) with
  | Some w' => exists w0, nth_error ns0 (fst x) = Some w0 /\ node_sim (s + 1) w0 w'
  | None => True
  end.
Proof.
  intros lns ns0 s lv up par src ws smac data ns L x Hio Htf Hws Hwsp Hwss Hok Hsim Hx.
  destruct (io_members _ _ Hio _ _ Hx) as [m Hport].
  assert (Hinh : exists y m0, port_of ns0 y = Some (L, m0)) by eauto.
  pose proof Hport as Hport'. unfold port_of in Hport'.
  destruct (nth_error ns0 (fst x)) as [w0|] eqn:Ew0; [|discriminate].
  destruct (sim_nth _ _ _ _ _ Hsim Ew0) as (w' & Hw' & Hns). pose proof Hns as (Hp1 & Hp2 & Hp3 & _).
  assert (Hsrcport : port_of ns0 (src, 0%nat) = Some (s, smac)) by (unfold port_of; cbn [fst snd]; rewrite Hws, Hwsp; reflexivity).
  assert (Hsd : forall snet sm, (if L =? s then None else Some (s, smac)) = Some (snet, sm) -> snet <> s + 1).
  { intros snet sm E. destruct (L =? s); [discriminate|]. inversion E. lia. }
  unfold out_frames, out_obs, member_out. rewrite Hw', Hp1, Hport'.
  destruct (io_shape _ _ Hio _ _ Ew0) as [Hr|Hst].
  - (* a router port *)
    pose proof (router_shape_sim _ _ _ Hns Hr) as Hr'.
    assert (Happ0 : appb ns0 x = false) by (unfold appb; rewrite Ew0; destruct Hr as (_ & _ & _ & E); exact E).
    destruct (tf_router _ _ _ _ _ _ Htf _ _ Ew0 Hr) as (lu & mu & Hup & Hchild).
    destruct (Nat.eq_dec (snd x) (up (fst x))) as [Eup|Eup].
    + (* its up-port: it forwards to all its other ports *)
      assert (lu = L /\ mu = m) by (rewrite <- Eup, Hport' in Hup; inversion Hup; auto). destruct H; subst lu mu.
      assert (Hacc : accepts m (ff ns0 par s smac data lv L) = true).
      { unfold accepts, ff, sender_mac. cbn [f_dst f_src]. rewrite mac_eqb_neq; [reflexivity|].
        destruct (N.eqb_spec L s) as [E|E].
        - subst L. intro E. subst m.
          assert (E : (src, 0%nat) = x).
          { apply (nodup_map_inj (port_mac ns0) (lan_members lns s)); [apply (io_macs _ _ Hio)|eapply io_listed; eauto|assumption|].
            rewrite (port_of_mac _ _ _ _ Hsrcport), (port_of_mac _ _ _ _ Hport). reflexivity. }
          subst x. cbn [fst] in Ew0. rewrite Hws in Ew0. inversion Ew0; subst. exact (router_not_station _ Hr Hwss).
        - assert (Hlv : lv L <> 0%nat) by (intro E0; apply E; eapply tf_zero; eauto).
          destruct (tf_parent _ _ _ _ _ _ Htf L Hinh Hlv) as (Hpin & wp & Hwp & Hrp & Hnup).
          destruct (io_members _ _ Hio _ _ Hpin) as [mp Hpp]. rewrite (port_of_mac _ _ _ _ Hpp).
          intro E2. subst mp.
          assert (E3 : par L = x).
          { apply (nodup_map_inj (port_mac ns0) (lan_members lns L)); [apply (io_macs _ _ Hio)|assumption|assumption|].
            rewrite (port_of_mac _ _ _ _ Hpp), (port_of_mac _ _ _ _ Hport). reflexivity. }
          rewrite E3 in Hnup. contradiction. }
      rewrite Hacc.
      assert (Hhop : 255 - N.of_nat (lv L) <> 0) by (pose proof (tf_bound _ _ _ _ _ _ Htf L Hinh); lia).
      assert (Hpp' : nth_error (w_ports w') (snd x) = Some (L, m)) by (rewrite Hp1; exact Hport').
      set (F := ff ns0 par s smac data lv L) in *.
      assert (Hsp : forall snet sm, n_sadr (f_npdu F) = Some (snet, sm) -> find_net (w_node w') (Some snet) = None).
      { unfold F. cbn [ff f_npdu n_sadr]. intros snet sm E. destruct (N.eqb_spec L s) as [E1|E1]; [discriminate|]. inversion E; subst snet.
        apply router_find_net_none; [assumption|]. rewrite Hp1. intro Hin. apply in_map_fst_nth in Hin.
        destruct Hin as (p & mp & Hp). destruct (Nat.eq_dec p (up (fst x))) as [E2|E2].
        - subst p. rewrite Hup in Hp. inversion Hp; subst. contradiction.
        - pose proof (Hchild p s mp Hp E2) as E3. rewrite (tf_root _ _ _ _ _ _ Htf) in E3. discriminate. }
      rewrite (router_floods (w_node w') (snd x) (mkAd (Some L) (Some m)) L (f_src F) (f_dst F) (f_npdu F)
                 (router_nth_adapter _ _ _ _ Hr' Hpp') (router_modelled _ Hr') (router_is_router _ Hr')
                 ltac:(destruct Hr' as (_ & _ & _ & E); exact E) eq_refl eq_refl eq_refl Hhop Hsp).
      unfold F in *. clear F.
      rewrite emit_flood. cbn [fst snd]. split; [|split].
      * unfold kids. rewrite Ew0.
        assert (Hlen : (2 <=? length (w_ports w0))%nat = true) by (destruct Hr as (Hl & _); apply Nat.leb_le; exact Hl).
        rewrite Hlen, Eup, Nat.eqb_refl. cbn [andb].
        unfold other_ports. destruct Hr' as (_ & _ & Ha' & _). rewrite Ha', map_length, Hp1, <- Eup.
        apply port_frames_map. intros j lan mj Hj Hnj.
        apply filter_In in Hj. destruct Hj as [_ Hj]. destruct (Nat.eqb_spec j (snd x)) as [E|E]; [discriminate|].
        assert (Hlvlan : lv lan = S (lv L)) by (apply (Hchild j lan mj Hnj); rewrite <- Eup; exact E).
        assert (Hlans : lan <> s) by (intro E0; subst lan; rewrite (tf_root _ _ _ _ _ _ Htf) in Hlvlan; discriminate).
        assert (Hpj : port_of ns0 (fst x, j) = Some (lan, mj)) by (unfold port_of; cbn [fst snd]; rewrite Ew0; exact Hnj).
        assert (Hparj : (fst x, j) = par lan).
        { eapply (tf_unique _ _ _ _ _ _ Htf lan (fst x, j) w0); cbn [fst snd]; eauto.
          - eapply io_listed; eauto.
          - rewrite <- Eup. exact E. }
        unfold ff, sender_mac. destruct (N.eqb_spec lan s); [contradiction|].
        rewrite <- Hparj, (port_of_mac _ _ _ _ Hpj). cbn [f_npdu f_src n_hop n_data].
        f_equal. f_equal.
        -- unfold fwd_sadr. cbn [n_sadr]. destruct (N.eqb_spec L s) as [E1|E1]; [subst L; reflexivity|reflexivity].
        -- rewrite Hlvlan. lia.
      * unfold hears. rewrite Happ0. reflexivity.
      * exists w0. split; [reflexivity|]. rewrite <- Hp1. apply learned_sim; [assumption|]. cbn [ff f_npdu n_sadr]. exact Hsd.
    + (* its down-port: it is the sender of this copy *)
      assert (Hlv : lv L <> 0%nat).
      { intro E0. pose proof (Hchild (snd x) L m Hport' Eup) as E1. lia. }
      assert (HLs : L <> s) by (intro E; subst L; apply Hlv; apply (tf_root _ _ _ _ _ _ Htf)).
      assert (Hxp : x = par L) by (eapply (tf_unique _ _ _ _ _ _ Htf); eauto).
      assert (Hacc : accepts m (ff ns0 par s smac data lv L) = false).
      { unfold accepts, ff, sender_mac. cbn [f_dst f_src]. destruct (N.eqb_spec L s); [contradiction|].
        rewrite <- Hxp, (port_of_mac _ _ _ _ Hport), mac_eqb_refl. reflexivity. }
      rewrite Hacc. cbn [fst snd]. split; [|split; [|exact I]].
      * unfold kids. rewrite Ew0. destruct (Nat.eqb_spec (snd x) (up (fst x))); [contradiction|]. rewrite andb_false_r. reflexivity.
      * unfold hears. rewrite Happ0. reflexivity.
  - (* a station *)
    destruct Hst as (lan0 & m0 & a & Hp & Ha & Hn & Hh).
    assert (Happ1 : appb ns0 x = true) by (unfold appb; rewrite Ew0; exact Hh).
    rewrite Hp in Hport'. destruct (snd x) as [|q] eqn:Eq; [|destruct q; discriminate]. cbn in Hport'. inversion Hport'; subst lan0 m0.
    assert (Hk : kids ns0 up x = []) by (unfold kids; rewrite Ew0, Hp; reflexivity).
    rewrite Hk. cbn [map].
    destruct (Nat.eq_dec (fst x) src) as [Es|Es].
    + (* the originator does not hear its own broadcast *)
      rewrite Es, Hws in Ew0. inversion Ew0; subst w0. rewrite Hwsp in Hp. inversion Hp; subst L m.
      assert (Hacc : accepts smac (ff ns0 par s smac data lv s) = false).
      { unfold accepts, ff, sender_mac. cbn [f_dst f_src]. rewrite N.eqb_refl, mac_eqb_refl. reflexivity. }
      rewrite Hacc. cbn [fst snd]. split; [reflexivity|]. split; [|exact I].
      unfold hears. rewrite Es, Nat.eqb_refl, andb_false_r. reflexivity.
    + assert (Hacc : accepts m (ff ns0 par s smac data lv L) = true).
      { unfold accepts, ff, sender_mac. cbn [f_dst f_src]. rewrite mac_eqb_neq; [reflexivity|].
        assert (Hx0 : port_of ns0 x = Some (L, m)) by exact Hport.
        destruct (N.eqb_spec L s) as [E|E].
        - subst L. intro E. subst m.
          assert (E : (src, 0%nat) = x).
          { apply (nodup_map_inj (port_mac ns0) (lan_members lns s)); [apply (io_macs _ _ Hio)|eapply io_listed; eauto|assumption|].
            rewrite (port_of_mac _ _ _ _ Hsrcport), (port_of_mac _ _ _ _ Hport). reflexivity. }
          subst x. apply Es. reflexivity.
        - assert (Hlv : lv L <> 0%nat) by (intro E0; apply E; eapply tf_zero; eauto).
          destruct (tf_parent _ _ _ _ _ _ Htf L Hinh Hlv) as (Hpin & wp & Hwp & Hrp & Hnup).
          destruct (io_members _ _ Hio _ _ Hpin) as [mp Hpp]. rewrite (port_of_mac _ _ _ _ Hpp).
          intro E2. subst mp.
          assert (E3 : par L = x).
          { apply (nodup_map_inj (port_mac ns0) (lan_members lns L)); [apply (io_macs _ _ Hio)|assumption|assumption|].
            rewrite (port_of_mac _ _ _ _ Hpp), (port_of_mac _ _ _ _ Hport). reflexivity. }
          rewrite E3, Ew0 in Hwp. inversion Hwp; subst wp. eapply router_not_station; eauto. exists L, m, a. auto. }
      rewrite Hacc.
      destruct (station_hears_global (w_node w') a (sender_mac ns0 par s smac L) LBcast
                  (f_npdu (ff ns0 par s smac data lv L))) as [sh Hsh]; try reflexivity; try assumption.
      { rewrite Hp2. exact Ha. }
      { rewrite Hp3. exact Hh. }
      { cbn [ff f_npdu n_sadr]. intros sn sm E. destruct (N.eqb_spec L s) as [E1|E1]; [discriminate|]. inversion E; subst sn.
        destruct Hn as [E2|E2]; rewrite E2; cbn; [reflexivity|]. destruct (N.eqb_spec L s); [contradiction|reflexivity]. }
      cbn [ff f_src f_dst] in *. rewrite Hsh. cbn [emit fst snd]. split; [reflexivity|]. split.
      * unfold hears. rewrite Happ1. destruct (Nat.eqb_spec (fst x) src); [contradiction|]. reflexivity.
      * exists w0. split; [reflexivity|]. rewrite <- Hp1. apply learned_sim; [assumption|]. cbn [f_npdu n_sadr]. exact Hsd.
Qed.

(* ---- list lemmas *)
Lemma nodup_map_inj_on : forall {A B} (f : A -> B) l,
  NoDup l -> (forall x y, In x l -> In y l -> f x = f y -> x = y) -> NoDup (map f l).
Proof.
  intros A B f. induction l as [|a l IH]; intros Hnd Hinj; cbn; [constructor|].
  inversion Hnd; subst. constructor.
  - intro Hin. apply in_map_iff in Hin. destruct Hin as [y [E Hy]].
    assert (y = a) by (apply Hinj; [right; assumption|left; reflexivity|assumption]). subst y. contradiction.
  - apply IH; [assumption|]. intros x y Hx Hy. apply Hinj; right; assumption.
Qed.

Lemma nodup_flat_map_fst : forall {B} (g : nat * nat -> list (nat * B)) l,
  NoDup (map fst l) -> (forall x, NoDup (g x)) -> (forall x p, In p (g x) -> fst p = fst x) ->
  NoDup (flat_map g l).
Proof.
  intros B g. induction l as [|a l IH]; intros Hnd Hg Hfst; cbn; [constructor|].
  cbn [map] in Hnd. inversion Hnd; subst. apply nodup_app; auto.
  intros p Hp Hq. apply in_flat_map in Hq. destruct Hq as [y [Hy Hpy]].
  apply H1. rewrite <- (Hfst a p Hp), (Hfst y p Hpy). apply in_map. assumption.
Qed.

Lemma flat_map_map : forall {A B C} (F : B -> C) (g : A -> list B) l,
  flat_map (fun x => map F (g x)) l = map F (flat_map g l).
Proof. induction l as [|a l IH]; cbn; [reflexivity|]. rewrite IH, map_app. reflexivity. Qed.

Lemma hearers_rev : forall os, hearers (rev os) = rev (hearers os).
Proof.
  induction os as [|o os IH]; [reflexivity|]. cbn [rev]. rewrite hearers_app, IH.
  replace (o :: os) with ([o] ++ os) by reflexivity. rewrite (hearers_app [o] os), rev_app_distr.
  f_equal. destruct o; reflexivity.
Qed.

Lemma hearers_flat_map : forall {A} (g : A -> list obs) l, hearers (flat_map g l) = flat_map (fun x => hearers (g x)) l.
Proof. induction l as [|a l IH]; cbn; [reflexivity|]. rewrite hearers_app, IH. reflexivity. Qed.

(* ---- one copy of the broadcast is delivered on its LAN *)
Lemma lan_flood : forall lns ns0 s lv up par src ws smac data,
  internet_ok lns ns0 -> tree_from lns ns0 s lv up par ->
  nth_error ns0 src = Some ws -> w_ports ws = [(s, smac)] -> station_shape ws -> apdu_ok data = true ->
  forall w L q, lans w = lns -> sim (s + 1) ns0 (nodes w) -> queue w = ff ns0 par s smac data lv L :: q ->
  exists w' osn, step w = Some w' /\ lans w' = lns /\ sim (s + 1) ns0 (nodes w') /\
     queue w' = q ++ map (ff ns0 par s smac data lv) (children lns ns0 up L) /\
     trace w' = osn ++ OFrame (ff ns0 par s smac data lv L) :: trace w /\
     hearers osn = rev (flat_map (hears ns0 src) (lan_members lns L)).
Proof.
  intros lns ns0 s lv up par src ws smac data Hio Htf Hws Hwsp Hwss Hok w L q Hl Hsim Hq.
  unfold step, step_core. rewrite Hq, Hl.
  set (F := ff ns0 par s smac data lv) in *.
  change (f_lan (F L)) with L.
  destruct (deliver (nodes w) (F L) (lan_members lns L) q [OFrame (F L)]) as [[ns' q'] tr'] eqn:Ed.
  destruct (deliver_as_map _ _ _ _ _ _ _ _ Ed (io_once _ _ Hio L)) as (A1 & A2 & A3 & A4).
  assert (Hmf := fun x Hx => member_flood lns ns0 s lv up par src ws smac data (nodes w) L x Hio Htf Hws Hwsp Hwss Hok Hsim Hx).
  fold F in Hmf.
  eexists. exists (rev (flat_map (out_obs (nodes w) (F L)) (lan_members lns L))).
  split; [reflexivity|]. cbn [lans nodes queue trace]. split; [reflexivity|]. split; [|split; [|split]].
  - intro who. destruct (in_dec Nat.eq_dec who (map fst (lan_members lns L))) as [Hin|Hnin].
    + apply in_map_iff in Hin. destruct Hin as [x [Ex Hx]]. subst who.
      rewrite (A4 x Hx). destruct (Hmf x Hx) as (_ & _ & H3).
      destruct (fst (fst (member_out (nodes w) (F L) x))) as [w'|].
      * destruct H3 as (w0 & Hw0 & Hns). rewrite Hw0. exact Hns.
      * exact (Hsim (fst x)).
    + rewrite (A3 who Hnin). exact (Hsim who).
  - rewrite A1. f_equal. unfold children. rewrite <- flat_map_map.
    apply flat_map_ext_in'. intros x Hx. apply (Hmf x Hx).
  - rewrite A2, <- app_assoc. reflexivity.
  - rewrite hearers_rev, hearers_flat_map. f_equal.
    apply flat_map_ext_in'. intros x Hx. apply (Hmf x Hx).
Qed.

(* ---- the child networks of a LAN *)
Lemma nodup_flat_map_gen : forall {A B} (g : A -> list B) l,
  NoDup l -> (forall x, In x l -> NoDup (g x)) ->
  (forall x y e, In x l -> In y l -> In e (g x) -> In e (g y) -> x = y) -> NoDup (flat_map g l).
Proof.
  intros A B g. induction l as [|a l IH]; intros Hnd Hg Hx; cbn; [constructor|].
  inversion Hnd; subst. apply nodup_app.
  - apply Hg. left; reflexivity.
  - apply IH; [assumption| |].
    + intros x Hin. apply Hg. right; assumption.
    + intros x y e H1' H2'. apply Hx; right; assumption.
  - intros e He Hq. apply in_flat_map in Hq. destruct Hq as [y [Hy Hey]].
    assert (a = y) by (eapply Hx; eauto; [left; reflexivity|right; assumption]). subst y. contradiction.
Qed.

Lemma kids_spec : forall lns ns0 s lv up par L x L',
  internet_ok lns ns0 -> tree_from lns ns0 s lv up par ->
  In x (lan_members lns L) -> In L' (kids ns0 up x) ->
  exists w j mj, nth_error ns0 (fst x) = Some w /\ router_shape w /\ snd x = up (fst x) /\
     nth_error (w_ports w) j = Some (L', mj) /\ j <> up (fst x) /\ par L' = (fst x, j) /\
     lv L' = S (lv L) /\ L' <> s.
Proof.
  intros lns ns0 s lv up par L x L' Hio Htf Hx Hk.
  destruct (io_members _ _ Hio _ _ Hx) as [m Hport]. pose proof Hport as Hport'. unfold port_of in Hport'.
  unfold kids in Hk. destruct (nth_error ns0 (fst x)) as [w|] eqn:Ew; [|contradiction].
  destruct ((2 <=? length (w_ports w))%nat && Nat.eqb (snd x) (up (fst x))) eqn:Ec; [|contradiction].
  apply andb_prop in Ec. destruct Ec as [Hlen Hup]. apply Nat.leb_le in Hlen. apply Nat.eqb_eq in Hup.
  apply in_flat_map in Hk. destruct Hk as [j [Hj HL']].
  apply filter_In in Hj. destruct Hj as [_ Hj]. destruct (Nat.eqb_spec j (snd x)) as [E|E]; [discriminate|].
  destruct (nth_error (w_ports w) j) as [[lan mj]|] eqn:Enj; [|contradiction]. destruct HL' as [HL'|[]]. subst lan.
  assert (Hr : router_shape w).
  { destruct (io_shape _ _ Hio _ _ Ew) as [Hr|(l0 & m0 & a & Hp & _)]; [assumption|]. rewrite Hp in Hlen. cbn in Hlen. lia. }
  destruct (tf_router _ _ _ _ _ _ Htf _ _ Ew Hr) as (lu & mu & Hupp & Hchild).
  assert (lu = L) by (rewrite <- Hup, Hport' in Hupp; inversion Hupp; reflexivity). subst lu.
  assert (Hju : j <> up (fst x)) by (rewrite <- Hup; exact E).
  assert (Hlv : lv L' = S (lv L)) by (apply (Hchild j L' mj Enj Hju)).
  exists w, j, mj. split; [reflexivity|]. split; [exact Hr|]. split; [exact Hup|]. split; [exact Enj|].
  split; [exact Hju|]. split; [|split; [exact Hlv|]].
  - symmetry. eapply (tf_unique _ _ _ _ _ _ Htf L' (fst x, j) w); cbn [fst snd]; eauto.
    eapply io_listed; eauto. unfold port_of. cbn [fst snd]. rewrite Ew. exact Enj.
  - intro E0. subst L'. rewrite (tf_root _ _ _ _ _ _ Htf) in Hlv. discriminate.
Qed.

Lemma kids_complete : forall ns0 up r w j L' mj,
  nth_error ns0 r = Some w -> router_shape w -> nth_error (w_ports w) j = Some (L', mj) -> j <> up r ->
  In L' (kids ns0 up (r, up r)).
Proof.
  intros ns0 up r w j L' mj Hw (Hlen & _) Hj Hne. unfold kids. cbn [fst snd]. rewrite Hw.
  apply Nat.leb_le in Hlen. rewrite Hlen, Nat.eqb_refl. cbn [andb].
  apply in_flat_map. exists j. split.
  - apply filter_In. split.
    + apply in_seq. assert (nth_error (w_ports w) j <> None) by congruence. apply nth_error_Some in H. lia.
    + destruct (Nat.eqb_spec j (up r)); [contradiction|reflexivity].
  - rewrite Hj. left; reflexivity.
Qed.

Lemma children_nodup : forall lns ns0 s lv up par L,
  internet_ok lns ns0 -> tree_from lns ns0 s lv up par -> NoDup (children lns ns0 up L).
Proof.
  intros lns ns0 s lv up par L Hio Htf. unfold children.
  apply nodup_flat_map_gen.
  - eapply NoDup_map_inv. apply (io_once _ _ Hio L).
  - intros x Hx. unfold kids. destruct (nth_error ns0 (fst x)) as [w|] eqn:Ew; [|constructor].
    destruct ((2 <=? length (w_ports w))%nat && Nat.eqb (snd x) (up (fst x))) eqn:Ec; [|constructor].
    assert (Hr : router_shape w).
    { apply andb_prop in Ec. destruct Ec as [Hlen _]. apply Nat.leb_le in Hlen.
      destruct (io_shape _ _ Hio _ _ Ew) as [Hr|(l0 & m0 & a & Hp & _)]; [assumption|]. rewrite Hp in Hlen. cbn in Hlen. lia. }
    destruct Hr as (_ & Hnd & _).
    apply nodup_flat_map_gen.
    + apply NoDup_filter. apply seq_NoDup.
    + intros j _. destruct (nth_error (w_ports w) j) as [[lan mj]|]; repeat constructor. intros [].
    + intros j j' e _ _ Hj Hj'.
      destruct (nth_error (w_ports w) j) as [[lan mj]|] eqn:E1; [|contradiction].
      destruct (nth_error (w_ports w) j') as [[lan' mj']|] eqn:E2; [|contradiction].
      destruct Hj as [Hj|[]], Hj' as [Hj'|[]]. subst lan lan'.
      apply (proj1 (NoDup_nth_error (map fst (w_ports w))) Hnd).
      * rewrite map_length. assert (nth_error (w_ports w) j <> None) by congruence. apply nth_error_Some in H. exact H.
      * rewrite !nth_error_map, E1, E2. reflexivity.
  - intros x y e Hx Hy Hex Hey.
    destruct (kids_spec _ _ _ _ _ _ _ _ _ Hio Htf Hx Hex) as (w1 & j1 & m1 & _ & _ & _ & _ & _ & Hp1 & _).
    destruct (kids_spec _ _ _ _ _ _ _ _ _ Hio Htf Hy Hey) as (w2 & j2 & m2 & _ & _ & _ & _ & _ & Hp2 & _).
    rewrite Hp1 in Hp2. inversion Hp2.
    apply (nodup_map_inj fst (lan_members lns L)); auto. apply (io_once _ _ Hio L).
Qed.

(* ---- the invariant of the flood *)
Definition inhabited (ns0 : list wnode) (L : N) : Prop := exists x m, port_of ns0 x = Some (L, m).

Definition up_lan (ns0 : list wnode) (up : nat -> nat) (par : N -> nat * nat) (L lu : N) : Prop :=
  exists w mu, nth_error ns0 (fst (par L)) = Some w /\ nth_error (w_ports w) (up (fst (par L))) = Some (lu, mu).

Definition Inv lns ns0 s lv up par src smac data (T0 : list obs) (w : world) : Prop :=
  exists done todo osn,
    lans w = lns /\ sim (s + 1) ns0 (nodes w) /\
    queue w = map (ff ns0 par s smac data lv) todo /\ trace w = osn ++ T0 /\
    NoDup (done ++ todo) /\ In s (done ++ todo) /\
    (forall L, In L (done ++ todo) -> inhabited ns0 L) /\
    (forall L L', In L done -> In L' (children lns ns0 up L) -> In L' (done ++ todo)) /\
    (forall L, In L (done ++ todo) -> L <> s -> exists lu, up_lan ns0 up par L lu /\ In lu done) /\
    NoDup (hearers osn) /\
    (forall who, In who (hearers osn) <->
                 exists L x, In L done /\ In x (lan_members lns L) /\ In who (hears ns0 src x)).

Lemma hears_in : forall ns0 src x who, In who (hears ns0 src x) -> who = fst x /\ appb ns0 x = true /\ who <> src.
Proof.
  intros ns0 src x who H. unfold hears in H. destruct (appb ns0 x) eqn:Ea; [|contradiction]. cbn [andb] in H.
  destruct (Nat.eqb_spec (fst x) src) as [E|E]; [contradiction|]. destruct H as [H|[]]. subst who. auto.
Qed.

Lemma hears_nodup : forall ns0 src members, NoDup (map fst members) -> NoDup (flat_map (hears ns0 src) members).
Proof.
  intros ns0 src. induction members as [|x r IH]; intro Hnd; cbn; [constructor|].
  cbn [map] in Hnd. inversion Hnd; subst. apply nodup_app; auto.
  - unfold hears. destruct (appb ns0 x && negb (Nat.eqb (fst x) src)); repeat constructor. intros [].
  - intros e He Hq. apply hears_in in He. destruct He as [He _]. subst e.
    apply in_flat_map in Hq. destruct Hq as [y [Hy Hey]]. apply hears_in in Hey. destruct Hey as [Hey _].
    apply H1. rewrite Hey. apply in_map. assumption.
Qed.

(* a node with an application has one port, on one LAN *)
Lemma app_node_lan : forall lns ns0 x y L1 L2,
  internet_ok lns ns0 -> In x (lan_members lns L1) -> In y (lan_members lns L2) ->
  fst x = fst y -> appb ns0 x = true -> L1 = L2.
Proof.
  intros lns ns0 x y L1 L2 Hio Hx Hy E Ha.
  destruct (io_members _ _ Hio _ _ Hx) as [m1 H1]. destruct (io_members _ _ Hio _ _ Hy) as [m2 H2].
  unfold port_of in H1, H2. unfold appb in Ha. rewrite <- E in H2.
  destruct (nth_error ns0 (fst x)) as [w|] eqn:Ew; [|discriminate].
  destruct (io_shape _ _ Hio _ _ Ew) as [(_ & _ & _ & Hh)|(l0 & m0 & a & Hp & _)]; [congruence|].
  rewrite Hp in H1, H2.
  destruct (snd x) as [|q]; [|destruct q; discriminate]. destruct (snd y) as [|q]; [|destruct q; discriminate].
  cbn in H1, H2. congruence.
Qed.

Lemma inv_step : forall lns ns0 s lv up par src ws smac data T0 w,
  internet_ok lns ns0 -> tree_from lns ns0 s lv up par ->
  nth_error ns0 src = Some ws -> w_ports ws = [(s, smac)] -> station_shape ws -> apdu_ok data = true ->
  Inv lns ns0 s lv up par src smac data T0 w -> queue w <> [] ->
  exists w', step w = Some w' /\ Inv lns ns0 s lv up par src smac data T0 w'.
Proof.
  intros lns ns0 s lv up par src ws smac data T0 w Hio Htf Hws Hwsp Hwss Hok
         (done & todo & osn & Hl & Hsim & Hq & Htr & Hnd & Hs & Hinh & Hcl & Hpar & Hhn & Hhs) Hne.
  destruct todo as [|L todo']; [rewrite Hq in Hne; contradiction|]. cbn [map] in Hq.
  destruct (lan_flood lns ns0 s lv up par src ws smac data Hio Htf Hws Hwsp Hwss Hok w L _ Hl Hsim Hq)
    as (w' & osn1 & Hstep & Hl' & Hsim' & Hq' & Htr' & Hh1).
  exists w'. split; [assumption|].
  set (ch := children lns ns0 up L) in *.
  assert (HL : In L (done ++ L :: todo')) by (apply in_or_app; right; left; reflexivity).
  assert (HLnd : ~ In L done).
  { intro Hin. apply NoDup_remove_2 in Hnd. apply Hnd. apply in_or_app. left. assumption. }
  (* facts about the children of L *)
  assert (Hch : forall L', In L' ch -> inhabited ns0 L' /\ L' <> s /\ up_lan ns0 up par L' L).
  { intros L' HL'. unfold ch, children in HL'. apply in_flat_map in HL'. destruct HL' as [x [Hx Hk]].
    destruct (kids_spec _ _ _ _ _ _ _ _ _ Hio Htf Hx Hk) as (wr & j & mj & Hwr & Hr & Hup & Hj & Hju & Hpj & Hlv & Hns).
    destruct (io_members _ _ Hio _ _ Hx) as [m Hport]. unfold port_of in Hport. rewrite Hwr, Hup in Hport.
    split; [|split; [assumption|]].
    - exists (fst x, j), mj. unfold port_of. cbn [fst snd]. rewrite Hwr. exact Hj.
    - exists wr, m. rewrite Hpj. cbn [fst]. split; assumption. }
  assert (Hdisj : forall L', In L' (done ++ L :: todo') -> ~ In L' ch).
  { intros L' Hold Hnew. destruct (Hch L' Hnew) as (_ & Hns & (wr & m & Hwr & Hupp)).
    destruct (Hpar L' Hold Hns) as (lu & (wr2 & m2 & Hwr2 & Hupp2) & Hlu).
    rewrite Hwr in Hwr2. inversion Hwr2; subst wr2. rewrite Hupp in Hupp2. inversion Hupp2; subst lu. contradiction. }
  assert (Hmem : forall z, In z ((done ++ [L]) ++ todo' ++ ch) <-> In z (done ++ L :: todo') \/ In z ch).
  { intro z. rewrite !in_app_iff. cbn [In]. tauto. }
  exists (done ++ [L]), (todo' ++ ch), (osn1 ++ OFrame (ff ns0 par s smac data lv L) :: osn).
  split; [assumption|]. split; [assumption|]. split; [rewrite Hq', map_app; reflexivity|].
  split; [rewrite Htr', Htr, <- app_assoc; reflexivity|].
  split.
  { replace ((done ++ [L]) ++ todo' ++ ch) with ((done ++ L :: todo') ++ ch) by (rewrite <- !app_assoc; reflexivity).
    apply nodup_app; [assumption|eapply children_nodup; eauto|exact Hdisj]. }
  split; [apply Hmem; left; assumption|].
  split.
  { intros L0 H0. apply Hmem in H0. destruct H0 as [H0|H0]; [apply Hinh; assumption|apply (Hch L0 H0)]. }
  split.
  { intros L0 L' H0 H1. apply Hmem. apply in_app_or in H0. destruct H0 as [H0|[H0|[]]].
    - left. apply (Hcl L0 L' H0 H1).
    - subst L0. right. exact H1. }
  split.
  { intros L0 H0 Hns. apply Hmem in H0. destruct H0 as [H0|H0].
    - destruct (Hpar L0 H0 Hns) as (lu & Hul & Hlu). exists lu. split; [assumption|]. apply in_or_app. left. assumption.
    - exists L. split; [apply (Hch L0 H0)|]. apply in_or_app. right. left. reflexivity. }
  assert (Hhe : hearers (osn1 ++ OFrame (ff ns0 par s smac data lv L) :: osn) = hearers osn1 ++ hearers osn).
  { rewrite hearers_app. reflexivity. }
  rewrite Hhe, Hh1. split.
  { apply nodup_app; [|assumption|].
    - apply NoDup_rev. apply hears_nodup. apply (io_once _ _ Hio L).
    - intros who H1 H2. apply in_rev in H1. apply in_flat_map in H1. destruct H1 as [x [Hx Hwx]].
      apply Hhs in H2. destruct H2 as (L2 & y & HL2 & Hy & Hwy).
      apply hears_in in Hwx. apply hears_in in Hwy. destruct Hwx as (E1 & Ha & _), Hwy as (E2 & _ & _).
      assert (L = L2) by (eapply (app_node_lan lns ns0 x y); eauto; congruence). subst L2. contradiction. }
  { intro who. rewrite in_app_iff, <- in_rev, in_flat_map, Hhs. split.
    - intros [(x & Hx & Hwx)|(L2 & y & HL2 & Hy & Hwy)].
      + exists L, x. split; [apply in_or_app; right; left; reflexivity|auto].
      + exists L2, y. split; [apply in_or_app; left; assumption|auto].
    - intros (L2 & y & HL2 & Hy & Hwy). apply in_app_or in HL2. destruct HL2 as [HL2|[HL2|[]]].
      + right. exists L2, y. auto.
      + subst L2. left. exists y. auto. }
Qed.

Lemma inv_run : forall lns ns0 s lv up par src ws smac data T0,
  internet_ok lns ns0 -> tree_from lns ns0 s lv up par ->
  nth_error ns0 src = Some ws -> w_ports ws = [(s, smac)] -> station_shape ws -> apdu_ok data = true ->
  forall k w, Inv lns ns0 s lv up par src smac data T0 w -> Inv lns ns0 s lv up par src smac data T0 (run k w).
Proof.
  intros lns ns0 s lv up par src ws smac data T0 Hio Htf Hws Hwsp Hwss Hok.
  induction k as [|k IH]; intros w Hinv; [exact Hinv|]. cbn [run].
  destruct (queue w) as [|f q] eqn:Hq.
  - unfold step, step_core. rewrite Hq. exact Hinv.
  - destruct (inv_step lns ns0 s lv up par src ws smac data T0 w Hio Htf Hws Hwsp Hwss Hok Hinv) as (w' & Hs & Hinv').
    + rewrite Hq. discriminate.
    + rewrite Hs. apply IH. exact Hinv'.
Qed.

(* when the queue is empty every inhabited LAN has been served *)
Lemma all_done : forall lns ns0 s lv up par done,
  internet_ok lns ns0 -> tree_from lns ns0 s lv up par ->
  In s done -> (forall L L', In L done -> In L' (children lns ns0 up L) -> In L' done) ->
  forall n L, lv L = n -> inhabited ns0 L -> In L done.
Proof.
  intros lns ns0 s lv up par done Hio Htf Hs Hcl. induction n as [|n IH]; intros L Hlv Hinh.
  - rewrite (tf_zero _ _ _ _ _ _ Htf L Hinh Hlv). assumption.
  - destruct (tf_parent _ _ _ _ _ _ Htf L Hinh ltac:(lia)) as (Hpin & wr & Hwr & Hr & Hnup).
    destruct (tf_router _ _ _ _ _ _ Htf _ _ Hwr Hr) as (lu & mu & Hup & Hchild).
    destruct (io_members _ _ Hio _ _ Hpin) as [m Hport]. unfold port_of in Hport. rewrite Hwr in Hport.
    assert (Hlvlu : lv L = S (lv lu)) by (apply (Hchild _ _ _ Hport Hnup)).
    assert (Hinlu : inhabited ns0 lu).
    { exists (fst (par L), up (fst (par L))), mu. unfold port_of. cbn [fst snd]. rewrite Hwr. exact Hup. }
    apply (Hcl lu L).
    + apply IH; [lia|assumption].
    + unfold children. apply in_flat_map. exists (fst (par L), up (fst (par L))). split.
      * eapply io_listed; eauto. unfold port_of. cbn [fst snd]. rewrite Hwr. exact Hup.
      * eapply kids_complete; eauto.
Qed.

(* C06_tree_global_broadcast_once *)
Theorem tree_global_broadcast_once : forall w s lv up par src ws smac data,
  internet_ok (lans w) (nodes w) -> tree_from (lans w) (nodes w) s lv up par -> queue w = [] ->
  nth_error (nodes w) src = Some ws -> w_ports ws = [(s, smac)] -> station_shape ws -> apdu_ok data = true ->
  let w0 := submit w src AGB data in
  exists k osn, queue (run k w0) = [] /\ (forall k', (k <= k')%nat -> run k' w0 = run k w0) /\
    trace (run k w0) = osn ++ trace w /\ NoDup (hearers osn) /\
    forall who, In who (hearers osn) <->
                (who <> src /\ exists wn, nth_error (nodes w) who = Some wn /\ station_shape wn).
Proof.
  intros w s lv up par src ws smac data Hio Htf Hq Hws Hwsp Hwss Hok w0.
  pose proof Hwss as (l0 & m0 & a & Hp0 & Ha & Hn & Hh). rewrite Hwsp in Hp0. inversion Hp0; subst l0 m0.
  set (F := ff (nodes w) par s smac data lv).
  assert (Hw0 : w0 = mkWorld (set_nth (nodes w) src (mkW (w_node ws) (w_ports ws))) (lans w) [F s] (trace w)).
  { unfold w0, submit. rewrite Hws. unfold indication, local_idx, nth_adapter, modelled_config, all_ports. rewrite Ha.
    cbn [last_with_addr].
    assert (Hl : match match a_mac a with Some _ => Some 0%nat | None => None end with Some i => i | None => 0%nat end = 0%nat)
      by (destruct (a_mac a); reflexivity).
    rewrite Hl. cbn [nth_error negb length seq map emit w_ports]. rewrite Hwsp. cbn [nth_error]. rewrite Hq.
    unfold F, ff, sender_mac. rewrite N.eqb_refl, (tf_root _ _ _ _ _ _ Htf). reflexivity. }
  assert (Hinv0 : Inv (lans w) (nodes w) s lv up par src smac data (trace w) w0).
  { exists [], [s], []. rewrite Hw0. cbn [lans nodes queue trace app map].
    split; [reflexivity|]. split; [apply sim_set_same; assumption|]. split; [reflexivity|]. split; [reflexivity|].
    split; [repeat constructor; intros []|]. split; [left; reflexivity|].
    split. { intros L [E|[]]. subst L. exists (src, 0%nat), smac. unfold port_of. cbn [fst snd]. rewrite Hws, Hwsp. reflexivity. }
    split; [intros L L' []|]. split; [intros L [E|[]] Hne; congruence|].
    split; [constructor|]. intro who. cbn. split; [intros []|intros (L & x & [] & _)]. }
  destruct (global_broadcast_from_quiet_terminates w src data Hq) as [k Hk]. fold w0 in Hk.
  pose proof (inv_run _ _ _ _ _ _ _ _ _ _ (trace w) Hio Htf Hws Hwsp Hwss Hok k w0 Hinv0)
    as (done & todo & osn & Hl & Hsim & Hqk & Htr & Hnd & Hs & Hinh & Hcl & Hpar & Hhn & Hhs).
  rewrite Hk in Hqk. destruct todo; [|discriminate]. rewrite app_nil_r in *.
  exists k, osn. split; [assumption|]. split.
  { intros k' Hk'. replace k' with (k + (k' - k))%nat by lia. rewrite run_add. apply run_quiet. assumption. }
  split; [assumption|]. split; [assumption|].
  intro who. rewrite Hhs. split.
  - intros (L & x & HL & Hx & Hwx). apply hears_in in Hwx. destruct Hwx as (E & Happ & Hne). subst who.
    split; [assumption|]. unfold appb in Happ. destruct (nth_error (nodes w) (fst x)) as [wn|] eqn:Ew; [|discriminate].
    exists wn. split; [reflexivity|].
    destruct (io_shape _ _ Hio _ _ Ew) as [(_ & _ & _ & Hh')|Hst]; [congruence|assumption].
  - intros (Hne & wn & Hwn & Hst). pose proof Hst as (L & m & a' & Hp & _ & _ & Hh').
    assert (Hport : port_of (nodes w) (who, 0%nat) = Some (L, m)) by (unfold port_of; cbn [fst snd]; rewrite Hwn, Hp; reflexivity).
    exists L, (who, 0%nat). split; [|split].
    + apply (all_done _ _ _ _ _ _ done Hio Htf Hs (fun L0 L' H0 H1 => Hcl L0 L' H0 H1) (lv L) L eq_refl). exists (who, 0%nat), m. assumption.
    + eapply io_listed; eauto.
    + unfold hears, appb. cbn [fst]. rewrite Hwn, Hh'. destruct (Nat.eqb_spec who src); [contradiction|]. left. reflexivity.
Qed.
