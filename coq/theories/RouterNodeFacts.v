(* RouterNodeFacts.v — the traffic a node emits follows its routing knowledge (property C19). *)
From Bac Require Import Base RouterCache RouterCacheFacts RouterCacheRenum RouterNode.
Open Scope Z_scope.

(* ---- the look-up over the adapters *)
Lemma route_in_sound : forall c ads d sn x, route_in c ads d = Some (sn, x) ->
  In sn ads /\ pget c sn d = Some x.
Proof.
  intros c ads d sn x. induction ads as [|s r IH]; cbn [route_in]; [discriminate|].
  destruct (pget c s d) as [a|] eqn:E.
  - intros [= <- <-]. split; [left; reflexivity|exact E].
  - intros H. destruct (IH H) as [Hin Hp]. split; [right; exact Hin|exact Hp].
Qed.

Lemma route_in_complete : forall c ads d sn x, In sn ads -> pget c sn d = Some x ->
  exists hop, route_in c ads d = Some hop.
Proof.
  intros c ads d sn x. induction ads as [|s r IH]; intros Hin Hp; [contradiction|].
  cbn [route_in]. destruct (pget c s d) as [a|] eqn:E; [eauto|].
  destruct Hin as [->|Hin]; [congruence|]. apply IH; assumption.
Qed.

Lemma route_in_none : forall c ads d, (forall sn, In sn ads -> pget c sn d = None) -> route_in c ads d = None.
Proof.
  intros c ads d. induction ads as [|s r IH]; intros H; [reflexivity|].
  cbn [route_in]. rewrite (H s (or_introl eq_refl)). apply IH. intros sn Hin. apply H. right. exact Hin.
Qed.

(* ---- release of parked requests by an announcement *)
Lemma release_keeps_none : forall sn a ds p d, aget Z.eqb d p = None ->
  aget Z.eqb d (fst (release sn a ds p)) = None.
Proof.
  intros sn a ds. induction ds as [|x r IH]; intros p d H; [exact H|].
  cbn [release]. destruct (aget Z.eqb x p) as [tags|] eqn:E.
  - destruct (release sn a r (adel Z.eqb x p)) as [p' out] eqn:R. cbn [fst].
    change p' with (fst (p', out)). rewrite <- R. apply IH.
    rewrite (aget_adel Z.eqb Z.eqb_eq). destruct (d =? x); [reflexivity|exact H].
  - apply IH. exact H.
Qed.

(* nothing stays parked for a listed destination, wherever it stands in the list *)
Lemma release_clears : forall sn a ds p d, In d ds -> aget Z.eqb d (fst (release sn a ds p)) = None.
Proof.
  intros sn a ds. induction ds as [|x r IH]; intros p d Hin; [contradiction|].
  cbn [release]. destruct (Z.eq_dec x d) as [->|Hne].
  - destruct (aget Z.eqb d p) as [tags|] eqn:E.
    + destruct (release sn a r (adel Z.eqb d p)) as [p' out] eqn:R. cbn [fst].
      change p' with (fst (p', out)). rewrite <- R. apply release_keeps_none.
      rewrite (aget_adel Z.eqb Z.eqb_eq), Z.eqb_refl. reflexivity.
    + apply release_keeps_none. exact E.
  - destruct Hin as [->|Hin]; [contradiction|].
    destruct (aget Z.eqb x p) as [tags|] eqn:E.
    + destruct (release sn a r (adel Z.eqb x p)) as [p' out] eqn:R. cbn [fst].
      change p' with (fst (p', out)). rewrite <- R. apply IH. exact Hin.
    + apply IH. exact Hin.
Qed.

(* every parked request for a listed destination is handed to the announcing router *)
Lemma release_sends : forall sn a ds p d tags t, In d ds -> aget Z.eqb d p = Some tags -> In t tags ->
  In (Send sn a d t None) (snd (release sn a ds p)).
Proof.
  intros sn a ds. induction ds as [|x r IH]; intros p d tags t Hin Hp Ht; [contradiction|].
  cbn [release]. destruct (Z.eq_dec x d) as [->|Hne].
  - rewrite Hp. destruct (release sn a r (adel Z.eqb d p)) as [p' out]. cbn [snd].
    apply in_or_app. left. apply in_map_iff. exists t. auto.
  - destruct Hin as [->|Hin]; [contradiction|].
    destruct (aget Z.eqb x p) as [tx|] eqn:E.
    + destruct (release sn a r (adel Z.eqb x p)) as [p' out] eqn:R. cbn [snd].
      apply in_or_app. right. change out with (snd (p', out)). rewrite <- R.
      apply (IH _ d tags t Hin); [|exact Ht].
      rewrite (aget_adel Z.eqb Z.eqb_eq). destruct (d =? x) eqn:Ed; [apply Z.eqb_eq in Ed; congruence|exact Hp].
    + apply (IH _ d tags t Hin Hp Ht).
Qed.

(* ... and nothing else is emitted by the release *)
Lemma release_only : forall sn a ds p e, In e (snd (release sn a ds p)) ->
  exists d t, e = Send sn a d t None /\ In d ds.
Proof.
  intros sn a ds. induction ds as [|x r IH]; intros p e H; [contradiction|].
  cbn [release] in H. destruct (aget Z.eqb x p) as [tx|].
  - destruct (release sn a r (adel Z.eqb x p)) as [p' out] eqn:R. cbn [snd] in H.
    apply in_app_or in H. destruct H as [H|H].
    + apply in_map_iff in H. destruct H as [t [<- _]]. exists x, t. split; [reflexivity|left; reflexivity].
    + change out with (snd (p', out)) in H. rewrite <- R in H. destruct (IH _ _ H) as [d [t [He Hd]]].
      exists d, t. split; [exact He|right; exact Hd].
  - destruct (IH _ _ H) as [d [t [He Hd]]]. exists d, t. split; [exact He|right; exact Hd].
Qed.

(* ---- the handler of I-Am-Router-To-Network *)
Lemma node_iam_ok : forall n sn a ds, Inv (ncache n) ->
  exists n', fst (node_iam n sn a ds) = Ok n' /\ Inv (ncache n') /\ nadapters n' = nadapters n /\
    (forall sn0 d0, get_router_info (ncache n') sn0 d0 =
       if (sn0 =? sn) && zmem d0 ds then Some a else get_router_info (ncache n) sn0 d0) /\
    (forall d, In d ds -> aget Z.eqb d (npending n') = None) /\
    (forall d tags t, In d ds -> aget Z.eqb d (npending n) = Some tags -> In t tags ->
       In (Send sn a d t None) (snd (node_iam n sn a ds))) /\
    (forall e, In e (snd (node_iam n sn a ds)) -> exists d t, e = Send sn a d t None /\ In d ds).
Proof.
  intros n sn a ds [Hcoh Hwf]. unfold node_iam.
  destruct (update_ok (ncache n) sn a ds 0 Hcoh) as [c' [H [Hc Hp]]]. rewrite H.
  destruct (release sn a ds (npending n)) as [p' out] eqn:R. cbn [fst snd].
  eexists. split; [reflexivity|]. cbn [ncache nadapters npending].
  split; [split; [exact Hc|apply (update_wf _ _ _ _ _ _ Hwf H)]|]. split; [reflexivity|]. split; [exact Hp|].
  split; [|split].
  - intros d Hd. change p' with (fst (p', out)). rewrite <- R. apply release_clears. exact Hd.
  - intros d tags t Hd Hg Ht. change out with (snd (p', out)). rewrite <- R. apply (release_sends _ _ _ _ d tags t Hd Hg Ht).
  - intros e He. change out with (snd (p', out)) in He. rewrite <- R in He. apply (release_only _ _ _ _ _ He).
Qed.

(* ---- requests of the node's own application *)
Lemma node_req_known : forall n d t sn x, aget Z.eqb d (npending n) = None -> route n d = Some (sn, x) ->
  node_req n d t = (n, [Send sn x d t None]).
Proof. intros n d t sn x Hp Hr. unfold node_req. rewrite Hp, Hr. reflexivity. Qed.

Lemma node_req_unknown : forall n d t, aget Z.eqb d (npending n) = None -> route n d = None ->
  node_req n d t = (mkN (ncache n) (nadapters n) (aset Z.eqb d [t] (npending n)),
                    map (fun sn => WhoIs sn d) (nadapters n)).
Proof. intros n d t Hp Hr. unfold node_req. rewrite Hp, Hr. reflexivity. Qed.

(* after an announcement heard on an attached network, a request for any listed destination is not
   parked: it leaves at once towards a router the cache names for it *)
Lemma req_after_iam : forall n sn a ds n' d t, Inv (ncache n) -> In sn (nadapters n) ->
  fst (node_iam n sn a ds) = Ok n' -> In d ds ->
  exists sn0 x, node_req n' d t = (n', [Send sn0 x d t None]) /\ In sn0 (nadapters n') /\
                get_router_info (ncache n') sn0 d = Some x.
Proof.
  intros n sn a ds n' d t Hinv Hsn Hok Hd.
  destruct (node_iam_ok n sn a ds Hinv) as [n1 [H1 [_ [Hads [Hp [Hclr _]]]]]].
  assert (n1 = n') by congruence. subst n1.
  assert (Hg : pget (ncache n') sn d = Some a).
  { specialize (Hp sn d). unfold get_router_info in Hp. rewrite Hp, Z.eqb_refl.
    apply zmem_spec in Hd. rewrite Hd. reflexivity. }
  destruct (route_in_complete (ncache n') (nadapters n') d sn a) as [[sn0 x] Hr]; [rewrite Hads; exact Hsn|exact Hg|].
  exists sn0, x. split; [apply node_req_known; [apply Hclr; exact Hd|exact Hr]|].
  apply route_in_sound in Hr. exact Hr.
Qed.

(* ---- routed through-traffic: the next hop does not depend on the adapter the frame arrived on *)
Lemma node_fwd_known : forall n arr a snet d n' out sn x,
  node_fwd n arr a snet d = (Ok n', out) ->
  zmem snet (nadapters n) = false -> zmem d (nadapters n) = false -> (d =? arr) = false ->
  route n' d = Some (sn, x) -> out = [Send sn x d 0 (Some snet)].
Proof.
  intros n arr a snet d n' out sn x H Hs Hd Ha Hr. unfold node_fwd in H. rewrite Hs in H.
  destruct (update_router_info (ncache n) arr a [snet] 0) as [c'|e]; [|discriminate].
  rewrite Ha, Hd in H.
  destruct (route (mkN c' (nadapters n) (npending n)) d) as [[sn1 x1]|] eqn:E.
  - injection H as <- <-. rewrite E in Hr. injection Hr as -> ->. reflexivity.
  - injection H as <- <-. rewrite E in Hr. discriminate.
Qed.

(* in particular a router known on the ARRIVAL network is used (no Who-Is-Router instead) *)
Lemma node_fwd_arrival_net : forall n arr a snet d x, Inv (ncache n) -> In arr (nadapters n) ->
  zmem snet (nadapters n) = false -> zmem d (nadapters n) = false -> snet <> d ->
  get_router_info (ncache n) arr d = Some x ->
  (forall sn, In sn (nadapters n) -> sn <> arr -> get_router_info (ncache n) sn d = None) ->
  exists n', node_fwd n arr a snet d = (Ok n', [Send arr x d 0 (Some snet)]).
Proof.
  intros n arr a snet d x [Hcoh Hwf] Harr Hs Hd Hne Hk Hothers.
  unfold node_fwd. rewrite Hs.
  destruct (update_ok (ncache n) arr a [snet] 0 Hcoh) as [c' [H [_ Hp]]]. rewrite H.
  assert (Hda : (d =? arr) = false).
  { destruct (d =? arr) eqn:E; [|reflexivity]. apply Z.eqb_eq in E. subst d.
    apply zmem_spec in Harr. congruence. }
  rewrite Hda, Hd.
  assert (Hsame : forall sn0, pget c' sn0 d = pget (ncache n) sn0 d).
  { intros sn0. rewrite Hp. cbn [zmem existsb]. destruct (d =? snet) eqn:E; [apply Z.eqb_eq in E; congruence|].
    rewrite orb_false_r, andb_false_r. reflexivity. }
  assert (Hr : route (mkN c' (nadapters n) (npending n)) d = Some (arr, x)).
  { unfold route. cbn [ncache nadapters]. clear Hda Hd Hs.
    induction (nadapters n) as [|s r IH]; [contradiction|]. cbn [route_in]. rewrite Hsame.
    destruct (Z.eq_dec s arr) as [->|Hsa].
    - unfold get_router_info in Hk. rewrite Hk. reflexivity.
    - rewrite (Hothers s (or_introl eq_refl) Hsa : pget (ncache n) s d = None).
      destruct Harr as [->|Harr]; [contradiction|]. apply IH; [exact Harr|].
      intros sn Hin. apply Hothers. right. exact Hin. }
  rewrite Hr. eexists. reflexivity.
Qed.

(* ---- the announcement is repeated on the other adapters after it was recorded (node_iam_full) *)
Lemma node_iam_full_spec : forall n sn a ds,
  fst (node_iam_full n sn a ds) = fst (node_iam n sn a ds) /\
  (forall n', fst (node_iam n sn a ds) = Ok n' ->
     snd (node_iam_full n sn a ds) = iam_relay n sn ds ++ snd (node_iam n sn a ds)) /\
  (forall x, (2 <= length (nadapters n))%nat -> In x (nadapters n) -> x <> sn -> In (IAmR x None ds) (iam_relay n sn ds)) /\
  (forall e, In e (iam_relay n sn ds) -> exists x, e = IAmR x None ds /\ In x (nadapters n) /\ x <> sn).
Proof.
  intros n sn a ds. unfold node_iam_full. destruct (node_iam n sn a ds) as [[n1|e1] out] eqn:E; cbn [fst snd].
  - split; [reflexivity|]. split; [intros n' _; reflexivity|]. split.
    + intros x Hlen Hin Hne. unfold iam_relay.
      destruct (length (nadapters n) <=? 1)%nat eqn:L; [apply Nat.leb_le in L; lia|].
      apply in_map_iff. exists x. split; [reflexivity|]. apply filter_In. split; [exact Hin|].
      destruct (x =? sn) eqn:Ex; [apply Z.eqb_eq in Ex; contradiction|reflexivity].
    + intros e He. unfold iam_relay in He. destruct (length (nadapters n) <=? 1)%nat; [contradiction|].
      apply in_map_iff in He. destruct He as [x [<- Hx]]. apply filter_In in Hx. destruct Hx as [Hin Hb].
      exists x. split; [reflexivity|]. split; [exact Hin|]. intros ->. rewrite Z.eqb_refl in Hb. discriminate.
  - split; [reflexivity|]. split; [intros n' H; discriminate|]. split.
    + intros x Hlen Hin Hne. unfold iam_relay.
      destruct (length (nadapters n) <=? 1)%nat eqn:L; [apply Nat.leb_le in L; lia|].
      apply in_map_iff. exists x. split; [reflexivity|]. apply filter_In. split; [exact Hin|].
      destruct (x =? sn) eqn:Ex; [apply Z.eqb_eq in Ex; contradiction|reflexivity].
    + intros e He. unfold iam_relay in He. destruct (length (nadapters n) <=? 1)%nat; [contradiction|].
      apply in_map_iff in He. destruct He as [x [<- Hx]]. apply filter_In in Hx. destruct Hx as [Hin Hb].
      exists x. split; [reflexivity|]. split; [exact Hin|]. intros ->. rewrite Z.eqb_refl in Hb. discriminate.
Qed.

(* ---- Who-Is-Router-To-Network: the node claims a remote network exactly when its knowledge names a next
   hop for it, found on an adapter other than the one the question arrived on *)
Lemma node_whois_claim : forall n arr a d e, zmem d (nadapters n) = false -> In e (node_whois n arr a d) ->
  (e = IAmR arr (Some a) [d] /\ node_whois n arr a d = [e] /\
   exists sn x, route n d = Some (sn, x) /\ In sn (nadapters n) /\ sn <> arr /\ get_router_info (ncache n) sn d = Some x)
  \/ (exists sn, e = WhoIsFwd sn d arr a /\ In sn (nadapters n) /\ sn <> arr /\
      forall sn0, In sn0 (nadapters n) -> get_router_info (ncache n) sn0 d = None).
Proof.
  intros n arr a d e Hd He. unfold node_whois in *. destruct (length (nadapters n) <=? 1)%nat; [contradiction|].
  rewrite Hd in *. destruct (route n d) as [[sn x]|] eqn:R.
  - left. destruct (sn =? arr) eqn:Es; [contradiction|]. destruct He as [<-|[]].
    split; [reflexivity|]. split; [reflexivity|]. exists sn, x. split; [reflexivity|].
    apply route_in_sound in R. destruct R as [Hin Hp]. split; [exact Hin|]. split; [|exact Hp].
    intros ->. rewrite Z.eqb_refl in Es. discriminate.
  - right. destruct (arr =? -1); [contradiction|]. apply in_map_iff in He. destruct He as [sn [<- Hs]]. apply filter_In in Hs. destruct Hs as [Hin Hb].
    exists sn. split; [reflexivity|]. split; [exact Hin|]. split; [intros ->; rewrite Z.eqb_refl in Hb; discriminate|].
    intros sn0 Hin0. unfold get_router_info. destruct (pget (ncache n) sn0 d) as [x|] eqn:P; [|reflexivity].
    destruct (route_in_complete (ncache n) (nadapters n) d sn0 x Hin0 P) as [hop Hh]. unfold route in R. congruence.
Qed.

(* known on another adapter and not on the arrival adapter: answered, to the asker, for exactly d *)
Lemma node_whois_answered : forall n arr a d sn x, (2 <= length (nadapters n))%nat -> zmem d (nadapters n) = false ->
  get_router_info (ncache n) arr d = None -> In sn (nadapters n) -> get_router_info (ncache n) sn d = Some x ->
  node_whois n arr a d = [IAmR arr (Some a) [d]].
Proof.
  intros n arr a d sn x Hlen Hd Harr Hin Hk. unfold node_whois.
  destruct (length (nadapters n) <=? 1)%nat eqn:L; [apply Nat.leb_le in L; lia|]. rewrite Hd.
  destruct (route_in_complete (ncache n) (nadapters n) d sn x Hin Hk) as [[sn0 x0] Hh]. unfold route. rewrite Hh.
  apply route_in_sound in Hh. destruct Hh as [_ Hp].
  destruct (sn0 =? arr) eqn:E; [|reflexivity]. apply Z.eqb_eq in E. subst sn0.
  unfold get_router_info in Harr. congruence.
Qed.

(* nothing known on any attached network: no claim; the question goes to every other adapter *)
Lemma node_whois_unknown : forall n arr a d, (2 <= length (nadapters n))%nat -> zmem d (nadapters n) = false -> arr <> -1 ->
  (forall sn, In sn (nadapters n) -> get_router_info (ncache n) sn d = None) ->
  node_whois n arr a d = map (fun sn => WhoIsFwd sn d arr a) (filter (fun sn => negb (sn =? arr)) (nadapters n)).
Proof.
  intros n arr a d Hlen Hd Hnum Hk. unfold node_whois.
  destruct (length (nadapters n) <=? 1)%nat eqn:L; [apply Nat.leb_le in L; lia|]. rewrite Hd.
  unfold route. rewrite (route_in_none (ncache n) (nadapters n) d Hk).
  destruct (arr =? -1) eqn:E; [apply Z.eqb_eq in E; contradiction|reflexivity].
Qed.

(* after an announcement heard on another attached network the node answers for every listed (remote)
   destination it had no next hop for on the asking network: the claim follows the CURRENT knowledge *)
Lemma node_whois_after_announcement : forall n sn a ds n' arr b d, Inv (ncache n) ->
  (2 <= length (nadapters n))%nat -> In sn (nadapters n) -> sn <> arr -> zmem d (nadapters n) = false -> In d ds ->
  get_router_info (ncache n) arr d = None ->
  fst (node_iam n sn a ds) = Ok n' ->
  node_whois n' arr b d = [IAmR arr (Some b) [d]].
Proof.
  intros n sn a ds n' arr b d Hinv Hlen Hsn Hne Hd Hin Harr Hok.
  destruct (node_iam_ok n sn a ds Hinv) as [n1 [H1 [_ [Hads [Hp _]]]]].
  assert (n1 = n') by congruence. subst n1.
  apply (node_whois_answered n' arr b d sn a); rewrite ?Hads; try assumption.
  - rewrite Hp. destruct (arr =? sn) eqn:E; [apply Z.eqb_eq in E; congruence|]. cbn [andb]. exact Harr.
  - rewrite Hp, Z.eqb_refl. apply zmem_spec in Hin. rewrite Hin. reflexivity.
Qed.
