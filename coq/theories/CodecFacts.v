(* CodecFacts.v — lemmas about Codec.v (round trip of the generic constructed-data codec). *)
From Bac Require Import Base BytesFacts Tag TagFacts Schema Codec.
From Coq Require Import ZifyBool ZifyN ZifyNat.
Ltac Zify.zify_post_hook ::= Z.to_euclidean_division_equations.
Open Scope N_scope.
