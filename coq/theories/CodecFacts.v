(* CodecFacts.v — lemmas about Codec.v (round trip of the generic constructed-data codec). *)
From Bac Require Import Base.
From Bac Require Import BytesFacts.
From Bac Require Import Tag.
From Bac Require Import TagFacts.
From Bac Require Import Schema.
From Bac Require Import Codec.
From Coq Require Import ZifyBool ZifyN ZifyNat.
Ltac Zify.zify_post_hook ::= Z.to_euclidean_division_equations.
Open Scope N_scope.
