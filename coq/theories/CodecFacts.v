(* CodecFacts.v — lemmas about Codec.v: FIRST-set correctness and the round trip of the generic
   constructed-data codec for the [supported] fragment of the schema language. *)
From Bac Require Import Base.
From Bac Require Import BytesFacts.
From Bac Require Import Tag.
From Bac Require Import TagFacts.
From Bac Require Import Schema.
From Bac Require Import Codec.
From Coq Require Import ZifyBool ZifyN ZifyNat.
Ltac Zify.zify_post_hook ::= Z.to_euclidean_division_equations.
Open Scope N_scope.

(* ---------- well-typed values ---------- *)
(* a leaf: the application tag an atomic class with tag number k produces and accepts *)
Definition leaf_ok (k : N) (x : tag) : Prop :=
  cls x = 0 /\ num x = k /\ atom_check k x = Ok tt /\
  (if k =? 1 then data x = [] /\ lvt x < 256 else lvt x = lenN (data x)).

Fixpoint has_ty (t : ty) (v : val) {struct t} : Prop :=
  match t with
  | TAtom k => match v with VAtom x => leaf_ok k x | _ => False end
  | TAnyAtomic => match v with VAtom x => num x <= 12 /\ leaf_ok (num x) x | _ => False end
  | TAny | TSeqOfAny => match v with VTags ts => balanced ts | _ => False end
  | TSeq els =>
      match v with
      | VSeq fs =>
          (fix go (l : list elem) (fs : list (option val)) {struct l} : Prop :=
             match l, fs with
             | [], [] => True
             | e :: l', f :: fs' => has_el e f /\ go l' fs'
             | _, _ => False
             end) els fs
      | _ => False
      end
  | TChoice els =>
      match v with
      | VChoice i w =>
          (fix go (l : list elem) (i : nat) {struct l} : Prop :=
             match l, i with
             | [], _ => False
             | e :: _, O => sup_alt e = true /\ has_el e (Some w)
             | e :: r, S j => sup_alt e = true /\ go r j
             end) els i
      | _ => False
      end
  | TSeqOf s => match v with VList vs => Forall (has_ty s) vs | _ => False end
  | TArrayOf s f =>
      match v with
      | VList vs => Forall (has_ty s) vs /\ match f with Some n => lenN vs = n | None => True end
      | _ => False
      end
  | TNameValue =>            (* name, then nothing / one atomic value / a DateTime *)
      match v with
      | VSeq [Some (VAtom n); o] =>
          leaf_ok 7 n /\
          match o with
          | None => True
          | Some (VAtom x) => num x <= 12 /\ leaf_ok (num x) x
          | Some (VSeq [Some (VAtom d); Some (VAtom t)]) => leaf_ok 10 d /\ leaf_ok 11 t
          | _ => False
          end
      | _ => False
      end
  end
with has_el (e : elem) (f : option val) {struct e} : Prop :=
  match e with
  | El t _ o => match f with None => o = true | Some v => has_ty t v end
  end.

Fixpoint has_fields (l : list elem) (fs : list (option val)) {struct l} : Prop :=
  match l, fs with
  | [], [] => True
  | e :: l', f :: fs' => has_el e f /\ has_fields l' fs'
  | _, _ => False
  end.
Fixpoint has_alt (l : list elem) (i : nat) (w : val) {struct l} : Prop :=
  match l, i with
  | [], _ => False
  | e :: _, O => sup_alt e = true /\ has_el e (Some w)
  | e :: r, S j => sup_alt e = true /\ has_alt r j w
  end.

Lemma has_ty_seq els fs : has_ty (TSeq els) (VSeq fs) = has_fields els fs.
Proof. reflexivity. Qed.
Lemma has_ty_choice els i w : has_ty (TChoice els) (VChoice i w) = has_alt els i w.
Proof.
  cbn [has_ty]. revert i. induction els as [|e r IH]; intros i; [reflexivity|].
  destruct i as [|j]; [reflexivity|]. cbn [has_alt]. rewrite <- IH. reflexivity.
Qed.

(* ---------- induction principle for the nested type ---------- *)
Definition ty_ind2 (P : ty -> Prop) (Q : elem -> Prop)
  (Hatom : forall k, P (TAtom k)) (Haa : P TAnyAtomic) (Hany : P TAny) (Hsoa : P TSeqOfAny)
  (Hseq : forall els, Forall Q els -> P (TSeq els))
  (Hch : forall els, Forall Q els -> P (TChoice els))
  (Hof : forall s, P s -> P (TSeqOf s))
  (Harr : forall s f, P s -> P (TArrayOf s f))
  (Hnv : P TNameValue)
  (Hel : forall t c o, P t -> Q (El t c o)) : forall t, P t :=
  fix F (t : ty) : P t :=
    match t with
    | TAtom k => Hatom k
    | TAnyAtomic => Haa
    | TAny => Hany
    | TSeqOfAny => Hsoa
    | TSeq els =>
        Hseq els ((fix G (l : list elem) : Forall Q l :=
                     match l with
                     | [] => Forall_nil Q
                     | e :: r => Forall_cons e (match e with El t c o => Hel t c o (F t) end) (G r)
                     end) els)
    | TChoice els =>
        Hch els ((fix G (l : list elem) : Forall Q l :=
                    match l with
                    | [] => Forall_nil Q
                    | e :: r => Forall_cons e (match e with El t c o => Hel t c o (F t) end) (G r)
                    end) els)
    | TSeqOf s => Hof s (F s)
    | TArrayOf s f => Harr s f (F s)
    | TNameValue => Hnv
    end.

(* ---------- patterns ---------- *)
Definition rest_ok (ps : list pat) (rest : list tag) : Prop :=
  match rest with [] => True | x :: _ => cls x = 3 \/ pmatch_any ps x = false end.

Lemma rest_ok_app ps qs rest : rest_ok (ps ++ qs) rest <-> rest_ok ps rest /\ rest_ok qs rest.
Proof.
  destruct rest as [|x r]; cbn [rest_ok]; [tauto|].
  unfold pmatch_any. rewrite existsb_app, orb_false_iff. tauto.
Qed.
Lemma rest_ok_nil rest : rest_ok [] rest.
Proof. destruct rest; cbn; auto. Qed.
Lemma rest_ok_closing ps x r : cls x = 3 -> rest_ok ps (x :: r).
Proof. cbn; auto. Qed.

Lemma rest_ok_any rest : rest_ok [PAny] rest ->
  rest = [] \/ exists c r, rest = c :: r /\ cls c = 3.
Proof.
  destruct rest as [|c r]; [auto|]. cbn [rest_ok pmatch_any existsb pmatch]. rewrite orb_false_r.
  intros [H|H]; right; exists c, r; split; auto; lia.
Qed.

Lemma pdisj_sound p q x : pdisj p q = true -> pmatch p x = true -> pmatch q x = false.
Proof. destruct p, q; cbn [pdisj pmatch]; intros; try discriminate; lia. Qed.

Lemma pdisj_all_sound ps qs x :
  pdisj_all ps qs = true -> pmatch_any qs x = true -> pmatch_any ps x = false.
Proof.
  unfold pdisj_all, pmatch_any. intros H Hq.
  apply existsb_exists in Hq as [q [Hq1 Hq2]].
  destruct (existsb (fun p => pmatch p x) ps) eqn:E; [|reflexivity].
  apply existsb_exists in E as [p [Hp1 Hp2]].
  rewrite forallb_forall in H. specialize (H p Hp1). rewrite forallb_forall in H.
  specialize (H q Hq1). rewrite (pdisj_sound p q x H Hp2) in Hq2. discriminate.
Qed.

Lemma pmatch_any_not_closing ps x : pmatch_any ps x = true -> cls x <> 3.
Proof.
  unfold pmatch_any. intros H. apply existsb_exists in H as [p [_ Hp]].
  destruct p; cbn [pmatch] in Hp; lia.
Qed.

(* the head of  b ++ rest  avoids ps when the head of b is in qs (disjoint from ps), or b is empty
   and rest avoids ps *)
Lemma rest_ok_step ps qs b rest :
  pdisj_all ps qs = true ->
  (forall x b', b = x :: b' -> pmatch_any qs x = true) ->
  (b = [] -> rest_ok ps rest) ->
  rest_ok ps (b ++ rest).
Proof.
  intros Hd Hh He. destruct b as [|x b'].
  - cbn [app]. auto.
  - cbn [app rest_ok]. right. eapply pdisj_all_sound; eauto.
Qed.

Lemma first_seq_cons e r : first (TSeq (e :: r)) = first_el e ++ (if nullable_el e then first (TSeq r) else []).
Proof. reflexivity. Qed.

(* ---------- leaves ---------- *)
Lemma tag_eta x : mkTag (cls x) (num x) (lvt x) (data x) = x.
Proof. destruct x; reflexivity. Qed.

Lemma leaf_ctx_roundtrip k c x : leaf_ok k x ->
  exists x', app_to_context c x = Ok x' /\ cls x' = 1 /\ num x' = c /\ context_to_app k x' = Ok x.
Proof.
  intros (Hc & Hn & _ & Hk). destruct x as [c0 n0 l0 d0]. cbn [cls num lvt data] in *. subst c0 n0.
  unfold app_to_context. cbn [cls num lvt data N.eqb negb].
  destruct (k =? 1) eqn:E.
  - destruct Hk as [Hd Hl]. subst d0.
    destruct (l0 <? 256) eqn:E2; [|lia].
    eexists; split; [reflexivity|]. cbn [cls num]. repeat split.
    unfold context_to_app. cbn [cls data N.eqb Pos.eqb negb]. rewrite E.
    assert (k = 1) as -> by lia. reflexivity.
  - eexists; split; [reflexivity|]. cbn [cls num]. repeat split.
    unfold context_to_app. cbn [cls data N.eqb Pos.eqb negb]. rewrite E. subst l0. reflexivity.
Qed.

Lemma leaf_check k x : leaf_ok k x -> atom_check k x = Ok tt.
Proof. intros (_ & _ & H & _). exact H. Qed.

(* ---------- statements proved by induction over the schema ---------- *)
Definition RT (t : ty) : Prop := forall v ts rest,
  has_ty t v -> encode t v = Ok ts -> rest_ok (avoid t) rest -> decode t (ts ++ rest) = Ok (v, rest).
Definition FST (t : ty) : Prop := forall v x ts,
  has_ty t v -> encode t v = Ok (x :: ts) -> pmatch_any (first t) x = true.
Definition NN (t : ty) : Prop := nullable t = false -> forall v, has_ty t v -> encode t v <> Ok [].
Definition good (t : ty) : Prop := supported t = true -> wf_ty t = true -> RT t /\ FST t /\ NN t.

Definition RTe (e : elem) : Prop := forall f ts rest,
  has_el e f -> enc_el encode e f = Ok ts -> rest_ok (avoid_el e) rest ->
  dec_el decode e (ts ++ rest) = Ok (f, rest).
Definition FSTe (e : elem) : Prop := forall f x ts,
  has_el e f -> enc_el encode e f = Ok (x :: ts) -> pmatch_any (first_el e) x = true.
Definition NNe (e : elem) : Prop := nullable_el e = false -> forall f, has_el e f -> enc_el encode e f <> Ok [].
(* an alternative of a Choice *)
Definition ALT (e : elem) : Prop := forall w ts,
  has_el e (Some w) -> enc_alt encode e w = Ok ts ->
  exists x ts', ts = x :: ts' /\ pmatch_any (first_el e) x = true /\
    forall more i rest, dec_alts decode (e :: more) i x (ts' ++ rest) = Ok (VChoice i w, rest).
Definition goode (e : elem) : Prop :=
  wf_el e = true ->
  (sup_seq_el e = true -> RTe e /\ FSTe e /\ NNe e) /\ (sup_alt e = true -> ALT e).

(* ---------- the four encoders of an element ---------- *)
Lemma bind_ok {A B} (r : res A) (f : A -> res B) b :
  bind r f = Ok b -> exists a, r = Ok a /\ f a = Ok b.
Proof. destruct r; cbn [bind]; [eauto|discriminate]. Qed.

Lemma enc_wrapped_some t c v ts :
  enc_wrapped encode t (Some c) v = Ok ts ->
  exists b, encode t v = Ok b /\ ts = open_tag c :: b ++ [close_tag c].
Proof.
  unfold enc_wrapped. intros H. apply bind_ok in H as [b [Hb H]]. injection H as <-. eauto.
Qed.
Lemma enc_wrapped_none t v ts : enc_wrapped encode t None v = Ok ts -> encode t v = Ok ts.
Proof.
  unfold enc_wrapped. intros H. apply bind_ok in H as [b [Hb H]]. injection H as <-. exact Hb.
Qed.

(* context-wrapped construct (structure or list): decoded whatever follows *)
Lemma dec_struct_wrapped t c o v b rest :
  RT t -> has_ty t v -> encode t v = Ok b ->
  dec_el_struct decode t (Some c) o (open_tag c) ((b ++ [close_tag c]) ++ rest) = Ok (Some v, rest).
Proof.
  intros Hrt Hv Hb. unfold dec_el_struct. cbn [cls num open_tag]. rewrite !N.eqb_refl. cbn [andb N.eqb Pos.eqb].
  rewrite <- app_assoc. cbn [app].
  rewrite (Hrt v b (close_tag c :: rest) Hv Hb (rest_ok_closing (avoid t) (close_tag c) rest eq_refl)). cbn [bind].
  unfold is_closing. cbn [cls num close_tag]. rewrite !N.eqb_refl. reflexivity.
Qed.
Lemma dec_list_wrapped t c o v b rest :
  RT t -> has_ty t v -> encode t v = Ok b ->
  dec_el_list decode t (Some c) o (open_tag c) ((b ++ [close_tag c]) ++ rest) = Ok (Some v, rest).
Proof.
  intros Hrt Hv Hb. unfold dec_el_list. cbn [cls num open_tag]. rewrite !N.eqb_refl. cbn [andb N.eqb Pos.eqb].
  rewrite <- app_assoc. cbn [app].
  rewrite (Hrt v b (close_tag c :: rest) Hv Hb (rest_ok_closing (avoid t) (close_tag c) rest eq_refl)). cbn [bind].
  unfold is_closing. cbn [cls num close_tag]. rewrite !N.eqb_refl. reflexivity.
Qed.
Lemma dec_alt_wrapped t c i w b rest next :
  RT t -> has_ty t w -> encode t w = Ok b ->
  dec_alt_struct decode t (Some c) i (open_tag c) ((b ++ [close_tag c]) ++ rest) next = Ok (VChoice i w, rest).
Proof.
  intros Hrt Hv Hb. unfold dec_alt_struct. cbn [cls num open_tag]. rewrite !N.eqb_refl. cbn [andb N.eqb Pos.eqb].
  rewrite <- app_assoc. cbn [app].
  rewrite (Hrt w b (close_tag c :: rest) Hv Hb (rest_ok_closing (avoid t) (close_tag c) rest eq_refl)). cbn [bind].
  unfold is_closing. cbn [cls num close_tag]. rewrite !N.eqb_refl. reflexivity.
Qed.

(* an absent optional element: the next tag is not one the element starts with *)
Lemma rest_head_ctx c rest : rest_ok [PCtx c] rest ->
  match rest with [] => True | x :: _ => cls x = 3 \/ (cls x =? 1) && (num x =? c) = false end.
Proof. destruct rest as [|x r]; cbn [rest_ok pmatch_any existsb pmatch]; [auto|]. rewrite orb_false_r. auto. Qed.
Lemma rest_head_open c rest : rest_ok [POpen c] rest ->
  match rest with [] => True | x :: _ => cls x = 3 \/ (cls x =? 2) && (num x =? c) = false end.
Proof. destruct rest as [|x r]; cbn [rest_ok pmatch_any existsb pmatch]; [auto|]. rewrite orb_false_r. auto. Qed.
Lemma rest_head_app k rest : rest_ok [PApp k] rest ->
  match rest with [] => True | x :: _ => cls x = 3 \/ (cls x =? 0) && (num x =? k) = false end.
Proof. destruct rest as [|x r]; cbn [rest_ok pmatch_any existsb pmatch]; [auto|]. rewrite orb_false_r. auto. Qed.
Lemma rest_head_appany rest : rest_ok [PAppAny] rest ->
  match rest with [] => True | x :: _ => cls x = 3 \/ (cls x =? 0) = false end.
Proof. destruct rest as [|x r]; cbn [rest_ok pmatch_any existsb pmatch]; [auto|]. rewrite orb_false_r. auto. Qed.

(* atoms *)
Lemma atom_el k c o : k <= 12 -> RTe (El (TAtom k) c o) /\ FSTe (El (TAtom k) c o) /\ NNe (El (TAtom k) c o).
Proof.
  intros Hk. split; [|split].
  - intros f ts rest Hf He Hr. destruct f as [v|].
    + cbn [has_el has_ty] in Hf. destruct v as [x| | | |]; try contradiction.
      cbn [enc_el enc_atomv] in He. destruct c as [c|]; cbn [enc_leaf] in He.
      * destruct (leaf_ctx_roundtrip k c x Hf) as (x' & Ha & Hc1 & Hc2 & Hback).
        rewrite Ha in He. cbn [bind] in He. injection He as <-. cbn [app dec_el].
        rewrite Hc1. cbn [N.eqb Pos.eqb]. unfold dec_el_atom. rewrite Hc1, Hc2, !N.eqb_refl. cbn [N.eqb Pos.eqb andb].
        rewrite Hback. cbn [bind]. rewrite (leaf_check _ _ Hf). reflexivity.
      * injection He as <-. cbn [app dec_el]. destruct Hf as (Hc & Hn & Hchk & Hl).
        rewrite Hc. cbn [N.eqb]. unfold dec_el_atom. rewrite Hc, Hn, !N.eqb_refl. cbn [N.eqb andb].
        rewrite Hchk. reflexivity.
    + cbn [has_el] in Hf. subst o. cbn [enc_el] in He. injection He as <-. cbn [app].
      cbn [avoid_el is_atomic first avoid] in Hr. rewrite app_nil_r in Hr.
      destruct c as [c|].
      * apply rest_head_ctx in Hr. destruct rest as [|x r]; [reflexivity|].
        cbn [dec_el]. destruct (cls x =? 3) eqn:E3; [reflexivity|].
        destruct Hr as [Hr|Hr]; [lia|]. unfold dec_el_atom. rewrite Hr. reflexivity.
      * apply rest_head_app in Hr. destruct rest as [|x r]; [reflexivity|].
        cbn [dec_el]. destruct (cls x =? 3) eqn:E3; [reflexivity|].
        destruct Hr as [Hr|Hr]; [lia|]. unfold dec_el_atom. rewrite Hr. reflexivity.
  - intros f x ts Hf He. destruct f as [v|]; [|cbn [enc_el] in He; destruct o; discriminate].
    cbn [has_el has_ty] in Hf. destruct v as [y| | | |]; try contradiction.
    cbn [enc_el enc_atomv] in He. destruct c as [c|]; cbn [enc_leaf] in He.
    + destruct (leaf_ctx_roundtrip k c y Hf) as (x' & Ha & Hc1 & Hc2 & Hback).
      rewrite Ha in He. cbn [bind] in He. injection He as <- <-.
      cbn [first_el is_atomic pmatch_any existsb pmatch]. rewrite Hc1, Hc2, !N.eqb_refl. reflexivity.
    + injection He as <- <-. destruct Hf as (Hc & Hn & _).
      cbn [first_el first pmatch_any existsb pmatch]. rewrite Hc, Hn, !N.eqb_refl. reflexivity.
  - intros Hnn f Hf He. destruct f as [v|].
    + cbn [has_el has_ty] in Hf. destruct v as [y| | | |]; try contradiction.
      cbn [enc_el enc_atomv] in He. destruct c as [c|]; cbn [enc_leaf] in He.
      * destruct (leaf_ctx_roundtrip k c y Hf) as (x' & Ha & _). rewrite Ha in He. discriminate.
      * discriminate.
    + cbn [has_el] in Hf. subst o. destruct c; discriminate.
Qed.

(* AnyAtomic (never context tagged) *)
Lemma anyatomic_el o :
  RTe (El TAnyAtomic None o) /\ FSTe (El TAnyAtomic None o) /\ NNe (El TAnyAtomic None o).
Proof.
  split; [|split].
  - intros f ts rest Hf He Hr. destruct f as [v|].
    + cbn [has_el has_ty] in Hf. destruct v as [x| | | |]; try contradiction.
      destruct Hf as [H12 Hl]. cbn [enc_el enc_atomv enc_leaf] in He. injection He as <-.
      cbn [app dec_el]. pose proof Hl as (Hc & _ & Hchk & _). rewrite Hc. cbn [N.eqb].
      unfold dec_el_anyatomic, anyatomic_obj. rewrite Hc. cbn [N.eqb negb].
      destruct (16 <=? num x) eqn:E1; [lia|]. destruct (13 <=? num x) eqn:E2; [lia|].
      rewrite Hchk. reflexivity.
    + cbn [has_el] in Hf. subst o. cbn [enc_el] in He. injection He as <-. cbn [app].
      cbn [avoid_el first avoid] in Hr. rewrite app_nil_r in Hr. apply rest_head_appany in Hr.
      destruct rest as [|x r]; [reflexivity|].
      cbn [dec_el]. destruct (cls x =? 3) eqn:E3; [reflexivity|].
      destruct Hr as [Hr|Hr]; [lia|]. unfold dec_el_anyatomic. rewrite Hr. reflexivity.
  - intros f x ts Hf He. destruct f as [v|]; [|cbn [enc_el] in He; destruct o; discriminate].
    cbn [has_el has_ty] in Hf. destruct v as [y| | | |]; try contradiction.
    cbn [enc_el enc_atomv enc_leaf] in He. injection He as <- <-. destruct Hf as [_ (Hc & _)].
    cbn [first_el first pmatch_any existsb pmatch]. rewrite Hc. reflexivity.
  - intros Hnn f Hf He. destruct f as [v|].
    + cbn [has_el has_ty] in Hf. destruct v as [y| | | |]; try contradiction. discriminate.
    + cbn [has_el] in Hf. subst o. discriminate.
Qed.

(* the element code paths shared by Any, SequenceOfAny, Sequence and Choice elements *)
Lemma struct_el t c o :
  (forall enc c o v, enc_el enc (El t c o) (Some v) = enc_wrapped enc t c v) ->
  (forall dec c o x rest, (cls x =? 3) = false ->
      dec_el dec (El t c o) (x :: rest) = dec_el_struct dec t c o x rest) ->
  is_atomic t = false -> is_list t = false ->
  RT t -> FST t -> NN t ->
  (c = None -> o = false /\ nullable t = false) ->
  RTe (El t c o) /\ FSTe (El t c o) /\ NNe (El t c o).
Proof.
  intros Henc Hdec Hat Hli Hrt Hfst Hnn Hnone. split; [|split].
  - intros f ts rest Hf He Hr. destruct f as [v|].
    + cbn [has_el] in Hf. rewrite Henc in He. destruct c as [c|].
      * apply enc_wrapped_some in He as (b & Hb & ->). cbn [app].
        rewrite Hdec by reflexivity. apply dec_struct_wrapped; assumption.
      * apply enc_wrapped_none in He. destruct (Hnone eq_refl) as [-> Hnul].
        cbn [avoid_el] in Hr. cbn [app] in Hr.
        destruct ts as [|x ts'].
        { exfalso. exact (Hnn Hnul v Hf He). }
        pose proof (Hfst v x ts' Hf He) as Hx. apply pmatch_any_not_closing in Hx.
        cbn [app]. rewrite Hdec by lia. unfold dec_el_struct.
        change (x :: ts' ++ rest) with ((x :: ts') ++ rest).
        rewrite (Hrt v (x :: ts') rest Hf He Hr). reflexivity.
    + cbn [has_el] in Hf. subst o. destruct c as [c|]; [|destruct (Hnone eq_refl); discriminate].
      cbn [enc_el] in He. injection He as <-. cbn [app].
      cbn [avoid_el] in Hr. rewrite Hli, Hat in Hr. apply rest_head_open in Hr.
      destruct rest as [|x r]; [reflexivity|].
      destruct (cls x =? 3) eqn:E3.
      * cbn [dec_el]. rewrite E3. reflexivity.
      * rewrite Hdec by assumption. destruct Hr as [Hr|Hr]; [lia|].
        unfold dec_el_struct. rewrite Hr. reflexivity.
  - intros f x ts Hf He. destruct f as [v|]; [|cbn [enc_el] in He; destruct o; discriminate].
    cbn [has_el] in Hf. rewrite Henc in He. destruct c as [c|].
    + apply enc_wrapped_some in He as (b & Hb & Heq). injection Heq as -> _.
      cbn [first_el]. rewrite Hat. cbn [pmatch_any existsb pmatch open_tag cls num].
      rewrite !N.eqb_refl. reflexivity.
    + apply enc_wrapped_none in He. cbn [first_el]. eapply Hfst; eauto.
  - intros Hnul f Hf He. destruct f as [v|].
    + cbn [has_el] in Hf. rewrite Henc in He. destruct c as [c|].
      * apply enc_wrapped_some in He as (b & Hb & Heq). discriminate.
      * apply enc_wrapped_none in He. destruct (Hnone eq_refl) as [_ Hn]. exact (Hnn Hn v Hf He).
    + cbn [has_el] in Hf. subst o. destruct c; cbn [nullable_el] in Hnul; discriminate.
Qed.

(* a SequenceOf element: required, or optional and context tagged *)
Lemma list_el s c o : (o = true -> c <> None) ->
  RT (TSeqOf s) -> FST (TSeqOf s) ->
  RTe (El (TSeqOf s) c o) /\ FSTe (El (TSeqOf s) c o) /\ NNe (El (TSeqOf s) c o).
Proof.
  intros Hoc Hrt Hfst. split; [|split].
  - intros f ts rest Hf He Hr. destruct f as [v|].
    + cbn [has_el] in Hf. cbn [enc_el] in He.
      destruct v as [| | | |vs]; try (cbn [has_ty] in Hf; contradiction).
      destruct c as [c|].
      * apply enc_wrapped_some in He as (b & Hb & ->). cbn [app dec_el open_tag cls N.eqb Pos.eqb].
        apply dec_list_wrapped; assumption.
      * destruct o; [exfalso; apply (Hoc eq_refl); reflexivity|].
        apply enc_wrapped_none in He. cbn [avoid_el app] in Hr.
        pose proof (Hrt (VList vs) ts rest Hf He Hr) as Hd.
        destruct (ts ++ rest) as [|x r] eqn:E.
        -- cbn in Hd. injection Hd as <- <-. reflexivity.
        -- cbn [dec_el]. destruct (cls x =? 3) eqn:E3.
           ++ cbn [decode length dec_loop] in Hd. rewrite E3 in Hd. cbn [bind] in Hd.
              injection Hd as <- <-. reflexivity.
           ++ unfold dec_el_list. rewrite Hd. reflexivity.
    + cbn [has_el] in Hf. subst o. destruct c as [c|]; [|exfalso; apply (Hoc eq_refl); reflexivity].
      cbn [enc_el] in He. injection He as <-. cbn [app].
      cbn [avoid_el is_list] in Hr. apply rest_ok_any in Hr as [->|(y & r & -> & Hy)].
      * reflexivity.
      * cbn [dec_el]. rewrite Hy. reflexivity.
  - intros f x ts Hf He. destruct f as [v|]; [|cbn [enc_el] in He; destruct o; discriminate].
    cbn [has_el] in Hf. cbn [enc_el] in He.
    destruct v as [| | | |vs]; try (cbn [has_ty] in Hf; contradiction).
    destruct c as [c|].
    + apply enc_wrapped_some in He as (b & Hb & Heq). injection Heq as -> _.
      cbn [first_el is_atomic pmatch_any existsb pmatch open_tag cls num].
      rewrite !N.eqb_refl. reflexivity.
    + apply enc_wrapped_none in He. cbn [first_el]. eapply Hfst; eauto.
  - intros Hnul f Hf He. destruct c as [c|]; [|cbn [nullable_el nullable orb] in Hnul; rewrite orb_true_r in Hnul; discriminate].
    cbn [nullable_el] in Hnul. subst o.
    destruct f as [v|]; [|cbn [has_el] in Hf; discriminate].
    cbn [has_el] in Hf. cbn [enc_el] in He.
    destruct v as [| | | |vs]; try (cbn [has_ty] in Hf; contradiction).
    apply enc_wrapped_some in He as (b & Hb & Heq). discriminate.
Qed.

(* try / roll-back: a Sequence starting with a required context-tagged element refuses a foreign tag
   with InvalidTag *)
Lemma clean_reject_err t x r : clean_reject t = true -> (cls x =? 3) = false ->
  pmatch_any (first t) x = false -> decode t (x :: r) = Err InvalidTag.
Proof.
  destruct t as [| | | |els| | | |]; try discriminate.
  destruct els as [|[t' [c|] [|]] more]; try discriminate.
  intros Hc Hx Hm. rewrite first_seq_cons in Hm. unfold pmatch_any in Hm. rewrite existsb_app in Hm.
  apply orb_false_iff in Hm as [Hm _]. cbn [clean_reject] in Hc.
  cbn [decode dec_els dec_el]. rewrite Hx.
  destruct t'; cbn [is_list negb] in Hc; try discriminate;
    cbn [first_el is_atomic existsb pmatch] in Hm; rewrite orb_false_r in Hm;
    unfold dec_el_atom, dec_el_anyatomic, dec_el_struct; try rewrite Hm; reflexivity.
Qed.

(* an un-contexted optional structure (Sequence.decode tries it and rolls back) *)
Lemma unctx_opt_struct_el t :
  (forall enc c o v, enc_el enc (El t c o) (Some v) = enc_wrapped enc t c v) ->
  (forall dec c o x rest, (cls x =? 3) = false ->
      dec_el dec (El t c o) (x :: rest) = dec_el_struct dec t c o x rest) ->
  is_atomic t = false -> is_list t = false ->
  RT t -> FST t -> NN t -> nullable t = false ->
  RTe (El t None true) /\ FSTe (El t None true) /\ NNe (El t None true).
Proof.
  intros Henc Hdec Hat Hli Hrt Hfst Hnn Hnul. split; [|split].
  - intros f ts rest Hf He Hr. cbn [avoid_el] in Hr. rewrite Hat in Hr. cbn [orb] in Hr.
    apply rest_ok_app in Hr as [Hr1 Hr2]. destruct f as [v|].
    + cbn [has_el] in Hf. rewrite Henc in He. apply enc_wrapped_none in He.
      destruct ts as [|x ts']; [exfalso; exact (Hnn Hnul v Hf He)|].
      pose proof (Hfst v x ts' Hf He) as Hx. apply pmatch_any_not_closing in Hx.
      cbn [app]. rewrite Hdec by lia. unfold dec_el_struct.
      change (x :: ts' ++ rest) with ((x :: ts') ++ rest).
      rewrite (Hrt v (x :: ts') rest Hf He Hr2). reflexivity.
    + cbn [enc_el] in He. injection He as <-. cbn [app].
      destruct rest as [|x r]; [reflexivity|].
      destruct (cls x =? 3) eqn:E3; [cbn [dec_el]; rewrite E3; reflexivity|].
      rewrite Hdec by assumption. unfold dec_el_struct.
      destruct (clean_reject t) eqn:Ecr.
      * cbn [rest_ok] in Hr1. destruct Hr1 as [Hr1|Hr1]; [lia|].
        rewrite (clean_reject_err t x r Ecr E3 Hr1). reflexivity.
      * cbn [rest_ok pmatch_any existsb pmatch] in Hr1. rewrite E3 in Hr1. destruct Hr1 as [Hr1|Hr1]; [lia|discriminate].
  - intros f x ts Hf He. destruct f as [v|]; [|cbn [enc_el] in He; discriminate].
    cbn [has_el] in Hf. rewrite Henc in He. apply enc_wrapped_none in He. cbn [first_el]. eapply Hfst; eauto.
  - intros Hn. cbn [nullable_el orb] in Hn. discriminate.
Qed.

(* alternatives of a Choice *)
Lemma atom_alt k c o : ALT (El (TAtom k) c o).
Proof.
  intros w ts Hw He. cbn [has_el has_ty] in Hw. destruct w as [y| | | |]; try contradiction.
  cbn [enc_alt enc_atomv] in He. destruct c as [c|]; cbn [enc_leaf] in He.
  - destruct (leaf_ctx_roundtrip k c y Hw) as (x' & Ha & Hc1 & Hc2 & Hback).
    rewrite Ha in He. cbn [bind] in He. injection He as <-.
    exists x', []. split; [reflexivity|]. split.
    + cbn [first_el is_atomic pmatch_any existsb pmatch]. rewrite Hc1, Hc2, !N.eqb_refl. reflexivity.
    + intros more i rest. cbn [app dec_alts]. unfold dec_alt_atom.
      rewrite Hc1, Hc2, !N.eqb_refl. cbn [andb N.eqb Pos.eqb]. rewrite Hback. cbn [bind].
      rewrite (leaf_check _ _ Hw). reflexivity.
  - injection He as <-. exists y, []. split; [reflexivity|]. destruct Hw as (Hc & Hn & Hchk & _). split.
    + cbn [first_el first pmatch_any existsb pmatch]. rewrite Hc, Hn, !N.eqb_refl. reflexivity.
    + intros more i rest. cbn [app dec_alts]. unfold dec_alt_atom.
      rewrite Hc, Hn, !N.eqb_refl. cbn [andb N.eqb]. rewrite Hchk. reflexivity.
Qed.

Lemma wrapped_alt t c o :
  (forall enc v, enc_alt enc (El t (Some c) o) v = enc_wrapped enc t (Some c) v) ->
  (forall dec more i x rest,
      dec_alts dec (El t (Some c) o :: more) i x rest =
      dec_alt_struct dec t (Some c) i x rest (dec_alts dec more (S i) x rest)) ->
  is_atomic t = false -> RT t -> ALT (El t (Some c) o).
Proof.
  intros Henc Hdec Hat Hrt w ts Hw He. cbn [has_el] in Hw. rewrite Henc in He.
  apply enc_wrapped_some in He as (b & Hb & ->).
  exists (open_tag c), (b ++ [close_tag c]). split; [reflexivity|]. split.
  - cbn [first_el]. rewrite Hat. cbn [pmatch_any existsb pmatch open_tag cls num].
    rewrite !N.eqb_refl. reflexivity.
  - intros more i rest. rewrite Hdec. apply dec_alt_wrapped; assumption.
Qed.

(* skipping an alternative whose tag does not match *)
Lemma alt_skip e more i x rest :
  sup_alt e = true -> pmatch_any (first_el e) x = false ->
  dec_alts decode (e :: more) i x rest = dec_alts decode more (S i) x rest.
Proof.
  destruct e as [t c o]. intros Hs Hm.
  destruct t; cbn [sup_alt andb] in Hs; try (rewrite andb_false_r in Hs; discriminate);
    destruct c as [c|]; try (rewrite andb_false_r in Hs; discriminate);
    cbn [first_el is_atomic first pmatch_any existsb pmatch] in Hm; rewrite orb_false_r in Hm;
    cbn [dec_alts]; unfold dec_alt_atom, dec_alt_struct; rewrite Hm; reflexivity.
Qed.

Ltac split_andb :=
  repeat match goal with
         | H : (_ && _) = true |- _ => apply andb_true_iff in H; destruct H
         end.

Lemma nn_from_cond t : is_list t = false ->
  (false || negb (nullable t) || is_list t) = true -> nullable t = false.
Proof. intros -> H. cbn [orb] in H. rewrite orb_false_r in H. apply negb_true_iff in H. exact H. Qed.

(* Any / SequenceOfAny / Sequence / Choice / NameValue elements share the code path of "some kind of
   structure" *)
Ltac dec_shape := intros dec c0 o0 x rest E; cbn [dec_el]; rewrite E; reflexivity.
Ltac wrapped_case :=
  apply struct_el; try assumption; try reflexivity; [dec_shape | intros E; discriminate E].
Ltac struct_case c o :=
  destruct c as [c|];
  [ wrapped_case
  | cbn [orb andb negb is_list] in *; destruct o;
    [ apply unctx_opt_struct_el; try assumption; try reflexivity;
      first [dec_shape | apply negb_true_iff; assumption]
    | apply struct_el; try assumption; try reflexivity;
      first [dec_shape | intros _; split; [reflexivity | first [reflexivity | apply nn_from_cond; [reflexivity | assumption]]]] ] ].

Lemma el_facts t c o : good t -> goode (El t c o).
Proof.
  intros Hg Hwf. cbn [wf_el] in Hwf. split_andb.
  split.
  - intros Hs. cbn [sup_seq_el] in Hs. split_andb.
    destruct (Hg ltac:(assumption) ltac:(assumption)) as (Hrt & Hfst & Hnn).
    destruct t.
    + apply atom_el. cbn [supported] in *. lia.
    + destruct c as [c|]; [discriminate|]. apply anyatomic_el.
    + destruct c as [c|]; [wrapped_case | exfalso; destruct o; cbn in *; discriminate].
    + destruct c as [c|]; [wrapped_case | exfalso; destruct o; cbn in *; discriminate].
    + struct_case c o.
    + struct_case c o.
    + apply list_el; try assumption. intros ->. destruct c; [discriminate|discriminate].
    + discriminate.
    + struct_case c o.
  - intros Hs. cbn [sup_alt] in Hs. split_andb.
    destruct (Hg ltac:(assumption) ltac:(assumption)) as (Hrt & Hfst & Hnn).
    destruct t; try discriminate.
    + apply atom_alt.
    + destruct c as [c|]; [|discriminate]. apply wrapped_alt; try assumption; reflexivity.
    + destruct c as [c|]; [|discriminate]. apply wrapped_alt; try assumption; reflexivity.
    + destruct c as [c|]; [|discriminate]. apply wrapped_alt; try assumption; reflexivity.
    + destruct c as [c|]; [|discriminate]. apply wrapped_alt; try assumption; reflexivity.
    + destruct c as [c|]; [|discriminate]. apply wrapped_alt; try assumption; reflexivity.
    + destruct c as [c|]; [|discriminate]. apply wrapped_alt; try assumption; reflexivity.
Qed.

(* ---------- leaf types standing alone (list items) ---------- *)
Lemma good_atom k : good (TAtom k).
Proof.
  intros Hs Hw. split; [|split].
  - intros v ts rest Hv He _. cbn [has_ty] in Hv. destruct v as [x| | | |]; try contradiction.
    cbn [encode] in He. injection He as <-. cbn [app decode]. rewrite (leaf_check _ _ Hv). reflexivity.
  - intros v x ts Hv He. cbn [has_ty] in Hv. destruct v as [y| | | |]; try contradiction.
    cbn [encode] in He. injection He as <- <-. destruct Hv as (Hc & Hn & _).
    cbn [first pmatch_any existsb pmatch]. rewrite Hc, Hn, !N.eqb_refl. reflexivity.
  - intros _ v Hv He. cbn [has_ty] in Hv. destruct v as [y| | | |]; try contradiction. discriminate.
Qed.

Lemma good_anyatomic : good TAnyAtomic.
Proof.
  intros Hs Hw. split; [|split].
  - intros v ts rest Hv He _. cbn [has_ty] in Hv. destruct v as [x| | | |]; try contradiction.
    destruct Hv as [H12 Hl]. cbn [encode] in He. injection He as <-. cbn [app decode].
    pose proof Hl as (Hc & _ & Hchk & _). unfold anyatomic_obj. rewrite Hc. cbn [N.eqb negb].
    destruct (16 <=? num x) eqn:E1; [lia|]. destruct (13 <=? num x) eqn:E2; [lia|].
    rewrite Hchk. reflexivity.
  - intros v x ts Hv He. cbn [has_ty] in Hv. destruct v as [y| | | |]; try contradiction.
    cbn [encode] in He. injection He as <- <-. destruct Hv as [_ (Hc & _)].
    cbn [first pmatch_any existsb pmatch]. rewrite Hc. reflexivity.
  - intros _ v Hv He. cbn [has_ty] in Hv. destruct v as [y| | | |]; try contradiction. discriminate.
Qed.

Lemma balanced_head x ts : balanced (x :: ts) -> cls x <> 3.
Proof. intros H. inversion H; subst; lia. Qed.

Lemma any_rt ts rest : balanced ts -> rest_ok [PAny] rest ->
  (do (g, r) <- any_decode (ts ++ rest); Ok (VTags g, r)) = Ok (VTags ts, rest).
Proof.
  intros Hb Hr. apply rest_ok_any in Hr as [->|(c & r & -> & Hc)].
  - rewrite app_nil_r, (any_decode_all ts Hb). reflexivity.
  - rewrite (any_decode_balanced ts c r Hb Hc). reflexivity.
Qed.

Lemma good_any : good TAny.
Proof.
  intros Hs Hw. split; [|split].
  - intros v ts rest Hv He Hr. cbn [has_ty] in Hv. destruct v as [|g| | |]; try contradiction.
    cbn [encode] in He. injection He as <-. cbn [decode]. apply any_rt; assumption.
  - intros v x ts Hv He. cbn [has_ty] in Hv. destruct v as [|g| | |]; try contradiction.
    cbn [encode] in He. injection He as ->. apply balanced_head in Hv.
    cbn [first pmatch_any existsb pmatch]. destruct (cls x =? 3) eqn:E; [lia|reflexivity].
  - intros Hn. discriminate.
Qed.
Lemma good_seqofany : good TSeqOfAny.
Proof.
  intros Hs Hw. split; [|split].
  - intros v ts rest Hv He Hr. cbn [has_ty] in Hv. destruct v as [|g| | |]; try contradiction.
    cbn [encode] in He. injection He as <-. cbn [decode]. apply any_rt; assumption.
  - intros v x ts Hv He. cbn [has_ty] in Hv. destruct v as [|g| | |]; try contradiction.
    cbn [encode] in He. injection He as ->. apply balanced_head in Hv.
    cbn [first pmatch_any existsb pmatch]. destruct (cls x =? 3) eqn:E; [lia|reflexivity].
  - intros Hn. discriminate.
Qed.

(* ---------- sequences ---------- *)
Fixpoint wf_els (l : list elem) : bool :=
  match l with
  | [] => true
  | e :: r => wf_el e && pdisj_all (avoid_el e) (first_els r) && wf_els r
  end.
Lemma wf_ty_seq els : wf_ty (TSeq els) = wf_els els.
Proof. cbn [wf_ty]. induction els as [|e r IH]; [reflexivity|]. cbn [wf_els]. rewrite <- IH. reflexivity. Qed.
Lemma first_seq els : first (TSeq els) = first_els els.
Proof. cbn [first]. induction els as [|e r IH]; [reflexivity|]. cbn [first_els]. rewrite <- IH. reflexivity. Qed.
Lemma avoid_seq els : avoid (TSeq els) = avoid_els els.
Proof. cbn [avoid]. induction els as [|e r IH]; [reflexivity|]. cbn [avoid_els]. rewrite <- IH. reflexivity. Qed.

Lemma enc_els_cons e r f fs ts :
  enc_els encode (e :: r) (f :: fs) = Ok ts ->
  exists a b, enc_el encode e f = Ok a /\ enc_els encode r fs = Ok b /\ ts = a ++ b.
Proof.
  cbn [enc_els]. intros H. apply bind_ok in H as [a [Ha H]]. apply bind_ok in H as [b [Hb H]].
  injection H as <-. eauto.
Qed.

(* an empty encoding means every element may be empty *)
Lemma seq_nn els : Forall goode els -> forallb sup_seq_el els = true -> wf_els els = true ->
  forall fs, has_fields els fs -> enc_els encode els fs = Ok [] -> forallb nullable_el els = true.
Proof.
  induction 1 as [|e r He _ IH]; intros Hs Hw fs Hf Henc; [reflexivity|].
  cbn [forallb wf_els] in *. split_andb.
  destruct fs as [|f fs]; [contradiction|]. destruct Hf as [Hf1 Hf2].
  apply enc_els_cons in Henc as (a & b & Ha & Hb & Hab).
  symmetry in Hab. apply app_eq_nil in Hab as [-> ->].
  destruct (He ltac:(assumption)) as [Hq _]. destruct (Hq ltac:(assumption)) as (_ & _ & Hnn).
  rewrite (IH ltac:(assumption) ltac:(assumption) fs Hf2 Hb), andb_true_r.
  destruct (nullable_el e) eqn:E; [reflexivity|]. exfalso. exact (Hnn E f Hf1 Ha).
Qed.

Lemma seq_fst els : Forall goode els -> forallb sup_seq_el els = true -> wf_els els = true ->
  forall fs x ts, has_fields els fs -> enc_els encode els fs = Ok (x :: ts) ->
  pmatch_any (first_els els) x = true.
Proof.
  induction 1 as [|e r He _ IH]; intros Hs Hw fs x ts Hf Henc; [cbn in Henc; discriminate|].
  cbn [forallb wf_els] in *. split_andb.
  destruct fs as [|f fs]; [contradiction|]. destruct Hf as [Hf1 Hf2].
  apply enc_els_cons in Henc as (a & b & Ha & Hb & Hab).
  destruct (He ltac:(assumption)) as [Hq _]. destruct (Hq ltac:(assumption)) as (_ & Hfst & Hnn).
  cbn [first_els]. unfold pmatch_any. rewrite existsb_app. apply orb_true_iff.
  destruct a as [|y a'].
  - right. cbn [app] in Hab. subst b.
    destruct (nullable_el e) eqn:E; [|exfalso; exact (Hnn E f Hf1 Ha)].
    exact (IH ltac:(assumption) ltac:(assumption) fs x ts Hf2 Hb).
  - left. cbn [app] in Hab. injection Hab as -> _. exact (Hfst f y a' Hf1 Ha).
Qed.

Lemma seq_rt els : Forall goode els -> forallb sup_seq_el els = true -> wf_els els = true ->
  forall fs ts rest, has_fields els fs -> enc_els encode els fs = Ok ts ->
  rest_ok (avoid_els els) rest -> dec_els decode els (ts ++ rest) = Ok (fs, rest).
Proof.
  induction 1 as [|e r He Hall IH]; intros Hs Hw fs ts rest Hf Henc Hr.
  - destruct fs; [|contradiction]. cbn in Henc. injection Henc as <-. reflexivity.
  - cbn [forallb wf_els] in *. split_andb.
    destruct fs as [|f fs]; [contradiction|]. destruct Hf as [Hf1 Hf2].
    apply enc_els_cons in Henc as (a & b & Ha & Hb & ->).
    destruct (He ltac:(assumption)) as [Hq _]. destruct (Hq ltac:(assumption)) as (Hrt & _ & _).
    cbn [avoid_els] in Hr. apply rest_ok_app in Hr as [Hr1 Hr2].
    cbn [dec_els]. rewrite <- app_assoc.
    rewrite (Hrt f a (b ++ rest) Hf1 Ha).
    + cbn [bind]. rewrite (IH ltac:(assumption) ltac:(assumption) fs b rest Hf2 Hb Hr2). reflexivity.
    + eapply rest_ok_step; [eassumption| |].
      * intros x b' ->. eapply seq_fst; eauto.
      * intros ->. rewrite (seq_nn r Hall ltac:(assumption) ltac:(assumption) fs Hf2 Hb) in Hr1. exact Hr1.
Qed.

Lemma good_seq els : Forall goode els -> good (TSeq els).
Proof.
  intros Hall Hs Hw. cbn [supported] in Hs. rewrite wf_ty_seq in Hw. split; [|split].
  - intros v ts rest Hv He Hr. destruct v as [| |fs| |]; try contradiction.
    rewrite has_ty_seq in Hv. cbn [encode] in He. rewrite avoid_seq in Hr.
    cbn [decode]. rewrite (seq_rt els Hall Hs Hw fs ts rest Hv He Hr). reflexivity.
  - intros v x ts Hv He. destruct v as [| |fs| |]; try contradiction.
    rewrite has_ty_seq in Hv. cbn [encode] in He. rewrite first_seq. eapply seq_fst; eauto.
  - intros Hn v Hv He. destruct v as [| |fs| |]; try contradiction.
    rewrite has_ty_seq in Hv. cbn [encode] in He. cbn [nullable] in Hn.
    rewrite (seq_nn els Hall Hs Hw fs Hv He) in Hn. discriminate.
Qed.

(* ---------- choices ---------- *)
Lemma disj_from_all e r x :
  forallb (fun b => pdisj_all (first_el e) b) (map first_el r) = true ->
  pmatch_any (flat_map first_el r) x = true -> pmatch_any (first_el e) x = false.
Proof.
  induction r as [|e' r IH]; intros Hd Hm; [cbn in Hm; discriminate|].
  cbn [map forallb flat_map] in *. split_andb. unfold pmatch_any in Hm. rewrite existsb_app in Hm.
  apply orb_true_iff in Hm as [Hm|Hm].
  - eapply pdisj_all_sound; eauto.
  - apply IH; assumption.
Qed.

Lemma choice_rt els : Forall goode els -> forallb wf_el els = true ->
  pairwise_disj (map first_el els) = true ->
  forall i n w ts, has_alt els i w -> enc_nth encode els i w = Ok ts ->
  exists x ts', ts = x :: ts' /\ pmatch_any (flat_map first_el els) x = true /\
    forall rest, dec_alts decode els n x (ts' ++ rest) = Ok (VChoice (n + i) w, rest).
Proof.
  induction 1 as [|e r He _ IH]; intros Hw Hd i n w ts Ha Henc; [destruct i; contradiction|].
  cbn [forallb map pairwise_disj] in *. split_andb.
  destruct i as [|j].
  - cbn [has_alt enc_nth] in *. destruct Ha as [Hsa Ha]. destruct (He ltac:(assumption)) as [_ Halt].
    destruct (Halt Hsa w ts Ha Henc) as (x & ts' & -> & Hm & Hdec).
    exists x, ts'. split; [reflexivity|]. split.
    + cbn [flat_map]. unfold pmatch_any. rewrite existsb_app. apply orb_true_iff. left. exact Hm.
    + intros rest. rewrite Nat.add_0_r. apply Hdec.
  - cbn [has_alt enc_nth] in *. destruct Ha as [Hsa Ha].
    destruct (IH ltac:(assumption) ltac:(assumption) j (S n) w ts Ha Henc)
      as (x & ts' & -> & Hm & Hdec).
    exists x, ts'. split; [reflexivity|]. split.
    + cbn [flat_map]. unfold pmatch_any. rewrite existsb_app. apply orb_true_iff. right. exact Hm.
    + intros rest. rewrite alt_skip; [|assumption|eapply disj_from_all; eauto].
      rewrite Hdec. rewrite Nat.add_succ_r. reflexivity.
Qed.

Lemma good_choice els : Forall goode els -> good (TChoice els).
Proof.
  intros Hall Hs Hw. cbn [supported wf_ty] in Hs, Hw. split_andb.
  assert (Hkey : forall v ts, has_ty (TChoice els) v -> encode (TChoice els) v = Ok ts ->
            exists i w x ts', v = VChoice i w /\ ts = x :: ts' /\
              pmatch_any (flat_map first_el els) x = true /\
              forall rest, dec_alts decode els 0 x (ts' ++ rest) = Ok (VChoice i w, rest)).
  { intros v ts Hv He. destruct v as [| | |i w|]; try contradiction.
    rewrite has_ty_choice in Hv. cbn [encode] in He.
    destruct (choice_rt els Hall ltac:(assumption) ltac:(assumption) i 0%nat w ts Hv He)
      as (x & ts' & -> & Hm & Hdec).
    exists i, w, x, ts'. repeat split; auto. }
  split; [|split].
  - intros v ts rest Hv He _. destruct (Hkey v ts Hv He) as (i & w & x & ts' & -> & -> & Hm & Hdec).
    cbn [app decode]. apply pmatch_any_not_closing in Hm.
    destruct (cls x =? 3) eqn:E; [lia|]. apply Hdec.
  - intros v x ts Hv He. destruct (Hkey v (x :: ts) Hv He) as (i & w & x' & ts' & -> & Heq & Hm & _).
    injection Heq as -> _. exact Hm.
  - intros _ v Hv He. destruct (Hkey v [] Hv He) as (i & w & x' & ts' & _ & Heq & _). discriminate.
Qed.

(* ---------- lists ---------- *)
Lemma enc_list_cons s v vs ts :
  enc_list (encode s) (v :: vs) = Ok ts ->
  exists a b, encode s v = Ok a /\ enc_list (encode s) vs = Ok b /\ ts = a ++ b.
Proof.
  cbn [enc_list]. intros H. apply bind_ok in H as [a [Ha H]]. apply bind_ok in H as [b [Hb H]].
  injection H as <-. eauto.
Qed.

Lemma list_fst s : FST s -> NN s -> nullable s = false ->
  forall vs x ts, Forall (has_ty s) vs -> enc_list (encode s) vs = Ok (x :: ts) ->
  pmatch_any (first s) x = true.
Proof.
  intros Hfst Hnn Hnul vs x ts Hall He. destruct vs as [|v vs]; [cbn in He; discriminate|].
  inversion Hall as [|? ? Hv Hvs]; subst.
  apply enc_list_cons in He as (a & b & Ha & Hb & Hab).
  destruct a as [|y a']; [exfalso; exact (Hnn Hnul v Hv Ha)|].
  cbn [app] in Hab. injection Hab as -> _. eapply Hfst; eauto.
Qed.

Lemma list_len s : NN s -> nullable s = false ->
  forall vs ts, Forall (has_ty s) vs -> enc_list (encode s) vs = Ok ts -> (length vs <= length ts)%nat.
Proof.
  intros Hnn Hnul. induction vs as [|v vs IH]; intros ts Hall He; [cbn; lia|].
  inversion Hall as [|? ? Hv Hvs]; subst.
  apply enc_list_cons in He as (a & b & Ha & Hb & ->).
  specialize (IH b Hvs Hb). rewrite app_length. cbn [length].
  destruct a as [|y a']; [exfalso; exact (Hnn Hnul v Hv Ha)|]. cbn [length]. lia.
Qed.

Lemma loop_rt s : RT s -> FST s -> NN s -> nullable s = false ->
  pdisj_all (avoid s) (first s) = true ->
  forall vs fuel ts rest, Forall (has_ty s) vs -> enc_list (encode s) vs = Ok ts ->
  rest_ok [PAny] rest -> (length vs <= fuel)%nat ->
  dec_loop (decode s) fuel (ts ++ rest) = Ok (vs, rest).
Proof.
  intros Hrt Hfst Hnn Hnul Hd. induction vs as [|v vs IH]; intros fuel ts rest Hall He Hr Hlen.
  - cbn in He. injection He as <-. cbn [app].
    apply rest_ok_any in Hr as [->|(c & r & -> & Hc)].
    + destruct fuel; reflexivity.
    + destruct fuel; cbn [dec_loop]; rewrite Hc; reflexivity.
  - inversion Hall as [|? ? Hv Hvs]; subst.
    apply enc_list_cons in He as (a & b & Ha & Hb & ->).
    destruct a as [|x a']; [exfalso; exact (Hnn Hnul v Hv Ha)|].
    pose proof (Hfst v x a' Hv Ha) as Hx. apply pmatch_any_not_closing in Hx.
    destruct fuel as [|f]; [cbn in Hlen; lia|]. cbn [length] in Hlen.
    rewrite <- app_assoc. cbn [app dec_loop]. destruct (cls x =? 3) eqn:E3; [lia|].
    change (x :: a' ++ b ++ rest) with ((x :: a') ++ b ++ rest).
    rewrite (Hrt v (x :: a') (b ++ rest) Hv Ha).
    + cbn [bind]. rewrite (IH f b rest Hvs Hb Hr ltac:(lia)). reflexivity.
    + eapply rest_ok_step; [exact Hd| |].
      * intros y b' ->. eapply list_fst; eauto.
      * intros _. apply rest_ok_any in Hr as [->|(c & r & -> & Hc)]; [exact I|]. left. exact Hc.
Qed.

Lemma good_seqof s : good s -> good (TSeqOf s).
Proof.
  intros Hg Hs Hw. cbn [supported wf_ty] in Hs, Hw. split_andb.
  destruct (Hg ltac:(assumption) ltac:(assumption)) as (Hrt & Hfst & Hnn).
  assert (Hnul : nullable s = false) by (apply negb_true_iff; assumption).
  split; [|split].
  - intros v ts rest Hv He Hr. destruct v as [| | | |vs]; try contradiction.
    cbn [has_ty] in Hv. cbn [encode] in He. cbn [avoid] in Hr. cbn [decode].
    rewrite (loop_rt s Hrt Hfst Hnn Hnul ltac:(assumption) vs _ ts rest Hv He Hr).
    + reflexivity.
    + pose proof (list_len s Hnn Hnul vs ts Hv He). rewrite app_length. lia.
  - intros v x ts Hv He. destruct v as [| | | |vs]; try contradiction.
    cbn [has_ty] in Hv. cbn [encode] in He. cbn [first]. eapply list_fst; eauto.
  - intros Hn. discriminate.
Qed.

(* ---------- arrays (top-level only) ---------- *)
Lemma good_arrayof s f : good s -> good (TArrayOf s f).
Proof.
  intros Hg Hs Hw. cbn [supported wf_ty] in Hs, Hw. split_andb.
  destruct (Hg ltac:(assumption) ltac:(assumption)) as (Hrt & Hfst & Hnn).
  assert (Hnul : nullable s = false) by (apply negb_true_iff; assumption).
  assert (Henc : forall vs ts, has_ty (TArrayOf s f) (VList vs) -> encode (TArrayOf s f) (VList vs) = Ok ts ->
                 enc_list (encode s) vs = Ok ts).
  { intros vs ts [_ Hl] He. cbn [encode] in He. destruct f as [n|]; [|exact He].
    destruct (lenN vs =? n) eqn:E; [exact He|lia]. }
  split; [|split].
  - intros v ts rest Hv He Hr. destruct v as [| | | |vs]; try contradiction.
    pose proof (Henc vs ts Hv He) as He'. destruct Hv as [Hv Hl]. cbn [avoid] in Hr. cbn [decode].
    rewrite (loop_rt s Hrt Hfst Hnn Hnul ltac:(assumption) vs _ ts rest Hv He' Hr).
    + cbn [bind]. destruct f as [n|]; [|reflexivity]. destruct (lenN vs =? n) eqn:E; [reflexivity|lia].
    + pose proof (list_len s Hnn Hnul vs ts Hv He'). rewrite app_length. lia.
  - intros v x ts Hv He. destruct v as [| | | |vs]; try contradiction.
    pose proof (Henc vs _ Hv He) as He'. destruct Hv as [Hv _]. cbn [first]. eapply list_fst; eauto.
  - intros Hn. discriminate.
Qed.

(* ---------- NameValue (its own codec) ---------- *)
Lemma has_ty_namevalue v : has_ty TNameValue v ->
  exists n, leaf_ok 7 n /\
    (v = VSeq [Some (VAtom n); None]
     \/ (exists x, num x <= 12 /\ leaf_ok (num x) x /\ v = VSeq [Some (VAtom n); Some (VAtom x)])
     \/ (exists d t, leaf_ok 10 d /\ leaf_ok 11 t /\
                     v = VSeq [Some (VAtom n); Some (VSeq [Some (VAtom d); Some (VAtom t)])])).
Proof.
  cbn [has_ty].
  destruct v as [| |fs| |]; try contradiction.
  destruct fs as [|[[n| | | |]|] [|o [|]]]; try contradiction.
  intros [Hn Ho]. exists n. split; [exact Hn|].
  destruct o as [[x| |gs| |]|]; try contradiction.
  - right; left. exists x. destruct Ho. auto.
  - destruct gs as [|[[d| | | |]|] [|[[t| | | |]|] [|]]]; try contradiction.
    right; right. exists d, t. destruct Ho. auto.
  - left. reflexivity.
Qed.

Lemma good_namevalue : good TNameValue.
Proof.
  intros _ _.
  assert (Hkey : forall v ts, has_ty TNameValue v -> encode TNameValue v = Ok ts ->
            exists n n' tail, leaf_ok 7 n /\ app_to_context 0 n = Ok n' /\ cls n' = 1 /\ num n' = 0 /\
              context_to_app 7 n' = Ok n /\ ts = n' :: tail /\
              ((v = VSeq [Some (VAtom n); None] /\ tail = [])
               \/ (exists x, num x <= 12 /\ leaf_ok (num x) x /\ v = VSeq [Some (VAtom n); Some (VAtom x)] /\ tail = [x])
               \/ (exists d t, leaf_ok 10 d /\ leaf_ok 11 t /\
                     v = VSeq [Some (VAtom n); Some (VSeq [Some (VAtom d); Some (VAtom t)])] /\ tail = [d; t]))).
  { intros v ts Hv He. destruct (has_ty_namevalue v Hv) as (n & Hn & Hcases).
    destruct (leaf_ctx_roundtrip 7 0 n Hn) as (n' & Ha & Hc1 & Hc2 & Hback).
    destruct Hcases as [->|[(x & H12 & Hx & ->)|(d & t & Hd & Ht & ->)]];
      cbn [encode enc_namevalue] in He; rewrite Ha in He; cbn [bind] in He; injection He as <-.
    - exists n, n', []. repeat (split; [assumption || reflexivity|]). left. auto.
    - exists n, n', [x]. repeat (split; [assumption || reflexivity|]). right; left. exists x. auto.
    - exists n, n', [d; t]. repeat (split; [assumption || reflexivity|]). right; right. exists d, t. auto. }
  split; [|split].
  - intros v ts rest Hv He Hr. cbn [avoid] in Hr. apply rest_head_appany in Hr.
    destruct (Hkey v ts Hv He) as (n & n' & tail & Hn & Ha & Hc1 & Hc2 & Hback & -> & Hcases).
    cbn [app decode dec_namevalue]. rewrite Hc1, Hc2. cbn [N.eqb Pos.eqb andb].
    rewrite Hback. cbn [bind]. rewrite (leaf_check _ _ Hn).
    destruct Hcases as [[-> ->]|[(x & H12 & Hx & -> & ->)|(d & t & Hd & Ht & -> & ->)]]; cbn [app].
    + destruct rest as [|y r]; [reflexivity|].
      destruct Hr as [Hr|Hr]; [|rewrite Hr; reflexivity].
      destruct (cls y =? 0) eqn:E; [lia|reflexivity].
    + pose proof Hx as (Hcx & _ & Hchk & _). rewrite Hcx. cbn [N.eqb].
      assert (Hobj : anyatomic_obj x = Ok (Some (VAtom x))).
      { unfold anyatomic_obj. rewrite Hcx. cbn [N.eqb negb].
        destruct (16 <=? num x) eqn:E1; [lia|]. destruct (13 <=? num x) eqn:E2; [lia|].
        rewrite Hchk. reflexivity. }
      destruct rest as [|z r].
      * rewrite Hobj. reflexivity.
      * assert (Hz : (cls z =? 0) = false) by (destruct Hr as [Hr|Hr]; [lia|exact Hr]).
        rewrite Hz, andb_false_r. cbn [andb]. rewrite Hobj. reflexivity.
    + destruct Hd as (Hcd & Hnd & Hchd & _). destruct Ht as (Hct & Hnt & Hcht & _).
      rewrite Hcd, Hnd, Hct, Hnt. cbn [N.eqb Pos.eqb andb]. rewrite Hchd, Hcht. reflexivity.
  - intros v x ts Hv He.
    destruct (Hkey v (x :: ts) Hv He) as (n & n' & tail & _ & _ & Hc1 & Hc2 & _ & Heq & _).
    injection Heq as -> _. cbn [first pmatch_any existsb pmatch]. rewrite Hc1, Hc2. reflexivity.
  - intros _ v Hv He. destruct (Hkey v [] Hv He) as (n & n' & tail & _ & _ & _ & _ & _ & Heq & _). discriminate.
Qed.

(* ---------- the round trip for every supported, well-formed schema ---------- *)
Theorem codec_good : forall t, good t.
Proof.
  apply (ty_ind2 good goode).
  - exact good_atom.
  - exact good_anyatomic.
  - exact good_any.
  - exact good_seqofany.
  - exact good_seq.
  - exact good_choice.
  - exact good_seqof.
  - exact good_arrayof.
  - exact good_namevalue.
  - exact el_facts.
Qed.

Theorem roundtrip t : supported t = true -> wf_ty t = true ->
  forall v ts rest, has_ty t v -> encode t v = Ok ts -> rest_ok (avoid t) rest ->
  decode t (ts ++ rest) = Ok (v, rest).
Proof. intros Hs Hw. exact (proj1 (codec_good t Hs Hw)). Qed.

(* what the decoder returns re-encodes to the tags it consumed (on encoder output) *)
Theorem reencode_identical t : supported t = true -> wf_ty t = true ->
  forall v ts rest v' rest', has_ty t v -> encode t v = Ok ts -> rest_ok (avoid t) rest ->
  decode t (ts ++ rest) = Ok (v', rest') -> rest' = rest /\ encode t v' = Ok ts.
Proof.
  intros Hs Hw v ts rest v' rest' Hv He Hr Hd.
  rewrite (roundtrip t Hs Hw v ts rest Hv He Hr) in Hd. injection Hd as <- <-. auto.
Qed.

(* through APCISequence down to octets (C02 supplies the tag-list round trip) *)
Theorem pdu_roundtrip els : supported (TSeq els) = true -> wf_ty (TSeq els) = true ->
  forall v ts, has_ty (TSeq els) v -> encode (TSeq els) v = Ok ts -> forallb wf_tag ts = true ->
  exists bs, encode_pdu (TSeq els) v = Ok bs /\ decode_pdu (TSeq els) bs = Ok v /\
             forall v', decode_pdu (TSeq els) bs = Ok v' -> encode_pdu (TSeq els) v' = Ok bs.
Proof.
  intros Hs Hw v ts Hv He Hwf.
  destruct (list_roundtrip ts Hwf) as (bs & Hb & Hd).
  assert (Hdec : decode_pdu (TSeq els) bs = Ok v).
  { pose proof (roundtrip (TSeq els) Hs Hw v ts [] Hv He I) as Hrt. rewrite app_nil_r in Hrt.
    unfold decode_pdu. rewrite Hd. cbn [bind]. cbn [decode] in Hrt.
    destruct (dec_els decode els ts) as [[fs r]|e]; cbn [bind] in *; [|discriminate].
    injection Hrt as <- ->. reflexivity. }
  exists bs. split; [|split].
  - unfold encode_pdu. rewrite He. exact Hb.
  - exact Hdec.
  - intros v' Hd'. rewrite Hdec in Hd'. injection Hd' as <-. unfold encode_pdu. rewrite He. exact Hb.
Qed.

(* trailing tags are refused *)
Theorem pdu_trailing_refused els : supported (TSeq els) = true -> wf_ty (TSeq els) = true ->
  forall v ts x bs, has_ty (TSeq els) v -> encode (TSeq els) v = Ok ts ->
  rest_ok (avoid (TSeq els)) [x] -> dec_tags bs = Ok (ts ++ [x]) ->
  decode_pdu (TSeq els) bs = Err TooManyArguments.
Proof.
  intros Hs Hw v ts x bs Hv He Hr Hd.
  pose proof (roundtrip (TSeq els) Hs Hw v ts [x] Hv He Hr) as Hrt.
  unfold decode_pdu. rewrite Hd. cbn [bind]. cbn [decode] in Hrt.
  destruct (dec_els decode els (ts ++ [x])) as [[fs r]|e]; cbn [bind] in *; [|discriminate].
  injection Hrt as _ ->. reflexivity.
Qed.

(* on encoder output the list loops never run out of fuel *)
Theorem fuel_enough_on_encodings t : supported t = true -> wf_ty t = true ->
  forall v ts rest, has_ty t v -> encode t v = Ok ts -> rest_ok (avoid t) rest ->
  decode t (ts ++ rest) <> Err OutOfFuel.
Proof.
  intros Hs Hw v ts rest Hv He Hr. rewrite (roundtrip t Hs Hw v ts rest Hv He Hr). discriminate.
Qed.

(* the repaired closing-tag branch of Sequence.decode: a required list element in front of a closing
   tag (or at the end of the tags) is the empty list *)
Theorem empty_list_before_closing s c x r : cls x = 3 ->
  dec_el decode (El (TSeqOf s) c false) (x :: r) = Ok (Some (VList []), x :: r)
  /\ dec_el decode (El (TSeqOf s) c false) [] = Ok (Some (VList []), []).
Proof. intros Hx. cbn [dec_el]. rewrite Hx. split; reflexivity. Qed.

(* a constructed alternative without a context tag is encoded but cannot be decoded *)
Theorem unctx_alternative_refused pre t o post x rest :
  forallb (fun e => match e with El (TAtom k) _ _ => k <=? 12 | _ => false end) pre = true ->
  is_atomic t = false ->
  pmatch_any (flat_map first_el pre) x = false ->
  dec_alts decode (pre ++ El t None o :: post) 0 x rest = Err RuntimeErr.
Proof.
  intros Hpre Hat. generalize 0%nat. induction pre as [|e pre IH]; intros n Hm.
  - cbn [app dec_alts]. destruct t; try discriminate; reflexivity.
  - cbn [forallb flat_map] in *. split_andb. unfold pmatch_any in Hm. rewrite existsb_app in Hm.
    apply orb_false_iff in Hm as [Hm1 Hm2].
    destruct e as [t' c' o']. destruct t'; try discriminate.
    cbn [app]. rewrite alt_skip; [apply IH; auto| cbn [sup_alt supported]; rewrite andb_true_r; assumption | exact Hm1].
Qed.
