(* NpciMsgFacts.v — lemmas about the twelve network-layer messages of Npci.v and their registry. *)
From Bac Require Import Base BytesFacts Npci NpciFacts.
From Coq Require Import ZifyBool ZifyN ZifyNat.
Ltac Zify.zify_post_hook ::= Z.to_euclidean_division_equations.
Open Scope N_scope.

(* ---------- network lists ---------- *)
Lemma nets_roundtrip l : wf_nets l = true -> dec_nets (put_nets l) = Ok l.
Proof.
  induction l as [|n l IH]; intros H; [reflexivity|].
  cbn [wf_nets forallb] in H. apply andb_true_iff in H as [Hn Hl].
  unfold put_nets. cbn [flat_map]. rewrite put_short_small by lia. cbn [app dec_nets].
  fold (put_nets l). rewrite IH by exact Hl. cbn [bind]. f_equal. f_equal. lia.
Qed.

Lemma dec_nets_only_aux bs :
  (forall e, dec_nets bs = Err e -> e = DecodingError)
  /\ (forall a e, dec_nets (a :: bs) = Err e -> e = DecodingError).
Proof.
  induction bs as [|b bs [IH1 IH2]].
  - split; intros; cbn in *; congruence.
  - split; [exact (IH2 b)|]. intros a e H. cbn [dec_nets] in H.
    destruct (dec_nets bs) eqn:E; cbn [bind] in H; [discriminate|].
    injection H as <-. exact (IH1 _ eq_refl).
Qed.
Lemma dec_nets_only : only_dec dec_nets.
Proof. intros bs e. apply (proj1 (dec_nets_only_aux bs)). Qed.

(* ---------- routing tables ---------- *)
Lemma rtes_roundtrip t : forallb wf_rte t = true ->
  exists bs, enc_rtes t = Ok bs /\ forall r, dec_rtes (length t) (bs ++ r) = Ok (t, r).
Proof.
  induction t as [|e t IH]; intros H.
  - exists []. split; reflexivity.
  - cbn [forallb] in H. apply andb_true_iff in H as [He Ht].
    destruct (IH Ht) as (bs & Eb & Db). unfold wf_rte in He.
    exists (put_short (rt_dnet e) ++ [rt_port e] ++ [lenN (rt_info e)] ++ rt_info e ++ bs).
    split.
    + cbn [enc_rtes]. rewrite !put_ok by lia. cbn [bind]. rewrite Eb. reflexivity.
    + intros r. cbn [length dec_rtes]. rewrite put_short_small by lia.
      cbn [app]. rewrite get_short_net by lia. cbn [bind get].
      rewrite <- app_assoc. rewrite get_data_app. cbn [bind]. rewrite Db. cbn [bind].
      destruct e; reflexivity.
Qed.

Lemma table_roundtrip t : wf_table t = true ->
  exists bs, enc_table t = Ok bs /\ forall r, dec_table (bs ++ r) = Ok (t, r).
Proof.
  intros H. unfold wf_table in H. apply andb_true_iff in H as [Hl Ht].
  destruct (rtes_roundtrip t Ht) as (bs & Eb & Db).
  exists ([lenN t] ++ bs). split.
  - unfold enc_table. rewrite put_ok by lia. cbn [bind]. rewrite Eb. reflexivity.
  - intros r. unfold dec_table. cbn [app get bind].
    unfold lenN at 1. rewrite Nat2N.id. apply Db.
Qed.

Lemma dec_rtes_only n : only_dec (dec_rtes n).
Proof.
  induction n as [|n IH]; intros bs e H; cbn [dec_rtes] in H; [discriminate|].
  step_only get_short_only. step_only get_only. step_only get_only.
  step_only (get_data_only n2). step_only IH. discriminate.
Qed.
Lemma dec_table_only : only_dec dec_table.
Proof.
  intros bs e H. unfold dec_table in H. step_only get_only. exact (dec_rtes_only _ _ _ H).
Qed.

(* ---------- each message ---------- *)
Lemma msg_roundtrip m : wf_msg m = true ->
  exists bs, enc_msg m = Ok bs /\ dec_msg (msg_type m) bs = Ok (m, []).
Proof.
  destruct m as [[n|] | l | n p | x n | l | l | t | t | n p | n | | n p]; cbn [wf_msg]; intros H.
  - exists (put_short n). split; [reflexivity|].
    rewrite put_short_small by lia. cbn [msg_type dec_msg N.eqb].
    rewrite get_short_net by lia. reflexivity.
  - exists []. split; reflexivity.
  - exists (put_nets l). split; [reflexivity|].
    cbn [msg_type dec_msg N.eqb Pos.eqb]. rewrite nets_roundtrip by assumption. reflexivity.
  - apply andb_true_iff in H as [H1 H2]. exists (put_short n ++ [p]). split; [cbn [enc_msg]; rewrite put_ok by lia; reflexivity|].
    rewrite put_short_small by lia. cbn [msg_type dec_msg N.eqb Pos.eqb app].
    rewrite get_short_net by lia. reflexivity.
  - apply andb_true_iff in H as [H1 H2]. exists ([x] ++ put_short n). split; [cbn [enc_msg]; rewrite put_ok by lia; reflexivity|].
    rewrite put_short_small by lia. cbn [msg_type dec_msg N.eqb Pos.eqb app get bind].
    rewrite get_short_net by lia. reflexivity.
  - exists (put_nets l). split; [reflexivity|].
    cbn [msg_type dec_msg N.eqb Pos.eqb]. rewrite nets_roundtrip by assumption. reflexivity.
  - exists (put_nets l). split; [reflexivity|].
    cbn [msg_type dec_msg N.eqb Pos.eqb]. rewrite nets_roundtrip by assumption. reflexivity.
  - destruct (table_roundtrip t H) as (bs & Eb & Db). exists bs. split; [exact Eb|].
    cbn [msg_type dec_msg N.eqb Pos.eqb]. specialize (Db []). rewrite app_nil_r in Db.
    rewrite Db. reflexivity.
  - destruct (table_roundtrip t H) as (bs & Eb & Db). exists bs. split; [exact Eb|].
    cbn [msg_type dec_msg N.eqb Pos.eqb]. specialize (Db []). rewrite app_nil_r in Db.
    rewrite Db. reflexivity.
  - apply andb_true_iff in H as [H1 H2]. exists (put_short n ++ [p]). split; [cbn [enc_msg]; rewrite put_ok by lia; reflexivity|].
    rewrite put_short_small by lia. cbn [msg_type dec_msg N.eqb Pos.eqb app].
    rewrite get_short_net by lia. reflexivity.
  - exists (put_short n). split; [reflexivity|].
    rewrite put_short_small by lia. cbn [msg_type dec_msg N.eqb Pos.eqb].
    rewrite get_short_net by lia. reflexivity.
  - exists []. split; reflexivity.
  - apply andb_true_iff in H as [H1 H2]. exists (put_short n ++ [p]). split; [cbn [enc_msg]; rewrite put_ok by lia; reflexivity|].
    rewrite put_short_small by lia. cbn [msg_type dec_msg N.eqb Pos.eqb app].
    rewrite get_short_net by lia. reflexivity.
Qed.

(* ---------- the registry ---------- *)
Lemma msg_type_registered m : In (msg_type m) registered_types.
Proof. destruct m; cbn; tauto. Qed.

Lemma registered_nodup : NoDup registered_types /\ length registered_types = 12%nat.
Proof.
  split; [|reflexivity].
  unfold registered_types.
  repeat (constructor; [cbn [In]; intros H; repeat destruct H as [H|H]; try discriminate H; exact H|]).
  constructor.
Qed.

Lemma dec_msg_unregistered t bs : ~ In t registered_types -> dec_msg t bs = Err KeyErr.
Proof.
  intros H. unfold dec_msg.
  repeat match goal with
  | |- context [if ?t =? ?k then _ else _] =>
      destruct (t =? k) eqn:?E;
      [exfalso; apply H; assert (t = k) as -> by lia; cbn; tauto|]
  end.
  reflexivity.
Qed.

Lemma dec_msg_registered t bs e : In t registered_types -> dec_msg t bs = Err e -> e = DecodingError.
Proof.
  intros H. cbn [In registered_types] in H.
  repeat destruct H as [H|H]; try contradiction; subst t; cbn [dec_msg N.eqb Pos.eqb]; intros H.
  - destruct bs; [discriminate|]. step_only get_short_only. discriminate.
  - destruct (dec_nets bs) eqn:E; cbn [bind] in H; [discriminate|]. injection H as <-. exact (dec_nets_only _ _ E).
  - step_only get_short_only. step_only get_only. discriminate.
  - step_only get_only. step_only get_short_only. discriminate.
  - destruct (dec_nets bs) eqn:E; cbn [bind] in H; [discriminate|]. injection H as <-. exact (dec_nets_only _ _ E).
  - destruct (dec_nets bs) eqn:E; cbn [bind] in H; [discriminate|]. injection H as <-. exact (dec_nets_only _ _ E).
  - step_only dec_table_only. discriminate.
  - step_only dec_table_only. discriminate.
  - step_only get_short_only. step_only get_only. discriminate.
  - step_only get_short_only. discriminate.
  - discriminate.
  - step_only get_short_only. step_only get_only. discriminate.
Qed.

Lemma dec_msg_type t bs m r : dec_msg t bs = Ok (m, r) -> msg_type m = t.
Proof.
  unfold dec_msg.
  repeat match goal with
  | |- context [if ?t =? ?k then _ else _] =>
      destruct (t =? k) eqn:?E; [assert (t = k) as -> by lia; clear E|]
  end; intros H; try discriminate;
  repeat match type of H with
  | match ?l with [] => _ | _ :: _ => _ end = _ => destruct l
  | bind ?m _ = Ok _ => destruct m as [[? ?]|] eqn:?; cbn [bind] in H; [|discriminate]
  | bind ?m _ = Ok _ => destruct m eqn:?; cbn [bind] in H; [|discriminate]
  end; injection H as <- _; reflexivity.
Qed.

Lemma registry t :
  (In t registered_types <-> forall bs, dec_msg t bs <> Err KeyErr).
Proof.
  split.
  - intros H bs E. apply (dec_msg_registered t bs KeyErr H) in E. discriminate.
  - intros H. destruct (in_dec N.eq_dec t registered_types) as [I|I]; [exact I|].
    exfalso. exact (H [] (dec_msg_unregistered t [] I)).
Qed.

(* ---------- whole frames ---------- *)
Lemma frame_roundtrip h m :
  wf_npci (with_msg h (msg_type m)) = true -> wf_msg m = true ->
  exists bs, enc_frame h m = Ok bs
    /\ dec_frame bs = Ok (control_of (with_msg h (msg_type m)), with_msg h (msg_type m), m, []).
Proof.
  intros Hh Hm.
  destruct (msg_roundtrip m Hm) as (b & Eb & Db).
  destruct (npci_roundtrip (with_msg h (msg_type m)) b Hh) as (hd & Eh & Dh).
  exists (hd ++ b). split.
  - unfold enc_frame. rewrite Eb. cbn [bind]. rewrite Eh. reflexivity.
  - unfold dec_frame. rewrite Dh. cbn [bind snd fst nmsg with_msg]. rewrite Db. reflexivity.
Qed.
