(* DeferredExnFacts.v — exception isolation for every exception value <-> the handler never raises *)
From Bac Require Import Base Deferred DeferredFacts DeferredExn.
From Coq Require Import Permutation.
Open Scope Z_scope.

Lemma xerase_eq : forall i k e sp a,
  xerase (XF i k e sp a) = DF i (match e with Some _ => true | None => false end) (map xerase sp) a.
Proof.
  intros. reflexivity.
Qed.

Lemma xerase_spawns : forall d, d_spawns (xerase d) = map xerase (x_spawns d).
Proof. intros [i k e sp a]. rewrite xerase_eq. reflexivity. Qed.

(* the handler of the tree: the loop with exception values IS the guarded loop of Deferred.v,
   whatever values are raised by whatever kinds of callable *)
Lemma xcall_batch_code : forall b,
  xcall_batch h_code b = (b, flat_map x_spawns b, false).
Proof.
  induction b as [|d r IH]; [reflexivity|]. cbn [xcall_batch flat_map]. rewrite IH.
  unfold h_code. destruct (x_exc d); reflexivity.
Qed.

Lemma map_flat_spawns : forall b, map xerase (flat_map x_spawns b) = flat_map d_spawns (map xerase b).
Proof.
  induction b as [|d r IH]; [reflexivity|]. cbn [flat_map map]. rewrite map_app, IH, xerase_spawns. reflexivity.
Qed.

Lemma xdrain_code : forall fuel q c q' s, xdrain h_code fuel q = (c, q', s) ->
  drain true fuel (map xerase q) = (map xerase c, map xerase q', s).
Proof.
  induction fuel as [|f IH]; intros q c q' s H.
  - destruct q; cbn [xdrain] in H; inversion H; subst; reflexivity.
  - destruct q as [|d r]; [cbn [xdrain] in H; inversion H; subst; reflexivity|].
    cbn [xdrain] in H. rewrite xcall_batch_code in H.
    destruct (xdrain h_code f (flat_map x_spawns (d :: r))) as [[c2 q2] s2] eqn:R.
    inversion H; subst. apply IH in R.
    change (map xerase (d :: r)) with (xerase d :: map xerase r). cbn [drain].
    change (xerase d :: map xerase r) with (map xerase (d :: r)).
    rewrite call_batch_guarded. rewrite map_flat_spawns in R. rewrite R. rewrite <- map_app. reflexivity.
Qed.

(* ... so everything C14_deferred_once_in_order says holds of it: every function handed over is
   called exactly once, in submission order, the queue ends empty — for EVERY assignment of
   exception values (no arguments, several, unprintable, any class) and kinds of callable *)
Lemma c14_exception_values_isolated : forall q,
  exists L, xdrain_all h_code q = (L, [], DDone) /\
            map xerase L = map xerase q ++ flat_map d_spawns (map xerase L) /\
            Permutation (map xerase L) (f_all (map xerase q)).
Proof.
  intros q. unfold xdrain_all.
  destruct (xdrain h_code (f_size (map xerase q)) q) as [[c q'] s] eqn:R.
  pose proof (xdrain_code _ _ _ _ _ R) as D.
  destruct (drain_all_guarded (map xerase q)) as [L [HL [HLe HLp]]].
  unfold drain_all in HL. rewrite HL in D. inversion D as [[Hc Hq Hs]].
  exists c. destruct q' as [|x r]; [|discriminate]. split; [reflexivity|].
  rewrite <- Hc. split; assumption.
Qed.

(* conversely: a handler that raises on SOME (callable, value) loses a function on a batch of two *)
Lemma handler_must_be_total : forall (h : handler) k e, h k e = true ->
  exists q d, In d q /\
    (let '(c, r, s) := xdrain_all h q in ~ In d c /\ ~ In d r /\ s = DRaised).
Proof.
  intros h k e H.
  exists [XF 0 k (Some e) [] []; XF 1 KFunction None [] []], (XF 1 KFunction None [] []).
  split; [right; left; reflexivity|].
  unfold xdrain_all. cbn. rewrite H. cbn.
  split; [|split; [|reflexivity]].
  - intros [X|[]]. discriminate X.
  - intros [].
Qed.

Lemma isolation_iff_handler_total : forall h : handler,
  (forall k e, h k e = false) <->
  (forall q, exists L, xdrain_all h q = (L, [], DDone)).
Proof.
  intros h. split.
  - intros Hh q.
    assert (E : forall fuel q, xdrain h fuel q = xdrain h_code fuel q).
    { assert (B : forall b, xcall_batch h b = xcall_batch h_code b).
      { induction b as [|d r IH]; [reflexivity|]. cbn [xcall_batch]. rewrite IH. unfold h_code.
        destruct (x_exc d); [rewrite Hh|]; reflexivity. }
      induction fuel as [|f IH]; intros q0; destruct q0; cbn [xdrain]; try reflexivity.
      rewrite B. destruct (xcall_batch h_code (x :: q0)) as [[c q'] x0]. destruct x0; [reflexivity|].
      rewrite IH. reflexivity. }
    destruct (c14_exception_values_isolated q) as [L [HL _]]. exists L. unfold xdrain_all in *. rewrite E. exact HL.
  - intros Hq k e. destruct (h k e) eqn:H; [|reflexivity].
    destruct (handler_must_be_total h k e H) as [q [d [_ Hd]]].
    destruct (Hq q) as [L HL]. rewrite HL in Hd. destruct Hd as [_ [_ X]]. discriminate X.
Qed.

(* the two seeded handlers are not total: a value raised without arguments / a partial object *)
Lemma h_first_arg_loses : h_first_arg KFunction (mkExn 0 [] true) = true.
Proof. reflexivity. Qed.
Lemma h_fn_name_loses : h_fn_name KPartial (mkExn 0 [1] true) = true.
Proof. reflexivity. Qed.
