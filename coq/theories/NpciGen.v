(* NpciGen.v — the codec as the SOURCE says it now (BacGen.NpciFns, regenerated on every run) packaged as
   functions of the same types as the hand model, the equalities gen_* = model, and the main C08 facts
   restated directly on the translated functions.

   gen_enc_npci h       = NPCI().encode(PDU()) with the header fields h            -> octets in the PDU
   gen_dec_npci bs      = NPCI().decode(PDU(bs))                                   -> (npduControl, fields, octets left in the PDU)
   gen_enc_npdu h data  = NPDU(data).encode(PDU()),  gen_dec_npdu bs = NPDU().decode(PDU(bs)) (payload in self.pduData)
   gen_enc_msg m        = <Class>(params).encode(NPDU())                           -> npdu.pduData
   gen_dec_msg t bs     = dispatch on the translated <Class>.messageType constants, <Class>().decode(NPDU(bs))
   gen_enc_frame / gen_dec_frame = message.encode(npdu); npdu.encode(pdu) / NPDU.decode(pdu); npdu_types[t]().decode(npdu)
   (the NPCI.update copy between message object and NPDU is on the translator's skip list and is with_msg here). *)
From Bac Require Import Base BytesFacts Npci NpciRt NpciFacts NpciMsgFacts NpciGenFacts NpciGenEnc NpciGenDec.
From BacGen Require Import NpciFns.
From Coq Require Import ZifyBool ZifyN ZifyNat.
Ltac Zify.zify_post_hook ::= Z.to_euclidean_division_equations.
Open Scope N_scope.

(* ---- NPDU.encode / NPDU.decode *)
Lemma NPDU_encode_is_model o p :
  NPDU_encode o p =
  do b <- enc_npdu (npci_of o) (pduData o);
  Ok (set_npduControl (Some (control_of (npci_of o))) o,
      set_pduNetworkPriority (pduNetworkPriority o) (set_pduExpectingReply (pduExpectingReply o) (app_data b p))).
Proof.
  unfold NPDU_encode, enc_npdu. rewrite NPCI_encode_is_model.
  destruct (enc_npci (npci_of o)) as [hd|]; [|reflexivity]. cbn [bind].
  destruct o, p; unfold py_put_data, app_data; cbn. rewrite <- app_assoc. reflexivity.
Qed.

Lemma get_data_all l : get_data (lenN l) l = Ok (l, []).
Proof.
  unfold get_data. rewrite N.ltb_irrefl. unfold lenN. rewrite Nat2N.id, firstn_all, skipn_all. reflexivity.
Qed.

Lemma NPDU_decode_is_model o p :
  NPDU_decode o p =
  do (ch, r) <- dec_npdu (pduData p); Ok (set_pduData r (obj_after o (fst ch) (snd ch)), set_pduData [] p).
Proof.
  unfold NPDU_decode, dec_npdu. rewrite NPCI_decode_is_model.
  destruct (dec_npci (pduData p)) as [[ch r]|]; [|reflexivity]. cbn [bind].
  unfold py_get_data. cbn [pduData set_pduData]. rewrite get_data_all. reflexivity.
Qed.

(* ---- the translated codec as functions of the model's types *)
Definition gen_enc_npci (h : npci) : res (list N) := out (NPCI_encode (obj_of_npci h []) (buf [])).
Definition gen_enc_npdu (h : npci) (payload : list N) : res (list N) :=
  out (NPDU_encode (obj_of_npci h payload) (buf [])).
Definition gen_dec_npci (bs : list N) : res (N * npci * list N) :=
  do (o, p) <- NPCI_decode (buf []) (buf bs); do c <- req (npduControl o); Ok (c, npci_of o, pduData p).
Definition gen_dec_npdu (bs : list N) : res (N * npci * list N) :=
  do (o, p) <- NPDU_decode (buf []) (buf bs); do c <- req (npduControl o); Ok (c, npci_of o, pduData o).

Definition gen_enc_msg (m : msg) : res (list N) :=
  match m with
  | WhoIsRouter n => out (WhoIsRouterToNetwork_encode (mk_WhoIsRouterToNetwork n) (buf []))
  | IAmRouter l => out (IAmRouterToNetwork_encode (mk_IAmRouterToNetwork l) (buf []))
  | ICouldBeRouter n pf => out (ICouldBeRouterToNetwork_encode (mk_ICouldBeRouterToNetwork n pf) (buf []))
  | RejectMessage x n => out (RejectMessageToNetwork_encode (mk_RejectMessageToNetwork x n) (buf []))
  | RouterBusy l => out (RouterBusyToNetwork_encode (mk_RouterBusyToNetwork l) (buf []))
  | RouterAvailable l => out (RouterAvailableToNetwork_encode (mk_RouterAvailableToNetwork l) (buf []))
  | InitRT t => out (InitializeRoutingTable_encode (mk_InitializeRoutingTable t) (buf []))
  | InitRTAck t => out (InitializeRoutingTableAck_encode (mk_InitializeRoutingTableAck t) (buf []))
  | EstablishConn n x => out (EstablishConnectionToNetwork_encode (mk_EstablishConnectionToNetwork n x) (buf []))
  | DisconnectConn n => out (DisconnectConnectionToNetwork_encode (mk_DisconnectConnectionToNetwork n) (buf []))
  | WhatIsNetNum => out (WhatIsNetworkNumber_encode mk_WhatIsNetworkNumber (buf []))
  | NetNumIs n f => out (NetworkNumberIs_encode (mk_NetworkNumberIs n f) (buf []))
  end.

(* npdu_types[t]().decode(NPDU(bs)); the argument-less constructors (None / [] parameters; a number
   where the model has no None) — the result does not depend on them *)
Definition gen_dec_msg (t : N) (bs : list N) : res (msg * list N) :=
  if t =? WhoIsRouterToNetwork_messageType then view msg_of_whois (WhoIsRouterToNetwork_decode (mk_WhoIsRouterToNetwork None) (buf bs))
  else if t =? IAmRouterToNetwork_messageType then view msg_of_iam (IAmRouterToNetwork_decode (mk_IAmRouterToNetwork []) (buf bs))
  else if t =? ICouldBeRouterToNetwork_messageType then view msg_of_icb (ICouldBeRouterToNetwork_decode (mk_ICouldBeRouterToNetwork 0 0) (buf bs))
  else if t =? RejectMessageToNetwork_messageType then view msg_of_rej (RejectMessageToNetwork_decode (mk_RejectMessageToNetwork 0 0) (buf bs))
  else if t =? RouterBusyToNetwork_messageType then view msg_of_busy (RouterBusyToNetwork_decode (mk_RouterBusyToNetwork []) (buf bs))
  else if t =? RouterAvailableToNetwork_messageType then view msg_of_avail (RouterAvailableToNetwork_decode (mk_RouterAvailableToNetwork []) (buf bs))
  else if t =? InitializeRoutingTable_messageType then view msg_of_irt (InitializeRoutingTable_decode (mk_InitializeRoutingTable []) (buf bs))
  else if t =? InitializeRoutingTableAck_messageType then view msg_of_irta (InitializeRoutingTableAck_decode (mk_InitializeRoutingTableAck []) (buf bs))
  else if t =? EstablishConnectionToNetwork_messageType then view msg_of_est (EstablishConnectionToNetwork_decode (mk_EstablishConnectionToNetwork 0 0) (buf bs))
  else if t =? DisconnectConnectionToNetwork_messageType then view msg_of_disc (DisconnectConnectionToNetwork_decode (mk_DisconnectConnectionToNetwork 0) (buf bs))
  else if t =? WhatIsNetworkNumber_messageType then view msg_of_what (WhatIsNetworkNumber_decode mk_WhatIsNetworkNumber (buf bs))
  else if t =? NetworkNumberIs_messageType then view msg_of_nni (NetworkNumberIs_decode (mk_NetworkNumberIs 0 0) (buf bs))
  else Err KeyErr.

Definition gen_enc_frame (h : npci) (m : msg) : res (list N) :=
  do b <- gen_enc_msg m; gen_enc_npdu (with_msg h (msg_type m)) b.
Definition gen_dec_frame (bs : list N) : res (N * npci * msg * list N) :=
  do (ch, r) <- gen_dec_npdu bs;
  match nmsg (snd ch) with
  | None => Err KeyErr
  | Some t => do (m, r') <- gen_dec_msg t r; Ok (fst ch, snd ch, m, r')
  end.

(* ---- gen = model, for all inputs *)
Lemma npci_of_obj h d : npci_of (obj_of_npci h d) = h.
Proof. destruct h; reflexivity. Qed.

Lemma gen_enc_npci_is_model h : gen_enc_npci h = enc_npci h.
Proof.
  unfold gen_enc_npci. rewrite NPCI_encode_is_model, npci_of_obj.
  destruct (enc_npci h); reflexivity.
Qed.

Lemma gen_enc_npdu_is_model h payload : gen_enc_npdu h payload = enc_npdu h payload.
Proof.
  unfold gen_enc_npdu. rewrite NPDU_encode_is_model, npci_of_obj. cbn [obj_of_npci pduData].
  destruct (enc_npdu h payload); reflexivity.
Qed.

Lemma keep_none {A} (o : option A) : keep o None = o.
Proof. destruct o; reflexivity. Qed.

Lemma gen_dec_npci_is_model bs : gen_dec_npci bs = dec_npci bs.
Proof.
  unfold gen_dec_npci. rewrite NPCI_decode_is_model. cbn [buf pduData].
  destruct (dec_npci bs) as [[[c h] r]|]; [|reflexivity]. cbn [bind fst snd obj_after npduControl req].
  unfold npci_of; cbn [buf npduVersion pduExpectingReply pduNetworkPriority npduDADR npduSADR npduHopCount
                          npduNetMessage npduVendorID pduData set_pduData obj_after].
  rewrite !keep_none. destruct h; reflexivity.
Qed.

Lemma gen_dec_npdu_is_model bs : gen_dec_npdu bs = dec_npdu bs.
Proof.
  unfold gen_dec_npdu. rewrite NPDU_decode_is_model. cbn [buf pduData]. unfold dec_npdu.
  destruct (dec_npci bs) as [[[c h] r]|]; [|reflexivity]. cbn [bind fst snd obj_after npduControl req set_pduData].
  unfold npci_of; cbn [buf npduVersion pduExpectingReply pduNetworkPriority npduDADR npduSADR npduHopCount
                          npduNetMessage npduVendorID pduData set_pduData obj_after].
  rewrite !keep_none. destruct h; reflexivity.
Qed.

Lemma out_app {O} (o : O) (r : res (list N)) :
  out (do b <- r; Ok (o, app_data b (buf []))) = r.
Proof. destruct r; reflexivity. Qed.

Lemma gen_enc_msg_is_model m : gen_enc_msg m = enc_msg m.
Proof.
  destruct m; cbn [gen_enc_msg];
    rewrite ?WhoIsRouterToNetwork_encode_is_model, ?IAmRouterToNetwork_encode_is_model,
      ?ICouldBeRouterToNetwork_encode_is_model, ?RejectMessageToNetwork_encode_is_model,
      ?RouterBusyToNetwork_encode_is_model, ?RouterAvailableToNetwork_encode_is_model,
      ?InitializeRoutingTable_encode_is_model, ?InitializeRoutingTableAck_encode_is_model,
      ?EstablishConnectionToNetwork_encode_is_model, ?DisconnectConnectionToNetwork_encode_is_model,
      ?WhatIsNetworkNumber_encode_is_model, ?NetworkNumberIs_encode_is_model;
    apply out_app.
Qed.

Lemma gen_dec_msg_is_model t bs : gen_dec_msg t bs = dec_msg t bs.
Proof.
  unfold gen_dec_msg.
  rewrite WhoIsRouterToNetwork_decode_is_model, IAmRouterToNetwork_decode_is_model,
    ICouldBeRouterToNetwork_decode_is_model, RejectMessageToNetwork_decode_is_model,
    RouterBusyToNetwork_decode_is_model, RouterAvailableToNetwork_decode_is_model,
    InitializeRoutingTable_decode_is_model, InitializeRoutingTableAck_decode_is_model,
    EstablishConnectionToNetwork_decode_is_model, DisconnectConnectionToNetwork_decode_is_model,
    WhatIsNetworkNumber_decode_is_model, NetworkNumberIs_decode_is_model.
  cbn [buf pduData].
  repeat match goal with |- (if t =? ?k then _ else _) = _ =>
    destruct (N.eqb_spec t k) as [->|?]; [reflexivity|] end.
  symmetry. apply dec_msg_unregistered.
  unfold WhoIsRouterToNetwork_messageType, IAmRouterToNetwork_messageType, ICouldBeRouterToNetwork_messageType,
    RejectMessageToNetwork_messageType, RouterBusyToNetwork_messageType, RouterAvailableToNetwork_messageType,
    InitializeRoutingTable_messageType, InitializeRoutingTableAck_messageType, EstablishConnectionToNetwork_messageType,
    DisconnectConnectionToNetwork_messageType, WhatIsNetworkNumber_messageType, NetworkNumberIs_messageType in *.
  cbn [registered_types In]. intros H. repeat destruct H as [H|H]; try (symmetry in H; contradiction). exact H.
Qed.

Lemma gen_enc_frame_is_model h m : gen_enc_frame h m = enc_frame h m.
Proof.
  unfold gen_enc_frame, enc_frame. rewrite gen_enc_msg_is_model.
  destruct (enc_msg m); [|reflexivity]. cbn [bind]. apply gen_enc_npdu_is_model.
Qed.

Lemma gen_dec_frame_is_model bs : gen_dec_frame bs = dec_frame bs.
Proof.
  unfold gen_dec_frame, dec_frame. rewrite gen_dec_npdu_is_model. unfold dec_npdu.
  destruct (dec_npci bs) as [[ch r]|]; [|reflexivity]. cbn [bind].
  destruct (nmsg (snd ch)); [|reflexivity]. rewrite gen_dec_msg_is_model. reflexivity.
Qed.

(* ---- the main C08 facts, about the translated functions *)
Lemma gen_roundtrip h payload : wf_npci h = true ->
  exists bs, gen_enc_npci h = Ok bs /\ gen_dec_npci (bs ++ payload) = Ok (control_of h, h, payload).
Proof. intros H. rewrite gen_enc_npci_is_model. setoid_rewrite gen_dec_npci_is_model. exact (npci_roundtrip h payload H). Qed.

Lemma gen_layout h : wf_npci h = true -> gen_enc_npci h = Ok (spec6_2 h).
Proof. rewrite gen_enc_npci_is_model. apply enc_npci_spec. Qed.

Lemma gen_refuses_version bs : (forall r, bs <> 1 :: r) -> gen_dec_npci bs = Err DecodingError.
Proof. rewrite gen_dec_npci_is_model. apply dec_npci_version. Qed.

Lemma gen_refuses_bad_sadr h net mac payload :
  wf_npci (with_sadr h None) = true -> net < 65536 -> lenN mac < 256 -> (net = 65535 \/ mac = []) ->
  exists bs, gen_enc_npci (with_sadr h (Some (RStation net mac))) = Ok bs
    /\ bs = spec6_2 (with_sadr h (Some (RStation net mac)))
    /\ gen_dec_npci (bs ++ payload) = Err DecodingError.
Proof.
  rewrite gen_enc_npci_is_model. setoid_rewrite gen_dec_npci_is_model. apply npci_bad_sadr.
Qed.

Lemma gen_refuses_truncated h bs k : wf_npci h = true -> gen_enc_npci h = Ok bs ->
  (k < length bs)%nat -> gen_dec_npci (firstn k bs) = Err DecodingError.
Proof. rewrite gen_enc_npci_is_model, gen_dec_npci_is_model. apply npci_truncated_enc. Qed.

Lemma gen_decode_error_class bs e : gen_dec_npci bs = Err e -> e = DecodingError.
Proof. rewrite gen_dec_npci_is_model. apply dec_npci_only. Qed.

Lemma gen_msg_roundtrip m : wf_msg m = true ->
  exists bs, gen_enc_msg m = Ok bs /\ gen_dec_msg (msg_type m) bs = Ok (m, []).
Proof. rewrite gen_enc_msg_is_model. setoid_rewrite gen_dec_msg_is_model. apply msg_roundtrip. Qed.

Lemma gen_frame_roundtrip h m :
  wf_npci (with_msg h (msg_type m)) = true -> wf_msg m = true ->
  exists bs, gen_enc_frame h m = Ok bs
    /\ gen_dec_frame bs = Ok (control_of (with_msg h (msg_type m)), with_msg h (msg_type m), m, []).
Proof. rewrite gen_enc_frame_is_model. setoid_rewrite gen_dec_frame_is_model. apply frame_roundtrip. Qed.

Lemma gen_unregistered t bs : ~ In t registered_types -> gen_dec_msg t bs = Err KeyErr.
Proof. rewrite gen_dec_msg_is_model. apply dec_msg_unregistered. Qed.
