(* AddrParse.v — what decode_str yields on each notation; print/parse round trip. *)
From Bac Require Import Base Addr AddrFacts.
From Coq Require Import ZifyBool ZifyN ZifyNat.
Ltac Zify.zify_post_hook ::= Z.to_euclidean_division_equations.
Open Scope N_scope.

(* ------------------------------------------------------------------ the combined pattern *)
Definition noprefix (cs : str) : bool :=
  match split_at 58 cs with
  | Some (a, _) => negb (digits a) && negb (str_eqb a [42])
  | None => true
  end.

Lemma mc_noprefix cs c : ~ In 64 cs -> noprefix cs = true -> match_core cs = Some c ->
  match_combined cs = Some (PNone, c, RNone).
Proof.
  intros H64 Hnp Hc. unfold match_combined. rewrite (split_at_none 64 cs H64).
  unfold noprefix in Hnp. destruct (split_at 58 cs) as [[a rest]|].
  - apply andb_true_iff in Hnp as [H1 H2]. apply negb_true_iff in H1, H2. rewrite H1, H2, Hc. reflexivity.
  - rewrite Hc. reflexivity.
Qed.

Lemma mc_net n cs c : digits n = true -> ~ In 64 cs -> match_core cs = Some c ->
  match_combined (n ++ 58 :: cs) = Some (PNet n, c, RNone).
Proof.
  intros Hn H64 Hc. unfold match_combined.
  rewrite (split_at_none 64).
  2:{ intro Hin. apply in_app_or in Hin as [Hin|[Hin|Hin]]; [|discriminate|auto].
      revert Hin. apply digits_notin; [exact Hn|reflexivity]. }
  rewrite (split_at_app 58 n cs).
  2:{ apply digits_notin; [exact Hn|reflexivity]. }
  rewrite Hn, Hc. reflexivity.
Qed.

Lemma digit_head s : digits s = true -> exists c r, s = c :: r /\ 48 <= c <= 57.
Proof.
  destruct s as [|c r]; [discriminate|]. intro H. exists c, r. split; [reflexivity|].
  cbn [digits forallb] in H. apply andb_true_iff in H as [H _]. now apply is_digit_spec.
Qed.

Lemma core_digits s : digits s = true -> match_core s = Some (CField s).
Proof.
  intro H. unfold match_core, is_field. rewrite H.
  destruct (digit_head s H) as (c & r & -> & Hc).
  replace (str_eqb (c :: r) [42]) with false; [reflexivity|].
  unfold str_eqb. cbn [list_eqb]. destruct (c =? 42) eqn:E; [lia|reflexivity].
Qed.

Lemma core_hex h : hex_pairs h = true -> match_core (48 :: 120 :: h) = Some (CField (48 :: 120 :: h)).
Proof.
  intro H. unfold match_core, is_field. cbn [str_eqb list_eqb N.eqb Pos.eqb andb starts_0x skipn].
  change (str_eqb (48 :: 120 :: h) [42]) with false. cbn [digits forallb].
  replace (is_digit 48 && (is_digit 120 && forallb is_digit h)) with false by reflexivity.
  rewrite H. reflexivity.
Qed.

(* generic result of decode_str once the combined pattern has matched without route *)
Definition decode_matched (p : pfx) (c : core) : res addr :=
  do tn <- match p, c with
           | PStar, CBcast => Ok (AGlobalBroadcast, None)
           | PNet n, CBcast => do v <- net_check n; Ok (ARemoteBroadcast, Some v)
           | PNone, CBcast => Ok (ALocalBroadcast, None)
           | PNet n, _ => do v <- net_check n; Ok (ARemoteStation, Some v)
           | PStar, _ => Err ValueErr
           | PNone, _ => Ok (ALocalStation, None)
           end;
  do mi <- match c with
           | CBcast => Ok (None, None)
           | CField f => do m <- field_mac f; Ok (Some m, None)
           | CIp h m p => do x <- ip_from_text h m p; Ok (Some (fst x), Some (snd x))
           end;
  Ok (mkAddr (fst tn) (snd tn) (fst mi) None (snd mi)).

Lemma decode_of_match s p c : nonl s = true -> str_eqb s [42] = false -> str_eqb s [42; 58; 42] = false ->
  match_combined s = Some (p, c, RNone) -> decode_str s = decode_matched p c.
Proof.
  intros Hnl H1 H2 Hm. unfold decode_str, decode_matched. rewrite H1, H2, (strip_nl_nonl s Hnl), Hm.
  destruct (match p with PNone => _ | _ => _ end) as [tn|e]; cbn [bind]; [|reflexivity].
  destruct (match c with CBcast => _ | _ => _ end) as [mi|e]; cbn [bind route_of]; reflexivity.
Qed.

Lemma digit_first_not_star c r : 48 <= c <= 57 ->
  str_eqb (c :: r) [42] = false /\ str_eqb (c :: r) [42; 58; 42] = false.
Proof.
  intro H. unfold str_eqb. cbn [list_eqb]. destruct (c =? 42) eqn:E; [lia|]. split; reflexivity.
Qed.

(* ------------------------------------------------------------------ station numbers, networks *)
Lemma starts_0x_digits s : digits s = true -> starts_0x s = false.
Proof.
  intro H. apply digits_forall in H. unfold starts_0x.
  destruct s as [|a [|b r]]; try reflexivity.
  cbn [forallb] in H. apply andb_true_iff in H as [_ H]. apply andb_true_iff in H as [Hb _].
  apply is_digit_spec in Hb. destruct (b =? 120) eqn:E; [lia|]. apply andb_false_r.
Qed.

Lemma field_mac_digits s : digits s = true ->
  field_mac s = if 256 <=? dec_val s then Err ValueErr else Ok [dec_val s].
Proof. intro H. unfold field_mac. rewrite (starts_0x_digits s H). reflexivity. Qed.

Lemma digits_nonl' s : digits s = true -> nonl s = true.
Proof. intro H. apply digits_nonl. now apply digits_forall. Qed.

Lemma notin_digits c s : digits s = true -> is_digit c = false -> ~ In c s.
Proof. intros. now apply (digits_notin s c). Qed.

(* "<station>" *)
Lemma decode_station s : digits s = true ->
  decode_str s = if 256 <=? dec_val s then Err ValueErr else Ok (station [dec_val s]).
Proof.
  intro H. destruct (digit_head s H) as (c & r & E & Hc).
  destruct (digit_first_not_star c r Hc) as [S1 S2]. rewrite <- E in S1, S2.
  rewrite (decode_of_match s PNone (CField s)); [|now apply digits_nonl'|exact S1|exact S2|].
  - unfold decode_matched. cbn [bind]. rewrite (field_mac_digits s H).
    destruct (256 <=? dec_val s); reflexivity.
  - apply mc_noprefix.
    + apply notin_digits; [exact H|reflexivity].
    + unfold noprefix. rewrite (split_at_none 58 s); [reflexivity|]. apply notin_digits; [exact H|reflexivity].
    + now apply core_digits.
Qed.

Lemma net_text_facts n cs : digits n = true -> nonl cs = true ->
  nonl (n ++ 58 :: cs) = true /\ str_eqb (n ++ 58 :: cs) [42] = false /\ str_eqb (n ++ 58 :: cs) [42; 58; 42] = false.
Proof.
  intros Hn Hcs. split.
  - rewrite nonl_app, (digits_nonl' n Hn). change (nonl (58 :: cs)) with (negb (58 =? 10) && nonl cs).
    rewrite Hcs. reflexivity.
  - destruct (digit_head n Hn) as (c & r & -> & Hc). cbn [app]. now apply digit_first_not_star.
Qed.

(* "<net>:<station>" *)
Lemma decode_net_station n s : digits n = true -> digits s = true ->
  decode_str (n ++ 58 :: s) =
    if (65535 <=? Z.of_N (dec_val n))%Z then Err ValueErr
    else if 256 <=? dec_val s then Err ValueErr
    else Ok (mkAddr ARemoteStation (Some (Z.of_N (dec_val n))) (Some [dec_val s]) None None).
Proof.
  intros Hn Hs. destruct (net_text_facts n s Hn (digits_nonl' s Hs)) as (F1 & F2 & F3).
  rewrite (decode_of_match _ (PNet n) (CField s) F1 F2 F3).
  - unfold decode_matched, net_check. destruct (65535 <=? Z.of_N (dec_val n))%Z; cbn [bind]; [reflexivity|].
    rewrite (field_mac_digits s Hs). destruct (256 <=? dec_val s); reflexivity.
  - apply mc_net; [exact Hn| |now apply core_digits]. apply notin_digits; [exact Hs|reflexivity].
Qed.

(* "<net>:*" *)
Lemma decode_net_bcast n : digits n = true ->
  decode_str (n ++ [58; 42]) =
    if (65535 <=? Z.of_N (dec_val n))%Z then Err ValueErr
    else Ok (mkAddr ARemoteBroadcast (Some (Z.of_N (dec_val n))) None None None).
Proof.
  intros Hn. destruct (net_text_facts n [42] Hn eq_refl) as (F1 & F2 & F3).
  rewrite (decode_of_match _ (PNet n) CBcast F1 F2 F3).
  - unfold decode_matched, net_check. destruct (65535 <=? Z.of_N (dec_val n))%Z; reflexivity.
  - apply mc_net; [exact Hn| |reflexivity]. intros [H|[]]. discriminate.
Qed.

(* ------------------------------------------------------------------ octet strings *)
Lemma hex_pairs_forall h : hex_pairs h = true -> forallb is_hex h = true /\ h <> [].
Proof.
  unfold hex_pairs. destruct h as [|a r]; [discriminate|]. intro H. apply andb_true_iff in H as [_ H].
  split; [exact H|discriminate].
Qed.

Lemma hex_notin c h : forallb is_hex h = true -> is_hex c = false -> ~ In c h.
Proof. apply forallb_notin. Qed.

Lemma unhex_total h : forallb is_hex h = true -> N.even (lenN h) = true -> exists b, unhex h = Ok b.
Proof.
  intros _. remember (length h) as k eqn:Hk. revert h Hk.
  induction k as [k IH] using lt_wf_ind. intros h Hk He.
  destruct h as [|a [|b r]].
  - exists []. reflexivity.
  - discriminate.
  - destruct (IH (length r)) with (h := r) as [t Ht]; [cbn [length] in Hk; lia|reflexivity| |].
    + unfold lenN in *. cbn [length] in He. rewrite !Nat2N.inj_succ in He.
      rewrite N.even_succ, <- N.negb_even, N.even_succ, <- N.negb_even, negb_involutive in He. exact He.
    + exists (hexval a * 16 + hexval b :: t). cbn [unhex]. rewrite Ht. reflexivity.
Qed.

Lemma field_mac_hex h : hex_pairs h = true -> field_mac (48 :: 120 :: h) = unhex h.
Proof.
  intro H. unfold field_mac. cbn [starts_0x N.eqb Pos.eqb andb skipn]. unfold xtob.
  destruct (hex_pairs_forall h H) as [Hf _]. rewrite (filter_all _ _ Hf). reflexivity.
Qed.

(* "0x<hex pairs>" : the octets are what the pairs spell *)
Lemma decode_hex h : hex_pairs h = true ->
  exists b, unhex h = Ok b /\ decode_str (48 :: 120 :: h) = Ok (station b).
Proof.
  intro H. destruct (hex_pairs_forall h H) as [Hf Hne].
  assert (He : N.even (lenN h) = true).
  { unfold hex_pairs in H. destruct h; [discriminate|]. now apply andb_true_iff in H as [H _]. }
  destruct (unhex_total h Hf He) as [b Hb]. exists b. split; [exact Hb|].
  rewrite (decode_of_match _ PNone (CField (48 :: 120 :: h))).
  - unfold decode_matched. cbn [bind]. rewrite (field_mac_hex h H), Hb. reflexivity.
  - cbn [nonl forallb N.eqb Pos.eqb negb andb]. now apply hex_nonl.
  - reflexivity.
  - reflexivity.
  - apply mc_noprefix.
    + intros [E|[E|Hin]]; try discriminate. revert Hin. now apply hex_notin.
    + unfold noprefix. rewrite (split_at_none 58); [reflexivity|].
      intros [E|[E|Hin]]; try discriminate. revert Hin. now apply hex_notin.
    + now apply core_hex.
Qed.

(* "<net>:0x<hex pairs>" *)
Lemma decode_net_hex n h : digits n = true -> hex_pairs h = true ->
  exists b, unhex h = Ok b /\
  decode_str (n ++ 58 :: 48 :: 120 :: h) =
    if (65535 <=? Z.of_N (dec_val n))%Z then Err ValueErr
    else Ok (mkAddr ARemoteStation (Some (Z.of_N (dec_val n))) (Some b) None None).
Proof.
  intros Hn H. destruct (hex_pairs_forall h H) as [Hf Hne].
  assert (He : N.even (lenN h) = true).
  { unfold hex_pairs in H. destruct h; [discriminate|]. now apply andb_true_iff in H as [H _]. }
  destruct (unhex_total h Hf He) as [b Hb]. exists b. split; [exact Hb|].
  assert (Hnl : nonl (48 :: 120 :: h) = true).
  { cbn [nonl forallb N.eqb Pos.eqb negb andb]. now apply hex_nonl. }
  destruct (net_text_facts n _ Hn Hnl) as (F1 & F2 & F3).
  rewrite (decode_of_match _ (PNet n) (CField (48 :: 120 :: h)) F1 F2 F3).
  - unfold decode_matched, net_check. destruct (65535 <=? Z.of_N (dec_val n))%Z; cbn [bind]; [reflexivity|].
    rewrite (field_mac_hex h H), Hb. reflexivity.
  - apply mc_net; [exact Hn| |now apply core_hex].
    intros [E|[E|Hin]]; try discriminate. revert Hin. now apply hex_notin.
Qed.

(* ------------------------------------------------------------------ dotted quads *)
Definition quad (a b c d : str) : str := a ++ 46 :: b ++ 46 :: c ++ 46 :: d.
Definition opt_sfx (sep : N) (o : option str) : str := match o with Some s => sep :: s | None => [] end.
Definition ip_text (h : str) (m p : option str) : str := h ++ opt_sfx 47 m ++ opt_sfx 58 p.

(* characters of an IP text: digits . / : *)
Definition ipch (c : N) : bool := is_digit c || (c =? 46) || (c =? 47) || (c =? 58).

Lemma digits_ipch s : digits s = true -> forallb ipch s = true.
Proof. intro H. apply digits_forall in H. revert H. apply forallb_imp. intros x Hx. unfold ipch. rewrite Hx. reflexivity. Qed.

Lemma quad_ipch a b c d : digits a = true -> digits b = true -> digits c = true -> digits d = true ->
  forallb ipch (quad a b c d) = true.
Proof.
  intros Ha Hb Hc Hd. unfold quad.
  rewrite forallb_app, (digits_ipch a Ha). cbn [forallb andb]. change (ipch 46) with true. cbn [andb].
  rewrite forallb_app, (digits_ipch b Hb). cbn [forallb andb]. change (ipch 46) with true. cbn [andb].
  rewrite forallb_app, (digits_ipch c Hc). cbn [forallb andb]. change (ipch 46) with true. cbn [andb].
  now apply digits_ipch.
Qed.

Lemma opt_sfx_ipch sep o : ipch sep = true -> opt_digits o = true -> forallb ipch (opt_sfx sep o) = true.
Proof.
  intros Hs Ho. destruct o as [s|]; [|reflexivity]. cbn [opt_sfx forallb]. rewrite Hs. cbn [andb].
  now apply digits_ipch.
Qed.

(* the part of an IP text before its ':' contains digits . / only *)
Definition ipch2 (c : N) : bool := is_digit c || (c =? 46) || (c =? 47).
Lemma digits_ipch2 s : digits s = true -> forallb ipch2 s = true.
Proof. intro H. apply digits_forall in H. revert H. apply forallb_imp. intros x Hx. unfold ipch2. rewrite Hx. reflexivity. Qed.
Definition ipch1 (c : N) : bool := is_digit c || (c =? 46).
Lemma digits_ipch1 s : digits s = true -> forallb ipch1 s = true.
Proof. intro H. apply digits_forall in H. revert H. apply forallb_imp. intros x Hx. unfold ipch1. rewrite Hx. reflexivity. Qed.
Lemma quad_ipch1 a b c d : digits a = true -> digits b = true -> digits c = true -> digits d = true ->
  forallb ipch1 (quad a b c d) = true.
Proof.
  intros Ha Hb Hc Hd. unfold quad.
  rewrite forallb_app, (digits_ipch1 a Ha). cbn [forallb andb]. change (ipch1 46) with true. cbn [andb].
  rewrite forallb_app, (digits_ipch1 b Hb). cbn [forallb andb]. change (ipch1 46) with true. cbn [andb].
  rewrite forallb_app, (digits_ipch1 c Hc). cbn [forallb andb]. change (ipch1 46) with true. cbn [andb].
  now apply digits_ipch1.
Qed.
Lemma ipch1_2 s : forallb ipch1 s = true -> forallb ipch2 s = true.
Proof. apply forallb_imp. intros x Hx. unfold ipch2. unfold ipch1 in Hx. rewrite Hx. reflexivity. Qed.

Lemma dotted_quad a b c d : digits a = true -> digits b = true -> digits c = true -> digits d = true ->
  dotted (quad a b c d) = Some (a, b, c, d).
Proof.
  intros Ha Hb Hc Hd. unfold dotted, quad.
  rewrite (split_at_app 46 a) by (apply notin_digits; [exact Ha|reflexivity]).
  rewrite (split_at_app 46 b) by (apply notin_digits; [exact Hb|reflexivity]).
  rewrite (split_at_app 46 c) by (apply notin_digits; [exact Hc|reflexivity]).
  rewrite Ha, Hb, Hc, Hd. reflexivity.
Qed.

Lemma quad_not_digits a b c d : digits (quad a b c d) = false.
Proof.
  unfold quad, digits. destruct (a ++ 46 :: b ++ 46 :: c ++ 46 :: d) eqn:E.
  - destruct a; discriminate.
  - rewrite <- E, forallb_app. cbn [forallb]. change (is_digit 46) with false. cbn [andb]. apply andb_false_r.
Qed.

Lemma app_not_digits h t : digits h = false -> h <> [] -> digits (h ++ t) = false.
Proof.
  intros H Hne. destruct h as [|x r]; [congruence|].
  change (digits ((x :: r) ++ t)) with (forallb is_digit ((x :: r) ++ t)).
  change (digits (x :: r)) with (forallb is_digit (x :: r)) in H. rewrite forallb_app, H. reflexivity.
Qed.

Lemma ip_mask_port_text a b c d m p :
  digits a = true -> digits b = true -> digits c = true -> digits d = true ->
  opt_digits m = true -> opt_digits p = true ->
  ip_mask_port (ip_text (quad a b c d) m p) = Some (quad a b c d, m, p).
Proof.
  intros Ha Hb Hc Hd Hm Hp.
  pose proof (quad_ipch1 a b c d Ha Hb Hc Hd) as Q1.
  assert (Q47 : ~ In 47 (quad a b c d)) by (apply (forallb_notin ipch1); [exact Q1|reflexivity]).
  assert (HM : forallb ipch2 (quad a b c d ++ opt_sfx 47 m) = true).
  { rewrite forallb_app, (ipch1_2 _ Q1). destruct m as [s|]; [|reflexivity].
    cbn [opt_sfx forallb andb]. change (ipch2 47) with true. cbn [andb]. now apply digits_ipch2. }
  assert (H58 : ~ In 58 (quad a b c d ++ opt_sfx 47 m)) by (apply (forallb_notin ipch2); [exact HM|reflexivity]).
  assert (D : is_dotted (quad a b c d) = true) by (unfold is_dotted; now rewrite dotted_quad).
  unfold ip_mask_port, ip_text.
  destruct p as [ps|]; cbn [opt_sfx].
  - rewrite app_assoc, (split_at_app 58 _ ps H58).
    destruct m as [ms|]; cbn [opt_sfx].
    + rewrite (split_at_app 47 _ ms Q47), D. cbn [opt_digits] in *. rewrite Hm, Hp. reflexivity.
    + rewrite app_nil_r, (split_at_none 47 _ Q47), D. cbn [opt_digits] in *. rewrite Hp. reflexivity.
  - rewrite app_nil_r, (split_at_none 58 _ H58).
    destruct m as [ms|]; cbn [opt_sfx].
    + rewrite (split_at_app 47 _ ms Q47), D. cbn [opt_digits] in *. rewrite Hm. reflexivity.
    + rewrite app_nil_r, (split_at_none 47 _ Q47), D. reflexivity.
Qed.

Lemma starts_0x_cls (f : N -> bool) s : forallb f s = true -> f 120 = false -> starts_0x s = false.
Proof.
  intros H Hf. unfold starts_0x. destruct s as [|a [|b r]]; try reflexivity.
  cbn [forallb] in H. apply andb_true_iff in H as [_ H]. apply andb_true_iff in H as [Hb _].
  destruct (b =? 120) eqn:E; [|apply andb_false_r]. apply N.eqb_eq in E. congruence.
Qed.

Lemma ip_text_ipch a b c d m p :
  digits a = true -> digits b = true -> digits c = true -> digits d = true ->
  opt_digits m = true -> opt_digits p = true -> forallb ipch (ip_text (quad a b c d) m p) = true.
Proof.
  intros Ha Hb Hc Hd Hm Hp. unfold ip_text.
  rewrite !forallb_app, (quad_ipch a b c d Ha Hb Hc Hd), (opt_sfx_ipch 47 m eq_refl Hm), (opt_sfx_ipch 58 p eq_refl Hp).
  reflexivity.
Qed.

Lemma quad_head a b c d : digits a = true -> exists x r, quad a b c d = x :: r /\ 48 <= x <= 57.
Proof.
  intro Ha. destruct (digit_head a Ha) as (x & r & -> & Hx). exists x. eexists. split; [reflexivity|exact Hx].
Qed.

Lemma core_ip a b c d m p :
  digits a = true -> digits b = true -> digits c = true -> digits d = true ->
  opt_digits m = true -> opt_digits p = true ->
  match_core (ip_text (quad a b c d) m p) = Some (CIp (quad a b c d) m p).
Proof.
  intros Ha Hb Hc Hd Hm Hp. unfold match_core.
  pose proof (ip_text_ipch a b c d m p Ha Hb Hc Hd Hm Hp) as HI.
  destruct (quad_head a b c d Ha) as (x & r & E & Hx).
  assert (S1 : str_eqb (ip_text (quad a b c d) m p) [42] = false).
  { unfold ip_text. rewrite E. cbn [app]. now apply digit_first_not_star. }
  rewrite S1. unfold is_field.
  rewrite (starts_0x_cls ipch _ HI eq_refl). cbn [andb]. rewrite orb_false_r.
  replace (digits (ip_text (quad a b c d) m p)) with false.
  - rewrite (ip_mask_port_text a b c d m p Ha Hb Hc Hd Hm Hp). reflexivity.
  - symmetry. unfold ip_text. apply app_not_digits; [apply quad_not_digits|]. rewrite E. discriminate.
Qed.

Lemma ip_text_noprefix a b c d m p :
  digits a = true -> digits b = true -> digits c = true -> digits d = true ->
  opt_digits m = true -> opt_digits p = true ->
  noprefix (ip_text (quad a b c d) m p) = true.
Proof.
  intros Ha Hb Hc Hd Hm Hp.
  pose proof (quad_ipch1 a b c d Ha Hb Hc Hd) as Q1.
  assert (HM : forallb ipch2 (quad a b c d ++ opt_sfx 47 m) = true).
  { rewrite forallb_app, (ipch1_2 _ Q1). destruct m as [s|]; [|reflexivity].
    cbn [opt_sfx forallb andb]. change (ipch2 47) with true. cbn [andb]. now apply digits_ipch2. }
  assert (H58 : ~ In 58 (quad a b c d ++ opt_sfx 47 m)) by (apply (forallb_notin ipch2); [exact HM|reflexivity]).
  destruct (quad_head a b c d Ha) as (x & r & E & Hx).
  unfold noprefix, ip_text. destruct p as [ps|]; cbn [opt_sfx].
  - rewrite app_assoc, (split_at_app 58 _ ps H58).
    rewrite app_not_digits; [|apply quad_not_digits|rewrite E; discriminate].
    rewrite E. cbn [app]. destruct (digit_first_not_star x (r ++ opt_sfx 47 m) Hx) as [-> _]. reflexivity.
  - rewrite app_nil_r, (split_at_none 58 _ H58). reflexivity.
Qed.

Lemma ipch_nonl s : forallb ipch s = true -> nonl s = true.
Proof. apply forallb_imp. intros x. unfold ipch, is_digit. lia. Qed.

(* "a.b.c.d[/len][:port]" *)
Lemma decode_ip a b c d m p :
  digits a = true -> digits b = true -> digits c = true -> digits d = true ->
  opt_digits m = true -> opt_digits p = true ->
  decode_str (ip_text (quad a b c d) m p) =
    do x <- ip_from_text (quad a b c d) m p;
    Ok (mkAddr ALocalStation None (Some (fst x)) None (Some (snd x))).
Proof.
  intros Ha Hb Hc Hd Hm Hp.
  pose proof (ip_text_ipch a b c d m p Ha Hb Hc Hd Hm Hp) as HI.
  destruct (quad_head a b c d Ha) as (x & r & E & Hx).
  rewrite (decode_of_match _ PNone (CIp (quad a b c d) m p)).
  - unfold decode_matched. cbn [bind]. destruct (ip_from_text (quad a b c d) m p); reflexivity.
  - now apply ipch_nonl.
  - unfold ip_text. rewrite E. cbn [app]. now apply digit_first_not_star.
  - unfold ip_text. rewrite E. cbn [app]. now apply digit_first_not_star.
  - apply mc_noprefix.
    + apply (forallb_notin ipch); [exact HI|reflexivity].
    + now apply ip_text_noprefix.
    + now apply core_ip.
Qed.

(* "<net>:a.b.c.d[/len][:port]" *)
Lemma decode_net_ip n a b c d m p : digits n = true ->
  digits a = true -> digits b = true -> digits c = true -> digits d = true ->
  opt_digits m = true -> opt_digits p = true ->
  decode_str (n ++ 58 :: ip_text (quad a b c d) m p) =
    if (65535 <=? Z.of_N (dec_val n))%Z then Err ValueErr
    else do x <- ip_from_text (quad a b c d) m p;
         Ok (mkAddr ARemoteStation (Some (Z.of_N (dec_val n))) (Some (fst x)) None (Some (snd x))).
Proof.
  intros Hn Ha Hb Hc Hd Hm Hp.
  pose proof (ip_text_ipch a b c d m p Ha Hb Hc Hd Hm Hp) as HI.
  destruct (net_text_facts n _ Hn (ipch_nonl _ HI)) as (F1 & F2 & F3).
  rewrite (decode_of_match _ (PNet n) (CIp (quad a b c d) m p) F1 F2 F3).
  - unfold decode_matched, net_check. destruct (65535 <=? Z.of_N (dec_val n))%Z; cbn [bind]; [reflexivity|].
    destruct (ip_from_text (quad a b c d) m p); reflexivity.
  - apply mc_net; [exact Hn| |now apply core_ip].
    apply (forallb_notin ipch); [exact HI|reflexivity].
Qed.

(* ------------------------------------------------------------------ the IP values *)
Lemma inet_aton_quad a b c d a' b' c' d' :
  digits a = true -> digits b = true -> digits c = true -> digits d = true ->
  aton_part a = Some a' -> aton_part b = Some b' -> aton_part c = Some c' -> aton_part d = Some d' ->
  inet_aton (quad a b c d) = Ok [a'; b'; c'; d'].
Proof.
  intros Ha Hb Hc Hd A B C D. unfold inet_aton. rewrite (dotted_quad a b c d Ha Hb Hc Hd), A, B, C, D. reflexivity.
Qed.

(* what pdu.py computes for address ipv, mask length len, port, host text h *)
Definition ip_denoted (ipv len port : N) (h : str) : ipinfo :=
  let ipz := Z.of_N ipv in
  let mask := Z.land (Z.shiftl M32 (32 - Z.of_N len)) M32 in
  mkIp ipz mask (Some (Z.land ipz (Z.lnot mask))) (Some (Z.land ipz mask)) (Z.of_N port) h
       (inet_ntoa (be4 (Z.to_N (Z.land (Z.lor (Z.land ipz mask) (Z.lnot mask)) M32)))).

Lemma land_port port : port <= 65535 -> Z.to_N (Z.land (Z.of_N port) 65535) = port.
Proof.
  intro H. change 65535%Z with (Z.ones 16). rewrite Z.land_ones by lia.
  rewrite Z.mod_small; [apply N2Z.id|]. change (2 ^ 16)%Z with 65536%Z. lia.
Qed.

Lemma ip_from_text_ok a b c d m p a' b' c' d' :
  digits a = true -> digits b = true -> digits c = true -> digits d = true ->
  aton_part a = Some a' -> aton_part b = Some b' -> aton_part c = Some c' -> aton_part d = Some d' ->
  dec_val (odefault s47808 p) <= 65535 -> dec_val (odefault s32 m) <= 32 ->
  ip_from_text (quad a b c d) m p =
    Ok ([a'; b'; c'; d'] ++ be2 (dec_val (odefault s47808 p)),
        ip_denoted (be_val [a'; b'; c'; d']) (dec_val (odefault s32 m)) (dec_val (odefault s47808 p)) (quad a b c d)).
Proof.
  intros Ha Hb Hc Hd A B C D Hp Hm. unfold ip_from_text.
  destruct (65535 <? Z.of_N (dec_val (odefault s47808 p)))%Z eqn:E1; [lia|].
  rewrite (inet_aton_quad a b c d a' b' c' d' Ha Hb Hc Hd A B C D). cbn [bind].
  destruct (32 <? Z.of_N (dec_val (odefault s32 m)))%Z eqn:E2; [lia|].
  rewrite (land_port _ Hp). reflexivity.
Qed.

Lemma ip_from_text_port_refused h m p : 65535 < dec_val (odefault s47808 p) -> ip_from_text h m p = Err ValueErr.
Proof. intro H. unfold ip_from_text. destruct (65535 <? Z.of_N (dec_val (odefault s47808 p)))%Z eqn:E; [reflexivity|lia]. Qed.

Lemma ip_from_text_mask_refused h m p : 32 < dec_val (odefault s32 m) -> exists e, ip_from_text h m p = Err e.
Proof.
  intro H. unfold ip_from_text. destruct (65535 <? _)%Z; [eexists; reflexivity|].
  destruct (inet_aton h); cbn [bind]; [|eexists; reflexivity].
  destruct (32 <? Z.of_N (dec_val (odefault s32 m)))%Z eqn:E; [eexists; reflexivity|lia].
Qed.

(* canonical decimal octets are read back by inet_aton: swept over 0..255 *)
Lemma aton_dec_sweep :
  forallb (fun k => match aton_part (dec_str (N.of_nat k)) with Some v => v =? N.of_nat k | None => false end)
          (seq 0 256) = true.
Proof. vm_compute. reflexivity. Qed.

Lemma aton_dec a : a < 256 -> aton_part (dec_str a) = Some a.
Proof.
  intro H. pose proof aton_dec_sweep as S. rewrite forallb_forall in S.
  specialize (S (N.to_nat a)). rewrite N2Nat.id in S.
  destruct (aton_part (dec_str a)) as [v|].
  - f_equal. apply N.eqb_eq. apply S. apply in_seq. lia.
  - discriminate S. apply in_seq. lia.
Qed.

(* ------------------------------------------------------------------ print, then parse *)
(* the three shapes str() gives to a station's octets *)
Inductive mac_text (l : list N) : str -> Prop :=
| MT_dec b : l = [b] -> b < 256 -> mac_text l (dec_str b)
| MT_hex : l <> [] -> bytes_ok l = true -> mac_text l (48 :: 120 :: btox l)
| MT_ip a b c d port p : l = [a; b; c; d] ++ be2 port -> a < 256 -> b < 256 -> c < 256 -> d < 256 ->
    port <= 65535 -> opt_digits p = true -> dec_val (odefault s47808 p) = port ->
    mac_text l (ip_text (quad (dec_str a) (dec_str b) (dec_str c) (dec_str d)) None p).

Lemma be_val2 p1 p2 : be_val [p1; p2] = p1 * 256 + p2.
Proof. unfold be_val. cbn [fold_left]. lia. Qed.

Lemma print_mac_shape l : l <> [] -> bytes_ok l = true -> exists s, print_mac (Some l) = Ok s /\ mac_text l s.
Proof.
  intros Hne Hok. destruct l as [|x [|y r]]; [congruence| |].
  - exists (dec_str x). split; [reflexivity|]. apply MT_dec; [reflexivity|].
    cbn [bytes_ok forallb] in Hok. unfold byte_ok in Hok. lia.
  - cbn [print_mac].
    replace (lenN (x :: y :: r) <? 2) with false by (unfold lenN; cbn [length]; lia).
    set (port := be_val (skipn (length (x :: y :: r) - 2) (x :: y :: r))).
    destruct ((lenN (x :: y :: r) =? 6) && (47808 <=? port) && (port <=? 47823)) eqn:E.
    + apply andb_true_iff in E as [E E3]. apply andb_true_iff in E as [E1 E2].
      unfold lenN in E1. cbn [length] in E1.
      destruct r as [|c [|d [|p1 [|p2 [|z r']]]]]; cbn [length] in E1; try lia.
      subst port. cbn [length Nat.sub skipn] in *. rewrite be_val2 in *.
      cbn [bytes_ok forallb] in Hok. unfold byte_ok in Hok.
      eexists. split; [reflexivity|].
      set (port := p1 * 256 + p2) in *.
      change (firstn 4 [x; y; c; d; p1; p2]) with [x; y; c; d].
      change (inet_ntoa [x; y; c; d]) with (quad (dec_str x) (dec_str y) (dec_str c) (dec_str d)).
      assert (Hl : [x; y; c; d; p1; p2] = [x; y; c; d] ++ be2 port).
      { unfold be2, port. cbn [app]. repeat f_equal; lia. }
      destruct (port =? 47808) eqn:EP.
      * change (quad (dec_str x) (dec_str y) (dec_str c) (dec_str d) ++ [])
          with (ip_text (quad (dec_str x) (dec_str y) (dec_str c) (dec_str d)) None None).
        apply (MT_ip _ x y c d port None Hl); try lia; [reflexivity|].
        cbn [odefault]. change (dec_val s47808) with 47808. lia.
      * change (quad (dec_str x) (dec_str y) (dec_str c) (dec_str d) ++ 58 :: dec_str port)
          with (ip_text (quad (dec_str x) (dec_str y) (dec_str c) (dec_str d)) None (Some (dec_str port))).
        apply (MT_ip _ x y c d port (Some (dec_str port)) Hl); try lia.
        -- cbn [opt_digits]. apply dec_str_digits.
        -- cbn [odefault]. apply dec_str_val.
    + eexists. split; [reflexivity|]. apply MT_hex; [discriminate|exact Hok].
Qed.

Lemma mac_text_ip_from l a b c d port p :
  l = [a; b; c; d] ++ be2 port -> a < 256 -> b < 256 -> c < 256 -> d < 256 -> port <= 65535 ->
  dec_val (odefault s47808 p) = port ->
  exists i, ip_from_text (quad (dec_str a) (dec_str b) (dec_str c) (dec_str d)) None p = Ok (l, i).
Proof.
  intros Hl Ha Hb Hc Hd Hp Hv. eexists.
  rewrite (ip_from_text_ok _ _ _ _ None p a b c d); try apply dec_str_digits; try now apply aton_dec.
  - rewrite Hv, Hl. reflexivity.
  - lia.
  - cbn [odefault]. change (dec_val s32) with 32. lia.
Qed.

Lemma mac_text_local l s : mac_text l s ->
  exists x, decode_str s = Ok x /\ ty x = ALocalStation /\ net x = None /\ mac x = Some l /\ route x = None.
Proof.
  intros [b Hl Hb | Hne Hok | a b c d port p Hl Ha Hb Hc Hd Hp Hop Hv].
  - rewrite (decode_station _ (dec_str_digits b)), dec_str_val.
    destruct (256 <=? b) eqn:E; [lia|]. subst l. eexists. repeat split.
  - destruct (decode_hex (btox l) (hex_pairs_btox l Hne Hok)) as (b0 & U & D).
    rewrite (unhex_btox l Hok) in U. injection U as <-. rewrite D. eexists. repeat split.
  - destruct (mac_text_ip_from l a b c d port p Hl Ha Hb Hc Hd Hp Hv) as [i Hi].
    rewrite decode_ip; try apply dec_str_digits; [|reflexivity|exact Hop].
    rewrite Hi. cbn [bind fst snd]. eexists. repeat split.
Qed.

Lemma mac_text_remote l s n : mac_text l s -> digits n = true -> dec_val n < 65535 ->
  exists x, decode_str (n ++ 58 :: s) = Ok x /\ ty x = ARemoteStation /\
            net x = Some (Z.of_N (dec_val n)) /\ mac x = Some l /\ route x = None.
Proof.
  intros [b Hl Hb | Hne Hok | a b c d port p Hl Ha Hb Hc Hd Hp Hop Hv] Hn Hnv.
  - rewrite (decode_net_station n _ Hn (dec_str_digits b)), dec_str_val.
    destruct (65535 <=? Z.of_N (dec_val n))%Z eqn:E0; [lia|].
    destruct (256 <=? b) eqn:E; [lia|]. subst l. eexists. repeat split.
  - destruct (decode_net_hex n (btox l) Hn (hex_pairs_btox l Hne Hok)) as (b0 & U & D).
    rewrite (unhex_btox l Hok) in U. injection U as <-. rewrite D.
    destruct (65535 <=? Z.of_N (dec_val n))%Z eqn:E0; [lia|]. eexists. repeat split.
  - destruct (mac_text_ip_from l a b c d port p Hl Ha Hb Hc Hd Hp Hv) as [i Hi].
    rewrite decode_net_ip; try apply dec_str_digits; [|exact Hn|reflexivity|exact Hop].
    destruct (65535 <=? Z.of_N (dec_val n))%Z eqn:E0; [lia|].
    rewrite Hi. cbn [bind fst snd]. eexists. repeat split.
Qed.

(* addresses that denote something: route-free, not Null, stations carry 1+ octets < 256,
   remote ones a network in 0..65534 *)
Definition wf_net (o : option Z) : Prop := exists n, o = Some n /\ (0 <= n < 65535)%Z.
Definition wf_mac (o : option (list N)) : Prop := exists l, o = Some l /\ l <> [] /\ bytes_ok l = true.
Definition wf_addr (a : addr) : Prop :=
  route a = None /\
  match ty a with
  | ANull => False
  | ALocalBroadcast | AGlobalBroadcast => net a = None /\ mac a = None
  | ARemoteBroadcast => wf_net (net a) /\ mac a = None
  | ALocalStation => net a = None /\ wf_mac (mac a)
  | ARemoteStation => wf_net (net a) /\ wf_mac (mac a)
  end.

Lemma print_parse_key a : wf_addr a ->
  exists s a', print a = Ok s /\ decode_str s = Ok a' /\ key a' = key a /\ route a' = None.
Proof.
  destruct a as [t n m r i]. unfold wf_addr, key. cbn [ty net mac route]. intros [-> H].
  destruct t; cbn [ty] in H.
  - contradiction.
  - destruct H as [-> ->]. exists [42]. eexists. repeat split.
  - destruct H as [-> (l & -> & Hne & Hok)].
    destruct (print_mac_shape l Hne Hok) as (s & Hs & Ht).
    destruct (mac_text_local l s Ht) as (x & D & X1 & X2 & X3 & X4).
    exists s, x. unfold print. cbn [ty mac route net]. rewrite Hs. cbn [bind]. repeat split; try assumption.
    rewrite X1, X2, X3. reflexivity.
  - destruct H as [(z & -> & Hz) ->].
    exists (dec_str (Z.to_N z) ++ [58; 42]). eexists.
    unfold print. cbn [ty mac route net print_net bind].
    replace (dec_strZ z) with (dec_str (Z.to_N z)) by (unfold dec_strZ; destruct z; try reflexivity; lia).
    split; [reflexivity|]. rewrite (decode_net_bcast _ (dec_str_digits _)), dec_str_val.
    destruct (65535 <=? Z.of_N (Z.to_N z))%Z eqn:E; [lia|]. repeat split. cbn [ty net mac]. rewrite Z2N.id by lia. reflexivity.
  - destruct H as [(z & -> & Hz) (l & -> & Hne & Hok)].
    destruct (print_mac_shape l Hne Hok) as (s & Hs & Ht).
    destruct (mac_text_remote l s (dec_str (Z.to_N z)) Ht (dec_str_digits _)) as (x & D & X1 & X2 & X3 & X4).
    { rewrite dec_str_val. lia. }
    exists (dec_str (Z.to_N z) ++ 58 :: s), x. unfold print. cbn [ty mac route net print_net bind].
    replace (dec_strZ z) with (dec_str (Z.to_N z)) by (unfold dec_strZ; destruct z; try reflexivity; lia).
    rewrite Hs. cbn [bind]. repeat split; try assumption.
    rewrite X1, X2, X3, dec_str_val, Z2N.id by lia. reflexivity.
  - destruct H as [-> ->]. exists [42; 58; 42]. eexists. repeat split.
Qed.

Lemma print_parse a : wf_addr a ->
  exists s a', print a = Ok s /\ decode_str s = Ok a' /\ eqb a a' = true.
Proof.
  intro H. destruct (print_parse_key a H) as (s & a' & P & D & K & R).
  exists s, a'. repeat split; try assumption. apply eqb_key; [now right|]. congruence.
Qed.
