(* AddrParse.v — what decode_str yields on each notation; print/parse round trip. *)
From Bac Require Import Base Addr AddrFacts.
From Coq Require Import ZifyBool ZifyN ZifyNat.
Ltac Zify.zify_post_hook ::= Z.to_euclidean_division_equations.
Open Scope N_scope.

(* ------------------------------------------------------------------ the combined pattern *)
Definition noprefix (cs : str) : bool :=
  match split_at 58 cs with
  | Some (a, _) => negb (digits a) && negb (str_eqb a [42])
  | None => true
  end.

Lemma mc_noprefix cs c : ~ In 64 cs -> noprefix cs = true -> match_core cs = Some c ->
  match_combined cs = Some (PNone, c, RNone).
Proof.
  intros H64 Hnp Hc. unfold match_combined. rewrite (split_at_none 64 cs H64).
  unfold noprefix in Hnp. destruct (split_at 58 cs) as [[a rest]|].
  - apply andb_true_iff in Hnp as [H1 H2]. apply negb_true_iff in H1, H2. rewrite H1, H2, Hc. reflexivity.
  - rewrite Hc. reflexivity.
Qed.

Lemma mc_net n cs c : digits n = true -> ~ In 64 cs -> match_core cs = Some c ->
  match_combined (n ++ 58 :: cs) = Some (PNet n, c, RNone).
Proof.
  intros Hn H64 Hc. unfold match_combined.
  rewrite (split_at_none 64).
  2:{ intro Hin. apply in_app_or in Hin as [Hin|[Hin|Hin]]; [|discriminate|auto].
      revert Hin. apply digits_notin; [exact Hn|reflexivity]. }
  rewrite (split_at_app 58 n cs).
  2:{ apply digits_notin; [exact Hn|reflexivity]. }
  rewrite Hn, Hc. reflexivity.
Qed.

Lemma digit_head s : digits s = true -> exists c r, s = c :: r /\ 48 <= c <= 57.
Proof.
  destruct s as [|c r]; [discriminate|]. intro H. exists c, r. split; [reflexivity|].
  cbn [digits forallb] in H. apply andb_true_iff in H as [H _]. now apply is_digit_spec.
Qed.

Lemma core_digits s : digits s = true -> match_core s = Some (CField s).
Proof.
  intro H. unfold match_core, is_field. rewrite H.
  destruct (digit_head s H) as (c & r & -> & Hc).
  replace (str_eqb (c :: r) [42]) with false; [reflexivity|].
  unfold str_eqb. cbn [list_eqb]. destruct (c =? 42) eqn:E; [lia|reflexivity].
Qed.

Lemma core_hex h : hex_pairs h = true -> match_core (48 :: 120 :: h) = Some (CField (48 :: 120 :: h)).
Proof.
  intro H. unfold match_core, is_field. cbn [str_eqb list_eqb N.eqb Pos.eqb andb starts_0x skipn].
  change (str_eqb (48 :: 120 :: h) [42]) with false. cbn [digits forallb].
  replace (is_digit 48 && (is_digit 120 && forallb is_digit h)) with false by reflexivity.
  rewrite H. reflexivity.
Qed.

(* generic result of decode_str once the combined pattern has matched without route *)
Definition decode_matched (p : pfx) (c : core) : res addr :=
  do tn <- match p, c with
           | PStar, CBcast => Ok (AGlobalBroadcast, None)
           | PNet n, CBcast => do v <- net_check n; Ok (ARemoteBroadcast, Some v)
           | PNone, CBcast => Ok (ALocalBroadcast, None)
           | PNet n, _ => do v <- net_check n; Ok (ARemoteStation, Some v)
           | PStar, _ => Err ValueErr
           | PNone, _ => Ok (ALocalStation, None)
           end;
  do mi <- match c with
           | CBcast => Ok (None, None)
           | CField f => do m <- field_mac f; Ok (Some m, None)
           | CIp h m p => do x <- ip_from_text h m p; Ok (Some (fst x), Some (snd x))
           end;
  Ok (mkAddr (fst tn) (snd tn) (fst mi) None (snd mi)).

Lemma decode_of_match s p c : nonl s = true -> str_eqb s [42] = false -> str_eqb s [42; 58; 42] = false ->
  match_combined s = Some (p, c, RNone) -> decode_str s = decode_matched p c.
Proof.
  intros Hnl H1 H2 Hm. unfold decode_str, decode_matched. rewrite H1, H2, (strip_nl_nonl s Hnl), Hm.
  destruct (match p with PNone => _ | _ => _ end) as [tn|e]; cbn [bind]; [|reflexivity].
  destruct (match c with CBcast => _ | _ => _ end) as [mi|e]; cbn [bind route_of]; reflexivity.
Qed.

Lemma digit_first_not_star c r : 48 <= c <= 57 ->
  str_eqb (c :: r) [42] = false /\ str_eqb (c :: r) [42; 58; 42] = false.
Proof.
  intro H. unfold str_eqb. cbn [list_eqb]. destruct (c =? 42) eqn:E; [lia|]. split; reflexivity.
Qed.

(* ------------------------------------------------------------------ station numbers, networks *)
Lemma starts_0x_digits s : digits s = true -> starts_0x s = false.
Proof.
  intro H. apply digits_forall in H. unfold starts_0x.
  destruct s as [|a [|b r]]; try reflexivity.
  cbn [forallb] in H. apply andb_true_iff in H as [_ H]. apply andb_true_iff in H as [Hb _].
  apply is_digit_spec in Hb. destruct (b =? 120) eqn:E; [lia|]. apply andb_false_r.
Qed.

Lemma field_mac_digits s : digits s = true ->
  field_mac s = if 256 <=? dec_val s then Err ValueErr else Ok [dec_val s].
Proof. intro H. unfold field_mac. rewrite (starts_0x_digits s H). reflexivity. Qed.

Lemma digits_nonl' s : digits s = true -> nonl s = true.
Proof. intro H. apply digits_nonl. now apply digits_forall. Qed.

Lemma notin_digits c s : digits s = true -> is_digit c = false -> ~ In c s.
Proof. intros. now apply (digits_notin s c). Qed.

(* "<station>" *)
Lemma decode_station s : digits s = true ->
  decode_str s = if 256 <=? dec_val s then Err ValueErr else Ok (station [dec_val s]).
Proof.
  intro H. destruct (digit_head s H) as (c & r & E & Hc).
  destruct (digit_first_not_star c r Hc) as [S1 S2]. rewrite <- E in S1, S2.
  rewrite (decode_of_match s PNone (CField s)); [|now apply digits_nonl'|exact S1|exact S2|].
  - unfold decode_matched. cbn [bind]. rewrite (field_mac_digits s H).
    destruct (256 <=? dec_val s); reflexivity.
  - apply mc_noprefix.
    + apply notin_digits; [exact H|reflexivity].
    + unfold noprefix. rewrite (split_at_none 58 s); [reflexivity|]. apply notin_digits; [exact H|reflexivity].
    + now apply core_digits.
Qed.

Lemma net_text_facts n cs : digits n = true -> nonl cs = true ->
  nonl (n ++ 58 :: cs) = true /\ str_eqb (n ++ 58 :: cs) [42] = false /\ str_eqb (n ++ 58 :: cs) [42; 58; 42] = false.
Proof.
  intros Hn Hcs. split.
  - rewrite nonl_app, (digits_nonl' n Hn). change (nonl (58 :: cs)) with (negb (58 =? 10) && nonl cs).
    rewrite Hcs. reflexivity.
  - destruct (digit_head n Hn) as (c & r & -> & Hc). cbn [app]. now apply digit_first_not_star.
Qed.

(* "<net>:<station>" *)
Lemma decode_net_station n s : digits n = true -> digits s = true ->
  decode_str (n ++ 58 :: s) =
    if (65535 <=? Z.of_N (dec_val n))%Z then Err ValueErr
    else if 256 <=? dec_val s then Err ValueErr
    else Ok (mkAddr ARemoteStation (Some (Z.of_N (dec_val n))) (Some [dec_val s]) None None).
Proof.
  intros Hn Hs. destruct (net_text_facts n s Hn (digits_nonl' s Hs)) as (F1 & F2 & F3).
  rewrite (decode_of_match _ (PNet n) (CField s) F1 F2 F3).
  - unfold decode_matched, net_check. destruct (65535 <=? Z.of_N (dec_val n))%Z; cbn [bind]; [reflexivity|].
    rewrite (field_mac_digits s Hs). destruct (256 <=? dec_val s); reflexivity.
  - apply mc_net; [exact Hn| |now apply core_digits]. apply notin_digits; [exact Hs|reflexivity].
Qed.

(* "<net>:*" *)
Lemma decode_net_bcast n : digits n = true ->
  decode_str (n ++ [58; 42]) =
    if (65535 <=? Z.of_N (dec_val n))%Z then Err ValueErr
    else Ok (mkAddr ARemoteBroadcast (Some (Z.of_N (dec_val n))) None None None).
Proof.
  intros Hn. destruct (net_text_facts n [42] Hn eq_refl) as (F1 & F2 & F3).
  rewrite (decode_of_match _ (PNet n) CBcast F1 F2 F3).
  - unfold decode_matched, net_check. destruct (65535 <=? Z.of_N (dec_val n))%Z; reflexivity.
  - apply mc_net; [exact Hn| |reflexivity]. intros [H|[]]. discriminate.
Qed.

(* ------------------------------------------------------------------ octet strings *)
Lemma hex_pairs_forall h : hex_pairs h = true -> forallb is_hex h = true /\ h <> [].
Proof.
  unfold hex_pairs. destruct h as [|a r]; [discriminate|]. intro H. apply andb_true_iff in H as [_ H].
  split; [exact H|discriminate].
Qed.

Lemma hex_notin c h : forallb is_hex h = true -> is_hex c = false -> ~ In c h.
Proof. apply forallb_notin. Qed.

Lemma unhex_total h : forallb is_hex h = true -> N.even (lenN h) = true -> exists b, unhex h = Ok b.
Proof.
  intros _. remember (length h) as k eqn:Hk. revert h Hk.
  induction k as [k IH] using lt_wf_ind. intros h Hk He.
  destruct h as [|a [|b r]].
  - exists []. reflexivity.
  - discriminate.
  - destruct (IH (length r)) with (h := r) as [t Ht]; [cbn [length] in Hk; lia|reflexivity| |].
    + unfold lenN in *. cbn [length] in He. rewrite !Nat2N.inj_succ in He.
      rewrite N.even_succ, <- N.negb_even, N.even_succ, <- N.negb_even, negb_involutive in He. exact He.
    + exists (hexval a * 16 + hexval b :: t). cbn [unhex]. rewrite Ht. reflexivity.
Qed.

Lemma field_mac_hex h : hex_pairs h = true -> field_mac (48 :: 120 :: h) = unhex h.
Proof.
  intro H. unfold field_mac. cbn [starts_0x N.eqb Pos.eqb andb skipn]. unfold xtob.
  destruct (hex_pairs_forall h H) as [Hf _]. rewrite (filter_all _ _ Hf). reflexivity.
Qed.

(* "0x<hex pairs>" : the octets are what the pairs spell *)
Lemma decode_hex h : hex_pairs h = true ->
  exists b, unhex h = Ok b /\ decode_str (48 :: 120 :: h) = Ok (station b).
Proof.
  intro H. destruct (hex_pairs_forall h H) as [Hf Hne].
  assert (He : N.even (lenN h) = true).
  { unfold hex_pairs in H. destruct h; [discriminate|]. now apply andb_true_iff in H as [H _]. }
  destruct (unhex_total h Hf He) as [b Hb]. exists b. split; [exact Hb|].
  rewrite (decode_of_match _ PNone (CField (48 :: 120 :: h))).
  - unfold decode_matched. cbn [bind]. rewrite (field_mac_hex h H), Hb. reflexivity.
  - cbn [nonl forallb N.eqb Pos.eqb negb andb]. now apply hex_nonl.
  - reflexivity.
  - reflexivity.
  - apply mc_noprefix.
    + intros [E|[E|Hin]]; try discriminate. revert Hin. now apply hex_notin.
    + unfold noprefix. rewrite (split_at_none 58); [reflexivity|].
      intros [E|[E|Hin]]; try discriminate. revert Hin. now apply hex_notin.
    + now apply core_hex.
Qed.

(* "<net>:0x<hex pairs>" *)
Lemma decode_net_hex n h : digits n = true -> hex_pairs h = true ->
  exists b, unhex h = Ok b /\
  decode_str (n ++ 58 :: 48 :: 120 :: h) =
    if (65535 <=? Z.of_N (dec_val n))%Z then Err ValueErr
    else Ok (mkAddr ARemoteStation (Some (Z.of_N (dec_val n))) (Some b) None None).
Proof.
  intros Hn H. destruct (hex_pairs_forall h H) as [Hf Hne].
  assert (He : N.even (lenN h) = true).
  { unfold hex_pairs in H. destruct h; [discriminate|]. now apply andb_true_iff in H as [H _]. }
  destruct (unhex_total h Hf He) as [b Hb]. exists b. split; [exact Hb|].
  assert (Hnl : nonl (48 :: 120 :: h) = true).
  { cbn [nonl forallb N.eqb Pos.eqb negb andb]. now apply hex_nonl. }
  destruct (net_text_facts n _ Hn Hnl) as (F1 & F2 & F3).
  rewrite (decode_of_match _ (PNet n) (CField (48 :: 120 :: h)) F1 F2 F3).
  - unfold decode_matched, net_check. destruct (65535 <=? Z.of_N (dec_val n))%Z; cbn [bind]; [reflexivity|].
    rewrite (field_mac_hex h H), Hb. reflexivity.
  - apply mc_net; [exact Hn| |now apply core_hex].
    intros [E|[E|Hin]]; try discriminate. revert Hin. now apply hex_notin.
Qed.
