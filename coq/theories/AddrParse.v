(* AddrParse.v — what decode_str yields on each notation; print/parse round trip. *)
From Bac Require Import Base Addr AddrFacts.
From Coq Require Import ZifyBool ZifyN ZifyNat.
Ltac Zify.zify_post_hook ::= Z.to_euclidean_division_equations.
Open Scope N_scope.

(* ------------------------------------------------------------------ the combined pattern *)
Definition noprefix (cs : str) : bool :=
  match split_at 58 cs with
  | Some (a, _) => negb (digits a) && negb (str_eqb a [42])
  | None => true
  end.

Lemma mc_noprefix cs c : ~ In 64 cs -> noprefix cs = true -> match_core cs = Some c ->
  match_combined cs = Some (PNone, c, RNone).
Proof.
  intros H64 Hnp Hc. unfold match_combined. rewrite (split_at_none 64 cs H64).
  unfold noprefix in Hnp. destruct (split_at 58 cs) as [[a rest]|].
  - apply andb_true_iff in Hnp as [H1 H2]. apply negb_true_iff in H1, H2. rewrite H1, H2, Hc. reflexivity.
  - rewrite Hc. reflexivity.
Qed.

Lemma mc_net n cs c : digits n = true -> ~ In 64 cs -> match_core cs = Some c ->
  match_combined (n ++ 58 :: cs) = Some (PNet n, c, RNone).
Proof.
  intros Hn H64 Hc. unfold match_combined.
  rewrite (split_at_none 64).
  2:{ intro Hin. apply in_app_or in Hin as [Hin|[Hin|Hin]]; [|discriminate|auto].
      revert Hin. apply digits_notin; [exact Hn|reflexivity]. }
  rewrite (split_at_app 58 n cs).
  2:{ apply digits_notin; [exact Hn|reflexivity]. }
  rewrite Hn, Hc. reflexivity.
Qed.

Lemma digit_head s : digits s = true -> exists c r, s = c :: r /\ 48 <= c <= 57.
Proof.
  destruct s as [|c r]; [discriminate|]. intro H. exists c, r. split; [reflexivity|].
  cbn [digits forallb] in H. apply andb_true_iff in H as [H _]. now apply is_digit_spec.
Qed.

Lemma core_digits s : digits s = true -> match_core s = Some (CField s).
Proof.
  intro H. unfold match_core, is_field. rewrite H.
  destruct (digit_head s H) as (c & r & -> & Hc).
  replace (str_eqb (c :: r) [42]) with false; [reflexivity|].
  unfold str_eqb. cbn [list_eqb]. destruct (c =? 42) eqn:E; [lia|reflexivity].
Qed.

Lemma core_hex h : hex_pairs h = true -> match_core (48 :: 120 :: h) = Some (CField (48 :: 120 :: h)).
Proof.
  intro H. unfold match_core, is_field. cbn [str_eqb list_eqb N.eqb Pos.eqb andb starts_0x skipn].
  change (str_eqb (48 :: 120 :: h) [42]) with false. cbn [digits forallb].
  replace (is_digit 48 && (is_digit 120 && forallb is_digit h)) with false by reflexivity.
  rewrite H. reflexivity.
Qed.

(* generic result of decode_str once the combined pattern has matched without route *)
Definition decode_matched (p : pfx) (c : core) : res addr :=
  do tn <- match p, c with
           | PStar, CBcast => Ok (AGlobalBroadcast, None)
           | PNet n, CBcast => do v <- net_check n; Ok (ARemoteBroadcast, Some v)
           | PNone, CBcast => Ok (ALocalBroadcast, None)
           | PNet n, _ => do v <- net_check n; Ok (ARemoteStation, Some v)
           | PStar, _ => Err ValueErr
           | PNone, _ => Ok (ALocalStation, None)
           end;
  do mi <- match c with
           | CBcast => Ok (None, None)
           | CField f => do m <- field_mac f; Ok (Some m, None)
           | CIp h m p => do x <- ip_from_text h m p; Ok (Some (fst x), Some (snd x))
           end;
  Ok (mkAddr (fst tn) (snd tn) (fst mi) None (snd mi)).

Lemma decode_of_match s p c : nonl s = true -> str_eqb s [42] = false -> str_eqb s [42; 58; 42] = false ->
  match_combined s = Some (p, c, RNone) -> decode_str s = decode_matched p c.
Proof.
  intros Hnl H1 H2 Hm. unfold decode_str, decode_matched. rewrite H1, H2, (strip_nl_nonl s Hnl), Hm.
  destruct (match p with PNone => _ | _ => _ end) as [tn|e]; cbn [bind]; [|reflexivity].
  destruct (match c with CBcast => _ | _ => _ end) as [mi|e]; cbn [bind route_of]; reflexivity.
Qed.

Lemma digit_first_not_star c r : 48 <= c <= 57 ->
  str_eqb (c :: r) [42] = false /\ str_eqb (c :: r) [42; 58; 42] = false.
Proof.
  intro H. unfold str_eqb. cbn [list_eqb]. destruct (c =? 42) eqn:E; [lia|]. split; reflexivity.
Qed.

(* ------------------------------------------------------------------ station numbers, networks *)
Lemma starts_0x_digits s : digits s = true -> starts_0x s = false.
Proof.
  intro H. apply digits_forall in H. unfold starts_0x.
  destruct s as [|a [|b r]]; try reflexivity.
  cbn [forallb] in H. apply andb_true_iff in H as [_ H]. apply andb_true_iff in H as [Hb _].
  apply is_digit_spec in Hb. destruct (b =? 120) eqn:E; [lia|]. apply andb_false_r.
Qed.

Lemma field_mac_digits s : digits s = true ->
  field_mac s = if 256 <=? dec_val s then Err ValueErr else Ok [dec_val s].
Proof. intro H. unfold field_mac. rewrite (starts_0x_digits s H). reflexivity. Qed.

Lemma digits_nonl' s : digits s = true -> nonl s = true.
Proof. intro H. apply digits_nonl. now apply digits_forall. Qed.

Lemma notin_digits c s : digits s = true -> is_digit c = false -> ~ In c s.
Proof. intros. now apply (digits_notin s c). Qed.

(* "<station>" *)
Lemma decode_station s : digits s = true ->
  decode_str s = if 256 <=? dec_val s then Err ValueErr else Ok (station [dec_val s]).
Proof.
  intro H. destruct (digit_head s H) as (c & r & E & Hc).
  destruct (digit_first_not_star c r Hc) as [S1 S2]. rewrite <- E in S1, S2.
  rewrite (decode_of_match s PNone (CField s)); [|now apply digits_nonl'|exact S1|exact S2|].
  - unfold decode_matched. cbn [bind]. rewrite (field_mac_digits s H).
    destruct (256 <=? dec_val s); reflexivity.
  - apply mc_noprefix.
    + apply notin_digits; [exact H|reflexivity].
    + unfold noprefix. rewrite (split_at_none 58 s); [reflexivity|]. apply notin_digits; [exact H|reflexivity].
    + now apply core_digits.
Qed.

Lemma net_text_facts n cs : digits n = true -> nonl cs = true ->
  nonl (n ++ 58 :: cs) = true /\ str_eqb (n ++ 58 :: cs) [42] = false /\ str_eqb (n ++ 58 :: cs) [42; 58; 42] = false.
Proof.
  intros Hn Hcs. split.
  - rewrite nonl_app, (digits_nonl' n Hn). change (nonl (58 :: cs)) with (negb (58 =? 10) && nonl cs).
    rewrite Hcs. reflexivity.
  - destruct (digit_head n Hn) as (c & r & -> & Hc). cbn [app]. now apply digit_first_not_star.
Qed.

(* "<net>:<station>" *)
Lemma decode_net_station n s : digits n = true -> digits s = true ->
  decode_str (n ++ 58 :: s) =
    if (65535 <=? Z.of_N (dec_val n))%Z then Err ValueErr
    else if 256 <=? dec_val s then Err ValueErr
    else Ok (mkAddr ARemoteStation (Some (Z.of_N (dec_val n))) (Some [dec_val s]) None None).
Proof.
  intros Hn Hs. destruct (net_text_facts n s Hn (digits_nonl' s Hs)) as (F1 & F2 & F3).
  rewrite (decode_of_match _ (PNet n) (CField s) F1 F2 F3).
  - unfold decode_matched, net_check. destruct (65535 <=? Z.of_N (dec_val n))%Z; cbn [bind]; [reflexivity|].
    rewrite (field_mac_digits s Hs). destruct (256 <=? dec_val s); reflexivity.
  - apply mc_net; [exact Hn| |now apply core_digits]. apply notin_digits; [exact Hs|reflexivity].
Qed.

(* "<net>:*" *)
Lemma decode_net_bcast n : digits n = true ->
  decode_str (n ++ [58; 42]) =
    if (65535 <=? Z.of_N (dec_val n))%Z then Err ValueErr
    else Ok (mkAddr ARemoteBroadcast (Some (Z.of_N (dec_val n))) None None None).
Proof.
  intros Hn. destruct (net_text_facts n [42] Hn eq_refl) as (F1 & F2 & F3).
  rewrite (decode_of_match _ (PNet n) CBcast F1 F2 F3).
  - unfold decode_matched, net_check. destruct (65535 <=? Z.of_N (dec_val n))%Z; reflexivity.
  - apply mc_net; [exact Hn| |reflexivity]. intros [H|[]]. discriminate.
Qed.

(* ------------------------------------------------------------------ octet strings *)
Lemma hex_pairs_forall h : hex_pairs h = true -> forallb is_hex h = true /\ h <> [].
Proof.
  unfold hex_pairs. destruct h as [|a r]; [discriminate|]. intro H. apply andb_true_iff in H as [_ H].
  split; [exact H|discriminate].
Qed.

Lemma hex_notin c h : forallb is_hex h = true -> is_hex c = false -> ~ In c h.
Proof. apply forallb_notin. Qed.

Lemma unhex_total h : forallb is_hex h = true -> N.even (lenN h) = true -> exists b, unhex h = Ok b.
Proof.
  intros _. remember (length h) as k eqn:Hk. revert h Hk.
  induction k as [k IH] using lt_wf_ind. intros h Hk He.
  destruct h as [|a [|b r]].
  - exists []. reflexivity.
  - discriminate.
  - destruct (IH (length r)) with (h := r) as [t Ht]; [cbn [length] in Hk; lia|reflexivity| |].
    + unfold lenN in *. cbn [length] in He. rewrite !Nat2N.inj_succ in He.
      rewrite N.even_succ, <- N.negb_even, N.even_succ, <- N.negb_even, negb_involutive in He. exact He.
    + exists (hexval a * 16 + hexval b :: t). cbn [unhex]. rewrite Ht. reflexivity.
Qed.

Lemma field_mac_hex h : hex_pairs h = true -> field_mac (48 :: 120 :: h) = unhex h.
Proof.
  intro H. unfold field_mac. cbn [starts_0x N.eqb Pos.eqb andb skipn]. unfold xtob.
  destruct (hex_pairs_forall h H) as [Hf _]. rewrite (filter_all _ _ Hf). reflexivity.
Qed.

(* "0x<hex pairs>" : the octets are what the pairs spell *)
Lemma decode_hex h : hex_pairs h = true ->
  exists b, unhex h = Ok b /\ decode_str (48 :: 120 :: h) = Ok (station b).
Proof.
  intro H. destruct (hex_pairs_forall h H) as [Hf Hne].
  assert (He : N.even (lenN h) = true).
  { unfold hex_pairs in H. destruct h; [discriminate|]. now apply andb_true_iff in H as [H _]. }
  destruct (unhex_total h Hf He) as [b Hb]. exists b. split; [exact Hb|].
  rewrite (decode_of_match _ PNone (CField (48 :: 120 :: h))).
  - unfold decode_matched. cbn [bind]. rewrite (field_mac_hex h H), Hb. reflexivity.
  - cbn [nonl forallb N.eqb Pos.eqb negb andb]. now apply hex_nonl.
  - reflexivity.
  - reflexivity.
  - apply mc_noprefix.
    + intros [E|[E|Hin]]; try discriminate. revert Hin. now apply hex_notin.
    + unfold noprefix. rewrite (split_at_none 58); [reflexivity|].
      intros [E|[E|Hin]]; try discriminate. revert Hin. now apply hex_notin.
    + now apply core_hex.
Qed.

(* "<net>:0x<hex pairs>" *)
Lemma decode_net_hex n h : digits n = true -> hex_pairs h = true ->
  exists b, unhex h = Ok b /\
  decode_str (n ++ 58 :: 48 :: 120 :: h) =
    if (65535 <=? Z.of_N (dec_val n))%Z then Err ValueErr
    else Ok (mkAddr ARemoteStation (Some (Z.of_N (dec_val n))) (Some b) None None).
Proof.
  intros Hn H. destruct (hex_pairs_forall h H) as [Hf Hne].
  assert (He : N.even (lenN h) = true).
  { unfold hex_pairs in H. destruct h; [discriminate|]. now apply andb_true_iff in H as [H _]. }
  destruct (unhex_total h Hf He) as [b Hb]. exists b. split; [exact Hb|].
  assert (Hnl : nonl (48 :: 120 :: h) = true).
  { cbn [nonl forallb N.eqb Pos.eqb negb andb]. now apply hex_nonl. }
  destruct (net_text_facts n _ Hn Hnl) as (F1 & F2 & F3).
  rewrite (decode_of_match _ (PNet n) (CField (48 :: 120 :: h)) F1 F2 F3).
  - unfold decode_matched, net_check. destruct (65535 <=? Z.of_N (dec_val n))%Z; cbn [bind]; [reflexivity|].
    rewrite (field_mac_hex h H), Hb. reflexivity.
  - apply mc_net; [exact Hn| |now apply core_hex].
    intros [E|[E|Hin]]; try discriminate. revert Hin. now apply hex_notin.
Qed.

(* ------------------------------------------------------------------ dotted quads *)
Definition quad (a b c d : str) : str := a ++ 46 :: b ++ 46 :: c ++ 46 :: d.
Definition opt_sfx (sep : N) (o : option str) : str := match o with Some s => sep :: s | None => [] end.
Definition ip_text (h : str) (m p : option str) : str := h ++ opt_sfx 47 m ++ opt_sfx 58 p.

(* characters of an IP text: digits . / : *)
Definition ipch (c : N) : bool := is_digit c || (c =? 46) || (c =? 47) || (c =? 58).

Lemma digits_ipch s : digits s = true -> forallb ipch s = true.
Proof. intro H. apply digits_forall in H. revert H. apply forallb_imp. intros x Hx. unfold ipch. rewrite Hx. reflexivity. Qed.

Lemma quad_ipch a b c d : digits a = true -> digits b = true -> digits c = true -> digits d = true ->
  forallb ipch (quad a b c d) = true.
Proof.
  intros Ha Hb Hc Hd. unfold quad.
  rewrite forallb_app, (digits_ipch a Ha). cbn [forallb andb]. change (ipch 46) with true. cbn [andb].
  rewrite forallb_app, (digits_ipch b Hb). cbn [forallb andb]. change (ipch 46) with true. cbn [andb].
  rewrite forallb_app, (digits_ipch c Hc). cbn [forallb andb]. change (ipch 46) with true. cbn [andb].
  now apply digits_ipch.
Qed.

Lemma opt_sfx_ipch sep o : ipch sep = true -> opt_digits o = true -> forallb ipch (opt_sfx sep o) = true.
Proof.
  intros Hs Ho. destruct o as [s|]; [|reflexivity]. cbn [opt_sfx forallb]. rewrite Hs. cbn [andb].
  now apply digits_ipch.
Qed.

(* the part of an IP text before its ':' contains digits . / only *)
Definition ipch2 (c : N) : bool := is_digit c || (c =? 46) || (c =? 47).
Lemma digits_ipch2 s : digits s = true -> forallb ipch2 s = true.
Proof. intro H. apply digits_forall in H. revert H. apply forallb_imp. intros x Hx. unfold ipch2. rewrite Hx. reflexivity. Qed.
Definition ipch1 (c : N) : bool := is_digit c || (c =? 46).
Lemma digits_ipch1 s : digits s = true -> forallb ipch1 s = true.
Proof. intro H. apply digits_forall in H. revert H. apply forallb_imp. intros x Hx. unfold ipch1. rewrite Hx. reflexivity. Qed.
Lemma quad_ipch1 a b c d : digits a = true -> digits b = true -> digits c = true -> digits d = true ->
  forallb ipch1 (quad a b c d) = true.
Proof.
  intros Ha Hb Hc Hd. unfold quad.
  rewrite forallb_app, (digits_ipch1 a Ha). cbn [forallb andb]. change (ipch1 46) with true. cbn [andb].
  rewrite forallb_app, (digits_ipch1 b Hb). cbn [forallb andb]. change (ipch1 46) with true. cbn [andb].
  rewrite forallb_app, (digits_ipch1 c Hc). cbn [forallb andb]. change (ipch1 46) with true. cbn [andb].
  now apply digits_ipch1.
Qed.
Lemma ipch1_2 s : forallb ipch1 s = true -> forallb ipch2 s = true.
Proof. apply forallb_imp. intros x Hx. unfold ipch2. unfold ipch1 in Hx. rewrite Hx. reflexivity. Qed.

Lemma dotted_quad a b c d : digits a = true -> digits b = true -> digits c = true -> digits d = true ->
  dotted (quad a b c d) = Some (a, b, c, d).
Proof.
  intros Ha Hb Hc Hd. unfold dotted, quad.
  rewrite (split_at_app 46 a) by (apply notin_digits; [exact Ha|reflexivity]).
  rewrite (split_at_app 46 b) by (apply notin_digits; [exact Hb|reflexivity]).
  rewrite (split_at_app 46 c) by (apply notin_digits; [exact Hc|reflexivity]).
  rewrite Ha, Hb, Hc, Hd. reflexivity.
Qed.

Lemma quad_not_digits a b c d : digits (quad a b c d) = false.
Proof.
  unfold quad, digits. destruct (a ++ 46 :: b ++ 46 :: c ++ 46 :: d) eqn:E.
  - destruct a; discriminate.
  - rewrite <- E, forallb_app. cbn [forallb]. change (is_digit 46) with false. cbn [andb]. apply andb_false_r.
Qed.

Lemma app_not_digits h t : digits h = false -> h <> [] -> digits (h ++ t) = false.
Proof.
  intros H Hne. destruct h as [|x r]; [congruence|].
  change (digits ((x :: r) ++ t)) with (forallb is_digit ((x :: r) ++ t)).
  change (digits (x :: r)) with (forallb is_digit (x :: r)) in H. rewrite forallb_app, H. reflexivity.
Qed.

Lemma ip_mask_port_text a b c d m p :
  digits a = true -> digits b = true -> digits c = true -> digits d = true ->
  opt_digits m = true -> opt_digits p = true ->
  ip_mask_port (ip_text (quad a b c d) m p) = Some (quad a b c d, m, p).
Proof.
  intros Ha Hb Hc Hd Hm Hp.
  pose proof (quad_ipch1 a b c d Ha Hb Hc Hd) as Q1.
  assert (Q47 : ~ In 47 (quad a b c d)) by (apply (forallb_notin ipch1); [exact Q1|reflexivity]).
  assert (HM : forallb ipch2 (quad a b c d ++ opt_sfx 47 m) = true).
  { rewrite forallb_app, (ipch1_2 _ Q1). destruct m as [s|]; [|reflexivity].
    cbn [opt_sfx forallb andb]. change (ipch2 47) with true. cbn [andb]. now apply digits_ipch2. }
  assert (H58 : ~ In 58 (quad a b c d ++ opt_sfx 47 m)) by (apply (forallb_notin ipch2); [exact HM|reflexivity]).
  assert (D : is_dotted (quad a b c d) = true) by (unfold is_dotted; now rewrite dotted_quad).
  unfold ip_mask_port, ip_text.
  destruct p as [ps|]; cbn [opt_sfx].
  - rewrite app_assoc, (split_at_app 58 _ ps H58).
    destruct m as [ms|]; cbn [opt_sfx].
    + rewrite (split_at_app 47 _ ms Q47), D. cbn [opt_digits] in *. rewrite Hm, Hp. reflexivity.
    + rewrite app_nil_r, (split_at_none 47 _ Q47), D. cbn [opt_digits] in *. rewrite Hp. reflexivity.
  - rewrite app_nil_r, (split_at_none 58 _ H58).
    destruct m as [ms|]; cbn [opt_sfx].
    + rewrite (split_at_app 47 _ ms Q47), D. cbn [opt_digits] in *. rewrite Hm. reflexivity.
    + rewrite app_nil_r, (split_at_none 47 _ Q47), D. reflexivity.
Qed.

Lemma starts_0x_cls (f : N -> bool) s : forallb f s = true -> f 120 = false -> starts_0x s = false.
Proof.
  intros H Hf. unfold starts_0x. destruct s as [|a [|b r]]; try reflexivity.
  cbn [forallb] in H. apply andb_true_iff in H as [_ H]. apply andb_true_iff in H as [Hb _].
  destruct (b =? 120) eqn:E; [|apply andb_false_r]. apply N.eqb_eq in E. congruence.
Qed.

Lemma ip_text_ipch a b c d m p :
  digits a = true -> digits b = true -> digits c = true -> digits d = true ->
  opt_digits m = true -> opt_digits p = true -> forallb ipch (ip_text (quad a b c d) m p) = true.
Proof.
  intros Ha Hb Hc Hd Hm Hp. unfold ip_text.
  rewrite !forallb_app, (quad_ipch a b c d Ha Hb Hc Hd), (opt_sfx_ipch 47 m eq_refl Hm), (opt_sfx_ipch 58 p eq_refl Hp).
  reflexivity.
Qed.

Lemma quad_head a b c d : digits a = true -> exists x r, quad a b c d = x :: r /\ 48 <= x <= 57.
Proof.
  intro Ha. destruct (digit_head a Ha) as (x & r & -> & Hx). exists x. eexists. split; [reflexivity|exact Hx].
Qed.

Lemma core_ip a b c d m p :
  digits a = true -> digits b = true -> digits c = true -> digits d = true ->
  opt_digits m = true -> opt_digits p = true ->
  match_core (ip_text (quad a b c d) m p) = Some (CIp (quad a b c d) m p).
Proof.
  intros Ha Hb Hc Hd Hm Hp. unfold match_core.
  pose proof (ip_text_ipch a b c d m p Ha Hb Hc Hd Hm Hp) as HI.
  destruct (quad_head a b c d Ha) as (x & r & E & Hx).
  assert (S1 : str_eqb (ip_text (quad a b c d) m p) [42] = false).
  { unfold ip_text. rewrite E. cbn [app]. now apply digit_first_not_star. }
  rewrite S1. unfold is_field.
  rewrite (starts_0x_cls ipch _ HI eq_refl). cbn [andb]. rewrite orb_false_r.
  replace (digits (ip_text (quad a b c d) m p)) with false.
  - rewrite (ip_mask_port_text a b c d m p Ha Hb Hc Hd Hm Hp). reflexivity.
  - symmetry. unfold ip_text. apply app_not_digits; [apply quad_not_digits|]. rewrite E. discriminate.
Qed.

Lemma ip_text_noprefix a b c d m p :
  digits a = true -> digits b = true -> digits c = true -> digits d = true ->
  opt_digits m = true -> opt_digits p = true ->
  noprefix (ip_text (quad a b c d) m p) = true.
Proof.
  intros Ha Hb Hc Hd Hm Hp.
  pose proof (quad_ipch1 a b c d Ha Hb Hc Hd) as Q1.
  assert (HM : forallb ipch2 (quad a b c d ++ opt_sfx 47 m) = true).
  { rewrite forallb_app, (ipch1_2 _ Q1). destruct m as [s|]; [|reflexivity].
    cbn [opt_sfx forallb andb]. change (ipch2 47) with true. cbn [andb]. now apply digits_ipch2. }
  assert (H58 : ~ In 58 (quad a b c d ++ opt_sfx 47 m)) by (apply (forallb_notin ipch2); [exact HM|reflexivity]).
  destruct (quad_head a b c d Ha) as (x & r & E & Hx).
  unfold noprefix, ip_text. destruct p as [ps|]; cbn [opt_sfx].
  - rewrite app_assoc, (split_at_app 58 _ ps H58).
    rewrite app_not_digits; [|apply quad_not_digits|rewrite E; discriminate].
    rewrite E. cbn [app]. destruct (digit_first_not_star x (r ++ opt_sfx 47 m) Hx) as [-> _]. reflexivity.
  - rewrite app_nil_r, (split_at_none 58 _ H58). reflexivity.
Qed.

Lemma ipch_nonl s : forallb ipch s = true -> nonl s = true.
Proof. apply forallb_imp. intros x. unfold ipch, is_digit. lia. Qed.

(* "a.b.c.d[/len][:port]" *)
Lemma decode_ip a b c d m p :
  digits a = true -> digits b = true -> digits c = true -> digits d = true ->
  opt_digits m = true -> opt_digits p = true ->
  decode_str (ip_text (quad a b c d) m p) =
    do x <- ip_from_text (quad a b c d) m p;
    Ok (mkAddr ALocalStation None (Some (fst x)) None (Some (snd x))).
Proof.
  intros Ha Hb Hc Hd Hm Hp.
  pose proof (ip_text_ipch a b c d m p Ha Hb Hc Hd Hm Hp) as HI.
  destruct (quad_head a b c d Ha) as (x & r & E & Hx).
  rewrite (decode_of_match _ PNone (CIp (quad a b c d) m p)).
  - unfold decode_matched. cbn [bind]. destruct (ip_from_text (quad a b c d) m p); reflexivity.
  - now apply ipch_nonl.
  - unfold ip_text. rewrite E. cbn [app]. now apply digit_first_not_star.
  - unfold ip_text. rewrite E. cbn [app]. now apply digit_first_not_star.
  - apply mc_noprefix.
    + apply (forallb_notin ipch); [exact HI|reflexivity].
    + now apply ip_text_noprefix.
    + now apply core_ip.
Qed.

(* "<net>:a.b.c.d[/len][:port]" *)
Lemma decode_net_ip n a b c d m p : digits n = true ->
  digits a = true -> digits b = true -> digits c = true -> digits d = true ->
  opt_digits m = true -> opt_digits p = true ->
  decode_str (n ++ 58 :: ip_text (quad a b c d) m p) =
    if (65535 <=? Z.of_N (dec_val n))%Z then Err ValueErr
    else do x <- ip_from_text (quad a b c d) m p;
         Ok (mkAddr ARemoteStation (Some (Z.of_N (dec_val n))) (Some (fst x)) None (Some (snd x))).
Proof.
  intros Hn Ha Hb Hc Hd Hm Hp.
  pose proof (ip_text_ipch a b c d m p Ha Hb Hc Hd Hm Hp) as HI.
  destruct (net_text_facts n _ Hn (ipch_nonl _ HI)) as (F1 & F2 & F3).
  rewrite (decode_of_match _ (PNet n) (CIp (quad a b c d) m p) F1 F2 F3).
  - unfold decode_matched, net_check. destruct (65535 <=? Z.of_N (dec_val n))%Z; cbn [bind]; [reflexivity|].
    destruct (ip_from_text (quad a b c d) m p); reflexivity.
  - apply mc_net; [exact Hn| |now apply core_ip].
    apply (forallb_notin ipch); [exact HI|reflexivity].
Qed.
