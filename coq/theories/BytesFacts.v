(* BytesFacts.v — lemmas about big-endian fields and the PDUData readers. *)
From Bac Require Import Base.
From Coq Require Import ZifyBool ZifyN ZifyNat.
Ltac Zify.zify_post_hook ::= Z.to_euclidean_division_equations.
Open Scope N_scope.

Lemma get_short_be2 n r : n < 65536 -> get_short (be2 n ++ r) = Ok (n, r).
Proof. intros H. unfold be2, get_short; cbn [app]. f_equal. f_equal. lia. Qed.

Lemma get_long_be4 n r : n < 4294967296 -> get_long (be4 n ++ r) = Ok (n, r).
Proof. intros H. unfold be4, get_long; cbn [app]. f_equal. f_equal. lia. Qed.

Lemma be2_bytes n : bytes_ok (be2 n) = true.
Proof. unfold be2, bytes_ok, byte_ok; cbn [forallb]. lia. Qed.
Lemma be4_bytes n : bytes_ok (be4 n) = true.
Proof. unfold be4, bytes_ok, byte_ok; cbn [forallb]. lia. Qed.

Lemma lenN_app {A} (a b : list A) : lenN (a ++ b) = lenN a + lenN b.
Proof. unfold lenN. rewrite app_length. lia. Qed.

Lemma get_data_app d r : get_data (lenN d) (d ++ r) = Ok (d, r).
Proof.
  unfold get_data. rewrite lenN_app.
  destruct (lenN d + lenN r <? lenN d) eqn:E; [lia|].
  unfold lenN. rewrite Nat2N.id.
  rewrite firstn_app, Nat.sub_diag, firstn_all, skipn_app, Nat.sub_diag, skipn_all.
  cbn. rewrite app_nil_r. reflexivity.
Qed.

Lemma get_data_ok k bs d r :
  get_data k bs = Ok (d, r) -> bs = d ++ r /\ lenN d = k.
Proof.
  unfold get_data. destruct (lenN bs <? k) eqn:E; [discriminate|].
  intros H; injection H as <- <-. split.
  - symmetry; apply firstn_skipn.
  - unfold lenN in *. rewrite firstn_length. lia.
Qed.

Lemma bytes_ok_app a b : bytes_ok (a ++ b) = bytes_ok a && bytes_ok b.
Proof. unfold bytes_ok. apply forallb_app. Qed.

Lemma bytes_ok_firstn k l : bytes_ok l = true -> bytes_ok (firstn k l) = true.
Proof.
  revert k; induction l as [|x l IH]; intros [|k] H; cbn in *; try reflexivity.
  apply andb_true_iff in H as [H1 H2]. rewrite H1, IH; auto.
Qed.
Lemma bytes_ok_skipn k l : bytes_ok l = true -> bytes_ok (skipn k l) = true.
Proof.
  revert k; induction l as [|x l IH]; intros [|k] H; cbn in *; try reflexivity; auto.
  apply andb_true_iff in H as [H1 H2]. auto.
Qed.
