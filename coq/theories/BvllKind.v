(* BvllKind.v — names of the twelve BVLL message classes of py34/bacpypes/bvll.py.  The
   generated registry table (gen/BvllTable.v, from bvl_pdu_types) refers to these
   constructors by the Python class name, so a class the model does not know makes the
   generated file fail to compile (fail-closed). *)
From Bac Require Export Base.
Open Scope N_scope.

Inductive bvl_class : Set :=
| K_Result
| K_WriteBroadcastDistributionTable
| K_ReadBroadcastDistributionTable
| K_ReadBroadcastDistributionTableAck
| K_ForwardedNPDU
| K_RegisterForeignDevice
| K_ReadForeignDeviceTable
| K_ReadForeignDeviceTableAck
| K_DeleteForeignDeviceTableEntry
| K_DistributeBroadcastToNetwork
| K_OriginalUnicastNPDU
| K_OriginalBroadcastNPDU.

(* Annex J.2 function codes, as each class's constructor sets bvlciFunction *)
Definition fn_of_kind (k : bvl_class) : N :=
  match k with
  | K_Result => 0
  | K_WriteBroadcastDistributionTable => 1
  | K_ReadBroadcastDistributionTable => 2
  | K_ReadBroadcastDistributionTableAck => 3
  | K_ForwardedNPDU => 4
  | K_RegisterForeignDevice => 5
  | K_ReadForeignDeviceTable => 6
  | K_ReadForeignDeviceTableAck => 7
  | K_DeleteForeignDeviceTableEntry => 8
  | K_DistributeBroadcastToNetwork => 9
  | K_OriginalUnicastNPDU => 10
  | K_OriginalBroadcastNPDU => 11
  end.

Definition kind_eqb (a b : bvl_class) : bool := fn_of_kind a =? fn_of_kind b.

Definition all_kinds : list bvl_class :=
  [K_Result; K_WriteBroadcastDistributionTable; K_ReadBroadcastDistributionTable;
   K_ReadBroadcastDistributionTableAck; K_ForwardedNPDU; K_RegisterForeignDevice;
   K_ReadForeignDeviceTable; K_ReadForeignDeviceTableAck; K_DeleteForeignDeviceTableEntry;
   K_DistributeBroadcastToNetwork; K_OriginalUnicastNPDU; K_OriginalBroadcastNPDU].

Fixpoint lookup_fn (f : N) (t : list (N * bvl_class)) : option bvl_class :=
  match t with
  | [] => None
  | (c, k) :: r => if c =? f then Some k else lookup_fn f r
  end.

Fixpoint lookup_kind (k : bvl_class) (t : list (bvl_class * N)) : option N :=
  match t with
  | [] => None
  | (k', v) :: r => if kind_eqb k' k then Some v else lookup_kind k r
  end.
