(* NetNumFacts.v — lemmas about network-number learning (NetNum.v, property C06). *)
From Coq Require Import ZifyBool ZifyN ZifyNat.
From Bac Require Import Base Net NetFacts NetNum.
Ltac Zify.zify_post_hook ::= Z.to_euclidean_division_equations.
Open Scope N_scope.

(* ---- the adapters map keeps one key per adapter: whatever arrives, the node has the same ports afterwards *)
Lemma set_net_ports : forall n net c,
  length (adapters (set_net n net c)) = length (adapters n) /\
  map a_mac (adapters (set_net n net c)) = map a_mac (adapters n) /\
  has_app (set_net n net c) = has_app n /\ pending (set_net n net c) = pending n.
Proof.
  intros n net c. unfold set_net. destruct (adapters n) as [|a [|b r]] eqn:E; cbn; rewrite ?E; auto.
Qed.

Definition same_ports (a b : node) : Prop :=
  length (adapters b) = length (adapters a) /\ map a_mac (adapters b) = map a_mac (adapters a) /\ has_app b = has_app a.

Lemma same_ports_refl : forall n, same_ports n n.
Proof. intro n; repeat split. Qed.

Lemma same_ports_set_net : forall n net c, same_ports n (set_net n net c).
Proof. intros n net c. destruct (set_net_ports n net c) as (A & B & C & _). repeat split; assumption. Qed.

Lemma process_npdu_has_app : forall n i src dst p n' acts,
  process_npdu n i src dst p = (n', acts) -> has_app n' = has_app n.
Proof.
  intros n i src dst p n' acts H. unfold process_npdu in H.
  destruct (nth_adapter n i) as [ai|] eqn:Ea; [|inversion H; subst; reflexivity].
  destruct (negb (modelled_config n)); [inversion H; subst; reflexivity|].
  match type of H with (if ?s then _ else _) = _ => destruct s end; [inversion H; subst; reflexivity|].
  assert (Hn1 : has_app match n_sadr p with
                         | Some (snet, _) => set_cache n (cache_update (rcache n) (a_net ai) src [snet])
                         | None => n end = has_app n) by (destruct (n_sadr p) as [[? ?]|]; reflexivity).
  match type of H with context [match ?dec with Err _ => _ | Ok _ => _ end] => destruct dec as [[[pl fw]|]|e] end;
    [| inversion H; subst; exact Hn1 | inversion H; subst; exact Hn1].
  destruct (n_msg p) as [t|] eqn:Em.
  - destruct pl; [|inversion H; subst; exact Hn1].
    destruct (negb (known_msg t)); [inversion H; subst; exact Hn1|].
    destruct (t =? 0).
    + destruct (dec_who_is (n_data p)) as [w|e]; [|inversion H; subst; exact Hn1].
      match type of H with context [nse_who_is ?a ?b ?c ?dd ?e ?f] => destruct (nse_who_is a b c dd e f) as [n2 ac] eqn:Ew end.
      destruct (nse_who_is_spec _ _ _ _ _ _ _ _ Ew) as (Hn & _). inversion H; subst. exact Hn1.
    + destruct (t =? 1); [|inversion H; subst; exact Hn1].
      destruct (dec_i_am (n_data p)) as [nets|e]; [|inversion H; subst; exact Hn1].
      unfold nse_i_am in H.
      match type of H with context [release ?a ?b ?c ?d] => destruct (release a b c d) as [pend' ac] end.
      inversion H; subst. cbn. exact Hn1.
  - match type of H with (if ?c then _ else _) = _ => destruct c end.
    + destruct (negb (apdu_ok (n_data p))); inversion H; subst; exact Hn1.
    + inversion H; subst; exact Hn1.
Qed.

Lemma xprocess_ports : forall x i src dst p x' acts,
  xprocess x i src dst p = (x', acts) -> same_ports (x_node x) (x_node x').
Proof.
  intros x i src dst p x' acts H. unfold xprocess in H.
  assert (Hother : lift x (process_npdu (x_node x) i src dst p) = (x', acts) -> same_ports (x_node x) (x_node x')).
  { unfold lift. destruct (process_npdu (x_node x) i src dst p) as [n1 a1] eqn:E. cbn. intro H1. inversion H1; subst. cbn.
    pose proof (process_npdu_adapters _ _ _ _ _ _ _ E) as Ha. pose proof (process_npdu_has_app _ _ _ _ _ _ _ E) as Hb.
    unfold same_ports. rewrite Ha, Hb. repeat split. }
  destruct (n_msg p) as [t|]; [|exact (Hother H)].
  destruct ((t =? 18) || (t =? 19)); [|exact (Hother H)].
  destruct (nth_adapter (x_node x) i) as [ai|]; [|inversion H; subst; apply same_ports_refl].
  destruct (negb (modelled_config (x_node x))); [inversion H; subst; apply same_ports_refl|].
  destruct (n_dadr p); [inversion H; subst; apply same_ports_refl|].
  destruct (n_sadr p); [inversion H; subst; apply same_ports_refl|].
  destruct (t =? 18).
  - unfold nse_what_num in H. destruct (a_net ai); [|inversion H; subst; apply same_ports_refl].
    destruct dst; [|inversion H; subst; apply same_ports_refl].
    destruct (negb (is_router (x_node x)) && (x_task x =? 0)); inversion H; subst; apply same_ports_refl.
  - destruct (dec_num_is (n_data p)) as [[net flag]|e]; [|inversion H; subst; apply same_ports_refl].
    unfold nse_num_is in H. destruct dst; [|inversion H; subst; apply same_ports_refl].
    destruct (a_net ai) as [old|].
    + destruct (old =? net); [inversion H; subst; apply same_ports_refl|].
      destruct (conf_of x =? 1); inversion H; subst; cbn; [apply same_ports_refl | apply same_ports_set_net].
    + inversion H; subst; cbn. apply same_ports_set_net.
Qed.

Ltac sp := first [apply same_ports_refl | (unfold same_ports; repeat split; reflexivity)].

Lemma do_event_ports : forall n e n' acts, do_event n e = (n', acts) -> same_ports n n'.
Proof.
  intros n e n' acts H. destruct e as [i m dn | d data | i s d p | d r data]; cbn in H.
  - destruct (nth_adapter n i); inversion H; subst; sp.
  - unfold indication in H. destruct (nth_adapter n (local_idx n)) as [la|]; [|inversion H; subst; sp].
    destruct (negb (modelled_config n)); [inversion H; subst; sp|].
    assert (R : forall dnet dd mapped r,
      (if optN_eqb (Some dnet) (a_net la) then (n, [Tx (local_idx n) mapped (mkNpdu None None 255 None data)])
       else match pending_get (pending n) dnet with
            | Some _ => (set_pending n (pending_add (pending n) dnet (mkNpdu (Some dd) None 255 None data)), [])
            | None => match find_path n dnet with
                      | Some (j, m) => (n, [Tx j (LStation m) (mkNpdu (Some dd) None 255 None data)])
                      | None => (set_pending n (pending_add (pending n) dnet (mkNpdu (Some dd) None 255 None data)),
                                 map (fun j => Tx j LBcast (who_is dnet None)) (all_ports n))
                      end
            end) = r -> same_ports n (fst r)).
    { intros dnet dd mapped r Hr. destruct (optN_eqb (Some dnet) (a_net la)); [subst; sp|].
      destruct (pending_get (pending n) dnet); [subst; sp|].
      destruct (find_path n dnet) as [[j m]|]; subst; sp. }
    destruct d; try (inversion H; subst; sp); exact (R _ _ _ _ H).
  - pose proof (process_npdu_adapters _ _ _ _ _ _ _ H) as Ha. pose proof (process_npdu_has_app _ _ _ _ _ _ _ H) as Hb.
    unfold same_ports. rewrite Ha, Hb. repeat split.
  - unfold indication_routed in H. destruct (nth_adapter n (local_idx n)); [|inversion H; subst; sp].
    destruct d; inversion H; subst; sp.
Qed.

Lemma same_ports_trans : forall a b c, same_ports a b -> same_ports b c -> same_ports a c.
Proof. unfold same_ports; intros a b c (A1 & A2 & A3) (B1 & B2 & B3). repeat split; congruence. Qed.

Lemma do_xevent_ports : forall x e x' acts, do_xevent x e = (x', acts) -> same_ports (x_node x) (x_node x').
Proof.
  intros x e x' acts H. destruct e as [e| | |]; cbn in H.
  - destruct e as [i m dn | d data | i s d p | d r data];
      try (unfold lift in H;
           match type of H with context [do_event ?a ?b] => destruct (do_event a b) as [n1 a1] eqn:E end;
           cbn in H; inversion H; subst; cbn; exact (do_event_ports _ _ _ _ E)).
    exact (xprocess_ports _ _ _ _ _ _ _ H).
  - inversion H; subst; apply same_ports_refl.
  - inversion H; subst; apply same_ports_refl.
  - destruct (x_task x =? 1); [|inversion H; subst; apply same_ports_refl].
    destruct (adapters (x_node x)); inversion H; subst; apply same_ports_refl.
Qed.

(* any history of events, number announcements included, leaves the node with the ports it was bound with *)
Lemma run_xscript_ports : forall es x x' l, run_xscript x es = (x', l) -> same_ports (x_node x) (x_node x').
Proof.
  induction es as [|e r IH]; intros x x' l H; cbn in H.
  - inversion H; subst; apply same_ports_refl.
  - destruct (do_xevent x e) as [x1 a] eqn:E1. destruct (run_xscript x1 r) as [x2 l2] eqn:E2.
    inversion H; subst. eapply same_ports_trans; [exact (do_xevent_ports _ _ _ _ E1) | exact (IH _ _ _ E2)].
Qed.

(* ---- a global broadcast leaves every port exactly once *)
Lemma modelled_nonempty : forall n, modelled_config n = true -> adapters n <> [].
Proof. intros n H E. unfold modelled_config in H. rewrite E in H. discriminate. Qed.

Lemma global_broadcast_once_per_port : forall n data,
  modelled_config n = true ->
  indication n AGB data =
    (n, map (fun j => Tx j LBcast (mkNpdu (Some DGlobal) None 255 None data)) (seq 0 (length (adapters n)))).
Proof.
  intros n data Hm. unfold indication.
  pose proof (local_idx_lt n (modelled_nonempty n Hm)) as Hl.
  unfold nth_adapter. destruct (nth_error (adapters n) (local_idx n)) eqn:E.
  - rewrite Hm. reflexivity.
  - apply nth_error_None in E. lia.
Qed.

(* ---- learning the number *)
Lemma dec_num_is_enc : forall net flag, net < 65536 -> dec_num_is (n_data (num_is net flag)) = Ok (net, flag).
Proof.
  intros net flag H. unfold num_is, dec_num_is, put_short, be2; cbn.
  replace ((net mod 65536 / 256) mod 256 * 256 + net mod 65536 mod 256) with net by lia. reflexivity.
Qed.

Definition learnable (o : option N) (conf net : N) : Prop :=
  match o with None => True | Some old => old <> net /\ conf <> 1 end.

Definition keys_on (o : option N) (c : cache) : Prop := forall k mm, In (k, mm) c -> fst k = o.

Lemma optN_eqb_refl : forall o, optN_eqb o o = true.
Proof. destruct o; cbn; [apply N.eqb_refl | reflexivity]. Qed.

Lemma optN_eqb_eq : forall a b, optN_eqb a b = true -> a = b.
Proof. destruct a, b; cbn; intro H; try discriminate; [apply N.eqb_eq in H; subst|]; reflexivity. Qed.

Lemma rekey_get : forall c o new d, keys_on o c -> o <> new ->
  cache_get (map (fun e => if optN_eqb (fst (fst e)) o then ((new, snd (fst e)), snd e) else e)
                 (filter (fun e => negb (optN_eqb (fst (fst e)) new)) c)) new d = cache_get c o d.
Proof.
  induction c as [|[[s dd] mm] r IH]; intros o new d Hk Hne; [reflexivity|].
  assert (Hs : s = o) by (exact (Hk (s, dd) mm (or_introl eq_refl))). subst s.
  assert (Hr : keys_on o r) by (intros k m' Hin; exact (Hk k m' (or_intror Hin))).
  cbn [filter fst snd]. destruct (optN_eqb o new) eqn:En; [apply optN_eqb_eq in En; contradiction|].
  cbn [negb map fst snd]. rewrite optN_eqb_refl. cbn [cache_get]. unfold key_eqb; cbn [fst snd].
  rewrite !optN_eqb_refl. cbn [andb]. destruct (dd =? d); [reflexivity|]. exact (IH o new d Hr Hne).
Qed.

Lemma rekey_find : forall c o new d, keys_on o c -> o <> new ->
  cache_get (cache_rekey c o new) new d = cache_get c o d.
Proof.
  intros c o new d Hk Hne. unfold cache_rekey. destruct (has_snet c o) eqn:Eh; [exact (rekey_get c o new d Hk Hne)|].
  destruct c as [|[[s dd] mm] r]; [reflexivity|].
  exfalso. assert (Hs : s = o) by (exact (Hk (s, dd) mm (or_introl eq_refl))). subst s.
  cbn in Eh. rewrite optN_eqb_refl in Eh. discriminate.
Qed.

Lemma rekey_keys : forall c o new, keys_on o c -> keys_on new (cache_rekey c o new) \/ c = [].
Proof.
  intros c o new Hk. destruct c as [|e r]; [right; reflexivity|left].
  unfold cache_rekey. destruct (has_snet (e :: r) o) eqn:Eh.
  - intros k mm Hin. apply in_map_iff in Hin. destruct Hin as ([[s dd] m0] & Heq & Hin).
    apply filter_In in Hin. destruct Hin as [Hin _]. pose proof (Hk _ _ Hin) as Hs. cbn in Hs. subst s.
    cbn [fst snd] in Heq. rewrite optN_eqb_refl in Heq. inversion Heq; subst. reflexivity.
  - exfalso. destruct e as [[s dd] mm]. assert (Hs : s = o) by (exact (Hk (s, dd) mm (or_introl eq_refl))). subst s.
    cbn in Eh. rewrite optN_eqb_refl in Eh. discriminate.
Qed.

(* a node with ONE adapter (a station: told nothing, its address, or a number it has only learned) hears a
   Network-Number-Is broadcast: nothing is transmitted; afterwards it is exactly the station bound with that
   number and the same address, same application, same parked packets, its cache re-filed; the global broadcast it
   then originates leaves its one port exactly once; and (cache filed under the adapter's number, as every reachable
   cache of a station is) every path it knew is still known *)
Lemma thm_number_learned : forall o m app c pd conf task src net flag x' acts,
  xprocess (mkX (mkNode [mkAd o m] app c pd) conf task) 0 src LBcast (num_is net flag) = (x', acts) ->
  net < 65536 -> learnable o conf net ->
  acts = [] /\
  x_node x' = mkNode [mkAd (Some net) m] app (cache_rekey c o (Some net)) pd /\
  x_conf x' = (match o with None => 0 | Some _ => flag end) /\ x_task x' = 0 /\
  (forall data, indication (x_node x') AGB data
                = (x_node x', [Tx 0 LBcast (mkNpdu (Some DGlobal) None 255 None data)])) /\
  (keys_on o c -> forall d, find_path (x_node x') d = find_path (mkNode [mkAd o m] app c pd) d).
Proof.
  intros o m app c pd conf task src net flag x' acts H Hnet Hl.
  unfold xprocess in H. cbn [n_msg num_is] in H. change ((19 =? 18) || (19 =? 19)) with true in H.
  cbn [x_node nth_adapter adapters nth_error modelled_config negb n_dadr n_sadr] in H.
  change (19 =? 18) with false in H. cbv iota in H.
  rewrite (dec_num_is_enc net flag Hnet) in H.
  unfold nse_num_is in H. cbn [x_node a_net] in H.
  assert (Hres : x' = mkX (mkNode [mkAd (Some net) m] app (cache_rekey c o (Some net)) pd)
                          (match o with None => 0 | Some _ => flag end) 0 /\ acts = []).
  { destruct o as [old|].
    - destruct Hl as [Hne Hc]. destruct (old =? net) eqn:E1; [apply N.eqb_eq in E1; contradiction|].
      unfold conf_of in H. cbn [x_node is_router adapters length Nat.eqb negb x_conf] in H.
      destruct (conf =? 1) eqn:E2; [apply N.eqb_eq in E2; contradiction|].
      inversion H; subst. split; reflexivity.
    - inversion H; subst. split; reflexivity. }
  destruct Hres as [Hx Ha]. subst x' acts. cbn [x_node x_conf x_task].
  repeat split.
  - intro data. rewrite global_broadcast_once_per_port by reflexivity. reflexivity.
  - intros Hk d. unfold find_path. cbn [adapters rcache find_path_from a_net].
    assert (Hne : o <> Some net).
    { destruct o as [old|]; [|discriminate]. destruct Hl as [Hne _]. intro E. inversion E. contradiction. }
    rewrite (rekey_find c o (Some net) d Hk Hne). reflexivity.
Qed.

(* the invariant that makes the last clause applicable: a station's cache is filed under its adapter's number, and
   re-filing keeps it so *)
Lemma thm_number_learned_keys : forall o net c, keys_on o c -> keys_on (Some net) (cache_rekey c o (Some net)).
Proof.
  intros o net c Hk. destruct (rekey_keys c o (Some net) Hk) as [H|H]; [exact H|].
  subst c. intros k mm Hin. destruct Hin.
Qed.
