(* CascadeStep.v — the same statement through IpNet.do_event (EBcast ..), i.e. with the fuel the
   model itself supplies (cascade_fuel). *)
From Coq Require Import Permutation Lia.
From Bac Require Import Base Bip BipFacts IpNet BipDeliv BipDelivFacts CascadeTree CascadeNet CascadeFacts.
Open Scope N_scope.

Lemma set_nth_same {A} : forall (l : list A) i x, nth_error l i = Some x -> set_nth i x l = l.
Proof.
  induction l as [|y l IH]; intros [|i] x H; cbn in *; try discriminate; [inversion H; reflexivity|].
  f_equal. apply IH. exact H.
Qed.

Lemma indication_originate : forall c sl fl o p, indication (node_of c sl fl o) DBcast p = Ok (originate c o p).
Proof. intros c sl fl [s y|s|x] p; reflexivity. Qed.

Lemma emit_no_obs : forall w i n acts, (forall a, In a acts -> exists d m, a = Down d m) -> snd (emit w i n acts) = [].
Proof.
  intros w i n acts H. unfold emit. cbn [snd]. apply flat_map_nil. intros a Ia. destruct (H a Ia) as [d [m ->]]. reflexivity.
Qed.

Lemma originate_downs : forall c o p a, In a (originate c o p) -> exists d m, a = Down d m.
Proof.
  intros c [s y|s|x] p a I; unfold originate in I.
  - destruct I as [<-|[]]. eauto.
  - unfold bbmd_indication in I. destruct I as [<-|I]; [eauto|]. apply in_app_or in I. destruct I as [I|I].
    + unfold to_peers in I. apply in_map_iff in I. destruct I as [e [<- _]]. eauto.
    + unfold to_fdt in I. apply in_map_iff in I. destruct I as [e [<- _]]. eauto.
  - unfold foreign_indication, foreign_of in I. cbn in I. destruct I as [<-|[]]. eauto.
Qed.

(* node number i of the world broadcasts p through the model's own event function *)
Theorem do_event_broadcast_once : forall c lans sl fl now i o n p,
  wf c -> net_ok c lans sl fl -> nth_error (all_rcvs c) i = Some o ->
  let w := world_of c lans sl fl now in
  (list_sum (map (tsize (2 * (3 + n)) w) (emitted c lans sl fl now o (originate c o p))) < cascade_fuel)%nat ->
  exists log, do_event w (EBcast i p) [] = Ok (w, log) /\
    let D := up_addrs w log in
    Permutation D (map dl (broadcast n c o p)) /\
    (forall d, In d D -> d = (a_rcv d, rcv_addr o, DBcast, p)) /\
    NoDup (map a_rcv D) /\ ~ In (rcv_addr o) (map a_rcv D) /\
    (full c -> forall a, In a (all_addrs c) -> a <> rcv_addr o -> In a (map a_rcv D)).
Proof.
  intros c lans sl fl now i o n p W NK Hi w Hf.
  assert (In o (all_rcvs c)) as Io by (apply (nth_error_In _ _ Hi)).
  assert (nth_error (w_nodes w) i = Some (node_of c sl fl o)) as Hn by (apply map_nth_error; exact Hi).
  destruct (cascade_equals_delivery c lans sl fl now W NK o n p cascade_fuel Io Hf) as [log [C P]].
  destruct (cascade_broadcast_once c lans sl fl now o n p cascade_fuel W NK Io Hf) as [log' [C' Q]].
  unfold emi in C. fold w in C, C'. rewrite C in C'. inversion C'; subst log'.
  exists log. split; [|split; [exact P | exact Q]].
  unfold do_event. rewrite Hn, indication_originate. cbn [bind]. unfold act.
  destruct (emit w i (node_of c sl fl o) (originate c o p)) as [ds os] eqn:E.
  assert (ds = emitted c lans sl fl now o (originate c o p)) as Eds by (change ds with (fst (ds, os)); rewrite <- E; reflexivity).
  assert (os = []) as -> by (change os with (snd (ds, os)); rewrite <- E; apply emit_no_obs; apply originate_downs).
  subst ds.
  unfold set_node. rewrite (set_nth_same _ _ _ Hn). cbn [app]. rewrite world_eta. exact C.
Qed.
