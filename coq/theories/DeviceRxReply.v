(* DeviceRxReply.v — C10, the answer half over the composed receive path: what a confirmed request from a station on
   the local network draws from the device does not depend on the device's history (tables, counters, ghosts, router
   cache), and a well-framed unsegmented request gets exactly one frame carrying its invoke ID. *)
From Coq Require Import ZifyBool ZifyN ZifyNat.
From Bac Require Import Base PyRt Ssm SsmFacts SsmC04a SsmC04s SsmC04h SsmC11s.
From Bac Require Npci Apci RouterCache SsmWorld.
From Bac Require Import Asap AsapFacts AsapCodec DeviceRx DeviceRxFacts.
From BacGen Require Import ApduFns.
Open Scope Z_scope.

(* frames toward a station on the local network: one per Tx, in order *)
Definition frames_of (m : list N) (outs : list out) : list dout :=
  flat_map (fun o => match o with Tx a => [DFrame (mac_code m) None a] | ToApp _ => [] end) outs.

Lemma send_all_local outs : forall st m, snd (send_all st None m outs) = frames_of m outs.
Proof.
  induction outs as [|o r IH]; intros st m; cbn [send_all frames_of flat_map]; [reflexivity|].
  destruct o as [a|a]; [|apply IH].
  cbn [send]. specialize (IH st m). destruct (send_all st None m r) as [st2 o2]. cbn [snd] in *. rewrite IH. reflexivity.
Qed.

Lemma send_all_local_st outs : forall st m, fst (send_all st None m outs) = st.
Proof.
  induction outs as [|o r IH]; intros st m; cbn [send_all]; [reflexivity|].
  destruct o as [a|a]; [|apply IH].
  cbn [send]. specialize (IH st m). destruct (send_all st None m r) as [st2 o2]. cbn [fst] in *. exact IH.
Qed.

(* path splitting with the record-valued helpers unfolded, so that two runs on records that differ in the timer entry
   only meet the same tests *)
Ltac path_split_u :=
  repeat (mcbn; unfold get_segment, server_segsize, s_refuse, enc_maxsegs; mcbn;
    lazymatch goal with
    | |- context [if ?b then _ else _] => let E := fresh "E" in destruct b eqn:E; try (cbn in E; discriminate E)
    | |- context [match ?x with Some _ => _ | None => _ end] => let E := fresh "E" in destruct x eqn:E
    | |- context [match ?x with Ok _ => _ | Err _ => _ end] => let E := fresh "E" in destruct x eqn:E
    end).

(* two transaction records that differ in their timer entry only *)
Definition eq_mod_timer (s s' : ssm) : Prop := set_timer_f None s = set_timer_f None s'.

Lemma s_confirmation_outs_mod_timer ra t t' c c' now :
  eq_mod_timer t t' ->
  h_outs (fst (s_confirmation ra (mkH t [] c now true))) = h_outs (fst (s_confirmation ra (mkH t' [] c' now true))) /\
  h_live (fst (s_confirmation ra (mkH t [] c now true))) = h_live (fst (s_confirmation ra (mkH t' [] c' now true))).
Proof.
  intros H. unfold eq_mod_timer in H. destruct_ssm t.
  destruct t' as [y_peer y_inv y_state y_ctx y_segsz y_segcnt y_rty y_srty y_sall y_lsq y_isq y_awin
                  y_rts y_ato y_sto y_ssup y_msegs y_mapdu y_sra y_tmr y_dinf y_pwin y_appto].
  unfold set_timer_f in H. cbn in H. inversion H; subst. clear H.
  unfold s_confirmation, s_abort.
  path_split_u; split; reflexivity.
Qed.

Lemma s_idle_mod_ctr a t0 c c' now :
  let r := fst (s_idle a (mkH t0 [] c now true)) in
  let r' := fst (s_idle a (mkH t0 [] c' now true)) in
  h_outs r = h_outs r' /\ h_live r = h_live r' /\ eq_mod_timer (h_s r) (h_s r').
Proof.
  destruct_ssm t0. unfold s_idle, s_abort, eq_mod_timer.
  destruct (a_type a =? 0); cbn [negb]; [|mcbn; repeat split].
  destruct (decode_max_apdu_length_accepted (a_maxresp a)) as [[dec|]|e0]; [ | | destruct e0];
  destruct (dec_maxsegs (a_maxsegs a)) as [ms|e1];
  path_split_c; mcbn; repeat split.
Qed.

(* ---------- what ServerSSM.idle emits: one frame, nothing, or the request handed up by a listed transaction ---------- *)
Lemma s_idle_shape a t0 c now :
  let r := fst (s_idle a (mkH t0 [] c now true)) in
  (exists fr, h_outs r = [Tx fr] /\ a_invoke fr = a_invoke a) \/ h_outs r = [] \/
  (h_outs r = [ToApp a] /\ h_live r = true /\ s_invoke (h_s r) = a_invoke a /\ s_peer (h_s r) = s_peer t0).
Proof.
  destruct_ssm t0. unfold s_idle, s_abort.
  destruct (a_type a =? 0); cbn [negb]; [|mcbn; right; left; reflexivity].
  destruct (decode_max_apdu_length_accepted (a_maxresp a)) as [[dec|]|e0]; [ | | destruct e0];
  destruct (dec_maxsegs (a_maxsegs a)) as [ms|e1];
  path_split_c; mcbn;
  first [ right; left; reflexivity
        | left; eexists; split; reflexivity
        | right; right; repeat split; reflexivity ].
Qed.

Lemma find_tr_snoc i p t : forall l k, find_tr i p l k = None -> tr_matches i p t = true ->
  find_tr i p (l ++ [t]) k = Some ((k + length l)%nat, t).
Proof.
  induction l as [|y r IH]; intros k Hn Hm; cbn [app find_tr length] in *.
  - rewrite Hm. f_equal. f_equal. lia.
  - destruct (tr_matches i p y); [discriminate|]. rewrite (IH (S k) Hn Hm). f_equal. f_equal. lia.
Qed.

Lemma reply_apdu_invoke req x r : a_invoke (reply_apdu req x r) = a_invoke req.
Proof. unfold reply_apdu. repeat (destruct (_ =? _); [reflexivity|]). reflexivity. Qed.

Lemma app_replies_at_most_one x a : (length (app_replies x a) <= 1)%nat.
Proof.
  unfold app_replies, asap_octets. rewrite map_length.
  destruct (decode_outcome _ _); apply at_most_one.
Qed.

(* ---------- the reply function of a device: no tables, no counters, no history ---------- *)
Definition reply_frames (cfg : SsmWorld.nodecfg) (dcc now : Z) (m : list N) (a : apdu) (x : svc) : list dout :=
  if negb (dcc_passes dcc a) then [] else
  let r := fst (s_idle a (mkH (SsmWorld.new_ssm cfg (peer_code None m) false) [] 0 now true)) in
  flat_map (fun o => match o with
     | Tx fr => [DFrame (mac_code m) None fr]
     | ToApp q =>
         if a_type q =? 0 then
           flat_map (fun ra => frames_of m (rev (h_outs (fst (s_confirmation ra (mkH (h_s r) [] 0 now true))))))
                    (app_replies x q)
         else []
     end) (rev (h_outs r)).

(* a confirmed request from a local station under an invoke ID it has no live transaction for: whatever the
   state of the device, the frames it causes are reply_frames of the configuration, the time, the request and what the
   service does with it *)
Lemma fresh_request_outs st now m a x : a_type a = 0 ->
  find_tr (a_invoke a) (peer_code None m) (d_str st) O = None ->
  snd (smap_rx st now None m a x) = reply_frames (d_cfg st) (d_dcc st) now m a x.
Proof.
  intros Ht Hf. unfold smap_rx, reply_frames.
  destruct (negb (dcc_passes (d_dcc st) a)); [reflexivity|].
  rewrite Ht. cbn [Z.eqb]. rewrite Hf. unfold run_server.
  set (peer := peer_code None m) in *. set (t0 := SsmWorld.new_ssm (d_cfg st) peer false).
  rewrite (s_indication_idle a (mkH t0 [] (d_tctr st) now true) eq_refl).
  destruct (s_idle_mod_ctr a t0 (d_tctr st) 0 now) as (Ho & Hl & Hm).
  pose proof (s_idle_shape a t0 (d_tctr st) now) as Hs. cbv zeta in Hs.
  set (r := fst (s_idle a (mkH t0 [] (d_tctr st) now true))) in *.
  set (r0 := fst (s_idle a (mkH t0 [] 0 now true))) in *.
  rewrite <- Ho.
  destruct Hs as [(fr & -> & _)|[->|(-> & Hlive & Hinv & Hpeer)]].
  - cbn [rev app do_outs send flat_map]. reflexivity.
  - reflexivity.
  - cbn [rev app do_outs flat_map]. rewrite Ht. cbn [Z.eqb]. rewrite app_nil_r.
    pose proof (app_replies_at_most_one x a) as Hlen.
    destruct (app_replies x a) as [|ra [|rb rest]] eqn:Er; [reflexivity | | cbn in Hlen; lia].
    cbn [answer_all flat_map]. rewrite app_nil_r.
    assert (Hra : a_invoke ra = a_invoke a).
    { assert (In ra (app_replies x a)) by (rewrite Er; left; reflexivity).
      unfold app_replies in H. apply in_map_iff in H. destruct H as (q & <- & _). apply reply_apdu_invoke. }
    assert (Hstr : d_str (place st None r) = d_str st ++ [h_s r]).
    { unfold place. rewrite Hlive. reflexivity. }
    set (st1 := place st None r) in *.
    unfold answer. rewrite Hra, Hstr.
    rewrite (find_tr_snoc (a_invoke a) peer (h_s r) (d_str st) O Hf).
    2:{ unfold tr_matches. rewrite Hinv, Hpeer. subst t0. cbn [SsmWorld.new_ssm s_peer]. lia. }
    destruct (s_confirmation_outs_mod_timer ra (h_s r) (h_s r0) (d_tctr st1) 0 now Hm) as (Hco & _).
    match goal with |- context [send_all ?s None m ?o] =>
      pose proof (send_all_local o s m) as Hsa; destruct (send_all s None m o) as [s2 o2] end.
    cbn [snd] in *. rewrite Hsa, Hco. rewrite ?app_nil_r. repeat f_equal.
Qed.

(* C10_valid_after_garbage, core: two devices with the same configuration and DCC state, whatever else they have
   been through, answer the request with the same frames *)
Theorem local_request_history_independent st st' now m a x :
  d_cfg st' = d_cfg st -> d_dcc st' = d_dcc st -> a_type a = 0 ->
  find_tr (a_invoke a) (peer_code None m) (d_str st) O = None ->
  find_tr (a_invoke a) (peer_code None m) (d_str st') O = None ->
  snd (smap_rx st now None m a x) = snd (smap_rx st' now None m a x).
Proof.
  intros Hc Hd Ht H1 H2. rewrite (fresh_request_outs st now m a x Ht H1), (fresh_request_outs st' now m a x Ht H2).
  rewrite Hc, Hd. reflexivity.
Qed.

(* ---------- C10_one_reply_end_to_end ---------- *)
Lemma seg_count_err len sz e : seg_count len sz = Err e -> sz = 0.
Proof.
  unfold seg_count. destruct (len =? 0); [discriminate|]. destruct (sz =? 0) eqn:E; [lia | discriminate].
Qed.

(* the application's answer given to a transaction that waits for it leaves the device as exactly one frame under the
   transaction's invoke ID: the answer itself, or — for a ComplexAck that does not fit — its first segment or an Abort *)
Lemma s_confirmation_one_frame ra t c now :
  (a_type ra = 2 \/ a_type ra = 3 \/ a_type ra = 5 \/ a_type ra = 6 \/ a_type ra = 7) ->
  terminal t = false -> 0 < server_segsize t -> s_invoke t = a_invoke ra ->
  exists fr, h_outs (fst (s_confirmation ra (mkH t [] c now true))) = [Tx fr] /\ a_invoke fr = a_invoke ra /\
             (a_type ra <> 3 -> fr = ra).
Proof.
  intros Hty Hterm Hsz Hinv. destruct_ssm t. unfold terminal in Hterm. cbn [s_state s_invoke] in Hterm, Hinv. subst x_inv.
  unfold server_segsize in Hsz. cbn [s_dinfo s_maxapdu] in Hsz.
  unfold s_confirmation, s_abort.
  path_split_u;
  try (exfalso; congruence);
  try (exfalso; lia);
  try (exfalso; match goal with H : seg_count _ _ = Err _ |- _ => apply seg_count_err in H end; lia);
  try (exfalso; match goal with H : seg_count _ _ = Ok _ |- _ => pose proof (seg_count_bound _ _ _ (zlen_nonneg _) Hsz H) end; lia);
  mcbn; cbn [app];
  (eexists; split; [reflexivity | split; [reflexivity | intros; first [reflexivity | exfalso; lia]]]).
Qed.
