(* NpciRegistry.v — table obligations: the registry translated from the working tree
   (coq/gen/NpduRegistry.v, written by translator/gen_npdu.py from npdu.npdu_types) is exactly the
   model's dispatch table.  A dropped, added, re-coded or duplicated registration changes the
   generated table and breaks this file. *)
From Coq Require Import String.
From Bac Require Import Base Npci NpciFacts NpciMsgFacts.
From BacGen Require Import NpduRegistry.
Open Scope N_scope.

(* the table read from the code = one (message type, class name) pair per model constructor *)
Lemma registry_table_exact : npdu_types = model_registry.
Proof. vm_compute. reflexivity. Qed.

Lemma registry_keys : map fst npdu_types = registered_types.
Proof. vm_compute. reflexivity. Qed.

(* klass.messageType and klass().npduNetMessage agree with the key the class is registered under *)
Lemma registry_message_type : npdu_message_type = map (fun p => (snd p, fst p)) npdu_types.
Proof. vm_compute. reflexivity. Qed.
Lemma registry_ctor_message : npdu_ctor_message = map (fun p => (snd p, fst p)) npdu_types.
Proof. vm_compute. reflexivity. Qed.

(* number of parameter fields each class declares = arity of the model constructor *)
Lemma registry_fields_arity :
  map (fun p => (fst p, length (snd p))) npdu_fields
  = map (fun m => (msg_class_name m, msg_arity m)) msg_witnesses.
Proof. vm_compute. reflexivity. Qed.

Lemma registry_nodup : NoDup (map fst npdu_types) /\ NoDup (map snd npdu_types).
Proof.
  split.
  - rewrite registry_keys. exact (proj1 registered_nodup).
  - vm_compute.
    repeat (constructor; [cbn [In]; intros H; repeat destruct H as [H|H]; try discriminate H; exact H|]).
    constructor.
Qed.

(* the model's dispatch has a decoder exactly for the registered codes ... *)
Lemma registry_dispatch t :
  In t (map fst npdu_types) <-> forall bs, dec_msg t bs <> Err KeyErr.
Proof. rewrite registry_keys. apply registry. Qed.

Lemma registry_unregistered t bs : ~ In t (map fst npdu_types) -> dec_msg t bs = Err KeyErr.
Proof. rewrite registry_keys. apply dec_msg_unregistered. Qed.

(* ... and the decoder of code t builds the class the registry has under t *)
Lemma msg_in_model_registry m : In (msg_type m, msg_class_name m) model_registry.
Proof. destruct m; cbn; tauto. Qed.

Lemma registry_class t bs m r :
  dec_msg t bs = Ok (m, r) -> In (t, msg_class_name m) npdu_types.
Proof.
  intros H. apply dec_msg_type in H. subst t.
  rewrite registry_table_exact. apply msg_in_model_registry.
Qed.
