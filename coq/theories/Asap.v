(* Asap.v — model of the reply decision for a confirmed request whose fixed header is intact:
   ApplicationServiceAccessPoint.indication (appservice.py) + Application.indication (app.py).
   The decoding of the parameters and the execution of the service are inputs (outcomes);
   the model is the dispatch and error mapping that decides what goes back to the client. *)
From Bac Require Export Base.
Open Scope N_scope.

(* outcome of atype().decode(apdu) *)
Inductive dec_out : Set :=
| DOk | DReject (r : N) | DAbort (r : N) | DExn (e : err).

(* outcome of the service helper do_<Service>(apdu) *)
Inductive exec_out : Set :=
| XResp (ptype a b : N)          (* helper called self.response(pdu): pdu type, two detail fields *)
| XExecError (cls code : N)      (* raised ExecutionError *)
| XReject (r : N) | XAbort (r : N)
| XExn                            (* any other exception *)
| XSilent.                        (* returned without responding *)

Record reply : Set := mkReply { ptype : N; ra : N; rb : N }.

Definition REJECT := 6.
Definition ABORT := 7.
Definition ERROR := 5.
Definition unrecognizedService := 9.
Definition rejectOther := 0.
Definition errDevice := 0.
Definition errOperationalProblem := 25.

(* Application.indication: helper lookup and ExecutionError / other-exception mapping *)
Definition app_indication (have_helper : bool) (x : exec_out) : res (list reply) :=
  if negb have_helper then Err (RejectExc unrecognizedService)
  else match x with
       | XResp t a b => Ok [mkReply t a b]
       | XExecError c k => Ok [mkReply ERROR c k]
       | XReject r => Err (RejectExc r)
       | XAbort r => Err (AbortExc r)
       | XExn => Ok [mkReply ERROR errDevice errOperationalProblem]
       | XSilent => Ok []
       end.

(* ApplicationServiceAccessPoint.indication for a ConfirmedRequestPDU *)
Definition asap_confirmed (known have_helper : bool) (d : dec_out) (x : exec_out) : list reply :=
  if negb known then [mkReply REJECT unrecognizedService 0]
  else match d with
       | DReject r => [mkReply REJECT r 0]
       | DAbort r => [mkReply ABORT r 0]
       | DExn _ => [mkReply REJECT rejectOther 0]
       | DOk =>
           match app_indication have_helper x with
           | Ok l => l
           | Err (RejectExc r) => [mkReply REJECT r 0]
           | Err (AbortExc r) => [mkReply ABORT r 0]
           | Err _ => []
           end
       end.

Definition canon_replies (l : list reply) : list Z :=
  zlen l :: flat_map (fun r => [zN (ptype r); zN (ra r); zN (rb r)]) l.
