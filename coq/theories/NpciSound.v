(* NpciSound.v — the header decoder does not misread: whatever it accepts (octet input, reserved
   control bits clear, DLEN = 0 when DNET = 0xFFFF) is exactly the clause 6.2 layout of the fields it
   returns, and those fields are well-formed. *)
From Bac Require Import Base BytesFacts Npci NpciFacts.
From Coq Require Import ZifyBool ZifyN ZifyNat.
Ltac Zify.zify_post_hook ::= Z.to_euclidean_division_equations.
Open Scope N_scope.

(* ---------- the control octet is determined by its five fields when the reserved bits are clear ---------- *)
Definition ctl_fields (c : N) : N :=
  128 * b2n (negb (N.land c 0x80 =? 0)) + 32 * b2n (negb (N.land c 0x20 =? 0))
  + 8 * b2n (negb (N.land c 0x08 =? 0)) + 4 * b2n (negb (N.land c 0x04 =? 0)) + N.land c 0x03.

Lemma ctl_decompose_all :
  forallb (fun c => if N.land c 0x50 =? 0 then c =? ctl_fields c else true)
          (map N.of_nat (seq 0 256)) = true.
Proof. vm_compute. reflexivity. Qed.

Lemma ctl_decompose c : c < 256 -> N.land c 0x50 = 0 -> c = ctl_fields c.
Proof.
  intros Hc Hr. pose proof (proj1 (forallb_forall _ _) ctl_decompose_all c) as H.
  cbv beta in H. rewrite Hr in H. cbn [N.eqb] in H.
  assert (I : In c (map N.of_nat (seq 0 256))).
  { apply in_map_iff. exists (N.to_nat c). split; [apply N2Nat.id|]. apply in_seq. lia. }
  specialize (H I). lia.
Qed.

Lemma land3_lt c : N.land c 3 < 4.
Proof. change 3 with (N.ones 2). rewrite N.land_ones. change (2 ^ 2) with 4. lia. Qed.

(* ---------- inversion of the readers ---------- *)
Lemma get_inv bs x r : get bs = Ok (x, r) -> bs = x :: r.
Proof. destruct bs; cbn; intros H; [discriminate|]. injection H as <- <-. reflexivity. Qed.

Lemma get_short_inv bs n r : get_short bs = Ok (n, r) -> exists a b, bs = a :: b :: r /\ n = a * 256 + b.
Proof.
  destruct bs as [|a [|b bs]]; cbn; intros H; try discriminate.
  injection H as <- <-. exists a, b. split; reflexivity.
Qed.

Lemma bytes_ok_cons x l : bytes_ok (x :: l) = true <-> x < 256 /\ bytes_ok l = true.
Proof. unfold bytes_ok, byte_ok. cbn [forallb]. rewrite andb_true_iff. split; intros [A B]; split; try assumption; lia. Qed.

Lemma addr_fields_inv bs n dlen mac r :
  bytes_ok bs = true ->
  (do (n, q1) <- get_short bs; do (dlen, q2) <- get q1; do (mac, q3) <- get_data dlen q2; Ok (n, dlen, mac, q3))
    = Ok (n, dlen, mac, r) ->
  bs = [n / 256; n mod 256; lenN mac] ++ mac ++ r /\ n < 65536 /\ dlen = lenN mac /\ lenN mac < 256
  /\ bytes_ok mac = true /\ bytes_ok r = true.
Proof.
  intros Hb H.
  destruct (get_short bs) as [[n' q1]|] eqn:E1; cbn [bind] in H; [|discriminate].
  destruct (get q1) as [[l' q2]|] eqn:E2; cbn [bind] in H; [|discriminate].
  destruct (get_data l' q2) as [[m' q3]|] eqn:E3; cbn [bind] in H; [|discriminate].
  injection H as <- <- <- <-.
  apply get_short_inv in E1 as (a & b & -> & ->). apply get_inv in E2 as ->.
  apply get_data_ok in E3 as [-> L].
  apply bytes_ok_cons in Hb as [Ha Hb]. apply bytes_ok_cons in Hb as [Hb' Hb].
  apply bytes_ok_cons in Hb as [Hl Hb]. rewrite bytes_ok_app in Hb. apply andb_true_iff in Hb as [Hm Hr].
  repeat split; try assumption; try lia.
  cbn [app]. f_equal; [lia|]. f_equal; [lia|]. f_equal. lia.
Qed.

Lemma dec_dadr_sound bs a r : bytes_ok bs = true -> dec_dadr bs = Ok (a, r) ->
  (a = GBroadcast -> nth 2 bs 0 = 0) ->
  wf_dadr a = true /\ bs = spec_addr a ++ r /\ bytes_ok r = true.
Proof.
  intros Hb H G. unfold dec_dadr in H.
  destruct (get_short bs) as [[n q1]|] eqn:E1; cbn [bind] in H; [|discriminate].
  destruct (get q1) as [[dlen q2]|] eqn:E2; cbn [bind] in H; [|discriminate].
  destruct (get_data dlen q2) as [[mac q3]|] eqn:E3; cbn [bind] in H; [|discriminate].
  injection H as <- <-.
  destruct (addr_fields_inv bs n dlen mac q3 Hb) as (Eb & Hn & Hd & Hl & Hm & Hr).
  { rewrite E1. cbn [bind]. rewrite E2. cbn [bind]. rewrite E3. reflexivity. }
  destruct (n =? 65535) eqn:F1.
  - assert (n = 65535) as -> by lia. specialize (G eq_refl). rewrite Eb in G. cbn [app nth] in G.
    assert (mac = []) as -> by (apply lenN_nil_iff; exact G).
    cbn [wf_dadr spec_addr]. repeat split; try assumption; try (rewrite Eb; reflexivity).
  - destruct (dlen =? 0) eqn:F2.
    + assert (mac = []) as -> by (apply lenN_nil_iff; lia).
      cbn [wf_dadr spec_addr]. repeat split; try assumption; try lia; try (rewrite Eb; reflexivity).
    + cbn [wf_dadr spec_addr]. unfold wf_station; rewrite Hm. repeat split; try assumption; try lia;
        try (rewrite Eb; rewrite <- ?app_assoc; reflexivity).
Qed.

Lemma dec_sadr_sound bs a r : bytes_ok bs = true -> dec_sadr bs = Ok (a, r) ->
  wf_sadr a = true /\ bs = spec_addr a ++ r /\ bytes_ok r = true.
Proof.
  intros Hb H. unfold dec_sadr in H.
  destruct (get_short bs) as [[n q1]|] eqn:E1; cbn [bind] in H; [|discriminate].
  destruct (get q1) as [[dlen q2]|] eqn:E2; cbn [bind] in H; [|discriminate].
  destruct (get_data dlen q2) as [[mac q3]|] eqn:E3; cbn [bind] in H; [|discriminate].
  destruct (addr_fields_inv bs n dlen mac q3 Hb) as (Eb & Hn & Hd & Hl & Hm & Hr).
  { rewrite E1. cbn [bind]. rewrite E2. cbn [bind]. rewrite E3. reflexivity. }
  destruct (n =? 65535) eqn:F1; [discriminate|]. destruct (dlen =? 0) eqn:F2; [discriminate|].
  injection H as <- <-.
  cbn [wf_sadr spec_addr]. unfold wf_station; rewrite Hm. repeat split; try assumption; try lia;
    try (rewrite Eb; rewrite <- ?app_assoc; reflexivity).
Qed.

Lemma dec_mt_sound bs t vd r : bytes_ok bs = true -> dec_mt bs = Ok ((t, vd), r) ->
  wf_mv (Some t) vd = true
  /\ bs = [t] ++ opt_list vd (fun v => [v / 256; v mod 256]) ++ r /\ bytes_ok r = true.
Proof.
  intros Hb H. unfold dec_mt in H.
  destruct (get bs) as [[t' q1]|] eqn:E1; cbn [bind] in H; [|discriminate].
  apply get_inv in E1 as ->. apply bytes_ok_cons in Hb as [Ht Hb].
  destruct (is_vendor_type t') eqn:V.
  - destruct (get_short q1) as [[v q2]|] eqn:E2; cbn [bind] in H; [|discriminate].
    injection H as <- <- <-.
    apply get_short_inv in E2 as (a & b & -> & ->).
    apply bytes_ok_cons in Hb as [Ha Hb]. apply bytes_ok_cons in Hb as [Hb' Hb].
    cbn [wf_mv opt_list app]. rewrite V. repeat split; try assumption; try lia.
    f_equal. f_equal; [lia|]. f_equal. lia.
  - injection H as <- <- <-. cbn [wf_mv opt_list app]. repeat split; try assumption.
    unfold is_vendor_type in V. lia.
Qed.

(* ---------- the theorem ---------- *)
Lemma dec_npci_sound bs c h r :
  bytes_ok bs = true -> dec_npci bs = Ok (c, h, r) ->
  N.land c 0x50 = 0 -> (dadr h = Some GBroadcast -> nth 4 bs 0 = 0) ->
  wf_npci h = true /\ spec_control h = c /\ bs = spec6_2 h ++ r.
Proof.
  intros Hb H Hres Hg. unfold dec_npci in H.
  destruct (lenN bs <? 2); [discriminate|].
  destruct (get bs) as [[v r1]|] eqn:E1; cbn [bind] in H; [|discriminate].
  destruct (negb (v =? 1)) eqn:Ev; [discriminate|].
  destruct (get r1) as [[c' r2]|] eqn:E2; cbn [bind] in H; [|discriminate].
  cbv zeta in H.
  apply get_inv in E1 as ->. apply get_inv in E2 as ->.
  apply bytes_ok_cons in Hb as [Hv Hb]. apply bytes_ok_cons in Hb as [Hc Hb2].
  destruct (dec_opt _ dec_dadr r2) as [[d r3]|] eqn:E3; cbn [bind] in H; [|discriminate].
  destruct (dec_opt _ dec_sadr r3) as [[s r4]|] eqn:E4; cbn [bind] in H; [|discriminate].
  destruct (dec_opt _ get r4) as [[hp r5]|] eqn:E5; cbn [bind] in H; [|discriminate].
  destruct (dec_opt _ dec_mt r5) as [[mv r6]|] eqn:E6; cbn [bind] in H; [|discriminate].
  injection H as <- <- <-.
  cbn [Npci.dadr] in Hg. cbn [nth] in Hg.
  assert (v = 1) as -> by lia.
  pose proof (ctl_decompose c' Hc Hres) as Dc. unfold ctl_fields in Dc.
  pose proof (land3_lt c') as Hp.
  unfold dec_opt in E3, E4, E5, E6.
  (* destination *)
  assert (S3 : is_some d = negb (N.land c' 32 =? 0) /\ wf_opt wf_dadr d = true
               /\ r2 = opt_list d spec_addr ++ r3 /\ bytes_ok r3 = true).
  { destruct (negb (N.land c' 32 =? 0)).
    - destruct (dec_dadr r2) as [[a q]|] eqn:E; cbn [bind] in E3; [|discriminate].
      injection E3 as <- <-.
      destruct (dec_dadr_sound r2 a q Hb2 E) as (W & L & B).
      { intros ->. apply Hg. reflexivity. }
      cbn [is_some wf_opt opt_list]. repeat split; assumption.
    - injection E3 as <- <-. cbn [is_some wf_opt opt_list app]. repeat split; assumption. }
  destruct S3 as (I3 & W3 & L3 & B3).
  assert (S4 : is_some s = negb (N.land c' 8 =? 0) /\ wf_opt wf_sadr s = true
               /\ r3 = opt_list s spec_addr ++ r4 /\ bytes_ok r4 = true).
  { destruct (negb (N.land c' 8 =? 0)).
    - destruct (dec_sadr r3) as [[a q]|] eqn:E; cbn [bind] in E4; [|discriminate].
      injection E4 as <- <-.
      destruct (dec_sadr_sound r3 a q B3 E) as (W & L & B).
      cbn [is_some wf_opt opt_list]. repeat split; assumption.
    - injection E4 as <- <-. cbn [is_some wf_opt opt_list app]. repeat split; assumption. }
  destruct S4 as (I4 & W4 & L4 & B4).
  assert (S5 : is_some hp = negb (N.land c' 32 =? 0) /\ wf_opt (fun x => x <? 256) hp = true
               /\ r4 = opt_list hp (fun x => [x]) ++ r5 /\ bytes_ok r5 = true).
  { destruct (negb (N.land c' 32 =? 0)).
    - destruct (get r4) as [[x q]|] eqn:E; cbn [bind] in E5; [|discriminate].
      injection E5 as <- <-. apply get_inv in E as ->. apply bytes_ok_cons in B4 as [Hx B4].
      cbn [is_some wf_opt opt_list app]. repeat split; try assumption; lia.
    - injection E5 as <- <-. cbn [is_some wf_opt opt_list app]. repeat split; assumption. }
  destruct S5 as (I5 & W5 & L5 & B5).
  set (m := option_map fst mv) in *.
  set (vd := match mv with Some (_, vd) => vd | None => None end) in *.
  assert (S6 : is_some m = negb (N.land c' 128 =? 0) /\ wf_mv m vd = true
               /\ r5 = opt_list m (fun t => [t]) ++ opt_list vd (fun v => [v / 256; v mod 256]) ++ r6).
  { subst m vd. destruct (negb (N.land c' 128 =? 0)).
    - destruct (dec_mt r5) as [[[t vd] q]|] eqn:E; cbn [bind] in E6; [|discriminate].
      injection E6 as <- <-.
      destruct (dec_mt_sound r5 t vd q B5 E) as (W & L & B).
      cbn [is_some option_map fst opt_list]. repeat split; assumption.
    - injection E6 as <- <-. cbn [is_some option_map wf_mv opt_list app]. repeat split; reflexivity. }
  destruct S6 as (I6 & W6 & L6).
  split; [|split].
  - unfold wf_npci. cbn [Npci.ver Npci.er Npci.prio Npci.dadr Npci.sadr Npci.hop Npci.nmsg Npci.vendor].
    rewrite W3, W4. fold (wf_mv m vd). rewrite W6.
    assert (Hh : match d, hp with Some _, Some x => x <? 256 | None, None => true | _, _ => false end = true).
    { destruct d, hp; cbn [is_some wf_opt] in *; try assumption; try reflexivity; congruence. }
    rewrite Hh. cbn [N.eqb Pos.eqb andb]. lia.
  - unfold spec_control. cbn [Npci.er Npci.prio Npci.dadr Npci.sadr Npci.nmsg].
    rewrite I3, I4, I6. symmetry. exact Dc.
  - unfold spec6_2. cbn [Npci.er Npci.prio Npci.dadr Npci.sadr Npci.hop Npci.nmsg Npci.vendor].
    unfold spec_control. cbn [Npci.er Npci.prio Npci.dadr Npci.sadr Npci.nmsg].
    rewrite I3, I4, I6, <- Dc. cbn [app]. f_equal. f_equal.
    rewrite L3, L4, L5, L6. rewrite <- !app_assoc. reflexivity.
Qed.
