(* CascadeFacts.v — on every well-formed configuration placed soundly on IP subnets (net_ok), the
   FIFO cascade of IpNet.v delivers exactly what the delivery-tree semantics BipDeliv.broadcast
   delivers (as multisets of (receiver address, source shown, destination shown, NPDU)). *)
From Coq Require Import Permutation Lia.
From Bac Require Import Base Bip BipFacts IpNet BipDeliv BipDelivFacts CascadeTree CascadeNet.
Open Scope N_scope.

Definition static_msg (m : msg) : bool :=
  match m with Result _ | RegisterFD _ | DeleteFDT _ => false | _ => true end.

Lemma routed_homes : forall ls j g,
  routed_from j ls g =
  map (fun k => mkDgram k (g_src g) (g_dst g) (g_msg g))
      (filter (fun k => negb (Nat.eqb k (g_lan g))) (homes_from j ls (g_dst g))).
Proof.
  induction ls as [|l ls IH]; intros j g; [reflexivity|]. cbn [routed_from homes_from].
  rewrite filter_app, map_app, IH. f_equal.
  destruct (N.land (fst (g_dst g)) (l_mask l) =? l_subnet l); cbn [filter andb]; [|rewrite andb_false_r; reflexivity].
  rewrite andb_true_r. destruct (negb (Nat.eqb j (g_lan g))); reflexivity.
Qed.

Section Net.
Context (c : acfg) (lans : list lan) (sl : sub -> nat) (fl : addr * addr -> nat) (now : Z).
Context (W : wf c) (NK : net_ok c lans sl fl).
Let WD := world_of c lans sl fl now.
Let nodeof := node_of c sl fl.
Let lano := lanof sl fl.

Lemma receive_static : forall r src d m, static_msg m = true ->
  node_receive now (nodeof r) src d m = Ok (nodeof r, react c r src d m).
Proof.
  intros r src d m Hs. destruct r as [s y|s|x]; unfold node_receive, nodeof, node_of; cbn [n_kind kind_of].
  - reflexivity.
  - destruct m; try discriminate; cbn [bbmd_confirmation react snd]; reflexivity.
  - unfold react. destruct m; try discriminate; unfold foreign_confirmation, foreign_of;
      cbn [f_status f_bbmd Z.eqb negb bind fst snd]; try reflexivity.
    destruct (addr_eqb src (snd x)); reflexivity.
Qed.

(* destination as the multiplexer of a hearing node shows it *)
Definition dseen (g : dgram) : dest :=
  if addr_eqb (g_dst g) (lan_bcast (lan_of WD (g_lan g))) then DBcast else DStation (g_dst g).
Definition tags (r : rcv) (acts : list action) : list adelivery :=
  flat_map (fun a => match a with Up s d p => [(rcv_addr r, s, d, p)] | _ => [] end) acts.
Definition emi (r : rcv) (acts : list action) : list dgram := emitted c lans sl fl now r acts.
Definition hear (g : dgram) (r : rcv) : bool := hears WD g (nodeof r).

Lemma emit_index : forall i n acts, fst (emit WD i n acts) = fst (emit WD 0 n acts).
Proof. reflexivity. Qed.

Lemma up_addrs_app : forall w a b, up_addrs w (a ++ b) = up_addrs w a ++ up_addrs w b.
Proof. intros. unfold up_addrs. apply flat_map_app. Qed.

Lemma emit_obs : forall i r acts, nth_error (w_nodes WD) i = Some (nodeof r) ->
  up_addrs WD (snd (emit WD i (nodeof r) acts)) = tags r acts.
Proof.
  intros i r acts H. unfold emit. cbn [snd]. induction acts as [|a acts IH]; [reflexivity|].
  cbn [flat_map]. rewrite up_addrs_app. unfold tags. cbn [flat_map]. fold (tags r acts). rewrite IH.
  f_equal. destruct a as [s d p|d m|s m]; cbn [up_addrs flat_map app]; try reflexivity.
  rewrite H. reflexivity.
Qed.

(* one datagram with a static message: nobody changes, the hearing nodes react as BipDeliv.react says *)
Lemma deliver_static : forall g, static_msg (g_msg g) = true -> forall R i,
  (forall k r, nth_error R k = Some r -> nth_error (w_nodes WD) (i + k) = Some (nodeof r)) ->
  exists os, deliver WD g i (map nodeof R) =
             Ok (map nodeof R,
                 flat_map (fun r => if hear g r then emi r (react c r (g_src g) (dseen g) (g_msg g)) else []) R, os)
          /\ up_addrs WD os = flat_map (fun r => if hear g r then tags r (react c r (g_src g) (dseen g) (g_msg g)) else []) R.
Proof.
  intros g Hs. induction R as [|r R IH]; intros i H.
  - exists []. split; reflexivity.
  - destruct (IH (S i)) as [os [D U]].
    { intros k r' Hk. replace (S i + k)%nat with (i + S k)%nat by lia. apply H. exact Hk. }
    cbn [map deliver]. fold (hear g r). destruct (hear g r) eqn:Hh.
    + fold (dseen g). change (w_now WD) with now. rewrite (receive_static r _ _ _ Hs). cbn [bind fst snd].
      rewrite D. cbn [bind fst snd].
      exists (snd (emit WD i (nodeof r) (react c r (g_src g) (dseen g) (g_msg g))) ++ os).
      split; [cbn [flat_map]; rewrite Hh; reflexivity|]. rewrite up_addrs_app, U. cbn [flat_map]. rewrite Hh. f_equal.
      apply emit_obs. replace i with (i + 0)%nat by lia. apply H. reflexivity.
    + cbn [bind fst snd]. rewrite D. cbn [bind fst snd app]. exists os. split; [cbn [flat_map]; rewrite Hh; reflexivity|].
      cbn [flat_map]. rewrite Hh. exact U.
Qed.

Lemma deliver_top : forall g, static_msg (g_msg g) = true ->
  exists os, deliver WD g 0 (w_nodes WD) =
             Ok (w_nodes WD,
                 flat_map (fun r => if hear g r then emi r (react c r (g_src g) (dseen g) (g_msg g)) else []) (all_rcvs c), os)
          /\ up_addrs WD os = flat_map (fun r => if hear g r then tags r (react c r (g_src g) (dseen g) (g_msg g)) else []) (all_rcvs c).
Proof.
  intros g Hs. apply (deliver_static g Hs (all_rcvs c) 0). intros k r H. cbn [plus].
  change (w_nodes WD) with (map nodeof (all_rcvs c)). apply map_nth_error. exact H.
Qed.

(* ------------------------------------------------------------------ list facts *)
Lemma flat_map_flat_map {A B C} (f : B -> list C) (h : A -> list B) l :
  flat_map f (flat_map h l) = flat_map (fun x => flat_map f (h x)) l.
Proof. induction l as [|x l IH]; [reflexivity|]. cbn [flat_map]. rewrite flat_map_app, IH. reflexivity. Qed.
Lemma flat_map_if {A B} (p : A -> bool) (f : A -> list B) l :
  flat_map (fun x => if p x then f x else []) l = flat_map f (filter p l).
Proof. induction l as [|x l IH]; [reflexivity|]. cbn [flat_map filter]. destruct (p x); cbn [flat_map app]; rewrite IH; reflexivity. Qed.
Lemma flat_map_pick {A B} (f : A -> list B) l x :
  NoDup l -> In x l -> (forall y, In y l -> y <> x -> f y = []) -> flat_map f l = f x.
Proof.
  induction l as [|z l IH]; intros N I H; [contradiction|]. inversion N as [|? ? Hn Hd]; subst. cbn [flat_map].
  destruct I as [->|I].
  - rewrite flat_map_nil; [apply app_nil_r|]. intros y Iy. apply H; [right; exact Iy|]. intros ->. contradiction.
  - rewrite (H z); [|left; reflexivity | intros ->; contradiction]. cbn [app]. apply IH; [exact Hd | exact I |].
    intros y Iy. apply H. right. exact Iy.
Qed.
Lemma perm_flat_map_app {A B} (f h : A -> list B) l :
  Permutation (flat_map (fun x => f x ++ h x) l) (flat_map f l ++ flat_map h l).
Proof.
  induction l as [|x l IH]; [apply Permutation_refl|]. cbn [flat_map].
  eapply Permutation_trans; [apply Permutation_app_head; exact IH|].
  rewrite <- !app_assoc. apply Permutation_app_head.
  rewrite !app_assoc. apply Permutation_app_tail. apply Permutation_app_comm.
Qed.
Lemma perm_flat_map_ext {A B} (f h : A -> list B) l :
  (forall x, In x l -> Permutation (f x) (h x)) -> Permutation (flat_map f l) (flat_map h l).
Proof.
  induction l as [|x l IH]; intros H; [apply Permutation_refl|]. cbn [flat_map].
  apply Permutation_app; [apply H; left; reflexivity | apply IH; intros y Iy; apply H; right; exact Iy].
Qed.
Lemma up_addrs_flat_map {A} w (f : A -> list obs) l :
  up_addrs w (flat_map f l) = flat_map (fun x => up_addrs w (f x)) l.
Proof. induction l as [|x l IH]; [reflexivity|]. cbn [flat_map]. rewrite up_addrs_app, IH. reflexivity. Qed.

(* ------------------------------------------------------------------ one datagram in the world *)
Definition upT (K : nat) (g : dgram) : list adelivery := up_addrs WD (tree K WD g).
Definition Uh (g : dgram) : list adelivery :=
  flat_map (fun r => if hear g r then tags r (react c r (g_src g) (dseen g) (g_msg g)) else []) (all_rcvs c).
Definition Dh (g : dgram) : list dgram :=
  flat_map (fun r => if hear g r then emi r (react c r (g_src g) (dseen g) (g_msg g)) else []) (all_rcvs c).

Lemma tree_static : forall K g, static_msg (g_msg g) = true ->
  upT (S K) g = Uh g ++ flat_map (upT K) (routed WD g ++ Dh g) /\
  (Forall (good K WD) (routed WD g ++ Dh g) -> good (S K) WD g).
Proof.
  intros K g Hs. destruct (deliver_top g Hs) as [os [D U]]. split.
  - unfold upT.
    change (tree (S K) WD g) with
      (match deliver WD g 0 (w_nodes WD) with
       | Ok y => OFrame g :: snd y ++ flat_map (tree K WD) (routed WD g ++ snd (fst y)) | Err _ => [] end).
    rewrite D. cbn [fst snd]. fold (Dh g).
    change (OFrame g :: os ++ flat_map (tree K WD) (routed WD g ++ Dh g))
      with ([OFrame g] ++ os ++ flat_map (tree K WD) (routed WD g ++ Dh g)).
    rewrite !up_addrs_app, up_addrs_flat_map, U. reflexivity.
  - intros F. cbn [good]. eexists. eexists. split; [exact D | exact F].
Qed.

Lemma routed_WD : forall l src dst m,
  routed WD (mkDgram l src dst m) =
  map (fun k => mkDgram k src dst m) (filter (fun k => negb (Nat.eqb k l)) (homes lans dst)).
Proof. intros. unfold routed. apply (routed_homes lans 0 (mkDgram l src dst m)). Qed.

Lemma hear_spec : forall g r,
  hear g r = Nat.eqb (lano r) (g_lan g) && negb (addr_eqb (rcv_addr r) (g_src g))
             && (addr_eqb (g_dst g) (lan_bcast (lan_at lans (g_lan g))) || addr_eqb (rcv_addr r) (g_dst g)).
Proof. intros. unfold hear, hears, nodeof, node_of. cbn [n_lan n_up n_addr]. rewrite andb_true_r. reflexivity. Qed.

(* a destination the configuration knows: routed to LAN j only, and owned (if at all) by a node of LAN j *)
Definition known (dst : addr) (j : nat) : Prop :=
  homes lans dst = [j] /\ (j < length lans)%nat /\ (forall r, In r (all_rcvs c) -> rcv_addr r = dst -> lano r = j).

Lemma known_node : forall r, In r (all_rcvs c) -> known (rcv_addr r) (lano r).
Proof.
  intros r I. split; [apply (nk_home_node _ _ _ _ NK); exact I|]. split; [apply (nk_range _ _ _ _ NK); exact I|].
  intros r' I' E. f_equal. apply (rcv_inj c W); assumption.
Qed.
Lemma known_bcast : forall s, In s (a_subs c) -> known (sb_bcast s) (sl s).
Proof.
  intros s I. split; [apply (nk_home_bcast _ _ _ _ NK); exact I|]. split.
  - apply (nk_range _ _ _ _ NK (RB s)). apply (in_all_RB c W). exact I.
  - intros r Ir E. exfalso. apply (wf_not_bcast c W (rcv_addr r) s); [apply in_map; exact Ir | exact I | exact E].
Qed.

(* away from its home LAN nobody hears the datagram; the router puts one copy on the home LAN *)
Lemma hop : forall K l j src dst m, static_msg m = true -> known dst j -> (l < length lans)%nat ->
  good K WD (mkDgram j src dst m) ->
  good (S K) WD (mkDgram l src dst m) /\ upT (S K) (mkDgram l src dst m) = upT K (mkDgram j src dst m).
Proof.
  intros K l j src dst m Hs [Hh [Hj Ho]] Hl G. destruct (Nat.eq_dec l j) as [->|N].
  - destruct (good_stable K WD _ G) as [G' [T' _]]. split; [exact G'|]. unfold upT. rewrite T'. reflexivity.
  - destruct (tree_static K (mkDgram l src dst m) Hs) as [T GG].
    assert (forall r, In r (all_rcvs c) -> hear (mkDgram l src dst m) r = false) as NH.
    { intros r Ir. rewrite hear_spec. cbn [g_lan g_src g_dst].
      assert (addr_eqb dst (lan_bcast (lan_at lans l)) = false) as ->.
      { apply addr_eqb_neq. intros E. pose proof (nk_self_home _ _ _ _ NK l Hl) as S. rewrite <- E, Hh in S.
        destruct S as [S|[]]. apply N. symmetry. exact S. }
      cbn [orb]. destruct (addr_eqb (rcv_addr r) dst) eqn:E; [|rewrite andb_false_r; reflexivity].
      apply addr_eqb_eq in E. rewrite (Ho r Ir E).
      assert (Nat.eqb j l = false) as -> by (apply Nat.eqb_neq; intros ->; apply N; reflexivity). reflexivity. }
    assert (Uh (mkDgram l src dst m) = []) as EU.
    { unfold Uh. apply flat_map_nil. intros r Ir. rewrite (NH r Ir). reflexivity. }
    assert (Dh (mkDgram l src dst m) = []) as ED.
    { unfold Dh. apply flat_map_nil. intros r Ir. rewrite (NH r Ir). reflexivity. }
    assert (routed WD (mkDgram l src dst m) = [mkDgram j src dst m]) as ER.
    { rewrite routed_WD, Hh. cbn [filter]. assert (Nat.eqb j l = false) as -> by (apply Nat.eqb_neq; intros ->; apply N; reflexivity).
      reflexivity. }
    rewrite EU, ED, ER in T. rewrite ED, ER in GG. cbn [app flat_map] in T. rewrite app_nil_r in T.
    split; [apply GG; constructor; [exact G | constructor] | exact T].
Qed.

(* on its home LAN the datagram reaches exactly BipDeliv.receivers *)
Lemma arrive_bcast : forall s src m B (F : rcv -> dest -> list B), In s (a_subs c) ->
  flat_map (fun r => if hear (mkDgram (sl s) src (sb_bcast s) m) r then F r (dseen (mkDgram (sl s) src (sb_bcast s) m)) else []) (all_rcvs c)
  = flat_map (fun rd => F (fst rd) (snd rd)) (receivers c src (sb_bcast s)).
Proof.
  intros s src m B F I. set (g := mkDgram (sl s) src (sb_bcast s) m).
  assert (dseen g = DBcast) as ->.
  { unfold dseen, g. cbn [g_dst g_lan]. change (lan_of WD (sl s)) with (lan_at lans (sl s)).
    rewrite (nk_bcast _ _ _ _ NK s I), addr_eqb_refl. reflexivity. }
  rewrite (bcast_rcv c W s src I), flat_map_map. cbn [fst snd].
  unfold all_rcvs. rewrite flat_map_app, flat_map_flat_map.
  rewrite (flat_map_nil _ (map RF (a_fds c))).
  2:{ intros r Ir. apply in_map_iff in Ir. destruct Ir as [x [<- Ix]]. rewrite hear_spec. unfold g. cbn [g_lan lano lanof].
      assert (Nat.eqb (fl x) (sl s) = false) as -> by (apply Nat.eqb_neq; apply (nk_fl _ _ _ _ NK); assumption). reflexivity. }
  rewrite app_nil_r.
  assert (forall s' r, In r (members s') -> lano r = sl s') as HL.
  { intros s' r [<-|Ir]; [reflexivity|]. apply in_map_iff in Ir. destruct Ir as [y [<- _]]. reflexivity. }
  rewrite (flat_map_pick _ (a_subs c) s (subs_nodup c W) I).
  - rewrite <- flat_map_if. apply flat_map_ext_in. intros r Ir.
    rewrite hear_spec. unfold g. cbn [g_lan g_src g_dst]. rewrite (HL s r Ir), Nat.eqb_refl.
    rewrite (nk_bcast _ _ _ _ NK s I), addr_eqb_refl. cbn [andb orb]. rewrite andb_true_r. reflexivity.
  - intros s' I' N. apply flat_map_nil. intros r Ir. rewrite hear_spec. unfold g. cbn [g_lan].
    rewrite (HL s' r Ir).
    assert (Nat.eqb (sl s') (sl s) = false) as ->; [|reflexivity].
    apply Nat.eqb_neq. intros E. apply N. apply (nk_sl_inj _ _ _ _ NK); assumption.
Qed.

Lemma arrive_ucast : forall r0 src m B (F : rcv -> dest -> list B), In r0 (all_rcvs c) ->
  flat_map (fun r => if hear (mkDgram (lano r0) src (rcv_addr r0) m) r
                     then F r (dseen (mkDgram (lano r0) src (rcv_addr r0) m)) else []) (all_rcvs c)
  = flat_map (fun rd => F (fst rd) (snd rd)) (receivers c src (rcv_addr r0)).
Proof.
  intros r0 src m B F I. set (g := mkDgram (lano r0) src (rcv_addr r0) m).
  assert (dseen g = DStation (rcv_addr r0)) as ->.
  { unfold dseen, g. cbn [g_dst g_lan]. change (lan_of WD (lano r0)) with (lan_at lans (lano r0)).
    assert (addr_eqb (rcv_addr r0) (lan_bcast (lan_at lans (lano r0))) = false) as ->; [|reflexivity].
    apply addr_eqb_neq. apply (nk_not_lanbcast _ _ _ _ NK); [exact I | apply (nk_range _ _ _ _ NK); exact I]. }
  assert (forall r, In r (all_rcvs c) ->
          hear g r = addr_eqb (rcv_addr r) (rcv_addr r0) && negb (addr_eqb (rcv_addr r) src)) as HH.
  { intros r Ir. rewrite hear_spec. unfold g. cbn [g_lan g_src g_dst].
    assert (addr_eqb (rcv_addr r0) (lan_bcast (lan_at lans (lano r0))) = false) as ->.
    { apply addr_eqb_neq. apply (nk_not_lanbcast _ _ _ _ NK); [exact I | apply (nk_range _ _ _ _ NK); exact I]. }
    cbn [orb]. destruct (addr_eqb (rcv_addr r) (rcv_addr r0)) eqn:E.
    - apply addr_eqb_eq in E. assert (r = r0) as -> by (apply (rcv_inj c W); assumption).
      rewrite Nat.eqb_refl. cbn [andb]. rewrite andb_true_r. reflexivity.
    - rewrite andb_false_r. reflexivity. }
  unfold receivers. rewrite flat_map_app.
  rewrite (flat_map_nil _ (flat_map _ (a_subs c))).
  2:{ intros rd Ird. apply in_flat_map in Ird. destruct Ird as [s [Is Ird]].
      rewrite (addr_not_bcast c W r0 s I Is) in Ird. contradiction. }
  cbn [app]. rewrite flat_map_map. cbn [fst snd]. rewrite <- flat_map_if.
  apply flat_map_ext_in. intros r Ir. rewrite (HH r Ir). reflexivity.
Qed.

(* ------------------------------------------------------------------ actions of a broadcast flow *)
Definition cmsg (m : msg) : bool := match m with OrigBroadcast _ | Forwarded _ _ => true | _ => false end.
Definition okrecv (m : msg) (r : rcv) : Prop :=
  cmsg m = true \/ exists p s, m = Distribute p /\ r = RB s.
Inductive kdst : addr -> nat -> Prop :=
| KNode r0 : In r0 (all_rcvs c) -> kdst (rcv_addr r0) (lano r0)
| KBcast s : In s (a_subs c) -> kdst (sb_bcast s) (sl s).
Definition okact (r : rcv) (a : action) : Prop :=
  match a with
  | Down d m => static_msg m = true /\ exists dst j, out_addr r d = Some dst /\ kdst dst j /\
                (forall rd, In rd (receivers c (rcv_addr r) dst) -> okrecv m (fst rd))
  | _ => True
  end.

Lemma kdst_known : forall dst j, kdst dst j -> known dst j.
Proof. intros dst j [r0 I|s I]; [apply known_node | apply known_bcast]; exact I. Qed.

Lemma arrive : forall dst j src m B (F : rcv -> dest -> list B), kdst dst j ->
  flat_map (fun r => if hear (mkDgram j src dst m) r then F r (dseen (mkDgram j src dst m)) else []) (all_rcvs c)
  = flat_map (fun rd => F (fst rd) (snd rd)) (receivers c src dst).
Proof. intros dst j src m B F [r0 I|s I]; [apply arrive_ucast | apply arrive_bcast]; exact I. Qed.

Lemma in_all_inv : forall r, In r (all_rcvs c) ->
  match r with RS s y => In s (a_subs c) /\ In y (sb_simple s) | RB s => In s (a_subs c) | RF x => In x (a_fds c) end.
Proof.
  intros r I. apply in_app_or in I. destruct I as [I|I].
  - apply in_flat_map in I. destruct I as [s [Is [<-|I]]]; [exact Is|].
    apply in_map_iff in I. destruct I as [y [<- Iy]]. auto.
  - apply in_map_iff in I. destruct I as [x [<- Ix]]. exact Ix.
Qed.

Lemma receivers_in : forall src dst rd, In rd (receivers c src dst) -> In (fst rd) (all_rcvs c).
Proof.
  intros src dst rd I. unfold receivers in I. apply in_app_or in I. destruct I as [I|I].
  - apply in_flat_map in I. destruct I as [s [Is I]]. destruct (addr_eqb dst (sb_bcast s)); [|contradiction].
    apply in_map_iff in I. destruct I as [r [<- Ir]]. apply filter_In in Ir. apply (in_all_members c W s); tauto.
  - apply in_map_iff in I. destruct I as [r [<- Ir]]. apply filter_In in Ir. apply Ir.
Qed.

Lemma emi_cons : forall r a acts, emi r (a :: acts) = emi r [a] ++ emi r acts.
Proof. intros. unfold emi, emitted, emit. cbn [fst flat_map]. rewrite app_nil_r. reflexivity. Qed.
Lemma tags_cons : forall r a acts, tags r (a :: acts) = tags r [a] ++ tags r acts.
Proof. intros. unfold tags. cbn [flat_map]. rewrite app_nil_r. reflexivity. Qed.

Lemma emi_down : forall r d m dst, In r (all_rcvs c) -> out_addr r d = Some dst ->
  emi r [Down d m] = [mkDgram (lano r) (rcv_addr r) dst m].
Proof.
  intros r d m dst I H. unfold emi, emitted, emit, node_of. cbn [fst flat_map n_up n_lan n_addr app]. f_equal. f_equal.
  destruct d as [|a]; [|cbn in H; congruence].
  pose proof (in_all_inv r I) as J. destruct r as [s y|s|x]; cbn [out_addr] in H; try discriminate; inversion H; subst;
    change (lan_of (world_of c lans sl fl now) (lanof sl fl (RS s y))) with (lan_at lans (sl s)) || idtac;
    change (lan_of (world_of c lans sl fl now) (lanof sl fl (RB s))) with (lan_at lans (sl s)) || idtac;
    apply (nk_bcast _ _ _ _ NK); tauto.
Qed.

(* reactions stay inside the class *)
Lemma ok_fwd_any : forall r d a p dst j, out_addr r d = Some dst -> kdst dst j -> okact r (Down d (Forwarded a p)).
Proof. intros r d a p dst j H K. split; [reflexivity|]. exists dst, j. repeat split; auto. intros rd _. left. reflexivity. Qed.

Lemma ok_peer : forall r s' a p, In s' (a_subs c) -> okact r (Down (fwd_dest (entry s')) (Forwarded a p)).
Proof.
  intros r s' a p I. rewrite fwd_dest_entry. destruct (wf_entry c W s' I) as [E|E]; rewrite E.
  - apply (ok_fwd_any r _ a p (rcv_addr (RB s')) (lano (RB s'))); [reflexivity|]. apply KNode. apply (in_all_RB c W). exact I.
  - apply (ok_fwd_any r _ a p (sb_bcast s') (sl s')); [reflexivity|]. apply KBcast. exact I.
Qed.
Lemma ok_fdt : forall r L a p, (forall x, In x L -> In x (a_fds c)) ->
  Forall (okact r) (to_fdt (map (fun x => mkFdte (fst x) 30 35) L) (Forwarded a p)).
Proof.
  intros r L a p H. unfold to_fdt. rewrite map_map. apply Forall_forall. intros act I. apply in_map_iff in I.
  destruct I as [x [<- Ix]]. cbn [fd_addr].
  apply (ok_fwd_any r _ a p (rcv_addr (RF x)) (lano (RF x))); [reflexivity|]. apply KNode. apply (in_all_RF c W). apply H. exact Ix.
Qed.
Lemma ok_peers : forall r (L : list sub) a p, (forall s, In s L -> In s (a_subs c)) ->
  Forall (okact r) (map (fun s => Down (fwd_dest (entry s)) (Forwarded a p)) L).
Proof.
  intros r L a p H. apply Forall_forall. intros act I. apply in_map_iff in I. destruct I as [s [<- Is]].
  apply ok_peer. apply H. exact Is.
Qed.
Lemma ok_local : forall s a p, In s (a_subs c) -> okact (RB s) (Down DBcast (Forwarded a p)).
Proof. intros s a p I. apply (ok_fwd_any (RB s) DBcast a p (sb_bcast s) (sl s)); [reflexivity | apply KBcast; exact I]. Qed.

Lemma react_ok : forall r src d m, In r (all_rcvs c) -> okrecv m r -> Forall (okact r) (react c r src d m).
Proof.
  intros r src d m I [C|[p [s [-> ->]]]].
  - destruct m; try discriminate; destruct r as [s y|s|x].
    + repeat constructor.
    + unfold react. cbn [bbmd_confirmation snd bbmd_of b_upper b_addr b_bdt b_fdt up_if app].
      constructor; [exact Logic.I|]. apply Forall_app. split.
      * destruct d; [constructor|]. destruct (in_bdt _ _); [|constructor]. constructor; [|constructor].
        apply ok_local. apply (in_all_inv (RB s) I).
      * unfold fdt_of. apply ok_fdt. intros z Iz. apply fds_of_spec in Iz. apply Iz.
    + rewrite react_RF_fwd. destruct (addr_eqb src (snd x)); repeat constructor.
    + repeat constructor.
    + unfold react. cbn [bbmd_confirmation snd bbmd_of b_upper b_addr b_bdt b_fdt up_if app].
      constructor; [exact Logic.I|]. apply Forall_app. split.
      * fold (bbmd_of c s). rewrite to_peers_eq. apply ok_peers. intros s' Is'. apply (peersR_spec c W s s' Is').
      * unfold fdt_of. apply ok_fdt. intros z Iz. apply fds_of_spec in Iz. apply Iz.
    + unfold react, foreign_confirmation, foreign_of. cbn. constructor.
  - unfold react. cbn [bbmd_confirmation snd bbmd_of b_upper b_addr b_bdt b_fdt up_if app].
    constructor; [exact Logic.I|]. apply Forall_app. split.
    + unfold bdt_of. rewrite map_map. apply Forall_forall. intros act Ia. apply in_map_iff in Ia. destruct Ia as [s' [<- Is']].
      apply filter_In in Is'. destruct Is' as [Is' _]. cbn [entry bd_addr].
      destruct (addr_eqb (sb_bbmd s') (sb_bbmd s)); [apply ok_local; apply (in_all_inv (RB s) I) | apply ok_peer; exact Is'].
    + unfold fdt_of. rewrite filter_map_comm. apply ok_fdt. intros z Iz. apply filter_In in Iz. destruct Iz as [Iz _].
      apply fds_of_spec in Iz. apply Iz.
Qed.

(* ------------------------------------------------------------------ the induction *)
Definition is_down (a : action) : bool := match a with Down _ _ => true | _ => false end.
(* the Downs that `spread (S n)` leaves unprocessed: [] = the tree is complete within depth S n *)
Fixpoint pending (n : nat) (r : rcv) (acts : list action) : list action :=
  match n with
  | O => filter is_down acts
  | S k => flat_map (fun a => match a with
                              | Down d m => match out_addr r d with
                                            | None => []
                                            | Some dst => flat_map (fun rd => pending k (fst rd) (react c (fst rd) (rcv_addr r) (snd rd) m))
                                                                   (receivers c (rcv_addr r) dst)
                                            end
                              | _ => []
                              end) acts
  end.

Lemma pending_cons : forall n r a acts, pending n r (a :: acts) = pending n r [a] ++ pending n r acts.
Proof. intros [|n] r a acts; cbn [pending filter flat_map]; [destruct (is_down a); reflexivity | rewrite app_nil_r; reflexivity]. Qed.

Lemma flat_map_eq_nil {A B} (f : A -> list B) l : flat_map f l = [] -> forall x, In x l -> f x = [].
Proof.
  induction l as [|y l IH]; intros H x I; [contradiction|]. cbn [flat_map] in H. apply app_eq_nil in H.
  destruct H as [H1 H2]. destruct I as [<-|I]; [exact H1 | apply IH; assumption].
Qed.

Lemma Forall_flat_map {A B} (P : B -> Prop) (f : A -> list B) l :
  (forall x, In x l -> Forall P (f x)) -> Forall P (flat_map f l).
Proof.
  intros H. apply Forall_forall. intros y I. apply in_flat_map in I. destruct I as [x [Ix Iy]].
  apply (proj1 (Forall_forall _ _) (H x Ix) y Iy).
Qed.

Definition CT (K : nat) (r : rcv) (acts : list action) : list adelivery :=
  tags r acts ++ flat_map (upT K) (emi r acts).

Lemma spread_one_up : forall n r s d p acts,
  spread (S n) c r (Up s d p :: acts) = (r, s, d, p) :: spread (S n) c r acts.
Proof. reflexivity. Qed.

Theorem cascade_spread : forall n r acts, In r (all_rcvs c) -> Forall (okact r) acts -> pending n r acts = [] ->
  Forall (good (2 * n) WD) (emi r acts) /\ Permutation (CT (2 * n) r acts) (map dl (spread (S n) c r acts)).
Proof.
  induction n as [|k IHk]; intros r acts I.
  - induction acts as [|a acts IH]; intros OK P; [split; [constructor | apply Permutation_refl]|].
    inversion OK as [|? ? Oa Oacts]; subst. rewrite pending_cons in P. apply app_eq_nil in P. destruct P as [Pa Pacts].
    destruct (IH Oacts Pacts) as [G Pm]. destruct a as [s d p|d m|s m]; [| discriminate |].
    + split; [exact G|]. unfold CT in *. rewrite tags_cons, emi_cons, spread_one_up. cbn [map].
      change (emi r [Up s d p]) with (@nil dgram). cbn [app]. change (tags r [Up s d p]) with [(rcv_addr r, s, d, p)].
      cbn [app dl]. apply perm_skip. exact Pm.
    + split; [exact G|]. exact Pm.
  - induction acts as [|a acts IH]; intros OK P; [split; [constructor | apply Permutation_refl]|].
    inversion OK as [|? ? Oa Oacts]; subst. rewrite pending_cons in P. apply app_eq_nil in P. destruct P as [Pa Pacts].
    destruct (IH Oacts Pacts) as [G Pm]. destruct a as [s d p|d m|s m].
    + split; [exact G|]. unfold CT in *. rewrite tags_cons, emi_cons, spread_one_up. cbn [map].
      change (emi r [Up s d p]) with (@nil dgram). cbn [app]. change (tags r [Up s d p]) with [(rcv_addr r, s, d, p)].
      cbn [app dl]. apply perm_skip. exact Pm.
    + destruct Oa as [Hs [dst [j [Ho [Kd Hr]]]]].
      rewrite emi_cons, (emi_down r d m dst I Ho).
      set (RCV := receivers c (rcv_addr r) dst).
      cbn [pending flat_map] in Pa. rewrite Ho, app_nil_r in Pa. fold RCV in Pa.
      assert (forall rd, In rd RCV ->
                Forall (good (2 * k) WD) (emi (fst rd) (react c (fst rd) (rcv_addr r) (snd rd) m)) /\
                Permutation (CT (2 * k) (fst rd) (react c (fst rd) (rcv_addr r) (snd rd) m))
                            (map dl (spread (S k) c (fst rd) (react c (fst rd) (rcv_addr r) (snd rd) m)))) as SUB.
      { intros rd Ird. apply IHk.
        - apply (receivers_in _ _ _ Ird).
        - apply react_ok; [apply (receivers_in _ _ _ Ird) | apply Hr; exact Ird].
        - apply (flat_map_eq_nil _ _ Pa rd Ird). }
      set (gj := mkDgram j (rcv_addr r) dst m).
      destruct (tree_static (2 * k) gj Hs) as [TJ GJ].
      assert (routed WD gj = []) as RJ.
      { unfold gj. rewrite routed_WD. destruct (kdst_known _ _ Kd) as [Hh _]. rewrite Hh. cbn [filter]. rewrite Nat.eqb_refl. reflexivity. }
      assert (Dh gj = flat_map (fun rd => emi (fst rd) (react c (fst rd) (rcv_addr r) (snd rd) m)) RCV) as DJ.
      { unfold Dh, gj. cbn [g_src g_msg]. apply (arrive dst j (rcv_addr r) m _ (fun r' d' => emi r' (react c r' (rcv_addr r) d' m)) Kd). }
      assert (Uh gj = flat_map (fun rd => tags (fst rd) (react c (fst rd) (rcv_addr r) (snd rd) m)) RCV) as UJ.
      { unfold Uh, gj. cbn [g_src g_msg]. apply (arrive dst j (rcv_addr r) m _ (fun r' d' => tags r' (react c r' (rcv_addr r) d' m)) Kd). }
      rewrite RJ, DJ in GJ. rewrite RJ, DJ, UJ in TJ. cbn [app] in GJ, TJ.
      assert (good (S (2 * k)) WD gj) as GJ'.
      { apply GJ. apply Forall_flat_map. intros rd Ird. apply (SUB rd Ird). }
      destruct (hop (S (2 * k)) (lano r) j (rcv_addr r) dst m Hs (kdst_known _ _ Kd)
                    (nk_range _ _ _ _ NK r I) GJ') as [GG TT].
      replace (2 * S k)%nat with (S (S (2 * k))) by lia.
      split.
      * cbn [app]. constructor; [exact GG|].
        eapply Forall_impl; [|exact G]. intros g' Hg'. replace (2 * S k)%nat with (S (S (2 * k))) in Hg' by lia. exact Hg'.
      * unfold CT in *. rewrite tags_cons, emi_cons, (emi_down r d m dst I Ho). change (tags r [Down d m]) with (@nil adelivery). cbn [app flat_map].
        replace (2 * S k)%nat with (S (S (2 * k))) in Pm by lia.
        change (spread (S (S k)) c r (Down d m :: acts))
          with ((match out_addr r d with
                 | None => []
                 | Some dst => flat_map (fun rd => spread (S k) c (fst rd) (react c (fst rd) (rcv_addr r) (snd rd) m)) (receivers c (rcv_addr r) dst)
                 end) ++ spread (S (S k)) c r acts).
        rewrite Ho. fold RCV. rewrite map_app.
        eapply Permutation_trans; [apply Permutation_app_swap_app|]. apply Permutation_app; [|exact Pm].
        unfold gj in TJ. rewrite TT, TJ, flat_map_flat_map, map_flat_map.
        eapply Permutation_trans; [apply Permutation_sym; apply perm_flat_map_app|].
        apply perm_flat_map_ext. intros rd Ird. apply (SUB rd Ird).
    + split; [exact G|]. exact Pm.
Qed.

(* ------------------------------------------------------------------ the broadcast tree is complete within depth 4 *)
Lemma pending_app : forall n r l1 l2, pending n r (l1 ++ l2) = pending n r l1 ++ pending n r l2.
Proof. intros [|n] r l1 l2; cbn [pending]; [apply filter_app | apply flat_map_app]. Qed.
Lemma pending_up : forall n r s d p, pending n r [Up s d p] = [].
Proof. intros [|n]; reflexivity. Qed.
Lemma pending_down : forall n r d m dst, out_addr r d = Some dst ->
  pending (S n) r [Down d m] =
  flat_map (fun rd => pending n (fst rd) (react c (fst rd) (rcv_addr r) (snd rd) m)) (receivers c (rcv_addr r) dst).
Proof. intros n r d m dst H. cbn [pending flat_map]. rewrite H. apply app_nil_r. Qed.

Lemma pend_fdt : forall s0 k a p L, In s0 (a_subs c) ->
  (forall x, In x L -> In x (a_fds c) /\ snd x = sb_bbmd s0) ->
  pending (S k) (RB s0) (to_fdt (map (fun x => mkFdte (fst x) 30 35) L) (Forwarded a p)) = [].
Proof.
  intros s0 k a p L I0. induction L as [|x L IH]; intros H; [reflexivity|].
  unfold to_fdt. cbn [map fd_addr]. fold (to_fdt (map (fun x => mkFdte (fst x) 30 35) L) (Forwarded a p)).
  rewrite pending_cons. destruct (H x (or_introl eq_refl)) as [Ix Hx].
  rewrite (pending_down _ _ _ _ (fst x)) by reflexivity.
  change (fst x) with (rcv_addr (RF x)) at 1.
  rewrite (unicast_rcv c W (RF x)); [| apply (in_all_RF c W); exact Ix | apply (RF_not_RB c W); assumption].
  cbn [flat_map fst snd]. rewrite app_nil_r, react_RF_fwd. cbn [rcv_addr]. rewrite Hx, addr_eqb_refl, pending_up.
  cbn [app]. apply IH. intros y Iy. apply H. right. exact Iy.
Qed.

Lemma pend_local : forall s0 k a p, In s0 (a_subs c) ->
  pending (S k) (RB s0) [Down DBcast (Forwarded a p)] = [].
Proof.
  intros s0 k a p I. rewrite (pending_down _ _ _ _ (sb_bcast s0)) by reflexivity.
  cbn [rcv_addr]. rewrite (bcast_rcv c W s0 _ I), (members_not_bbmd c W s0 I).
  apply flat_map_nil. intros rd Ird. apply in_map_iff in Ird. destruct Ird as [r [<- Ir]].
  apply in_map_iff in Ir. destruct Ir as [y [<- _]]. cbn [fst snd]. apply pending_up.
Qed.

Lemma pend_blk : forall s1 s k a p, In s1 (a_subs c) -> In s (a_subs c) -> s <> s1 ->
  pending (S (S k)) (RB s1) [Down (fwd_dest (entry s)) (Forwarded a p)] = [].
Proof.
  intros s1 s k a p I1 I N. rewrite fwd_dest_entry, (pending_down _ _ _ _ (fwd_addr s)) by reflexivity.
  cbn [rcv_addr]. destruct (twohop s) eqn:T.
  - apply addr_eqb_eq in T. rewrite T. change (sb_bbmd s) with (rcv_addr (RB s)) at 1.
    rewrite (unicast_rcv c W (RB s)); [| apply (in_all_RB c W); exact I |].
    2:{ cbn [rcv_addr]. intros E. apply N. apply (bbmd_inj c W); assumption. }
    cbn [flat_map fst snd rcv_addr]. rewrite app_nil_r.
    unfold react. cbn [bbmd_confirmation snd bbmd_of b_upper b_addr b_bdt b_fdt up_if app].
    rewrite pending_cons, pending_up, pending_app. cbn [app].
    assert (pending (S k) (RB s) (if in_bdt (sb_bbmd s) (bdt_of c (sb_bbmd s)) then [Down DBcast (Forwarded a p)] else []) = []) as ->.
    { destruct (in_bdt _ _); [apply pend_local; exact I | reflexivity]. }
    cbn [app]. unfold fdt_of. apply pend_fdt; [exact I|]. intros x Ix. apply fds_of_spec. exact Ix.
  - destruct (wf_entry c W s I) as [E|E]; [unfold twohop in T; rewrite E, addr_eqb_refl in T; discriminate|].
    rewrite E, (bcast_rcv c W s _ I). apply flat_map_nil. intros rd Ird. apply in_map_iff in Ird.
    destruct Ird as [r [<- Ir]]. apply filter_In in Ir. destruct Ir as [[<-|Ir] _]; cbn [fst snd].
    + unfold react. cbn [bbmd_confirmation snd bbmd_of b_upper b_addr b_bdt b_fdt up_if app].
      rewrite pending_cons, pending_up. cbn [app]. unfold fdt_of. apply pend_fdt; [exact I|]. intros x Ix. apply fds_of_spec. exact Ix.
    + apply in_map_iff in Ir. destruct Ir as [y [<- _]]. apply pending_up.
Qed.

Lemma pend_blks : forall s1 k a p L, In s1 (a_subs c) -> (forall s, In s L -> In s (a_subs c) /\ s <> s1) ->
  pending (S (S k)) (RB s1) (map (fun s => Down (fwd_dest (entry s)) (Forwarded a p)) L) = [].
Proof.
  intros s1 k a p L I1. induction L as [|s L IH]; intros H; [reflexivity|]. cbn [map]. rewrite pending_cons.
  destruct (H s (or_introl eq_refl)) as [Is Ns]. rewrite (pend_blk s1 s k a p I1 Is Ns). cbn [app].
  apply IH. intros s' I'. apply H. right. exact I'.
Qed.

Lemma pend_dist : forall s0 k a p K, In s0 (a_subs c) -> (forall s, In s K -> In s (a_subs c)) ->
  pending (S (S k)) (RB s0)
    (map (fun e => if addr_eqb (bd_addr e) (sb_bbmd s0) then Down DBcast (Forwarded a p)
                   else Down (fwd_dest e) (Forwarded a p)) (map entry K)) = [].
Proof.
  intros s0 k a p K I0. induction K as [|s K IH]; intros H; [reflexivity|].
  cbn [map entry bd_addr]. rewrite pending_cons.
  assert (pending (S (S k)) (RB s0) [if addr_eqb (sb_bbmd s) (sb_bbmd s0) then Down DBcast (Forwarded a p)
                                     else Down (fwd_dest (entry s)) (Forwarded a p)] = []) as ->.
  { destruct (addr_eqb (sb_bbmd s) (sb_bbmd s0)) eqn:E; [apply pend_local; exact I0|].
    apply pend_blk; [exact I0 | apply H; left; reflexivity |]. intros ->. rewrite addr_eqb_refl in E. discriminate. }
  cbn [app]. apply IH. intros s' I'. apply H. right. exact I'.
Qed.

Lemma pend_origin : forall o n p, In o (all_rcvs c) -> pending (3 + n) o (originate c o p) = [].
Proof.
  intros o n p Io. pose proof (in_all_inv o Io) as J. change (3 + n)%nat with (S (S (S n))).
  destruct o as [s0 x|s0|x0]; unfold originate.
  - destruct J as [I Ix]. unfold simple_indication.
    rewrite (pending_down _ _ _ _ (sb_bcast s0)) by reflexivity. cbn [rcv_addr].
    rewrite (bcast_rcv c W s0 _ I). apply flat_map_nil. intros rd Ird. apply in_map_iff in Ird.
    destruct Ird as [r [<- Ir]]. apply filter_In in Ir. destruct Ir as [[<-|Ir] _]; cbn [fst snd].
    + unfold react. cbn [bbmd_confirmation snd bbmd_of b_upper b_addr b_bdt b_fdt up_if app].
      fold (bbmd_of c s0). rewrite to_peers_eq, pending_cons, pending_up, pending_app. cbn [app].
      rewrite (pend_blks s0 n x p _ I (peersR_spec c W s0)). cbn [app].
      unfold fdt_of. apply pend_fdt; [exact I|]. intros y Iy. apply fds_of_spec. exact Iy.
    + apply in_map_iff in Ir. destruct Ir as [y [<- _]]. apply pending_up.
  - unfold bbmd_indication. cbn [bbmd_of b_addr b_fdt]. fold (bbmd_of c s0). rewrite to_peers_eq.
    rewrite pending_cons, pending_app.
    assert (pending (S (S (S n))) (RB s0) [Down DBcast (OrigBroadcast p)] = []) as ->.
    { rewrite (pending_down _ _ _ _ (sb_bcast s0)) by reflexivity. cbn [rcv_addr].
      rewrite (bcast_rcv c W s0 _ J), (members_not_bbmd c W s0 J).
      apply flat_map_nil. intros rd Ird. apply in_map_iff in Ird. destruct Ird as [r [<- Ir]].
      apply in_map_iff in Ir. destruct Ir as [y [<- _]]. cbn [fst snd]. apply pending_up. }
    rewrite (pend_blks s0 (S n) (sb_bbmd s0) p _ J (peersR_spec c W s0)). cbn [app].
    unfold fdt_of. apply pend_fdt; [exact J|]. intros y Iy. apply fds_of_spec. exact Iy.
  - destruct (wf_home c W x0 J) as [s0 [I Hx]]. unfold foreign_indication, foreign_of. cbn [f_status f_bbmd Z.eqb negb].
    rewrite (pending_down _ _ _ _ (snd x0)) by reflexivity. cbn [rcv_addr]. rewrite Hx.
    change (sb_bbmd s0) with (rcv_addr (RB s0)) at 1.
    rewrite (unicast_rcv c W (RB s0)); [| apply (in_all_RB c W); exact I |].
    2:{ cbn [rcv_addr]. intros E. apply (RF_not_RB c W x0 s0 J I). symmetry. exact E. }
    cbn [flat_map fst snd rcv_addr]. rewrite app_nil_r.
    unfold react. cbn [bbmd_confirmation snd bbmd_of b_upper b_addr b_bdt b_fdt up_if app].
    rewrite pending_cons, pending_up, pending_app. cbn [app].
    unfold bdt_of. rewrite (pend_dist s0 n (fst x0) p _ I); [|intros s Is; apply filter_In in Is; apply Is].
    cbn [app]. unfold fdt_of. rewrite filter_map_comm. cbn [fd_addr].
    apply pend_fdt; [exact I|]. intros y Iy. apply filter_In in Iy. apply fds_of_spec. apply Iy.
Qed.

(* ------------------------------------------------------------------ the theorem *)
Lemma orig_ok : forall o p, In o (all_rcvs c) -> Forall (okact o) (originate c o p) /\ tags o (originate c o p) = [].
Proof.
  intros o p Io. pose proof (in_all_inv o Io) as J. destruct o as [s0 x|s0|x0]; unfold originate.
  - destruct J as [I Ix]. split; [|reflexivity]. constructor; [|constructor].
    split; [reflexivity|]. exists (sb_bcast s0), (sl s0). repeat split; [apply KBcast; exact I|].
    intros rd _. left. reflexivity.
  - unfold bbmd_indication. cbn [bbmd_of b_addr b_fdt]. fold (bbmd_of c s0). rewrite to_peers_eq. split.
    + constructor.
      * split; [reflexivity|]. exists (sb_bcast s0), (sl s0). repeat split; [apply KBcast; exact J|].
        intros rd _. left. reflexivity.
      * apply Forall_app. split; [apply ok_peers; intros s Is; apply (peersR_spec c W s0 s Is)|].
        unfold fdt_of. apply ok_fdt. intros z Iz. apply fds_of_spec in Iz. apply Iz.
    + unfold tags. cbn [flat_map app]. rewrite flat_map_app. unfold to_fdt. rewrite !flat_map_map.
      rewrite !flat_map_nil; [reflexivity | intros; reflexivity | intros; reflexivity].
  - destruct (wf_home c W x0 J) as [s0 [I Hx]]. unfold foreign_indication, foreign_of. cbn [f_status f_bbmd Z.eqb negb].
    split; [|reflexivity]. constructor; [|constructor]. split; [reflexivity|].
    exists (rcv_addr (RB s0)), (lano (RB s0)). repeat split.
    + cbn [out_addr rcv_addr]. rewrite Hx. reflexivity.
    + apply KNode. apply (in_all_RB c W). exact I.
    + intros rd Ird. right. exists p, s0. split; [reflexivity|].
      assert (rcv_addr (RB s0) <> rcv_addr (RF x0)) as Ne.
      { cbn [rcv_addr]. intros E. apply (RF_not_RB c W x0 s0 J I). symmetry. exact E. }
      rewrite (unicast_rcv c W (RB s0) (rcv_addr (RF x0)) (in_all_RB c W s0 I) Ne) in Ird.
      destruct Ird as [<-|[]]. reflexivity.
Qed.

Lemma up_addrs_perm : forall w a b, Permutation a b -> Permutation (up_addrs w a) (up_addrs w b).
Proof. intros w a b H. unfold up_addrs. apply Permutation_flat_map. exact H. Qed.

(* Node o broadcasts p: the datagrams it emits, run through the FIFO cascade of IpNet.v with any
   fuel exceeding the size of the delivery forest, leave the world unchanged and deliver exactly
   BipDeliv.broadcast n c o p, address by address. *)
Theorem cascade_equals_delivery : forall o n p fuel, In o (all_rcvs c) ->
  (list_sum (map (tsize (2 * (3 + n)) WD) (emi o (originate c o p))) < fuel)%nat ->
  exists log, cascade fuel WD (emi o (originate c o p)) [] = Ok (WD, log) /\
              Permutation (up_addrs WD log) (map dl (broadcast n c o p)).
Proof.
  intros o n p fuel Io Hf. destruct (orig_ok o p Io) as [OK TG].
  destruct (cascade_spread (3 + n) o (originate c o p) Io OK (pend_origin o n p Io)) as [G P].
  destruct (cascade_is_forest (2 * (3 + n)) WD fuel _ [] G Hf) as [log [C PL]].
  exists log. split; [exact C|]. eapply Permutation_trans; [apply up_addrs_perm; exact PL|].
  cbn [app]. rewrite up_addrs_flat_map. unfold CT in P. rewrite TG in P. cbn [app] in P. exact P.
Qed.

End Net.

(* ------------------------------------------------------------------ exactly-once for the cascade model itself *)
Definition a_rcv (d : adelivery) : addr := fst (fst (fst d)).

Theorem cascade_broadcast_once : forall c lans sl fl now o n p fuel,
  wf c -> net_ok c lans sl fl -> In o (all_rcvs c) ->
  let w := world_of c lans sl fl now in
  let q := emitted c lans sl fl now o (originate c o p) in
  (list_sum (map (tsize (2 * (3 + n)) w) q) < fuel)%nat ->
  exists log, cascade fuel w q [] = Ok (w, log) /\
    let D := up_addrs w log in
    (forall d, In d D -> d = (a_rcv d, rcv_addr o, DBcast, p)) /\
    NoDup (map a_rcv D) /\
    ~ In (rcv_addr o) (map a_rcv D) /\
    (full c -> forall a, In a (all_addrs c) -> a <> rcv_addr o -> In a (map a_rcv D)).
Proof.
  intros c lans sl fl now o n p fuel W NK Io w q Hf.
  destruct (cascade_equals_delivery c lans sl fl now W NK o n p fuel Io Hf) as [log [C P]].
  exists log. split; [exact C|]. cbv zeta.
  destruct (broadcast_once_any_size c o n p W Io) as [L [N [E Cov]]].
  assert (Permutation (map a_rcv (up_addrs w log)) (map d_addr (broadcast n c o p))) as PA.
  { eapply Permutation_trans; [apply Permutation_map; exact P|]. rewrite map_map.
    assert (forall l : list delivery, map (fun x => a_rcv (dl x)) l = map d_addr l) as ->; [|apply Permutation_refl].
    intros l. apply map_ext. intros [[[r s] dd] pp]. reflexivity. }
  repeat split.
  - intros d Id. apply (Permutation_in _ P) in Id. apply in_map_iff in Id. destruct Id as [x [<- Ix]].
    rewrite (L x Ix). reflexivity.
  - apply (Permutation_NoDup (Permutation_sym PA)). exact N.
  - intros H. apply E. apply (Permutation_in _ PA). exact H.
  - intros F a Ia Na. apply (Permutation_in _ (Permutation_sym PA)). apply Cov; assumption.
Qed.
