(* Prim.v — model of the thirteen primitive (Atomic) classes of py34/bacpypes/primitivedata.py:
   encode(tag) / decode(tag) of Null, Boolean, Unsigned, Integer, Real, Double, OctetString,
   CharacterString, BitString, Enumerated, Date, Time, ObjectIdentifier (lines 540-1860), the
   constructor domain checks (Unsigned.is_valid, Enumerated.__init__, ObjectIdentifier.set_tuple)
   and Tag.app_to_context / Tag.context_to_app (lines 180-200).
   Python ints are Z, octets are N, floats are their IEEE bit patterns (N).
   No proofs here (PrimFacts.v, PrimFloat.v). *)
From Coq Require Export String Ascii.
From Bac Require Export Base Tag.
Open Scope N_scope.

(* ---------- enumeration tables (gen/Enums.v), semantics of expand_enumerations ----------
   The list is in assignment order: a later entry overwrites an earlier one, in both directions
   (xlateTable[name] = value; xlateTable[value] = name). *)
Definition table := list (string * N).

Fixpoint tbl_num (tb : table) (s : string) : option N :=
  match tb with
  | [] => None
  | (k, v) :: r =>
      match tbl_num r s with
      | Some x => Some x
      | None => if String.eqb k s then Some v else None
      end
  end.

Fixpoint tbl_name (tb : table) (n : N) : option string :=
  match tb with
  | [] => None
  | (k, v) :: r =>
      match tbl_name r n with
      | Some x => Some x
      | None => if v =? n then Some k else None
      end
  end.

Definition tbl_name_z (tb : table) (z : Z) : option string :=
  if (z <? 0)%Z then None else tbl_name tb (Z.to_N z).

(* value of an Enumerated / the type half of an ObjectIdentifier: a name or a bare int *)
Inductive eval : Set := EName (s : string) | ENum (z : Z).

Inductive prim : Set :=
| PNull
| PBool (b : bool)
| PUnsigned (z : Z)
| PInteger (z : Z)
| PReal (d : N)                      (* binary64 pattern of self.value (a Python float) *)
| PDouble (d : N)                    (* binary64 pattern *)
| POctets (l : list N)
| PChars (enc : N) (l : list N)      (* strEncoding, strValue *)
| PBits (l : list bool)
| PEnum (v : eval)
| PDate (y m d w : Z)
| PTime (h m s c : Z)
| PObjId (t : eval) (i : Z).

(* Tag.xxxAppTag *)
Definition kind (v : prim) : N :=
  match v with
  | PNull => 0 | PBool _ => 1 | PUnsigned _ => 2 | PInteger _ => 3 | PReal _ => 4
  | PDouble _ => 5 | POctets _ => 6 | PChars _ _ => 7 | PBits _ => 8 | PEnum _ => 9
  | PDate _ _ _ _ => 10 | PTime _ _ _ _ => 11 | PObjId _ _ => 12
  end.

(* ---------- integers ---------- *)
(* struct.pack('>L', v) *)
Definition pack_L (z : Z) : res (list N) :=
  if (0 <=? z)%Z && (z <? 4294967296)%Z then Ok (be4 (Z.to_N z)) else Err StructErr.

(* while (len(data) > 1) and (data[0] == 0): del data[0] *)
Fixpoint strip0 (l : list N) : list N :=
  match l with
  | 0 :: ((_ :: _) as r) => strip0 r
  | _ => l
  end.

(* Integer.encode's two sign-aware loops *)
Fixpoint strip_neg (l : list N) : list N :=
  match l with
  | a :: ((b :: _) as r) => if negb (a =? 255) then l else if b <? 128 then l else strip_neg r
  | _ => l
  end.
Fixpoint strip_pos (l : list N) : list N :=
  match l with
  | a :: ((b :: _) as r) => if negb (a =? 0) then l else if 128 <=? b then l else strip_pos r
  | _ => l
  end.

Definition enc_unsigned (z : Z) : res (list N) := do d <- pack_L z; Ok (strip0 d).

(* Integer.encode, with the range check of commit "fix: Integer.encode refuses values outside 32 bits" *)
Definition enc_integer (z : Z) : res (list N) :=
  if (z <? -2147483648)%Z || (2147483647 <? z)%Z then Err ValueErr
  else
    let d := be4 (Z.to_N (z mod 4294967296)) in          (* self.value & 0xFFFFFFFF *)
    Ok (if (z <? 0)%Z then strip_neg d else strip_pos d).

(* for c in tagData: rslt = (rslt << 8) + c *)
Definition unbe (l : list N) : N := fold_left (fun a c => a * 256 + c) l 0.

Definition dec_integer (l : list N) : res Z :=
  match l with
  | [] => Err InvalidTag
  | b :: r =>
      let r0 := if 128 <=? b then (Z.of_N b - 256)%Z else Z.of_N b in    (* (-1 << 8) | b *)
      Ok (fold_left (fun a c => (a * 256 + Z.of_N c)%Z) r r0)
  end.

(* ---------- IEEE 754: struct.pack('>f', x) / struct.unpack('>f') on bit patterns ---------- *)
Definition be8 (n : N) : list N := be4 (n / 4294967296) ++ be4 (n mod 4294967296).

(* (float)x of C on the binary64 pattern d: round to nearest even, OverflowError when a finite
   double becomes infinite; NaNs are quietened and keep their top 22 payload bits (x86/ARM) *)
Definition round32 (d : N) : res N :=
  let s := d / 2^63 in
  let e := (d / 2^52) mod 2048 in
  let m := d mod 2^52 in
  if e =? 2047 then
    if m =? 0 then Ok (s * 2^31 + 2139095040)
    else Ok (s * 2^31 + 2139095040 + 4194304 + (m / 2^29) mod 4194304)
  else if e =? 0 then Ok (s * 2^31)
  else
    let M := 2^52 + m in
    let sh := if 897 <=? e then 29 else 926 - e in
    let base := if 897 <=? e then (e - 897) * 2^23 else 0 in
    let q := M / 2^sh in
    let r := M mod 2^sh in
    let half := 2^(sh - 1) in
    let q' := if (half <? r) || ((r =? half) && N.odd q) then q + 1 else q in
    let p := base + q' in
    if 2139095040 <=? p then Err OverflowErr else Ok (s * 2^31 + p).

(* (double)y of C on the binary32 pattern p: exact; NaNs are quietened *)
Definition widen32 (p : N) : N :=
  let s := p / 2^31 in
  let e := (p / 2^23) mod 256 in
  let m := p mod 2^23 in
  if e =? 255 then
    s * 2^63 + 2047 * 2^52 + (if m =? 0 then 0 else 2^51 + (m mod 2^22) * 2^29)
  else if e =? 0 then
    if m =? 0 then s * 2^63
    else let k := N.log2 m in s * 2^63 + (k + 874) * 2^52 + (m - 2^k) * 2^(52 - k)
  else s * 2^63 + (e + 896) * 2^52 + m * 2^29.

Definition enc_real (d : N) : res (list N) := do p <- round32 d; Ok (be4 p).
Definition enc_double (d : N) : res (list N) := Ok (be8 d).      (* struct.pack('>d'): the 8 octets of the pattern (d < 2^64) *)

(* ---------- character strings: the decode step fails only inside the strict codecs ---------- *)
Fixpoint utf32be_ok (l : list N) : bool :=
  match l with
  | [] => true
  | a :: b :: c :: d :: r =>
      let cp := ((a * 256 + b) * 256 + c) * 256 + d in
      (cp <? 1114112) && negb ((55296 <=? cp) && (cp <=? 57343)) && utf32be_ok r
  | _ => false
  end.
Fixpoint utf16be_ok (pending : bool) (l : list N) : bool :=
  match l with
  | [] => negb pending
  | a :: b :: r =>
      let u := a * 256 + b in
      let hi := (55296 <=? u) && (u <=? 56319) in
      let lo := (56320 <=? u) && (u <=? 57343) in
      if pending then lo && utf16be_ok false r
      else if hi then utf16be_ok true r
      else negb lo && utf16be_ok false r
  | _ => false
  end.

(* ---------- bit strings ---------- *)
Definition b2n (b : bool) : N := if b then 1 else 0.
Definition oct (b7 b6 b5 b4 b3 b2 b1 b0 : bool) : N :=
  128 * b2n b7 + 64 * b2n b6 + 32 * b2n b5 + 16 * b2n b4 + 8 * b2n b3 + 4 * b2n b2 + 2 * b2n b1 + b2n b0.
(* bits = value + [0]*unused; one octet per 8 bits, bit j shifted by 7-j *)
Fixpoint pack_bits (l : list bool) : list N :=
  match l with
  | [] => []
  | b7 :: b6 :: b5 :: b4 :: b3 :: b2 :: b1 :: b0 :: r => oct b7 b6 b5 b4 b3 b2 b1 b0 :: pack_bits r
  | _ => [oct (nth 0 l false) (nth 1 l false) (nth 2 l false) (nth 3 l false)
              (nth 4 l false) (nth 5 l false) (nth 6 l false) (nth 7 l false)]
  end.
Definition byte_bits (x : N) : list bool :=
  [N.testbit x 7; N.testbit x 6; N.testbit x 5; N.testbit x 4;
   N.testbit x 3; N.testbit x 2; N.testbit x 1; N.testbit x 0].
Definition unused_bits (l : list bool) : N :=
  let used := lenN l mod 8 in if used =? 0 then 0 else 8 - used.
Definition enc_bits (l : list bool) : list N := unused_bits l :: pack_bits l.
Definition dec_bits (d : list N) : res (list bool) :=
  match d with
  | [] => Err InvalidTag
  | unused :: r =>
      let bits := flat_map byte_bits r in
      Ok (if unused =? 0 then bits else firstn (length bits - N.to_nat unused) bits)   (* data[:-unused] *)
  end.

(* ---------- dates and times: bytearray(self.value) ---------- *)
Definition octet_of (z : Z) : res N :=
  if (0 <=? z)%Z && (z <? 256)%Z then Ok (Z.to_N z) else Err ValueErr.
Definition enc_tuple4 (a b c d : Z) : res (list N) :=
  do a' <- octet_of a; do b' <- octet_of b; do c' <- octet_of c; do d' <- octet_of d;
  Ok [a'; b'; c'; d'].

(* ---------- enumerations and object identifiers ---------- *)
(* Enumerated.encode: int as is, name through _xlate_table[...] (KeyError) *)
Definition eval_num (tb : table) (v : eval) : res Z :=
  match v with
  | ENum z => Ok z
  | EName s => match tbl_num tb s with Some n => Ok (Z.of_N n) | None => Err KeyErr end
  end.
Definition enc_enum (tb : table) (v : eval) : res (list N) :=
  do z <- eval_num tb v; do d <- pack_L z; Ok (strip0 d).
(* rslt = self._xlate_table.get(rslt, rslt) *)
Definition eval_of_num (tb : table) (n : N) : eval :=
  match tbl_name tb n with Some s => EName s | None => ENum (Z.of_N n) end.

(* ObjectIdentifier.get_tuple / get_long: a name goes through objectTypeClass()[name], which is
   _xlate_table.get(name) — None for an unknown name, and None << 22 is a TypeError *)
Definition objid_word (tb : table) (t : eval) (i : Z) : res Z :=
  do tn <- match t with
           | ENum z => Ok z
           | EName s => match tbl_num tb s with Some n => Ok (Z.of_N n) | None => Err TypeErr end
           end;
  Ok (tn * 4194304 + i)%Z.
Definition enc_objid (tb : table) (t : eval) (i : Z) : res (list N) :=
  do w <- objid_word tb t i; pack_L w.
(* set_long: type = (value >> 22) & 0x3FF, pretty name if known; instance = value & 0x3FFFFF *)
Definition objid_of_word (tb : table) (w : N) : prim :=
  PObjId (eval_of_num tb ((w / 4194304) mod 1024)) (Z.of_N (w mod 4194304)).

(* ---------- encode(tag): the application tag of a value ---------- *)
Definition app_tag (k : N) (d : list N) : tag := mkTag 0 k (lenN d) d.      (* set_app_data *)

Definition enc_app (tb : table) (v : prim) : res tag :=
  match v with
  | PNull => Ok (app_tag 0 [])
  | PBool b => Ok (mkTag 0 1 (b2n b) [])
  | PUnsigned z => do d <- enc_unsigned z; Ok (app_tag 2 d)
  | PInteger z => do d <- enc_integer z; Ok (app_tag 3 d)
  | PReal x => do d <- enc_real x; Ok (app_tag 4 d)
  | PDouble x => do d <- enc_double x; Ok (app_tag 5 d)
  | POctets l => Ok (app_tag 6 l)
  | PChars e l => do e' <- put e; Ok (app_tag 7 (e' ++ l))               (* bytes([strEncoding]) + strValue *)
  | PBits l => Ok (app_tag 8 (enc_bits l))
  | PEnum x => do d <- enc_enum tb x; Ok (app_tag 9 d)
  | PDate y m d w => do l <- enc_tuple4 y m d w; Ok (app_tag 10 l)
  | PTime h m s c => do l <- enc_tuple4 h m s c; Ok (app_tag 11 l)
  | PObjId t i => do d <- enc_objid tb t i; Ok (app_tag 12 d)
  end.

(* ---------- decode(tag) of the class with application tag number k ---------- *)
Definition dec_app (tb : table) (k : N) (t : tag) : res prim :=
  if negb (cls t =? 0) || negb (num t =? k) then Err InvalidTag
  else
    let d := data t in
    match k with
    | 0 => if lenN d =? 0 then Ok PNull else Err InvalidTag
    | 1 => if 1 <? lvt t then Err InvalidTag else Ok (PBool (negb (lvt t =? 0)))
    | 2 => if lenN d =? 0 then Err InvalidTag else Ok (PUnsigned (Z.of_N (unbe d)))
    | 3 => do z <- dec_integer d; Ok (PInteger z)
    | 4 => if lenN d =? 4 then Ok (PReal (widen32 (unbe d))) else Err InvalidTag
    | 5 => if lenN d =? 8 then Ok (PDouble (unbe d)) else Err InvalidTag
    | 6 => Ok (POctets d)
    | 7 => match d with
           | [] => Err InvalidTag
           | e :: l =>
               if (e =? 3) && negb (utf32be_ok l) then Err UnicodeErr
               else if (e =? 4) && negb (utf16be_ok false l) then Err UnicodeErr
               else Ok (PChars e l)
           end
    | 8 => do b <- dec_bits d; Ok (PBits b)
    | 9 => if lenN d =? 0 then Err InvalidTag else Ok (PEnum (eval_of_num tb (unbe d)))
    | 10 => match d with
            | [a; b; c; e] => Ok (PDate (Z.of_N a) (Z.of_N b) (Z.of_N c) (Z.of_N e))
            | _ => Err InvalidTag end
    | 11 => match d with
            | [a; b; c; e] => Ok (PTime (Z.of_N a) (Z.of_N b) (Z.of_N c) (Z.of_N e))
            | _ => Err InvalidTag end
    | 12 => if lenN d =? 4 then Ok (objid_of_word tb (unbe d)) else Err InvalidTag
    | _ => Err OtherErr
    end.

(* ---------- Tag.app_to_context / Tag.context_to_app ---------- *)
Definition app_to_ctx (c : N) (t : tag) : res tag :=
  if negb (cls t =? 0) then Err ValueErr
  else if num t =? 1 then
    do d <- put (lvt t);                           (* bytearray([self.tagLVT]) *)
    Ok (mkTag 1 c (lenN d) d)
  else Ok (mkTag 1 c (lenN (data t)) (data t)).

Definition ctx_to_app (k : N) (t : tag) : res tag :=
  if negb (cls t =? 1) then Err ValueErr
  else if k =? 1 then
    match data t with
    | [b] => Ok (mkTag 0 1 b [])                   (* struct.unpack('B', tagData)[0] *)
    | _ => Err StructErr
    end
  else Ok (mkTag 0 k (lenN (data t)) (data t)).

(* the whole path a value takes to the wire and back *)
Definition enc_octets_app (tb : table) (v : prim) : res (list N) :=
  do t <- enc_app tb v; enc_tag t.
Definition enc_octets_ctx (tb : table) (c : N) (v : prim) : res (list N) :=
  do t <- enc_app tb v; do x <- app_to_ctx c t; enc_tag x.
Definition dec_octets_app (tb : table) (k : N) (bs : list N) : res (prim * list N) :=
  do (t, r) <- dec_tag bs; do v <- dec_app tb k t; Ok (v, r).
Definition dec_octets_ctx (tb : table) (k : N) (bs : list N) : res (prim * list N) :=
  do (t, r) <- dec_tag bs; do a <- ctx_to_app k t; do v <- dec_app tb k a; Ok (v, r).

(* ---------- constructor domain checks ---------- *)
(* Unsigned(arg: int) with the class limits (_low_limit, _high_limit) *)
Definition unsigned_ctor (lo : Z) (hi : option Z) (z : Z) : res prim :=
  if (z <? lo)%Z then Err ValueErr
  else match hi with
       | Some h => if (h <? z)%Z then Err ValueErr else Ok (PUnsigned z)
       | None => Ok (PUnsigned z)
       end.
(* Enumerated(arg: int | str) *)
Definition enum_ctor (tb : table) (a : eval) : res prim :=
  match a with
  | ENum z => if (z <? 0)%Z then Err ValueErr
              else Ok (PEnum (match tbl_name_z tb z with Some s => EName s | None => ENum z end))
  | EName s => match tbl_num tb s with Some _ => Ok (PEnum (EName s)) | None => Err ValueErr end
  end.
(* ObjectIdentifier.set_tuple(objType, objInstance) *)
Definition objid_ctor (tb : table) (maxi : Z) (t : eval) (i : Z) : res prim :=
  do t' <- match t with
           | ENum z => Ok (match tbl_name_z tb z with Some s => EName s | None => ENum z end)
           | EName s => match tbl_num tb s with Some _ => Ok (EName s) | None => Err ValueErr end
           end;
  if (i <? 0)%Z || (maxi <? i)%Z then Err ValueErr else Ok (PObjId t' i).

(* ---------- canonical outputs for the correspondence check ---------- *)
Definition canon_str (s : string) : list Z :=
  let l := list_ascii_of_string s in zlen l :: map (fun a => Z.of_N (N_of_ascii a)) l.
Definition canon_eval (v : eval) : list Z :=
  match v with ENum z => [0%Z; z] | EName s => 1%Z :: canon_str s end.
Definition canon_prim (v : prim) : list Z :=
  zN (kind v) ::
  match v with
  | PNull => []
  | PBool b => [zb b]
  | PUnsigned z | PInteger z => [z]
  | PReal d | PDouble d => [zN d]
  | POctets l => zlen l :: zs l
  | PChars e l => zN e :: zlen l :: zs l
  | PBits l => zlen l :: map zb l
  | PEnum x => canon_eval x
  | PDate a b c d | PTime a b c d => [a; b; c; d]
  | PObjId t i => canon_eval t ++ [i]
  end.
Definition canon_prim_rest (p : prim * list N) : list Z := canon_prim (fst p) ++ zlen (snd p) :: zs (snd p).
