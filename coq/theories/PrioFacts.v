(* PrioFacts.v — lemmas about the commandable model Prio.v (property C17). *)
From Coq Require Import ZifyBool ZifyN ZifyNat.
From Bac Require Import Base Prio.
Ltac Zify.zify_post_hook ::= Z.to_euclidean_division_equations.
Open Scope Z_scope.

(* ---------- winner / set_nth ---------- *)

Lemma first_some_set_same : forall sl k w d,
  winner sl d = w -> winner (set_nth k (Some w) sl) d = w.
Proof.
  unfold winner. induction sl as [|x r IH]; intros k w d H; cbn [set_nth first_some] in *.
  - destruct k; exact H.
  - destruct k as [|k]; cbn [first_some].
    + reflexivity.
    + destruct x as [y|]; cbn [first_some] in *.
      * exact H.
      * apply IH. exact H.
Qed.

Lemma set_nth_length : forall sl k x, length (set_nth k x sl) = length sl.
Proof. induction sl as [|y r IH]; intros [|k] x; cbn [set_nth length]; auto. Qed.

Lemma set_nth_same : forall sl k x, (k < length sl)%nat -> nth_error (set_nth k x sl) k = Some x.
Proof.
  induction sl as [|y r IH]; intros [|k] x H; cbn [set_nth nth_error length] in *; try lia.
  - reflexivity.
  - apply IH. lia.
Qed.

Lemma set_nth_other : forall sl k j x, j <> k -> nth_error (set_nth k x sl) j = nth_error sl j.
Proof.
  induction sl as [|y r IH]; intros [|k] [|j] x H; cbn [set_nth nth_error]; try reflexivity; try congruence.
  apply IH. congruence.
Qed.

(* the winner is the value of the lowest-numbered non-null slot, or the default when all are null *)
Lemma first_some_spec : forall sl v,
  first_some sl = Some v <->
  exists k, nth_error sl k = Some (Some v) /\ forall j, (j < k)%nat -> nth_error sl j = Some None.
Proof.
  induction sl as [|x r IH]; intro v; cbn [first_some].
  - split; [discriminate|]. intros [k [H _]]. destruct k; discriminate.
  - destruct x as [y|].
    + split.
      * intro H. inversion H; subst. exists 0%nat. split; [reflexivity|]. intros j Hj. lia.
      * intros [k [Hk Hlt]]. destruct k as [|k].
        -- cbn in Hk. congruence.
        -- specialize (Hlt 0%nat ltac:(lia)). cbn in Hlt. discriminate.
    + rewrite IH. split.
      * intros [k [Hk Hlt]]. exists (S k). split; [exact Hk|].
        intros [|j] Hj; [reflexivity|]. cbn. apply Hlt. lia.
      * intros [k [Hk Hlt]]. destruct k as [|k]; [cbn in Hk; discriminate|].
        exists k. split; [exact Hk|]. intros j Hj. apply (Hlt (S j)). lia.
Qed.

Lemma first_some_none : forall sl,
  first_some sl = None <-> forall j, (j < length sl)%nat -> nth_error sl j = Some None.
Proof.
  induction sl as [|x r IH]; cbn [first_some length].
  - split; [intros _ j Hj; lia | reflexivity].
  - destruct x as [y|].
    + split; [discriminate|]. intro H. specialize (H 0%nat ltac:(lia)). cbn in H. discriminate.
    + rewrite IH. split.
      * intros H [|j] Hj; [reflexivity|]. cbn. apply H. lia.
      * intros H j Hj. apply (H (S j)). lia.
Qed.

Lemma winner_spec : forall sl d,
  (exists k, nth_error sl k = Some (Some (winner sl d)) /\ forall j, (j < k)%nat -> nth_error sl j = Some None)
  \/ (winner sl d = d /\ forall j, (j < length sl)%nat -> nth_error sl j = Some None).
Proof.
  intros sl d. unfold winner. destruct (first_some sl) as [v|] eqn:E.
  - left. apply first_some_spec. exact E.
  - right. split; [reflexivity|]. apply first_some_none. exact E.
Qed.

(* ---------- the re-entrant write unrolled: what WriteProperty does, without recursion ---------- *)

Definition write_spec (o : obj) (i : Z) (v : slot) : obj * wres :=
  if i =? 0 then (o, WDenied)
  else if (i <? 1) || (i >? 16) then (o, WBadIndex)
  else
    let sl1 := set_nth (Z.to_nat (i - 1)) v (slots o) in
    let w := winner sl1 (dflt o) in
    let o1 := with_slots o sl1 in
    if w =? pv o then (o1, WOk)
    else
      let o2 := with_pv o1 w in
      if negb (monitored o) then (o2, WOk)
      else match hold_time o w with
           | None => (o2, WExc ValueErr)
           | Some d =>
               if d =? 0 then (o2, WOk)
               else (with_timer (with_slots o2 (set_nth 5 (Some w) sl1)) (Some (now o + d)), WOk)
           end.

(* two levels of fuel are enough: the nested call never changes the present value again *)
Lemma write_slot_unroll : forall f o i v, write_slot (S (S f)) o i v = write_spec o i v.
Proof.
  intros f o i v. destruct o as [sl d p m on off tm nw].
  unfold write_spec. cbn [write_slot].
  unfold with_slots, with_pv, with_timer, hold_time.
  cbn [slots dflt pv monitored min_on min_off timer now].
  destruct (i =? 0) eqn:E0; [reflexivity|].
  destruct ((i <? 1) || (i >? 16)) eqn:E1; [reflexivity|].
  set (sl1 := set_nth (Z.to_nat (i - 1)) v sl).
  set (w := winner sl1 d).
  destruct (w =? p) eqn:Ew; [reflexivity|].
  destruct m; cbn [negb]; [|reflexivity].
  assert (Hpw : (p =? w) = false) by lia. rewrite Hpw.
  change (6 =? 0) with false. change ((6 <? 1) || (6 >? 16)) with false. cbn iota.
  assert (Hw : winner (set_nth (Z.to_nat (6 - 1)) (Some w) sl1) d = w) by (apply first_some_set_same; reflexivity).
  rewrite Hw. rewrite Z.eqb_refl.
  change (Z.to_nat (6 - 1)) with 5%nat.
  destruct (w =? ACTIVE) eqn:Ea.
  - destruct (on =? 0) eqn:Eon; reflexivity.
  - destruct (w =? INACTIVE) eqn:Ei; [|reflexivity].
    destruct (off =? 0) eqn:Eoff; reflexivity.
Qed.

Lemma command_spec : forall o p v, command o p v = write_spec o (prio_index p) v.
Proof. intros. unfold command. apply write_slot_unroll. Qed.

Lemma tick_spec : forall o dt,
  tick o dt =
  let o1 := with_now o (now o + dt) in
  match timer o with
  | Some d => if d <=? now o + dt then write_spec (with_timer o1 None) 6 None else (o1, WOk)
  | None => (o1, WOk)
  end.
Proof.
  intros o dt. unfold tick. destruct o as [sl d p m on off tm nw]. cbn [with_now timer now].
  destruct tm as [dd|]; [|reflexivity].
  destruct (dd <=? nw + dt); [|reflexivity]. apply write_slot_unroll.
Qed.

(* fuel is never exhausted *)
Lemma write_spec_no_fuel : forall o i v, snd (write_spec o i v) <> WExc OutOfFuel.
Proof.
  intros o i v. unfold write_spec.
  repeat match goal with
         | |- context [if ?c then _ else _] => destruct c
         | |- context [match hold_time ?a ?b with _ => _ end] => destruct (hold_time a b)
         end; cbn [snd]; congruence.
Qed.

Lemma step_fuel_enough : forall o e, snd (step o e) <> WExc OutOfFuel.
Proof.
  intros o [p v|dt]; cbn [step].
  - rewrite command_spec. apply write_spec_no_fuel.
  - rewrite tick_spec. cbv zeta. destruct (timer o) as [d|]; [|cbn; congruence].
    destruct (d <=? now o + dt); [apply write_spec_no_fuel | cbn; congruence].
Qed.

(* ---------- refusals ---------- *)

Lemma refused_unchanged : forall o p v,
  ~ (1 <= prio_index p <= 16) ->
  command o p v = (o, if prio_index p =? 0 then WDenied else WBadIndex).
Proof.
  intros o p v H. rewrite command_spec. unfold write_spec.
  destruct (prio_index p =? 0) eqn:E0; [reflexivity|].
  destruct ((prio_index p <? 1) || (prio_index p >? 16)) eqn:E1; [reflexivity|]. lia.
Qed.

Lemma no_priority_is_16 : forall o v, command o None v = command o (Some 16) v.
Proof. reflexivity. Qed.

(* ---------- present value = winner ---------- *)

Definition consistent (o : obj) : Prop := pv o = winner (slots o) (dflt o).

Lemma write_spec_valid_consistent : forall o i v,
  1 <= i <= 16 -> consistent (fst (write_spec o i v)).
Proof.
  intros o i v Hi. destruct o as [sl d p m on off tm nw]. unfold write_spec, consistent.
  cbn [slots dflt pv monitored min_on min_off timer now with_slots with_pv].
  destruct (i =? 0) eqn:E0; [lia|].
  destruct ((i <? 1) || (i >? 16)) eqn:E1; [lia|].
  set (sl1 := set_nth (Z.to_nat (i - 1)) v sl).
  destruct (winner sl1 d =? p) eqn:Ew.
  - cbn. lia.
  - destruct m; cbn [negb]; [|reflexivity].
    destruct (hold_time _ _) as [t|]; [|reflexivity].
    destruct (t =? 0); [reflexivity|].
    cbn [fst with_timer slots dflt pv]. symmetry. apply first_some_set_same. reflexivity.
Qed.

Lemma write_spec_consistent : forall o i v, consistent o -> consistent (fst (write_spec o i v)).
Proof.
  intros o i v Hc.
  destruct (Z_le_dec 1 i) as [H1|H1]; [destruct (Z_le_dec i 16) as [H2|H2]|].
  - apply write_spec_valid_consistent. lia.
  - unfold write_spec. destruct (i =? 0); [exact Hc|].
    replace ((i <? 1) || (i >? 16)) with true by lia. exact Hc.
  - unfold write_spec. destruct (i =? 0); [exact Hc|].
    replace ((i <? 1) || (i >? 16)) with true by lia. exact Hc.
Qed.

Lemma step_consistent : forall o e, consistent o -> consistent (fst (step o e)).
Proof.
  intros o [p v|dt] Hc; cbn [step].
  - rewrite command_spec. apply write_spec_consistent. exact Hc.
  - rewrite tick_spec. cbv zeta. destruct (timer o) as [d|]; [|exact Hc].
    destruct (d <=? now o + dt); [|exact Hc].
    apply write_spec_consistent. exact Hc.
Qed.

Lemma run_consistent : forall es o, consistent o -> consistent (run o es).
Proof.
  induction es as [|e r IH]; intros o Hc; cbn [run]; [exact Hc|].
  apply IH. apply step_consistent. exact Hc.
Qed.

Lemma run_consistent_after_command : forall o p v es,
  1 <= prio_index p <= 16 -> consistent (run o (Cmd p v :: es)).
Proof.
  intros o p v es H. cbn [run step]. apply run_consistent.
  rewrite command_spec. apply write_spec_valid_consistent. exact H.
Qed.

(* ---------- each slot holds the last value commanded at that priority ---------- *)

Fixpoint last_cmd (k : Z) (es : list op) (init : slot) : slot :=
  match es with
  | [] => init
  | Cmd p v :: r => if prio_index p =? k then last_cmd k r v else last_cmd k r init
  | Tick _ :: r => last_cmd k r init
  end.

(* no hold mechanism at work: not a MinOnOff class, or both times zero / absent; nothing pending *)
Definition quiet (o : obj) : Prop :=
  (monitored o = false \/ (min_on o = 0 /\ min_off o = 0)) /\ timer o = None.

Lemma write_spec_frame : forall o i v,
  let o' := fst (write_spec o i v) in
  dflt o' = dflt o /\ monitored o' = monitored o /\ min_on o' = min_on o /\ min_off o' = min_off o
  /\ now o' = now o /\ length (slots o') = length (slots o).
Proof.
  intros o i v. destruct o as [sl d p m on off tm nw]. unfold write_spec.
  cbn [slots dflt pv monitored min_on min_off timer now with_slots with_pv].
  repeat match goal with
         | |- context [if ?c then _ else _] => destruct c
         | |- context [match hold_time ?a ?b with _ => _ end] => destruct (hold_time a b)
         end; cbn [fst slots dflt pv monitored min_on min_off timer now with_timer with_slots with_pv]; rewrite ?set_nth_length; auto 10.
Qed.

Lemma write_spec_quiet : forall o i v, quiet o -> quiet (fst (write_spec o i v)).
Proof.
  intros o i v [Hq Ht]. destruct o as [sl d p m on off tm nw]. unfold quiet, write_spec in *.
  cbn [slots dflt pv monitored min_on min_off timer now with_slots with_pv] in *.
  destruct (i =? 0); [cbn; auto|].
  destruct ((i <? 1) || (i >? 16)); [cbn; auto|].
  destruct (_ =? p); [cbn; auto|].
  destruct m; cbn [negb]; [|cbn; auto].
  destruct Hq as [Hq|[Hon Hoff]]; [discriminate|]. subst on off.
  unfold hold_time; cbn [min_on min_off].
  destruct (_ =? ACTIVE); [cbn; auto|].
  destruct (_ =? INACTIVE); cbn; auto.
Qed.

(* slot j (0-based) after a write at index i *)
Lemma write_spec_slot : forall o i v j,
  1 <= i <= 16 -> length (slots o) = 16%nat -> (j < 16)%nat ->
  (j <> 5%nat \/ quiet o) ->
  nth_error (slots (fst (write_spec o i v))) j =
  if Z.of_nat j =? i - 1 then Some v else nth_error (slots o) j.
Proof.
  intros o i v j Hi Hlen Hj Hq. destruct o as [sl d p m on off tm nw]. unfold write_spec.
  cbn [slots dflt pv monitored min_on min_off timer now with_slots with_pv] in *.
  destruct (i =? 0) eqn:E0; [lia|].
  destruct ((i <? 1) || (i >? 16)) eqn:E1; [lia|].
  set (sl1 := set_nth (Z.to_nat (i - 1)) v sl).
  assert (Hsl1 : nth_error sl1 j = if Z.of_nat j =? i - 1 then Some v else nth_error sl j).
  { unfold sl1. destruct (Z.of_nat j =? i - 1) eqn:Ej.
    - replace (Z.to_nat (i - 1)) with j by lia. apply set_nth_same. lia.
    - apply set_nth_other. lia. }
  destruct (winner sl1 d =? p); [exact Hsl1|].
  destruct m; cbn [negb]; [|exact Hsl1].
  unfold hold_time; cbn [min_on min_off].
  destruct (winner sl1 d =? ACTIVE).
  - destruct (on =? 0) eqn:Eon; [exact Hsl1|].
    cbn [fst with_timer with_slots with_pv slots]. destruct Hq as [Hq|[[Hq|[Hq _]] _]].
    + rewrite set_nth_other by exact Hq. exact Hsl1.
    + discriminate.
    + cbn in Hq. lia.
  - destruct (winner sl1 d =? INACTIVE); [|exact Hsl1].
    destruct (off =? 0) eqn:Eoff; [exact Hsl1|].
    cbn [fst with_timer with_slots with_pv slots]. destruct Hq as [Hq|[[Hq|[_ Hq]] _]].
    + rewrite set_nth_other by exact Hq. exact Hsl1.
    + discriminate.
    + cbn in Hq. lia.
Qed.

Lemma write_spec_invalid_id : forall o i v, ~ (1 <= i <= 16) -> fst (write_spec o i v) = o.
Proof.
  intros o i v H. unfold write_spec. destruct (i =? 0); [reflexivity|].
  replace ((i <? 1) || (i >? 16)) with true by lia. reflexivity.
Qed.

Lemma step_length : forall o e, length (slots (fst (step o e))) = length (slots o).
Proof.
  intros o [p v|dt]; cbn [step].
  - rewrite command_spec. apply write_spec_frame.
  - rewrite tick_spec. cbv zeta. destruct (timer o) as [d|]; [|reflexivity].
    destruct (d <=? now o + dt); [|reflexivity].
    pose proof (write_spec_frame (with_timer (with_now o (now o + dt)) None) 6 None) as H.
    cbv zeta in H. destruct H as (_ & _ & _ & _ & _ & H). rewrite H. destruct o; reflexivity.
Qed.

Lemma step_quiet : forall o e, quiet o -> quiet (fst (step o e)).
Proof.
  intros o [p v|dt] Hq; cbn [step].
  - rewrite command_spec. apply write_spec_quiet. exact Hq.
  - rewrite tick_spec. cbv zeta. destruct Hq as [Hq Ht]. rewrite Ht.
    destruct o; cbn in *. split; assumption.
Qed.

(* one step: slot j is the commanded value if this step is a command at priority j+1, else unchanged *)
Lemma step_slot : forall o e j,
  length (slots o) = 16%nat -> (j < 16)%nat -> (j <> 5%nat \/ quiet o) ->
  nth_error (slots (fst (step o e))) j =
  match e with
  | Cmd p v => if prio_index p =? Z.of_nat j + 1 then Some v else nth_error (slots o) j
  | Tick _ => nth_error (slots o) j
  end.
Proof.
  intros o [p v|dt] j Hlen Hj Hq; cbn [step].
  - rewrite command_spec.
    destruct (Z_le_dec 1 (prio_index p)) as [H1|H1]; [destruct (Z_le_dec (prio_index p) 16) as [H2|H2]|].
    + rewrite write_spec_slot by (auto; lia).
      destruct (Z.of_nat j =? prio_index p - 1) eqn:E1; destruct (prio_index p =? Z.of_nat j + 1) eqn:E2; try reflexivity; lia.
    + rewrite write_spec_invalid_id by lia. replace (prio_index p =? Z.of_nat j + 1) with false by lia. reflexivity.
    + rewrite write_spec_invalid_id by lia. replace (prio_index p =? Z.of_nat j + 1) with false by lia. reflexivity.
  - rewrite tick_spec. cbv zeta. destruct (timer o) as [d|] eqn:Et.
    + destruct (d <=? now o + dt); [|destruct o; reflexivity].
      destruct Hq as [Hq|[_ Hq]]; [|congruence].
      assert (Hl' : length (slots (with_timer (with_now o (now o + dt)) None)) = 16%nat) by (destruct o; exact Hlen).
      rewrite (write_spec_slot _ 6 None j ltac:(lia) Hl' Hj (or_introl Hq)).
      replace (Z.of_nat j =? 6 - 1) with false by lia. destruct o; reflexivity.
    + destruct o; reflexivity.
Qed.

Lemma slot_last_commanded : forall es o j,
  length (slots o) = 16%nat -> (j < 16)%nat -> (j <> 5%nat \/ quiet o) ->
  nth_error (slots (run o es)) j =
  Some (last_cmd (Z.of_nat j + 1) es (nth j (slots o) None)).
Proof.
  induction es as [|e r IH]; intros o j Hlen Hj Hq; cbn [run last_cmd].
  - apply nth_error_nth'. lia.
  - assert (Hq' : j <> 5%nat \/ quiet (fst (step o e))).
    { destruct Hq as [Hq|Hq]; [left; exact Hq | right; apply step_quiet; exact Hq]. }
    rewrite IH; [|rewrite step_length; exact Hlen | exact Hj | exact Hq'].
    f_equal.
    pose proof (step_slot o e j Hlen Hj Hq) as Hs.
    assert (Hnth : forall (sl : list slot) (x : slot), nth_error sl j = Some x -> nth j sl None = x).
    { intros sl x H. apply nth_error_nth. exact H. }
    destruct e as [p v|dt]; cbn [last_cmd].
    + destruct (prio_index p =? Z.of_nat j + 1).
      * rewrite (Hnth _ _ Hs). reflexivity.
      * f_equal. apply Hnth. rewrite Hs. apply nth_error_nth'. lia.
    + f_equal. apply Hnth. rewrite Hs. apply nth_error_nth'. lia.
Qed.

(* ---------- minimum on / off time ---------- *)

Definition slot6 (o : obj) : option slot := nth_error (slots o) 5.

(* a command that makes the present value change to a state with a non-zero minimum time
   puts that state into slot 6 and schedules the release exactly that many seconds later *)
Lemma min_on_off_hold : forall o p v o' r,
  monitored o = true -> length (slots o) = 16%nat ->
  command o p v = (o', r) -> pv o' <> pv o ->
  (pv o' = ACTIVE -> min_on o > 0 ->
     r = WOk /\ slot6 o' = Some (Some ACTIVE) /\ timer o' = Some (now o + min_on o)) /\
  (pv o' = INACTIVE -> min_off o > 0 ->
     r = WOk /\ slot6 o' = Some (Some INACTIVE) /\ timer o' = Some (now o + min_off o)).
Proof.
  intros o p v o' r Hm Hlen Hc Hne. rewrite command_spec in Hc.
  destruct o as [sl d pp m on off tm nw]. unfold write_spec in Hc.
  cbn [slots dflt pv monitored min_on min_off timer now with_slots with_pv] in *. subst m.
  destruct (prio_index p =? 0); [inversion Hc; subst; cbn in Hne; congruence|].
  destruct (_ || _); [inversion Hc; subst; cbn in Hne; congruence|].
  set (sl1 := set_nth (Z.to_nat (prio_index p - 1)) v sl) in *.
  destruct (winner sl1 d =? pp) eqn:Ew; [inversion Hc; subst; cbn in Hne; congruence|].
  cbn [negb] in Hc. unfold hold_time in Hc; cbn [min_on min_off] in Hc.
  assert (Hl : (5 < length sl1)%nat) by (unfold sl1; rewrite set_nth_length; lia).
  unfold slot6.
  pose proof (set_nth_same sl1 5 (Some (winner sl1 d)) Hl) as H6.
  set (sl6 := set_nth 5 (Some (winner sl1 d)) sl1) in *.
  destruct (winner sl1 d =? ACTIVE) eqn:Ea.
  - destruct (on =? 0) eqn:Eon; inversion Hc; subst; cbn [pv slots timer with_timer with_slots with_pv].
    + split; intros H1 H2; unfold ACTIVE, INACTIVE in *; lia.
    + split; intros H1 H2; [|unfold ACTIVE, INACTIVE in *; lia].
      rewrite H6, H1. auto.
  - destruct (winner sl1 d =? INACTIVE) eqn:Ei.
    + destruct (off =? 0) eqn:Eoff; inversion Hc; subst; cbn [pv slots timer with_timer with_slots with_pv].
      * split; intros H1 H2; unfold ACTIVE, INACTIVE in *; lia.
      * split; intros H1 H2; [unfold ACTIVE, INACTIVE in *; lia|].
        rewrite H6, H1. auto.
    + inversion Hc; subst; cbn [pv with_pv]. split; intros H1 H2; unfold ACTIVE, INACTIVE in *; lia.
Qed.

(* while the deadline has not been reached the clock is the only thing that moves *)
Lemma min_on_off_keep : forall o d dt,
  timer o = Some d -> now o + dt < d -> tick o dt = (with_now o (now o + dt), WOk).
Proof.
  intros o d dt Ht Hlt. rewrite tick_spec. cbv zeta. rewrite Ht.
  replace (d <=? now o + dt) with false by lia. reflexivity.
Qed.

(* when it is reached, slot 6 is released; if the remaining commands still give the same present
   value nothing else happens, otherwise the new state is in turn held at slot 6 *)
Lemma min_on_off_release : forall o d dt o' r,
  timer o = Some d -> d <= now o + dt -> length (slots o) = 16%nat ->
  tick o dt = (o', r) ->
  let rel := set_nth 5 None (slots o) in
  pv o' = winner rel (dflt o) /\
  (pv o' = pv o -> slots o' = rel /\ timer o' = None /\ r = WOk).
Proof.
  intros o d dt o' r Ht Hle Hlen Hk. rewrite tick_spec in Hk. cbv zeta in Hk. rewrite Ht in Hk.
  replace (d <=? now o + dt) with true in Hk by lia.
  destruct o as [sl dd pp m on off tm nw]. unfold write_spec in Hk.
  cbn [slots dflt pv monitored min_on min_off timer now with_slots with_pv with_timer with_now] in *.
  change (6 =? 0) with false in Hk. change ((6 <? 1) || (6 >? 16)) with false in Hk. cbn iota in Hk.
  change (Z.to_nat (6 - 1)) with 5%nat in Hk.
  set (rel := set_nth 5 None sl) in *.
  destruct (winner rel dd =? pp) eqn:Ew.
  - inversion Hk; cbn [pv slots timer with_timer with_slots with_pv with_now]; cbv zeta. split; [lia|]. auto.
  - destruct m; cbn [negb] in Hk.
    + unfold hold_time in Hk; cbn [min_on min_off with_timer with_now] in Hk.
      destruct (winner rel dd =? ACTIVE).
      * destruct (on =? 0); inversion Hk; cbn [pv slots timer with_timer with_slots with_pv with_now]; (split; [reflexivity|]; intro H; lia).
      * destruct (winner rel dd =? INACTIVE).
        -- destruct (off =? 0); inversion Hk; cbn [pv slots timer with_timer with_slots with_pv with_now]; (split; [reflexivity|]; intro H; lia).
        -- inversion Hk; cbn [pv slots timer with_timer with_slots with_pv with_now]. split; [reflexivity|]. intro H; lia.
    + inversion Hk; cbn [pv slots timer with_timer with_slots with_pv with_now]. split; [reflexivity|]. intro H; lia.
Qed.
