(* SchedPassive.v — programs whose callbacks have no scheduling actions (they only record, defer
   and raise): shape of process_task and of the drain loop, and a preservation principle for the
   loops that needs no hypothesis about arbitrary installs. *)
From Bac Require Import Base Deferred DeferredFacts Sched SchedFacts SchedThms.
From Coq Require Import Permutation Sorted ZifyBool ZifyN ZifyNat.
Ltac Zify.zify_post_hook ::= Z.to_euclidean_division_equations.
Open Scope Z_scope.

Definition passive_cfg (c : cfg) : Prop :=
  forall i, t_acts (cfg_get c i) = [] /\ forallb no_acts (t_defers (cfg_get c i)) = true.
Definition passive_dq (s : st) : Prop := forallb no_acts (dq s) = true.
Definition nofuel (ev : list event) : Prop := ~ In (EvErr OutOfFuel) ev.

Lemma forallb_flat_spawns : forall b, forallb no_acts b = true -> forallb no_acts (flat_map d_spawns b) = true.
Proof.
  induction b as [|d b IH]; intros H; [reflexivity|]. cbn [forallb] in H. apply andb_prop in H. destruct H as [Hd Hb].
  cbn [flat_map]. rewrite forallb_app. rewrite (proj2 (no_acts_spawns d Hd)), (IH Hb). reflexivity.
Qed.

(* one batch of action-free functions only moves the deferred queue *)
Lemma call_batch_s_passive : forall guard jit c b s s' ev x, forallb no_acts b = true ->
  call_batch_s guard jit c s b = (s', ev, x) ->
  exists q, s' = set_dq s (dq s ++ q) /\ forallb no_acts q = true /\ noise ev /\ nofuel ev /\
            (x = false -> q = flat_map d_spawns b) /\ (guard = true -> x = false).
Proof.
  induction b as [|d b IH]; intros s s' ev x Hb H; cbn [call_batch_s] in H.
  - inversion H; subst. exists []. rewrite app_nil_r.
    split; [destruct s'; reflexivity|]. split; [reflexivity|]. split; [intros y []|]. split; [intros []|].
    split; reflexivity.
  - cbn [forallb] in Hb. apply andb_prop in Hb. destruct Hb as [Hd Hb].
    destruct (no_acts_spawns d Hd) as [Ha Hsp]. rewrite Ha in H. cbn [run_acts] in H. cbn [orb app] in H.
    assert (Hn1 : noise (EvCall (d_id d) :: (if d_raises d then [EvRaise] else []))).
    { intros y Hy. destruct (d_raises d); cbn in Hy; repeat (destruct Hy as [Hy|Hy]; [subst y; reflexivity|]); destruct Hy. }
    assert (Hf1 : nofuel (EvCall (d_id d) :: (if d_raises d then [EvRaise] else []))).
    { intros Hy. destruct (d_raises d); cbn in Hy; repeat (destruct Hy as [Hy|Hy]; [discriminate|]); destruct Hy. }
    destruct (d_raises d && negb guard) eqn:E.
    + inversion H; subst. exists (d_spawns d). split; [reflexivity|]. split; [exact Hsp|]. split; [exact Hn1|]. split; [exact Hf1|].
      split; [discriminate|]. intros ->. rewrite andb_false_r in E. discriminate.
    + destruct (call_batch_s guard jit c (set_dq s (dq s ++ d_spawns d)) b) as [[s3 ev3] x3] eqn:R. inversion H; subst.
      destruct (IH _ _ _ _ Hb R) as [q [-> [Hq [Hn [Hf [Hx Hg]]]]]]. cbn [dq set_dq].
      exists (d_spawns d ++ q). split; [destruct s; cbn; rewrite app_assoc; reflexivity|].
      split; [rewrite forallb_app, Hsp, Hq; reflexivity|].
      split; [change (noise ((EvCall (d_id d) :: (if d_raises d then [EvRaise] else [])) ++ ev3)); apply noise_app; assumption|].
      split; [|split].
      * change (nofuel ((EvCall (d_id d) :: (if d_raises d then [EvRaise] else [])) ++ ev3)).
        intros Hy. apply in_app_or in Hy. destruct Hy; [apply Hf1 | apply Hf]; assumption.
      * intros Hx0. rewrite (Hx Hx0). reflexivity.
      * exact Hg.
Qed.

Lemma set_dq_set_dq : forall s a b, set_dq (set_dq s a) b = set_dq s b.
Proof. intros [] a b. reflexivity. Qed.

Lemma set_dq_id : forall s, set_dq s (dq s) = s.
Proof. intros []. reflexivity. Qed.

Lemma sdrain_passive : forall guard jit c fuel s s' ev x, passive_dq s -> (f_size (dq s) <= fuel)%nat ->
  sdrain guard jit c fuel s = (s', ev, x) ->
  exists q, s' = set_dq s q /\ forallb no_acts q = true /\ noise ev /\
            (guard = true -> x = false /\ q = [] /\ nofuel ev).
Proof.
  induction fuel as [|f IH]; intros s s' ev x Hp Hf H; cbn [sdrain] in H.
  - destruct (dq s) as [|d0 q0] eqn:Q.
    + inversion H; subst. exists []. split; [rewrite <- Q; symmetry; apply set_dq_id|].
      split; [reflexivity|]. split; [intros y []|]. intros _. split; [reflexivity|]. split; [reflexivity | intros []].
    + cbn [f_size] in Hf. pose proof (d_size_pos d0). lia.
  - destruct (dq s) as [|d0 q0] eqn:Q.
    + inversion H; subst. exists []. split; [rewrite <- Q; symmetry; apply set_dq_id|].
      split; [reflexivity|]. split; [intros y []|]. intros _. split; [reflexivity|]. split; [reflexivity | intros []].
    + unfold passive_dq in Hp. rewrite Q in Hp.
      destruct (call_batch_s guard jit c (set_dq s []) (d0 :: q0)) as [[s1 ev1] x1] eqn:B.
      destruct (call_batch_s_passive _ _ _ _ _ _ _ _ Hp B) as [q [-> [Hq [Hn [Hfu [Hx Hg]]]]]].
      cbn [dq set_dq app] in *. rewrite set_dq_set_dq in *.
      destruct x1.
      * inversion H; subst. exists q. split; [reflexivity|]. split; [exact Hq|]. split; [exact Hn|].
        intros Hgd. specialize (Hg Hgd). discriminate.
      * destruct (sdrain guard jit c f (set_dq s q)) as [[s2 ev2] x2] eqn:R. inversion H; subst.
        assert (Hsz : (f_size q <= f)%nat).
        { rewrite (Hx eq_refl). pose proof (f_size_spawns (d0 :: q0)) as Hs. cbn [length] in Hs. lia. }
        assert (Hp2 : passive_dq (set_dq s q)) by exact Hq.
        destruct (IH _ _ _ _ Hp2 Hsz R) as [q2 [-> [Hq2 [Hn2 Hg2]]]]. rewrite set_dq_set_dq.
        exists q2. split; [reflexivity|]. split; [exact Hq2|]. split; [apply noise_app; assumption|].
        intros Hgd. destruct (Hg2 Hgd) as [-> [-> Hf2]]. split; [reflexivity|]. split; [reflexivity|].
        intros Hy. apply in_app_or in Hy. destruct Hy; [apply Hfu | apply Hf2]; assumption.
Qed.

Lemma do_drain_passive : forall guard jit c s s' ev x, passive_dq s -> do_drain guard jit c s = (s', ev, x) ->
  exists q, s' = set_dq s q /\ forallb no_acts q = true /\ noise ev /\
            (guard = true -> x = false /\ q = [] /\ nofuel ev).
Proof. intros guard jit c s s' ev x Hp H. unfold do_drain in H. eapply sdrain_passive; [exact Hp | apply le_n | exact H]. Qed.

(* process_task of a passive program: only the popped task's own re-install can follow the callback *)
Lemma process_task_passive : forall jit c s e s2 ev r, passive_cfg c -> process_task jit c s e = (s2, ev, r) ->
  let s1 := set_dq s (dq s ++ t_defers (cfg_get c (e_tid e))) in
  (s2 = s1 /\ ev = [fire_of s e]) \/
  exists iv off, t_kind (cfg_get c (e_tid e)) = Recurring iv off /\ 0 < iv /\ r = false /\
    t_raises (cfg_get c (e_tid e)) = false /\
    tm_install (set_ttime s1 (upd (ttime s1) (e_tid e) (Some (next_slot jit iv off (now s))))) (e_tid e) = Ok s2 /\
    ev = [fire_of s e; EvInst (e_tid e) true].
Proof.
  intros jit c s e s2 ev r Hc P s1.
  destruct (process_task_cases _ _ _ _ _ _ _ P) as [sa [eva [failed [RA Hx]]]].
  rewrite (proj1 (Hc (e_tid e))) in RA. cbn [run_acts] in RA. inversion RA; subst sa eva failed.
  destruct Hx as [[-> ->]|[iv [off [K [Hiv [-> [_ [Hr [T ->]]]]]]]]]; [left; split; reflexivity|].
  right. exists iv, off. repeat split; try assumption.
Qed.

(* what one firing does to the heap (passive program, invariant): the head goes, and at most the
   fresh entry of the same recurring task comes *)
Lemma fire_heap_inv : forall jit c s e s1 z s2 ev r, passive_cfg c -> Inv s -> passive_dq s ->
  get_next_task s = (Some e, s1, z) -> process_task jit c s1 e = (s2, ev, r) ->
  exists rest, heap s = e :: rest /\ e_when e <= now s /\ now s2 = now s /\ Inv s2 /\ passive_dq s2 /\
    fired (pop_events s e s1 ++ ev) = [e] /\
    ((heap s2 = rest /\ ev = [fire_of s1 e]) \/
     exists iv off, t_kind (cfg_get c (e_tid e)) = Recurring iv off /\ 0 < iv /\ r = false /\
       ev = [fire_of s1 e; EvInst (e_tid e) true] /\
       Permutation (heap s2) ((next_slot jit iv off (now s), ctr s, e_tid e) :: rest)).
Proof.
  intros jit c s e s1 z s2 ev r Hc Hi Hp G P.
  destruct (get_next_inv _ _ _ _ Hi G) as [Hi1 Hni].
  destruct (get_next_some _ _ _ _ G) as [rest [Hh [Hd [Hs1 _]]]].
  exists rest. split; [exact Hh|]. split; [exact Hd|].
  assert (Hp1 : passive_dq (set_dq s1 (dq s1 ++ t_defers (cfg_get c (e_tid e))))).
  { unfold passive_dq. cbn [dq set_dq]. rewrite forallb_app. subst s1. cbn [dq]. rewrite Hp.
    rewrite (proj2 (Hc (e_tid e))). reflexivity. }
  destruct (process_task_passive _ _ _ _ _ _ _ Hc P) as [[-> ->]|[iv [off [K [Hiv [-> [_ [T ->]]]]]]]].
  - split; [subst s1; reflexivity|]. split; [apply Inv_set_dq, Hi1|]. split; [exact Hp1|].
    split; [unfold pop_events; cbn [app fired flat_map]; destruct e as [[w n] i]; reflexivity|].
    left. split; [subst s1; reflexivity | reflexivity].
  - assert (Hb : InvBut (e_tid e) (set_ttime (set_dq s1 (dq s1 ++ t_defers (cfg_get c (e_tid e))))
                   (upd (ttime (set_dq s1 (dq s1 ++ t_defers (cfg_get c (e_tid e))))) (e_tid e)
                      (Some (next_slot jit iv off (now s1)))))).
    { apply InvBut_set_time, Inv_set_dq, Hi1. }
    destruct (tm_install_facts _ _ _ Hb T) as [t [sx [Ht [Hsx [Hi2 [_ [Hperm [_ [Hn [Hdq _]]]]]]]]]].
    cbn [ttime set_ttime set_dq ctr now dq sched heap] in *. rewrite upd_same in Ht. inversion Ht; subst t.
    split; [rewrite Hn; subst s1; reflexivity|]. split; [exact Hi2|].
    split; [unfold passive_dq; rewrite Hdq; exact Hp1|].
    split; [unfold pop_events; cbn [app fired flat_map]; destruct e as [[w n] i]; reflexivity|].
    right. exists iv, off. repeat split; try assumption.
    assert (Hsf : sched s1 (e_tid e) = false) by (subst s1; cbn [sched]; apply upd_same).
    rewrite Hsf in Hsx. subst sx. cbn [heap set_ttime set_dq] in Hperm.
    subst s1. cbn [heap now ctr] in *. exact Hperm.
Qed.

(* ---------- preservation by the loops, passive programs ---------- *)
Section PLoops.
  Context (I : st -> list event -> Prop) (jit : Z) (c : cfg) (Hc : passive_cfg c).
  Context (I_fire : forall s acc e s1 z s2 ev r, I s acc -> passive_dq s -> get_next_task s = (Some e, s1, z) ->
             process_task jit c s1 e = (s2, ev, r) -> I s2 (acc ++ pop_events s e s1 ++ ev) /\ passive_dq s2).
  Context (I_dq : forall s acc q, I s acc -> I (set_dq s q) acc).
  Context (I_noise : forall s acc ev, I s acc -> noise ev -> I s (acc ++ ev)).

  Lemma run_once_loop_P : forall guard fuel s acc s' ev, I s acc -> passive_dq s ->
    run_once_loop guard jit c fuel s = (s', ev) -> I s' (acc ++ ev) /\ passive_dq s'.
  Proof.
    intros guard. induction fuel as [|f IH]; intros s acc s' ev Hi Hp H; cbn [run_once_loop] in H.
    - inversion H; subst. split; [apply I_noise; [exact Hi | apply noise1; reflexivity] | exact Hp].
    - destruct (get_next_task s) as [[t s1] z] eqn:G.
      assert (Hcont : forall s2 ev1 (r1 : bool), I s2 (acc ++ ev1) -> passive_dq s2 ->
        (if r1 then (s2, ev1 ++ [EvRaise])
         else let '(s3, ev2, r2) := do_drain guard jit c s2 in
              if r2 then (s3, ev1 ++ ev2)
              else if z then let '(s4, ev3) := run_once_loop guard jit c f s3 in (s4, ev1 ++ ev2 ++ ev3)
                   else (s3, ev1 ++ ev2)) = (s', ev) -> I s' (acc ++ ev) /\ passive_dq s').
      { intros s2 ev1 r1 H2 Hp2 E. destruct r1.
        - inversion E; subst. split; [rewrite app_assoc; apply I_noise; [exact H2 | apply noise1; reflexivity] | exact Hp2].
        - destruct (do_drain guard jit c s2) as [[s3 ev2] r2] eqn:D.
          destruct (do_drain_passive _ _ _ _ _ _ _ Hp2 D) as [q [-> [Hq [Hn _]]]].
          assert (H3 : I (set_dq s2 q) (acc ++ ev1 ++ ev2)) by (rewrite app_assoc; apply I_noise; [apply I_dq, H2 | exact Hn]).
          destruct r2; [inversion E; subst; split; [exact H3 | exact Hq]|].
          destruct z; [|inversion E; subst; split; [exact H3 | exact Hq]].
          destruct (run_once_loop guard jit c f (set_dq s2 q)) as [s4 ev3] eqn:R. inversion E; subst.
          rewrite app_assoc in H3. destruct (IH _ _ _ _ H3 Hq R) as [H4 Hp4]. rewrite <- !app_assoc in H4. split; assumption. }
      destruct t as [e|].
      + destruct (process_task jit c s1 e) as [[s2 ev1] r1] eqn:P. cbv beta iota zeta in H.
        destruct (I_fire _ _ _ _ _ _ _ _ Hi Hp G P) as [H2 Hp2].
        exact (Hcont s2 (pop_events s e s1 ++ ev1) r1 H2 Hp2 H).
      + cbv beta iota zeta in H. apply get_next_none in G. destruct G as [-> _].
        apply (Hcont s [] false); [rewrite app_nil_r; exact Hi | exact Hp | exact H].
  Qed.

  Lemma run_loop_P : forall guard fuel s acc s' ev, I s acc -> passive_dq s ->
    run_loop guard jit c fuel s = (s', ev) -> I s' (acc ++ ev) /\ passive_dq s'.
  Proof.
    intros guard. induction fuel as [|f IH]; intros s acc s' ev Hi Hp H; cbn [run_loop] in H.
    - destruct (quiescent s); inversion H; subst; [rewrite app_nil_r; split; assumption|].
      split; [apply I_noise; [exact Hi | apply noise1; reflexivity] | exact Hp].
    - destruct (quiescent s); [inversion H; subst; rewrite app_nil_r; split; assumption|].
      destruct (get_next_task s) as [[t s1] z] eqn:G.
      assert (Hcont : forall s2 ev1 (r1 : bool), I s2 (acc ++ ev1) -> passive_dq s2 ->
        (let '(s3, ev2) :=
           if r1 then (s2, ev1 ++ [EvRaise])
           else let '(s3, ev2, _) := do_drain guard jit c s2 in (s3, ev1 ++ ev2) in
         let '(s4, ev3) := run_loop guard jit c f s3 in (s4, ev2 ++ ev3)) = (s', ev) -> I s' (acc ++ ev) /\ passive_dq s').
      { intros s2 ev1 r1 H2 Hp2 E.
        assert (H3 : forall s3 ev2,
          (if r1 then (s2, ev1 ++ [EvRaise])
           else let '(s3, ev2, _) := do_drain guard jit c s2 in (s3, ev1 ++ ev2)) = (s3, ev2) -> I s3 (acc ++ ev2) /\ passive_dq s3).
        { intros s3 ev2 E2. destruct r1.
          - inversion E2; subst. split; [rewrite app_assoc; apply I_noise; [exact H2 | apply noise1; reflexivity] | exact Hp2].
          - destruct (do_drain guard jit c s2) as [[s3' ev2'] r2] eqn:D. inversion E2; subst.
            destruct (do_drain_passive _ _ _ _ _ _ _ Hp2 D) as [q [-> [Hq [Hn _]]]].
            split; [rewrite app_assoc; apply I_noise; [apply I_dq, H2 | exact Hn] | exact Hq]. }
        destruct (if r1 then (s2, ev1 ++ [EvRaise])
                  else let '(s3, ev2, _) := do_drain guard jit c s2 in (s3, ev1 ++ ev2)) as [s3 ev2] eqn:E2.
        destruct (H3 _ _ eq_refl) as [H4 Hp4].
        destruct (run_loop guard jit c f s3) as [s4 ev3] eqn:R. inversion E; subst.
        destruct (IH _ _ _ _ H4 Hp4 R) as [H5 Hp5]. rewrite <- app_assoc in H5. split; assumption. }
      destruct t as [e|].
      + destruct (process_task jit c s1 e) as [[s2 ev1] r1] eqn:P. cbv beta iota zeta in H.
        destruct (I_fire _ _ _ _ _ _ _ _ Hi Hp G P) as [H2 Hp2].
        exact (Hcont s2 (pop_events s e s1 ++ ev1) r1 H2 Hp2 H).
      + cbv beta iota zeta in H. apply get_next_none in G. destruct G as [-> _].
        apply (Hcont s [] false); [rewrite app_nil_r; exact Hi | exact Hp | exact H].
  Qed.
End PLoops.
