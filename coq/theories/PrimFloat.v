(* PrimFloat.v — round32 / widen32 (struct.pack/unpack('>f') on bit patterns): every binary32 value
   that is not a NaN survives widening to a double and narrowing back. *)
From Bac Require Import Base Prim.
From Coq Require Import ZifyBool ZifyN ZifyNat.
Ltac Zify.zify_post_hook ::= Z.to_euclidean_division_equations.
Open Scope N_scope.

Definition b32_not_nan (p : N) : bool :=
  negb (((p / 2^23) mod 256 =? 255) && negb (p mod 2^23 =? 0)).

Definition round32_f (s e m : N) : res N :=
  if e =? 2047 then
    if m =? 0 then Ok (s * 2^31 + 2139095040)
    else Ok (s * 2^31 + 2139095040 + 4194304 + (m / 2^29) mod 4194304)
  else if e =? 0 then Ok (s * 2^31)
  else
    let M := 2^52 + m in
    let sh := if 897 <=? e then 29 else 926 - e in
    let base := if 897 <=? e then (e - 897) * 2^23 else 0 in
    let q := M / 2^sh in
    let r := M mod 2^sh in
    let half := 2^(sh - 1) in
    let q' := if (half <? r) || ((r =? half) && N.odd q) then q + 1 else q in
    let p := base + q' in
    if 2139095040 <=? p then Err OverflowErr else Ok (s * 2^31 + p).

Lemma round32_unfold d : round32 d = round32_f (d / 2^63) ((d / 2^52) mod 2048) (d mod 2^52).
Proof. reflexivity. Qed.

Lemma fields64 s E X : s < 2 -> E < 2048 -> X < 4503599627370496 ->
  (s * 9223372036854775808 + E * 4503599627370496 + X) / 9223372036854775808 = s /\
  ((s * 9223372036854775808 + E * 4503599627370496 + X) / 4503599627370496) mod 2048 = E /\
  (s * 9223372036854775808 + E * 4503599627370496 + X) mod 4503599627370496 = X.
Proof. intros. repeat split; lia. Qed.

Lemma round32_fields s E X : s < 2 -> E < 2048 -> X < 4503599627370496 ->
  round32 (s * 9223372036854775808 + E * 4503599627370496 + X) = round32_f s E X.
Proof.
  intros Hs HE HX. rewrite round32_unfold.
  change (2^63) with 9223372036854775808. change (2^52) with 4503599627370496.
  destruct (fields64 s E X Hs HE HX) as [-> [-> ->]]. reflexivity.
Qed.

Lemma round32_widen32 p : p < 4294967296 -> b32_not_nan p = true -> round32 (widen32 p) = Ok p.
Proof.
  intros P NN. unfold widen32, b32_not_nan in *.
  change (2^31) with 2147483648 in *. change (2^23) with 8388608 in *.
  change (2^63) with 9223372036854775808. change (2^52) with 4503599627370496.
  assert (Hp : p = (p / 2147483648) * 2147483648 + ((p / 8388608) mod 256) * 8388608 + p mod 8388608) by lia.
  assert (Hs : p / 2147483648 < 2) by lia.
  assert (He : (p / 8388608) mod 256 < 256) by lia.
  assert (Hm : p mod 8388608 < 8388608) by lia.
  set (s := p / 2147483648) in *. set (e := (p / 8388608) mod 256) in *. set (m := p mod 8388608) in *.
  clearbody s e m. subst p. clear P.
  destruct (e =? 255) eqn:E255.
  - (* infinities *)
    destruct (m =? 0) eqn:M0; [|discriminate].
    rewrite round32_fields by lia. unfold round32_f. cbn [N.eqb Pos.eqb].
    change (2^31) with 2147483648. f_equal. lia.
  - destruct (e =? 0) eqn:E0.
    + destruct (m =? 0) eqn:M0.
      * (* zeros *)
        replace (s * 9223372036854775808) with (s * 9223372036854775808 + 0 * 4503599627370496 + 0) by lia.
        rewrite round32_fields by lia. unfold round32_f. cbn [N.eqb].
        change (2^31) with 2147483648. f_equal. lia.
      * (* subnormals *)
        assert (M1 : 0 < m) by lia.
        pose proof (N.log2_spec m M1) as [LA LB]. rewrite N.pow_succ_r' in LB.
        assert (K : N.log2 m < 23) by (apply N.log2_lt_pow2; [exact M1|exact Hm]).
        set (k := N.log2 m) in *. clearbody k.
        assert (AB : 2^k * 2^(52 - k) = 4503599627370496).
        { rewrite <- N.pow_add_r. replace (k + (52 - k)) with 52 by lia. reflexivity. }
        assert (B0 : 2^(52 - k) <> 0) by (apply N.pow_nonzero; discriminate).
        assert (H0 : 2^(52 - k - 1) <> 0) by (apply N.pow_nonzero; discriminate).
        remember (2^k) as A eqn:HA. remember (2^(52 - k)) as B eqn:HB.
        remember (2^(52 - k - 1)) as Hf eqn:HH.
        assert (XB : (m - A) * B < 4503599627370496).
        { rewrite <- AB. apply N.mul_lt_mono_pos_r; lia. }
        rewrite round32_fields by lia. unfold round32_f.
        destruct (k + 874 =? 2047) eqn:C1; [lia|]. destruct (k + 874 =? 0) eqn:C2; [lia|].
        destruct (897 <=? k + 874) eqn:C3; [lia|].
        replace (926 - (k + 874)) with (52 - k) by lia.
        change (2^52) with 4503599627370496. change (2^31) with 2147483648.
        assert (HM : 4503599627370496 + (m - A) * B = m * B).
        { rewrite <- AB, N.mul_sub_distr_r. assert (A * B <= m * B) by (apply N.mul_le_mono_r; lia). lia. }
        rewrite HM, <- HB, <- HH. rewrite N.div_mul, N.mod_mul by assumption.
        destruct (Hf <? 0) eqn:C4; [lia|]. destruct (0 =? Hf) eqn:C5; [lia|]. cbn [orb andb].
        destruct (2139095040 <=? 0 + m) eqn:C6; [lia|]. f_equal. lia.
    + (* normal numbers *)
      change (2^29) with 536870912.
      rewrite round32_fields by lia. unfold round32_f.
      destruct (e + 896 =? 2047) eqn:C1; [lia|]. destruct (e + 896 =? 0) eqn:C2; [lia|].
      destruct (897 <=? e + 896) eqn:C3; [|lia].
      change (2^29) with 536870912. change (2^(29 - 1)) with 268435456.
      change (2^52) with 4503599627370496. change (2^31) with 2147483648. change (2^23) with 8388608.
      assert (Q : (4503599627370496 + m * 536870912) / 536870912 = 8388608 + m) by lia.
      assert (R : (4503599627370496 + m * 536870912) mod 536870912 = 0) by lia.
      rewrite Q, R. change (268435456 <? 0) with false. change (0 =? 268435456) with false. cbn [orb andb].
      destruct (2139095040 <=? (e + 896 - 897) * 8388608 + (8388608 + m)) eqn:O; [lia|]. f_equal. lia.
Qed.
