(* PrimFloat.v — lemmas about round32 / widen32 (kept apart: slow arithmetic) *)
From Bac Require Import Base Prim.
From Coq Require Import ZifyBool ZifyN ZifyNat.
Ltac Zify.zify_post_hook ::= Z.to_euclidean_division_equations.
Open Scope N_scope.
