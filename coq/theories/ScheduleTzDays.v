(* ScheduleTzDays.v — the calendar sweep behind ScheduleTzFacts: for every day number of
   1900-01-01 .. 2154-12-31 (day_lo .. day_hi, 93137 days) the closed forms days_from_civil /
   civil_from_days are inverse, the date is a valid BACnet date and the next day number is the model's
   successor date.  One vm_compute over the whole range, lifted by forallb_forall. *)
From Coq Require Import ZifyBool ZifyN ZifyNat.
From Bac Require Import Base PyRt Calendar CalendarFacts ScheduleEval ScheduleTz.
Open Scope Z_scope.

Definition day_lo : Z := -25567.      (* 1900-01-01 *)
Definition day_hi : Z := 67569.       (* 2154-12-31 *)
Definition day_count : nat := 93137.

Fixpoint zrange (lo : Z) (n : nat) : list Z :=
  match n with O => [] | S k => lo :: zrange (lo + 1) k end.
Lemma In_zrange : forall n lo z, lo <= z < lo + Z.of_nat n -> In z (zrange lo n).
Proof.
  induction n as [|k IH]; intros lo z H; [lia|]. cbn [zrange].
  destruct (Z.eq_dec z lo) as [E | E]; [left; auto | right; apply IH; lia].
Qed.
Lemma day_count_val : Z.of_nat day_count = 93137.
Proof. vm_compute. reflexivity. Qed.

Definition d4_eqb (a b : D4) : bool :=
  let '(a1, a2, a3, a4) := a in let '(b1, b2, b3, b4) := b in
  (a1 =? b1) && (a2 =? b2) && (a3 =? b3) && (a4 =? b4).
Lemma d4_eqb_eq : forall a b, d4_eqb a b = true -> a = b.
Proof. intros [[[a1 a2] a3] a4] [[[b1 b2] b3] b4] H. unfold d4_eqb in H. repeat f_equal; lia. Qed.

(* one day number: the closed forms are inverse, the date is a valid BACnet date, the next day
   number is the model's successor date (so the day-of-week field is the calendar's) *)
Definition day_check (z : Z) : bool :=
  let '(y, m, d) := civil_from_days z in
  (days_from_civil y m d =? z) && valid_dateb (date_of_days z)
  && d4_eqb (date_of_days (z + 1)) (next_date (date_of_days z)).

Lemma day_sweep : forallb day_check (zrange day_lo day_count) = true.
Proof. vm_compute. reflexivity. Qed.

Definition day_in_range (z : Z) : Prop := day_lo <= z <= day_hi.

Lemma day_check_ok : forall z, day_in_range z -> day_check z = true.
Proof.
  intros z H. pose proof day_sweep as S. rewrite forallb_forall in S. apply S. apply In_zrange.
  rewrite day_count_val. unfold day_in_range, day_lo, day_hi in *. lia.
Qed.

Lemma day_check_parts : forall z, day_in_range z ->
  let '(y, m, d) := civil_from_days z in
  days_from_civil y m d = z /\ valid_dateb (date_of_days z) = true /\
  d4_eqb (date_of_days (z + 1)) (next_date (date_of_days z)) = true.
Proof.
  intros z H. apply day_check_ok in H. unfold day_check in H.
  destruct (civil_from_days z) as [[y m] d].
  apply andb_true_iff in H. destruct H as [H H3]. apply andb_true_iff in H. destruct H as [H1 H2].
  apply Z.eqb_eq in H1. auto.
Qed.

Lemma civil_roundtrip : forall z, day_in_range z ->
  let '(y, m, d) := civil_from_days z in days_from_civil y m d = z.
Proof.
  intros z H. apply day_check_parts in H. destruct (civil_from_days z) as [[y m] d]. tauto.
Qed.

Lemma date_of_days_valid : forall z, day_in_range z -> valid_date (date_of_days z).
Proof.
  intros z H. apply day_check_parts in H. destruct (civil_from_days z) as [[y m] d].
  apply valid_dateb_spec. tauto.
Qed.

Lemma date_of_days_next : forall z, day_in_range z -> date_of_days (z + 1) = next_date (date_of_days z).
Proof.
  intros z H. apply day_check_parts in H. destruct (civil_from_days z) as [[y m] d].
  apply d4_eqb_eq. tauto.
Qed.

