(* DeferredFacts.v — lemmas about Deferred.v *)
From Bac Require Import Base Deferred.
