(* DeferredFacts.v — lemmas about Deferred.v: with the per-call guard every function handed to
   the queue is called exactly once, in submission order, and the loop terminates; without it
   (the pinned tree before the fix) the rest of a detached batch is lost. *)
From Bac Require Import Base Deferred.
From Coq Require Import Permutation.
Open Scope Z_scope.

Lemma d_size_eq : forall i r sp a, d_size (DF i r sp a) = S (f_size sp).
Proof.
  intros. reflexivity.
Qed.

Lemma d_all_eq : forall i r sp a, d_all (DF i r sp a) = DF i r sp a :: f_all sp.
Proof.
  intros. reflexivity.
Qed.

Lemma d_size_pos : forall d, (1 <= d_size d)%nat.
Proof. intros [i r sp a]. rewrite d_size_eq. lia. Qed.

Lemma f_size_app : forall a b, f_size (a ++ b) = (f_size a + f_size b)%nat.
Proof. induction a as [|x a IH]; intros; cbn [f_size app]; [reflexivity|]. rewrite IH. lia. Qed.

Lemma f_all_app : forall a b, f_all (a ++ b) = f_all a ++ f_all b.
Proof. induction a as [|x a IH]; intros; cbn [f_all app]; [reflexivity|]. rewrite IH, app_assoc. reflexivity. Qed.

Lemma f_size_spawns : forall q, (f_size (flat_map d_spawns q) + length q = f_size q)%nat.
Proof.
  induction q as [|[i r sp a] q IH]; [reflexivity|].
  cbn [flat_map d_spawns length]. rewrite f_size_app. cbn [f_size]. rewrite d_size_eq. lia.
Qed.

Lemma call_batch_guarded : forall b, call_batch true b = (b, flat_map d_spawns b, false).
Proof.
  induction b as [|d b IH]; [reflexivity|].
  cbn [call_batch negb]. rewrite andb_false_r, IH. reflexivity.
Qed.

(* the loop with the guard: terminates with an empty queue, and the list L of calls satisfies
   L = q ++ (everything submitted by the calls of L, in call order): call order = submission order *)
Lemma drain_guarded : forall fuel q, (f_size q <= fuel)%nat ->
  exists L, drain true fuel q = (L, [], DDone) /\ L = q ++ flat_map d_spawns L.
Proof.
  induction fuel as [|f IH]; intros q Hq.
  - destruct q as [|d q]; [exists []; split; reflexivity|].
    cbn [f_size] in Hq. pose proof (d_size_pos d). lia.
  - destruct q as [|d q]; [exists []; split; reflexivity|].
    cbn [drain]. rewrite call_batch_guarded.
    destruct (IH (flat_map d_spawns (d :: q))) as [L' [HL' Hfix]].
    { pose proof (f_size_spawns (d :: q)). cbn [length] in H. lia. }
    rewrite HL'. exists ((d :: q) ++ L'). split; [reflexivity|].
    rewrite flat_map_app, <- Hfix. reflexivity.
Qed.

Lemma f_all_unfold : forall q, Permutation (f_all q) (q ++ f_all (flat_map d_spawns q)).
Proof.
  induction q as [|[i r sp a] q IH]; [constructor|].
  cbn [f_all flat_map d_spawns]. rewrite d_all_eq, f_all_app.
  cbn [app]. constructor.
  rewrite IH. rewrite !app_assoc. apply Permutation_app_tail. apply Permutation_app_comm.
Qed.

(* exactly once: the calls are a permutation of the whole population *)
Lemma drain_guarded_perm : forall fuel q L r s,
  (f_size q <= fuel)%nat -> drain true fuel q = (L, r, s) -> Permutation L (f_all q).
Proof.
  induction fuel as [|f IH]; intros q L r s Hq HL.
  - destruct q as [|d q]; [inversion HL; constructor|].
    cbn [f_size] in Hq. pose proof (d_size_pos d). lia.
  - destruct q as [|d q]; [inversion HL; constructor|].
    cbn [drain] in HL. rewrite call_batch_guarded in HL.
    destruct (drain true f (flat_map d_spawns (d :: q))) as [[c2 q2] s2] eqn:E.
    inversion HL; subst. rewrite (f_all_unfold (d :: q)).
    change (d :: q ++ c2) with ((d :: q) ++ c2).
    apply Permutation_app_head. eapply IH; [|exact E].
    pose proof (f_size_spawns (d :: q)). cbn [length] in H. lia.
Qed.

Lemma drain_all_guarded : forall q,
  exists L, drain_all true q = (L, [], DDone) /\ L = q ++ flat_map d_spawns L /\ Permutation L (f_all q).
Proof.
  intros q. destruct (drain_guarded (f_size q) q (le_n _)) as [L [H1 H2]].
  exists L. repeat split; try assumption.
  eapply drain_guarded_perm; [apply le_n | exact H1].
Qed.

(* distinct functions are therefore called once each *)
Lemma drain_all_nodup : forall q L r s,
  NoDup (map d_id (f_all q)) -> drain_all true q = (L, r, s) -> NoDup (map d_id L).
Proof.
  intros q L r s Hn H.
  eapply Permutation_NoDup; [|exact Hn].
  apply Permutation_map, Permutation_sym. eapply drain_guarded_perm; [apply le_n | exact H].
Qed.

(* without the guard a batch none of whose (transitive) members raises behaves the same *)
Lemma call_batch_noraise : forall g b, forallb (fun d => negb (d_raises d)) b = true ->
  call_batch g b = (b, flat_map d_spawns b, false).
Proof.
  induction b as [|d b IH]; intros H; [reflexivity|].
  cbn [forallb] in H. apply andb_prop in H. destruct H as [H1 H2].
  cbn [call_batch]. destruct (d_raises d); [discriminate|].
  cbn [andb]. rewrite (IH H2). reflexivity.
Qed.

Lemma forallb_perm : forall (f : dfn -> bool) a b, Permutation a b -> forallb f a = true -> forallb f b = true.
Proof.
  intros f a b P H. rewrite forallb_forall in *. intros x Hx. apply H.
  eapply Permutation_in; [apply Permutation_sym; exact P | exact Hx].
Qed.

Lemma drain_noraise : forall g fuel q,
  forallb (fun d => negb (d_raises d)) (f_all q) = true -> drain g fuel q = drain true fuel q.
Proof.
  induction fuel as [|f IH]; intros q H; [reflexivity|].
  destruct q as [|d q]; [reflexivity|].
  pose proof (forallb_perm _ _ _ (f_all_unfold (d :: q)) H) as H'.
  rewrite forallb_app in H'. apply andb_prop in H'. destruct H' as [Ha Hb].
  cbn [drain]. rewrite (call_batch_noraise g _ Ha), call_batch_guarded.
  rewrite (IH _ Hb). reflexivity.
Qed.

(* the defect of the pinned tree: [raising; plain] — plain is neither called nor still queued *)
Lemma drain_unguarded_loses :
  exists q d, In d q /\ (let '(c, r, s) := drain_all false q in ~ In d c /\ ~ In d r /\ s = DRaised).
Proof.
  exists [DF 0 true [] []; DF 1 false [] []], (DF 1 false [] []).
  split; [right; left; reflexivity|].
  vm_compute. repeat split; intros H; repeat (destruct H as [H|H]; try discriminate H); exact H.
Qed.

Lemma no_acts_eq : forall i r sp a,
  no_acts (DF i r sp a) = (match a with [] => true | _ :: _ => false end) && forallb no_acts sp.
Proof. intros. reflexivity. Qed.

Lemma no_acts_spawns : forall d, no_acts d = true -> d_acts d = [] /\ forallb no_acts (d_spawns d) = true.
Proof.
  intros [i r sp a] H. rewrite no_acts_eq in H. apply andb_prop in H. destruct H as [Ha Hs].
  cbn [d_acts d_spawns]. destruct a; [split; [reflexivity | exact Hs] | discriminate].
Qed.
