(* SchedIvFacts.v — the interval / offset in force of a recurring task after any history *)
From Bac Require Import Base Deferred Sched SchedFacts SchedThms SchedIv.
From Coq Require Import Permutation ZifyBool ZifyN ZifyNat.
Ltac Zify.zify_post_hook ::= Z.to_euclidean_division_equations.
Open Scope Z_scope.

(* ---- the attributes are a function of the install_task(interval=, offset=) calls alone ---- *)
Lemma step2_attrs : forall guard jit c m s o m' s' ev,
  step2 guard jit c (m, s) o = ((m', s'), ev) -> m' = attr_step c m o.
Proof.
  intros guard jit c m s o m' s' ev H. destruct o as [o|i oiv ooff]; cbn [step2 attr_step] in *.
  - destruct (step guard jit (eff c m) s o) as [s1 ev1]. inversion H; subst. reflexivity.
  - destruct (is_rec c i).
    + destruct (step guard jit (eff c (set_attrs m i oiv ooff)) s (Reinstall i)) as [s1 ev1]. inversion H; subst. reflexivity.
    + inversion H; subst. reflexivity.
Qed.

Lemma run_ops2_attrs : forall guard jit c ops m s m' s' ev,
  run_ops2 guard jit c (m, s) ops = ((m', s'), ev) -> m' = attrs_after c m ops.
Proof.
  intros guard jit c. induction ops as [|o ops IH]; intros m s m' s' ev H; cbn [run_ops2 attrs_after fold_left] in *.
  - inversion H; subst. reflexivity.
  - destruct (step2 guard jit c (m, s) o) as [[m1 s1] ev1] eqn:S.
    destruct (run_ops2 guard jit c (m1, s1) ops) as [[m2 s2] ev2] eqn:R. inversion H; subst.
    apply step2_attrs in S. subst m1. exact (IH _ _ _ _ _ R).
Qed.

Lemma attrs_after_app : forall c a b m, attrs_after c m (a ++ b) = attrs_after c (attrs_after c m a) b.
Proof. intros. unfold attrs_after. apply fold_left_app. Qed.

(* operations that are not install_task(interval=, offset=) of task i leave its attributes alone:
   suspend, resume, install_task(), firings, whatever the callbacks do, calls on other tasks *)
Lemma attrs_after_other : forall c i ops m,
  (forall j a b, In (InstallIv j a b) ops -> j <> i) -> attrs_after c m ops i = m i.
Proof.
  intros c i. induction ops as [|o ops IH]; intros m H; [reflexivity|].
  unfold attrs_after in *. cbn [fold_left]. rewrite IH.
  - destruct o as [o|j a b]; cbn [attr_step]; [reflexivity|].
    destruct (is_rec c j); [|reflexivity]. unfold set_attrs. apply upd_other.
    intros E. apply (H j a b); [left; reflexivity | symmetry; exact E].
  - intros j a b Hin. apply (H j a b). right. exact Hin.
Qed.

(* the interval in force is the LAST one handed over (refused or not), the offset likewise *)
Lemma attrs_after_last : forall c i pre oiv ooff post m, is_rec c i = true ->
  (forall j a b, In (InstallIv j a b) post -> j <> i) ->
  attrs_after c m (pre ++ InstallIv i oiv ooff :: post) i =
    (merge oiv (fst (attrs_after c m pre i)), merge ooff (snd (attrs_after c m pre i))).
Proof.
  intros c i pre oiv ooff post m Hr Hp. rewrite attrs_after_app.
  change (InstallIv i oiv ooff :: post) with ([InstallIv i oiv ooff] ++ post). rewrite attrs_after_app.
  rewrite attrs_after_other by exact Hp. unfold attrs_after at 1. cbn [fold_left attr_step]. rewrite Hr.
  unfold set_attrs. apply upd_same.
Qed.

(* ---- every (re-)installation uses the attributes in force ---- *)
Lemma cfg_get_eff_from : forall c n i m, (i < length c)%nat ->
  cfg_get (eff_from n c m) i = eff_one m (n + i) (cfg_get c i).
Proof.
  induction c as [|k r IH]; intros n i m Hi; [cbn in Hi; lia|].
  destruct i as [|i]; cbn [eff_from cfg_get nth].
  - rewrite Nat.add_0_r. reflexivity.
  - unfold cfg_get in IH. rewrite IH by (cbn in Hi; lia). f_equal. lia.
Qed.

Lemma eff_kind : forall c m i, (i < length c)%nat ->
  t_kind (cfg_get (eff c m) i) =
    match t_kind (cfg_get c i) with OneShot => OneShot | Recurring _ _ => Recurring (iv_force m i) (off_force m i) end.
Proof.
  intros c m i Hi. unfold eff. rewrite cfg_get_eff_from by exact Hi. cbn [Nat.add]. unfold eff_one.
  destruct (t_kind (cfg_get c i)) eqn:K; [exact K | reflexivity].
Qed.

Lemma is_rec_lt : forall c i, is_rec c i = true -> (i < length c)%nat.
Proof.
  intros c i H. destruct (Nat.lt_ge_cases i (length c)) as [L|G]; [exact L|].
  unfold is_rec, cfg_get in H. rewrite nth_overflow in H by exact G. discriminate H.
Qed.

(* install_task(interval=, offset=): the attributes are merged first; then either the call is refused
   (interval in force unset or <= 0) and the schedule is untouched, or the task's single queue entry
   is the least slot of the interval / offset IN FORCE strictly after now + jitter *)
Lemma installiv_uses_in_force : forall guard jit c m s i oiv ooff m' s' ev, 0 <= jit -> is_rec c i = true ->
  step2 guard jit c (m, s) (InstallIv i oiv ooff) = ((m', s'), ev) ->
  m' = set_attrs m i oiv ooff /\
  (if iv_force m' i <=? 0 then s' = s /\ ev = [EvErr RuntimeErr]
   else let t := next_slot jit (iv_force m' i) (off_force m' i) (now s) in
        ttime s' i = Some t /\ In (t, ctr s, i) (heap s') /\ ev = [EvInst i false] /\
        now s < t /\ (t - off_force m' i) mod (iv_force m' i) = 0).
Proof.
  intros guard jit c m s i oiv ooff m' s' ev Hj Hr H. pose proof (is_rec_lt _ _ Hr) as Hl.
  cbn [step2] in H. rewrite Hr in H. set (m1 := set_attrs m i oiv ooff) in *.
  cbn [step do_act] in H. unfold do_reinstall in H. rewrite eff_kind in H by exact Hl.
  unfold is_rec in Hr. destruct (t_kind (cfg_get c i)) as [|iv0 off0]; [discriminate|].
  unfold rec_install in H. destruct (iv_force m1 i <=? 0) eqn:E.
  - cbn [bind lift] in H. inversion H; subst. split; [reflexivity|]. rewrite E. split; reflexivity.
  - match type of H with context [tm_install ?a ?b] => destruct (tm_install a b) as [s2|] eqn:T end.
    + cbn [bind lift] in H. inversion H; subst. split; [reflexivity|]. rewrite E.
      destruct (tm_install_heap _ _ _ T) as [t [h1 [Ht [_ [Hp _]]]]].
      cbn [set_ttime ttime ctr] in Ht, Hp. rewrite upd_same in Ht. inversion Ht; subst t.
      assert (Htt : ttime s' i = Some (next_slot jit (iv_force m1 i) (off_force m1 i) (now s))).
      { unfold tm_install in T. cbn [set_ttime ttime] in T. rewrite upd_same in T.
        match type of T with context [if ?b then _ else _] => destruct b end; inversion T; subst; cbn [ttime tm_suspend];
          try (unfold tm_suspend; cbn [set_ttime heap]; destruct (remove_tid i (heap s)); cbn [ttime]); apply upd_same. }
      split; [exact Htt|]. split.
      { eapply Permutation_in; [apply Permutation_sym, Hp | left; reflexivity]. }
      split; [reflexivity|].
      assert (Hiv : 0 < iv_force m1 i) by lia.
      destruct (next_slot_spec jit (iv_force m1 i) (off_force m1 i) (now s) Hiv) as [Hs Hb].
      split.
      * rewrite Hs. cbv zeta in Hb. lia.
      * rewrite Hs. replace (off_force m1 i + iv_force m1 i * ((now s + jit - off_force m1 i) / iv_force m1 i + 1) - off_force m1 i)
          with (((now s + jit - off_force m1 i) / iv_force m1 i + 1) * iv_force m1 i) by ring.
        apply Z.mod_mul. lia.
    + unfold tm_install in T. cbn [set_ttime ttime] in T. rewrite upd_same in T. discriminate T.
Qed.

(* install_task() of a recurring task (history operation, callback action or the automatic re-install of
   process_task all run under `eff c m`): the same slot arithmetic with the attributes in force *)
Lemma reinstall_uses_in_force : forall jit c m s i s', is_rec c i = true ->
  do_reinstall jit (eff c m) s i = Ok s' ->
  0 < iv_force m i /\ ttime s' i = Some (next_slot jit (iv_force m i) (off_force m i) (now s)).
Proof.
  intros jit c m s i s' Hr H. pose proof (is_rec_lt _ _ Hr) as Hl.
  unfold do_reinstall in H. rewrite eff_kind in H by exact Hl.
  unfold is_rec in Hr. destruct (t_kind (cfg_get c i)) as [|iv0 off0]; [discriminate|].
  unfold rec_install in H. destruct (iv_force m i <=? 0) eqn:E; [discriminate|]. split; [lia|].
  unfold tm_install in H. cbn [set_ttime ttime] in H. rewrite upd_same in H.
  match type of H with context [if ?b then _ else _] => destruct b end; inversion H; subst; cbn [ttime tm_suspend];
    try (unfold tm_suspend; cbn [set_ttime heap]; destruct (remove_tid i (heap s)); cbn [ttime]); apply upd_same.
Qed.

(* the whole statement for histories: after ANY history (any operations of Sched.v — suspend, resume,
   install_task(), firings, raising callbacks, callbacks that schedule — and any install_task(interval=,
   offset=) calls, refused or not) the attributes are `attrs_after` of the calls, and the next
   install_task(interval=, offset=) of task i queues the least slot of the interval / offset then in force *)
Lemma c14_recurring_interval_in_force : forall guard jit c ctor ops m s ev i oiv ooff m' s' ev',
  0 <= jit -> is_rec c i = true ->
  run_ops2 guard jit c (attrs0 ctor, st0) ops = ((m, s), ev) ->
  step2 guard jit c (m, s) (InstallIv i oiv ooff) = ((m', s'), ev') ->
  m = attrs_after c (attrs0 ctor) ops /\
  m' = set_attrs m i oiv ooff /\
  (if iv_force m' i <=? 0 then s' = s /\ ev' = [EvErr RuntimeErr]
   else let t := next_slot jit (iv_force m' i) (off_force m' i) (now s) in
        ttime s' i = Some t /\ In (t, ctr s, i) (heap s') /\ ev' = [EvInst i false] /\
        now s < t /\ (t - off_force m' i) mod (iv_force m' i) = 0).
Proof.
  intros guard jit c ctor ops m s ev i oiv ooff m' s' ev' Hj Hr R S.
  split; [eapply run_ops2_attrs; exact R|]. eapply installiv_uses_in_force; eassumption.
Qed.
