(* Ssm.v — executable model of bacpypes/appservice.py: SSM / ClientSSM / ServerSSM (lines 43-1130)
   and StateMachineAccessPoint (1136-1380), transcribed branch by branch from the tree *with* the
   five `fix:` commits recorded in known_findings/C04.json, C05.json, C12.json.  No proofs here.

   Conventions: octets, header fields, times (virtual milliseconds) are Z; an absent header field is -1;
   `actualWindowSize`, the decoded max-segments value and the device-information fields that can be
   `None` in Python are `option Z`.  A handler is a state transformer over `hst` that can stop with a
   Python exception class (`err`): everything it changed and emitted before the raise is kept, exactly
   as the mutations and calls made before a `raise` are kept in Python. *)
From Bac Require Import Base PyRt.
From BacGen Require Import ApduFns.
Open Scope Z_scope.

(* ---------- APDUs as they are on the wire (decoded fixed header + payload) ---------- *)
Record apdu := mkApdu {
  a_type : Z; a_seg : bool; a_mor : bool; a_sa : bool; a_srv : bool; a_nak : bool;
  a_seq : Z; a_win : Z; a_maxsegs : Z; a_maxresp : Z; a_service : Z; a_invoke : Z; a_reason : Z;
  a_data : list Z }.

Definition mk_creq (seg mor sa : bool) (seq win maxsegs maxresp invoke service : Z) (d : list Z) : apdu :=
  mkApdu 0 seg mor sa false false (if seg then seq else -1) (if seg then win else -1) maxsegs maxresp service invoke (-1) d.
Definition mk_sack (invoke service : Z) : apdu :=
  mkApdu 2 false false false false false (-1) (-1) (-1) (-1) service invoke (-1) [].
Definition mk_cack (seg mor : bool) (seq win invoke service : Z) (d : list Z) : apdu :=
  mkApdu 3 seg mor false false false (if seg then seq else -1) (if seg then win else -1) (-1) (-1) service invoke (-1) d.
Definition mk_segack (nak srv : bool) (invoke seq win : Z) : apdu :=
  mkApdu 4 false false false srv nak seq win (-1) (-1) (-1) invoke (-1) [].
Definition mk_error (invoke service : Z) (d : list Z) : apdu :=
  mkApdu 5 false false false false false (-1) (-1) (-1) (-1) service invoke (-1) d.
Definition mk_reject (invoke reason : Z) : apdu :=
  mkApdu 6 false false false false false (-1) (-1) (-1) (-1) (-1) invoke reason [].
Definition mk_abort (srv : bool) (invoke reason : Z) : apdu :=
  mkApdu 7 false false false srv false (-1) (-1) (-1) (-1) (-1) invoke reason [].

(* APCI.encode: number of header octets (apdu.py:176-245) *)
Definition hdr_len (a : apdu) : Z :=
  if a_type a =? 0 then (if a_seg a then 6 else 4)
  else if a_type a =? 3 then (if a_seg a then 5 else 3)
  else if a_type a =? 4 then 4
  else if a_type a =? 1 then 2
  else 3.
Definition enc_len (a : apdu) : Z := hdr_len a + zlen (a_data a).

(* ---------- constants ---------- *)
Definition IDLE := 0.  Definition SEGMENTED_REQUEST := 1.  Definition AWAIT_CONFIRMATION := 2.
Definition AWAIT_RESPONSE := 3.  Definition SEGMENTED_RESPONSE := 4.  Definition SEGMENTED_CONFIRMATION := 5.
Definition COMPLETED := 6.  Definition ABORTED := 7.
(* segmentationSupported: 0 none, 1 transmit, 2 receive, 3 both *)
Definition can_tx (s : Z) : bool := (s =? 1) || (s =? 3).
Definition can_rx (s : Z) : bool := (s =? 2) || (s =? 3).
(* AbortReason *)
Definition R_OTHER := 0.  Definition R_INVALID_APDU := 2.  Definition R_SEG_NOT_SUPPORTED := 4.
Definition R_APDU_TOO_LONG := 11.  Definition R_SERVER_TIMEOUT := 64.  Definition R_NO_RESPONSE := 65.

(* what a node knows about a peer (app.DeviceInfo) *)
Record dinfo := mkDinfo { d_maxapdu : option Z; d_seg : Z; d_maxsegs : option Z; d_maxnpdu : option Z }.

Record ssm := mkSsm {
  s_peer : Z; s_invoke : Z; s_state : Z;
  s_ctx : option apdu;                 (* segmentAPDU *)
  s_segsize : Z; s_segcount : Z;
  s_retry : Z; s_segretry : Z; s_sentall : bool; s_lastseq : Z; s_initseq : Z; s_actwin : option Z;
  (* copies of the local configuration taken in SSM.__init__ (the server overwrites two in idle) *)
  s_retries : Z; s_apdu_to : Z; s_seg_to : Z; s_segsupp : Z; s_maxsegs : option Z; s_maxapdu : Z;
  s_sra : bool;                        (* segmented_response_accepted *)
  s_timer : option (Z * Z);            (* (when, TaskManager counter) while scheduled *)
  s_dinfo : option dinfo;
  (* read through ssmSAP at the time of use: constant per node *)
  s_propwin : Z; s_app_to : Z }.

Inductive out := Tx (a : apdu) | ToApp (a : apdu).

(* handler state: the transaction, what it emitted (newest first), the TaskManager counter, the clock,
   and whether it is still in its SMAP list *)
Record hst := mkH { h_s : ssm; h_outs : list out; h_ctr : Z; h_now : Z; h_live : bool }.
Definition M := hst -> hst * option err.
Definition ret : M := fun st => (st, None).
Definition raise (e : err) : M := fun st => (st, Some e).
Definition mseq (m1 m2 : M) : M := fun st => match m1 st with (st', None) => m2 st' | r => r end.
Notation "m1 ;; m2" := (mseq m1 m2) (at level 61, right associativity).
Definition upd (f : ssm -> ssm) : M := fun st => (mkH (f (h_s st)) (h_outs st) (h_ctr st) (h_now st) (h_live st), None).
Definition emit (o : out) : M := fun st => (mkH (h_s st) (o :: h_outs st) (h_ctr st) (h_now st) (h_live st), None).
Definition withs (k : ssm -> M) : M := fun st => k (h_s st) st.

(* field updates *)
Definition set_state_f v s := mkSsm (s_peer s) (s_invoke s) v (s_ctx s) (s_segsize s) (s_segcount s) (s_retry s) (s_segretry s) (s_sentall s) (s_lastseq s) (s_initseq s) (s_actwin s) (s_retries s) (s_apdu_to s) (s_seg_to s) (s_segsupp s) (s_maxsegs s) (s_maxapdu s) (s_sra s) (s_timer s) (s_dinfo s) (s_propwin s) (s_app_to s).
Definition set_timer_f v s := mkSsm (s_peer s) (s_invoke s) (s_state s) (s_ctx s) (s_segsize s) (s_segcount s) (s_retry s) (s_segretry s) (s_sentall s) (s_lastseq s) (s_initseq s) (s_actwin s) (s_retries s) (s_apdu_to s) (s_seg_to s) (s_segsupp s) (s_maxsegs s) (s_maxapdu s) (s_sra s) v (s_dinfo s) (s_propwin s) (s_app_to s).
Definition set_invoke_f v s := mkSsm (s_peer s) v (s_state s) (s_ctx s) (s_segsize s) (s_segcount s) (s_retry s) (s_segretry s) (s_sentall s) (s_lastseq s) (s_initseq s) (s_actwin s) (s_retries s) (s_apdu_to s) (s_seg_to s) (s_segsupp s) (s_maxsegs s) (s_maxapdu s) (s_sra s) (s_timer s) (s_dinfo s) (s_propwin s) (s_app_to s).
Definition set_ctx_f v s := mkSsm (s_peer s) (s_invoke s) (s_state s) v (s_segsize s) (s_segcount s) (s_retry s) (s_segretry s) (s_sentall s) (s_lastseq s) (s_initseq s) (s_actwin s) (s_retries s) (s_apdu_to s) (s_seg_to s) (s_segsupp s) (s_maxsegs s) (s_maxapdu s) (s_sra s) (s_timer s) (s_dinfo s) (s_propwin s) (s_app_to s).
Definition set_seg_f sz cnt s := mkSsm (s_peer s) (s_invoke s) (s_state s) (s_ctx s) sz cnt (s_retry s) (s_segretry s) (s_sentall s) (s_lastseq s) (s_initseq s) (s_actwin s) (s_retries s) (s_apdu_to s) (s_seg_to s) (s_segsupp s) (s_maxsegs s) (s_maxapdu s) (s_sra s) (s_timer s) (s_dinfo s) (s_propwin s) (s_app_to s).
Definition set_retry_f v s := mkSsm (s_peer s) (s_invoke s) (s_state s) (s_ctx s) (s_segsize s) (s_segcount s) v (s_segretry s) (s_sentall s) (s_lastseq s) (s_initseq s) (s_actwin s) (s_retries s) (s_apdu_to s) (s_seg_to s) (s_segsupp s) (s_maxsegs s) (s_maxapdu s) (s_sra s) (s_timer s) (s_dinfo s) (s_propwin s) (s_app_to s).
Definition set_segretry_f v s := mkSsm (s_peer s) (s_invoke s) (s_state s) (s_ctx s) (s_segsize s) (s_segcount s) (s_retry s) v (s_sentall s) (s_lastseq s) (s_initseq s) (s_actwin s) (s_retries s) (s_apdu_to s) (s_seg_to s) (s_segsupp s) (s_maxsegs s) (s_maxapdu s) (s_sra s) (s_timer s) (s_dinfo s) (s_propwin s) (s_app_to s).
Definition set_sentall_f v s := mkSsm (s_peer s) (s_invoke s) (s_state s) (s_ctx s) (s_segsize s) (s_segcount s) (s_retry s) (s_segretry s) v (s_lastseq s) (s_initseq s) (s_actwin s) (s_retries s) (s_apdu_to s) (s_seg_to s) (s_segsupp s) (s_maxsegs s) (s_maxapdu s) (s_sra s) (s_timer s) (s_dinfo s) (s_propwin s) (s_app_to s).
Definition set_lastseq_f v s := mkSsm (s_peer s) (s_invoke s) (s_state s) (s_ctx s) (s_segsize s) (s_segcount s) (s_retry s) (s_segretry s) (s_sentall s) v (s_initseq s) (s_actwin s) (s_retries s) (s_apdu_to s) (s_seg_to s) (s_segsupp s) (s_maxsegs s) (s_maxapdu s) (s_sra s) (s_timer s) (s_dinfo s) (s_propwin s) (s_app_to s).
Definition set_initseq_f v s := mkSsm (s_peer s) (s_invoke s) (s_state s) (s_ctx s) (s_segsize s) (s_segcount s) (s_retry s) (s_segretry s) (s_sentall s) (s_lastseq s) v (s_actwin s) (s_retries s) (s_apdu_to s) (s_seg_to s) (s_segsupp s) (s_maxsegs s) (s_maxapdu s) (s_sra s) (s_timer s) (s_dinfo s) (s_propwin s) (s_app_to s).
Definition set_actwin_f v s := mkSsm (s_peer s) (s_invoke s) (s_state s) (s_ctx s) (s_segsize s) (s_segcount s) (s_retry s) (s_segretry s) (s_sentall s) (s_lastseq s) (s_initseq s) v (s_retries s) (s_apdu_to s) (s_seg_to s) (s_segsupp s) (s_maxsegs s) (s_maxapdu s) (s_sra s) (s_timer s) (s_dinfo s) (s_propwin s) (s_app_to s).
Definition set_limits_f ms ma sra s := mkSsm (s_peer s) (s_invoke s) (s_state s) (s_ctx s) (s_segsize s) (s_segcount s) (s_retry s) (s_segretry s) (s_sentall s) (s_lastseq s) (s_initseq s) (s_actwin s) (s_retries s) (s_apdu_to s) (s_seg_to s) (s_segsupp s) ms ma sra (s_timer s) (s_dinfo s) (s_propwin s) (s_app_to s).

(* ---------- SSM (appservice.py:92-248) ---------- *)
Definition stop_timer : M := upd (set_timer_f None).
(* start_timer / restart_timer: suspend if scheduled, install at now + msecs: one TaskManager counter value *)
Definition start_timer (msecs : Z) : M := fun st =>
  (mkH (set_timer_f (Some (h_now st + msecs, h_ctr st)) (h_s st)) (h_outs st) (h_ctr st + 1) (h_now st) (h_live st), None).
Definition unlist : M := fun st => (mkH (h_s st) (h_outs st) (h_ctr st) (h_now st) false, None).

(* SSM.set_state + ClientSSM/ServerSSM.set_state (terminal states leave the transaction list) *)
Definition set_state (new timer : Z) : M :=
  withs (fun s =>
    if (s_state s =? COMPLETED) || (s_state s =? ABORTED) then raise RuntimeErr
    else stop_timer ;; upd (set_state_f new) ;;
         (if timer =? 0 then ret else start_timer timer) ;;
         (if (new =? COMPLETED) || (new =? ABORTED) then unlist else ret)).

Definition slice (d : list Z) (off sz : Z) : list Z :=
  firstn (Z.to_nat sz) (skipn (Z.to_nat off) d).

Definition enc_maxsegs (o : option Z) : res Z :=
  match o with None => Ok 0 | Some v => encode_max_segments_accepted v end.

(* SSM.get_segment (149-211) *)
Definition get_segment (s : ssm) (indx : Z) : res apdu :=
  match s_ctx s with
  | None => Err RuntimeErr
  | Some c =>
    if s_segcount s <=? indx then Err RuntimeErr
    else
      let segd := negb (s_segcount s =? 1) in
      let mor := indx <? s_segcount s - 1 in
      let sq := indx mod 256 in
      let win := if indx =? 0 then s_propwin s else match s_actwin s with Some w => w | None => -1 end in
      let d := slice (a_data c) (indx * s_segsize s) (s_segsize s) in
      if a_type c =? 0 then
        do ms <- enc_maxsegs (s_maxsegs s);
        do mr <- encode_max_apdu_length_accepted (s_maxapdu s);
        Ok (mk_creq segd (segd && mor) (can_rx (s_segsupp s)) sq win ms mr (s_invoke s) (a_service c) d)
      else if a_type c =? 3 then
        Ok (mk_cack segd (segd && mor) sq win (a_invoke c) (a_service c) d)
      else Err RuntimeErr
  end.

Definition send_seg (indx : Z) : M :=
  withs (fun s => match get_segment s indx with Ok a => emit (Tx a) | Err e => raise e end).

(* SSM.in_window (225) *)
Definition in_window (seqA seqB win : Z) : bool := ((seqA - seqB + 256) mod 256) <? win.

(* SSM.fill_window (233-248): `n` iterations left, next offset `ix` *)
Fixpoint fill_loop (n : nat) (seqNum ix : Z) : M :=
  match n with
  | O => ret
  | S n' =>
    withs (fun s => match get_segment s (seqNum + ix) with
      | Err e => raise e
      | Ok a => emit (Tx a) ;;
                (if a_mor a then fill_loop n' seqNum (ix + 1) else upd (set_sentall_f true))
      end)
  end.
Definition fill_window (seqNum : Z) : M :=
  withs (fun s => match s_actwin s with
    | None => raise TypeErr                      (* range(None) *)
    | Some w => fill_loop (Z.to_nat w) seqNum 0
    end).

Definition append_segment (a : apdu) : M :=
  withs (fun s => match s_ctx s with
    | None => raise RuntimeErr
    | Some c => upd (set_ctx_f (Some (mkApdu (a_type c) (a_seg c) (a_mor c) (a_sa c) (a_srv c) (a_nak c) (a_seq c) (a_win c)
                                             (a_maxsegs c) (a_maxresp c) (a_service c) (a_invoke c) (a_reason c) (a_data c ++ a_data a))))
    end).

Definition seg_count (len sz : Z) : res Z :=
  if len =? 0 then Ok 1
  else if sz =? 0 then Err OtherErr              (* ZeroDivisionError *)
  else Ok (len / sz + (if len mod sz =? 0 then 0 else 1)).

Definition actwin_z (s : ssm) : Z := match s_actwin s with Some w => w | None => -1 end.

(* ---------- ClientSSM (255-688) ---------- *)
Definition c_abort (reason : Z) (k : apdu -> M) : M :=
  set_state ABORTED 0 ;; withs (fun s => k (mk_abort false (s_invoke s) reason)).

Definition client_segsize (s : ssm) : Z :=
  match s_dinfo s with
  | None => s_maxapdu s
  | Some d => match d_maxapdu d with
              | None => s_maxapdu s
              | Some ma => match d_maxnpdu d with None => ma | Some mn => Z.min mn ma end
              end
  end.

(* the capability checks of ClientSSM.indication (341-370): Some reason = abort locally *)
Definition c_refuse (s : ssm) (cnt : Z) : option Z :=
  if 1 <? cnt then
    if negb (can_tx (s_segsupp s)) then Some R_SEG_NOT_SUPPORTED
    else match s_dinfo s with
         | None => None
         | Some d =>
           if negb (can_rx (d_seg d)) then Some R_SEG_NOT_SUPPORTED
           else match d_maxsegs d with
                | None => None
                | Some m => if m =? 0 then None else if m <? cnt then Some R_APDU_TOO_LONG else None
                end
         end
  else None.

(* ClientSSM.indication (298-388) *)
Definition c_indication (a : apdu) : M :=
  if negb (a_type a =? 0) then raise RuntimeErr else
  upd (set_ctx_f (Some a)) ;;
  withs (fun s =>
    let sz := client_segsize s in
    match seg_count (zlen (a_data a)) sz with
    | Err e => upd (set_seg_f sz (s_segcount s)) ;; upd (set_invoke_f (a_invoke a)) ;; raise e
    | Ok cnt =>
      upd (set_seg_f sz cnt) ;; upd (set_invoke_f (a_invoke a)) ;;
      let refuse := c_refuse s cnt in
      match refuse with
      | Some r => c_abort r (fun ab => emit (ToApp ab))
      | None =>
        (if cnt =? 1 then
           upd (set_sentall_f true) ;; upd (set_retry_f 0) ;; withs (fun s => set_state AWAIT_CONFIRMATION (s_apdu_to s))
         else
           upd (set_sentall_f false) ;; upd (set_retry_f 0) ;; upd (set_segretry_f 0) ;; upd (set_initseq_f 0) ;;
           upd (set_actwin_f None) ;; withs (fun s => set_state SEGMENTED_REQUEST (s_seg_to s))) ;;
        send_seg 0
      end
    end).

(* ClientSSM.segmented_request (448-522) *)
Definition c_segmented_request (a : apdu) : M :=
  withs (fun s =>
  if a_type a =? 4 then
    upd (set_actwin_f (Some (a_win a))) ;;
    (if negb (in_window (a_seq a) (s_initseq s) (a_win a)) then start_timer (s_seg_to s)
     else if s_sentall s then set_state AWAIT_CONFIRMATION (s_apdu_to s)
     else upd (set_initseq_f ((a_seq a + 1) mod 256)) ;; upd (set_segretry_f 0) ;;
          fill_window ((a_seq a + 1) mod 256) ;; start_timer (s_seg_to s))
  else if a_type a =? 2 then
    (if negb (s_sentall s) then c_abort R_INVALID_APDU (fun ab => emit (Tx ab) ;; emit (ToApp ab))
     else set_state COMPLETED 0 ;; emit (ToApp a))
  else if a_type a =? 3 then
    (if negb (s_sentall s) then c_abort R_INVALID_APDU (fun ab => emit (Tx ab) ;; emit (ToApp ab))
     else if negb (a_seg a) then set_state COMPLETED 0 ;; emit (ToApp a)
     else upd (set_ctx_f (Some a)) ;; upd (set_actwin_f (Some (Z.min (a_win a) (s_propwin s)))) ;;
          upd (set_lastseq_f 0) ;; upd (set_initseq_f 0) ;; set_state SEGMENTED_CONFIRMATION (s_seg_to s))
  else if (a_type a =? 5) || (a_type a =? 6) || (a_type a =? 7) then
    set_state COMPLETED 0 ;; emit (ToApp a)
  else raise RuntimeErr).

(* ClientSSM.segmented_request_timeout (524-542) *)
Definition c_segmented_request_timeout : M :=
  withs (fun s =>
  if s_segretry s <? s_retries s then
    upd (set_segretry_f (s_segretry s + 1)) ;; start_timer (s_seg_to s) ;;
    (if s_initseq s =? 0 then send_seg 0 else fill_window (s_initseq s))
  else c_abort R_NO_RESPONSE (fun ab => emit (ToApp ab))).

(* ClientSSM.await_confirmation (544-602) *)
Definition c_await_confirmation (a : apdu) : M :=
  withs (fun s =>
  if a_type a =? 7 then set_state ABORTED 0 ;; emit (ToApp a)
  else if (a_type a =? 2) || (a_type a =? 5) || (a_type a =? 6) then set_state COMPLETED 0 ;; emit (ToApp a)
  else if a_type a =? 3 then
    (if negb (a_seg a) then set_state COMPLETED 0 ;; emit (ToApp a)
     else if negb (can_rx (s_segsupp s)) then c_abort R_SEG_NOT_SUPPORTED (fun ab => emit (ToApp ab))
     else if a_seq a =? 0 then
       upd (set_ctx_f (Some a)) ;; upd (set_actwin_f (Some (a_win a))) ;; upd (set_lastseq_f 0) ;; upd (set_initseq_f 0) ;;
       set_state SEGMENTED_CONFIRMATION (s_seg_to s) ;;
       emit (Tx (mk_segack false false (s_invoke s) 0 (a_win a)))
     else c_abort R_INVALID_APDU (fun ab => emit (Tx ab) ;; emit (ToApp ab)))
  else if a_type a =? 4 then start_timer (s_seg_to s)
  else raise RuntimeErr).

(* ClientSSM.await_confirmation_timeout (604-619) *)
Definition c_await_confirmation_timeout : M :=
  withs (fun s =>
  if s_retry s <? s_retries s then
    upd (set_retry_f (s_retry s + 1)) ;;
    match s_ctx s with
    | None => raise AttrErr                      (* self.segmentAPDU is None: indication(None) *)
    | Some c => c_indication c
    end ;;
    upd (set_retry_f (s_retry s + 1))
  else c_abort R_NO_RESPONSE (fun ab => emit (ToApp ab))).

(* ClientSSM.segmented_confirmation (621-681) *)
Definition c_segmented_confirmation (a : apdu) : M :=
  withs (fun s =>
  if negb (a_type a =? 3) then c_abort R_INVALID_APDU (fun ab => emit (Tx ab) ;; emit (ToApp ab))
  else if negb (a_seg a) then c_abort R_INVALID_APDU (fun ab => emit (Tx ab) ;; emit (ToApp ab))
  else if negb (a_seq a =? (s_lastseq s + 1) mod 256) then
    start_timer (s_seg_to s) ;; emit (Tx (mk_segack true false (s_invoke s) (s_lastseq s) (actwin_z s)))
  else
    append_segment a ;;
    let last := (s_lastseq s + 1) mod 256 in
    upd (set_lastseq_f last) ;;
    (if negb (a_mor a) then
       emit (Tx (mk_segack false false (s_invoke s) last (actwin_z s))) ;;
       set_state COMPLETED 0 ;;
       withs (fun s' => match s_ctx s' with Some c => emit (ToApp c) | None => raise RuntimeErr end)
     else match s_actwin s with
       | None => raise TypeErr
       | Some w =>
         if a_seq a =? (s_initseq s + w) mod 256 then
           upd (set_initseq_f last) ;; start_timer (s_seg_to s) ;;
           emit (Tx (mk_segack false false (s_invoke s) last w))
         else start_timer (s_seg_to s)
       end)).

Definition c_segmented_confirmation_timeout : M := c_abort R_NO_RESPONSE (fun ab => emit (ToApp ab)).

(* ClientSSM.confirmation (402-414) / process_task (416-433) *)
Definition c_confirmation (a : apdu) : M :=
  withs (fun s =>
  if s_state s =? SEGMENTED_REQUEST then c_segmented_request a
  else if s_state s =? AWAIT_CONFIRMATION then c_await_confirmation a
  else if s_state s =? SEGMENTED_CONFIRMATION then c_segmented_confirmation a
  else raise RuntimeErr).
Definition c_process_task : M :=
  withs (fun s =>
  if s_state s =? SEGMENTED_REQUEST then c_segmented_request_timeout
  else if s_state s =? AWAIT_CONFIRMATION then c_await_confirmation_timeout
  else if s_state s =? SEGMENTED_CONFIRMATION then c_segmented_confirmation_timeout
  else if (s_state s =? COMPLETED) || (s_state s =? ABORTED) then ret
  else raise RuntimeErr).

(* ---------- ServerSSM (694-1130) ---------- *)
Definition s_abort (reason : Z) (k : apdu -> M) : M :=
  set_state ABORTED 0 ;; withs (fun s => k (mk_abort true (s_invoke s) reason)).

Definition dec_maxsegs (code : Z) : res (option Z) := decode_max_segments_accepted code.

(* ServerSSM.idle (892-979, with the reserved-code and first-segment fixes) *)
Definition s_idle (a : apdu) : M :=
  if negb (a_type a =? 0) then raise RuntimeErr else
  upd (set_invoke_f (a_invoke a)) ;;
  withs (fun s =>
  match decode_max_apdu_length_accepted (a_maxresp a) with
  | Err ValueErr => upd (set_limits_f (s_maxsegs s) (s_maxapdu s) (a_sa a)) ;; s_abort R_OTHER (fun ab => emit (Tx ab))
  | Err e => upd (set_limits_f (s_maxsegs s) (s_maxapdu s) (a_sa a)) ;; raise e
  | Ok None => raise TypeErr                     (* not reachable: the decoder raises on None *)
  | Ok (Some dec) =>
    let ma := match s_dinfo s with
              | Some d => match d_maxapdu d with
                          | Some dm => if dm <? dec then dec else dm
                          | None => dec end
              | None => dec end in
    match dec_maxsegs (a_maxsegs a) with
    | Err e => upd (set_limits_f (s_maxsegs s) ma (a_sa a)) ;; raise e
    | Ok msegs =>
      upd (set_limits_f msegs ma (a_sa a)) ;;
      if negb (a_seg a) then set_state AWAIT_RESPONSE (s_app_to s) ;; emit (ToApp a)
      else if negb (can_rx (s_segsupp s)) then s_abort R_SEG_NOT_SUPPORTED (fun ab => emit (Tx ab))
      else if negb (a_seq a =? 0) then s_abort R_INVALID_APDU (fun ab => emit (Tx ab))
      else
        let w := Z.min (a_win a) (s_propwin s) in
        upd (set_ctx_f (Some a)) ;; upd (set_actwin_f (Some w)) ;; upd (set_lastseq_f 0) ;; upd (set_initseq_f 0) ;;
        set_state SEGMENTED_REQUEST (s_seg_to s) ;;
        emit (Tx (mk_segack false true (a_invoke a) 0 w))
    end
  end).

(* ServerSSM.segmented_request (981-1049) *)
Definition s_segmented_request (a : apdu) : M :=
  withs (fun s =>
  if a_type a =? 7 then set_state COMPLETED 0 ;; emit (Tx a)
  else if negb (a_type a =? 0) then s_abort R_INVALID_APDU (fun ab => emit (ToApp ab) ;; emit (Tx ab))
  else if negb (a_seg a) then s_abort R_INVALID_APDU (fun ab => emit (ToApp ab) ;; emit (Tx ab))
  else if negb (a_seq a =? (s_lastseq s + 1) mod 256) then
    start_timer (s_seg_to s) ;; emit (Tx (mk_segack true true (s_invoke s) (s_initseq s) (actwin_z s)))
  else
    append_segment a ;;
    let last := (s_lastseq s + 1) mod 256 in
    upd (set_lastseq_f last) ;;
    (if negb (a_mor a) then
       emit (Tx (mk_segack false true (s_invoke s) last (actwin_z s))) ;;
       set_state AWAIT_RESPONSE (s_app_to s) ;;
       withs (fun s' => match s_ctx s' with Some c => emit (ToApp c) | None => raise RuntimeErr end)
     else match s_actwin s with
       | None => raise TypeErr
       | Some w =>
         if a_seq a =? (s_initseq s + w) mod 256 then
           upd (set_initseq_f last) ;; start_timer (s_seg_to s) ;;
           emit (Tx (mk_segack false true (s_invoke s) last w))
         else start_timer (s_seg_to s)
       end)).

Definition s_segmented_request_timeout : M := set_state ABORTED 0.

(* ServerSSM.await_response (1057-1071): the model only ever hands it types 0, 4 (srv=0) and 7 (srv=0) *)
Definition s_await_response (a : apdu) : M :=
  if a_type a =? 0 then ret
  else if a_type a =? 7 then set_state ABORTED 0 ;; emit (ToApp a)
  else raise RuntimeErr.

Definition s_await_response_timeout : M := s_abort R_SERVER_TIMEOUT (fun ab => emit (ToApp ab)).

(* ServerSSM.segmented_response (1082-1117) *)
Definition s_segmented_response (a : apdu) : M :=
  withs (fun s =>
  if a_type a =? 4 then
    upd (set_actwin_f (Some (a_win a))) ;;
    (if negb (in_window (a_seq a) (s_initseq s) (a_win a)) then start_timer (s_seg_to s)
     else if s_sentall s then set_state COMPLETED 0
     else upd (set_initseq_f ((a_seq a + 1) mod 256)) ;; upd (set_segretry_f 0) ;;
          fill_window ((a_seq a + 1) mod 256) ;; start_timer (s_seg_to s))
  else if a_type a =? 7 then set_state COMPLETED 0 ;; emit (Tx a)
  else raise RuntimeErr).

(* ServerSSM.segmented_response_timeout (1119-1137, with the no-ack-yet fix) *)
Definition s_segmented_response_timeout : M :=
  withs (fun s =>
  if s_segretry s <? s_retries s then
    upd (set_segretry_f (s_segretry s + 1)) ;; start_timer (s_seg_to s) ;;
    match s_actwin s with
    | None => send_seg 0
    | Some _ => fill_window (s_initseq s)
    end
  else set_state ABORTED 0).

Definition server_segsize (s : ssm) : Z :=
  match s_dinfo s with
  | None => s_maxapdu s
  | Some d => match d_maxnpdu d with None => s_maxapdu s | Some mn => Z.min mn (s_maxapdu s) end
  end.

(* the capability checks of ServerSSM.confirmation (818-842) *)
Definition s_refuse (s : ssm) (cnt : Z) : option Z :=
  if 1 <? cnt then
    if negb (can_tx (s_segsupp s)) then Some R_SEG_NOT_SUPPORTED
    else if negb (s_sra s) then Some R_SEG_NOT_SUPPORTED
    else match s_maxsegs s with
         | Some m => if m <? cnt then Some R_APDU_TOO_LONG else None
         | None => None end
  else None.

(* ServerSSM.confirmation (762-858): the application's answer *)
Definition s_confirmation (a : apdu) : M :=
  if a_type a =? 7 then set_state ABORTED 0 ;; emit (Tx a)
  else if (a_type a =? 2) || (a_type a =? 5) || (a_type a =? 6) then set_state COMPLETED 0 ;; emit (Tx a)
  else if a_type a =? 3 then
    upd (set_ctx_f (Some a)) ;;
    withs (fun s =>
    let sz := server_segsize s in
    match seg_count (zlen (a_data a)) sz with
    | Err e => upd (set_seg_f sz (s_segcount s)) ;; raise e
    | Ok cnt =>
      upd (set_seg_f sz cnt) ;;
      let refuse := s_refuse s cnt in
      match refuse with
      | Some r => s_abort r (fun ab => emit (Tx ab))
      | None =>
        upd (set_segretry_f 0) ;; upd (set_initseq_f 0) ;; upd (set_actwin_f None) ;;
        if cnt =? 1 then emit (Tx a) ;; set_state COMPLETED 0
        else send_seg 0 ;; set_state SEGMENTED_RESPONSE (s_seg_to s)
      end
    end)
  else raise RuntimeErr.

(* ServerSSM.indication (734-748) / process_task (860-879) *)
Definition s_indication (a : apdu) : M :=
  withs (fun s =>
  if s_state s =? IDLE then s_idle a
  else if s_state s =? SEGMENTED_REQUEST then s_segmented_request a
  else if s_state s =? AWAIT_RESPONSE then s_await_response a
  else if s_state s =? SEGMENTED_RESPONSE then s_segmented_response a
  else ret).
Definition s_process_task : M :=
  withs (fun s =>
  if s_state s =? SEGMENTED_REQUEST then s_segmented_request_timeout
  else if s_state s =? AWAIT_RESPONSE then s_await_response_timeout
  else if s_state s =? SEGMENTED_RESPONSE then s_segmented_response_timeout
  else if (s_state s =? COMPLETED) || (s_state s =? ABORTED) then ret
  else raise RuntimeErr).

(* ---------- StateMachineAccessPoint (1136-1380) ---------- *)
Definition tr_matches (invoke peer : Z) (t : ssm) : bool := (invoke =? s_invoke t) && (peer =? s_peer t).

Fixpoint find_tr (invoke peer : Z) (l : list ssm) (i : nat) : option (nat * ssm) :=
  match l with
  | [] => None
  | t :: r => if tr_matches invoke peer t then Some (i, t) else find_tr invoke peer r (S i)
  end.

(* get_next_invoke_id (1174-1193): returns the result and the new nextInvokeID (advanced even when it raises) *)
Fixpoint alloc_id (fuel : nat) (initial next peer : Z) (live : list ssm) : res Z * Z :=
  match fuel with
  | O => (Err OutOfFuel, next)
  | S f =>
    let id := next in
    let next' := (next + 1) mod 256 in
    if initial =? next' then (Err RuntimeErr, next')
    else if existsb (tr_matches id peer) live then alloc_id f initial next' peer live
    else (Ok id, next')
  end.
Definition get_next_invoke_id (next peer : Z) (live : list ssm) : res Z * Z :=
  alloc_id 257 next next peer live.

(* which table an inbound PDU is looked up in (confirmation, 1226-1303): true = clientTransactions *)
Definition to_client_side (a : apdu) : bool :=
  (a_type a =? 2) || (a_type a =? 3) || (a_type a =? 5) || (a_type a =? 6)
  || (((a_type a =? 7) || (a_type a =? 4)) && a_srv a).

(* order-sensitive checksum used by the canonical traces (harness/ssm_common.py: cksum) *)
Definition cksum (d : list Z) : Z := fold_left (fun acc b => (acc * 31 + b + 1) mod 1000003) d 0.
