(* DeviceRxPeer.v — the key under which DeviceRx.v files a transaction (Ssm.s_peer : Z) determines the station. *)
From Coq Require Import ZifyBool ZifyN ZifyNat.
From Bac Require Import Base DeviceRx.
Open Scope Z_scope.
Ltac Zify.zify_post_hook ::= Z.to_euclidean_division_equations.

Definition mstep (acc : Z) (b : N) : Z := acc * 256 + Z.of_N b.

Lemma fold_mstep_ge m : forall c0, 1 <= c0 -> 1 <= fold_left mstep m c0.
Proof. induction m as [|b r IH]; intros c0 H; cbn [fold_left]; [exact H|]. apply IH. unfold mstep. lia. Qed.

Lemma mac_decode_one fuel l : mac_decode fuel 1 l = l.
Proof. destruct fuel; reflexivity. Qed.

Lemma mac_decode_fold m : forall fuel acc c0, 1 <= c0 -> bytes_ok m = true -> (length m <= fuel)%nat ->
  mac_decode fuel (fold_left mstep m c0) acc = mac_decode (fuel - length m) c0 (m ++ acc).
Proof.
  induction m as [|b r IH] using rev_ind; intros fuel acc c0 Hc Hb Hl.
  - cbn [fold_left length app]. rewrite Nat.sub_0_r. reflexivity.
  - rewrite fold_left_app. cbn [fold_left]. rewrite app_length in Hl. cbn [length] in Hl.
    unfold bytes_ok in Hb. rewrite forallb_app in Hb. apply andb_true_iff in Hb. destruct Hb as (Hr & Hb1).
    cbn [forallb] in Hb1. unfold byte_ok in Hb1.
    pose proof (fold_mstep_ge r c0 Hc) as Hge. set (c' := fold_left mstep r c0) in *.
    destruct fuel as [|fuel]; [lia|]. cbn [mac_decode]. unfold mstep at 1.
    replace (c' * 256 + Z.of_N b <=? 1) with false by lia.
    unfold mstep.
    replace ((c' * 256 + Z.of_N b) / 256) with c' by lia.
    replace (Z.to_N ((c' * 256 + Z.of_N b) mod 256)) with b by lia.
    subst c'. rewrite (IH fuel (b :: acc) c0 Hc Hr ltac:(lia)). rewrite app_length. cbn [length].
    rewrite <- app_assoc. cbn [app]. f_equal. lia.
Qed.

(* peer_decode inverts peer_code: transactions of distinct stations never share a key *)
Lemma peer_decode_code net m : bytes_ok m = true -> (length m <= 300)%nat ->
  match net with Some n => (n < 65536)%N | None => True end ->
  peer_decode (peer_code net m) = (net, m).
Proof.
  intros Hb Hl Hn. unfold peer_decode, peer_code, mac_code.
  change (fun (acc : Z) (b : N) => acc * 256 + Z.of_N b) with mstep.
  pose proof (fold_mstep_ge m 1 ltac:(lia)) as Hge. set (mc := fold_left mstep m 1) in *.
  set (k := match net with None => 0 | Some n => Z.of_N n + 1 end).
  assert (Hk : 0 <= k < 131072) by (subst k; destruct net; lia).
  replace ((mc * 131072 + k) mod 131072) with k by lia.
  replace ((mc * 131072 + k) / 131072) with mc by lia.
  subst mc. rewrite (mac_decode_fold m 300 [] 1 ltac:(lia) Hb Hl), mac_decode_one, app_nil_r.
  f_equal. subst k. destruct net as [n|]; [|reflexivity].
  replace (Z.of_N n + 1 =? 0) with false by lia. f_equal. lia.
Qed.

Lemma peer_code_inj net m net' m' : bytes_ok m = true -> bytes_ok m' = true -> (length m <= 300)%nat -> (length m' <= 300)%nat ->
  match net with Some n => (n < 65536)%N | None => True end -> match net' with Some n => (n < 65536)%N | None => True end ->
  peer_code net m = peer_code net' m' -> net = net' /\ m = m'.
Proof.
  intros B B' L L' H H' E. pose proof (peer_decode_code net m B L H) as D. rewrite E, (peer_decode_code net' m' B' L' H') in D.
  inversion D; auto.
Qed.
