(* SchedIv.v — the interval / offset of a RecurringTask as MUTABLE attributes
   (task.py:170-216):

       def __init__(self, interval=None, offset=None):
           self.taskInterval = interval ; self.taskIntervalOffset = offset
       def install_task(self, interval=None, offset=None):
           if interval is not None: self.taskInterval = interval          # overwritten, ALWAYS
           if offset is not None:   self.taskIntervalOffset = offset
           if self.taskInterval is None: raise RuntimeError("interval unset ...")
           if self.taskInterval <= 0.0:  raise RuntimeError("interval must be greater than zero")
           ... offset = self.taskIntervalOffset / 1000.0 if self.taskIntervalOffset else 0.0
           self.taskTime = (now - offset) + interval - ((now - offset) % interval) + offset
           _task_manager.install_task(self)

   Sched.v keeps interval and offset in the static configuration (`Recurring iv off`): enough for a
   task that is only ever installed with `install_task()`.  Here the two attributes are state
   (`attrs`), the operation `InstallIv i oiv ooff` is `tasks[i].install_task(interval=oiv, offset=ooff)`,
   and every other operation of Sched.v runs under the EFFECTIVE configuration `eff c m`: the
   configuration in which every recurring task carries the interval / offset currently in force
   (unset interval = 0: both refusals are RuntimeErrors and leave the queue alone; unset offset = 0:
   `if self.taskIntervalOffset:`).  The attributes are written BEFORE the checks, so a refused
   call still changes them.  No proofs here (SchedIvFacts.v). *)
From Bac Require Export Base Deferred Sched.
Open Scope Z_scope.

(* (taskInterval, taskIntervalOffset) of every task *)
Definition attrs : Type := nat -> option Z * option Z.

Definition oz0 (o : option Z) : Z := match o with Some z => z | None => 0 end.
Definition iv_force (m : attrs) (i : nat) : Z := oz0 (fst (m i)).
Definition off_force (m : attrs) (i : nat) : Z := oz0 (snd (m i)).

(* `if x is not None: self.attr = x` *)
Definition merge (new old : option Z) : option Z := match new with Some _ => new | None => old end.

Definition set_attrs (m : attrs) (i : nat) (oiv ooff : option Z) : attrs :=
  upd m i (merge oiv (fst (m i)), merge ooff (snd (m i))).

(* the configuration with the attributes in force written into the recurring tasks *)
Definition eff_one (m : attrs) (i : nat) (k : tcfg) : tcfg :=
  match t_kind k with
  | OneShot => k
  | Recurring _ _ => mkT (Recurring (iv_force m i) (off_force m i)) (t_raises k) (t_defers k) (t_acts k)
  end.

Fixpoint eff_from (n : nat) (c : cfg) (m : attrs) : cfg :=
  match c with
  | [] => []
  | k :: r => eff_one m n k :: eff_from (S n) r m
  end.
Definition eff (c : cfg) (m : attrs) : cfg := eff_from 0 c m.

(* the attributes the constructors leave: `ctor` lists (interval, offset) per task *)
Definition attrs0 (ctor : list (option Z * option Z)) : attrs := fun i => nth i ctor (None, None).

Inductive op2 : Set :=
| Plain (o : op)                                  (* any operation of Sched.v *)
| InstallIv (i : nat) (oiv ooff : option Z).      (* tasks[i].install_task(interval=oiv, offset=ooff) *)

Definition is_rec (c : cfg) (i : nat) : bool :=
  match t_kind (cfg_get c i) with Recurring _ _ => true | OneShot => false end.

Definition step2 (guard : bool) (jit : Z) (c : cfg) (ms : attrs * st) (o : op2) : (attrs * st) * list event :=
  let '(m, s) := ms in
  match o with
  | Plain o' => let '(s', ev) := step guard jit (eff c m) s o' in ((m, s'), ev)
  | InstallIv i oiv ooff =>
      if is_rec c i then
        let m' := set_attrs m i oiv ooff in
        let '(s', ev) := step guard jit (eff c m') s (Reinstall i) in ((m', s'), ev)
      else ((m, s), [EvErr TypeErr])               (* _Task.install_task has no such keywords *)
  end.

Fixpoint run_ops2 (guard : bool) (jit : Z) (c : cfg) (ms : attrs * st) (ops : list op2) : (attrs * st) * list event :=
  match ops with
  | [] => (ms, [])
  | o :: r => let '(ms1, ev1) := step2 guard jit c ms o in
              let '(ms2, ev2) := run_ops2 guard jit c ms1 r in (ms2, ev1 ++ ev2)
  end.

(* the attributes after a history, read off the history alone: the last interval (offset) handed
   to install_task of that task, else what the constructor left — whatever else happened
   (suspend, resume, firings, refused calls, callbacks) *)
Definition attr_step (c : cfg) (m : attrs) (o : op2) : attrs :=
  match o with
  | Plain _ => m
  | InstallIv i oiv ooff => if is_rec c i then set_attrs m i oiv ooff else m
  end.
Definition attrs_after (c : cfg) (m : attrs) (ops : list op2) : attrs := fold_left (attr_step c) ops m.

(* ---- canonical output: that of Sched.v followed by the attributes of every task ---- *)
Fixpoint canon_attrs (m : attrs) (n i : nat) : list Z :=
  match n with
  | O => []
  | S n' => oz (fst (m i)) ++ oz (snd (m i)) ++ canon_attrs m n' (S i)
  end.

Definition canon_run2 (n : nat) (r : (attrs * st) * list event) : list Z :=
  let '((m, s), ev) := r in canon_run tc_id true n (s, ev) ++ canon_attrs m n 0.
