(* SsmDevInfo.v — app.DeviceInfoCache (app.py:73-215: iam_device_info, get_device_info, update_device_info, acquire,
   release) and the cache argument of app.Application.__init__ (app.py:254-255), as they are.  Records are objects that are
   mutated in place and are reachable under two dictionary keys (device instance, address): the model keeps them in a heap
   (index = identity) and the dictionary maps keys to indices.  `del` of a missing key is a KeyError that leaves what was
   done before it.  No proofs here (SsmDevInfoFacts.v). *)
From Bac Require Import Base PyRt.
Open Scope Z_scope.

Record drec := mkDrec { r_inst : Z; r_addr : Z; r_maxapdu : Z; r_seg : Z;
                        r_ref : option Z;            (* _ref_count (None = attribute not set yet) *)
                        r_keys : option (Z * Z) }.   (* _cache_keys *)
(* (true, n): the int key n (device instance); (false, a): the Address key a *)
Definition ckey := (bool * Z)%type.
Definition key_eqb (a b : ckey) : bool := Bool.eqb (fst a) (fst b) && (snd a =? snd b).

Record dcache := mkDC { dc_heap : list drec; dc_dict : list (ckey * nat) }.
Definition empty_cache : dcache := mkDC [] [].

Fixpoint dict_get (k : ckey) (d : list (ckey * nat)) : option nat :=
  match d with [] => None | (k', v) :: r => if key_eqb k k' then Some v else dict_get k r end.
Fixpoint dict_set (k : ckey) (v : nat) (d : list (ckey * nat)) : list (ckey * nat) :=
  match d with [] => [(k, v)] | (k', v') :: r => if key_eqb k k' then (k, v) :: r else (k', v') :: dict_set k v r end.
Fixpoint dict_del (k : ckey) (d : list (ckey * nat)) : option (list (ckey * nat)) :=
  match d with
  | [] => None
  | (k', v') :: r => if key_eqb k k' then Some r else match dict_del k r with Some r' => Some ((k', v') :: r') | None => None end
  end.

Fixpoint heap_set (i : nat) (x : drec) (l : list drec) : list drec :=
  match l, i with [], _ => [] | _ :: r, O => x :: r | y :: r, S k => y :: heap_set k x r end.

Definition set_ref v r := mkDrec (r_inst r) (r_addr r) (r_maxapdu r) (r_seg r) v (r_keys r).
Definition set_keys v r := mkDrec (r_inst r) (r_addr r) (r_maxapdu r) (r_seg r) (r_ref r) v.

(* update_device_info (app.py:139-174) for the record at heap index i *)
Definition update_device_info (i : nat) (c : dcache) : dcache * option err :=
  match nth_error (dc_heap c) i with
  | None => (c, Some RuntimeErr)
  | Some r0 =>
    let r := match r_ref r0 with None => set_ref (Some 0) r0 | Some _ => r0 end in
    let heap := heap_set i r (dc_heap c) in
    let cid := match r_keys r with Some (a, _) => Some a | None => None end in
    let cad := match r_keys r with Some (_, b) => Some b | None => None end in
    let step1 := match cid with
                 | Some k => if negb (r_inst r =? k) then
                               match dict_del (true, k) (dc_dict c) with
                               | None => Err KeyErr
                               | Some d => Ok (dict_set (true, r_inst r) i d) end
                             else Ok (dc_dict c)
                 | None => Ok (dc_dict c) end in
    match step1 with
    | Err e => (mkDC heap (dc_dict c), Some e)
    | Ok d1 =>
      let step2 := match cad with
                   | Some a => if negb (r_addr r =? a) then
                                 match dict_del (false, a) d1 with
                                 | None => Err KeyErr
                                 | Some d => Ok (dict_set (false, r_addr r) i d) end
                               else Ok d1
                   | None => Ok d1 end in
      match step2 with
      | Err e => (mkDC heap d1, Some e)
      | Ok d2 =>
        let d3 := match cid with None => dict_set (true, r_inst r) i d2 | Some _ => d2 end in
        let d4 := match cad with None => dict_set (false, r_addr r) i d3 | Some _ => d3 end in
        (mkDC (heap_set i (set_keys (Some (r_inst r, r_addr r)) r) heap) d4, None)
      end
    end
  end.

(* iam_device_info (app.py:97-128): the record of that instance, else the record at that address, else a new one; the
   I-Am's values are jammed in; update_device_info moves the keys *)
Definition iam_device_info (inst addr ma seg : Z) (c : dcache) : dcache * option err :=
  let found := match dict_get (true, inst) (dc_dict c) with
               | Some i => Some i
               | None => dict_get (false, addr) (dc_dict c) end in
  let heap1 := match found with Some _ => dc_heap c | None => dc_heap c ++ [mkDrec inst addr 1024 0 None None] end in
  let i := match found with Some i => i | None => length (dc_heap c) end in
  match nth_error heap1 i with
  | None => (c, Some RuntimeErr)
  | Some r => update_device_info i (mkDC (heap_set i (mkDrec inst addr ma seg (r_ref r) (r_keys r)) heap1) (dc_dict c))
  end.

(* acquire (app.py:176-198): the record under that key, its reference count bumped *)
Definition acquire (k : ckey) (c : dcache) : dcache * res (option drec) :=
  match dict_get k (dc_dict c) with
  | None => (c, Ok None)
  | Some i =>
    match nth_error (dc_heap c) i with
    | None => (c, Err RuntimeErr)
    | Some r =>
      match r_ref r with
      | None => (c, Err AttrErr)
      | Some n => let r' := set_ref (Some (n + 1)) r in (mkDC (heap_set i r' (dc_heap c)) (dc_dict c), Ok (Some r'))
      end
    end
  end.

(* get_device_info + release (app.py:130-137, 200-211) *)
Definition release (k : ckey) (c : dcache) : dcache * res bool :=
  match dict_get k (dc_dict c) with
  | None => (c, Ok false)
  | Some i =>
    match nth_error (dc_heap c) i with
    | None => (c, Err RuntimeErr)
    | Some r =>
      match r_ref r with
      | None => (c, Err AttrErr)
      | Some n => if n =? 0 then (c, Err RuntimeErr)
                  else (mkDC (heap_set i (set_ref (Some (n - 1)) r) (dc_heap c)) (dc_dict c), Ok true)
      end
    end
  end.

(* Application.__init__: `self.deviceInfoCache = deviceInfoCache or DeviceInfoCache()`.  DeviceInfoCache defines neither
   __bool__ nor __len__, so an instance is true whatever it holds: only None is replaced *)
Definition app_cache {A} (supplied : option A) (fresh : A) : A :=
  match supplied with Some c => c | None => fresh end.

(* ---------- histories (harness/ssm_c11c12.py: run_cache_history) ---------- *)
Inductive cop := CIam (inst addr ma seg : Z) | CAcquire (isinst : bool) (k : Z) | CRelease (isinst : bool) (k : Z) | CApp (supplied : bool).

Definition rec_ints (r : drec) : list Z :=
  [r_inst r; r_addr r; r_maxapdu r; r_seg r; match r_ref r with Some n => n | None => -1 end].

Definition run_cop (o : cop) (c : dcache) : dcache * list Z :=
  match o with
  | CIam inst addr ma seg =>
    match iam_device_info inst addr ma seg c with
    | (c', None) => (c', [20])
    | (c', Some e) => (c', [29; err_code e]) end
  | CAcquire b k =>
    match acquire (b, k) c with
    | (c', Ok (Some r)) => (c', [21; 1] ++ rec_ints r)
    | (c', Ok None) => (c', [21; 0; -1; -1; -1; -1; -1])
    | (c', Err e) => (c', [29; err_code e]) end
  | CRelease b k =>
    match release (b, k) c with
    | (c', Ok true) => (c', [22; 1])
    | (c', Ok false) => (c', [22; 0])
    | (c', Err e) => (c', [29; err_code e]) end
  | CApp supplied =>
    (* 1 iff the application's cache IS the caller's: handles 1 (the caller's) and 0 (a fresh one) *)
    (c, [23; if app_cache (if supplied then Some 1 else None) 0 =? 1 then 1 else 0])
  end.

(* the final dump, sorted by (kind, key): kind 0 = instance key, 1 = address key *)
Definition key_lt (a b : ckey) : bool :=
  let ka := if fst a then 0 else 1 in let kb := if fst b then 0 else 1 in
  (ka <? kb) || ((ka =? kb) && (snd a <? snd b)).
Fixpoint ins_sorted (e : ckey * nat) (l : list (ckey * nat)) : list (ckey * nat) :=
  match l with [] => [e] | x :: r => if key_lt (fst e) (fst x) then e :: l else x :: ins_sorted e r end.
Definition sort_dict (d : list (ckey * nat)) : list (ckey * nat) := fold_right ins_sorted [] d.

Definition dump (c : dcache) : list Z :=
  flat_map (fun e : ckey * nat =>
    let '(k, i) := e in
    [24; if fst k then 0 else 1; snd k] ++ match nth_error (dc_heap c) i with Some r => rec_ints r | None => [] end)
    (sort_dict (dc_dict c)).

Fixpoint run_cops (ops : list cop) (c : dcache) : dcache * list Z :=
  match ops with
  | [] => (c, [])
  | o :: r => let '(c1, out1) := run_cop o c in let '(c2, out2) := run_cops r c1 in (c2, out1 ++ out2)
  end.
Definition run_cache_ops (ops : list cop) : list Z :=
  let '(c, out) := run_cops ops empty_cache in out ++ dump c.
