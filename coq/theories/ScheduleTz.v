(* ScheduleTz.v — the wall clock of LocalScheduleInterpreter.process_task (schedule.py:448-490) and
   datetime_to_time (236-247) in a time zone whose UTC offset CHANGES (daylight saving):
     Date().now() / Time().now()   = time.localtime(when)            -> localtime_z
     datetime_to_time(date, time)  = time.mktime((y, m, d, H, M, S, 0, 0, -1))   -> datetime_to_time_z
     process_task                  -> step_z (one firing at the instant e), run_z
   A zone is its offset function  off : instant (seconds since the epoch, UTC) -> seconds east of UTC.
   localtime / mktime are CPython + libc: this is a MODEL of them (tied to the implementation by the
   `civil`, `now-z`, `dtt-z` and `run-z` correspondence cases, which run the real functions in
   subprocesses under POSIX TZ rules and hand the zone to the model as the table of its offset
   changes), not a translation.  ScheduleEval.normalise is the constant-offset special case.
   Model only; proofs are in ScheduleTzFacts.v. *)
From Bac Require Import Base PyRt Calendar ScheduleEval.
Open Scope Z_scope.

(* ---- civil dates <-> day numbers (days since 1970-01-01, proleptic Gregorian calendar).
   Closed forms (era = 400 years = 146097 days, year counted from 1 March); Z's `/` and `mod`
   are floor division like Python's. *)
Definition days_from_civil (y m d : Z) : Z :=
  let y' := if m <=? 2 then y - 1 else y in
  let era := y' / 400 in
  let yoe := y' - era * 400 in
  let mp := (m + 9) mod 12 in
  let doy := (153 * mp + 2) / 5 + d - 1 in
  let doe := yoe * 365 + yoe / 4 - yoe / 100 + doy in
  era * 146097 + doe - 719468.

Definition civil_from_days (z : Z) : Z * Z * Z :=
  let z' := z + 719468 in
  let era := z' / 146097 in
  let doe := z' - era * 146097 in
  let yoe := (doe - doe / 1460 + doe / 36524 - doe / 146096) / 365 in
  let doy := doe - (365 * yoe + yoe / 4 - yoe / 100) in
  let mp := (5 * doy + 2) / 153 in
  let d := doy - (153 * mp + 2) / 5 + 1 in
  let m := if mp <? 10 then mp + 3 else mp - 9 in
  (if m <=? 2 then yoe + era * 400 + 1 else yoe + era * 400, m, d).

(* tm_wday + 1: Monday = 1 .. Sunday = 7 (1970-01-01 was a Thursday) *)
Definition dow_of_days (z : Z) : Z := (z + 3) mod 7 + 1.

Definition date_of_days (z : Z) : D4 :=
  let '(y, m, d) := civil_from_days z in (y - 1900, m, d, dow_of_days z).
Definition time_of_secs (s : Z) : T4 := (s / 3600, (s / 60) mod 60, s mod 60, 0).

(* local seconds: the wall clock as one number *)
Definition wall (off : Z -> Z) (e : Z) : Z := e + off e.
Definition split_wall (l : Z) : D4 * T4 := (date_of_days (l / 86400), time_of_secs (l mod 86400)).
Definition wall_of (d : D4) (t : T4) : Z :=
  let '(y, m, dd, _) := d in let '(h, mi, s, _) := t in
  days_from_civil (y + 1900) m dd * 86400 + h * 3600 + mi * 60 + s.

(* Date().now(when).value, Time().now(when).value for a whole-second instant *)
Definition localtime_z (off : Z -> Z) (e : Z) : D4 * T4 := split_wall (wall off e).

(* time.mktime with tm_isdst = -1 in a zone with the two offsets o1 (standard) and o2 (daylight):
   the instant whose local reading is the given wall clock.  Where exactly one instant has that reading
   (everywhere except two hours a year) this is fully determined.  A wall clock shown twice (the
   repeated hour) is read here as daylight time, one that no instant shows (the skipped hour) as
   standard time: that is what glibc answers on every full and half hour, but inside the repeated hour
   its choice varies with the seconds (02:35:58 on 2068-04-01 AEST is read as standard time), so those
   two hours of the change days are outside the correspondence (ASSUMPTIONS: no entry lies in them) and
   the theorems claim only what holds for either choice: SOME instant with the requested reading *)
Definition mktime_z (off : Z -> Z) (o1 o2 : Z) (w : Z) : Z :=
  if off (w - o2) =? o2 then w - o2 else w - o1.

(* datetime_to_time: RuntimeError on any 255, hundredths dropped, out-of-range hours (24:00:00) normalised by mktime *)
Definition datetime_to_time_z (off : Z -> Z) (o1 o2 : Z) (d : D4) (t : T4) : res Z :=
  if has255 d || has255 t then Err RuntimeErr else Ok (mktime_z off o1 o2 (wall_of d t)).

(* process_task fired at the instant e (whole seconds) with present value pv: the new present value
   and the instant the timer is armed for *)
Definition step_z (off : Z -> Z) (o1 o2 : Z) (c : sched) (e pv : Z) : res (Z * Z) :=
  let '(d, t) := localtime_z off e in
  do r <- eval c d t;
  let '(pv', nt) := match r with None => (pv, next_day) | Some (v, n) => (v, n) end in
  do a <- datetime_to_time_z off o1 o2 d nt;
  Ok (pv', a).

Fixpoint run_z (fuel : nat) (off : Z -> Z) (o1 o2 : Z) (c : sched) (e pv : Z) : list (res (Z * Z)) :=
  match fuel with
  | O => []
  | S k => match step_z off o1 o2 c e pv with
           | Err x => [Err x]
           | Ok (pv', a) => Ok (pv', a) :: run_z k off o1 o2 c (Z.max e a) pv'
           end
  end.

(* a zone given by the table of its offset changes: offset `cur` before the first listed instant,
   then the listed offset from each listed instant on (instants ascending) *)
Fixpoint off_tbl (cur : Z) (tbl : list (Z * Z)) (e : Z) : Z :=
  match tbl with
  | [] => cur
  | (a, o) :: r => if a <=? e then off_tbl o r e else cur
  end.

(* the property of a zone the theorems need: only the two offsets occur *)
Definition two_offsets (off : Z -> Z) (o1 o2 : Z) : Prop := forall e, off e = o1 \/ off e = o2.

(* the variant `calendar.timegm(tuple) + time.timezone` (standard offset only), for the refutation *)
Definition dtt_std_only (o1 : Z) (d : D4) (t : T4) : Z := wall_of d t - o1.

(* ---- canonical outputs *)
Definition canon_dt (x : D4 * T4) : list Z := canon_t4 (fst x) ++ canon_t4 (snd x).
Definition canon_step_z (r : Z * Z) : list Z := [fst r; snd r].
Fixpoint canon_run_z (l : list (res (Z * Z))) : list Z :=
  match l with [] => [] | r :: k => canon_res canon_step_z r ++ canon_run_z k end.
