(* DeviceRxFacts.v — C10, health under garbage: the invariant of the device's transaction table is kept by
   device_rx for EVERY frame (any octet string from any station), by every timer, hence over every history.
   Built on the per-handler facts of the SSM model (SsmC04h: s_*_h, SsmC11s: *_key). *)
From Coq Require Import ZifyBool ZifyN ZifyNat.
From Bac Require Import Base PyRt Ssm SsmFacts SsmC04a SsmC04s SsmC04h SsmC11s.
From Bac Require Npci Apci RouterCache SsmWorld.
From Bac Require Import Asap AsapCodec DeviceRx.
From BacGen Require Import ApduFns.
Open Scope Z_scope.

Definition key (t : ssm) : Z * Z := (s_invoke t, s_peer t).
Definition cfg_ok (c : SsmWorld.nodecfg) : Prop := 0 < SsmWorld.c_app_to c /\ 0 < SsmWorld.c_seg_to c.

(* the node invariant of C10: the table is duplicate-free (one transaction per invoke ID and peer), every listed
   transaction is in a state that has a time-out handler and holds an armed timer, and nothing that has left the
   table holds a timer (it is COMPLETED/ABORTED) *)
Definition dev_inv (st : dev_state) : Prop :=
  cfg_ok (d_cfg st) /\ NoDup (map key (d_str st)) /\ Forall s_inv (d_str st) /\ Forall s_done (d_gone st).

Definition same_tables (st st' : dev_state) : Prop :=
  d_cfg st' = d_cfg st /\ d_str st' = d_str st /\ d_gone st' = d_gone st /\ d_tctr st' = d_tctr st /\ d_dcc st' = d_dcc st.

Lemma same_tables_refl st : same_tables st st.
Proof. repeat split. Qed.
Lemma same_tables_trans a b c : same_tables a b -> same_tables b c -> same_tables a c.
Proof. unfold same_tables. intuition congruence. Qed.
Lemma same_tables_inv st st' : same_tables st st' -> dev_inv st -> dev_inv st'.
Proof. intros (H1 & H2 & H3 & _) (A & B & C & D). unfold dev_inv. rewrite H1, H2, H3. auto. Qed.

(* ---------- the way down never touches the tables ---------- *)
Lemma send_tables st net m a : same_tables st (fst (send st net m a)).
Proof.
  unfold send. destruct net as [n|]; [|apply same_tables_refl].
  destruct (existsb _ _); [repeat split|].
  destruct (RouterCache.get_router_info _ _ _); repeat split.
Qed.

Lemma send_all_tables outs : forall st net m, same_tables st (fst (send_all st net m outs)).
Proof.
  induction outs as [|o r IH]; intros st net m; cbn [send_all]; [apply same_tables_refl|].
  destruct o as [a|a]; [|apply IH].
  pose proof (send_tables st net m a) as H1. destruct (send st net m a) as [st1 o1]. cbn [fst] in H1.
  pose proof (IH st1 net m) as H2. destruct (send_all st1 net m r) as [st2 o2]. cbn [fst] in *.
  eapply same_tables_trans; eassumption.
Qed.

(* ---------- list surgery ---------- *)
Lemma nth_error_replace_nth {A} (l : list A) : forall i x y, nth_error l i = Some y ->
  forall (f : A -> Z * Z), f x = f y -> map f (SsmWorld.replace_nth i x l) = map f l.
Proof.
  induction l as [|z r IH]; intros [|i] x y H f Hf; cbn in *; try discriminate.
  - inversion H; subst. rewrite Hf. reflexivity.
  - rewrite (IH i x y H f Hf). reflexivity.
Qed.

Lemma Forall_replace_nth {A} (P : A -> Prop) (l : list A) : forall i x, Forall P l -> P x -> Forall P (SsmWorld.replace_nth i x l).
Proof.
  induction l as [|z r IH]; intros [|i] x H Hx; cbn; auto; inversion H; subst; constructor; auto.
Qed.

Lemma Forall_remove_nth {A} (P : A -> Prop) (l : list A) : forall i, Forall P l -> Forall P (SsmWorld.remove_nth i l).
Proof.
  induction l as [|z r IH]; intros [|i] H; cbn; auto; inversion H; subst; auto.
Qed.

Lemma NoDup_map_remove_nth {A B} (f : A -> B) (l : list A) : forall i, NoDup (map f l) -> NoDup (map f (SsmWorld.remove_nth i l)).
Proof.
  induction l as [|z r IH]; intros [|i] H; cbn in *; auto; inversion H; subst; auto.
  constructor; [|apply IH; assumption].
  intro Hin. apply H2. clear - Hin. revert i Hin. induction r as [|y r IH]; intros [|i] Hin; cbn in *; auto.
  destruct Hin as [<-|Hin]; [left; reflexivity | right; eapply IH; eassumption].
Qed.

(* ---------- placing a handler's result ---------- *)
Definition result_ok (r : hst) : Prop := (h_live r = true -> s_inv (h_s r)) /\ (h_live r = false -> s_done (h_s r)).

Lemma post_h_result r : post_h r -> result_ok (fst r).
Proof. intros H. exact H. Qed.

Lemma place_some_inv st i t r : dev_inv st -> nth_error (d_str st) i = Some t -> result_ok r -> key (h_s r) = key t ->
  dev_inv (place st (Some i) r) /\ d_cfg (place st (Some i) r) = d_cfg st /\ d_dcc (place st (Some i) r) = d_dcc st.
Proof.
  intros (A & B & C & D) Hn (R1 & R2) Hk. unfold place, dev_inv. cbn [d_cfg d_str d_gone d_dcc set_tables].
  split; [|split; reflexivity].
  split; [exact A|]. destruct (h_live r) eqn:El.
  - split; [rewrite (nth_error_replace_nth _ _ _ _ Hn key Hk); exact B|].
    split; [apply Forall_replace_nth; auto | exact D].
  - split; [apply NoDup_map_remove_nth; exact B|].
    split; [apply Forall_remove_nth; exact C | constructor; auto].
Qed.

Lemma NoDup_snoc {A} (l : list A) x : NoDup l -> ~ In x l -> NoDup (l ++ [x]).
Proof.
  induction l as [|y r IH]; intros H Hx; cbn [app].
  - constructor; [intros [] | constructor].
  - inversion H; subst. constructor.
    + intro Hin. apply in_app_or in Hin. destruct Hin as [Hin|[<-|[]]]; [auto | apply Hx; left; reflexivity].
    + apply IH; [assumption | intro; apply Hx; right; assumption].
Qed.

Lemma place_none_inv st r : dev_inv st -> result_ok r -> (h_live r = true -> ~ In (key (h_s r)) (map key (d_str st))) ->
  dev_inv (place st None r) /\ d_cfg (place st None r) = d_cfg st /\ d_dcc (place st None r) = d_dcc st.
Proof.
  intros (A & B & C & D) (R1 & R2) Hk. unfold place, dev_inv. cbn [d_cfg d_str d_gone d_dcc set_tables].
  split; [|split; reflexivity].
  split; [exact A|]. destruct (h_live r) eqn:El.
  - split; [rewrite map_app; cbn [map]; apply NoDup_snoc; auto|].
    split; [apply Forall_app; split; [exact C | constructor; auto] | exact D].
  - split; [exact B | split; [exact C | constructor; auto]].
Qed.

(* ---------- the application's answer ---------- *)
Lemma find_tr_nth i p l j t : find_tr i p l O = Some (j, t) -> nth_error l j = Some t /\ tr_matches i p t = true.
Proof. intros H. apply find_tr_spec in H. destruct H as (_ & H2 & H3 & _). rewrite Nat.sub_0_r in H2. auto. Qed.

Lemma listed_inv st i t : dev_inv st -> nth_error (d_str st) i = Some t -> s_inv t.
Proof. intros (_ & _ & C & _) Hn. rewrite Forall_forall in C. apply C. eapply nth_error_In; eauto. Qed.

Lemma answer_inv st now peer net m a : dev_inv st -> dev_inv (fst (answer st now peer net m a)).
Proof.
  intros Hinv. unfold answer.
  destruct (find_tr (a_invoke a) peer (d_str st) 0) as [[i t]|] eqn:Ef; [|exact Hinv].
  apply find_tr_nth in Ef. destruct Ef as (Hn & Hm).
  set (r := fst (s_confirmation a (mkH t [] (d_tctr st) now true))).
  pose proof (listed_inv st i t Hinv Hn) as Ht.
  assert (Hr : result_ok r). { apply (s_confirmation_h a (mkH t [] (d_tctr st) now true)); [exact Ht | reflexivity]. }
  assert (Hk : key (h_s r) = key t).
  { destruct (s_confirmation_key a (mkH t [] (d_tctr st) now true)) as ((Hp & _) & Hi).
    unfold key. subst r. cbn [h_s] in *. rewrite Hp, Hi. reflexivity. }
  destruct (place_some_inv st i t r Hinv Hn Hr Hk) as (P1 & _).
  eapply same_tables_inv; [apply send_all_tables | exact P1].
Qed.

Lemma answer_all_inv l : forall st now peer net m, dev_inv st -> dev_inv (fst (answer_all st now peer net m l)).
Proof.
  induction l as [|a r IH]; intros st now peer net m H; cbn [answer_all]; [exact H|].
  pose proof (answer_inv st now peer net m a H) as A1.
  destruct (answer st now peer net m a) as [st1 o1]. cbn [fst] in *.
  pose proof (IH st1 now peer net m A1) as B1.
  destruct (answer_all st1 now peer net m r) as [st2 o2]. exact B1.
Qed.

Lemma do_outs_inv x now peer net m outs : forall st, dev_inv st -> dev_inv (fst (do_outs x now peer net m outs st)).
Proof.
  induction outs as [|o r IH]; intros st H; cbn [do_outs]; [exact H|].
  destruct o as [a|a].
  - pose proof (same_tables_inv _ _ (send_tables st net m a) H) as A1.
    destruct (send st net m a) as [st1 o1]. cbn [fst] in *.
    pose proof (IH st1 A1) as B1. destruct (do_outs x now peer net m r st1) as [st2 o2]. exact B1.
  - destruct (a_type a =? 0); [|apply IH; exact H].
    pose proof (answer_all_inv (app_replies x a) st now peer net m H) as A1.
    destruct (answer_all st now peer net m (app_replies x a)) as [st1 o1]. cbn [fst] in *.
    pose proof (IH st1 A1) as B1. destruct (do_outs x now peer net m r st1) as [st2 o2]. exact B1.
Qed.

Lemma run_server_some_inv st i t hm x now peer net m : dev_inv st -> nth_error (d_str st) i = Some t ->
  result_ok (fst (hm (mkH t [] (d_tctr st) now true))) -> key (h_s (fst (hm (mkH t [] (d_tctr st) now true)))) = key t ->
  dev_inv (fst (run_server st (Some i) t hm x now peer net m)).
Proof.
  intros H Hn Hr Hk. unfold run_server. apply do_outs_inv.
  apply (place_some_inv st i t _ H Hn Hr Hk).
Qed.

Lemma run_server_none_inv st t hm x now peer net m : dev_inv st ->
  result_ok (fst (hm (mkH t [] (d_tctr st) now true))) ->
  (~ In (key (h_s (fst (hm (mkH t [] (d_tctr st) now true))))) (map key (d_str st))) ->
  dev_inv (fst (run_server st None t hm x now peer net m)).
Proof.
  intros H Hr Hk. unfold run_server. apply do_outs_inv.
  apply (place_none_inv st _ H Hr). intros _. exact Hk.
Qed.

(* ---------- StateMachineAccessPoint.confirmation ---------- *)
Lemma s_inv_not_idle t : s_inv t -> s_state t <> IDLE.
Proof.
  intros (Hok & _). unfold s_state_ok, IDLE, SEGMENTED_REQUEST, AWAIT_RESPONSE, SEGMENTED_RESPONSE in *. lia.
Qed.

Lemma existing_inv st i t a x now peer net m : dev_inv st -> nth_error (d_str st) i = Some t ->
  dev_inv (fst (run_server st (Some i) t (s_indication a) x now peer net m)).
Proof.
  intros H Hn. pose proof (listed_inv st i t H Hn) as Ht.
  apply run_server_some_inv; auto.
  - apply (s_indication_h a (mkH t [] (d_tctr st) now true)); [exact Ht | reflexivity].
  - destruct (s_indication_key a (mkH t [] (d_tctr st) now true)) as (Hp & Hi).
    { right. cbn [h_s]. apply s_inv_not_idle. exact Ht. }
    cbn [h_s] in *. unfold key. rewrite Hp. destruct Hi as [->|(Hidle & _)]; [reflexivity|].
    exfalso. apply (s_inv_not_idle t Ht). exact Hidle.
Qed.

Lemma s_indication_idle a st : s_state (h_s st) = IDLE -> s_indication a st = s_idle a st.
Proof. intros H. unfold s_indication, withs. rewrite H. reflexivity. Qed.

Lemma tr_matches_key i p t : tr_matches i p t = true <-> key t = (i, p).
Proof. unfold tr_matches, key. split; [intros H; f_equal; lia | intros H; inversion H; subst; lia]. Qed.

Lemma fresh_inv st a x now net m : dev_inv st -> wf_request a ->
  find_tr (a_invoke a) (peer_code net m) (d_str st) O = None ->
  dev_inv (fst (run_server st None (SsmWorld.new_ssm (d_cfg st) (peer_code net m) false) (s_indication a) x now (peer_code net m) net m)).
Proof.
  intros H Hwf Hf. set (peer := peer_code net m). set (t0 := SsmWorld.new_ssm (d_cfg st) peer false).
  assert (Hidle : s_state (h_s (mkH t0 [] (d_tctr st) now true)) = IDLE) by reflexivity.
  destruct H as (Hc & Hrest). assert (H : dev_inv st) by (split; assumption). destruct Hc as (Hc1 & Hc2).
  apply run_server_none_inv; auto.
  - rewrite (s_indication_idle a _ Hidle).
    apply (s_idle_h a (mkH t0 [] (d_tctr st) now true)); auto.
  - destruct (s_idle_takes_key a (mkH t0 [] (d_tctr st) now true) Hidle (proj1 Hwf)) as (Hp & Hi).
    unfold key. rewrite Hp, Hi. cbn [h_s]. change (s_peer t0) with peer.
    intro Hin. apply in_map_iff in Hin. destruct Hin as (t & Hk & Hin).
    apply (find_tr_none _ _ _ _ Hf) in Hin. apply tr_matches_key in Hk. subst t0 peer. congruence.
Qed.

Lemma alias_s_inv d t : s_inv t -> s_inv (SsmWorld.set_dinfo_f d t).
Proof. destruct_ssm t. intros H. exact H. Qed.
Lemma alias_key d t : key (SsmWorld.set_dinfo_f d t) = key t.
Proof. destruct_ssm t. reflexivity. Qed.

Lemma iam_update_inv st peer ma sg : dev_inv st -> dev_inv (iam_update st peer ma sg).
Proof.
  intros (A & B & C & D). unfold iam_update, dev_inv. cbn [d_cfg d_str d_gone].
  split; [exact A|]. split; [|split; [|exact D]].
  - rewrite map_map. erewrite map_ext; [exact B|]. intros t. cbv beta.
    destruct (_ && _); [apply alias_key | reflexivity].
  - rewrite Forall_forall in *. intros t' Hin. apply in_map_iff in Hin. destruct Hin as (t & <- & Hin).
    destruct (_ && _); [apply alias_s_inv|]; apply C; exact Hin.
Qed.

Lemma smap_rx_inv st now net m a x : dev_inv st -> (a_type a = 0 -> wf_request a) ->
  dev_inv (fst (smap_rx st now net m a x)).
Proof.
  intros H Hwf. unfold smap_rx.
  destruct (negb (dcc_passes (d_dcc st) a)); [exact H|].
  destruct (a_type a =? 0) eqn:E0.
  { destruct (find_tr (a_invoke a) (peer_code net m) (d_str st) 0) as [[i t]|] eqn:Ef.
    - apply find_tr_nth in Ef. apply existing_inv; tauto.
    - apply fresh_inv; auto. apply Hwf. lia. }
  destruct (a_type a =? 1).
  { cbn [fst]. destruct (x_iam x) as [[ma sg]|]; [apply iam_update_inv|]; exact H. }
  destruct (to_client_side a); [exact H|].
  destruct ((a_type a =? 4) || (a_type a =? 7)); [|exact H].
  destruct (find_tr (a_invoke a) (peer_code net m) (d_str st) 0) as [[i t]|] eqn:Ef; [|exact H].
  apply find_tr_nth in Ef. apply existing_inv; tauto.
Qed.

(* ---------- the header decoder hands the SSM a request within the code ranges ---------- *)
Lemma land_lt (a : N) (k : N) : (N.land a (N.ones k) < 2 ^ k)%N.
Proof. rewrite N.land_ones. apply N.mod_lt. apply N.pow_nonzero. discriminate. Qed.

Lemma dec_apci_request_wf bs h p : Apci.dec_apci bs = Ok (h, p) -> a_type (to_apdu h p) = 0 -> wf_request (to_apdu h p).
Proof.
  intros H Ht. unfold Apci.dec_apci in H.
  destruct bs as [|buff r]; cbn [get bind] in H; [discriminate|].
  destruct (N.land (N.shiftr buff 4) 15 =? 0)%N.
  { destruct r as [|b1 r1]; cbn [get bind] in H; [discriminate|].
    unfold Apci.getz in H.
    destruct r1 as [|b2 r2]; cbn [get bind] in H; [discriminate|].
    assert (Hms : 0 <= Z.of_N (N.land (N.shiftr b1 4) 7) < 8).
    { pose proof (land_lt (N.shiftr b1 4) 3). change (N.ones 3) with 7%N in H0. change (2 ^ 3)%N with 8%N in H0. lia. }
    assert (Hmr : 0 <= Z.of_N (N.land b1 15) < 16).
    { pose proof (land_lt b1 4). change (N.ones 4) with 15%N in H0. change (2 ^ 4)%N with 16%N in H0. lia. }
    destruct (Apci.truthy (Apci.bit buff 8)).
    - destruct r2 as [|b3 r3]; cbn [get bind] in H; [discriminate|].
      destruct r3 as [|b4 r4]; cbn [get bind] in H; [discriminate|].
      destruct r4 as [|b5 r5]; cbn [get bind fst snd] in H; [discriminate|].
      injection H as <- <-. unfold wf_request, to_apdu. cbn. auto.
    - destruct r2 as [|b3 r3]; cbn [get bind fst snd] in H; [discriminate|].
      injection H as <- <-. unfold wf_request, to_apdu. cbn. auto. }
  exfalso. unfold Apci.getz in H.
  repeat match type of H with
  | (if ?c then _ else _) = _ => destruct c
  end;
  repeat match type of H with
  | context [get ?l] => is_var l; destruct l; cbn [get bind fst snd] in H
  | context [if Apci.truthy ?b then _ else _] => destruct (Apci.truthy b); cbn [get bind fst snd] in H
  end; try discriminate; injection H as <- <-; cbn in Ht; discriminate.
Qed.

(* ---------- C10_garbage_preserves_inv ---------- *)
Lemma nse_rx_tables st f msg : same_tables st (fst (nse_rx st f msg)).
Proof.
  unfold nse_rx. destruct msg; try apply same_tables_refl.
  - destruct (RouterCache.update_router_info _ _ _ _ _); [|apply same_tables_refl].
    destruct (flush_pending _ _ _). repeat split.
  - destruct (f_bcast f); repeat split.
Qed.

Theorem device_rx_inv st now f x : dev_inv st -> dev_inv (fst (device_rx st now f x)).
Proof.
  intros H. unfold device_rx.
  destruct (Npci.dec_npci (f_data f)) as [[[c h] rest]|e]; [|exact H].
  set (learned := match Npci.sadr h with Some (Npci.RStation snet _) => _ | _ => Some st end).
  assert (HL : forall st1, learned = Some st1 -> same_tables st st1).
  { subst learned. intros st1. destruct (Npci.sadr h) as [[snet smac|?|]|].
    - destruct (RouterCache.update_router_info _ _ _ _ _); intros E; inversion E; subst; repeat split.
    - intros E; inversion E; apply same_tables_refl.
    - intros E; inversion E; apply same_tables_refl.
    - intros E; inversion E; apply same_tables_refl. }
  destruct learned as [st1|]; [|exact H].
  pose proof (same_tables_inv _ _ (HL st1 eq_refl) H) as H1.
  destruct (negb _); [exact H1|].
  destruct (Npci.nmsg h) as [t|].
  - destruct (negb _); [exact H1|].
    destruct (Npci.dec_msg t rest) as [[msg r']|e]; [|exact H1].
    eapply same_tables_inv; [apply nse_rx_tables | exact H1].
  - destruct (Apci.dec_apci rest) as [[ah payload]|e] eqn:Ed; [|exact H1].
    destruct (match Npci.sadr h with Some (Npci.RStation snet smac) => (Some snet, smac) | _ => (None, f_src f) end) as [net m].
    apply smap_rx_inv; [exact H1|]. intros Ht. eapply dec_apci_request_wf; eauto.
Qed.

Lemma s_process_task_key st : s_peer (h_s (fst (s_process_task st))) = s_peer (h_s st) /\
  s_invoke (h_s (fst (s_process_task st))) = s_invoke (h_s st).
Proof.
  destruct st as [s outs ctr now live]. destruct_ssm s.
  unfold s_process_task, s_segmented_request_timeout, s_await_response_timeout, s_segmented_response_timeout, s_abort.
  path_split; mcbn; split; reflexivity.
Qed.

Lemma set_timer_key t : key (set_timer_f None t) = key t.
Proof. destruct_ssm t. reflexivity. Qed.

Theorem device_fire_inv st now i : dev_inv st -> dev_inv (fst (device_fire st now i)).
Proof.
  intros H. unfold device_fire.
  destruct (nth_error (d_str st) i) as [t|] eqn:Hn; [|exact H].
  destruct (peer_decode (s_peer t)) as [net m].
  set (r := fst (s_process_task (mkH (set_timer_f None t) [] (d_tctr st) now true))).
  pose proof (listed_inv st i t H Hn) as Ht.
  assert (Hr : result_ok r). { apply (s_process_task_h (mkH t [] (d_tctr st) now true)); [exact Ht | reflexivity]. }
  assert (Hk : key (h_s r) = key t).
  { destruct (s_process_task_key (mkH (set_timer_f None t) [] (d_tctr st) now true)) as (Hp & Hi).
    rewrite <- (set_timer_key t). unfold key. subst r. cbn [h_s] in *. rewrite Hp, Hi. reflexivity. }
  destruct (place_some_inv st i t r H Hn Hr Hk) as (P1 & _).
  eapply same_tables_inv; [apply send_all_tables | exact P1].
Qed.

Lemma advance_inv fuel : forall st now limit, dev_inv st -> dev_inv (fst (fst (fst (advance fuel st now limit)))).
Proof.
  induction fuel as [|f IH]; intros st now limit H; cbn [advance]; [exact H|].
  destruct (next_timer (d_str st)) as [[tm i]|]; [|exact H].
  destruct (match limit with Some L => L <? tm | None => false end); [exact H|].
  pose proof (device_fire_inv st (Z.max now tm) i H) as H1.
  destruct (device_fire st (Z.max now tm) i) as [st1 o1]. cbn [fst] in H1.
  pose proof (IH st1 (Z.max now tm) limit H1) as H2.
  destruct (advance f st1 (Z.max now tm) limit) as [[[st2 o2] n2] b]. exact H2.
Qed.

Lemma device_step_inv st ev : dev_inv st -> dev_inv (fst (device_step st ev)).
Proof.
  destruct ev as [now f x|now i|now limit]; [apply device_rx_inv | apply device_fire_inv |].
  intros H. cbn [device_step]. pose proof (advance_inv ADV_FUEL st now (Some limit) H) as H1.
  destruct (advance ADV_FUEL st now (Some limit)) as [[[st1 o] n] b]. exact H1.
Qed.

Theorem device_run_inv evs : forall st, dev_inv st -> dev_inv (fst (device_run st evs)).
Proof.
  induction evs as [|ev r IH]; intros st H; cbn [device_run]; [exact H|].
  pose proof (device_step_inv st ev H) as H1. destruct (device_step st ev) as [st1 o]. cbn [fst] in H1.
  pose proof (IH st1 H1) as H2. destruct (device_run st1 r) as [st2 os]. exact H2.
Qed.

Lemma dev_init_inv c : cfg_ok c -> dev_inv (dev_init c).
Proof. intros H. unfold dev_inv, dev_init. cbn. repeat split; try apply H; constructor. Qed.

(* what the invariant means for the residue the property talks about: every listed transaction armed, no timer elsewhere *)
Lemma filter_armed_all l : Forall s_inv l -> filter armed l = l.
Proof.
  induction l as [|t r IH]; intros H; [reflexivity|]. inversion H as [|? ? Ht Hr]; subst. cbn [filter].
  destruct Ht as (_ & Harm & _). unfold armed at 1. destruct (s_timer t) eqn:E; [|congruence]. f_equal. auto.
Qed.
Lemma filter_armed_none l : Forall s_done l -> filter armed l = [].
Proof.
  induction l as [|t r IH]; intros H; [reflexivity|]. inversion H as [|? ? Ht Hr]; subst. cbn [filter].
  destruct Ht as (_ & Hn). unfold armed at 1. rewrite Hn. auto.
Qed.
Lemma inv_residue st : dev_inv st ->
  zlen (filter armed (d_str st)) = zlen (d_str st) /\ zlen (filter armed (d_gone st)) = 0.
Proof.
  intros (_ & _ & C & D). rewrite (filter_armed_all _ C), (filter_armed_none _ D). split; reflexivity.
Qed.

(* ---------- C10_undecodable_frame_is_dropped ---------- *)
Lemma npci_refused_dropped st now f x e : Npci.dec_npci (f_data f) = Err e -> device_rx st now f x = (st, []).
Proof. intros H. unfold device_rx. rewrite H. reflexivity. Qed.

(* the APCI decoder refuses (truncated header, PDU type 8..15): nothing is emitted and tables, timers, DCC state and
   configuration are what they were; only the path to the frame's SNET (if it names one) may have been learned *)
Lemma apci_refused_dropped st now f x c h rest e :
  Npci.dec_npci (f_data f) = Ok (c, h, rest) -> Npci.nmsg h = None -> Apci.dec_apci rest = Err e ->
  snd (device_rx st now f x) = [] /\ same_tables st (fst (device_rx st now f x)) /\
  (Npci.sadr h = None -> device_rx st now f x = (st, [])).
Proof.
  intros H Hm Hd. unfold device_rx. rewrite H, Hm, Hd.
  destruct (Npci.sadr h) as [[snet smac|?|]|].
  - destruct (RouterCache.update_router_info _ _ _ _ _).
    + destruct (negb _); cbn [fst snd]; (split; [reflexivity|]; split; [repeat split | discriminate]).
    + cbn [fst snd]. split; [reflexivity|]. split; [apply same_tables_refl | discriminate].
  - destruct (negb _); cbn [fst snd]; (split; [reflexivity|]; split; [apply same_tables_refl | discriminate]).
  - destruct (negb _); cbn [fst snd]; (split; [reflexivity|]; split; [apply same_tables_refl | discriminate]).
  - destruct (negb _); cbn [fst snd]; (split; [reflexivity|]; split; [apply same_tables_refl | reflexivity]).
Qed.

(* a network-layer message the decoder refuses (unregistered type or malformed body) is dropped the same way *)
Lemma netmsg_refused_dropped st now f x c h rest t :
  Npci.dec_npci (f_data f) = Ok (c, h, rest) -> Npci.nmsg h = Some t ->
  (existsb (N.eqb t) Npci.registered_types = false \/ exists e, Npci.dec_msg t rest = Err e) ->
  snd (device_rx st now f x) = [] /\ same_tables st (fst (device_rx st now f x)).
Proof.
  intros H Hm Hd. unfold device_rx. rewrite H, Hm.
  assert (G : forall st1, same_tables st st1 ->
     snd (if negb (existsb (N.eqb t) Npci.registered_types) then (st1, [])
          else match Npci.dec_msg t rest with Err _ => (st1, []) | Ok (msg, _) => nse_rx st1 f msg end) = [] /\
     same_tables st (fst (if negb (existsb (N.eqb t) Npci.registered_types) then (st1, [])
          else match Npci.dec_msg t rest with Err _ => (st1, []) | Ok (msg, _) => nse_rx st1 f msg end))).
  { intros st1 S. destruct Hd as [->|(e & ->)]; cbn [negb fst snd]; [auto|]. destruct (negb _); cbn [fst snd]; auto. }
  destruct (Npci.sadr h) as [[snet smac|?|]|].
  - destruct (RouterCache.update_router_info _ _ _ _ _).
    + destruct (negb (match Npci.dadr h with None => true | Some Npci.GBroadcast => true | Some _ => false end)).
      * cbn [fst snd]. split; [reflexivity | repeat split].
      * apply G. repeat split.
    + cbn [fst snd]. split; [reflexivity | apply same_tables_refl].
  - destruct (negb (match Npci.dadr h with None => true | Some Npci.GBroadcast => true | Some _ => false end));
      [cbn [fst snd]; split; [reflexivity | apply same_tables_refl] | apply G; apply same_tables_refl].
  - destruct (negb (match Npci.dadr h with None => true | Some Npci.GBroadcast => true | Some _ => false end));
      [cbn [fst snd]; split; [reflexivity | apply same_tables_refl] | apply G; apply same_tables_refl].
  - destruct (negb (match Npci.dadr h with None => true | Some Npci.GBroadcast => true | Some _ => false end));
      [cbn [fst snd]; split; [reflexivity | apply same_tables_refl] | apply G; apply same_tables_refl].
Qed.

Example peer_decode_examples :
  peer_decode (peer_code None [9%N]) = (None, [9%N]) /\
  peer_decode (peer_code (Some 700%N) [1; 0; 255]%N) = (Some 700%N, [1; 0; 255]%N) /\
  peer_decode (peer_code (Some 0%N) [0; 0]%N) = (Some 0%N, [0; 0]%N) /\
  peer_code None [0; 9]%N <> peer_code None [9%N].
Proof. vm_compute. repeat split; discriminate. Qed.
