(* NetLbc.v — a local broadcast is heard exactly once by every other station of its network and by nobody else,
   on every internetwork (no tree needed).  Lemmas about Net.v (property C06). *)
From Coq Require Import ZifyBool ZifyN ZifyNat.
From Bac Require Import Base Net NetFacts NetTerm NetTerm2 NetReply NetOnce NetRoute NetArrive NetLocal NetBcast NetTree NetFlood.
Ltac Zify.zify_post_hook ::= Z.to_euclidean_division_equations.
Open Scope N_scope.

Lemma station_hears_local : forall n a src dst p,
  adapters n = [a] -> has_app n = true ->
  n_msg p = None -> n_dadr p = None -> n_sadr p = None -> apdu_ok (n_data p) = true ->
  process_npdu n 0 src dst p = (n, [Up (ALS src) (ldest_to_addr dst) (n_data p)]).
Proof.
  intros n a src dst p Had Happ Hmsg Hd Hs Hok.
  unfold process_npdu, nth_adapter, modelled_config, local_idx. rewrite Had, Hs, Hd, Hmsg.
  cbn [nth_error negb last_with_addr].
  assert (Hl : match match a_mac a with Some _ => Some 0%nat | None => None end with Some i => i | None => 0%nat end = 0%nat)
    by (destruct (a_mac a); reflexivity).
  rewrite Hl. cbn [nth_error Nat.eqb orb andb]. rewrite Happ, Hok. cbn [negb andb].
  unfold is_router. rewrite Had. cbn [length Nat.eqb negb andb]. reflexivity.
Qed.

Definition lbc (s : N) (smac : mac) (data : list N) : frame :=
  mkFrame s smac LBcast (mkNpdu None None 255 None data).

Lemma member_local : forall lns ns0 dd s src ws smac data ns x,
  internet_ok lns ns0 ->
  nth_error ns0 src = Some ws -> w_ports ws = [(s, smac)] -> station_shape ws -> apdu_ok data = true ->
  sim dd ns0 ns -> In x (lan_members lns s) ->
  out_frames ns (lbc s smac data) x = [] /\ hearers (out_obs ns (lbc s smac data) x) = hears ns0 src x.
Proof.
  intros lns ns0 dd s src ws smac data ns x Hio Hws Hwsp Hwss Hok Hsim Hx.
  destruct (io_members _ _ Hio _ _ Hx) as [m Hport]. pose proof Hport as Hport'. unfold port_of in Hport'.
  destruct (nth_error ns0 (fst x)) as [w0|] eqn:Ew0; [|discriminate].
  destruct (sim_nth _ _ _ _ _ Hsim Ew0) as (w' & Hw' & Hns). pose proof Hns as (Hp1 & Hp2 & Hp3 & _).
  assert (Hsrcport : port_of ns0 (src, 0%nat) = Some (s, smac)) by (unfold port_of; cbn [fst snd]; rewrite Hws, Hwsp; reflexivity).
  unfold out_frames, out_obs, member_out. rewrite Hw', Hp1, Hport'.
  destruct (io_shape _ _ Hio _ _ Ew0) as [Hr|Hst].
  - (* a router: whatever it does with the frame, it forwards nothing and hands nothing up *)
    assert (Happ0 : appb ns0 x = false) by (unfold appb; rewrite Ew0; destruct Hr as (_ & _ & _ & E); exact E).
    unfold hears. rewrite Happ0. cbn [andb].
    destruct (accepts m (lbc s smac data)); [|split; reflexivity].
    destruct (process_npdu (w_node w') (snd x) (f_src (lbc s smac data)) (f_dst (lbc s smac data)) (f_npdu (lbc s smac data)))
      as [n' acts] eqn:Epr.
    destruct (emit (mkW n' (w_ports w0)) (fst x) acts) as [fs os] eqn:Ee. cbn [fst snd].
    pose proof (process_npdu_nodadr _ _ _ _ _ _ _ Epr eq_refl eq_refl) as Hq.
    destruct (emit_quiet _ _ _ _ _ Ee Hq) as (Hfs & Hups & _). split; [assumption|].
    assert (Hnu : forall s0 d0 x0, ~ In (Up s0 d0 x0) acts).
    { intros s0 d0 x0 Hin. destruct (process_npdu_up _ _ _ _ _ _ _ _ _ _ Epr Hin) as (? & ? & _ & _ & _ & _ & Hha & _).
      rewrite Hp3 in Hha. destruct Hr as (_ & _ & _ & E). congruence. }
    rewrite (count_up_none _ Hnu) in Hups.
    assert (length (hearers os) = 0%nat) by (rewrite hearers_length; lia).
    destruct (hearers os); [reflexivity|discriminate].
  - destruct Hst as (lan0 & m0 & a & Hp & Ha & Hn & Hh).
    assert (Happ1 : appb ns0 x = true) by (unfold appb; rewrite Ew0; exact Hh).
    rewrite Hp in Hport'. destruct (snd x) as [|q] eqn:Eq; [|destruct q; discriminate]. cbn in Hport'. inversion Hport'; subst lan0 m0.
    destruct (Nat.eq_dec (fst x) src) as [Es|Es].
    + rewrite Es, Hws in Ew0. inversion Ew0; subst w0. rewrite Hwsp in Hp. inversion Hp; subst m.
      assert (Hacc : accepts smac (lbc s smac data) = false) by (unfold accepts, lbc; cbn; rewrite mac_eqb_refl; reflexivity).
      rewrite Hacc. cbn [fst snd]. split; [reflexivity|]. unfold hears. rewrite Es, Nat.eqb_refl, andb_false_r. reflexivity.
    + assert (Hacc : accepts m (lbc s smac data) = true).
      { unfold accepts, lbc. cbn [f_dst f_src]. rewrite mac_eqb_neq; [reflexivity|]. intro E. subst m.
        assert (E : (src, 0%nat) = x).
        { apply (nodup_map_inj (port_mac ns0) (lan_members lns s)); [apply (io_macs _ _ Hio)|eapply io_listed; eauto|assumption|].
          rewrite (port_of_mac _ _ _ _ Hsrcport), (port_of_mac _ _ _ _ Hport). reflexivity. }
        subst x. apply Es. reflexivity. }
      rewrite Hacc.
      rewrite (station_hears_local (w_node w') a (f_src (lbc s smac data)) (f_dst (lbc s smac data)) (f_npdu (lbc s smac data))); try reflexivity; try assumption.
      2:{ rewrite Hp2. exact Ha. } 2:{ rewrite Hp3. exact Hh. }
      cbn [emit fst snd]. split; [reflexivity|].
      unfold hears. rewrite Happ1. destruct (Nat.eqb_spec (fst x) src); [contradiction|]. reflexivity.
Qed.

(* C06 local broadcast: stays on its network; every other station of that network exactly once; nobody else *)
Theorem local_broadcast_once : forall w src ws s smac data,
  internet_ok (lans w) (nodes w) -> queue w = [] ->
  nth_error (nodes w) src = Some ws -> w_ports ws = [(s, smac)] -> station_shape ws -> apdu_ok data = true ->
  let w0 := submit w src ALB data in
  exists osn, queue (run 1 w0) = [] /\ (forall k', (1 <= k')%nat -> run k' w0 = run 1 w0) /\
    trace (run 1 w0) = osn ++ trace w /\ NoDup (hearers osn) /\
    forall who, In who (hearers osn) <->
      (who <> src /\ exists wn m, nth_error (nodes w) who = Some wn /\ station_shape wn /\ w_ports wn = [(s, m)]).
Proof.
  intros w src ws s smac data Hio Hq Hws Hwsp Hwss Hok w0.
  pose proof Hwss as (l0 & m0 & a & Hp0 & Ha & Hn & Hh). rewrite Hwsp in Hp0. inversion Hp0; subst l0 m0.
  assert (Hw0 : w0 = mkWorld (set_nth (nodes w) src (mkW (w_node ws) (w_ports ws))) (lans w) [lbc s smac data] (trace w)).
  { unfold w0, submit. rewrite Hws. unfold indication, local_idx, nth_adapter, modelled_config. rewrite Ha.
    cbn [last_with_addr].
    assert (Hl : match match a_mac a with Some _ => Some 0%nat | None => None end with Some i => i | None => 0%nat end = 0%nat)
      by (destruct (a_mac a); reflexivity).
    rewrite Hl. cbn [nth_error negb emit w_ports]. rewrite Hwsp. cbn [nth_error]. rewrite Hq. reflexivity. }
  assert (Hsim : sim 0 (nodes w) (nodes w0)) by (rewrite Hw0; apply sim_set_same; assumption).
  destruct (deliver (set_nth (nodes w) src (mkW (w_node ws) (w_ports ws))) (lbc s smac data) (lan_members (lans w) s) [] [OFrame (lbc s smac data)])
    as [[ns' q'] tr'] eqn:Ed.
  assert (Hrun1 : run 1 w0 = mkWorld ns' (lans w) q' (tr' ++ trace w)).
  { cbn [run]. unfold step, step_core. rewrite Hw0. cbn [queue lans nodes trace].
    change (f_lan (lbc s smac data)) with s. rewrite Ed. reflexivity. }
  destruct (deliver_as_map _ _ _ _ _ _ _ _ Ed (io_once _ _ Hio s)) as (A1 & A2 & _ & _).
  rewrite Hw0 in Hsim. cbn [nodes] in Hsim.
  assert (Hmf := fun x Hx => member_local (lans w) (nodes w) 0 s src ws smac data _ x Hio Hws Hwsp Hwss Hok Hsim Hx).
  assert (Hq' : q' = []).
  { rewrite A1. cbn [app]. rewrite (flat_map_ext_in' _ (fun _ => []) _ (fun x Hx => proj1 (Hmf x Hx))).
    clear. induction (lan_members (lans w) s); [reflexivity|assumption]. }
  exists (rev (flat_map (out_obs (set_nth (nodes w) src (mkW (w_node ws) (w_ports ws))) (lbc s smac data)) (lan_members (lans w) s))
          ++ [OFrame (lbc s smac data)]).
  assert (Hhe : hearers (rev (flat_map (out_obs (set_nth (nodes w) src (mkW (w_node ws) (w_ports ws))) (lbc s smac data)) (lan_members (lans w) s))
                         ++ [OFrame (lbc s smac data)])
                = rev (flat_map (hears (nodes w) src) (lan_members (lans w) s))).
  { rewrite hearers_app. cbn [hearers flat_map app]. rewrite app_nil_r, hearers_rev, hearers_flat_map. f_equal.
    apply flat_map_ext_in'. intros x Hx. apply (Hmf x Hx). }
  assert (Hq1 : queue (run 1 w0) = []) by (rewrite Hrun1; exact Hq').
  split; [assumption|]. split.
  { intros k' Hk. replace k' with (1 + (k' - 1))%nat by lia. rewrite run_add. apply run_quiet. assumption. }
  rewrite Hrun1. cbn [trace].
  split; [rewrite A2, <- app_assoc; reflexivity|]. rewrite Hhe. split.
  - apply NoDup_rev. apply hears_nodup. apply (io_once _ _ Hio s).
  - intro who. rewrite <- in_rev, in_flat_map. split.
    + intros (x & Hx & Hwx). apply hears_in in Hwx. destruct Hwx as (E & Happ & Hne). subst who. split; [assumption|].
      destruct (io_members _ _ Hio _ _ Hx) as [m Hport]. unfold port_of in Hport. unfold appb in Happ.
      destruct (nth_error (nodes w) (fst x)) as [wn|] eqn:Ew; [|discriminate].
      destruct (io_shape _ _ Hio _ _ Ew) as [(_ & _ & _ & Hh')|Hst]; [congruence|].
      exists wn. pose proof Hst as (l1 & m1 & a1 & Hp1 & _). rewrite Hp1 in Hport.
      destruct (snd x) as [|q]; [|destruct q; discriminate]. cbn in Hport. inversion Hport; subst.
      exists m. auto.
    + intros (Hne & wn & m & Hwn & Hst & Hp). exists (who, 0%nat). split.
      * eapply io_listed; eauto. unfold port_of. cbn [fst snd]. rewrite Hwn, Hp. reflexivity.
      * pose proof Hst as (_ & _ & _ & _ & _ & _ & Hh'). unfold hears, appb. cbn [fst]. rewrite Hwn, Hh'.
        destruct (Nat.eqb_spec who src); [contradiction|]. left. reflexivity.
Qed.
