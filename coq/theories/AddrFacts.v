(* AddrFacts.v — lemmas about the address model Addr.v *)
From Bac Require Import Base Addr.
