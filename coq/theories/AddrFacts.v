(* AddrFacts.v — lemmas about the address model Addr.v: decimal and hexadecimal text,
   splitting, equality / tuple laws. *)
From Bac Require Import Base Addr.
From Coq Require Import ZifyBool ZifyN ZifyNat.
Ltac Zify.zify_post_hook ::= Z.to_euclidean_division_equations.
Open Scope N_scope.

(* ------------------------------------------------------------------ characters *)
Lemma is_digit_spec c : is_digit c = true <-> 48 <= c <= 57.
Proof. unfold is_digit. lia. Qed.

Lemma digit_is_hex c : is_digit c = true -> is_hex c = true.
Proof. unfold is_hex. intros ->. reflexivity. Qed.

Lemma forallb_notin {A} (f : A -> bool) (s : list A) (c : A) :
  forallb f s = true -> f c = false -> ~ In c s.
Proof.
  intros H Hc Hin. rewrite forallb_forall in H. apply H in Hin. congruence.
Qed.

Lemma digits_forall s : digits s = true -> forallb is_digit s = true.
Proof. destruct s; [discriminate|]. exact (fun H => H). Qed.

Lemma digits_nonempty s : digits s = true -> s <> [].
Proof. destruct s; [discriminate|]. discriminate. Qed.

Lemma digits_intro s : s <> [] -> forallb is_digit s = true -> digits s = true.
Proof. destruct s; [congruence|]. intros _ H; exact H. Qed.

Lemma digits_notin s c : digits s = true -> is_digit c = false -> ~ In c s.
Proof. intros H. apply forallb_notin. now apply digits_forall. Qed.

(* ------------------------------------------------------------------ decimal text *)
Lemma dec_acc_app a s1 s2 : dec_acc a (s1 ++ s2) = dec_acc (dec_acc a s1) s2.
Proof. revert a. induction s1 as [|c r IH]; intro a; cbn [dec_acc app]; [reflexivity|apply IH]. Qed.

Lemma dec_aux_ok : forall fuel n acc, n < 10 ^ N.of_nat (S fuel) ->
  exists ds, dec_aux fuel n acc = ds ++ acc /\ forallb is_digit ds = true /\ ds <> [] /\
             forall a, dec_acc a ds = a * 10 ^ lenN ds + n.
Proof.
  induction fuel as [|f IH]; intros n acc Hn.
  - exists [48 + n mod 10]. change (10 ^ N.of_nat 1) with 10 in Hn.
    cbn [dec_aux app forallb dec_acc]. repeat split.
    + unfold is_digit. lia.
    + discriminate.
    + intro a. change (lenN [48 + n mod 10]) with 1. change (10 ^ 1) with 10. lia.
  - cbn [dec_aux]. destruct (n / 10 =? 0) eqn:E.
    + exists [48 + n mod 10]. cbn [app forallb dec_acc]. repeat split.
      * unfold is_digit. lia.
      * discriminate.
      * intro a. change (lenN [48 + n mod 10]) with 1. change (10 ^ 1) with 10. lia.
    + assert (Hq : n / 10 < 10 ^ N.of_nat (S f)).
      { rewrite (Nat2N.inj_succ (S f)) in Hn. rewrite N.pow_succ_r' in Hn. lia. }
      destruct (IH (n / 10) ((48 + n mod 10) :: acc) Hq) as (ds & E1 & E2 & E3 & E4).
      exists (ds ++ [48 + n mod 10]). repeat split.
      * rewrite E1, <- app_assoc. reflexivity.
      * rewrite forallb_app, E2. cbn [forallb]. unfold is_digit. lia.
      * destruct ds; discriminate.
      * intro a. rewrite dec_acc_app, E4. cbn [dec_acc].
        unfold lenN. rewrite app_length. cbn [length]. rewrite Nat.add_1_r, Nat2N.inj_succ, N.pow_succ_r'.
        fold (lenN ds). generalize (10 ^ lenN ds). intro P. nia.
Qed.

Lemma size_fuel n : n < 10 ^ N.of_nat (S (N.to_nat (N.size n))).
Proof.
  rewrite Nat2N.inj_succ, N2Nat.id.
  apply N.lt_le_trans with (2 ^ N.size n).
  - apply N.size_gt.
  - apply N.le_trans with (10 ^ N.size n).
    + apply N.pow_le_mono_l. lia.
    + apply N.pow_le_mono_r; lia.
Qed.

Lemma dec_str_ok n : forallb is_digit (dec_str n) = true /\ dec_str n <> [] /\ dec_val (dec_str n) = n.
Proof.
  unfold dec_str, dec_val.
  destruct (dec_aux_ok (N.to_nat (N.size n)) n [] (size_fuel n)) as (ds & E1 & E2 & E3 & E4).
  rewrite E1, app_nil_r. repeat split; try assumption. rewrite E4. lia.
Qed.

Lemma dec_str_digits n : digits (dec_str n) = true.
Proof. destruct (dec_str_ok n) as (A & B & _). now apply digits_intro. Qed.
Lemma dec_str_val n : dec_val (dec_str n) = n.
Proof. apply dec_str_ok. Qed.

(* ------------------------------------------------------------------ hexadecimal text *)
Lemma hexdigit_ok d : d < 16 -> is_hex (hexdigit d) = true /\ hexval (hexdigit d) = d.
Proof.
  intro H. unfold hexdigit, is_hex, hexval, is_digit.
  destruct (d <? 10) eqn:E; split; try lia.
  - destruct ((48 <=? 48 + d) && (48 + d <=? 57)) eqn:F; lia.
  - destruct ((48 <=? 87 + d) && (87 + d <=? 57)) eqn:F; [lia|].
    destruct (97 <=? 87 + d) eqn:G; lia.
Qed.

Lemma btox_hex l : bytes_ok l = true -> forallb is_hex (btox l) = true.
Proof.
  induction l as [|b r IH]; [reflexivity|]. cbn [bytes_ok forallb btox]. unfold byte_ok.
  intro H. apply andb_true_iff in H as [Hb Hr].
  destruct (hexdigit_ok (b / 16)) as [A _]; [lia|].
  destruct (hexdigit_ok (b mod 16)) as [B _]; [lia|].
  rewrite A, B. cbn [andb]. apply IH, Hr.
Qed.

Lemma unhex_btox l : bytes_ok l = true -> unhex (btox l) = Ok l.
Proof.
  induction l as [|b r IH]; [reflexivity|]. cbn [bytes_ok forallb btox unhex]. unfold byte_ok.
  intro H. apply andb_true_iff in H as [Hb Hr].
  destruct (hexdigit_ok (b / 16)) as [_ A]; [lia|].
  destruct (hexdigit_ok (b mod 16)) as [_ B]; [lia|].
  rewrite (IH Hr), A, B. cbn [bind]. replace (b / 16 * 16 + b mod 16) with b by lia. reflexivity.
Qed.

Lemma filter_all {A} (f : A -> bool) l : forallb f l = true -> filter f l = l.
Proof.
  induction l as [|x r IH]; [reflexivity|]. cbn [forallb filter]. intro H.
  apply andb_true_iff in H as [Hx Hr]. rewrite Hx, (IH Hr). reflexivity.
Qed.

Lemma xtob_btox l : bytes_ok l = true -> xtob (btox l) = Ok l.
Proof. intro H. unfold xtob. rewrite (filter_all _ _ (btox_hex l H)). now apply unhex_btox. Qed.

Lemma btox_length l : length (btox l) = (2 * length l)%nat.
Proof. induction l as [|b r IH]; [reflexivity|]. cbn [btox length]. lia. Qed.

Lemma hex_pairs_btox l : l <> [] -> bytes_ok l = true -> hex_pairs (btox l) = true.
Proof.
  intros Hne H. unfold hex_pairs. destruct (btox l) eqn:E.
  - destruct l; [congruence|discriminate].
  - rewrite <- E, (btox_hex l H), andb_true_r. unfold lenN. rewrite btox_length.
    rewrite Nat2N.inj_mul. change (N.of_nat 2) with 2. rewrite N.even_mul. reflexivity.
Qed.

(* ------------------------------------------------------------------ splitting *)
Lemma split_at_app c a b : ~ In c a -> split_at c (a ++ c :: b) = Some (a, b).
Proof.
  induction a as [|x r IH]; intro H; cbn [app split_at].
  - rewrite N.eqb_refl. reflexivity.
  - destruct (x =? c) eqn:E.
    + exfalso. apply H. left. lia.
    + rewrite IH; [reflexivity|]. intro Hin. apply H. now right.
Qed.

Lemma split_at_none c s : ~ In c s -> split_at c s = None.
Proof.
  induction s as [|x r IH]; intro H; cbn [split_at]; [reflexivity|].
  destruct (x =? c) eqn:E.
  - exfalso. apply H. left. lia.
  - rewrite IH; [reflexivity|]. intro Hin. apply H. now right.
Qed.

(* no newline => `$` sees the whole text *)
Definition nonl (s : str) : bool := forallb (fun c => negb (c =? 10)) s.
Lemma nonl_app a b : nonl (a ++ b) = nonl a && nonl b.
Proof. apply forallb_app. Qed.
Lemma last_nonl s : nonl s = true -> s <> [] -> last s 0 <> 10.
Proof.
  induction s as [|x r IH]; [congruence|]. intros H _. cbn [nonl forallb] in H.
  apply andb_true_iff in H as [Hx Hr]. destruct r as [|y r'].
  - cbn [last]. lia.
  - change (last (x :: y :: r') 0) with (last (y :: r') 0). apply IH; [exact Hr|discriminate].
Qed.
Lemma strip_nl_nonl s : nonl s = true -> strip_nl s = s.
Proof.
  intro H. unfold strip_nl. destruct s as [|x r]; [reflexivity|].
  destruct (last (x :: r) 0 =? 10) eqn:E; [|reflexivity].
  exfalso. apply (last_nonl (x :: r) H); [discriminate|lia].
Qed.
Lemma forallb_imp {A} (f g : A -> bool) l :
  (forall x, f x = true -> g x = true) -> forallb f l = true -> forallb g l = true.
Proof.
  intros Himp. induction l as [|x r IH]; [reflexivity|]. cbn [forallb]. intro H.
  apply andb_true_iff in H as [Hx Hr]. rewrite (Himp _ Hx), (IH Hr). reflexivity.
Qed.
Lemma digits_nonl s : forallb is_digit s = true -> nonl s = true.
Proof. apply forallb_imp. intros x. unfold is_digit. lia. Qed.
Lemma hex_nonl s : forallb is_hex s = true -> nonl s = true.
Proof. apply forallb_imp. intros x. unfold is_hex, is_digit. lia. Qed.

(* ------------------------------------------------------------------ equality, tuple *)
Lemma list_eqb_N_eq (a b : list N) : list_eqb N.eqb a b = true <-> a = b.
Proof.
  revert b. induction a as [|x r IH]; intros [|y s]; cbn [list_eqb]; split; try congruence; try discriminate.
  - intro H. apply andb_true_iff in H as [H1 H2]. apply N.eqb_eq in H1. apply IH in H2. congruence.
  - intro H. injection H as -> ->. rewrite N.eqb_refl. cbn [andb]. now apply IH.
Qed.

Lemma opt_eqb_eq {A} (e : A -> A -> bool) :
  (forall x y, e x y = true <-> x = y) -> forall a b, opt_eqb e a b = true <-> a = b.
Proof.
  intros He [x|] [y|]; cbn [opt_eqb]; split; try congruence; try discriminate.
  - intro H. apply He in H. congruence.
  - intro H. injection H as ->. now apply He.
Qed.

Lemma aty_eqb_eq a b : aty_eqb a b = true <-> a = b.
Proof. unfold aty_eqb. destruct a, b; cbn; split; intro H; try reflexivity; try discriminate; lia. Qed.

Definition key (a : addr) := (ty a, net a, mac a).

(* on route-free addresses == is equality of (type, network, octets) *)
Lemma eqb_key a b : route a = None \/ route b = None -> (eqb a b = true <-> key a = key b).
Proof.
  intro Hr. unfold eqb, key, mac_eqb.
  assert (R : match route a, route b with Some r1, Some r2 => list_eqb N.eqb r1 r2 | _, _ => true end = true).
  { destruct Hr as [-> | ->]; [reflexivity|]. destruct (route a); reflexivity. }
  rewrite R, andb_true_r. rewrite !andb_true_iff.
  rewrite aty_eqb_eq, (opt_eqb_eq Z.eqb Z.eqb_eq), (opt_eqb_eq _ list_eqb_N_eq).
  split.
  - intros [[-> ->] ->]. reflexivity.
  - intro H. injection H as -> -> ->. auto.
Qed.

Lemma eqb_refl a : eqb a a = true.
Proof.
  unfold eqb, mac_eqb.
  rewrite (proj2 (aty_eqb_eq _ _) eq_refl), (proj2 (opt_eqb_eq Z.eqb Z.eqb_eq _ _) eq_refl),
    (proj2 (opt_eqb_eq _ list_eqb_N_eq _ _) eq_refl).
  destruct (route a); [|reflexivity]. cbn [andb]. now apply list_eqb_N_eq.
Qed.

Lemma eqb_sym a b : eqb a b = eqb b a.
Proof.
  assert (S : forall x y, eqb x y = true -> eqb y x = true).
  { intros x y. unfold eqb, mac_eqb. rewrite !andb_true_iff.
    rewrite !aty_eqb_eq, !(opt_eqb_eq Z.eqb Z.eqb_eq), !(opt_eqb_eq _ list_eqb_N_eq).
    intros [[[-> ->] ->] H]. repeat split.
    destruct (route x), (route y); try reflexivity. apply list_eqb_N_eq. apply list_eqb_N_eq in H. congruence. }
  destruct (eqb a b) eqn:E1, (eqb b a) eqn:E2; try reflexivity.
  - apply S in E1. congruence.
  - apply S in E2. congruence.
Qed.

Lemma eqb_trans a b c : route a = None -> route b = None -> route c = None ->
  eqb a b = true -> eqb b c = true -> eqb a c = true.
Proof.
  intros Ha Hb Hc H1 H2.
  apply (eqb_key a b) in H1; [|now left]. apply (eqb_key b c) in H2; [|now left].
  apply (eqb_key a c); [now left|]. congruence.
Qed.

Lemma eqb_tuple a b ra : route a = None -> route b = None ->
  eqb a b = true -> tuple ra a = tuple ra b.
Proof.
  intros Ha Hb H. apply (eqb_key a b) in H; [|now left]. unfold key in H. injection H as H1 H2 H3.
  unfold tuple. rewrite H1, H2, H3, Ha, Hb. reflexivity.
Qed.

(* with route_aware off (the default) the law needs no route hypothesis *)
Lemma eqb_tuple_unaware a b : eqb a b = true -> tuple false a = tuple false b.
Proof.
  unfold eqb, tuple, mac_eqb. rewrite !andb_true_iff.
  rewrite aty_eqb_eq, (opt_eqb_eq Z.eqb Z.eqb_eq), (opt_eqb_eq _ list_eqb_N_eq).
  intros [[[-> ->] ->] _]. reflexivity.
Qed.
