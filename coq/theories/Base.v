(* Base.v — shared vocabulary of all models: octets, error classes, result monad,
   big-endian fields, canonical output encoding for the correspondence check. *)
From Coq Require Export ZArith NArith List Bool Lia.
Export ListNotations.
Open Scope N_scope.

(* Every Python exception class a modelled path can raise. *)
Inductive err : Set :=
| DecodingError | InvalidTag | MissingRequired | InvalidParameterDatatype
| TooManyArguments | RejectExc (r : N) | AbortExc (r : N) | EncodingError
| ValueErr | TypeErr | KeyErr | IndexErr | AttrErr | StructErr | OverflowErr
| NameErr | RuntimeErr | UnicodeErr | OutOfFuel | OtherErr.

Inductive res (A : Type) : Type := Ok (a : A) | Err (e : err).
Arguments Ok {A} a.
Arguments Err {A} e.

Definition bind {A B} (r : res A) (f : A -> res B) : res B :=
  match r with Ok a => f a | Err e => Err e end.
Notation "'do' x <- r ; k" := (bind r (fun x => k))
  (at level 200, x pattern, r at level 100, k at level 200, right associativity).

Definition err_code (e : err) : Z :=
  match e with
  | DecodingError => 1 | InvalidTag => 2 | MissingRequired => 3
  | InvalidParameterDatatype => 4 | TooManyArguments => 5
  | RejectExc r => 100 + Z.of_N r | AbortExc r => 200 + Z.of_N r
  | EncodingError => 6 | ValueErr => 7 | TypeErr => 8 | KeyErr => 9 | IndexErr => 10
  | AttrErr => 11 | StructErr => 12 | OverflowErr => 13 | NameErr => 14
  | RuntimeErr => 15 | UnicodeErr => 16 | OutOfFuel => 17 | OtherErr => 18
  end%Z.

(* octets *)
Definition byte_ok (b : N) : bool := b <? 256.
Definition bytes_ok (l : list N) : bool := forallb byte_ok l.

(* comm.PDUData *)
Definition put (n : N) : res (list N) := if n <? 256 then Ok [n] else Err ValueErr.
Definition be2 (n : N) : list N := [(n / 256) mod 256; n mod 256].
Definition be4 (n : N) : list N :=
  [(n / 16777216) mod 256; (n / 65536) mod 256; (n / 256) mod 256; n mod 256].
Definition put_short (n : N) : list N := be2 (n mod 65536).          (* n & 0xFFFF *)
Definition put_long (n : N) : list N := be4 (n mod 4294967296).      (* n & 0xFFFFFFFF *)

Definition get (bs : list N) : res (N * list N) :=
  match bs with [] => Err DecodingError | b :: r => Ok (b, r) end.
Definition lenN {A} (l : list A) : N := N.of_nat (length l).
Definition get_data (k : N) (bs : list N) : res (list N * list N) :=
  if lenN bs <? k then Err DecodingError
  else Ok (firstn (N.to_nat k) bs, skipn (N.to_nat k) bs).
Definition get_short (bs : list N) : res (N * list N) :=
  match bs with a :: b :: r => Ok (a * 256 + b, r) | _ => Err DecodingError end.
Definition get_long (bs : list N) : res (N * list N) :=
  match bs with
  | a :: b :: c :: d :: r => Ok (a * 16777216 + b * 65536 + c * 256 + d, r)
  | _ => Err DecodingError end.

(* canonical encodings used by the correspondence check: everything becomes list Z *)
Definition zN (n : N) : Z := Z.of_N n.
Definition zs (l : list N) : list Z := map Z.of_N l.
Definition zb (b : bool) : Z := if b then 1%Z else 0%Z.
Definition zlen {A} (l : list A) : Z := Z.of_nat (length l).

Fixpoint list_eqb {A} (eqb : A -> A -> bool) (a b : list A) : bool :=
  match a, b with
  | [], [] => true
  | x :: a', y :: b' => eqb x y && list_eqb eqb a' b'
  | _, _ => false
  end.

(* index list of the cases whose model output differs from the implementation's *)
Fixpoint mismatches_from (i : nat) (cs : list (list Z * list Z)) : list nat :=
  match cs with
  | [] => []
  | (got, want) :: r =>
      if list_eqb Z.eqb got want then mismatches_from (S i) r
      else i :: mismatches_from (S i) r
  end.
Definition mismatches := mismatches_from 0.
