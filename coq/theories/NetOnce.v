(* NetOnce.v — a remote unicast is handed to an application at most once, on EVERY topology: while it travels
   there is never more than one copy in flight (lemmas about Net.v, property C06). *)
From Coq Require Import ZifyBool ZifyN ZifyNat.
From Bac Require Import Base Net NetFacts NetTerm NetTerm2.
Ltac Zify.zify_post_hook ::= Z.to_euclidean_division_equations.
Open Scope N_scope.

(* an application frame that is link-addressed to one station and is either on its last leg (no DADR) or
   still routed towards a remote station *)
Definition uni_npdu (p : npdu) : Prop :=
  n_msg p = None /\ (n_dadr p = None \/ exists d m, n_dadr p = Some (DStation d m)).
Definition uni_frame (f : frame) : Prop := uni_npdu (f_npdu f) /\ exists m, f_dst f = LStation m.

Definition uni_action (p : npdu) (a : action) : Prop :=
  match a with
  | Tx _ _ _ => False
  | Fwd _ d q => (exists m, d = LStation m) /\ n_msg q = None /\ (n_dadr q = None \/ n_dadr q = n_dadr p)
  | _ => True
  end.

Definition weight_action (a : action) : nat :=
  match a with Fwd _ _ _ => 1 | Up _ _ _ => 1 | Tx _ _ _ => 1 | _ => 0 end%nat.
Definition weight_actions (l : list action) : nat := fold_right (fun a s => (weight_action a + s)%nat) 0%nat l.

Lemma forward_uni : forall n i ai src p d m,
  n_msg p = None -> n_dadr p = Some (DStation d m) -> routable n d ->
  Forall (uni_action p) (forward n i ai src p (DStation d m)) /\
  (weight_actions (forward n i ai src p (DStation d m)) <= 1)%nat.
Proof.
  intros n i ai src p d m Hm Hd Hr. unfold forward.
  destruct (is_router n) eqn:Er; cbn [negb]; [|split; [constructor|cbn; lia]].
  destruct (n_hop p =? 0); [split; [constructor|cbn; lia]|].
  destruct (a_net ai) as [inet|]; [|split; [repeat constructor|cbn; lia]].
  destruct (find_net n (Some d)) as [j1|] eqn:Ef.
  - destruct (Nat.eqb j1 i); [split; [constructor|cbn; lia]|].
    split; [|cbn; lia]. constructor; [|constructor]. cbn. split; [eauto|]. split; [assumption|]. left; reflexivity.
  - destruct Hr as [Hr|[Hr|Hr]]; [congruence|congruence|].
    destruct (find_path n d) as [[j0 m0]|]; [|congruence].
    split; [|cbn; lia]. constructor; [|constructor]. cbn. split; [eauto|]. split; [assumption|]. right; reflexivity.
Qed.

Lemma process_npdu_uni : forall n i src dst p n' acts,
  process_npdu n i src dst p = (n', acts) -> uni_npdu p ->
  (forall d, target p = Some d -> routable n d) ->
  Forall (uni_action p) acts /\ (weight_actions acts <= 1)%nat.
Proof.
  intros n i src dst p n' acts H [Hm Hd] Hr. unfold process_npdu in H.
  destruct (nth_adapter n i) as [ai|]; [|inversion H; subst; split; [repeat constructor|cbn; lia]].
  destruct (negb (modelled_config n)); [inversion H; subst; split; [repeat constructor|cbn; lia]|].
  match type of H with (if ?s then _ else _) = _ => destruct s end; [inversion H; subst; split; [constructor|cbn; lia]|].
  match type of H with context [forward ?nn _ _ _ _ _] => set (n1 := nn) in * end.
  assert (Hr1 : forall d, target p = Some d -> routable n1 d).
  { intros d Hd'. specialize (Hr d Hd'). unfold n1. destruct (n_sadr p) as [[sn sm]|]; [|assumption].
    apply (routable_mono n); [reflexivity|apply cache_update_mono|assumption]. }
  rewrite Hm in H.
  destruct Hd as [Hd|[d [m Hd]]]; rewrite Hd in H; cbv iota beta in H.
  - (* last leg / local: processLocally = on the local adapter, never forwarded *)
    match type of H with (if ?c then _ else _) = _ => destruct c end.
    + destruct (negb (apdu_ok (n_data p))); inversion H; subst; split; try (repeat constructor); cbn; lia.
    + inversion H; subst. split; [constructor|cbn; lia].
  - assert (Hf := forward_uni n1 i ai src p d m Hm Hd (Hr1 d ltac:(unfold target; rewrite Hd; reflexivity))).
    destruct Hf as [Hf1 Hf2].
    destruct (optN_eqb (Some d) (a_net ai)); [inversion H; subst; split; [constructor|cbn; lia]|].
    match type of H with context [optN_eqb (Some d) (a_net ?la)] => destruct (optN_eqb (Some d) (a_net la)) end.
    + match type of H with context [a_mac ?la] => destruct (a_mac la) as [lm|] end;
        [|inversion H; subst; split; [repeat constructor|cbn; lia]].
      destruct (mac_eqb m lm); cbn [negb andb] in H.
      * destruct (has_app n1).
        -- destruct (negb (apdu_ok (n_data p))); inversion H; subst; split; try (repeat constructor); cbn; lia.
        -- inversion H; subst. split; [constructor|cbn; lia].
      * inversion H; subst. split; assumption.
    + cbn [andb] in H. inversion H; subst. split; assumption.
Qed.

Definition is_oup (o : obs) : bool := match o with OUp _ _ _ _ => true | _ => false end.
Definition ups (os : list obs) : nat := length (filter is_oup os).

Lemma ups_app : forall a b, ups (a ++ b) = (ups a + ups b)%nat.
Proof. intros. unfold ups. rewrite filter_app, app_length. reflexivity. Qed.

Lemma emit_uni : forall w who p acts fs os,
  emit w who acts = (fs, os) -> uni_npdu p -> Forall (uni_action p) acts ->
  Forall (fun g => uni_frame g /\ (n_dadr (f_npdu g) = None \/ n_dadr (f_npdu g) = n_dadr p)) fs /\
  (length fs + ups os <= weight_actions acts)%nat.
Proof.
  intros w who p. induction acts as [|a r IH]; intros fs os H Hp Hall; cbn [emit] in H.
  - inversion H; subst. split; [constructor|cbn; lia].
  - destruct (emit w who r) as [fs0 os0] eqn:Er. inversion Hall; subst.
    destruct (IH _ _ eq_refl Hp H3) as [IH1 IH2]. cbn [weight_actions fold_right]. fold (weight_actions r).
    destruct a; cbn [uni_action weight_action] in *; try contradiction.
    + destruct (nth_error (w_ports w) port) as [[lan m]|]; inversion H; subst; clear H.
      * destruct H2 as ([m0 Hd] & Hm & Hc). split; [|cbn [length]; lia].
        constructor; [|assumption]. split; [|cbn; assumption]. split; [|exists m0; assumption].
        split; [assumption|]. destruct Hc as [Hc|Hc]; [left; assumption|].
        destruct Hp as [_ [Hp|Hp]]; [left; cbn; congruence|right; cbn; rewrite Hc; assumption].
      * split; [assumption|lia].
    + inversion H; subst. split; [assumption|]. unfold ups in *. cbn [filter is_oup length]. lia.
    + inversion H; subst. split; [assumption|]. unfold ups in *. cbn [filter is_oup]. lia.
    + inversion H; subst. split; [assumption|]. unfold ups in *. cbn [filter is_oup]. lia.
Qed.

(* link address of a LAN member *)
Definition port_mac (ns : list wnode) (m : nat * nat) : option mac :=
  match nth_error ns (fst m) with
  | Some w => match nth_error (w_ports w) (snd m) with Some (_, x) => Some x | None => None end
  | None => None
  end.

Lemma set_nth_nth_same : forall {X} (l : list X) i x y, nth_error l i = Some y -> nth_error (set_nth l i x) i = Some x.
Proof. induction l as [|a l IH]; intros [|i] x y H; cbn in *; try discriminate; [reflexivity|eapply IH; eauto]. Qed.

Lemma set_nth_nth_other : forall {X} (l : list X) i j x, i <> j -> nth_error (set_nth l i x) j = nth_error l j.
Proof.
  induction l as [|a l IH]; intros [|i] [|j] x H; cbn; try reflexivity; try congruence.
  apply IH. congruence.
Qed.

Lemma port_mac_set_nth : forall ns who w n' m,
  nth_error ns who = Some w -> port_mac (set_nth ns who (mkW n' (w_ports w))) m = port_mac ns m.
Proof.
  intros ns who w n' [a b] Hw. unfold port_mac. cbn [fst snd].
  destruct (Nat.eq_dec who a) as [E|E].
  - subst a. rewrite (set_nth_nth_same _ _ _ _ Hw), Hw. reflexivity.
  - rewrite set_nth_nth_other by assumption. reflexivity.
Qed.

(* nobody on the LAN has the destination address: nothing happens *)
Lemma deliver_nobody : forall members ns f q tr m,
  f_dst f = LStation m -> (forall x, In x members -> port_mac ns x <> Some m) ->
  deliver ns f members q tr = (ns, q, tr).
Proof.
  induction members as [|[who port] r IH]; intros ns f q tr m Hd Hno; cbn [deliver]; [reflexivity|].
  assert (Hr : forall x, In x r -> port_mac ns x <> Some m) by (intros x Hx; apply Hno; right; assumption).
  destruct (nth_error ns who) as [w|] eqn:En; [|eapply IH; eauto].
  destruct (nth_error (w_ports w) port) as [[lan wmac]|] eqn:Ep; [|eapply IH; eauto].
  assert (Hne : wmac <> m).
  { intro E. apply (Hno (who, port)); [left; reflexivity|]. unfold port_mac. cbn. rewrite En, Ep. congruence. }
  unfold accepts. rewrite Hd.
  destruct (mac_eqb m wmac) eqn:E; [apply mac_eqb_eq in E; congruence|]. eapply IH; eauto.
Qed.

Lemma deliver_uni : forall members ns f q tr ns' q' tr',
  deliver ns f members q tr = (ns', q', tr') -> uni_frame f ->
  NoDup (map (port_mac ns) members) ->
  (forall d, target (f_npdu f) = Some d -> all_routable ns d) ->
  exists new osn, q' = q ++ new /\ tr' = osn ++ tr /\
    Forall (fun g => uni_frame g /\ (n_dadr (f_npdu g) = None \/ n_dadr (f_npdu g) = n_dadr (f_npdu f))) new /\
    (length new + ups osn <= 1)%nat /\
    (forall x, port_mac ns' x = port_mac ns x) /\
    (forall d, all_routable ns d -> all_routable ns' d).
Proof.
  induction members as [|[who port] r IH]; intros ns f q tr ns' q' tr' H Hu Hnd Hr; cbn [deliver] in H.
  - inversion H; subst. exists [], []. rewrite app_nil_r. repeat split; auto; try (cbn; lia).
  - cbn [map] in Hnd. inversion Hnd as [|? ? Hnotin Hnd']; subst.
    destruct (nth_error ns who) as [w|] eqn:En; [|eapply IH; eauto].
    destruct (nth_error (w_ports w) port) as [[lan wmac]|] eqn:Ep; [|eapply IH; eauto].
    destruct (accepts wmac f) eqn:Eacc; [|eapply IH; eauto].
    destruct Hu as [Hp [m Hd]].
    assert (Hm : wmac = m) by (eapply thm_lan_unicast; eauto). subst wmac.
    destruct (process_npdu (w_node w) port (f_src f) (f_dst f) (f_npdu f)) as [n' acts] eqn:Epr.
    destruct (emit (mkW n' (w_ports w)) who acts) as [fs os] eqn:Ee.
    assert (Hin : In w ns) by (eapply nth_error_In; eauto).
    assert (Hrw : forall d, target (f_npdu f) = Some d -> routable (w_node w) d) by (intros d Hd'; apply (Hr d Hd' w Hin)).
    destruct (process_npdu_uni _ _ _ _ _ _ _ Epr Hp Hrw) as [Hacts Hwt].
    destruct (process_npdu_app _ _ _ _ _ _ _ Epr (proj1 Hp) Hrw) as (_ & Had & Hmono).
    destruct (emit_uni _ _ _ _ _ _ Ee Hp Hacts) as [Hfs Hlen].
    (* nobody else on this LAN has address m *)
    assert (Hhead : port_mac ns (who, port) = Some m) by (unfold port_mac; cbn; rewrite En, Ep; reflexivity).
    assert (Hno : forall x, In x r -> port_mac (set_nth ns who (mkW n' (w_ports w))) x <> Some m).
    { intros x Hx. rewrite (port_mac_set_nth _ _ _ _ _ En). intro E. apply Hnotin.
      rewrite Hhead, <- E. apply in_map. assumption. }
    rewrite (deliver_nobody r _ f _ _ m Hd Hno) in H. inversion H; subst; clear H.
    exists fs, (rev os). repeat split.
    + rewrite rev_append_rev. reflexivity.
    + assumption.
    + unfold ups in *. assert (length (filter is_oup (rev os)) = length (filter is_oup os)).
      { clear. induction os as [|o os IH]; [reflexivity|]. cbn [rev]. rewrite filter_app, app_length. cbn [filter].
        destruct (is_oup o); cbn [length]; lia. }
      lia.
    + intro x. apply (port_mac_set_nth _ _ _ _ _ En).
    + intros d Hd' wn Hwn. apply set_nth_In in Hwn. destruct Hwn as [Hwn|Hwn]; [|apply Hd'; assumption].
      subst wn. cbn. apply (routable_mono (w_node w)); auto.
Qed.

(* ---- the run *)
Definition lans_distinct (lns : list (N * list (nat * nat))) (ns : list wnode) : Prop :=
  forall lan, NoDup (map (port_mac ns) (lan_members lns lan)).

Lemma run_quiet : forall k w, queue w = [] -> run k w = w.
Proof. intros [|k] w H; cbn [run]; [reflexivity|]. unfold step, step_core. rewrite H. reflexivity. Qed.

Lemma child_target_uni : forall f g d,
  (n_dadr (f_npdu g) = None \/ n_dadr (f_npdu g) = n_dadr (f_npdu f)) ->
  target (f_npdu g) = Some d -> target (f_npdu f) = Some d.
Proof. intros f g d [H|H] Ht; unfold target in *; rewrite H in Ht; [discriminate|assumption]. Qed.

Lemma step_uni : forall w f,
  queue w = [f] -> uni_frame f -> lans_distinct (lans w) (nodes w) ->
  (forall d, target (f_npdu f) = Some d -> all_routable (nodes w) d) ->
  exists w' osn, step w = Some w' /\ lans w' = lans w /\ trace w' = osn ++ OFrame f :: trace w /\
    lans_distinct (lans w') (nodes w') /\
    ((queue w' = [] /\ (ups osn <= 1)%nat) \/
     (exists g, queue w' = [g] /\ uni_frame g /\ ups osn = 0%nat /\
                (forall d, target (f_npdu g) = Some d -> all_routable (nodes w') d))).
Proof.
  intros w f Hq Hu Hdist Hr. unfold step, step_core. rewrite Hq.
  destruct (deliver (nodes w) f (lan_members (lans w) (f_lan f)) [] [OFrame f]) as [[ns q'] os] eqn:Ed.
  destruct (deliver_uni _ _ _ _ _ _ _ _ Ed Hu (Hdist (f_lan f)) Hr) as (new & osn & A1 & A2 & A3 & A4 & A5 & A6).
  cbn [app] in A1. subst q' os.
  eexists. exists osn. split; [reflexivity|]. cbn [lans nodes queue trace]. repeat split.
  - rewrite <- app_assoc. reflexivity.
  - intro lan. rewrite (map_ext _ _ A5). apply Hdist.
  - destruct new as [|g [|g2 r]]; cbn [length] in A4.
    + left. split; [reflexivity|lia].
    + right. exists g. inversion A3; subst. destruct H1 as [Hg Hc].
      split; [reflexivity|]. split; [exact Hg|]. split; [lia|].
      intros d Hd. apply A6, Hr. eapply child_target_uni; eauto.
    + lia.
Qed.

(* A link-unicast application frame (routed towards a remote station, or on its last leg) that is alone in
   flight stays alone, and over the whole run at most one PDU is handed to any application — on every topology
   with distinct link addresses per LAN in which the routers have some path for the destination network. *)
Theorem unicast_at_most_once : forall k w f,
  queue w = [f] -> uni_frame f -> lans_distinct (lans w) (nodes w) ->
  (forall d, target (f_npdu f) = Some d -> all_routable (nodes w) d) ->
  exists osn, trace (run k w) = osn ++ trace w /\ (ups osn <= 1)%nat /\
              (length (queue (run k w)) <= 1)%nat /\
              (ups osn = 1%nat -> queue (run k w) = []).
Proof.
  induction k as [|k IH]; intros w f Hq Hu Hdist Hr.
  - exists []. cbn [run app]. rewrite Hq. split; [reflexivity|]. split; [cbn; lia|]. split; [cbn; lia|].
    unfold ups; cbn; discriminate.
  - destruct (step_uni w f Hq Hu Hdist Hr) as (w' & osn & Hs & Hl & Ht & Hd' & Hcase).
    cbn [run]. rewrite Hs. destruct Hcase as [[Hq' Hups]|(g & Hq' & Hg & Hups & Hr')].
    + rewrite (run_quiet k w' Hq'). exists (osn ++ [OFrame f]). rewrite Ht, <- app_assoc. cbn [app].
      rewrite Hq'.
      assert (E : ups (osn ++ [OFrame f]) = ups osn) by (rewrite ups_app; unfold ups at 2; cbn; lia).
      split; [reflexivity|]. split; [lia|]. split; [cbn; lia|]. intros _. reflexivity.
    + destruct (IH w' g Hq' Hg Hd' Hr') as (osn2 & B1 & B2 & B3 & B4).
      exists (osn2 ++ osn ++ [OFrame f]). rewrite B1, Ht, <- !app_assoc. cbn [app].
      assert (E : ups (osn2 ++ osn ++ [OFrame f]) = ups osn2).
      { rewrite !ups_app. unfold ups at 3. cbn. lia. }
      split; [reflexivity|]. split; [lia|]. split; [assumption|]. rewrite E. assumption.
Qed.

(* ---- decidable forms of the hypotheses, for examples *)
Definition omac_eqb (a b : option mac) : bool :=
  match a, b with Some x, Some y => mac_eqb x y | None, None => true | _, _ => false end.

Lemma omac_eqb_false : forall a b, omac_eqb a b = false -> a <> b.
Proof.
  intros [x|] [y|] H E; cbn in H; try discriminate.
  inversion E; subst. clear E. assert (Hrefl : forall u, mac_eqb u u = true).
  { induction u as [|z u IH]; cbn; [reflexivity|]. rewrite N.eqb_refl. exact IH. }
  rewrite Hrefl in H. discriminate.
Qed.

Fixpoint nodupb (l : list (option mac)) : bool :=
  match l with [] => true | a :: r => negb (existsb (omac_eqb a) r) && nodupb r end.

Lemma existsb_omac_false : forall a r, existsb (omac_eqb a) r = false -> ~ In a r.
Proof.
  induction r as [|b r IH]; intros H Hin; [contradiction|]. cbn in H. apply orb_false_elim in H.
  destruct H as [Ha Hr]. destruct Hin as [Hin|Hin]; [subst b; apply omac_eqb_false in Ha; congruence|].
  apply IH; assumption.
Qed.

Lemma nodupb_sound : forall l, nodupb l = true -> NoDup l.
Proof.
  induction l as [|a r IH]; intro H; [constructor|]. cbn in H. apply andb_prop in H. destruct H as [H1 H2].
  constructor; [|apply IH; assumption]. apply existsb_omac_false.
  destruct (existsb (omac_eqb a) r); [discriminate|reflexivity].
Qed.

Definition lans_distinctb (lns : list (N * list (nat * nat))) (ns : list wnode) : bool :=
  forallb (fun kv => nodupb (map (port_mac ns) (snd kv))) lns.

Lemma lans_distinctb_sound : forall lns ns, lans_distinctb lns ns = true -> lans_distinct lns ns.
Proof.
  intros lns ns H lan. unfold lans_distinctb in H. rewrite forallb_forall in H.
  induction lns as [|[k m] r IH]; cbn [lan_members]; [constructor|].
  destruct (k =? lan).
  - apply nodupb_sound. apply (H (k, m)). left; reflexivity.
  - apply IH. intros x Hx. apply H. right; assumption.
Qed.

Definition uni_frameb (f : frame) : bool :=
  match n_msg (f_npdu f), f_dst f with
  | None, LStation _ => match n_dadr (f_npdu f) with None | Some (DStation _ _) => true | _ => false end
  | _, _ => false
  end.

Lemma uni_frameb_sound : forall f, uni_frameb f = true -> uni_frame f.
Proof.
  intros f H. unfold uni_frameb in H. unfold uni_frame, uni_npdu.
  destruct (n_msg (f_npdu f)); [discriminate|]. destruct (f_dst f) as [|m]; [discriminate|].
  split; [|eauto]. split; [reflexivity|].
  destruct (n_dadr (f_npdu f)) as [[|b|d mm]|]; try discriminate; [right; eauto|left; reflexivity].
Qed.

Corollary unicast_at_most_once_b : forall k w f,
  queue w = [f] -> uni_frameb f = true -> lans_distinctb (lans w) (nodes w) = true -> world_routableb w = true ->
  exists osn, trace (run k w) = osn ++ trace w /\ (ups osn <= 1)%nat /\
              (length (queue (run k w)) <= 1)%nat /\ (ups osn = 1%nat -> queue (run k w) = []).
Proof.
  intros k w f Hq Hu Hd Hr. apply (unicast_at_most_once k w f Hq).
  - apply uni_frameb_sound; assumption.
  - apply lans_distinctb_sound; assumption.
  - destruct (world_routableb_sound w Hr) as [_ H]. intros d Hd' wn Hwn.
    apply (H f d wn); [rewrite Hq; left; reflexivity|assumption|assumption].
Qed.
