(* NetLocal.v — a frame without DADR (local unicast, local broadcast, last leg of a routed packet) dies on its LAN:
   one step, nothing new in flight, every node hears it at most once (lemmas about Net.v, property C06). *)
From Coq Require Import ZifyBool ZifyN ZifyNat.
From Bac Require Import Base Net NetFacts NetOnce.
Ltac Zify.zify_post_hook ::= Z.to_euclidean_division_equations.
Open Scope N_scope.

Definition quiet_action (a : action) : Prop :=
  match a with Tx _ _ _ | Fwd _ _ _ => False | _ => True end.

Lemma process_npdu_nodadr : forall n i src dst p n' acts,
  process_npdu n i src dst p = (n', acts) -> n_dadr p = None -> n_msg p = None ->
  Forall quiet_action acts.
Proof.
  intros n i src dst p n' acts H Hd Hm. unfold process_npdu in H.
  destruct (nth_adapter n i) as [ai|]; [|inversion H; subst; repeat constructor].
  destruct (negb (modelled_config n)); [inversion H; subst; repeat constructor|].
  match type of H with (if ?s then _ else _) = _ => destruct s end; [inversion H; subst; constructor|].
  rewrite Hd, Hm in H. cbv iota beta in H.
  match type of H with (if ?c then _ else _) = _ => destruct c end.
  - destruct (negb (apdu_ok (n_data p))); inversion H; subst; repeat constructor.
  - inversion H; subst. constructor.
Qed.

Lemma emit_quiet : forall w who acts fs os,
  emit w who acts = (fs, os) -> Forall quiet_action acts ->
  fs = [] /\ (ups os <= count_up acts)%nat /\ forall o, In o os -> is_oup o = true -> exists s d x, o = OUp who s d x.
Proof.
  intros w who. induction acts as [|a r IH]; intros fs os H Hall; cbn [emit] in H.
  - inversion H; subst. repeat split; [cbn; lia|intros o []].
  - destruct (emit w who r) as [fs0 os0] eqn:Er. inversion Hall; subst.
    destruct (IH _ _ eq_refl H3) as (I1 & I2 & I3). subst fs0.
    destruct a; cbn [quiet_action] in H2; try contradiction; inversion H; subst; clear H.
    + repeat split.
      * unfold ups, count_up in *. cbn [filter is_oup is_up length]. lia.
      * intros o [Ho|Ho] Hu; [subst o; eauto|apply I3; assumption].
    + repeat split.
      * unfold ups, count_up in *. cbn [filter is_oup is_up]. lia.
      * intros o [Ho|Ho] Hu; [subst o; discriminate|apply I3; assumption].
    + repeat split.
      * unfold ups, count_up in *. cbn [filter is_oup is_up]. lia.
      * intros o [Ho|Ho] Hu; [subst o; discriminate|apply I3; assumption].
Qed.

(* who heard it: the node indices of the deliveries recorded in a list of observations *)
Definition hearers (os : list obs) : list nat :=
  flat_map (fun o => match o with OUp who _ _ _ => [who] | _ => [] end) os.

Lemma hearers_app : forall a b, hearers (a ++ b) = hearers a ++ hearers b.
Proof. intros. unfold hearers. apply flat_map_app. Qed.

Lemma hearers_rev_in : forall os x, In x (hearers (rev os)) <-> In x (hearers os).
Proof.
  intros os x. unfold hearers. rewrite !in_flat_map. split; intros [o [Ho Hx]]; exists o; split; auto.
  - apply in_rev. assumption.
  - apply in_rev in Ho. assumption.
Qed.

Lemma nodup_app : forall {A} (a b : list A), NoDup a -> NoDup b -> (forall x, In x a -> ~ In x b) -> NoDup (a ++ b).
Proof.
  induction a as [|x a IH]; intros b Ha Hb Hd; cbn; [assumption|].
  inversion Ha; subst. constructor.
  - intro Hin. apply in_app_or in Hin. destruct Hin as [Hin|Hin]; [contradiction|]. apply (Hd x); [left; reflexivity|assumption].
  - apply IH; auto. intros y Hy. apply Hd. right. assumption.
Qed.

Lemma deliver_nodadr : forall members ns f q tr ns' q' tr',
  deliver ns f members q tr = (ns', q', tr') ->
  n_dadr (f_npdu f) = None -> n_msg (f_npdu f) = None ->
  NoDup (map fst members) ->
  exists osn, q' = q /\ tr' = osn ++ tr /\ NoDup (hearers osn) /\
              (forall x, In x (hearers osn) -> In x (map fst members)).
Proof.
  induction members as [|[who port] r IH]; intros ns f q tr ns' q' tr' H Hd Hm Hnd; cbn [deliver] in H.
  - inversion H; subst. exists []. repeat split; [constructor|intros x []].
  - cbn [map fst] in Hnd. inversion Hnd as [|? ? Hnotin Hnd']; subst.
    assert (Hskip : forall ns0 q0 tr0, deliver ns0 f r q0 tr0 = (ns', q', tr') ->
              exists osn, q' = q0 /\ tr' = osn ++ tr0 /\ NoDup (hearers osn) /\
                          (forall x, In x (hearers osn) -> In x (who :: map fst r))).
    { intros ns0 q0 tr0 H0. destruct (IH _ _ _ _ _ _ _ H0 Hd Hm Hnd') as (osn & A1 & A2 & A3 & A4).
      exists osn. repeat split; auto. intros x Hx. right. apply A4. assumption. }
    destruct (nth_error ns who) as [w|] eqn:En; [|eapply Hskip; eassumption].
    destruct (nth_error (w_ports w) port) as [[lan wmac]|] eqn:Ep; [|eapply Hskip; eassumption].
    destruct (accepts wmac f); [|eapply Hskip; eassumption].
    destruct (process_npdu (w_node w) port (f_src f) (f_dst f) (f_npdu f)) as [n' acts] eqn:Epr.
    destruct (emit (mkW n' (w_ports w)) who acts) as [fs os] eqn:Ee.
    pose proof (process_npdu_nodadr _ _ _ _ _ _ _ Epr Hd Hm) as Hq.
    pose proof (process_npdu_up_once _ _ _ _ _ _ _ Epr) as Honce.
    destruct (emit_quiet _ _ _ _ _ Ee Hq) as (Hfs & Hups & Hwho). subst fs. rewrite app_nil_r in H.
    destruct (IH _ _ _ _ _ _ _ H Hd Hm Hnd') as (osn & A1 & A2 & A3 & A4).
    exists (osn ++ rev os). rewrite rev_append_rev in A2. rewrite <- app_assoc. repeat split; auto.
    + rewrite hearers_app.
      assert (Hh : forall x, In x (hearers (rev os)) -> x = who).
      { intros x Hx. apply (proj1 (hearers_rev_in os x)) in Hx. unfold hearers in Hx. apply in_flat_map in Hx.
        destruct Hx as [o [Ho Hx]]. destruct o; try contradiction.
        destruct (Hwho _ Ho eq_refl) as (s & d & y & E). inversion E; subst. destruct Hx as [Hx|[]]. auto. }
      assert (Hlen : (length (hearers (rev os)) <= 1)%nat).
      { assert (length (hearers (rev os)) = ups (rev os)).
        { clear. unfold hearers, ups. induction (rev os) as [|o l IHl]; [reflexivity|]. cbn [flat_map filter].
          destruct o; cbn [is_oup app length]; rewrite ?IHl; auto. }
        assert (ups (rev os) = ups os).
        { unfold ups. clear. induction os as [|o os IHo]; [reflexivity|]. cbn [rev]. rewrite filter_app, app_length. cbn [filter].
          destruct (is_oup o); cbn [length]; lia. }
        lia. }
      apply nodup_app; auto.
      * destruct (hearers (rev os)) as [|a [|b l]]; [constructor|repeat constructor; intros []|cbn in Hlen; lia].
      * intros x Hx1 Hx2. apply Hh in Hx2. subst x. apply Hnotin. apply A4. assumption.
    + intros x Hx. rewrite hearers_app in Hx. apply in_app_or in Hx. destruct Hx as [Hx|Hx].
      * right. apply A4. assumption.
      * left. symmetry. apply (proj1 (hearers_rev_in os x)) in Hx. unfold hearers in Hx. apply in_flat_map in Hx.
        destruct Hx as [o [Ho Hx]]. destruct o; try contradiction.
        destruct (Hwho _ Ho eq_refl) as (s & d & y & E). inversion E; subst. destruct Hx as [Hx|[]]. auto.
Qed.

(* A frame without DADR alone in flight: one step later nothing is in flight (it stays on its network), and the
   deliveries it caused are to pairwise different nodes, all attached to that network — on every topology in
   which no node has two ports on the same LAN. *)
Theorem local_frame_dies : forall w f,
  queue w = [f] -> n_dadr (f_npdu f) = None -> n_msg (f_npdu f) = None ->
  NoDup (map fst (lan_members (lans w) (f_lan f))) ->
  exists w' osn, step w = Some w' /\ queue w' = [] /\ trace w' = osn ++ OFrame f :: trace w /\
                 NoDup (hearers osn) /\
                 (forall x, In x (hearers osn) -> In x (map fst (lan_members (lans w) (f_lan f)))).
Proof.
  intros w f Hq Hd Hm Hnd. unfold step, step_core. rewrite Hq.
  destruct (deliver (nodes w) f (lan_members (lans w) (f_lan f)) [] [OFrame f]) as [[ns q'] os] eqn:Ed.
  destruct (deliver_nodadr _ _ _ _ _ _ _ _ Ed Hd Hm Hnd) as (osn & A1 & A2 & A3 & A4). subst q' os.
  eexists. exists osn. split; [reflexivity|]. cbn [queue trace]. repeat split; auto.
  rewrite <- app_assoc. reflexivity.
Qed.
