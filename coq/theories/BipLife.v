(* BipLife.v — the life of ONE registration seen from both ends at once: a foreign device
   (Bip.foreign, bvllservice.BIPForeign) and the BBMD it is registered with (Bip.bbmd,
   bvllservice.BIPBBMD), joined by what they really send one another.  No proofs here.

   The device's two timers are the ones of the code:
     f_renew  = taskTime of the BIPForeign object itself (process_task = foreign_renew, 707-716),
     f_expire = taskTime of _registration_timeout_task (OneShotFunction(_registration_expired),
                armed by _start_track_registration 718-729 on every acknowledgement).
   A round = the device's task fires at its due instant r (an expiry due by then fires first),
   its Register-Foreign-Device reaches the BBMD (bbmd_confirmation), the BBMD's answer addressed
   to the device reaches it d ms later (an expiry due by then fires first; foreign_confirmation),
   then the BBMD lives through `es`: 1 s ticks and any other frames until the next renewal.
   Nothing is assumed about what the two send: the frames are taken from the action lists of
   the step functions of Bip.v (to_station). *)
From Bac Require Import Base Bip.
Open Scope Z_scope.

(* TaskManager: the one-shot expiry function runs when its time has come *)
Definition fire_expiry (t : Z) (f : foreign) : foreign :=
  match f_expire f with
  | Some e => if e <=? t then foreign_expired f else f
  | None => f
  end.

(* the frames an action list addresses to station x *)
Definition to_station (x : addr) (acts : list action) : list msg :=
  flat_map (fun a => match a with
                     | Down (DStation y) m => if addr_eqb y x then [m] else []
                     | _ => []
                     end) acts.

(* the BBMD receives frames from station `src` (unicast to its own address) *)
Fixpoint feed_bbmd (b : bbmd) (src : addr) (ms : list msg) : bbmd * list action :=
  match ms with
  | [] => (b, [])
  | m :: r => let (b1, a1) := bbmd_confirmation b src (DStation (b_addr b)) m in
              let (b2, a2) := feed_bbmd b1 src r in (b2, a1 ++ a2)
  end.

(* the device receives frames from station `src` at time now *)
Fixpoint feed_dev (now : Z) (f : foreign) (src me : addr) (ms : list msg) : res foreign :=
  match ms with
  | [] => Ok f
  | m :: r => do x <- foreign_confirmation now f src (DStation me) m; feed_dev now (fst x) src me r
  end.

Record pair := mkPair { p_dev : foreign; p_bbmd : bbmd }.

Definition pair_round (me : addr) (d : Z) (es : list bev) (s : pair) : res pair :=
  match f_renew (p_dev s) with
  | None => Err TypeErr                       (* the device's task is not scheduled: no renewal *)
  | Some r =>
      do x <- foreign_renew r (fire_expiry r (p_dev s));
      let (b1, acts) := feed_bbmd (p_bbmd s) me (to_station (b_addr (p_bbmd s)) (snd x)) in
      do f2 <- feed_dev (r + d) (fire_expiry (r + d) (fst x)) (b_addr (p_bbmd s)) me (to_station me acts);
      Ok (mkPair f2 (bbmd_run b1 es))
  end.

Fixpoint pair_run (me : addr) (rounds : list (Z * list bev)) (s : pair) : res pair :=
  match rounds with
  | [] => Ok s
  | (d, es) :: r => do s1 <- pair_round me d es s; pair_run me r s1
  end.
