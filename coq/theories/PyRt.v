(* PyRt.v — run-time support for the AST-translated Python functions (gen/PureFns.v):
   list indexing with Python's negative-index rule, None-aware comparisons, tuple
   comparison, and calendar.monthrange(y, m)[1]. *)
From Bac Require Export Base.
Open Scope Z_scope.

Definition py_index {A} (l : list A) (i : Z) : res A :=
  let n := Z.of_nat (length l) in
  let j := if i <? 0 then i + n else i in
  if (j <? 0) || (n <=? j) then Err IndexErr
  else match nth_error l (Z.to_nat j) with Some x => Ok x | None => Err IndexErr end.

Definition tbl_get_o (l : list (option Z)) (i : Z) : res (option Z) := py_index l i.
Definition tbl_get_z (l : list Z) (i : Z) : res Z := py_index l i.

Definition oz_truth (o : option Z) : bool :=
  match o with None => false | Some v => negb (v =? 0) end.

(* comparisons between a table element (possibly None) and an int: == and != are total,
   orderings against None raise TypeError (Python 3) *)
Definition oz_ord (f : Z -> Z -> bool) (o : option Z) (z : Z) (left : bool) : res bool :=
  match o with None => Err TypeErr | Some v => Ok (if left then f v z else f z v) end.
Definition oz_cmp_eq_l (o : option Z) (z : Z) : res bool :=
  Ok match o with None => false | Some v => v =? z end.
Definition oz_cmp_eq_r (z : Z) (o : option Z) : res bool := oz_cmp_eq_l o z.
Definition oz_cmp_ne_l (o : option Z) (z : Z) : res bool :=
  Ok match o with None => true | Some v => negb (v =? z) end.
Definition oz_cmp_ne_r (z : Z) (o : option Z) : res bool := oz_cmp_ne_l o z.
Definition oz_cmp_lt_l o z := oz_ord Z.ltb o z true.
Definition oz_cmp_le_l o z := oz_ord Z.leb o z true.
Definition oz_cmp_gt_l o z := oz_ord Z.gtb o z true.
Definition oz_cmp_ge_l o z := oz_ord Z.geb o z true.
Definition oz_cmp_lt_r z o := oz_ord Z.ltb o z false.
Definition oz_cmp_le_r z o := oz_ord Z.leb o z false.
Definition oz_cmp_gt_r z o := oz_ord Z.gtb o z false.
Definition oz_cmp_ge_r z o := oz_ord Z.geb o z false.

Definition d4_first3 (d : Z * Z * Z * Z) : Z * Z * Z := let '(a, b, c, _) := d in (a, b, c).
Definition t3_lt (x y : Z * Z * Z) : bool :=
  let '(a, b, c) := x in let '(a', b', c') := y in
  (a <? a') || ((a =? a') && ((b <? b') || ((b =? b') && (c <? c')))).
Definition t3_eq (x y : Z * Z * Z) : bool :=
  let '(a, b, c) := x in let '(a', b', c') := y in (a =? a') && (b =? b') && (c =? c').
Definition t3_le x y := t3_lt x y || t3_eq x y.
Definition t3_gt x y := t3_lt y x.
Definition t3_ge x y := t3_le y x.
Definition t3_ne x y := negb (t3_eq x y).

(* Gregorian calendar *)
Definition is_leap (y : Z) : bool :=
  ((y mod 4 =? 0) && negb (y mod 100 =? 0)) || (y mod 400 =? 0).
Definition last_day (y m : Z) : Z :=
  if m =? 2 then (if is_leap y then 29 else 28)
  else if (m =? 4) || (m =? 6) || (m =? 9) || (m =? 11) then 30 else 31.
(* calendar.monthrange(y, m)[1]: IllegalMonthError (a ValueError) outside 1..12;
   datetime.date rejects years outside 1..9999 (ValueError) *)
Definition monthrange_last (y m : Z) : res Z :=
  if (m <? 1) || (12 <? m) then Err ValueErr
  else if (y <? 1) || (9999 <? y) then Err ValueErr
  else Ok (last_day y m).
