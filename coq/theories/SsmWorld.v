(* SsmWorld.v — several StateMachineAccessPoints joined by the scripted medium of
   harness/ssm_common.py (World), with the TaskManager's (time, counter) ordering of timers and the
   scripted server application.  `run_spec` produces the canonical trace (list Z) that
   ssm_common.canon_trace produces from the implementation.  No proofs here. *)
From Bac Require Import Base PyRt Ssm.
Open Scope Z_scope.

Record nodecfg := mkNode {
  c_addr : Z; c_maxapdu : Z; c_seg : Z; c_maxsegs : Z; c_retries : Z; c_apdu_to : Z; c_seg_to : Z;
  c_window : Z; c_app_to : Z; c_raw : bool; c_know : list (Z * dinfo) }.
(* r_kind: 0 simple, 1 complex, 2 error, 3 reject, 4 abort, 5 silent *)
Record reqcfg := mkReq { r_t : Z; r_src : Z; r_dst : Z; r_len : Z; r_service : Z; r_invoke : Z; r_kind : Z; r_arg : Z; r_delay : Z }.
Record injcfg := mkInj { i_after : Z; i_t : Z; i_src : Z; i_dst : Z; i_frame : apdu }.

Record node := mkN { n_cfg : nodecfg; n_next : Z; n_ctr : list ssm; n_str : list ssm }.

Record job := mkJob { j_node : Z; j_to : Z; j_invoke : Z; j_service : Z; j_kind : Z; j_arg : Z; j_no : Z }.
Inductive item :=
| IFrame (src dst : Z) (a : apdu)
| ISubmit (no : Z) (r : reqcfg)
| IRespond (j : job)
| IIam (node peer maxapdu seg : Z).

Record world := mkW {
  w_nodes : list node; w_now : Z; w_tctr : Z; w_dseq : Z;
  w_inflight : list item; w_delayed : list (Z * Z * item);
  w_nframes : Z; w_trace : list (list Z);        (* newest chunk first *)
  w_reqs : list reqcfg; w_faults : list (Z * list Z); w_silence : Z; w_injs : list injcfg;
  w_parked : list job;                            (* answers the server applications have parked, oldest first *)
  w_chains : list (Z * Z * Z * Z) }.              (* (node, peer, invoke id, request no): the confirmation callback submits that request *)

Definition set_nodes ns w := mkW ns (w_now w) (w_tctr w) (w_dseq w) (w_inflight w) (w_delayed w) (w_nframes w) (w_trace w) (w_reqs w) (w_faults w) (w_silence w) (w_injs w) (w_parked w) (w_chains w).
Definition set_now t w := mkW (w_nodes w) t (w_tctr w) (w_dseq w) (w_inflight w) (w_delayed w) (w_nframes w) (w_trace w) (w_reqs w) (w_faults w) (w_silence w) (w_injs w) (w_parked w) (w_chains w).
Definition set_tctr c w := mkW (w_nodes w) (w_now w) c (w_dseq w) (w_inflight w) (w_delayed w) (w_nframes w) (w_trace w) (w_reqs w) (w_faults w) (w_silence w) (w_injs w) (w_parked w) (w_chains w).
Definition set_inflight l w := mkW (w_nodes w) (w_now w) (w_tctr w) (w_dseq w) l (w_delayed w) (w_nframes w) (w_trace w) (w_reqs w) (w_faults w) (w_silence w) (w_injs w) (w_parked w) (w_chains w).
Definition set_delayed d l w := mkW (w_nodes w) (w_now w) (w_tctr w) d (w_inflight w) l (w_nframes w) (w_trace w) (w_reqs w) (w_faults w) (w_silence w) (w_injs w) (w_parked w) (w_chains w).
Definition set_nframes n w := mkW (w_nodes w) (w_now w) (w_tctr w) (w_dseq w) (w_inflight w) (w_delayed w) n (w_trace w) (w_reqs w) (w_faults w) (w_silence w) (w_injs w) (w_parked w) (w_chains w).
Definition set_parked p w := mkW (w_nodes w) (w_now w) (w_tctr w) (w_dseq w) (w_inflight w) (w_delayed w) (w_nframes w) (w_trace w) (w_reqs w) (w_faults w) (w_silence w) (w_injs w) p (w_chains w).
Definition set_chains c w := mkW (w_nodes w) (w_now w) (w_tctr w) (w_dseq w) (w_inflight w) (w_delayed w) (w_nframes w) (w_trace w) (w_reqs w) (w_faults w) (w_silence w) (w_injs w) (w_parked w) c.
Definition log (e : list Z) w := mkW (w_nodes w) (w_now w) (w_tctr w) (w_dseq w) (w_inflight w) (w_delayed w) (w_nframes w) (e :: w_trace w) (w_reqs w) (w_faults w) (w_silence w) (w_injs w) (w_parked w) (w_chains w).

(* payloads (harness/ssm_common.py: req_payload, resp_payload) *)
Fixpoint zrange (from : Z) (n : nat) : list Z := match n with O => [] | S k => from :: zrange (from + 1) k end.
Definition req_payload (no n : Z) : list Z :=
  firstn (Z.to_nat n) ([no mod 256; (no / 256) mod 256] ++ map (fun i => (no * 37 + i * 7 + 11) mod 256) (zrange 2 (Z.to_nat (n - 2)))).
Definition resp_payload (no server n : Z) : list Z :=
  firstn (Z.to_nat n) ([(no + 128) mod 256; server mod 256] ++ map (fun i => (no * 53 + server * 101 + i * 13 + 5) mod 256) (zrange 2 (Z.to_nat (n - 2)))).

(* ---------- canonical events ---------- *)
Definition b3 (b : bool) : Z := if b then 1 else 0.
Definition hdr_ints (a : apdu) : list Z :=
  let t := a_type a in
  if t =? 0 then [0; b3 (a_seg a); b3 (a_mor a); b3 (a_sa a); -1; -1; a_seq a; a_win a; a_maxsegs a; a_maxresp a; a_service a; a_invoke a; -1]
  else if t =? 3 then [3; b3 (a_seg a); b3 (a_mor a); -1; -1; -1; a_seq a; a_win a; -1; -1; a_service a; a_invoke a; -1]
  else if t =? 4 then [4; -1; -1; -1; b3 (a_srv a); b3 (a_nak a); a_seq a; a_win a; -1; -1; -1; a_invoke a; -1]
  else if t =? 6 then [6; -1; -1; -1; -1; -1; -1; -1; -1; -1; -1; a_invoke a; a_reason a]
  else if t =? 7 then [7; -1; -1; -1; b3 (a_srv a); -1; -1; -1; -1; -1; -1; a_invoke a; a_reason a]
  else [t; -1; -1; -1; -1; -1; -1; -1; -1; -1; a_service a; a_invoke a; -1].
Definition ev_tx (now src dst : Z) (a : apdu) : list Z :=
  [11; now; src; dst] ++ hdr_ints a ++ [zlen (a_data a); cksum (a_data a); enc_len a].
Definition ev_app (code now node src : Z) (a : apdu) : list Z :=
  [code; now; node; src; a_type a; a_invoke a; zlen (a_data a); cksum (a_data a); a_reason a].

(* ---------- nodes ---------- *)
Fixpoint assoc {A} (k : Z) (l : list (Z * A)) : option A :=
  match l with [] => None | (k', v) :: r => if k =? k' then Some v else assoc k r end.

Definition new_ssm (c : nodecfg) (peer : Z) (client : bool) : ssm :=
  mkSsm peer (-1) IDLE None 0 0 0 0 false 0 0 None
        (c_retries c) (c_apdu_to c) (c_seg_to c) (c_seg c) (Some (c_maxsegs c)) (c_maxapdu c) false None
        (assoc peer (c_know c)) (c_window c) (c_app_to c).

Fixpoint get_node (addr : Z) (ns : list node) : option node :=
  match ns with [] => None | n :: r => if c_addr (n_cfg n) =? addr then Some n else get_node addr r end.
Fixpoint put_node (n : node) (ns : list node) : list node :=
  match ns with [] => [] | m :: r => if c_addr (n_cfg m) =? c_addr (n_cfg n) then n :: r else m :: put_node n r end.

Fixpoint replace_nth {A} (i : nat) (x : A) (l : list A) : list A :=
  match l, i with [], _ => [] | _ :: r, O => x :: r | y :: r, S k => y :: replace_nth k x r end.
Fixpoint remove_nth {A} (i : nat) (l : list A) : list A :=
  match l, i with [], _ => [] | _ :: r, O => r | y :: r, S k => y :: remove_nth k r end.

(* ---------- the medium ---------- *)
Fixpoint insert_delayed (e : Z * Z * item) (l : list (Z * Z * item)) : list (Z * Z * item) :=
  match l with
  | [] => [e]
  | x :: r => let '(t, q, _) := e in let '(t', q', _) := x in
              if (t <? t') || ((t =? t') && (q <? q')) then e :: l else x :: insert_delayed e r
  end.
Definition delay_item (when : Z) (it : item) (w : world) : world :=
  set_delayed (w_dseq w + 1) (insert_delayed (when, w_dseq w, it) (w_delayed w)) w.

Definition fate_of (w : world) (idx : Z) : list Z :=
  if (0 <=? w_silence w) && (w_silence w <=? idx) then []
  else match assoc idx (w_faults w) with Some f => f | None => [0] end.

Fixpoint schedule_copies (fate : list Z) (it : item) (w : world) : world :=
  match fate with
  | [] => w
  | d :: r => schedule_copies r it
               (if d =? 0 then set_inflight (w_inflight w ++ [it]) w else delay_item (w_now w + d) it w)
  end.

Definition sent (src dst : Z) (a : apdu) (w : world) : world :=
  let idx := w_nframes w in
  let w := log (ev_tx (w_now w) src dst a) (set_nframes (idx + 1) w) in
  let w := schedule_copies (fate_of w idx) (IFrame src dst a) w in
  fold_left (fun w i => if i_after i =? idx then set_inflight (w_inflight w ++ [IFrame (i_src i) (i_dst i) (i_frame i)]) w else w)
            (w_injs w) w.

(* ---------- running a handler on a transaction of a node ---------- *)
Definition ev_exn (now : Z) (e : err) (wh node : Z) : list Z := [15; now; err_code e; wh; node].

(* the answer of the scripted server application *)
Definition job_apdu (j : job) : option apdu :=
  let k := j_kind j in
  if k =? 0 then Some (mk_sack (j_invoke j) (j_service j))
  else if k =? 1 then Some (mk_cack false false (-1) (-1) (j_invoke j) (j_service j) (resp_payload (j_no j) (j_node j) (j_arg j)))
  else if k =? 2 then Some (mk_error (j_invoke j) (j_service j) (resp_payload (j_no j) (j_node j) (j_arg j)))
  else if k =? 3 then Some (mk_reject (j_invoke j) (j_arg j))
  else if k =? 4 then Some (mk_abort true (j_invoke j) (j_arg j))
  else None.

Fixpoint find_policy (src dst : Z) (data : list Z) (no : Z) (rs : list reqcfg) : option (Z * reqcfg) :=
  match rs with
  | [] => None
  | r :: rest =>
    if (r_src r =? src) && (r_dst r =? dst) && (zlen data =? r_len r) && list_eqb Z.eqb data (req_payload no (r_len r))
    then Some (no, r) else find_policy src dst data (no + 1) rest
  end.

(* outputs of a handler that runs inside the application's answer: only frames *)
Fixpoint process_tx (node peer : Z) (outs : list out) (w : world) : world :=
  match outs with
  | [] => w
  | Tx a :: r => process_tx node peer r (sent node peer a w)
  | ToApp a :: r => process_tx node peer r (log (ev_app 12 (w_now w) node peer a) w)
  end.

(* StateMachineAccessPoint.sap_confirmation (1358-1379) *)
Definition respond (j : job) (w : world) : world :=
  match job_apdu j with
  | None => w
  | Some a =>
    match get_node (j_node j) (w_nodes w) with
    | None => w
    | Some n =>
      match find_tr (j_invoke j) (j_to j) (n_str n) O with
      | None => w
      | Some (i, t) =>
        let '(st, e) := s_confirmation a (mkH t [] (w_tctr w) (w_now w) true) in
        let strs := if h_live st then replace_nth i (h_s st) (n_str n) else remove_nth i (n_str n) in
        let w := set_tctr (h_ctr st) (set_nodes (put_node (mkN (n_cfg n) (n_next n) (n_ctr n) strs) (w_nodes w)) w) in
        let w := process_tx (j_node j) (j_to j) (rev (h_outs st)) w in
        match e with Some x => log (ev_exn (w_now w) x 2 (j_node j)) w | None => w end
      end
    end
  end.

(* the application gives the answers it has parked for this node (oldest first) *)
Fixpoint respond_all (js : list job) (w : world) : world :=
  match js with [] => w | j :: r => respond_all r (respond j w) end.

(* r_delay: 0 = answer inside the indication, > 0 = answer after that many ms, -1 = park the answer,
   -2 = give every parked answer of this node, then answer this request, all inside this indication *)
Definition app_indication (node peer : Z) (a : apdu) (w : world) : world :=
  let w := log (ev_app 12 (w_now w) node peer a) w in
  if negb (a_type a =? 0) then w else
  let '(no, kind, arg, delay) :=
    match find_policy peer node (a_data a) 0 (w_reqs w) with
    | Some (no, r) => (no, r_kind r, r_arg r, r_delay r)
    | None => (-1, 0, 0, 0)
    end in
  let j := mkJob node peer (a_invoke a) (a_service a) kind arg no in
  if delay =? 0 then respond j w
  else if delay =? -1 then set_parked (w_parked w ++ [j]) w
  else if delay =? -2 then
    let mine := filter (fun x => j_node x =? node) (w_parked w) in
    let rest := filter (fun x => negb (j_node x =? node)) (w_parked w) in
    respond j (respond_all mine (set_parked rest w))
  else delay_item (w_now w + delay) (IRespond j) w.

Fixpoint process_outs (client : bool) (node peer : Z) (outs : list out) (w : world) : world :=
  match outs with
  | [] => w
  | Tx a :: r => process_outs client node peer r (sent node peer a w)
  | ToApp a :: r =>
    process_outs client node peer r
      (if client then log (ev_app 13 (w_now w) node peer a) w else app_indication node peer a w)
  end.

(* StateMachineAccessPoint.sap_indication (1305-1356) for a confirmed request *)
Definition submit (no : Z) (r : reqcfg) (w : world) : world :=
  match get_node (r_src r) (w_nodes w) with
  | None => w
  | Some n =>
    if c_raw (n_cfg n) then w else     (* a raw peer's request only scripts the server application's answer *)
    let '(idr, next') :=
      if r_invoke r =? -1 then get_next_invoke_id (n_next n) (r_dst r) (n_ctr n)
      else if existsb (tr_matches (r_invoke r) (r_dst r)) (n_ctr n) then (Err RuntimeErr, n_next n)
      else (Ok (r_invoke r), n_next n) in
    match idr with
    | Err e =>
      let n' := mkN (n_cfg n) next' (n_ctr n) (n_str n) in
      log [10; w_now w; r_src r; r_dst r; no; r_invoke r; err_code e] (set_nodes (put_node n' (w_nodes w)) w)
    | Ok id =>
      let a := mk_creq false false false (-1) (-1) (-1) (-1) id (r_service r) (req_payload no (r_len r)) in
      let t := new_ssm (n_cfg n) (r_dst r) true in
      let n' := mkN (n_cfg n) next' (n_ctr n ++ [t]) (n_str n) in
      let '(st, e) := c_indication a (mkH t [] (w_tctr w) (w_now w) true) in
      let i := length (n_ctr n) in
      let l' := if h_live st then replace_nth i (h_s st) (n_ctr n') else remove_nth i (n_ctr n') in
      let n'' := mkN (n_cfg n) next' l' (n_str n) in
      let w := set_tctr (h_ctr st) (set_nodes (put_node n'' (w_nodes w)) w) in
      let w := log [10; w_now w; r_src r; r_dst r; no; id; match e with Some x => err_code x | None => 0 end] w in
      process_outs true (r_src r) (r_dst r) (rev (h_outs st)) w
    end
  end.

(* the client application's confirmation callback may submit the next request at once (request chaining): w_chains says on
   which (node, peer, invoke id) which request; each entry is used once.  What that submission itself emits is processed
   without further chaining. *)
Fixpoint take_chain (node peer inv : Z) (l : list (Z * Z * Z * Z)) : option (Z * list (Z * Z * Z * Z)) :=
  match l with
  | [] => None
  | (n, p, i, no) :: r =>
    if (n =? node) && (p =? peer) && (i =? inv) then Some (no, r)
    else match take_chain node peer inv r with Some (x, r') => Some (x, (n, p, i, no) :: r') | None => None end
  end.

Fixpoint process_outs_c (node peer : Z) (outs : list out) (w : world) : world :=
  match outs with
  | [] => w
  | Tx a :: r => process_outs_c node peer r (sent node peer a w)
  | ToApp a :: r =>
    let w := log (ev_app 13 (w_now w) node peer a) w in
    let w := match take_chain node peer (a_invoke a) (w_chains w) with
             | None => w
             | Some (no, rest) =>
               match nth_error (w_reqs w) (Z.to_nat no) with
               | Some rq => submit no rq (set_chains rest w)
               | None => set_chains rest w
               end
             end in
    process_outs_c node peer r w
  end.

(* run handler `m` on transaction `i` (already in the list) of `node`; `wh` labels an exception *)
Definition run_on (client : bool) (n : node) (i : nat) (t : ssm) (m : M) (wh : Z) (w : world) : world :=
  let '(st, e) := m (mkH t [] (w_tctr w) (w_now w) true) in
  let l := if client then n_ctr n else n_str n in
  let l' := if h_live st then replace_nth i (h_s st) l else remove_nth i l in
  let n' := if client then mkN (n_cfg n) (n_next n) l' (n_str n) else mkN (n_cfg n) (n_next n) (n_ctr n) l' in
  let w := set_tctr (h_ctr st) (set_nodes (put_node n' (w_nodes w)) w) in
  let w := if client then process_outs_c (c_addr (n_cfg n)) (s_peer t) (rev (h_outs st)) w
           else process_outs false (c_addr (n_cfg n)) (s_peer t) (rev (h_outs st)) w in
  match e with Some x => log (ev_exn (w_now w) x wh (c_addr (n_cfg n))) w | None => w end.

(* StateMachineAccessPoint.confirmation (1195-1303) *)
Definition deliver (src dst : Z) (a : apdu) (w : world) : world :=
  match get_node dst (w_nodes w) with
  | None => w
  | Some n =>
    if c_raw (n_cfg n) then w
    else if a_type a =? 0 then
      match find_tr (a_invoke a) src (n_str n) O with
      | Some (i, t) => run_on false n i t (s_indication a) 0 w
      | None =>
        let t := new_ssm (n_cfg n) src false in
        let n' := mkN (n_cfg n) (n_next n) (n_ctr n) (n_str n ++ [t]) in
        run_on false n' (length (n_str n)) t (s_indication a) 0 (set_nodes (put_node n' (w_nodes w)) w)
      end
    else if a_type a =? 1 then w
    else if to_client_side a then
      match find_tr (a_invoke a) src (n_ctr n) O with
      | Some (i, t) => run_on true n i t (c_confirmation a) 0 w
      | None => w
      end
    else if (a_type a =? 4) || (a_type a =? 7) then
      match find_tr (a_invoke a) src (n_str n) O with
      | Some (i, t) => run_on false n i t (s_indication a) 0 w
      | None => w
      end
    else w
  end.

(* ---------- timers: the TaskManager heap orders by (time, counter) ---------- *)
Definition better (a b : option (Z * Z * Z * bool * nat)) : option (Z * Z * Z * bool * nat) :=
  match a, b with
  | None, _ => b
  | _, None => a
  | Some (t1, c1, _, _, _), Some (t2, c2, _, _, _) =>
    if (t1 <? t2) || ((t1 =? t2) && (c1 <? c2)) then a else b
  end.
Fixpoint best_in (addr : Z) (client : bool) (l : list ssm) (i : nat) (acc : option (Z * Z * Z * bool * nat)) :=
  match l with
  | [] => acc
  | t :: r =>
    best_in addr client r (S i)
      (match s_timer t with Some (tm, c) => better acc (Some (tm, c, addr, client, i)) | None => acc end)
  end.
Definition next_timer (w : world) : option (Z * Z * Z * bool * nat) :=
  fold_left (fun acc n => best_in (c_addr (n_cfg n)) false (n_str n) O (best_in (c_addr (n_cfg n)) true (n_ctr n) O acc))
            (w_nodes w) None.

Definition fire (addr : Z) (client : bool) (i : nat) (w : world) : world :=
  match get_node addr (w_nodes w) with
  | None => w
  | Some n =>
    match nth_error (if client then n_ctr n else n_str n) i with
    | None => w
    | Some t =>
      let t' := set_timer_f None t in
      let w := log [14; w_now w; addr; (if client then 0 else 1); s_peer t; s_invoke t; s_state t] w in
      run_on client n i t' (if client then c_process_task else s_process_task) 1 w
    end
  end.

(* DeviceInfoCache.iam_device_info (app.py:97-134): the record of `peer` at `node` takes the announced max-APDU and
   segmentation (a new record has neither max-segments nor max-NPDU).  Transactions hold a reference to the record, not a
   copy: every transaction of that node with that peer that was created when a record existed sees the new values *)
Definition set_dinfo_f v s := mkSsm (s_peer s) (s_invoke s) (s_state s) (s_ctx s) (s_segsize s) (s_segcount s) (s_retry s) (s_segretry s) (s_sentall s) (s_lastseq s) (s_initseq s) (s_actwin s) (s_retries s) (s_apdu_to s) (s_seg_to s) (s_segsupp s) (s_maxsegs s) (s_maxapdu s) (s_sra s) (s_timer s) v (s_propwin s) (s_app_to s).
Fixpoint set_assoc {A} (k : Z) (v : A) (l : list (Z * A)) : list (Z * A) :=
  match l with [] => [(k, v)] | (k', v') :: r => if k =? k' then (k, v) :: r else (k', v') :: set_assoc k v r end.
Definition iam_update (addr peer ma sg : Z) (w : world) : world :=
  match get_node addr (w_nodes w) with
  | None => w
  | Some n =>
    if c_raw (n_cfg n) then w else
    let c := n_cfg n in
    let d := match assoc peer (c_know c) with
             | Some old => mkDinfo (Some ma) sg (d_maxsegs old) (d_maxnpdu old)
             | None => mkDinfo (Some ma) sg None None end in
    let c' := mkNode (c_addr c) (c_maxapdu c) (c_seg c) (c_maxsegs c) (c_retries c) (c_apdu_to c) (c_seg_to c) (c_window c)
                     (c_app_to c) (c_raw c) (set_assoc peer d (c_know c)) in
    let alias := fun t => if (s_peer t =? peer) && match s_dinfo t with Some _ => true | None => false end
                          then set_dinfo_f (Some d) t else t in
    set_nodes (put_node (mkN c' (n_next n) (map alias (n_ctr n)) (map alias (n_str n))) (w_nodes w)) w
  end.

Definition do_item (it : item) (w : world) : world :=
  match it with
  | IFrame src dst a => deliver src dst a w
  | ISubmit no r => submit no r w
  | IRespond j => respond j w
  | IIam node peer ma sg => iam_update node peer ma sg w
  end.

(* one iteration of World.run; None = quiescent *)
Definition step (w : world) : option world :=
  match w_inflight w with
  | it :: rest => Some (do_item it (set_inflight rest w))
  | [] =>
    match w_delayed w, next_timer w with
    | [], None => None
    | (t, _, it) :: rest, None =>
      Some (do_item it (set_delayed (w_dseq w) rest (set_now (Z.max (w_now w) t) w)))
    | [], Some (tm, _, addr, client, i) => Some (fire addr client i (set_now (Z.max (w_now w) tm) w))
    | (t, _, it) :: rest, Some (tm, _, addr, client, i) =>
      if t <=? tm then Some (do_item it (set_delayed (w_dseq w) rest (set_now (Z.max (w_now w) t) w)))
      else Some (fire addr client i (set_now (Z.max (w_now w) tm) w))
    end
  end.

Fixpoint run (fuel : nat) (w : world) : world * bool :=
  match fuel with
  | O => (w, true)
  | S f => match step w with None => (w, false) | Some w' => run f w' end
  end.

Definition snapshot_of (w : world) : list (list Z) :=
  flat_map (fun n =>
    if c_raw (n_cfg n) then [] else
    map (fun t => [c_addr (n_cfg n); 0; s_peer t; s_invoke t; s_state t; match s_timer t with Some (tm, _) => tm | None => -1 end]) (n_ctr n)
    ++ map (fun t => [c_addr (n_cfg n); 1; s_peer t; s_invoke t; s_state t; match s_timer t with Some (tm, _) => tm | None => -1 end]) (n_str n))
    (w_nodes w).

Fixpoint init_submits (no : Z) (rs : list reqcfg) (w : world) : world :=
  match rs with
  | [] => w
  | r :: rest => init_submits (no + 1) rest (if r_t r =? -1 then w else delay_item (r_t r) (ISubmit no r) w)   (* t = -1: chained only *)
  end.
Definition init_injects (w : world) : world :=
  fold_left (fun w i => if i_after i =? -1 then delay_item (i_t i) (IFrame (i_src i) (i_dst i) (i_frame i)) w else w) (w_injs w) w.

Definition init_world (nodes : list nodecfg) (reqs : list reqcfg) (faults : list (Z * list Z)) (silence : Z) (injs : list injcfg) : world :=
  init_injects (init_submits 0 reqs
    (mkW (map (fun c => mkN c 1 [] []) nodes) 0 0 0 [] [] 0 [] reqs faults silence injs [] [])).

Definition init_chains (cs : list (Z * Z * Z * Z)) (w : world) : world := set_chains cs w.
Record iamcfg := mkIam { ia_t : Z; ia_node : Z; ia_peer : Z; ia_maxapdu : Z; ia_seg : Z }.
Definition init_iams (iams : list iamcfg) (w : world) : world :=
  fold_left (fun w i => delay_item (ia_t i) (IIam (ia_node i) (ia_peer i) (ia_maxapdu i) (ia_seg i)) w) iams w.

Definition MAX_STEPS : nat := 6000.

(* the events of a run, oldest first, one list per event (the same numbers as in run_spec, not flattened) *)
Definition run_chunks (nodes : list nodecfg) (reqs : list reqcfg) (faults : list (Z * list Z)) (silence : Z) (injs : list injcfg) : list (list Z) :=
  rev (w_trace (fst (run MAX_STEPS (init_world nodes reqs faults silence injs)))).

Definition run_spec (nodes : list nodecfg) (reqs : list reqcfg) (faults : list (Z * list Z)) (silence : Z) (injs : list injcfg) : list Z :=
  let '(w, live) := run MAX_STEPS (init_world nodes reqs faults silence injs) in
  let snap := snapshot_of w in
  concat (rev (w_trace w)) ++ [16; w_now w; (if live then 1 else 0); zlen snap] ++ concat snap.

(* the same with I-Am PDUs reaching the applications at given instants *)
Definition run_spec_x (nodes : list nodecfg) (reqs : list reqcfg) (faults : list (Z * list Z)) (silence : Z) (injs : list injcfg)
                      (iams : list iamcfg) : list Z :=
  let '(w, live) := run MAX_STEPS (init_iams iams (init_world nodes reqs faults silence injs)) in
  let snap := snapshot_of w in
  concat (rev (w_trace w)) ++ [16; w_now w; (if live then 1 else 0); zlen snap] ++ concat snap.

(* the same with request chaining from the confirmation callbacks *)
Definition run_spec_c (nodes : list nodecfg) (reqs : list reqcfg) (faults : list (Z * list Z)) (silence : Z) (injs : list injcfg)
                      (iams : list iamcfg) (chains : list (Z * Z * Z * Z)) : list Z :=
  let '(w, live) := run MAX_STEPS (init_chains chains (init_iams iams (init_world nodes reqs faults silence injs))) in
  let snap := snapshot_of w in
  concat (rev (w_trace w)) ++ [16; w_now w; (if live then 1 else 0); zlen snap] ++ concat snap.
