(* ApciSessionFacts.v — decoding is a function of the octets fed: no history of other objects
   enters (ApciSession.v). *)
From Bac Require Import Base BytesFacts Apci ApciHdr ApciDec ApciSession.
From Coq Require Import ZifyBool ZifyN ZifyNat.
Open Scope N_scope.

Lemma overlay_none new : overlay apci_none new = new.
Proof. destruct new; unfold overlay, pick; cbn.
  repeat match goal with |- context [match ?x with _ => _ end] => destruct x end; reflexivity. Qed.

(* a fresh object: exactly dec_apci *)
Lemma dec_into_fresh bs : dec_into apci_none bs = dec_apci bs.
Proof.
  unfold dec_into. destruct (dec_apci bs) as [[a r]|e]; cbn [bind]; [|reflexivity].
  rewrite overlay_none. reflexivity.
Qed.

(* any object: the payload and the decoded attributes come from the octets alone; the object's
   past shows only in attributes the decoded PDU type does not carry *)
Lemma dec_into_inv old bs a r : dec_into old bs = Ok (a, r) ->
  exists a0, dec_apci bs = Ok (a0, r) /\ a = overlay old a0.
Proof.
  unfold dec_into. destruct (dec_apci bs) as [[a0 r0]|e]; cbn [bind]; [|discriminate].
  intros H; injection H as <- <-. exists a0. split; reflexivity.
Qed.

Lemma dec_into_err old bs e : dec_into old bs = Err e <-> dec_apci bs = Err e.
Proof.
  unfold dec_into. destruct (dec_apci bs) as [[a0 r0]|e0]; cbn [bind]; split; intros H;
    try discriminate; assumption.
Qed.

(* decoding a well-formed header + payload into an object with arbitrary stale attributes:
   the payload is the one fed, every attribute the type carries is the one fed, and the object
   re-encodes to exactly the octets fed *)
Lemma reused_object_roundtrip old h p : wf_hdr h = true ->
  dec_into old (spec20_1 h ++ p) = Ok (overlay old (to_apci h), p) /\
  enc_apdu (overlay old (to_apci h)) p = Ok (spec20_1 h ++ p).
Proof.
  intros W. split.
  - unfold dec_into. rewrite hdr_decode by assumption. reflexivity.
  - rewrite <- (apdu_layout h p W). unfold enc_apdu. f_equal.
    destruct old as [o1 o2 o3 o4 o5 o6 o7 o8 o9 o10 o11 o12 o13]. destruct h; cbn [to_apci overlay pick aType aSeg aMor aSA aSrv aNak aSeq aWin
      aMaxSegs aMaxResp aService aInvokeID aReason zo]; try reflexivity.
    + destruct seg; reflexivity.
    + destruct seg; reflexivity.
Qed.

(* an operation changes only the objects it names *)
Lemma lookup_update_other st o v o' : o' <> o -> lookup (update st o v) o' = lookup st o'.
Proof. intros H. cbn [update lookup]. destruct (Nat.eqb o o') eqn:E; [apply Nat.eqb_eq in E; congruence|reflexivity]. Qed.

Lemma step_frame st x o' : ~ In o' (touched x) -> lookup (fst (step st x)) o' = lookup st o'.
Proof.
  intros H. destruct x; cbn [touched In] in H; cbn [step].
  - destruct (dec_into (fst (lookup st o)) bs) as [[a r]|e]; cbn [fst]; [|reflexivity].
    apply lookup_update_other. intuition.
  - destruct (lookup st o) as [a p]. cbn [fst]. apply lookup_update_other. intuition.
  - destruct (enc_apdu h p) as [bs|e]; [|reflexivity].
    destruct (lookup st o) as [a q]. cbn [fst]. apply lookup_update_other. intuition.
  - destruct (lookup st src) as [a p]. cbn [fst].
    rewrite !lookup_update_other by intuition. reflexivity.
  - destruct (lookup st o) as [a p]. reflexivity.
  - cbn [fst]. apply lookup_update_other. intuition.
  - destruct (lookup st src) as [sa sbs].
    destruct (dec_into (fst (lookup st o)) sbs) as [[a r]|e]; cbn [fst]; [|reflexivity].
    rewrite !lookup_update_other by intuition. reflexivity.
  - destruct (lookup st o) as [a p]. destruct (enc_apdu a p) as [bs|e]; [|reflexivity].
    destruct (lookup st dst) as [da dd]. cbn [fst]. apply lookup_update_other. intuition.
  - reflexivity.
Qed.

(* so: whatever operations ran before on whatever objects, decoding octets into an object that
   was not used yet observes canon_dec (dec_apci bs) *)
Lemma decode_fresh_history_free st o bs : fst (lookup st o) = apci_none ->
  snd (step st (OpDecode o bs)) = framed (canon_dec (dec_apci bs)).
Proof.
  intros F. cbn [step]. rewrite F, dec_into_fresh.
  destruct (dec_apci bs) as [[a r]|e]; reflexivity.
Qed.

(* and into a used one: the stored payload is the octets after the header *)
Lemma decode_payload_from_octets st o bs a r :
  dec_into (fst (lookup st o)) bs = Ok (a, r) ->
  lookup (fst (step st (OpDecode o bs))) o = (a, r) /\
  exists hd, bs = hd ++ r /\ (2 <= length hd <= 6)%nat.
Proof.
  intros D. cbn [step]. rewrite D. cbn [fst update lookup]. rewrite Nat.eqb_refl. split; [reflexivity|].
  apply dec_into_inv in D as (a0 & D & _). exact (dec_shape bs a0 r D).
Qed.

(* ---- round 3: the typed classes and sources / targets that are used again *)
Lemma lookup_update_same st o v : lookup (update st o v) o = v.
Proof. cbn [update lookup]. rewrite Nat.eqb_refl. reflexivity. Qed.

(* X.decode(apdu) into a typed object that was used before: whatever it held (attributes, payload)
   is replaced by the source's attributes and payload; the source is drained *)
Lemma typed_decode_replaces st dst src : dst <> src ->
  lookup (fst (step st (OpTyped dst src))) dst = lookup st src /\
  lookup (fst (step st (OpTyped dst src))) src = (fst (lookup st src), []).
Proof.
  intros H. cbn [step]. destruct (lookup st src) as [a p]. cbn [fst].
  rewrite lookup_update_same. split; [reflexivity|].
  rewrite lookup_update_other by congruence. apply lookup_update_same.
Qed.

(* apdu.decode(pdu) with pdu an object of the store: the target holds header + payload, the source is empty *)
Lemma decode_from_drains st o src a r : o <> src ->
  dec_into (fst (lookup st o)) (snd (lookup st src)) = Ok (a, r) ->
  lookup (fst (step st (OpDecodeFrom o src))) o = (a, r) /\
  lookup (fst (step st (OpDecodeFrom o src))) src = (fst (lookup st src), []).
Proof.
  intros H D. cbn [step]. destruct (lookup st src) as [sa sbs]. cbn [snd fst] in *. rewrite D. cbn [fst].
  rewrite lookup_update_same. split; [reflexivity|].
  rewrite lookup_update_other by congruence. apply lookup_update_same.
Qed.

(* relay: decode a frame out of a PDU object, encode the APDU back into that same (consumed) PDU:
   the PDU holds exactly the frame again, for every header and every payload, whatever the
   decoding object held before *)
Lemma relay_roundtrip st o src h p : o <> src -> wf_hdr h = true ->
  snd (lookup st src) = spec20_1 h ++ p ->
  let st1 := fst (step st (OpDecodeFrom o src)) in
  let st2 := fst (step st1 (OpEncodeTo o src)) in
  lookup st1 o = (overlay (fst (lookup st o)) (to_apci h), p) /\
  snd (lookup st1 src) = [] /\
  snd (lookup st2 src) = spec20_1 h ++ p /\
  lookup st2 o = lookup st1 o.
Proof.
  intros H W S st1 st2.
  destruct (reused_object_roundtrip (fst (lookup st o)) h p W) as [D E].
  rewrite <- S in D.
  destruct (decode_from_drains st o src _ _ H D) as [L1 L2].
  fold st1 in L1, L2. split; [exact L1|]. split; [rewrite L2; reflexivity|].
  subst st2. cbn [step]. rewrite L1, E, L2. cbn [fst snd].
  rewrite lookup_update_same. split; [reflexivity|].
  rewrite lookup_update_other by congruence. exact L1.
Qed.
