(* SsmC04t.v — C04, bounded time: every time-out of a client transaction uses up a budget that depends only on the
   configured retry count. *)
From Coq Require Import ZifyBool ZifyN ZifyNat.
From Bac Require Import Base PyRt Ssm SsmFacts SsmC04a SsmC04.
Open Scope Z_scope.

(* time-outs left, worst case: each of the (retries - retryCount) request retries can be followed by (retries + 1)
   segment time-outs *)
Definition budget (s : ssm) : Z := (s_retries s - s_retry s) * (s_retries s + 2) + (s_retries s + 1 - s_segretry s).
Definition cnt_ok (s : ssm) : Prop := 0 <= s_retry s <= s_retries s /\ 0 <= s_segretry s <= s_retries s.

Ltac finish_budget :=
  unfold budget, cnt_ok; mcbn; intros; try discriminate;
  repeat match goal with H : _ /\ _ |- _ => destruct H end; try (split; [nia | repeat split; lia]).

Lemma c_segmented_request_timeout_budget : forall st, cnt_ok (h_s st) ->
  let r := c_segmented_request_timeout st in
  snd r = None -> h_live (fst r) = true -> h_live st = true -> budget (h_s (fst r)) < budget (h_s st) /\ cnt_ok (h_s (fst r)).
Proof.
  intros [s outs ctr now live] Hc. destruct_ssm s. unfold cnt_ok in Hc. cbn [h_s s_retry s_retries s_segretry] in Hc.
  unfold c_segmented_request_timeout, c_abort.
  path_split; finish_budget.
Qed.

Lemma c_indication_counters : forall a st,
  let r := c_indication a st in
  snd r = None -> h_live (fst r) = true ->
  s_retries (h_s (fst r)) = s_retries (h_s st) /\ s_retry (h_s (fst r)) = 0 /\
  (s_segretry (h_s (fst r)) = 0 \/ s_segretry (h_s (fst r)) = s_segretry (h_s st)).
Proof.
  intros a [s outs ctr now live]. destruct_ssm s.
  unfold c_indication, c_abort.
  path_split; mcbn; intros; try discriminate; repeat split; auto.
Qed.

Lemma mseq_run : forall (m1 m2 : M) st, (m1 ;; m2) st = match m1 st with (st', None) => m2 st' | r => r end.
Proof. reflexivity. Qed.

Lemma set_retry_fields : forall v s, s_retries (set_retry_f v s) = s_retries s /\ s_retry (set_retry_f v s) = v /\
  s_segretry (set_retry_f v s) = s_segretry s.
Proof. intros v s. destruct_ssm s. repeat split. Qed.

Lemma c_await_confirmation_timeout_budget : forall st, cnt_ok (h_s st) ->
  let r := c_await_confirmation_timeout st in
  snd r = None -> h_live (fst r) = true -> h_live st = true ->
  budget (h_s (fst r)) < budget (h_s st) /\ cnt_ok (h_s (fst r)).
Proof.
  intros st Hc. unfold c_await_confirmation_timeout, withs.
  destruct (s_retry (h_s st) <? s_retries (h_s st)) eqn:E.
  - rewrite mseq_run. cbv beta iota delta [upd].
    destruct (s_ctx (h_s st)) as [c|].
    2:{ rewrite mseq_run. unfold raise. cbn. intros; discriminate. }
    rewrite mseq_run.
    match goal with |- context [c_indication c ?x] => set (st1 := x) end.
    pose proof (c_indication_counters c st1) as Hi. cbv zeta in Hi.
    destruct (c_indication c st1) as [st2 [e|]]; [cbn; intros; discriminate|].
    cbn [fst snd h_live h_s]. intros _ Hl2 Hl.
    cbn [fst snd] in Hi. destruct (Hi eq_refl Hl2) as (H1 & H2 & H3). clear Hi.
    subst st1. cbn [h_s] in H1, H3.
    destruct (set_retry_fields (s_retry (h_s st) + 1) (h_s st2)) as (F1 & F2 & F3).
    destruct (set_retry_fields (s_retry (h_s st) + 1) (h_s st)) as (G1 & G2 & G3).
    unfold budget, cnt_ok in *. rewrite F1, F2, F3. rewrite G1 in H1. rewrite G3 in H3.
    destruct Hc as ((? & ?) & (? & ?)). rewrite H1.
    destruct H3 as [H3|H3]; rewrite H3; split; try nia; repeat split; lia.
  - unfold c_abort. destruct st as [s outs ctr now live]. destruct_ssm s. mcbn.
    path_split; mcbn; intros; discriminate.
Qed.

(* C04_timeout_measure: a time-out that leaves the transaction in the table (and did not raise) strictly lowers the budget *)
Lemma timeout_budget : forall st, h_live st = true -> terminal (h_s st) = false -> cnt_ok (h_s st) ->
  let r := c_process_task st in
  snd r = None -> h_live (fst r) = true -> budget (h_s (fst r)) < budget (h_s st) /\ cnt_ok (h_s (fst r)).
Proof.
  intros st Hl Ht Hc. unfold c_process_task, withs.
  destruct (s_state (h_s st) =? SEGMENTED_REQUEST).
  { intros He H. apply c_segmented_request_timeout_budget; assumption. }
  destruct (s_state (h_s st) =? AWAIT_CONFIRMATION).
  { intros He H. apply c_await_confirmation_timeout_budget; assumption. }
  destruct (s_state (h_s st) =? SEGMENTED_CONFIRMATION).
  { unfold c_segmented_confirmation_timeout, c_abort. destruct st as [s outs ctr now live]. destruct_ssm s.
    path_split; mcbn; intros; try discriminate. }
  unfold terminal in Ht. rewrite Ht. unfold raise. cbn. intros; discriminate.
Qed.

(* the budget is never negative while the counters are in range: at most `budget` time-outs in a row *)
Lemma budget_nonneg : forall s, cnt_ok s -> 0 <= budget s.
Proof. intros s ((? & ?) & (? & ?)). unfold budget. nia. Qed.
