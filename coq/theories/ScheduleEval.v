(* ScheduleEval.v — hand model of local/schedule.py (with the two `fix:` commits of the worktree):
     date_in_calendar_entry (216-230), datetime_to_time (236-247),
     LocalScheduleInterpreter.process_task (448-490) and .eval (492-603)  [line numbers of the fixed worktree].
   The three date matchers are NOT modelled by hand: BacGen.ScheduleFns is their AST translation.
   Model only; proofs are in ScheduleFacts.v.  Values are Unsigned (Z); None = Null. *)
From Bac Require Import Base PyRt Calendar.
From BacGen Require Import ScheduleFns.
Open Scope Z_scope.

Definition T4 := (Z * Z * Z * Z)%type.               (* hour, minute, second, hundredths *)
Definition TV := (T4 * option Z)%type.               (* TimeValue: time, value (None = Null) *)

(* Python's lexicographic order on 4-tuples of ints *)
Definition t4_lt (a b : T4) : bool :=
  let '(a1, a2, a3, a4) := a in let '(b1, b2, b3, b4) := b in
  (a1 <? b1) || ((a1 =? b1) && ((a2 <? b2) || ((a2 =? b2) && ((a3 <? b3) || ((a3 =? b3) && (a4 <? b4)))))).
Definition t4_le (a b : T4) : bool := negb (t4_lt b a).
Definition t4_min (a b : T4) : T4 := if t4_lt b a then b else a.     (* min(a, b) *)
Definition next_day : T4 := (24, 0, 0, 0).

Inductive centry := CDate (p : D4) | CRange (r : DR) | CWnd (w : W3) | CEmpty.
(* SpecialEventPeriod: calendarEntry, or calendarReference resolved by the application to the
   referenced Calendar object's dateList (None = get_object_id found nothing), or no period *)
Inductive period := PNone | PEntry (c : centry) | PRef (cal : option (list centry)).
Record sevent := { se_period : period; se_prio : option Z; se_tvs : list TV }.
Record sched := { eff : DR; weekly : option (list (list TV)); excs : list sevent; dflt : Z }.

Definition date_in_centry (d : D4) (c : centry) : res bool :=
  match c with
  | CDate p => match_date d p
  | CRange r => match_date_range d r
  | CWnd w => match_weeknday d w
  | CEmpty => Err RuntimeErr
  end.

(* for calendar_entry in calendar_object.dateList: match = ...; if match: break *)
Fixpoint match_any (d : D4) (l : list centry) : res bool :=
  match l with
  | [] => Ok false
  | c :: r => do m <- date_in_centry d c; if m then Ok true else match_any d r
  end.

Definition match_period (d : D4) (p : period) : res bool :=
  match p with
  | PNone => Err RuntimeErr
  | PEntry c => date_in_centry d c
  | PRef None => Err RuntimeErr
  | PRef (Some l) => match_any d l
  end.

(* event_priority[i], next_transition_time[i] for i = 0..15, kept side by side *)
Definition slot := (option Z * option T4)%type.
Definition slots := list slot.
Definition empty_slots : slots := repeat (None, None) 16.

Fixpoint upd (i : nat) (f : slot -> slot) (s : slots) : slots :=
  match s, i with
  | [], _ => []
  | x :: r, O => f x :: r
  | x :: r, S k => x :: upd k f r
  end.

(* priority = eventPriority - 1 used as a Python list index into a 16-list (negative wraps) *)
Definition slot_index (prio : Z) : res nat :=
  let i := prio - 1 in
  let j := if i <? 0 then i + 16 else i in
  if (j <? 0) || (16 <=? j) then Err IndexErr else Ok (Z.to_nat j).

(* for time_value in special_event.listOfTimeValues: ... else: ...; break *)
Fixpoint tv_loop (tvs : list TV) (t : T4) (i : nat) (s : slots) : slots :=
  match tvs with
  | [] => s
  | (tv, v) :: r =>
      if t4_le tv t then
        tv_loop r t i (upd i (fun _ => match v with None => (None, None)
                                                  | Some x => (Some x, Some next_day) end) s)
      else upd i (fun x => (fst x, Some tv)) s
  end.

Fixpoint ev_loop (d : D4) (t : T4) (evs : list sevent) (s : slots) : res slots :=
  match evs with
  | [] => Ok s
  | e :: r =>
      do m <- match_period d (se_period e);
      if negb m then ev_loop d t r s
      else
        do p <- match se_prio e with None => Err TypeErr | Some p => Ok p end;
        do s' <- match se_tvs e with
                 | [] => Ok s
                 | _ => do i <- slot_index p; Ok (tv_loop (se_tvs e) t i s)
                 end;
        ev_loop d t r s'
  end.

(* for priority_value, next_transition in zip(...): ... *)
Fixpoint scan (s : slots) (earliest : T4) : option Z * T4 :=
  match s with
  | [] => (None, earliest)
  | (v, n) :: r =>
      let e' := match n with Some x => t4_min earliest x | None => earliest end in
      match v with Some x => (Some x, e') | None => scan r e' end
  end.

Fixpoint day_loop (tvs : list TV) (t : T4) (dv df : Z) (earliest : T4) : Z * T4 :=
  match tvs with
  | [] => (dv, earliest)
  | (tv, v) :: r =>
      if t4_le tv t then day_loop r t (match v with None => df | Some x => x end) df earliest
      else (dv, t4_min earliest tv)
  end.

(* ArrayOf.__getitem__: 1-based, index 0 is the length (an int: .daySchedule -> AttributeError) *)
Definition weekly_get (w : list (list TV)) (dow : Z) : res (list TV) :=
  if (dow <? 0) || (zlen w <? dow) then Err IndexErr
  else if dow =? 0 then Err AttrErr
  else match nth_error w (Z.to_nat (dow - 1)) with Some x => Ok x | None => Err IndexErr end.

(* eval: None = not in the effective period *)
Definition eval (c : sched) (d : D4) (t : T4) : res (option (Z * T4)) :=
  do inp <- match_date_range d (eff c);
  if negb inp then Ok None
  else
    do s <- ev_loop d t (excs c) empty_slots;
    match scan s next_day with
    | (Some v, e) => Ok (Some (v, e))
    | (None, e) =>
        match weekly c with
        | None | Some [] => Ok (Some (dflt c, e))
        | Some w =>
            let '(_, _, _, dow) := d in
            do day <- weekly_get w dow;
            Ok (Some (day_loop day t (dflt c) (dflt c) e))
        end
    end.

(* ---- process_task: one timer firing at (date, time) with present value pv.
   Result: new present value and the (date, time) at which the timer is re-armed.
   datetime_to_time drops the hundredths and hands (h, m, s) to mktime, which normalises
   overflowing seconds into following days. *)
Definition has255 (t : T4) : bool :=
  let '(a, b, c, e) := t in (a =? 255) || (b =? 255) || (c =? 255) || (e =? 255).

Definition normalise (d : D4) (t : T4) : D4 * T4 :=
  let '(h, m, s, _) := t in
  let total := h * 3600 + m * 60 + s in
  let r := total mod 86400 in
  (nth_date (Z.to_nat (total / 86400)) d, (r / 3600, (r / 60) mod 60, r mod 60, 0)).

Definition step (c : sched) (d : D4) (t : T4) (pv : Z) : res (Z * (D4 * T4)) :=
  do r <- eval c d t;
  let '(pv', nt) := match r with None => (pv, next_day) | Some (v, n) => (v, n) end in
  if has255 nt then Err RuntimeErr else Ok (pv', normalise d nt).

(* the timer-driven life of the object: each firing re-arms; trace of (pv, date, time) *)
Fixpoint run (fuel : nat) (c : sched) (d : D4) (t : T4) (pv : Z) : list (res (Z * (D4 * T4))) :=
  match fuel with
  | O => []
  | S k => match step c d t pv with
           | Err e => [Err e]
           | Ok (pv', (d', t')) => Ok (pv', (d', t')) :: run k c d' t' pv'
           end
  end.

(* ---- canonical outputs for the correspondence *)
Definition canon_res {A} (f : A -> list Z) (r : res A) : list Z :=
  match r with Ok a => 0 :: f a | Err e => [1; err_code e] end.
Definition canon_t4 (t : T4) : list Z := let '(a, b, c, e) := t in [a; b; c; e].
Definition canon_eval (r : option (Z * T4)) : list Z :=
  match r with None => [2] | Some (v, n) => 3 :: v :: canon_t4 n end.
Definition canon_step (r : Z * (D4 * T4)) : list Z :=
  let '(pv, (d, t)) := r in pv :: canon_t4 d ++ canon_t4 t.
Fixpoint canon_run (l : list (res (Z * (D4 * T4)))) : list Z :=
  match l with [] => [] | r :: k => canon_res canon_step r ++ canon_run k end.
Definition canon_bool (r : res bool) : list Z := canon_res (fun b => [zb b]) r.

(* one year of a pattern as a bit mask over the days walked from d (bit i = day i matches);
   an error anywhere gives [1; code] *)
Fixpoint mask_from (f : D4 -> res bool) (n : nat) (d : D4) (bit acc : Z) : res Z :=
  match n with
  | O => Ok acc
  | S k => do b <- f d; mask_from f k (next_date d) (2 * bit) (if b then acc + bit else acc)
  end.
Definition canon_mask (f : D4 -> res bool) (n : nat) (d : D4) : list Z :=
  canon_res (fun z => [z]) (mask_from f n d 1 0).
(* the first of each following month and the date after n days: ties next_date (and so
   PyRt.last_day and the day-of-week succession) to CPython's calendar *)
Definition canon_walk (n : nat) (d : D4) : list Z :=
  flat_map canon_t4 (filter (fun x => let '(_, _, dd, _) := x in dd =? 1) (walk n d))
  ++ canon_t4 (nth_date n d).
