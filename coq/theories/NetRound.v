(* NetRound.v — reply routability on a loop-free internetwork: after a unicast has been delivered along the tree,
   the caches learned from its SADR route the reply back to the originator (lemmas about Net.v, property C06). *)
From Coq Require Import ZifyBool ZifyN ZifyNat.
From Bac Require Import Base Net NetFacts NetTerm NetTerm2 NetReply NetOnce NetRoute NetArrive NetLocal NetBcast NetTree.
Ltac Zify.zify_post_hook ::= Z.to_euclidean_division_equations.
Open Scope N_scope.

(* `arrives` with the node states at the end of the route *)
Inductive arrives_f (lns : list (N * list (nat * nat))) :
  list wnode -> frame -> nat -> addr -> addr -> list N -> list wnode -> mac -> Prop :=
| arrf_station : forall ns f who w m a sn sm,
    acceptor lns ns f who 0 w m ->
    adapters (w_node w) = [a] -> has_app (w_node w) = true ->
    n_msg (f_npdu f) = None -> n_dadr (f_npdu f) = None -> apdu_ok (n_data (f_npdu f)) = true ->
    n_sadr (f_npdu f) = Some (sn, sm) -> optN_eqb (a_net a) (Some sn) = false ->
    arrives_f lns ns f who (ARS sn sm) (ALS m) (n_data (f_npdu f))
              (set_nth ns who (mkW (learned (w_node w) a (f_src f) (f_npdu f)) (w_ports w))) (f_src f)
| arrf_last_router : forall ns f who i w m ai inet d dm j la lan' mj tgt s dd x nsf rt,
    acceptor lns ns f who i w m ->
    nth_adapter (w_node w) i = Some ai -> nth_adapter (w_node w) (local_idx (w_node w)) = Some la ->
    modelled_config (w_node w) = true -> is_router (w_node w) = true -> a_net ai = Some inet ->
    n_msg (f_npdu f) = None -> n_dadr (f_npdu f) = Some (DStation d dm) -> n_hop (f_npdu f) <> 0 ->
    (forall snet sm, n_sadr (f_npdu f) = Some (snet, sm) -> find_net (w_node w) (Some snet) = None) ->
    find_net (w_node w) (Some d) = Some j -> j <> i ->
    optN_eqb (Some d) (a_net ai) = false -> not_for_me la d dm = true ->
    nth_error (w_ports w) j = Some (lan', mj) ->
    arrives_f lns (set_nth ns who (mkW (learned (w_node w) ai (f_src f) (f_npdu f)) (w_ports w)))
            (mkFrame lan' mj (LStation dm)
               (mkNpdu None (Some (fwd_sadr inet (f_src f) (f_npdu f))) (n_hop (f_npdu f) - 1) None (n_data (f_npdu f))))
            tgt s dd x nsf rt ->
    arrives_f lns ns f tgt s dd x nsf rt
| arrf_router : forall ns f who i w m ai inet d dm j m' lan' mj tgt s dd x nsf rt,
    acceptor lns ns f who i w m ->
    nth_adapter (w_node w) i = Some ai ->
    modelled_config (w_node w) = true -> is_router (w_node w) = true -> a_net ai = Some inet ->
    n_msg (f_npdu f) = None -> n_dadr (f_npdu f) = Some (DStation d dm) -> n_hop (f_npdu f) <> 0 ->
    (forall snet sm, n_sadr (f_npdu f) = Some (snet, sm) -> find_net (w_node w) (Some snet) = None /\ snet <> d) ->
    find_net (w_node w) (Some d) = None -> find_path (w_node w) d = Some (j, m') ->
    nth_error (w_ports w) j = Some (lan', mj) ->
    arrives_f lns (set_nth ns who (mkW (learned (w_node w) ai (f_src f) (f_npdu f)) (w_ports w)))
            (mkFrame lan' mj (LStation m')
               (mkNpdu (n_dadr (f_npdu f)) (Some (fwd_sadr inet (f_src f) (f_npdu f))) (n_hop (f_npdu f) - 1) None
                       (n_data (f_npdu f))))
            tgt s dd x nsf rt ->
    arrives_f lns ns f tgt s dd x nsf rt.

Lemma arrives_f_arrives : forall lns ns f tgt s dd x nsf rt,
  arrives_f lns ns f tgt s dd x nsf rt -> arrives lns ns f tgt s dd x.
Proof.
  intros lns ns f tgt s dd x nsf rt H. induction H.
  - eapply arr_station; eauto.
  - eapply arr_last_router; eauto.
  - eapply arr_router; eauto.
Qed.

Theorem route_arrives_f : forall lns ns f tgt s dd x nsf rt,
  arrives_f lns ns f tgt s dd x nsf rt ->
  forall w, lans w = lns -> nodes w = ns -> queue w = [f] ->
  exists k osn, queue (run k w) = [] /\ nodes (run k w) = nsf /\ lans (run k w) = lns /\
                trace (run k w) = osn ++ trace w /\ oups osn = [OUp tgt s dd x] /\
                (* the delivery is the last thing that happened, and the frame that made it came from rt *)
                exists lf rest, osn = OUp tgt s dd x :: OFrame lf :: rest /\ f_src lf = rt /\ n_sadr (f_npdu lf) <> None.
Proof.
  intros lns ns f tgt s dd x nsf rt H. induction H; intros w0 Hl Hn Hq; subst lns ns.
  - pose proof (station_hands_up (w_node w) a (f_src f) (f_dst f) (f_npdu f) sn sm) as Hpr. feed Hpr.
    assert (He : emit (mkW (learned (w_node w) a (f_src f) (f_npdu f)) (w_ports w)) who
                      [Up (ARS sn sm) (ldest_to_addr (f_dst f)) (n_data (f_npdu f))]
                 = ([], [OUp who (ARS sn sm) (ldest_to_addr (f_dst f)) (n_data (f_npdu f))])) by reflexivity.
    pose proof (step_exact w0 f who 0 w m _ _ _ _ Hq H Hpr He) as Hs.
    assert (Hd : f_dst f = LStation m) by (destruct H as (Hd & _); exact Hd).
    exists 1%nat, [OUp who (ARS sn sm) (ALS m) (n_data (f_npdu f)); OFrame f]. cbn [run]. rewrite Hs. cbn [queue trace nodes lans].
    rewrite Hd. cbn [ldest_to_addr rev_append app]. repeat split. exists f, []. split; [reflexivity|]. split; [reflexivity|congruence].
  - pose proof (last_router_delivers (w_node w) i ai inet (f_src f) (f_dst f) (f_npdu f) d dm j la) as Hpr. feed Hpr.
    match type of Hpr with _ = (?nn, [Fwd _ ?dst ?q]) =>
      assert (He : emit (mkW nn (w_ports w)) who [Fwd j dst q] = ([mkFrame lan' mj dst q], []))
        by (cbn [emit w_ports]; match goal with Hx : nth_error (w_ports w) j = Some _ |- _ => rewrite Hx end; reflexivity)
    end.
    pose proof (step_exact w0 f who i w m _ _ _ _ Hq H Hpr He) as Hs.
    match type of Hs with step _ = Some ?w1 => destruct (IHarrives_f w1 eq_refl eq_refl eq_refl) as (k & osn & A1 & A2 & A2' & A3 & A4 & lf & rest & A5 & A6 & A7) end.
    exists (S k). exists (osn ++ [OFrame f]). cbn [run]. rewrite Hs. split; [exact A1|]. split; [exact A2|]. split; [exact A2'|]. split; [|split].
    + rewrite A3. cbn [trace rev_append app]. rewrite <- app_assoc. reflexivity.
    + unfold oups in *. rewrite filter_app, A4. reflexivity.
    + exists lf, (rest ++ [OFrame f]). rewrite A5. split; [reflexivity|split; assumption].
  - pose proof (router_forwards_unicast (w_node w) i ai inet (f_src f) (f_dst f) (f_npdu f) d dm j m') as Hpr. feed Hpr.
    match type of Hpr with _ = (?nn, [Fwd _ ?dst ?q]) =>
      assert (He : emit (mkW nn (w_ports w)) who [Fwd j dst q] = ([mkFrame lan' mj dst q], []))
        by (cbn [emit w_ports]; match goal with Hx : nth_error (w_ports w) j = Some _ |- _ => rewrite Hx end; reflexivity)
    end.
    pose proof (step_exact w0 f who i w m _ _ _ _ Hq H Hpr He) as Hs.
    match type of Hs with step _ = Some ?w1 => destruct (IHarrives_f w1 eq_refl eq_refl eq_refl) as (k & osn & A1 & A2 & A2' & A3 & A4 & lf & rest & A5 & A6 & A7) end.
    exists (S k). exists (osn ++ [OFrame f]). cbn [run]. rewrite Hs. split; [exact A1|]. split; [exact A2|]. split; [exact A2'|]. split; [|split].
    + rewrite A3. cbn [trace rev_append app]. rewrite <- app_assoc. reflexivity.
    + unfold oups in *. rewrite filter_app, A4. reflexivity.
    + exists lf, (rest ++ [OFrame f]). rewrite A5. split; [reflexivity|split; assumption].
Qed.

(* ---- what a router has learned about the source network *)
Lemma cache_get_set_other_fst : forall c k m x dd, optN_eqb (fst k) x = false ->
  cache_get (cache_set c k m) x dd = cache_get c x dd.
Proof.
  induction c as [|[k0 m0] r IH]; intros k m x dd Hne; cbn [cache_set cache_get].
  - unfold key_eqb. cbn [fst snd]. rewrite Hne. reflexivity.
  - destruct (key_eqb k0 k) eqn:E; cbn [cache_get].
    + assert (key_eqb k (x, dd) = false) by (unfold key_eqb; cbn [fst snd]; rewrite Hne; reflexivity).
      rewrite H.
      assert (key_eqb k0 (x, dd) = false).
      { unfold key_eqb in *. cbn [fst snd] in *. apply andb_prop in E. destruct E as [E1 _].
        destruct (fst k0) as [a|], (fst k) as [b|], x as [c0|]; cbn in *; try discriminate; try reflexivity.
        apply N.eqb_eq in E1. subst b. rewrite Hne. reflexivity. }
      rewrite H0. reflexivity.
    + destruct (key_eqb k0 (x, dd)); [reflexivity|]. apply IH. assumption.
Qed.

Lemma find_path_from_unique : forall ports k c dd pp L ml m,
  NoDup (map fst ports) -> nth_error ports pp = Some (L, ml) ->
  cache_get c (Some L) dd = Some m -> (forall L2, L2 <> L -> cache_get c (Some L2) dd = None) ->
  find_path_from (map ad_of ports) k c dd = Some ((k + pp)%nat, m).
Proof.
  induction ports as [|[l m0] r IH]; intros k c dd pp L ml m Hnd Hp Hc Hoth; [destruct pp; discriminate|].
  cbn [map fst] in Hnd. inversion Hnd; subst. cbn [map find_path_from ad_of fst snd a_net].
  destruct pp as [|pp]; cbn in Hp.
  - inversion Hp; subst. rewrite Hc. f_equal. f_equal. lia.
  - assert (l <> L).
    { intro E. subst l. apply H1. apply nth_error_In in Hp. apply (in_map fst) in Hp. exact Hp. }
    rewrite (Hoth l H). rewrite (IH (S k) c dd pp L ml m H2 Hp Hc Hoth). f_equal. f_equal. lia.
Qed.

Lemma learned_path_back : forall n ports pp L ml src p s sm,
  adapters n = map ad_of ports -> NoDup (map fst ports) -> nth_error ports pp = Some (L, ml) ->
  (forall x, cache_get (rcache n) x s = None) -> n_sadr p = Some (s, sm) ->
  find_path (learned n (mkAd (Some L) (Some ml)) src p) s = Some (pp, src).
Proof.
  intros n ports pp L ml src p s sm Ha Hnd Hp Hcold Hs.
  unfold find_path. rewrite learned_adapters, Ha. unfold learned. rewrite Hs. cbn [rcache set_cache a_net].
  rewrite (find_path_from_unique ports 0 _ s pp L ml src Hnd Hp); [reflexivity| |].
  - apply cache_learn_one.
  - intros L2 Hne. unfold cache_update. cbn [fold_left]. rewrite cache_get_set_other_fst; [apply Hcold|].
    cbn. destruct (N.eqb_spec L L2); [congruence|reflexivity].
Qed.

(* ---- the reply *)
Definition rframe (s : N) (smac : mac) (d : N) (dm : mac) (rdata : list N) (K : nat) (lv : N -> nat)
                  (g : frame) (L : N) (m : mac) : Prop :=
  f_lan g = L /\ f_dst g = LStation m /\ n_msg (f_npdu g) = None /\ n_dadr (f_npdu g) = Some (DStation s smac) /\
  n_data (f_npdu g) = rdata /\ (K - lv L <= N.to_nat (n_hop (f_npdu g)))%nat /\
  fwd_sadr L (f_src g) (f_npdu g) = (d, dm) /\
  (forall sn sm, n_sadr (f_npdu g) = Some (sn, sm) -> sn = d /\ lv L <> 0%nat).

Definition BackOK lns ns0 dd srcn s smac d dm rdata K lv (bh : list nat) (nsref : list wnode) (L : N) (m : mac) : Prop :=
  forall ns2 g, (forall who, In who bh -> nth_error ns2 who = nth_error nsref who) -> sim dd ns0 ns2 ->
    rframe s smac d dm rdata K lv g L m -> arrives lns ns2 g srcn (ARS d dm) (ALS smac) rdata.

Lemma back_step : forall lns ns0 d lv up par dd srcn ws s smac a_s dm rdata bh ns' L pw pp w0 mL lu mu mprev,
  internet_ok lns ns0 -> tree_to lns ns0 d lv up par ->
  dd <> d -> dd <> s ->
  nth_error ns0 srcn = Some ws -> w_ports ws = [(s, smac)] -> adapters (w_node ws) = [a_s] ->
  (a_net a_s = None \/ a_net a_s = Some s) -> has_app (w_node ws) = true ->
  apdu_ok rdata = true -> s <> d ->
  (* the router *)
  nth_error ns0 pw = Some w0 -> router_shape w0 -> In (pw, pp) (lan_members lns L) ->
  nth_error (w_ports w0) pp = Some (L, mL) -> pp <> up pw -> nth_error (w_ports w0) (up pw) = Some (lu, mu) ->
  lv L = S (lv lu) ->
  (forall p lp mp, nth_error (w_ports w0) p = Some (lp, mp) -> p <> up pw -> lv lp = S (lv lu)) ->
  (lv lu = 0%nat -> lu = d) ->
  (L = s \/ (lv L < lv s)%nat) ->
  (* its state when the reply comes by *)
  (exists PW, nth_error ns' pw = Some PW /\ (L <> s -> find_path (w_node PW) s = Some (pp, mprev))) ->
  ~ In pw bh ->
  ((L = s /\ mprev = smac) \/ (L <> s /\ BackOK lns ns0 dd srcn s smac d dm rdata (lv s) lv bh ns' L mprev)) ->
  BackOK lns ns0 dd srcn s smac d dm rdata (lv s) lv (pw :: bh) ns' lu mu.
Proof.
  intros lns ns0 d lv up par dd srcn ws s smac a_s dm rdata bh ns' L pw pp w0 mL lu mu mprev
         Hio Htt Hdd Hds Hws Hwsp Hwsa Hwsn Hwsh Hok Hsd Hw0 Hr0 Hpin Hpp Hppu Hup HlvL Hchild Hroot HLs
         (PW & HPW & Hpath) Hnbh Hback.
  unfold BackOK. intros ns2 g Hag Hsim2 (G1 & G2 & G3 & G4 & G5 & G6 & G7 & G8).
  assert (HPW2 : nth_error ns2 pw = Some PW) by (rewrite (Hag pw (or_introl eq_refl)); exact HPW).
  destruct (sim_nth _ _ _ _ _ Hsim2 Hw0) as (PW2 & HPW2' & Hns). rewrite HPW2 in HPW2'. inversion HPW2'; subst PW2.
  pose proof (router_shape_sim _ _ _ Hns Hr0) as HrP. pose proof Hns as (Hp1 & Hp2 & Hp3 & _).
  assert (Hupp : nth_error (w_ports PW) (up pw) = Some (lu, mu)) by (rewrite Hp1; exact Hup).
  assert (Hppp : nth_error (w_ports PW) pp = Some (L, mL)) by (rewrite Hp1; exact Hpp).
  assert (Hacc : acceptor lns ns2 g pw (up pw) PW mu).
  { unfold acceptor. split; [assumption|]. split.
    - rewrite G1, (map_ext _ _ (fun x => sim_port_mac dd ns0 ns2 x Hsim2)). apply (io_macs _ _ Hio).
    - split; [|split; [assumption|eexists; exact Hupp]].
      rewrite G1. eapply io_listed; eauto. unfold port_of. cbn [fst snd]. rewrite Hw0. exact Hup. }
  assert (Hlevels : forall Lx, In Lx (map fst (w_ports PW)) -> lv Lx = lv lu \/ lv Lx = S (lv lu)).
  { intros Lx HLx. rewrite Hp1 in HLx. apply in_map_fst_nth in HLx. destruct HLx as (p & mp & Hp).
    destruct (Nat.eq_dec p (up pw)) as [E|E]; [subst p; rewrite Hup in Hp; inversion Hp; subst; left; reflexivity|].
    right. apply (Hchild p Lx mp Hp E). }
  assert (Hlvs : (lv lu < lv s)%nat) by (destruct HLs as [E|E]; [subst L; lia|lia]).
  assert (Hhop : n_hop (f_npdu g) <> 0) by lia.
  assert (Hsimstep : forall ai, sim dd ns0 (set_nth ns2 pw (mkW (learned (w_node PW) ai (f_src g) (f_npdu g)) (w_ports PW)))).
  { intro ai. apply sim_step; [assumption|assumption|]. intros snet sm E. destruct (G8 snet sm E) as [E1 _]. congruence. }
  set (X := fwd_sadr lu (f_src g) (f_npdu g)).
  assert (HX : X = (d, dm)) by (unfold X; rewrite <- G1; rewrite G1; exact G7).
  pose proof (router_nth_adapter _ _ _ _ HrP Hupp) as Hai.
  destruct Hback as [[HLs' Hmp]|[HLs' Hb]].
  - (* the router attached to the source network: last leg to the originator *)
    subst L mprev.
    destruct (router_local_adapter _ HrP) as (x & lanx & mx & Hx & Hla).
    eapply arr_last_router with (who := pw) (i := up pw) (w := PW) (m := mu) (inet := lu) (d := s) (dm := smac)
                                (j := pp) (lan' := s) (mj := mL); try eassumption; try reflexivity.
    + apply router_modelled; assumption.
    + apply router_is_router; assumption.
    + intros snet sm E. destruct (G8 snet sm E) as [E1 E2]. subst snet.
      apply router_find_net_none; [assumption|]. intro Hin. destruct (Hlevels _ Hin) as [E3|E3];
        rewrite (tt_root _ _ _ _ _ _ Htt) in E3; [|lia].
      lia.
    + eapply router_find_net_some; eauto.
    + cbn. destruct (N.eqb_spec s lu) as [E|E]; [|reflexivity]. exfalso. rewrite <- E in Hlvs. lia.
    + unfold not_for_me. cbn [a_net a_mac optN_eqb].
      destruct (N.eqb_spec s lanx) as [E|E]; [|reflexivity]. subst lanx.
      destruct (mac_eqb smac mx) eqn:Em; [|reflexivity]. exfalso. apply mac_eqb_eq in Em. subst mx.
      assert (Hx0 : port_of ns0 (pw, x) = Some (s, smac)) by (unfold port_of; cbn [fst snd]; rewrite Hw0, <- Hp1; exact Hx).
      assert (Ht0 : port_of ns0 (srcn, 0%nat) = Some (s, smac)) by (unfold port_of; cbn [fst snd]; rewrite Hws, Hwsp; reflexivity).
      assert (E : (pw, x) = (srcn, 0%nat)).
      { apply (nodup_map_inj (port_mac ns0) (lan_members lns s)); [apply (io_macs _ _ Hio)|eapply io_listed; eauto|eapply io_listed; eauto|].
        rewrite (port_of_mac _ _ _ _ Hx0), (port_of_mac _ _ _ _ Ht0). reflexivity. }
      inversion E; subst. rewrite Hws in Hw0. inversion Hw0; subst.
      apply (router_not_station w0 Hr0). exists s, smac, a_s. auto.
    + fold X. rewrite HX.
      pose proof (Hsimstep (mkAd (Some lu) (Some mu))) as Hsim3.
      destruct (sim_nth _ _ _ _ _ Hsim3 Hws) as (A3 & HA3 & (Hq1 & Hq2 & Hq3 & _)).
      rewrite <- G5.
      match goal with |- arrives _ ?NS ?G _ _ _ _ => eapply (arr_station lns NS G srcn A3 smac a_s d dm) end; try reflexivity.
      * unfold acceptor. cbn [f_dst f_lan]. split; [reflexivity|]. split.
        { rewrite (map_ext _ _ (fun x => sim_port_mac dd ns0 _ x Hsim3)). apply (io_macs _ _ Hio). }
        split; [eapply io_listed; eauto; unfold port_of; cbn [fst snd]; rewrite Hws, Hwsp; reflexivity|].
        split; [assumption|]. exists s. rewrite Hq1, Hwsp. reflexivity.
      * rewrite Hq2. assumption.
      * rewrite Hq3. assumption.
      * cbn [f_npdu n_data]. rewrite G5. assumption.
      * destruct Hwsn as [E|E]; rewrite E; cbn; [reflexivity|]. destruct (N.eqb_spec s d); [contradiction|reflexivity].
  - (* a router further from the source: back along what it learned *)
    assert (HlvLs : (lv L < lv s)%nat) by (destruct HLs as [E|E]; [contradiction|assumption]).
    eapply arr_router with (who := pw) (i := up pw) (w := PW) (m := mu) (inet := lu) (d := s) (dm := smac)
                           (j := pp) (m' := mprev) (lan' := L) (mj := mL); try eassumption; try reflexivity.
    + apply router_modelled; assumption.
    + apply router_is_router; assumption.
    + intros snet sm E. destruct (G8 snet sm E) as [E1 E2]. subst snet. split; [|congruence].
      apply router_find_net_none; [assumption|]. intro Hin. destruct (Hlevels _ Hin) as [E3|E3];
        rewrite (tt_root _ _ _ _ _ _ Htt) in E3; [|lia].
      lia.
    + apply router_find_net_none; [assumption|]. intro Hin. destruct (Hlevels _ Hin); lia.
    + apply Hpath. assumption.
    + fold X. rewrite HX. apply Hb.
      * intros who Hwho. rewrite set_nth_nth_other by (intro E; subst who; contradiction).
        apply Hag. right. assumption.
      * apply Hsimstep.
      * unfold rframe. cbn [f_lan f_dst f_src f_npdu n_msg n_dadr n_data n_hop n_sadr fwd_sadr].
        split; [reflexivity|]. split; [reflexivity|]. split; [reflexivity|]. split; [assumption|]. split; [assumption|].
        split; [lia|]. split; [reflexivity|]. intros sn sm E. inversion E; subst. split; [reflexivity|lia].
Qed.

Lemma learned_pending : forall n ai src p, pending (learned n ai src p) = pending n.
Proof. intros. unfold learned. destruct (n_sadr p) as [[? ?]|]; reflexivity. Qed.

Lemma fwd_back : forall lns ns0 d lv up par dd srcn ws s smac a_s tgt wt dm a_t data rdata,
  internet_ok lns ns0 -> tree_to lns ns0 d lv up par -> dd <> d -> dd <> s ->
  nth_error ns0 srcn = Some ws -> w_ports ws = [(s, smac)] -> adapters (w_node ws) = [a_s] ->
  (a_net a_s = None \/ a_net a_s = Some s) -> has_app (w_node ws) = true ->
  In (tgt, 0%nat) (lan_members lns d) -> nth_error ns0 tgt = Some wt ->
  w_ports wt = [(d, dm)] -> adapters (w_node wt) = [a_t] -> (a_net a_t = None \/ a_net a_t = Some d) ->
  has_app (w_node wt) = true ->
  apdu_ok data = true -> apdu_ok rdata = true -> s <> d -> (lv s <= 255)%nat ->
  (forall who w, nth_error ns0 who = Some w -> forall x, cache_get (rcache (w_node w)) x s = None) ->
  forall k ns f mL bh,
    sim dd ns0 ns ->
    (forall who, ~ In who bh -> nth_error ns who = nth_error ns0 who) ->
    (forall who, In who bh -> who = srcn \/
        exists w lu mu, nth_error ns0 who = Some w /\ router_shape w /\
                        nth_error (w_ports w) (up who) = Some (lu, mu) /\ (S k <= lv lu)%nat) ->
    lv (f_lan f) = S k ->
    (exists x m, port_of ns0 x = Some (f_lan f, m)) ->
    port_mac ns0 (par (f_lan f)) = Some mL -> f_dst f = LStation mL ->
    n_msg (f_npdu f) = None -> n_dadr (f_npdu f) = Some (DStation d dm) -> n_data (f_npdu f) = data ->
    (S k <= N.to_nat (n_hop (f_npdu f)))%nat ->
    fwd_sadr (f_lan f) (f_src f) (f_npdu f) = (s, smac) ->
    (forall sn sm, n_sadr (f_npdu f) = Some (sn, sm) -> sn = s /\ (S k < lv s)%nat) ->
    (f_lan f = s \/ (lv (f_lan f) < lv s)%nat) ->
    ((f_lan f = s /\ f_src f = smac) \/
     (f_lan f <> s /\ BackOK lns ns0 dd srcn s smac d dm rdata (lv s) lv bh ns (f_lan f) (f_src f))) ->
    exists nsf mu Bf,
      arrives_f lns ns f tgt (ARS s smac) (ALS dm) data nsf mu /\ sim dd ns0 nsf /\
      nth_error nsf tgt = Some Bf /\ w_ports Bf = w_ports wt /\ adapters (w_node Bf) = adapters (w_node wt) /\
      pending (w_node Bf) = pending (w_node wt) /\
      cache_get (rcache (w_node Bf)) (a_net a_t) s = Some mu /\
      forall ns2, (forall who, who <> tgt -> nth_error ns2 who = nth_error nsf who) -> sim dd ns0 ns2 ->
        arrives lns ns2 (mkFrame d dm (LStation mu) (mkNpdu (Some (DStation s smac)) None 255 None rdata))
                srcn (ARS d dm) (ALS smac) rdata.
Proof.
  intros lns ns0 d lv up par dd srcn ws s smac a_s tgt wt dm a_t data rdata
         Hio Htt Hdd Hds Hws Hwsp Hwsa Hwsn Hwsh Htgt Hwt Hwtp Hwta Hwtn Hwth Hok Hrok Hsd HK Hcold.
  induction k as [|k IH]; intros ns f mL bh Hsim Hunt Hbh HlvL Hinh HparM Hdst Hmsg Hdadr Hdata Hhop Hfs Hsadr HLs Hback.
  all: destruct (tt_parent _ _ _ _ _ _ Htt (f_lan f) Hinh ltac:(lia)) as (Hpin & w0 & Hw0 & Hsh0 & Hnotup).
  all: destruct (par (f_lan f)) as [pw pp] eqn:Epar; cbn [fst snd] in *.
  all: destruct (io_members _ _ Hio _ _ Hpin) as [m0 Hport0].
  all: assert (m0 = mL) by (apply port_of_mac in Hport0; congruence); subst m0.
  all: assert (Hpp : nth_error (w_ports w0) pp = Some (f_lan f, mL))
         by (unfold port_of in Hport0; cbn [fst snd] in Hport0; rewrite Hw0 in Hport0; exact Hport0).
  all: destruct (tt_router _ _ _ _ _ _ Htt pw w0 Hw0 Hsh0) as (lu & mu & Hup & Hroot & Hchild & Hwarm).
  all: assert (Hlvlu : lv (f_lan f) = S (lv lu)) by (apply (Hchild pp (f_lan f) mL Hpp Hnotup)).
  all: assert (Hnbh : ~ In pw bh).
  1,3: (intro Hin; destruct (Hbh pw Hin) as [E|(wx & lux & mux & Hwx & _ & Hupx & Hle)];
        [subst pw; rewrite Hws in Hw0; inversion Hw0; subst; apply (router_not_station w0 Hsh0); exists s, smac, a_s; auto
        |rewrite Hw0 in Hwx; inversion Hwx; subst wx; rewrite Hup in Hupx; inversion Hupx; subst; lia]).
  all: assert (Hwns : nth_error ns pw = Some w0) by (rewrite (Hunt pw Hnbh); exact Hw0).
  all: assert (Hacc : acceptor lns ns f pw pp w0 mL).
  1,3: (unfold acceptor; split; [assumption|]; split;
        [rewrite (map_ext _ _ (fun x => sim_port_mac dd ns0 ns x Hsim)); apply (io_macs _ _ Hio)|];
        split; [assumption|]; split; [assumption|eexists; exact Hpp]).
  all: pose proof (router_nth_adapter _ _ _ _ Hsh0 Hpp) as Hai.
  all: assert (Hlevels : forall Lx, In Lx (map fst (w_ports w0)) -> lv Lx = lv lu \/ lv Lx = S (lv lu)).
  1,3: (intros Lx HLx; apply in_map_fst_nth in HLx; destruct HLx as (p & mp & Hp);
        destruct (Nat.eq_dec p (up pw)) as [E|E];
        [subst p; rewrite Hup in Hp; inversion Hp; subst; left; reflexivity
        |right; apply (Hchild p Lx mp Hp E)]).
  all: assert (Hsrc : forall snet sm, n_sadr (f_npdu f) = Some (snet, sm) ->
                        find_net (w_node w0) (Some snet) = None /\ snet <> d).
  1,3: (intros snet sm Es; destruct (Hsadr snet sm Es) as [E1 E2]; subst snet; split;
        [apply router_find_net_none; [assumption|]; intro Hin; destruct (Hlevels _ Hin); lia|assumption]).
  all: assert (Hhop0 : n_hop (f_npdu f) <> 0) by lia.
  all: set (PW := mkW (learned (w_node w0) (mkAd (Some (f_lan f)) (Some mL)) (f_src f) (f_npdu f)) (w_ports w0)).
  all: set (ns' := set_nth ns pw PW).
  all: assert (Hsim' : sim dd ns0 ns')
         by (apply sim_step; [assumption|assumption|intros snet sm Es; destruct (Hsadr snet sm Es) as [E1 _]; congruence]).
  all: assert (Hpath : f_lan f <> s -> find_path (w_node PW) s = Some (pp, f_src f)).
  1,3: (intro HLne; unfold PW; cbn [w_node];
        destruct (n_sadr (f_npdu f)) as [[sn sm]|] eqn:Es;
        [destruct (Hsadr sn sm eq_refl) as [E1 _]; subst sn;
         destruct Hsh0 as (_ & Hnd0 & Ha0 & _);
         apply (learned_path_back (w_node w0) (w_ports w0) pp (f_lan f) mL (f_src f) (f_npdu f) s sm Ha0 Hnd0 Hpp (Hcold pw w0 Hw0) Es)
        |unfold fwd_sadr in Hfs; rewrite Es in Hfs; inversion Hfs; contradiction]).
  all: assert (HBack' : BackOK lns ns0 dd srcn s smac d dm rdata (lv s) lv (pw :: bh) ns' lu mu).
  1,3: (apply (back_step lns ns0 d lv up par dd srcn ws s smac a_s dm rdata bh ns' (f_lan f) pw pp w0 mL lu mu (f_src f));
        try assumption;
        [exists PW; split; [unfold ns'; apply (set_nth_nth_same _ _ _ _ Hwns)|exact Hpath]
        |destruct Hback as [[E1 E2]|[E1 Hb]]; [left; auto|right; split; [assumption|];
           intros ns2 g Hag; apply Hb; intros who Hwho; rewrite (Hag who Hwho); unfold ns';
           apply set_nth_nth_other; intro E; subst who; contradiction]]).
  - (* the router attached to d; then B; then the reply *)
    assert (lu = d) by (apply Hroot; lia). subst lu.
    destruct (router_local_adapter _ Hsh0) as (x & lanx & mx & Hx & Hla).
    assert (Htne : tgt <> pw).
    { intro E. subst tgt. rewrite Hwt in Hw0. inversion Hw0; subst. apply (router_not_station w0 Hsh0). exists d, dm, a_t. auto. }
    assert (Htnb : ~ In tgt bh).
    { intro Hin. destruct (Hbh tgt Hin) as [E|(wx & lux & mux & Hwx & Hrx & _)].
      - subst tgt. rewrite Hws in Hwt. inversion Hwt; subst. rewrite Hwsp in Hwtp. inversion Hwtp. contradiction.
      - rewrite Hwt in Hwx. inversion Hwx; subst. apply (router_not_station wx Hrx). exists d, dm, a_t. auto. }
    assert (Hwt' : nth_error ns' tgt = Some wt).
    { unfold ns'. rewrite set_nth_nth_other by auto. rewrite (Hunt tgt Htnb). exact Hwt. }
    set (leg := mkFrame d mu (LStation dm)
                  (mkNpdu None (Some (fwd_sadr (f_lan f) (f_src f) (f_npdu f))) (n_hop (f_npdu f) - 1) None (n_data (f_npdu f)))).
    set (Bf := mkW (learned (w_node wt) a_t (f_src leg) (f_npdu leg)) (w_ports wt)).
    exists (set_nth ns' tgt Bf), mu, Bf.
    assert (Hsimf : sim dd ns0 (set_nth ns' tgt Bf)).
    { apply sim_step; [assumption|assumption|]. unfold leg. cbn [f_npdu n_sadr]. rewrite Hfs. intros snet sm E. inversion E. congruence. }
    split; [|split; [exact Hsimf|split; [apply (set_nth_nth_same _ _ _ _ Hwt')|split; [reflexivity|split; [apply learned_adapters|
            split; [apply learned_pending|split]]]]]].
    + (* forward *)
      rewrite <- Hdata.
      eapply arrf_last_router with (who := pw) (i := pp) (w := w0) (m := mL) (inet := f_lan f) (d := d) (dm := dm)
                                   (j := up pw) (lan' := d) (mj := mu); try eassumption; try reflexivity.
      * apply router_modelled; assumption.
      * apply router_is_router; assumption.
      * intros snet sm Es. apply (Hsrc snet sm Es).
      * eapply router_find_net_some; eauto.
      * auto.
      * cbn. destruct (N.eqb_spec d (f_lan f)) as [E|E]; [|reflexivity].
        rewrite <- E, (tt_root _ _ _ _ _ _ Htt) in HlvL. discriminate.
      * unfold not_for_me. cbn [a_net a_mac optN_eqb].
        destruct (N.eqb_spec d lanx) as [E|E]; [|reflexivity]. subst lanx.
        destruct (mac_eqb dm mx) eqn:Em; [|reflexivity]. exfalso. apply mac_eqb_eq in Em. subst mx.
        assert (Hx0 : port_of ns0 (pw, x) = Some (d, dm)) by (unfold port_of; cbn [fst snd]; rewrite Hw0; exact Hx).
        assert (Ht0 : port_of ns0 (tgt, 0%nat) = Some (d, dm)) by (unfold port_of; cbn [fst snd]; rewrite Hwt, Hwtp; reflexivity).
        assert (E : (pw, x) = (tgt, 0%nat)).
        { apply (nodup_map_inj (port_mac ns0) (lan_members lns d)); [apply (io_macs _ _ Hio)|eapply io_listed; eauto|assumption|].
          rewrite (port_of_mac _ _ _ _ Hx0), (port_of_mac _ _ _ _ Ht0). reflexivity. }
        inversion E; subst. contradiction.
      * fold PW. fold ns'. fold leg.
        assert (Hlegs : n_sadr (f_npdu leg) = Some (s, smac)) by (unfold leg; cbn [f_npdu n_sadr]; rewrite Hfs; reflexivity).
        apply (arrf_station lns ns' leg tgt wt dm a_t s smac); try reflexivity; try assumption.
        -- unfold acceptor. cbn [leg f_dst f_lan]. split; [reflexivity|]. split.
           { rewrite (map_ext _ _ (fun x => sim_port_mac dd ns0 _ x Hsim')). apply (io_macs _ _ Hio). }
           split; [assumption|]. split; [assumption|]. exists d. rewrite Hwtp. reflexivity.
        -- cbn [leg f_npdu n_data]. rewrite Hdata. assumption.
        -- destruct Hwtn as [E|E]; rewrite E; cbn; [reflexivity|]. destruct (N.eqb_spec d s); [congruence|reflexivity].
    + (* what B has learned *)
      unfold Bf, learned. cbn [w_node leg f_npdu n_sadr]. rewrite Hfs. cbn [rcache set_cache]. apply cache_learn_one.
    + (* the reply *)
      intros ns2 Hag2 Hsim2. apply HBack'; [|assumption|].
      * intros who Hwho. rewrite Hag2.
        -- apply set_nth_nth_other. intro E. subst who. destruct Hwho as [E|Hin]; [apply Htne; auto|contradiction].
        -- intro E. subst who. destruct Hwho as [E|Hin]; [apply Htne; auto|contradiction].
      * unfold rframe. cbn [f_lan f_dst f_src f_npdu n_msg n_dadr n_data n_hop n_sadr fwd_sadr].
        split; [reflexivity|]. split; [reflexivity|]. split; [reflexivity|]. split; [reflexivity|]. split; [reflexivity|].
        split; [change (N.to_nat 255) with 255%nat; lia|]. split; [reflexivity|]. intros sn sm E. discriminate E.
  - (* a router further away *)
    assert (Hlu : lv lu = S k) by lia.
    destruct (Hwarm ltac:(lia)) as (pm & Hpm & Hfp).
    set (f' := mkFrame lu mu (LStation pm)
                 (mkNpdu (n_dadr (f_npdu f)) (Some (fwd_sadr (f_lan f) (f_src f) (f_npdu f))) (n_hop (f_npdu f) - 1) None (n_data (f_npdu f)))).
    destruct (IH ns' f' pm (pw :: bh)) as (nsf & mu' & Bf & A1 & A2 & A3 & A4 & A5 & A6 & A7 & A8); try assumption; try reflexivity.
    + intros who Hwho. unfold ns'. rewrite set_nth_nth_other by (intro E; subst who; apply Hwho; left; reflexivity).
      apply Hunt. intro Hin. apply Hwho. right. assumption.
    + intros who [E|Hin].
      * subst who. right. exists w0, lu, mu. split; [assumption|]. split; [assumption|]. split; [assumption|]. lia.
      * destruct (Hbh who Hin) as [E|(wx & lux & mux & H1 & H2 & H3 & H4)]; [left; assumption|].
        right. exists wx, lux, mux. split; [assumption|]. split; [assumption|]. split; [assumption|]. lia.
    + exists (pw, up pw), mu. unfold port_of. cbn [fst snd]. rewrite Hw0. exact Hup.
    + cbn. lia.
    + cbn [f' f_npdu n_sadr]. rewrite Hfs. intros sn sm E. inversion E; subst. split; [reflexivity|].
      destruct HLs as [E1|E1]; [rewrite E1 in Hlvlu; lia|lia].
    + right. cbn [f' f_lan]. destruct HLs as [E1|E1]; [rewrite E1 in Hlvlu; lia|lia].
    + right. cbn [f' f_lan f_src]. split; [|exact HBack'].
      intro E. subst lu. destruct HLs as [E1|E1]; [rewrite E1 in Hlvlu; lia|lia].
    + exists nsf, mu', Bf. split; [|repeat split; assumption].
      rewrite <- Hdata in *.
      eapply arrf_router with (who := pw) (i := pp) (w := w0) (m := mL) (inet := f_lan f) (d := d) (dm := dm)
                              (j := up pw) (m' := pm) (lan' := lu) (mj := mu); try eassumption; try reflexivity.
      * apply router_modelled; assumption.
      * apply router_is_router; assumption.
      * apply router_find_net_none; [assumption|]. intro Hin. destruct (Hlevels _ Hin) as [E|E];
          rewrite (tt_root _ _ _ _ _ _ Htt) in E; lia.
Qed.

Lemma sim_set_eta : forall dd ns0 ns who w, sim dd ns0 ns -> nth_error ns who = Some w ->
  sim dd ns0 (set_nth ns who (mkW (w_node w) (w_ports w))).
Proof.
  intros dd ns0 ns who w H Hw x. specialize (H x). destruct (Nat.eq_dec who x) as [E|E].
  - subst x. rewrite (set_nth_nth_same _ _ _ _ Hw). rewrite Hw in H. exact H.
  - rewrite set_nth_nth_other by assumption. exact H.
Qed.

(* C06_reply_routable on a loop-free internetwork: station A on network s sends a unicast to station B = (d, dm);
   the routers are warm towards d (tree_to) and NOBODY knows anything about network s beforehand (cold).  The
   unicast is delivered exactly once at B showing (s, smac); B's reply to that source is then delivered exactly
   once at A, showing (d, dm): every router on the way has learned the way back from the SADR of the request. *)
Theorem tree_reply_routable : forall w d lv up par srcn ws s smac a_s tgt wt dm a_t data rdata mR,
  internet_ok (lans w) (nodes w) -> tree_to (lans w) (nodes w) d lv up par -> queue w = [] ->
  nth_error (nodes w) srcn = Some ws -> w_ports ws = [(s, smac)] -> adapters (w_node ws) = [a_s] ->
  (a_net a_s = None \/ a_net a_s = Some s) -> has_app (w_node ws) = true ->
  In (tgt, 0%nat) (lan_members (lans w) d) -> nth_error (nodes w) tgt = Some wt ->
  w_ports wt = [(d, dm)] -> adapters (w_node wt) = [a_t] -> (a_net a_t = None \/ a_net a_t = Some d) ->
  has_app (w_node wt) = true ->
  (0 < lv s <= 255)%nat ->
  pending_get (pending (w_node ws)) d = None -> pending_get (pending (w_node wt)) s = None ->
  port_mac (nodes w) (par s) = Some mR -> cache_get (rcache (w_node ws)) (a_net a_s) d = Some mR ->
  apdu_ok data = true -> apdu_ok rdata = true ->
  (forall who wn, nth_error (nodes w) who = Some wn -> forall x, cache_get (rcache (w_node wn)) x s = None) ->
  let w0 := submit w srcn (ARS d dm) data in
  exists k1 osn1,
    queue (run k1 w0) = [] /\ trace (run k1 w0) = osn1 ++ trace w /\
    oups osn1 = [OUp tgt (ARS s smac) (ALS dm) data] /\
    let w2 := submit (run k1 w0) tgt (ARS s smac) rdata in
    exists k2 osn2,
      queue (run k2 w2) = [] /\ (forall k', (k2 <= k')%nat -> run k' w2 = run k2 w2) /\
      trace (run k2 w2) = osn2 ++ trace (run k1 w0) /\
      oups osn2 = [OUp srcn (ARS d dm) (ALS smac) rdata].
Proof.
  intros w d lv up par srcn ws s smac a_s tgt wt dm a_t data rdata mR Hio Htt Hq
         Hws Hwsp Hwsa Hwsn Hwsh Htgt Hwt Hwtp Hwta Hwtn Hwth Hlv HpA HpB HmR Hcache Hok Hrok Hcold w0.
  assert (Hsd : s <> d) by (intro E; subst s; rewrite (tt_root _ _ _ _ _ _ Htt) in Hlv; lia).
  set (dd := s + d + 1).
  assert (Hdd : dd <> d) by (unfold dd; lia). assert (Hds : dd <> s) by (unfold dd; lia).
  assert (HsdA : optN_eqb (Some d) (a_net a_s) = false).
  { destruct Hwsn as [E|E]; rewrite E; cbn; [reflexivity|]. destruct (N.eqb_spec d s); [congruence|reflexivity]. }
  pose proof (station_sends_unicast (w_node ws) a_s d dm mR data Hwsa HsdA HpA Hcache) as Hind.
  set (p0 := mkNpdu (Some (DStation d dm)) None 255 None data) in *.
  set (f0 := mkFrame s smac (LStation mR) p0).
  assert (Hw0 : w0 = mkWorld (set_nth (nodes w) srcn (mkW (w_node ws) (w_ports ws))) (lans w) [f0] (trace w)).
  { unfold w0, submit. rewrite Hws, Hind. cbn [emit w_ports]. rewrite Hwsp. cbn [nth_error]. rewrite Hq. reflexivity. }
  destruct (lv s) as [|k] eqn:Ek; [lia|].
  destruct (fwd_back (lans w) (nodes w) d lv up par dd srcn ws s smac a_s tgt wt dm a_t data rdata
              Hio Htt Hdd Hds Hws Hwsp Hwsa Hwsn Hwsh Htgt Hwt Hwtp Hwta Hwtn Hwth Hok Hrok Hsd ltac:(lia) Hcold
              k (set_nth (nodes w) srcn (mkW (w_node ws) (w_ports ws))) f0 mR [srcn])
    as (nsf & mu & Bf & A1 & A2 & A3 & A4 & A5 & A6 & A7 & A8);
    try reflexivity; try assumption.
  - apply sim_set_same. assumption.
  - intros who Hwho. apply set_nth_nth_other. intro E. apply Hwho. left. assumption.
  - intros who [E|[]]. left. auto.
  - exists (srcn, 0%nat), smac. unfold port_of. cbn [fst snd]. rewrite Hws, Hwsp. reflexivity.
  - cbn. change (N.to_nat 255) with 255%nat. lia.
  - cbn. intros sn sm E. discriminate E.
  - left. reflexivity.
  - left. split; reflexivity.
  - assert (Hq0 : queue w0 = [f0]) by (rewrite Hw0; reflexivity).
    destruct (route_arrives_f _ _ _ _ _ _ _ _ _ A1 w0 ltac:(rewrite Hw0; reflexivity) ltac:(rewrite Hw0; reflexivity) Hq0)
      as (k1 & osn1 & B1 & B2 & B3 & B4 & B5 & _).
    exists k1, osn1. split; [assumption|]. split; [rewrite B4, Hw0; reflexivity|]. split; [assumption|].
    set (w1 := run k1 w0) in *.
    assert (HsdB : optN_eqb (Some s) (a_net a_t) = false).
    { destruct Hwtn as [E|E]; rewrite E; cbn; [reflexivity|]. destruct (N.eqb_spec s d); [congruence|reflexivity]. }
    assert (HaB : adapters (w_node Bf) = [a_t]) by (rewrite A5; assumption).
    assert (HpB' : pending_get (pending (w_node Bf)) s = None) by (rewrite A6; assumption).
    pose proof (station_sends_unicast (w_node Bf) a_t s smac mu rdata HaB HsdB HpB' A7) as Hind2.
    set (g0 := mkFrame d dm (LStation mu) (mkNpdu (Some (DStation s smac)) None 255 None rdata)).
    intro w2.
    assert (Hw2 : w2 = mkWorld (set_nth nsf tgt (mkW (w_node Bf) (w_ports Bf))) (lans w) [g0] (trace w1)).
    { unfold w2, submit. rewrite B2, A3, Hind2. cbn [emit w_ports]. rewrite A4, Hwtp. cbn [nth_error]. rewrite B1, B3. reflexivity. }
    assert (Harr : arrives (lans w2) (nodes w2) g0 srcn (ARS d dm) (ALS smac) rdata).
    { rewrite Hw2. cbn [lans nodes]. apply A8.
      - intros who Hne. apply set_nth_nth_other. auto.
      - apply sim_set_eta; assumption. }
    assert (Hq2 : queue w2 = [g0]) by (rewrite Hw2; reflexivity).
    destruct (route_arrives_exactly_once w2 g0 srcn _ _ _ Hq2 Harr) as (k2 & osn2 & C1 & C2 & C3 & C4).
    exists k2, osn2. repeat split; auto. rewrite C3, Hw2. reflexivity.
Qed.

(* The same with settings.route_aware on: B is shown the source s:smac@rt, where rt is the link source of the frame
   that delivered the request (up_route), and replies to exactly that address; the route-aware branch of indication
   sends the reply straight to rt with DADR (s, smac) — B needs no cache entry and parks nothing. *)
Theorem tree_reply_routable_route_aware : forall w d lv up par srcn ws s smac a_s tgt wt dm a_t data rdata mR,
  internet_ok (lans w) (nodes w) -> tree_to (lans w) (nodes w) d lv up par -> queue w = [] ->
  nth_error (nodes w) srcn = Some ws -> w_ports ws = [(s, smac)] -> adapters (w_node ws) = [a_s] ->
  (a_net a_s = None \/ a_net a_s = Some s) -> has_app (w_node ws) = true ->
  In (tgt, 0%nat) (lan_members (lans w) d) -> nth_error (nodes w) tgt = Some wt ->
  w_ports wt = [(d, dm)] -> adapters (w_node wt) = [a_t] -> (a_net a_t = None \/ a_net a_t = Some d) ->
  has_app (w_node wt) = true ->
  (0 < lv s <= 255)%nat ->
  pending_get (pending (w_node ws)) d = None ->
  port_mac (nodes w) (par s) = Some mR -> cache_get (rcache (w_node ws)) (a_net a_s) d = Some mR ->
  apdu_ok data = true -> apdu_ok rdata = true ->
  (forall who wn, nth_error (nodes w) who = Some wn -> forall x, cache_get (rcache (w_node wn)) x s = None) ->
  let w0 := submit w srcn (ARS d dm) data in
  exists k1 lf rest,
    queue (run k1 w0) = [] /\
    trace (run k1 w0) = (OUp tgt (ARS s smac) (ALS dm) data :: OFrame lf :: rest) ++ trace w /\
    oups (OUp tgt (ARS s smac) (ALS dm) data :: OFrame lf :: rest) = [OUp tgt (ARS s smac) (ALS dm) data] /\
    up_route (w_node wt) 0 (f_src lf) (f_npdu lf) = Some (f_src lf) /\
    let w2 := submit_routed (run k1 w0) tgt (ARS s smac) (f_src lf) rdata in
    exists k2 osn2,
      queue (run k2 w2) = [] /\ (forall k', (k2 <= k')%nat -> run k' w2 = run k2 w2) /\
      trace (run k2 w2) = osn2 ++ trace (run k1 w0) /\
      oups osn2 = [OUp srcn (ARS d dm) (ALS smac) rdata].
Proof.
  intros w d lv up par srcn ws s smac a_s tgt wt dm a_t data rdata mR Hio Htt Hq
         Hws Hwsp Hwsa Hwsn Hwsh Htgt Hwt Hwtp Hwta Hwtn Hwth Hlv HpA HmR Hcache Hok Hrok Hcold w0.
  assert (Hsd : s <> d) by (intro E; subst s; rewrite (tt_root _ _ _ _ _ _ Htt) in Hlv; lia).
  set (dd := s + d + 1).
  assert (Hdd : dd <> d) by (unfold dd; lia). assert (Hds : dd <> s) by (unfold dd; lia).
  assert (HsdA : optN_eqb (Some d) (a_net a_s) = false).
  { destruct Hwsn as [E|E]; rewrite E; cbn; [reflexivity|]. destruct (N.eqb_spec d s); [congruence|reflexivity]. }
  pose proof (station_sends_unicast (w_node ws) a_s d dm mR data Hwsa HsdA HpA Hcache) as Hind.
  set (p0 := mkNpdu (Some (DStation d dm)) None 255 None data) in *.
  set (f0 := mkFrame s smac (LStation mR) p0).
  assert (Hw0 : w0 = mkWorld (set_nth (nodes w) srcn (mkW (w_node ws) (w_ports ws))) (lans w) [f0] (trace w)).
  { unfold w0, submit. rewrite Hws, Hind. cbn [emit w_ports]. rewrite Hwsp. cbn [nth_error]. rewrite Hq. reflexivity. }
  destruct (lv s) as [|k] eqn:Ek; [lia|].
  destruct (fwd_back (lans w) (nodes w) d lv up par dd srcn ws s smac a_s tgt wt dm a_t data rdata
              Hio Htt Hdd Hds Hws Hwsp Hwsa Hwsn Hwsh Htgt Hwt Hwtp Hwta Hwtn Hwth Hok Hrok Hsd ltac:(lia) Hcold
              k (set_nth (nodes w) srcn (mkW (w_node ws) (w_ports ws))) f0 mR [srcn])
    as (nsf & mu & Bf & A1 & A2 & A3 & A4 & A5 & A6 & A7 & A8);
    try reflexivity; try assumption.
  - apply sim_set_same. assumption.
  - intros who Hwho. apply set_nth_nth_other. intro E. apply Hwho. left. assumption.
  - intros who [E|[]]. left. auto.
  - exists (srcn, 0%nat), smac. unfold port_of. cbn [fst snd]. rewrite Hws, Hwsp. reflexivity.
  - cbn. change (N.to_nat 255) with 255%nat. lia.
  - cbn. intros sn sm E. discriminate E.
  - left. reflexivity.
  - left. split; reflexivity.
  - assert (Hq0 : queue w0 = [f0]) by (rewrite Hw0; reflexivity).
    destruct (route_arrives_f _ _ _ _ _ _ _ _ _ A1 w0 ltac:(rewrite Hw0; reflexivity) ltac:(rewrite Hw0; reflexivity) Hq0)
      as (k1 & osn1 & B1 & B2 & B3 & B4 & B5 & lf & rest & B6 & B7 & B8).
    subst osn1. exists k1, lf, rest. split; [assumption|]. split; [rewrite B4, Hw0; reflexivity|]. split; [assumption|].
    split.
    { (* the frame that delivered the request carries the SADR of the originator: the source shown has a route *)
      unfold up_route, is_router. rewrite Hwta. cbn [length Nat.eqb negb andb].
      (* a delivery showing a remote source means the frame had a SADR *)
      destruct (n_sadr (f_npdu lf)); [reflexivity|congruence]. }
    rewrite B7.
    set (w1 := run k1 w0) in *.
    assert (HaB : adapters (w_node Bf) = [a_t]) by (rewrite A5; assumption).
    set (g0 := mkFrame d dm (LStation mu) (mkNpdu (Some (DStation s smac)) None 255 None rdata)).
    intro w2.
    assert (Hw2 : w2 = mkWorld (set_nth nsf tgt (mkW (w_node Bf) (w_ports Bf))) (lans w) [g0] (trace w1)).
    { unfold w2, submit_routed. rewrite B2, A3. unfold indication_routed, local_idx, nth_adapter. rewrite HaB.
      cbn [last_with_addr].
      assert (Hl : match match a_mac a_t with Some _ => Some 0%nat | None => None end with Some i => i | None => 0%nat end = 0%nat)
        by (destruct (a_mac a_t); reflexivity).
      rewrite Hl. cbn [nth_error emit w_ports]. rewrite A4, Hwtp. cbn [nth_error]. rewrite B1, B3. reflexivity. }
    assert (Harr : arrives (lans w2) (nodes w2) g0 srcn (ARS d dm) (ALS smac) rdata).
    { rewrite Hw2. cbn [lans nodes]. apply A8.
      - intros who Hne. apply set_nth_nth_other. auto.
      - apply sim_set_eta; assumption. }
    assert (Hq2 : queue w2 = [g0]) by (rewrite Hw2; reflexivity).
    destruct (route_arrives_exactly_once w2 g0 srcn _ _ _ Hq2 Harr) as (k2 & osn2 & C1 & C2 & C3 & C4).
    exists k2, osn2. repeat split; auto. rewrite C3, Hw2. reflexivity.
Qed.
