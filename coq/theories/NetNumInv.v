(* NetNumInv.v — the router cache of a node is always filed under the numbers of its own ports (property C06):
   invariant of every event of NetNum.v, so that the "paths survive the learning of the number" clause of
   thm_number_learned applies in every reachable state of a station. *)
From Coq Require Import ZifyBool ZifyN ZifyNat.
From Bac Require Import Base Net NetFacts NetNum NetNumFacts.
Ltac Zify.zify_post_hook ::= Z.to_euclidean_division_equations.
Open Scope N_scope.

Definition filed (n : node) : Prop :=
  forall k mm, In (k, mm) (rcache n) -> exists a, In a (adapters n) /\ fst k = a_net a.

Lemma cache_set_in : forall c k m k' m', In (k', m') (cache_set c k m) -> k' = k \/ In (k', m') c.
Proof.
  induction c as [|[k0 m0] r IH]; intros k m k' m' H; cbn [cache_set] in H.
  - destruct H as [H|[]]. inversion H; subst; left; reflexivity.
  - destruct (key_eqb k0 k).
    + destruct H as [H|H]; [inversion H; subst; left; reflexivity | right; right; exact H].
    + destruct H as [H|H]; [right; left; exact H|]. destruct (IH _ _ _ _ H) as [E|E]; [left; exact E | right; right; exact E].
Qed.

Lemma cache_update_in : forall dn c s m k' m', In (k', m') (cache_update c s m dn) -> fst k' = s \/ In (k', m') c.
Proof.
  unfold cache_update. induction dn as [|d r IH]; intros c s m k' m' H; cbn [fold_left] in H; [right; exact H|].
  destruct (IH _ _ _ _ _ H) as [E|E]; [left; exact E|].
  destruct (cache_set_in _ _ _ _ _ E) as [E2|E2]; [left; subst; reflexivity | right; exact E2].
Qed.

(* every entry after process_npdu was there before or is filed under the arrival adapter's number *)
Lemma process_npdu_cache_in : forall n i src dst p n' acts k mm,
  process_npdu n i src dst p = (n', acts) -> In (k, mm) (rcache n') ->
  In (k, mm) (rcache n) \/ exists ai, nth_adapter n i = Some ai /\ fst k = a_net ai.
Proof.
  intros n i src dst p n' acts k mm H Hin. unfold process_npdu in H.
  destruct (nth_adapter n i) as [ai|] eqn:Ea; [|inversion H; subst; left; exact Hin].
  destruct (negb (modelled_config n)); [inversion H; subst; left; exact Hin|].
  match type of H with (if ?s then _ else _) = _ => destruct s end; [inversion H; subst; left; exact Hin|].
  set (n1 := match n_sadr p with
             | Some (snet, _) => set_cache n (cache_update (rcache n) (a_net ai) src [snet])
             | None => n end) in *.
  assert (Hn1 : forall k mm, In (k, mm) (rcache n1) -> In (k, mm) (rcache n) \/ exists a, Some ai = Some a /\ fst k = a_net a).
  { intros k0 m0 H0. subst n1. destruct (n_sadr p) as [[sn sm]|]; [|left; exact H0].
    cbn [rcache set_cache] in H0. destruct (cache_update_in _ _ _ _ _ _ H0) as [E|E]; [right; exists ai; split; [reflexivity|exact E] | left; exact E]. }
  match type of H with context [match ?dec with Err _ => _ | Ok _ => _ end] => destruct dec as [[[pl fw]|]|e] end;
    [| inversion H; subst; exact (Hn1 _ _ Hin) | inversion H; subst; exact (Hn1 _ _ Hin)].
  destruct (n_msg p) as [t|] eqn:Em.
  - destruct pl; [|inversion H; subst; exact (Hn1 _ _ Hin)].
    destruct (negb (known_msg t)); [inversion H; subst; exact (Hn1 _ _ Hin)|].
    destruct (t =? 0).
    + destruct (dec_who_is (n_data p)) as [w|e]; [|inversion H; subst; exact (Hn1 _ _ Hin)].
      match type of H with context [nse_who_is ?a ?b ?c ?dd ?e ?f] => destruct (nse_who_is a b c dd e f) as [n2 ac] eqn:Ew end.
      destruct (nse_who_is_spec _ _ _ _ _ _ _ _ Ew) as (Hn & _). inversion H; subst. exact (Hn1 _ _ Hin).
    + destruct (t =? 1); [|inversion H; subst; exact (Hn1 _ _ Hin)].
      destruct (dec_i_am (n_data p)) as [nets|e]; [|inversion H; subst; exact (Hn1 _ _ Hin)].
      match type of H with context [nse_i_am ?a ?b ?c ?dd ?e] => destruct (nse_i_am a b c dd e) as [n2 ac] eqn:Ew end.
      destruct (nse_i_am_spec _ _ _ _ _ _ _ Ew) as (_ & _ & Hc & _). inversion H; subst. rewrite Hc in Hin.
      destruct (cache_update_in _ _ _ _ _ _ Hin) as [E|E]; [right; exists ai; split; [reflexivity|exact E] | exact (Hn1 _ _ E)].
  - match type of H with (if ?c then _ else _) = _ => destruct c end.
    + destruct (negb (apdu_ok (n_data p))); inversion H; subst; exact (Hn1 _ _ Hin).
    + inversion H; subst; exact (Hn1 _ _ Hin).
Qed.

Lemma process_npdu_filed : forall n i src dst p n' acts,
  filed n -> process_npdu n i src dst p = (n', acts) -> filed n'.
Proof.
  intros n i src dst p n' acts Hf H k mm Hin. rewrite (process_npdu_adapters _ _ _ _ _ _ _ H).
  destruct (process_npdu_cache_in _ _ _ _ _ _ _ _ _ H Hin) as [E|(ai & Ea & Ek)]; [exact (Hf _ _ E)|].
  exists ai. split; [exact (nth_error_In _ _ Ea) | exact Ek].
Qed.

Lemma indication_state : forall n d data, adapters (fst (indication n d data)) = adapters n /\
  rcache (fst (indication n d data)) = rcache n.
Proof.
  intros n d data. unfold indication.
  destruct (nth_adapter n (local_idx n)) as [la|]; [|split; reflexivity].
  destruct (negb (modelled_config n)); [split; reflexivity|].
  destruct d; try (split; reflexivity);
    (destruct (optN_eqb (Some net) (a_net la)); [split; reflexivity|];
     destruct (pending_get (pending n) net); [split; reflexivity|];
     destruct (find_path n net) as [[j m']|]; split; reflexivity).
Qed.

Lemma do_event_filed : forall n e n' acts, filed n -> do_event n e = (n', acts) -> filed n'.
Proof.
  intros n e n' acts Hf H. destruct e as [i m dn | d data | i s d p | d r data]; cbn [do_event] in H.
  - destruct (nth_adapter n i) as [a|] eqn:Ea; inversion H; subst; [|exact Hf].
    intros k mm Hin. cbn [rcache set_cache adapters] in *.
    destruct (cache_update_in _ _ _ _ _ _ Hin) as [E|E]; [|exact (Hf _ _ E)].
    exists a. split; [exact (nth_error_In _ _ Ea) | exact E].
  - destruct (indication_state n d data) as [A B]. rewrite H in A, B. cbn [fst] in A, B.
    intros k mm Hin. rewrite A. rewrite B in Hin. exact (Hf _ _ Hin).
  - exact (process_npdu_filed _ _ _ _ _ _ _ Hf H).
  - unfold indication_routed in H. destruct (nth_adapter n (local_idx n)); [|inversion H; subst; exact Hf].
    destruct d; inversion H; subst; exact Hf.
Qed.

Lemma set_net_filed : forall n ai i net,
  filed n -> nth_adapter n i = Some ai ->
  filed (set_net n net (cache_rekey (rcache n) (a_net ai) (Some net))).
Proof.
  intros n ai i net Hf Ea. unfold set_net. destruct (adapters n) as [|a [|b r]] eqn:E; try exact Hf.
  assert (ai = a).
  { unfold nth_adapter in Ea. rewrite E in Ea. destruct i; cbn in Ea; [inversion Ea; reflexivity|]. destruct i; discriminate. }
  subst ai.
  assert (Hk : keys_on (a_net a) (rcache n)).
  { intros k mm Hin. destruct (Hf _ _ Hin) as (a' & Ha & Hk). rewrite E in Ha. destruct Ha as [Ha|[]]. subst a'. exact Hk. }
  intros k mm Hin. cbn [rcache adapters] in *.
  exists (mkAd (Some net) (a_mac a)). split; [left; reflexivity|].
  exact (thm_number_learned_keys _ _ _ Hk _ _ Hin).
Qed.

Lemma xprocess_filed : forall x i src dst p x' acts,
  filed (x_node x) -> xprocess x i src dst p = (x', acts) -> filed (x_node x').
Proof.
  intros x i src dst p x' acts Hf H. unfold xprocess in H.
  assert (Hother : lift x (process_npdu (x_node x) i src dst p) = (x', acts) -> filed (x_node x')).
  { unfold lift. destruct (process_npdu (x_node x) i src dst p) as [n1 a1] eqn:E. cbn. intro H1. inversion H1; subst. cbn.
    exact (process_npdu_filed _ _ _ _ _ _ _ Hf E). }
  destruct (n_msg p) as [t|]; [|exact (Hother H)].
  destruct ((t =? 18) || (t =? 19)); [|exact (Hother H)].
  destruct (nth_adapter (x_node x) i) as [ai|] eqn:Ea; [|inversion H; subst; exact Hf].
  destruct (negb (modelled_config (x_node x))); [inversion H; subst; exact Hf|].
  destruct (n_dadr p); [inversion H; subst; exact Hf|].
  destruct (n_sadr p); [inversion H; subst; exact Hf|].
  destruct (t =? 18).
  - unfold nse_what_num in H. destruct (a_net ai); [|inversion H; subst; exact Hf].
    destruct dst; [|inversion H; subst; exact Hf].
    destruct (negb (is_router (x_node x)) && (x_task x =? 0)); inversion H; subst; exact Hf.
  - destruct (dec_num_is (n_data p)) as [[net flag]|e]; [|inversion H; subst; exact Hf].
    unfold nse_num_is in H. destruct dst; [|inversion H; subst; exact Hf].
    destruct (a_net ai) as [old|] eqn:En.
    + destruct (old =? net); [inversion H; subst; exact Hf|].
      destruct (conf_of x =? 1); inversion H; subst; cbn [x_node]; [exact Hf|].
      rewrite <- En. exact (set_net_filed _ _ _ _ Hf Ea).
    + inversion H; subst; cbn [x_node]. rewrite <- En. exact (set_net_filed _ _ _ _ Hf Ea).
Qed.

Lemma do_xevent_filed : forall x e x' acts, filed (x_node x) -> do_xevent x e = (x', acts) -> filed (x_node x').
Proof.
  intros x e x' acts Hf H. destruct e as [e| | |]; cbn [do_xevent] in H.
  - destruct e as [i m dn | d data | i s d p | d r data];
      try (unfold lift in H;
           match type of H with context [do_event ?a ?b] => destruct (do_event a b) as [n1 a1] eqn:E end;
           cbn in H; inversion H; subst; cbn; exact (do_event_filed _ _ _ _ Hf E)).
    exact (xprocess_filed _ _ _ _ _ _ _ Hf H).
  - inversion H; subst; exact Hf.
  - inversion H; subst; exact Hf.
  - destruct (x_task x =? 1); [|inversion H; subst; exact Hf].
    destruct (nth_adapter (x_node x) 0); inversion H; subst; exact Hf.
Qed.

Lemma run_xscript_filed : forall es x x' l, filed (x_node x) -> run_xscript x es = (x', l) -> filed (x_node x').
Proof.
  induction es as [|e r IH]; intros x x' l Hf H; cbn [run_xscript] in H.
  - inversion H; subst; exact Hf.
  - destruct (do_xevent x e) as [x1 a] eqn:E1. destruct (run_xscript x1 r) as [x2 l2] eqn:E2.
    inversion H; subst. exact (IH _ _ _ (do_xevent_filed _ _ _ _ Hf E1) E2).
Qed.

(* from a freshly bound node (empty cache), after ANY history: a station's cache is filed under its adapter's number *)
Lemma thm_station_cache_filed : forall n0 es x l a,
  rcache n0 = [] -> run_xscript (xinit n0) es = (x, l) -> adapters (x_node x) = [a] ->
  keys_on (a_net a) (rcache (x_node x)).
Proof.
  intros n0 es x l a H0 H Ha.
  assert (Hf : filed (x_node (xinit n0))) by (intros k mm Hin; cbn in Hin; rewrite H0 in Hin; destruct Hin).
  pose proof (run_xscript_filed _ _ _ _ Hf H) as Hx.
  intros k mm Hin. destruct (Hx _ _ Hin) as (a' & Hin' & Hk). rewrite Ha in Hin'. destruct Hin' as [E|[]]. subst a'. exact Hk.
Qed.
