(* RouterNode.v — the part of NetworkServiceAccessPoint / NetworkServiceElement (netservice.py) through
   which routing knowledge decides the traffic a node EMITS (property C19).  No proofs (RouterNodeFacts.v).

   Python                                                   model
   sap.router_info_cache                                    ncache    (RouterCache.cache)
   sap.adapters  {net: NetworkAdapter}, in dict order       nadapters (list of attached net numbers; None = -1)
   sap.pending_nets {dnet: [npdu, ...]}                     npending  (association list dnet -> tags of the parked requests)

   NetworkServiceAccessPoint.indication, remote destination      node_req
   NetworkServiceElement.IAmRouterToNetwork                      node_iam   (record, release pending); node_iam_full (record, relay, release)
   NetworkServiceElement.WhoIsRouterToNetwork (one network)      node_whois
   NetworkServiceAccessPoint.process_npdu, SADR + forwarding     node_fwd
   NetworkServiceElement.NetworkNumberIs (learned number)        node_renum
   Emissions: application data with a DADR handed to a next-hop router, and Who-Is-Router broadcasts. *)
From Bac Require Import Base RouterCache.
Open Scope Z_scope.

Inductive emission :=
| Send (sn a d tag : Z) (sadr : option Z)      (* on attached net sn, to router a, DADR = (d, _), payload tag *)
| WhoIs (sn d : Z)                             (* Who-Is-Router-To-Network d, broadcast on attached net sn *)
| IAmR (sn : Z) (dest : option Z) (ds : list Z)  (* I-Am-Router-To-Network ds put on attached net sn by THIS node:
                                                  to station dest, or broadcast (None) *)
| WhoIsFwd (sn d snet smac : Z).               (* Who-Is-Router-To-Network d relayed on attached net sn with SADR (snet, smac) *)

Record node := mkN { ncache : cache; nadapters : list Z; npending : list (Z * list Z) }.

(* `for snet, snet_adapter in self.adapters.items(): router_info = get_router_info(snet, dnet); if router_info: break`
   (indication :421-427, process_npdu :659-665): every adapter is asked, in dict order *)
Fixpoint route_in (c : cache) (ads : list Z) (d : Z) : option (Z * Z) :=
  match ads with
  | [] => None
  | sn :: r => match pget c sn d with Some a => Some (sn, a) | None => route_in c r d end
  end.
Definition route (n : node) (d : Z) : option (Z * Z) := route_in (ncache n) (nadapters n) d.

(* indication, destination on a remote network d (:394-458) *)
Definition node_req (n : node) (d tag : Z) : node * list emission :=
  match aget Z.eqb d (npending n) with
  | Some tags => (mkN (ncache n) (nadapters n) (aset Z.eqb d (tags ++ [tag]) (npending n)), [])   (* already waiting *)
  | None =>
      match route n d with
      | Some (sn, a) => (n, [Send sn a d tag None])
      | None => (mkN (ncache n) (nadapters n) (aset Z.eqb d [tag] (npending n)),
                 map (fun sn => WhoIs sn d) (nadapters n))
      end
  end.

(* IAmRouterToNetwork, the loop `for dnet in npdu.iartnNetworkList` over pending_nets *)
Fixpoint release (sn a : Z) (ds : list Z) (p : list (Z * list Z)) : list (Z * list Z) * list emission :=
  match ds with
  | [] => (p, [])
  | d :: r =>
      match aget Z.eqb d p with
      | Some tags => let (p', out) := release sn a r (adel Z.eqb d p) in
                     (p', map (fun t => Send sn a d t None) tags ++ out)
      | None => release sn a r p
      end
  end.

Definition node_iam (n : node) (sn a : Z) (ds : list Z) : res node * list emission :=
  match update_router_info (ncache n) sn a ds 0 with
  | Err e => (Err e, [])
  | Ok c' => let (p', out) := release sn a ds (npending n) in (Ok (mkN c' (nadapters n) p'), out)
  end.

(* process_npdu for routed traffic with SADR (snet, _) and DADR remote station (d, _), arriving on the
   adapter of net arr from router a, hop count > 0 (:466-478 learn, :497-506, :592-693 forward) *)
Definition node_fwd (n : node) (arr a snet d : Z) : res node * list emission :=
  if zmem snet (nadapters n) then (Ok n, []) else                        (* path error (1) *)
  match update_router_info (ncache n) arr a [snet] 0 with
  | Err e => (Err e, [])
  | Ok c' =>
      let n' := mkN c' (nadapters n) (npending n) in
      if d =? arr then (Ok n', [])                                       (* path error (3) *)
      else if zmem d (nadapters n) then (Ok n', [])                      (* last hop: local delivery without DADR *)
      else match route n' d with
           | Some (sn, x) => (Ok n', [Send sn x d 0 (Some snet)])
           | None => (Ok n', map (fun sn => WhoIs sn d) (filter (fun sn => negb (sn =? arr)) (nadapters n)))
           end
  end.

(* NetworkNumberIs changing a learned number: cache re-filed, adapter re-inserted at the end of the dict *)
Definition node_renum (n : node) (old new : Z) : res node :=
  match update_source_network (ncache n) old new with
  | Err e => Err e
  | Ok c' => Ok (mkN c' (filter (fun sn => negb (sn =? old)) (nadapters n) ++ [new]) (npending n))
  end.

(* IAmRouterToNetwork, `for xadapter in sap.adapters.values(): if xadapter is not adapter: self.request(xadapter, iamrtn)`:
   the announcement heard on net sn is repeated as a broadcast on every other adapter (not when the node has
   a single adapter) - AFTER it was recorded, BEFORE parked requests are released *)
Definition iam_relay (n : node) (sn : Z) (ds : list Z) : list emission :=
  if (length (nadapters n) <=? 1)%nat then []
  else map (fun x => IAmR x None ds) (filter (fun x => negb (x =? sn)) (nadapters n)).

Definition node_iam_full (n : node) (sn a : Z) (ds : list Z) : res node * list emission :=
  match node_iam n sn a ds with
  | (Ok n', out) => (Ok n', iam_relay n sn ds ++ out)
  | (Err e, out) => (Err e, out)
  end.

(* NetworkServiceElement.WhoIsRouterToNetwork for one network d, asked by station a on the adapter of net
   arr, no SADR on the request: a node with one adapter stays silent; a directly connected d is claimed
   unless it is the arrival network; otherwise the adapters are asked in dict order (the same look-up as
   for traffic): a next hop on ANOTHER adapter -> I-Am-Router-To-Network [d] to the asker; a next hop on the
   arrival adapter -> silence ("same network"); nothing known -> the question is relayed on every other
   adapter with the asker as SADR (unless the arrival network has no number yet).  The cache and the parked
   requests are not touched. *)
Definition node_whois (n : node) (arr a d : Z) : list emission :=
  if (length (nadapters n) <=? 1)%nat then []
  else if zmem d (nadapters n) then (if d =? arr then [] else [IAmR arr (Some a) [d]])
  else match route n d with
       | Some (sn, _) => if sn =? arr then [] else [IAmR arr (Some a) [d]]
       | None => if arr =? -1 then []      (* arrival network not numbered yet: no SADR can be formed, not relayed (fix:) *)
                 else map (fun sn => WhoIsFwd sn d arr a) (filter (fun sn => negb (sn =? arr)) (nadapters n))
       end.

Inductive nstep :=
| NWhoIs (arr a d : Z)
| NReq (d tag : Z)
| NIAm (sn a : Z) (ds : list Z)
| NFwd (arr a snet d : Z)
| NOps (h : list op)
| NRenum (old new : Z).

Definition keep (n : node) (r : res node) : node := match r with Ok n' => n' | Err _ => n end.

Definition node_step (n : node) (s : nstep) : node * list emission :=
  match s with
  | NReq d tag => node_req n d tag
  | NWhoIs arr a d => (n, node_whois n arr a d)
  | NIAm sn a ds => let (r, out) := node_iam_full n sn a ds in (keep n r, out)
  | NFwd arr a snet d => let (r, out) := node_fwd n arr a snet d in (keep n r, out)
  | NOps h => (mkN (run (ncache n) h) (nadapters n) (npending n), [])
  | NRenum old new => (keep n (node_renum n old new), [])
  end.

Definition canon_emission (e : emission) : list Z :=
  match e with
  | Send sn a d tag sadr => [1; sn; a; d; tag; oz1 sadr]
  | WhoIs sn d => [2; sn; d]
  | IAmR sn dest ds => 3 :: sn :: oz1 dest :: zlen ds :: ds
  | WhoIsFwd sn d snet smac => [4; sn; d; snet; smac]
  end.

(* per step: the emissions in order, the parked tags per destination, the cache *)
Fixpoint observe_node (SN AD DN : list Z) (n : node) (steps : list nstep) : list Z :=
  match steps with
  | [] => []
  | s :: r =>
      let (n', out) := node_step n s in
      zlen out :: flat_map canon_emission out
      ++ flat_map (fun d => match aget Z.eqb d (npending n') with
                            | Some tags => zlen tags :: tags | None => [0] end) DN
      ++ pack (dump SN AD DN (ncache n')) ++ observe_node SN AD DN n' r
  end.
