(* NetPark.v — packets parked during path discovery keep the DADR they were submitted with and are released,
   each exactly once and in order, by the matching announcement (lemmas about Net.v, property C06). *)
From Coq Require Import ZifyBool ZifyN ZifyNat.
From Bac Require Import Base Net NetFacts.
Ltac Zify.zify_post_hook ::= Z.to_euclidean_division_equations.
Open Scope N_scope.

(* a submission towards remote network dnet: a unicast to station m, or a remote broadcast *)
Inductive sub := SUni (m : mac) (data : list N) | SBc (data : list N).

Definition sub_addr (dnet : N) (s : sub) : addr :=
  match s with SUni m _ => ARS dnet m | SBc _ => ARB dnet end.
Definition sub_data (s : sub) : list N := match s with SUni _ d | SBc d => d end.
(* the NPDU it must travel as: DADR = what the application asked for, full hop count, no SADR *)
Definition sub_npdu (dnet : N) (s : sub) : npdu :=
  match s with
  | SUni m d => mkNpdu (Some (DStation dnet m)) None 255 None d
  | SBc d => mkNpdu (Some (DBcast dnet)) None 255 None d
  end.

Definition parked_for (n : node) (dnet : N) : list npdu :=
  match pending_get (pending n) dnet with Some l => l | None => [] end.

Lemma pending_get_add_same : forall p d x,
  pending_get (pending_add p d x) d = Some (match pending_get p d with Some l => l | None => [] end ++ [x]).
Proof.
  induction p as [|[k l] r IH]; intros d x; cbn [pending_add pending_get].
  - rewrite N.eqb_refl. reflexivity.
  - destruct (N.eqb_spec k d); cbn [pending_get].
    + subst k. rewrite N.eqb_refl. reflexivity.
    + destruct (N.eqb_spec k d); [contradiction|]. apply IH.
Qed.

(* one submission while no path is known: it is parked, as the last one, with its DADR; nothing else changes *)
Lemma indication_parks : forall n la dnet s,
  nth_adapter n (local_idx n) = Some la -> modelled_config n = true ->
  optN_eqb (Some dnet) (a_net la) = false -> find_path n dnet = None ->
  let n' := fst (indication n (sub_addr dnet s) (sub_data s)) in
  parked_for n' dnet = parked_for n dnet ++ [sub_npdu dnet s] /\
  adapters n' = adapters n /\ rcache n' = rcache n /\ has_app n' = has_app n /\
  (pending_wf (pending n) -> pending_wf (pending n')).
Proof.
  intros n la dnet s Hla Hm Hne Hfp n'. unfold n', indication. rewrite Hla, Hm. cbn [negb].
  destruct s as [m d|d]; cbn [sub_addr sub_data sub_npdu]; rewrite Hne, Hfp;
    unfold parked_for; destruct (pending_get (pending n) dnet) as [l|] eqn:Eg; cbn [fst pending set_pending adapters rcache has_app];
    rewrite pending_get_add_same, Eg; repeat split; try reflexivity; intros; apply pending_add_wf; assumption.
Qed.

Definition submit_all (n : node) (dnet : N) (subs : list sub) : node :=
  fold_left (fun n s => fst (indication n (sub_addr dnet s) (sub_data s))) subs n.

Lemma same_config : forall n n', adapters n' = adapters n -> rcache n' = rcache n ->
  local_idx n' = local_idx n /\ (forall i, nth_adapter n' i = nth_adapter n i) /\
  modelled_config n' = modelled_config n /\ (forall d, find_path n' d = find_path n d) /\
  is_router n' = is_router n /\ (forall i, other_ports n' i = other_ports n i).
Proof.
  intros n n' Ha Hc. unfold local_idx, nth_adapter, modelled_config, find_path, is_router, other_ports.
  rewrite Ha, Hc. repeat split; reflexivity.
Qed.

Lemma submit_all_parks : forall subs n la dnet,
  nth_adapter n (local_idx n) = Some la -> modelled_config n = true ->
  optN_eqb (Some dnet) (a_net la) = false -> find_path n dnet = None ->
  parked_for (submit_all n dnet subs) dnet = parked_for n dnet ++ map (sub_npdu dnet) subs /\
  adapters (submit_all n dnet subs) = adapters n /\ rcache (submit_all n dnet subs) = rcache n /\
  (pending_wf (pending n) -> pending_wf (pending (submit_all n dnet subs))).
Proof.
  induction subs as [|s r IH]; intros n la dnet Hla Hm Hne Hfp; cbn [submit_all fold_left map].
  - rewrite app_nil_r. repeat split; auto.
  - destruct (indication_parks n la dnet s Hla Hm Hne Hfp) as (P1 & P2 & P3 & P4 & P5).
    set (n1 := fst (indication n (sub_addr dnet s) (sub_data s))) in *.
    destruct (same_config n n1 P2 P3) as (C1 & C2 & C3 & C4 & _).
    destruct (IH n1 la dnet) as (Q1 & Q2 & Q3 & Q4).
    + rewrite C1, C2. exact Hla.
    + rewrite C3. exact Hm.
    + exact Hne.
    + rewrite C4. exact Hfp.
    + fold (submit_all n1 dnet r). rewrite Q1, P1, <- app_assoc. cbn [app].
      repeat split; [congruence|congruence|auto].
Qed.

(* A node that knows no path to network dnet is handed a burst of packets for it (unicasts and remote broadcasts):
   the first starts the discovery, all are parked.  When the I-Am-Router-To-Network for dnet arrives from router
   `src` on adapter i, what the node transmits is: the relays (if it is a router), then every parked packet — those
   parked before, then the burst in submission order — each exactly once, to that router, and each with exactly the
   DADR the application asked for (sub_npdu: DStation dnet m for a unicast, DBcast dnet for a remote broadcast), hop
   count 255, no SADR, payload unchanged.  Nothing remains parked for dnet. *)
Theorem burst_released_once_with_dadr : forall n la dnet s0 subs i ai src dst n'' acts,
  nth_adapter n (local_idx n) = Some la -> modelled_config n = true ->
  optN_eqb (Some dnet) (a_net la) = false -> find_path n dnet = None ->
  dnet < 65536 -> pending_wf (pending n) -> nth_adapter n i = Some ai ->
  process_npdu (submit_all n dnet (s0 :: subs)) i src dst (i_am [dnet]) = (n'', acts) ->
  acts = (if is_router n then map (fun j => Tx j LBcast (i_am [dnet])) (other_ports n i) else [])
         ++ map (fun q => Tx i (LStation src) q) (parked_for n dnet ++ map (sub_npdu dnet) (s0 :: subs))
  /\ pending_get (pending n'') dnet = None /\ pending_wf (pending n'').
Proof.
  intros n la dnet s0 subs i ai src dst n'' acts Hla Hm Hne Hfp Hd Hwf Hi H.
  destruct (submit_all_parks (s0 :: subs) n la dnet Hla Hm Hne Hfp) as (Q1 & Q2 & Q3 & Q4).
  set (n1 := submit_all n dnet (s0 :: subs)) in *.
  destruct (same_config n n1 Q2 Q3) as (C1 & C2 & C3 & C4 & C5 & C6).
  assert (Hg : pending_get (pending n1) dnet = Some (parked_for n dnet ++ map (sub_npdu dnet) (s0 :: subs))).
  { unfold parked_for in Q1 at 1. destruct (pending_get (pending n1) dnet) as [l|] eqn:E; [congruence|].
    cbn [map] in Q1. destruct (parked_for n dnet); discriminate. }
  assert (Hi1 : nth_adapter n1 i = Some ai) by (rewrite C2; exact Hi).
  assert (Hm1 : modelled_config n1 = true) by (rewrite C3; exact Hm).
  destruct (i_am_releases_parked n1 i ai src dst dnet _ n'' acts Hi1 Hm1 Hd (Q4 Hwf) Hg H) as (A1 & A2 & A3).
  rewrite C5, C6 in A1. auto.
Qed.
