(* Apci.v — model of the APDU fixed header codec: apdu.APCI.encode / APCI.decode
   (py34/bacpypes/apdu.py:175-322) as reached through APDU.encode / APDU.decode (apdu.py:370-381),
   plus an independent transcription of the bit layout of clause 20.1 (spec20_1) over a typed
   header.  No proofs here (ApciFacts.v, ApciRound.v). *)
From Bac Require Export Base.
Open Scope Z_scope.

(* APCI.__init__ (apdu.py:122-138): thirteen attributes, every one None until set.  Flags are
   None/True/False, numeric attributes None or a Python int (unbounded, possibly negative). *)
Record apci : Set := mkApci {
  aType : option Z;
  aSeg : option bool; aMor : option bool; aSA : option bool; aSrv : option bool; aNak : option bool;
  aSeq : option Z; aWin : option Z; aMaxSegs : option Z; aMaxResp : option Z;
  aService : option Z; aInvokeID : option Z; aReason : option Z }.

Definition apci_none : apci :=
  mkApci None None None None None None None None None None None None None.

(* `if self.apduSeg:` — None is falsy *)
Definition truthy (o : option bool) : bool := match o with Some b => b | None => false end.

(* pdu.put(n): bytes([n]) — TypeError for None, ValueError outside range(256) *)
Definition putz (z : Z) : res (list N) :=
  if (0 <=? z) && (z <? 256) then Ok [Z.to_N z] else Err ValueErr.
Definition put_field (o : option Z) : res (list N) :=
  match o with None => Err TypeErr | Some z => putz z end.
Definition flag (o : option bool) (mask : Z) : Z := if truthy o then mask else 0.

(* APCI.encode: one branch per PDU type, octets in the order the code puts them *)
Definition enc_apci (a : apci) : res (list N) :=
  match aType a with
  | Some 0 =>                                                     (* ConfirmedRequestPDU *)
      do b0 <- putz (Z.shiftl 0 4 + flag (aSeg a) 8 + flag (aMor a) 4 + flag (aSA a) 2);
      do b1 <- match aMaxSegs a, aMaxResp a with
               | Some ms, Some mr => putz (Z.shiftl ms 4 + mr)
               | _, _ => Err TypeErr end;
      do b2 <- put_field (aInvokeID a);
      do sw <- (if truthy (aSeg a)
                then do s <- put_field (aSeq a); do w <- put_field (aWin a); Ok (s ++ w)
                else Ok []);
      do b3 <- put_field (aService a);
      Ok (b0 ++ b1 ++ b2 ++ sw ++ b3)
  | Some 1 =>                                                     (* UnconfirmedRequestPDU *)
      do b0 <- putz (Z.shiftl 1 4);
      do b1 <- put_field (aService a);
      Ok (b0 ++ b1)
  | Some 2 =>                                                     (* SimpleAckPDU *)
      do b0 <- putz (Z.shiftl 2 4);
      do b1 <- put_field (aInvokeID a);
      do b2 <- put_field (aService a);
      Ok (b0 ++ b1 ++ b2)
  | Some 3 =>                                                     (* ComplexAckPDU *)
      do b0 <- putz (Z.shiftl 3 4 + flag (aSeg a) 8 + flag (aMor a) 4);
      do b1 <- put_field (aInvokeID a);
      do sw <- (if truthy (aSeg a)
                then do s <- put_field (aSeq a); do w <- put_field (aWin a); Ok (s ++ w)
                else Ok []);
      do b2 <- put_field (aService a);
      Ok (b0 ++ b1 ++ sw ++ b2)
  | Some 4 =>                                                     (* SegmentAckPDU *)
      do b0 <- putz (Z.shiftl 4 4 + flag (aNak a) 2 + flag (aSrv a) 1);
      do b1 <- put_field (aInvokeID a);
      do b2 <- put_field (aSeq a);
      do b3 <- put_field (aWin a);
      Ok (b0 ++ b1 ++ b2 ++ b3)
  | Some 5 =>                                                     (* ErrorPDU *)
      do b0 <- putz (Z.shiftl 5 4);
      do b1 <- put_field (aInvokeID a);
      do b2 <- put_field (aService a);
      Ok (b0 ++ b1 ++ b2)
  | Some 6 =>                                                     (* RejectPDU *)
      do b0 <- putz (Z.shiftl 6 4);
      do b1 <- put_field (aInvokeID a);
      do b2 <- put_field (aReason a);
      Ok (b0 ++ b1 ++ b2)
  | Some 7 =>                                                     (* AbortPDU *)
      do b0 <- putz (Z.shiftl 7 4 + flag (aSrv a) 1);
      do b1 <- put_field (aInvokeID a);
      do b2 <- put_field (aReason a);
      Ok (b0 ++ b1 ++ b2)
  | _ => Err ValueErr                                             (* "invalid APCI.apduType" *)
  end.

(* APDU.encode: header, then pdu.put_data(self.pduData) *)
Definition enc_apdu (a : apci) (payload : list N) : res (list N) :=
  do h <- enc_apci a; Ok (h ++ payload).

(* APCI.decode followed by APDU.decode's `self.pduData = pdu.get_data(len(pdu.pduData))`:
   the header and whatever octets follow it *)
Definition getz (bs : list N) : res (option Z * list N) :=
  match get bs with Ok (b, r) => Ok (Some (Z.of_N b), r) | Err e => Err e end.
Definition bit (buff mask : N) : option bool := Some (negb (N.land buff mask =? 0)%N).

Definition dec_apci (bs : list N) : res (apci * list N) :=
  do (buff, r) <- get bs;
  let ty := N.land (N.shiftr buff 4) 15 in
  let a0 := mkApci (Some (Z.of_N ty)) None None None None None None None None None None None None in
  if (ty =? 0)%N then
    let seg := bit buff 8 in
    do (b1, r1) <- get r;
    let ms := Some (Z.of_N (N.land (N.shiftr b1 4) 7)) in
    let mr := Some (Z.of_N (N.land b1 15)) in
    do (inv, r2) <- getz r1;
    do (sw, r3) <- (if truthy seg
                    then do (s, q) <- getz r2; do (w, q2) <- getz q; Ok ((s, w), q2)
                    else Ok ((None, None), r2));
    do (svc, r4) <- getz r3;
    Ok (mkApci (Some 0) seg (bit buff 4) (bit buff 2) None None (fst sw) (snd sw) ms mr svc inv None, r4)
  else if (ty =? 1)%N then
    do (svc, r1) <- getz r;
    Ok (mkApci (Some 1) None None None None None None None None None svc None None, r1)
  else if (ty =? 2)%N then
    do (inv, r1) <- getz r;
    do (svc, r2) <- getz r1;
    Ok (mkApci (Some 2) None None None None None None None None None svc inv None, r2)
  else if (ty =? 3)%N then
    let seg := bit buff 8 in
    do (inv, r1) <- getz r;
    do (sw, r2) <- (if truthy seg
                    then do (s, q) <- getz r1; do (w, q2) <- getz q; Ok ((s, w), q2)
                    else Ok ((None, None), r1));
    do (svc, r3) <- getz r2;
    Ok (mkApci (Some 3) seg (bit buff 4) None None None (fst sw) (snd sw) None None svc inv None, r3)
  else if (ty =? 4)%N then
    do (inv, r1) <- getz r;
    do (s, r2) <- getz r1;
    do (w, r3) <- getz r2;
    Ok (mkApci (Some 4) None None None (bit buff 1) (bit buff 2) s w None None None inv None, r3)
  else if (ty =? 5)%N then
    do (inv, r1) <- getz r;
    do (svc, r2) <- getz r1;
    Ok (mkApci (Some 5) None None None None None None None None None svc inv None, r2)
  else if (ty =? 6)%N then
    do (inv, r1) <- getz r;
    do (rsn, r2) <- getz r1;
    Ok (mkApci (Some 6) None None None None None None None None None None inv rsn, r2)
  else if (ty =? 7)%N then
    do (inv, r1) <- getz r;
    do (rsn, r2) <- getz r1;
    Ok (mkApci (Some 7) None None None (bit buff 1) None None None None None None inv rsn, r2)
  else Err DecodingError.                                         (* "invalid APDU type" *)

(* ---- clause 20.1, transcribed independently over a typed header: the PDU type in the high
   nibble of the first octet; SEG / MOR / SA at 08 / 04 / 02; NAK / SRV at 02 / 01; the second
   octet of a confirmed request is 0 max-segs(3) max-resp(4); then invoke ID, [sequence number,
   proposed window size when SEG], service choice / reason. *)
Inductive hdr : Set :=
| ConfirmedRequest (seg mor sa : bool) (maxsegs maxresp invoke seq win service : N)
| UnconfirmedRequest (service : N)
| SimpleAck (invoke service : N)
| ComplexAck (seg mor : bool) (invoke seq win service : N)
| SegmentAck (nak srv : bool) (invoke seq win : N)
| ErrorHdr (invoke service : N)
| Reject (invoke reason : N)
| Abort (srv : bool) (invoke reason : N).

Definition b2n (b : bool) : N := if b then 1%N else 0%N.
Definition octet (n : N) : bool := (n <? 256)%N.

(* every field within the width clause 20.1 gives it *)
Definition wf_hdr (h : hdr) : bool :=
  match h with
  | ConfirmedRequest _ _ _ ms mr inv sq wn svc =>
      (ms <? 8)%N && (mr <? 16)%N && octet inv && octet sq && octet wn && octet svc
  | UnconfirmedRequest svc => octet svc
  | SimpleAck inv svc | ErrorHdr inv svc => octet inv && octet svc
  | ComplexAck _ _ inv sq wn svc => octet inv && octet sq && octet wn && octet svc
  | SegmentAck _ _ inv sq wn => octet inv && octet sq && octet wn
  | Reject inv rsn | Abort _ inv rsn => octet inv && octet rsn
  end.

Definition spec20_1 (h : hdr) : list N :=
  (match h with
   | ConfirmedRequest seg mor sa ms mr inv sq wn svc =>
       [16 * 0 + 8 * b2n seg + 4 * b2n mor + 2 * b2n sa; 16 * ms + mr; inv]
       ++ (if seg then [sq; wn] else []) ++ [svc]
   | UnconfirmedRequest svc => [16 * 1; svc]
   | SimpleAck inv svc => [16 * 2; inv; svc]
   | ComplexAck seg mor inv sq wn svc =>
       [16 * 3 + 8 * b2n seg + 4 * b2n mor; inv] ++ (if seg then [sq; wn] else []) ++ [svc]
   | SegmentAck nak srv inv sq wn => [16 * 4 + 2 * b2n nak + b2n srv; inv; sq; wn]
   | ErrorHdr inv svc => [16 * 5; inv; svc]
   | Reject inv rsn => [16 * 6; inv; rsn]
   | Abort srv inv rsn => [16 * 7 + b2n srv; inv; rsn]
   end)%N.

(* the attribute set a typed header stands for: exactly the attributes its PDU type carries,
   everything else None (sequence number / window size only on a segmented PDU) *)
Definition zo (n : N) : option Z := Some (Z.of_N n).
Definition to_apci (h : hdr) : apci :=
  match h with
  | ConfirmedRequest seg mor sa ms mr inv sq wn svc =>
      mkApci (Some 0) (Some seg) (Some mor) (Some sa) None None
             (if seg then zo sq else None) (if seg then zo wn else None)
             (zo ms) (zo mr) (zo svc) (zo inv) None
  | UnconfirmedRequest svc =>
      mkApci (Some 1) None None None None None None None None None (zo svc) None None
  | SimpleAck inv svc =>
      mkApci (Some 2) None None None None None None None None None (zo svc) (zo inv) None
  | ComplexAck seg mor inv sq wn svc =>
      mkApci (Some 3) (Some seg) (Some mor) None None None
             (if seg then zo sq else None) (if seg then zo wn else None)
             None None (zo svc) (zo inv) None
  | SegmentAck nak srv inv sq wn =>
      mkApci (Some 4) None None None (Some srv) (Some nak) (zo sq) (zo wn) None None None (zo inv) None
  | ErrorHdr inv svc =>
      mkApci (Some 5) None None None None None None None None None (zo svc) (zo inv) None
  | Reject inv rsn =>
      mkApci (Some 6) None None None None None None None None None None (zo inv) (zo rsn)
  | Abort srv inv rsn =>
      mkApci (Some 7) None None None (Some srv) None None None None None None (zo inv) (zo rsn)
  end.

(* the same attributes with the sequence number / window size set although the PDU is not
   segmented (the encoder must ignore them) *)
Definition with_seq_win (a : apci) (sq wn : option Z) : apci :=
  mkApci (aType a) (aSeg a) (aMor a) (aSA a) (aSrv a) (aNak a) sq wn (aMaxSegs a) (aMaxResp a)
         (aService a) (aInvokeID a) (aReason a).

(* ---- canonical outputs for the correspondence check *)
Definition cres {A} (f : A -> list Z) (r : res A) : list Z :=
  match r with Ok a => 0 :: f a | Err e => [1; err_code e] end.
Definition c_oz (o : option Z) : Z := match o with Some z => z | None => -1 end.
Definition c_ob (o : option bool) : Z := match o with Some b => zb b | None => -1 end.
Definition canon_apci (a : apci) : list Z :=
  [c_oz (aType a); c_ob (aSeg a); c_ob (aMor a); c_ob (aSA a); c_ob (aSrv a); c_ob (aNak a);
   c_oz (aSeq a); c_oz (aWin a); c_oz (aMaxSegs a); c_oz (aMaxResp a); c_oz (aService a);
   c_oz (aInvokeID a); c_oz (aReason a)].
Definition canon_enc (r : res (list N)) : list Z := cres zs r.
Definition canon_dec (r : res (apci * list N)) : list Z :=
  cres (fun p => canon_apci (fst p) ++ zlen (snd p) :: zs (snd p)) r.
Definition canon_tbl_enc (r : res Z) : list Z := cres (fun z => [z]) r.
Definition canon_tbl_dec (r : res (option Z)) : list Z :=
  cres (fun o => match o with None => [0] | Some z => [1; z] end) r.
