(* CovRun.v — run-level consequences of CovFacts.step_facts: the statements C16.v exports. *)
From Coq Require Import ZifyBool ZifyN ZifyNat.
From Bac Require Import Base Cov CovFacts.
Ltac Zify.zify_post_hook ::= Z.to_euclidean_division_equations.
Open Scope Z_scope.

Lemma key_dec : forall a b : Z * Z * Z, {a = b} + {a <> b}.
Proof. decide equality; try apply Z.eq_dec. decide equality; apply Z.eq_dec. Qed.

Lemma init_inv : forall os, NoDup (oids os) -> inv (init os).
Proof. intros os H. unfold inv, init. cbn. repeat split; [constructor|exact H|constructor]. Qed.

Lemma run_inv : forall es s, inv s -> Forall wf_ev es -> inv (fst (run s es)).
Proof.
  induction es as [|e r IH]; intros s Hi Hw; [exact Hi|]. cbn. inversion Hw; subst.
  destruct (step s e) as [s1 o] eqn:S. destruct (step_facts _ _ _ _ Hi H1 S) as [Hi1 _].
  specialize (IH s1 Hi1 H2). destruct (run s1 r) as [s2 os]. exact IH.
Qed.

Theorem table_nodup : forall os es, NoDup (oids os) -> Forall wf_ev es ->
  NoDup (keys (subs (fst (run (init os) es)))).
Proof. intros os es Ho Hw. apply (run_inv es (init os) (init_inv os Ho) Hw). Qed.

(* a key that is not in the table gets nothing until somebody subscribes it *)
Theorem absent_no_ntf : forall es s k, inv s -> Forall wf_ev es -> ~ In k (keys (subs s)) ->
  Forall (fun e => ~ is_subscribe_of k e) es ->
  forall n, In n (all_ntfs (snd (run s es))) -> nkey n <> k.
Proof.
  induction es as [|e r IH]; intros s k Hi Hw Hk Hns n Hn; [destruct Hn|]. cbn in Hn.
  inversion Hw; subst. inversion Hns; subst.
  destruct (step s e) as [s1 o] eqn:S. destruct (step_facts _ _ _ _ Hi H1 S) as [Hi1 [_ [Hincl Hntf]]].
  specialize (IH s1 k Hi1 H2). destruct (run s1 r) as [s2 os]. cbn in *. apply in_app_or in Hn as [Hn|Hn].
  - destruct (Hntf n Hn) as [x [tau [Hx [_ [[Hkey _] _]]]]]. rewrite Hkey. intro E. destruct Hx as [Hx|[_ Hx]].
    + apply Hk. rewrite <- E. apply in_map. exact Hx.
    + rewrite E in Hx. contradiction.
  - apply IH; auto. intro Hin. apply in_map_iff in Hin as [x' [Hkx Hx']]. destruct (Hincl x' Hx') as [Hin|Hs].
    + apply Hk. rewrite <- Hkx. apply in_map. exact Hin.
    + rewrite Hkx in Hs. contradiction.
Qed.

Definition is_cancel_of (k : Z * Z * Z) (e : ev) : Prop :=
  match e with Cancel c p o => k = (c, p, o) | CancelNow c p o => k = (c, p, o) | _ => False end.

Lemma cancel_removes : forall s e k s' out, inv s -> is_cancel_of k e -> step s e = (s', out) -> o_ack out = 1 ->
  inv s' /\ ~ In k (keys (subs s')).
Proof.
  intros s e k s' out Hi Hc S Hack. destruct e; try contradiction; cbn in Hc; subst k; cbn [step] in S.
  - destruct (drain s) as [s1 n1] eqn:D1. destruct (drain_facts _ _ _ Hi D1) as [A1 _].
    destruct (cancel_now s1 c p o) as [[s2 ok] code] eqn:CN.
    destruct (cancel_now_facts _ _ _ _ _ _ _ A1 CN) as [A2 [_ [_ [Hgone _]]]].
    destruct (drain s2) as [s3 n3] eqn:D3. destruct (drain_facts _ _ _ A2 D3) as [A3 [_ [C3 _]]].
    inversion S; subst s' out. split; [exact A3|]. rewrite C3. apply Hgone.
    unfold req_out in Hack. destruct ok; [reflexivity|cbn in Hack; lia].
  - destruct (cancel_now s c p o) as [[s2 ok] code] eqn:CN.
    destruct (cancel_now_facts _ _ _ _ _ _ _ Hi CN) as [A2 [_ [_ [Hgone _]]]].
    inversion S; subst s' out. split; [exact A2|]. apply Hgone.
    unfold req_out in Hack. destruct ok; [reflexivity|cbn in Hack; lia].
Qed.

Theorem no_notify_after_cancel : forall s e k s' out es,
  inv s -> is_cancel_of k e -> step s e = (s', out) -> o_ack out = 1 ->
  Forall wf_ev es -> Forall (fun e => ~ is_subscribe_of k e) es ->
  forall n, In n (all_ntfs (snd (run s' es))) -> nkey n <> k.
Proof.
  intros s e k s' out es Hi Hc S Hack Hw Hns.
  destruct (cancel_removes _ _ _ _ _ Hi Hc S Hack) as [A' Hgone]. apply absent_no_ntf; auto.
Qed.

(* time remaining as a function of the expiry instant *)
Lemma trem_remaining : forall nw x, sub_live_le nw x ->
  trem nw x = match s_task x with Some (t, _) => remaining (s_life x) t nw | None => 0 end.
Proof.
  intros nw x H. unfold sub_live_le in H. unfold trem, remaining.
  destruct (s_task x) as [[t k]|]; [|rewrite H; reflexivity].
  destruct H as [H1 H2]. destruct (s_life x =? 0) eqn:E; [lia|]. unfold TICKS.
  destruct (Z.quot (t - nw) 8 =? 0) eqn:E2; lia.
Qed.

(* every notification goes to a table entry (or to the subscription just made), in its mode,
   not later than its expiry instant, with the time remaining computed from that instant *)
Theorem notification_content : forall s e s' out n,
  inv s -> wf_ev e -> step s e = (s', out) -> In n (o_ntfs out) ->
  exists x, (In x (subs s) \/ (In x (subs s') /\ is_subscribe_of (key x) e)) /\
    nkey n = key x /\ n_conf n = s_conf x /\ now s <= n_at n <= now s' /\
    match s_task x with
    | Some (t, _) => n_at n <= t /\ n_trem n = remaining (s_life x) t (n_at n) /\ 0 < s_life x
    | None => n_trem n = 0 /\ s_life x = 0
    end.
Proof.
  intros s e s' out n Hi Hw S Hn. destruct (step_facts _ _ _ _ Hi Hw S) as [_ [_ [_ Hntf]]].
  destruct (Hntf n Hn) as [x [tau [Hx [Ht [[Hk [Hc [Htr Hat]]] Hl]]]]]. exists x. rewrite Hat.
  split; [exact Hx|]. split; [exact Hk|]. split; [exact Hc|]. split; [exact Ht|].
  rewrite Htr, (trem_remaining _ _ Hl). unfold sub_live_le in Hl. destruct (s_task x) as [[t k]|]; [|auto].
  destruct Hl. auto.
Qed.

Theorem no_notify_after_expiry : forall es s x t k,
  inv s -> In x (subs s) -> s_task x = Some (t, k) -> Forall wf_ev es ->
  Forall (fun e => ~ is_subscribe_of (key x) e) es ->
  forall n, In n (all_ntfs (snd (run s es))) -> nkey n = key x ->
  n_at n <= t /\ n_trem n = remaining (s_life x) t (n_at n) /\ n_conf n = s_conf x.
Proof.
  induction es as [|e r IH]; intros s x t k Hi Hx Htask Hw Hns n Hn Hkey; [destruct Hn|]. cbn in Hn.
  inversion Hw; subst. inversion Hns; subst.
  destruct (step s e) as [s1 o] eqn:S. pose proof (step_facts _ _ _ _ Hi H1 S) as [Hi1 [_ [Hincl _]]].
  pose proof (notification_content s e s1 o) as NC.
  pose proof (absent_no_ntf r s1 (key x) Hi1 H2) as AB. specialize (IH s1 x t k Hi1).
  destruct (run s1 r) as [s2 os]. cbn in *. pose proof Hi as [Hnd _]. apply in_app_or in Hn as [Hn|Hn].
  - destruct (NC n) as [x0 [Hx0 [Hk0 [Hc0 [_ Hm]]]]]; auto.
    assert (x0 = x).
    { destruct Hx0 as [Hx0|[_ Hs]]; [|rewrite <- Hk0, Hkey in Hs; contradiction].
      apply (NoDup_key_eq (subs s)); auto. congruence. }
    subst x0. rewrite Htask in Hm. destruct Hm as [M1 [M2 _]]. auto.
  - destruct (in_dec key_dec (key x) (keys (subs s1))) as [Hin|Hout].
    + apply in_map_iff in Hin as [x' [Hkx Hx']]. assert (x' = x).
      { destruct (Hincl x' Hx') as [Hin|Hs]; [|rewrite Hkx in Hs; contradiction]. apply (NoDup_key_eq (subs s)); auto. }
      subst x'. apply IH; auto.
    + exfalso. apply (AB Hout H4 n Hn). exact Hkey.
Qed.

(* ------------------------------------------------------------------ the deferred functions, one at a time *)
Lemma find_obj_upd : forall o ob2 os ob, find_obj o os = Some ob -> oid ob2 = o ->
  find_obj o (upd_obj o (fun _ => ob2) os) = Some ob2.
Proof.
  intros o ob2. induction os as [|a r IH]; intros ob F Ho; [discriminate|]. unfold find_obj in *. cbn in *.
  destruct (oid a =? o) eqn:E; cbn.
  - rewrite Ho, Z.eqb_refl. reflexivity.
  - rewrite E. eapply IH; eauto.
Qed.

(* _execute of the live detection instance: every subscription of the object gets the current values once,
   nobody else anything; the trigger is cleared and the reported value remembered *)
Theorem execute_step : forall s o g r ob s' out, inv s -> queue s = DExec o g :: r ->
  find_obj o (objs s) = Some ob -> bound ob = true -> gen ob = g ->
  step s StepQ = (s', out) ->
  o_ntfs out = map (mk_ntf (now s) ob) (subs_of o (subs s)) /\
  NoDup (map nkey (o_ntfs out)) /\
  (forall x, In x (subs s) -> s_oid x = o -> In (mk_ntf (now s) ob x) (o_ntfs out)) /\
  (forall n, In n (o_ntfs out) -> n_oid n = o /\ n_pv n = pv ob /\ n_fl n = fl ob) /\
  queue s' = r /\ subs s' = subs s /\
  exists ob', find_obj o (objs s') = Some ob' /\ trig ob' = false /\ pv ob' = pv ob /\
    (reports_prev (okind ob) = true -> prev ob' = Some (pv ob)).
Proof.
  intros s o g r ob s' out [Hnd _] Q F Hb Hg S. cbn [step] in S. rewrite Q in S. cbn [run_dfn] in S.
  cbn [objs set_queue] in S. rewrite F, Hb, Hg, Z.eqb_refl in S. cbn in S. inversion S; subst s' out; clear S.
  cbn [o_ntfs queue subs objs set_objs set_queue now]. split; [reflexivity|]. split.
  { rewrite map_map. unfold subs_of. cbn. apply (NoDup_map_filter key). exact Hnd. }
  split. { intros x Hx Ho. apply in_map. unfold subs_of. apply filter_In. split; [exact Hx|]. apply Z.eqb_eq. exact Ho. }
  split. { intros n Hn. apply in_map_iff in Hn as [x [<- Hx]]. unfold subs_of in Hx. apply filter_In in Hx as [_ Ho].
           apply Z.eqb_eq in Ho. cbn. auto. }
  split; [reflexivity|]. split; [reflexivity|].
  exists (set_trig (report ob) false). split.
  { apply (find_obj_upd o _ _ ob F). cbn. rewrite oid_report. apply find_obj_some in F. tauto. }
  unfold report. destruct (reports_prev (okind ob)); cbn; auto. split; [reflexivity|]. split; [reflexivity|discriminate].
Qed.

(* _execute of a detection instance that has been unbound meanwhile reaches nobody *)
Theorem stale_execute_step : forall s o g r s' out, queue s = DExec o g :: r ->
  (forall ob, find_obj o (objs s) = Some ob -> bound ob = false \/ gen ob <> g) ->
  step s StepQ = (s', out) -> o_ntfs out = [] /\ s' = set_queue s r.
Proof.
  intros s o g r s' out Q H S. cbn [step] in S. rewrite Q in S. cbn [run_dfn] in S. cbn [objs set_queue] in S.
  destruct (find_obj o (objs s)) as [ob|] eqn:F; [|inversion S; auto].
  destruct (H ob eq_refl) as [Hb|Hg].
  - rewrite Hb in S. cbn in S. inversion S; auto.
  - apply Z.eqb_neq in Hg. rewrite Hg, andb_false_r in S. inversion S; auto.
Qed.

(* the deferred initial notification: to that Subscription object if it is still in the table, else nothing *)
Theorem initial_step : forall s i r s' out, queue s = DInit i :: r -> step s StepQ = (s', out) ->
  match find_id i (subs s) with
  | Some x => forall ob, find_obj (s_oid x) (objs s) = Some ob -> o_ntfs out = [mk_ntf (now s) ob x]
  | None => o_ntfs out = [] /\ s' = set_queue s r
  end.
Proof.
  intros s i r s' out Q S. cbn [step] in S. rewrite Q in S. cbn [run_dfn] in S. cbn [subs objs set_queue] in S.
  destruct (find_id i (subs s)) as [x|].
  - intros ob F. rewrite F in S. inversion S; reflexivity.
  - inversion S; auto.
Qed.

(* a write enqueues the execute exactly when it sets the trigger; a triggered object enqueues nothing more *)
Theorem write_enqueues : forall s i p v o s' out, nth_error (objs s) i = Some o -> has_prop (okind o) p = true ->
  step s (Write i p v) = (s', out) ->
  queue s' = (if negb (trig o) && trig (write_obj o p v) then queue s ++ [DExec (oid o) (gen o)] else queue s) /\
  (trig o = true -> queue s' = queue s) /\ o_ntfs out = [] /\ subs s' = subs s.
Proof.
  intros s i p v o s' out N Hp S. cbn [step] in S. unfold write_ev in S. rewrite N, Hp in S. inversion S; subst s' out.
  cbn. split; [reflexivity|]. split; [intro Ht; rewrite Ht; reflexivity|auto].
Qed.

(* ------------------------------------------------------------------ identities of Subscription objects *)
Definition idinv (s : st) : Prop := Forall (fun x => s_id x < ctr s) (subs s) /\ NoDup (map s_id (subs s)).

Lemma find_id_in : forall sb x, NoDup (map s_id sb) -> In x sb -> find_id (s_id x) sb = Some x.
Proof.
  induction sb as [|y r IH]; intros x Hnd Hin; [destruct Hin|]. cbn in Hnd. inversion Hnd as [|? ? Hn Hr]; subst.
  unfold find_id. cbn. destruct (s_id y =? s_id x) eqn:E.
  - apply Z.eqb_eq in E. destruct Hin as [->|Hin]; [reflexivity|]. exfalso. apply Hn. rewrite E. apply in_map. exact Hin.
  - destruct Hin as [->|Hin]; [rewrite Z.eqb_refl in E; discriminate|]. apply IH; assumption.
Qed.

Lemma idinv_weaken : forall sb c c', c <= c' -> Forall (fun x => s_id x < c) sb -> Forall (fun x : sub => s_id x < c') sb.
Proof. intros sb c c' H F. eapply Forall_impl; [|exact F]. cbn. intros. lia. Qed.

Lemma ids_replace : forall c p o nsub y sb, NoDup (keys sb) -> In y sb -> key y = (c, p, o) -> s_id nsub = s_id y ->
  map s_id (map (fun x => if key_eqb c p o x then nsub else x) sb) = map s_id sb.
Proof.
  intros c p o nsub y sb Hnd Hy Hk Hid. rewrite map_map. apply map_ext_in. intros x Hx.
  destruct (key_eqb c p o x) eqn:E; [|reflexivity]. apply key_eqb_iff in E.
  assert (x = y) by (apply (NoDup_key_eq sb); auto; congruence). subst. exact Hid.
Qed.

Lemma subscribe_now_id : forall s c p o cf life s' ok code, inv s -> idinv s ->
  subscribe_now s c p o cf life = (s', ok, code) -> idinv s' /\ ctr s <= ctr s'.
Proof.
  intros s c p o cf life s' ok code [Hk _] [Hlt Hnd] H. unfold subscribe_now in H.
  fold (life_of life) in H. set (lf := life_of life) in *.
  destruct (find_obj o (objs s)) as [ob|]; [|inversion H; subst; split; [split; auto|lia]].
  destruct (okind ob); try (inversion H; subst; split; [split; auto|lia]).
  all: destruct (find_sub c p o (subs s)) as [y|] eqn:FS; inversion H; subst s' ok code; clear H; unfold idinv; cbn [ctr subs].
  1,3,5: apply find_sub_some in FS as [Hy Hky];
         erewrite ids_replace; [|exact Hk|exact Hy|exact Hky|reflexivity];
         assert (Hc : ctr s <= (if lf =? 0 then ctr s else ctr s + 1)) by (destruct (lf =? 0); lia);
         split; [split; [|exact Hnd]|exact Hc];
         apply Forall_forall; intros x Hx; apply in_map_iff in Hx as [x0 [<- Hx0]]; rewrite Forall_forall in Hlt;
         destruct (key_eqb c p o x0); cbn [s_id]; [specialize (Hlt y Hy)|specialize (Hlt x0 Hx0)]; lia.
  all: match goal with |- _ /\ ?a <= ?c2 => assert (Hc : a + 1 <= c2)
         by (repeat match goal with |- context [if ?b then _ else _] => destruct b end; lia) end;
       split; [split|lia];
       [apply Forall_app; split; [eapply idinv_weaken; [|exact Hlt]; lia|constructor; [cbn [s_id]; lia|constructor]]
       |rewrite map_app; apply NoDup_snoc; [exact Hnd|cbn [map s_id]; intro Hin; apply in_map_iff in Hin as [x [Hx1 Hx2]];
          rewrite Forall_forall in Hlt; specialize (Hlt x Hx2); lia]].
Qed.

Lemma filter_idinv : forall (g : sub -> bool) sb c, Forall (fun x => s_id x < c) sb -> NoDup (map s_id sb) ->
  Forall (fun x => s_id x < c) (filter g sb) /\ NoDup (map s_id (filter g sb)).
Proof.
  intros g sb c F N. split; [|apply NoDup_map_filter; exact N].
  apply Forall_forall. intros x Hx. apply filter_In in Hx as [Hx _]. rewrite Forall_forall in F. auto.
Qed.

Lemma cancel_now_id : forall s c p o s' ok code, idinv s -> cancel_now s c p o = (s', ok, code) ->
  idinv s' /\ ctr s' = ctr s.
Proof.
  intros s c p o s' ok code [Hlt Hnd] H. unfold cancel_now in H.
  destruct (find_obj o (objs s)) as [ob|]; [|inversion H; subst; split; [split; auto|reflexivity]].
  destruct (okind ob); try (inversion H; subst; split; [split; auto|reflexivity]).
  all: destruct (find_sub c p o (subs s)); inversion H; subst s' ok code; unfold idinv; cbn [ctr subs drop_sub set_objs];
       split; try reflexivity; try (split; assumption); apply filter_idinv; assumption.
Qed.

Lemma fire_item_id : forall s it, idinv s -> idinv (fst (fire_item s it)) /\ ctr s <= ctr (fst (fire_item s it)).
Proof.
  intros s [k [c p o|o]] [Hlt Hnd]; cbn.
  - destruct (find_sub c p o (subs s)); cbn; [|split; [split; auto|lia]].
    destruct (task_eqb _ _ _); cbn; [|split; [split; auto|lia]]. unfold idinv. cbn. split; [apply filter_idinv; assumption|lia].
  - destruct (find_obj o (objs s)); cbn; [|split; [split; auto|lia]].
    destruct (task_eqb _ _ _); cbn; [|split; [split; auto|lia]]. unfold idinv. cbn. split; [split; [|exact Hnd]|lia].
    eapply idinv_weaken; [|exact Hlt]. lia.
Qed.

Lemma fire_items_id : forall its s, idinv s -> idinv (fst (fire_items its s)).
Proof.
  induction its as [|it r IH]; intros s H; [exact H|]. cbn. pose proof (fire_item_id s it H) as [A _].
  destruct (fire_item s it) as [s1 n1]. cbn in *. specialize (IH s1 A). destruct (fire_items r s1). exact IH.
Qed.

Lemma ticks_id : forall n s, idinv s -> idinv (fst (ticks n s)).
Proof.
  induction n as [|n IH]; intros s H; [exact H|]. cbn [ticks].
  assert (A : idinv (fst (tick s))) by (unfold tick; apply fire_items_id; exact H).
  destruct (tick s) as [s1 n1]. cbn in A. specialize (IH s1 A). destruct (ticks n s1). exact IH.
Qed.

Lemma drain_id : forall s s1 ns, idinv s -> drain s = (s1, ns) -> idinv s1 /\ ctr s1 = ctr s.
Proof.
  intros s s1 ns H D. unfold drain in D. apply run_queue_facts in D as [_ [B [C _]]]. unfold idinv. rewrite B, C. auto.
Qed.

Lemma step_id : forall s e s' out, inv s -> idinv s -> wf_ev e -> step s e = (s', out) -> idinv s'.
Proof.
  intros s e s' out Hi Hid Hwf S.
  destruct e as [i p v| |c p o cf life|c p o|t|c| |c p o cf life|c p o|c]; cbn [step] in S.
  - unfold write_ev in S. destruct (nth_error (objs s) i) as [ob|]; [destruct (has_prop (okind ob) p)|]; inversion S; subst; exact Hid.
  - destruct (drain s) as [s1 ns] eqn:D. inversion S; subst. apply (drain_id _ _ _ Hid D).
  - destruct (drain s) as [s1 n1] eqn:D1. destruct (drain_facts _ _ _ Hi D1) as [A1 _]. destruct (drain_id _ _ _ Hid D1) as [I1 _].
    destruct (subscribe_now s1 c p o cf life) as [[s2 ok] code] eqn:SN. destruct (subscribe_now_id _ _ _ _ _ _ _ _ _ A1 I1 SN) as [I2 _].
    destruct (drain s2) as [s3 n3] eqn:D3. inversion S; subst. apply (drain_id _ _ _ I2 D3).
  - destruct (drain s) as [s1 n1] eqn:D1. destruct (drain_id _ _ _ Hid D1) as [I1 _].
    destruct (cancel_now s1 c p o) as [[s2 ok] code] eqn:CN. destruct (cancel_now_id _ _ _ _ _ _ _ I1 CN) as [I2 _].
    destruct (drain s2) as [s3 n3] eqn:D3. inversion S; subst. apply (drain_id _ _ _ I2 D3).
  - destruct (drain s) as [s1 n1] eqn:D1. destruct (drain_id _ _ _ Hid D1) as [I1 _].
    pose proof (ticks_id (Z.to_nat t) s1 I1) as T. destruct (ticks (Z.to_nat t) s1) as [s2 n2]. inversion S; subst. exact T.
  - destruct (drain s) as [s1 ns] eqn:D. inversion S; subst. apply (drain_id _ _ _ Hid D).
  - destruct (queue s) as [|d r]; [inversion S; subst; exact Hid|].
    destruct (run_dfn (set_queue s r) d) as [s1 ns] eqn:R. inversion S; subst.
    apply run_dfn_facts in R as [_ [B [C _]]]. unfold idinv. rewrite B, C. exact Hid.
  - destruct (subscribe_now s c p o cf life) as [[s2 ok] code] eqn:SN. inversion S; subst.
    apply (subscribe_now_id _ _ _ _ _ _ _ _ _ Hi Hid SN).
  - destruct (cancel_now s c p o) as [[s2 ok] code] eqn:CN. inversion S; subst. apply (cancel_now_id _ _ _ _ _ _ _ Hid CN).
  - inversion S; subst; exact Hid.
Qed.

(* ------------------------------------------------------------------ subscribe: ack + initial notification *)
Lemma find_obj_upd_other : forall i o f os, i <> o -> (forall a, oid a = o -> oid (f a) = o) ->
  find_obj i (upd_obj o f os) = find_obj i os.
Proof.
  intros i o f os Hne Hf. induction os as [|a r IH]; [reflexivity|]. unfold find_obj in *. cbn.
  destruct (oid a =? o) eqn:E.
  - apply Z.eqb_eq in E. rewrite (Hf a E). rewrite E. assert (o =? i = false) by lia. rewrite H. exact IH.
  - destruct (oid a =? i); [reflexivity|exact IH].
Qed.

Definition same_vals (a b : obj) : Prop := pv a = pv b /\ fl a = fl b /\ okind a = okind b.

Lemma run_dfn_find : forall s d s1 ns i ob, run_dfn s d = (s1, ns) -> find_obj i (objs s) = Some ob ->
  exists ob', find_obj i (objs s1) = Some ob' /\ same_vals ob' ob.
Proof.
  intros s d s1 ns i ob H F.
  assert (Hsame : s1 = s -> exists ob', find_obj i (objs s1) = Some ob' /\ same_vals ob' ob).
  { intros ->. exists ob. unfold same_vals. auto. }
  assert (Hupd : forall o a g, find_obj o (objs s) = Some a -> same_vals (g a) a -> oid (g a) = o ->
            exists ob', find_obj i (upd_obj o (fun _ => g a) (objs s)) = Some ob' /\ same_vals ob' ob).
  { intros o a g Fa Hs Ho. destruct (Z.eq_dec i o) as [->|Hne].
    - rewrite (find_obj_upd o (g a) (objs s) a Fa Ho). exists (g a). split; [reflexivity|]. congruence.
    - rewrite find_obj_upd_other; auto. exists ob. unfold same_vals. auto. }
  destruct d as [o g|k]; cbn in H.
  - destruct (find_obj o (objs s)) as [a|] eqn:Fa; [|inversion H; auto].
    destruct (bound a && (gen a =? g)); inversion H; subst; auto. cbn.
    apply (Hupd o a (fun a => set_trig (report a) false) Fa).
    + unfold same_vals, report. destruct (reports_prev (okind a)); cbn; auto.
    + cbn. rewrite oid_report. apply find_obj_some in Fa. tauto.
  - destruct (find_id k (subs s)) as [x|]; [|inversion H; auto].
    destruct (find_obj (s_oid x) (objs s)) as [a|] eqn:Fa; inversion H; subst; auto. cbn.
    apply (Hupd (s_oid x) a report Fa).
    + unfold same_vals, report. destruct (reports_prev (okind a)); cbn; auto.
    + rewrite oid_report. apply find_obj_some in Fa. tauto.
Qed.

Lemma run_queue_find : forall q s s1 ns i ob, run_queue q s = (s1, ns) -> find_obj i (objs s) = Some ob ->
  exists ob', find_obj i (objs s1) = Some ob' /\ same_vals ob' ob.
Proof.
  induction q as [|d r IH]; intros s s1 ns i ob H F; cbn in H.
  - inversion H; subst. exists ob. unfold same_vals. auto.
  - destruct (run_dfn s d) as [sa na] eqn:E1. destruct (run_queue r sa) as [sb nb] eqn:E2. inversion H; subst.
    destruct (run_dfn_find _ _ _ _ _ _ E1 F) as [oa [Fa [A1 [A2 A3]]]].
    destruct (IH _ _ _ _ _ E2 Fa) as [ob' [Fb [B1 [B2 B3]]]]. exists ob'. unfold same_vals. split; [exact Fb|]. repeat split; congruence.
Qed.

Lemma subscribe_now_shape : forall s c p o cf life s' ok code ob,
  inv s -> find_obj o (objs s) = Some ob -> okind ob <> KNoCov -> 0 <= life_of life ->
  subscribe_now s c p o cf life = (s', ok, code) ->
  ok = true /\ now s' = now s /\ exists nsub ob2,
    In nsub (subs s') /\ key nsub = (c, p, o) /\ s_conf nsub = cf /\ s_life nsub = life_of life /\
    queue s' = queue s ++ [DInit (s_id nsub)] /\ find_obj o (objs s') = Some ob2 /\ pv ob2 = pv ob /\ fl ob2 = fl ob /\
    (life_of life = 0 -> s_task nsub = None) /\
    (0 < life_of life -> exists k, s_task nsub = Some (now s + life_of life * TICKS, k)).
Proof.
  intros s c p o cf life s' ok code ob Hi F HK Hlf H. unfold subscribe_now in H. rewrite F in H.
  fold (life_of life) in H. set (lf := life_of life) in *.
  pose proof (find_obj_some _ _ _ F) as [_ Foid].
  assert (Hb : pv (bind_obj ob) = pv ob /\ fl (bind_obj ob) = fl ob /\ oid (bind_obj ob) = o).
  { unfold bind_obj. destruct (bound ob); cbn; auto. }
  destruct Hb as [Hb1 [Hb2 Hb3]].
  destruct (okind ob) eqn:K; try contradiction.
  all: destruct (find_sub c p o (subs s)) as [y|] eqn:FS; inversion H; subst s' ok code; clear H; cbn [now subs objs queue].
  all: split; [reflexivity|]; split; [reflexivity|].
  1,3,5: apply find_sub_some in FS as [Hy Hky];
         eexists; exists (bind_obj ob); split;
         [apply in_map_iff; exists y; split; [apply key_eqb_iff in Hky; rewrite Hky; reflexivity|exact Hy]|];
         cbn [key s_cli s_proc s_oid s_conf s_life s_task s_id];
         split; [reflexivity|]; split; [reflexivity|]; split; [reflexivity|]; split; [reflexivity|];
         split; [apply (find_obj_upd o _ _ ob F); exact Hb3|]; split; [exact Hb1|]; split; [exact Hb2|];
         split; [intro E; rewrite E; reflexivity|intro E; destruct (lf =? 0) eqn:E0; [lia|eauto]].
  all: eexists; eexists; split; [apply in_or_app; right; left; reflexivity|];
       cbn [key s_cli s_proc s_oid s_conf s_life s_task s_id];
       split; [reflexivity|]; split; [reflexivity|]; split; [reflexivity|]; split; [reflexivity|];
       split; [apply (find_obj_upd o _ _ ob F); repeat match goal with |- context [if ?b then _ else _] => destruct b end; cbn; exact Hb3|];
       split; [repeat match goal with |- context [if ?b then _ else _] => destruct b end; cbn; exact Hb1|];
       split; [repeat match goal with |- context [if ?b then _ else _] => destruct b end; cbn; exact Hb2|];
       split; [intro E; destruct (0 <? lf) eqn:E0; [lia|reflexivity]|intro E; destruct (0 <? lf) eqn:E0; [eauto|lia]].
Qed.

Theorem subscribe_initial : forall s c p o cf life s' out ob,
  inv s -> idinv s -> wf_ev (Subscribe c p o cf life) -> step s (Subscribe c p o cf life) = (s', out) ->
  find_obj o (objs s) = Some ob -> okind ob <> KNoCov ->
  o_ack out = 1 /\
  In (mkNtf c p o cf (life_of life) (pv ob) (fl ob) (now s)) (o_ntfs out) /\
  queue s' = [] /\
  exists x, find_sub c p o (subs s') = Some x /\ s_conf x = cf /\ s_life x = life_of life /\
    (life_of life = 0 -> s_task x = None) /\
    (0 < life_of life -> exists k, s_task x = Some (now s + life_of life * TICKS, k)).
Proof.
  intros s c p o cf life s' out ob Hi Hid Hwf S F HK. cbn [step] in S.
  assert (Hlf : 0 <= life_of life) by (destruct life; cbn in *; lia).
  destruct (drain s) as [s1 n1] eqn:D1. destruct (drain_facts _ _ _ Hi D1) as [A1 [B1 [C1 [Q1 _]]]].
  destruct (drain_id _ _ _ Hid D1) as [I1 _].
  unfold drain in D1. destruct (run_queue_find _ _ _ _ _ _ D1 F) as [ob1 [F1 [V1 [V2 V3]]]].
  destruct (subscribe_now s1 c p o cf life) as [[s2 ok] code] eqn:SN.
  assert (HK1 : okind ob1 <> KNoCov) by congruence.
  destruct (subscribe_now_shape _ _ _ _ _ _ _ _ _ _ A1 F1 HK1 Hlf SN)
    as [Hok [B2 [nsub [ob2 [Hin [Hkey [Hcf [Hlife [Hq [F2 [P1 [P2 [T1 T2]]]]]]]]]]]]].
  destruct (subscribe_now_facts _ _ _ _ _ _ _ _ _ A1 Hlf SN) as [A2 _].
  destruct (subscribe_now_id _ _ _ _ _ _ _ _ _ A1 I1 SN) as [[_ Hnd2] _].
  destruct (drain s2) as [s3 n3] eqn:D3. destruct (drain_facts _ _ _ A2 D3) as [A3 [B3 [C3 [Q3 _]]]].
  inversion S; subst s' out; clear S. subst ok. cbn [req_out o_ack o_ntfs ack_out].
  split; [reflexivity|]. split.
  - apply in_or_app. right. unfold drain in D3. rewrite Hq, Q1 in D3. cbn [app run_queue run_dfn] in D3.
    cbn [subs objs set_queue] in D3. rewrite (find_id_in _ _ Hnd2 Hin) in D3.
    assert (Ho : s_oid nsub = o) by (unfold key in Hkey; congruence). rewrite Ho, F2 in D3. inversion D3 as [[E3 E4]].
    left. unfold mk_ntf. unfold key in Hkey. inversion Hkey as [[K1 K2 K3]]. rewrite Hcf, P1, P2, V1, V2. f_equal; try congruence.
    unfold trem. rewrite Hlife. destruct (life_of life =? 0) eqn:E0; [lia|].
    destruct (T2 ltac:(lia)) as [k ->]. rewrite B2, B1. unfold TICKS.
    replace (now s + life_of life * 8 - now s) with (life_of life * 8) by lia. rewrite Z.quot_mul by lia. rewrite E0. reflexivity.
  - split; [exact Q3|]. exists nsub. rewrite C3. unfold key in Hkey. inversion Hkey as [[K1 K2 K3]].
    split; [try (rewrite <- K1, <- K2, <- K3); apply find_sub_in; [apply A2|exact Hin]|]. rewrite B1 in *. auto.
Qed.

(* ------------------------------------------------------------------ the active-subscriptions list *)
Lemma akey_mk_act : forall nw os x, akey (mk_act nw os x) = key x /\ a_conf (mk_act nw os x) = s_conf x
  /\ a_trem (mk_act nw os x) = trem nw x.
Proof.
  intros. unfold mk_act. destruct (find_obj (s_oid x) os) as [o|]; [destruct (okind o)|]; cbn; auto.
Qed.

Theorem active_list_exact : forall s c s' out, inv s -> (step s (ReadActive c) = (s', out) \/ step s (ReadNow c) = (s', out)) ->
  exists l, o_act out = Some l /\ map akey l = keys (subs s) /\ NoDup (map akey l) /\
    forall a, In a l -> exists x, In x (subs s) /\ akey a = key x /\ a_conf a = s_conf x /\
      match s_task x with
      | Some (t, _) => now s < t /\ a_trem a = remaining (s_life x) t (now s)
      | None => a_trem a = 0 /\ s_life x = 0
      end.
Proof.
  intros s c s' out Hi S.
  assert (G : forall os, exists l, Some (map (mk_act (now s) os) (subs s)) = Some l /\ map akey l = keys (subs s) /\ NoDup (map akey l) /\
    forall a, In a l -> exists x, In x (subs s) /\ akey a = key x /\ a_conf a = s_conf x /\
      match s_task x with
      | Some (t, _) => now s < t /\ a_trem a = remaining (s_life x) t (now s)
      | None => a_trem a = 0 /\ s_life x = 0
      end).
  { intro os. eexists. split; [reflexivity|].
    assert (E : map akey (map (mk_act (now s) os) (subs s)) = keys (subs s)).
    { rewrite map_map. apply map_ext. intro x. apply akey_mk_act. }
    split; [exact E|]. split; [rewrite E; apply Hi|].
    intros a Ha. apply in_map_iff in Ha as [x [<- Hx]]. exists x. split; [exact Hx|].
    destruct (akey_mk_act (now s) os x) as [K1 [K2 K3]]. split; [exact K1|]. split; [exact K2|].
    destruct Hi as [_ [_ Hlive]]. rewrite Forall_forall in Hlive. specialize (Hlive x Hx).
    rewrite K3, (trem_remaining _ _ (live_le _ _ Hlive)). unfold sub_live in Hlive.
    destruct (s_task x) as [[t k]|]; [split; [tauto|reflexivity]|auto]. }
  destruct S as [S|S]; cbn [step] in S.
  - destruct (drain s) as [s1 ns] eqn:D. pose proof (drain_facts _ _ _ Hi D) as [A [B [C _]]].
    inversion S; subst s' out; clear S. cbn [o_act]. unfold read_active. rewrite C, B. apply G.
  - inversion S; subst s' out. cbn [o_act]. unfold read_active. apply G.
Qed.

(* ------------------------------------------------------------------ a subscription stays until cancelled or expired *)
Lemma fire_item_nodup : forall s it, NoDup (keys (subs s)) -> NoDup (keys (subs (fst (fire_item s it)))).
Proof.
  intros s it H. destruct (fire_item_subs s it) as [E|[c [p [o [y [_ [_ [_ E]]]]]]]]; rewrite E; [exact H|].
  apply NoDup_map_filter. exact H.
Qed.

Lemma fire_item_keeps : forall s it x, NoDup (keys (subs s)) -> In x (subs s) ->
  (forall k, s_task x <> Some (now s, k)) -> In x (subs (fst (fire_item s it))).
Proof.
  intros s it x Hnd Hx Hnot. destruct (fire_item_subs s it) as [E|[c [p [o [y [_ [F [[k Hy] E]]]]]]]]; rewrite E; [exact Hx|].
  apply remove_sub_in. split; [exact Hx|]. intro Hk. apply find_sub_some in F as [Hiny Hky].
  assert (y = x) by (apply (NoDup_key_eq (subs s)); auto; congruence). subst y. apply (Hnot k). exact Hy.
Qed.

Lemma fire_items_keeps : forall its s x, NoDup (keys (subs s)) -> In x (subs s) ->
  (forall k, s_task x <> Some (now s, k)) -> In x (subs (fst (fire_items its s))).
Proof.
  induction its as [|it r IH]; intros s x Hnd Hx Hnot; [exact Hx|]. cbn.
  pose proof (fire_item_nodup s it Hnd) as N1. pose proof (fire_item_keeps s it x Hnd Hx Hnot) as K1.
  pose proof (fire_item_now s it) as T1. destruct (fire_item s it) as [s1 n1]. cbn in *.
  specialize (IH s1 x N1 K1). destruct (fire_items r s1) as [s2 n2]. cbn in *. apply IH. rewrite T1. exact Hnot.
Qed.

Definition not_due_before (x : sub) (tm : Z) : Prop :=
  match s_task x with Some (t, _) => tm < t | None => True end.

Lemma ticks_keeps : forall n s x, NoDup (keys (subs s)) -> Forall (sub_live (now s)) (subs s) -> In x (subs s) ->
  not_due_before x (now s + Z.of_nat n) -> In x (subs (fst (ticks n s))).
Proof.
  induction n as [|n IH]; intros s x Hnd Hlive Hx Hdue; [exact Hx|]. cbn [ticks].
  pose proof (tick_inv s Hnd Hlive) as [A [B [C _]]].
  assert (K : In x (subs (fst (tick s)))).
  { unfold tick. apply fire_items_keeps; cbn; auto. intros k E. unfold not_due_before in Hdue. rewrite E in Hdue. lia. }
  destruct (tick s) as [s1 n1]. cbn in *. specialize (IH s1 x A B K).
  destruct (ticks n s1) as [s2 n2]. cbn in *. apply IH. unfold not_due_before in *. destruct (s_task x) as [[t k]|]; [lia|auto].
Qed.

Theorem subscription_persists : forall s e s' out x, inv s -> wf_ev e -> step s e = (s', out) ->
  In x (subs s) -> ~ is_subscribe_of (key x) e -> ~ is_cancel_of (key x) e ->
  (forall t, e = Advance t -> not_due_before x (now s + t)) ->
  In x (subs s').
Proof.
  intros s e s' out x Hi Hwf S Hx Hns Hnc Hadv.
  destruct e as [i p v| |c p o cf life|c p o|t|c| |c p o cf life|c p o|c]; cbn [step] in S.
  - unfold write_ev in S. destruct (nth_error (objs s) i) as [ob|]; [destruct (has_prop (okind ob) p)|]; inversion S; subst; auto.
  - destruct (drain s) as [s1 ns] eqn:D. pose proof (drain_facts _ _ _ Hi D) as [_ [_ [C _]]].
    inversion S; subst. rewrite C. exact Hx.
  - destruct (drain s) as [s1 n1] eqn:D1. destruct (drain_facts _ _ _ Hi D1) as [A1 [_ [C1 _]]].
    assert (Hlf : 0 <= life_of life) by (destruct life; cbn in *; lia).
    destruct (subscribe_now s1 c p o cf life) as [[s2 ok] code] eqn:SN.
    destruct (subscribe_now_facts _ _ _ _ _ _ _ _ _ A1 Hlf SN) as [A2 [_ [_ K2]]].
    destruct (drain s2) as [s3 n3] eqn:D3. destruct (drain_facts _ _ _ A2 D3) as [_ [_ [C3 _]]].
    inversion S; subst. rewrite C3. apply K2; [rewrite C1; exact Hx|exact Hns].
  - destruct (drain s) as [s1 n1] eqn:D1. destruct (drain_facts _ _ _ Hi D1) as [A1 [_ [C1 _]]].
    destruct (cancel_now s1 c p o) as [[s2 ok] code] eqn:CN.
    destruct (cancel_now_facts _ _ _ _ _ _ _ A1 CN) as [A2 [_ [_ [_ K2]]]].
    destruct (drain s2) as [s3 n3] eqn:D3. destruct (drain_facts _ _ _ A2 D3) as [_ [_ [C3 _]]].
    inversion S; subst. rewrite C3. apply K2; [rewrite C1; exact Hx|exact Hnc].
  - destruct (drain s) as [s1 n1] eqn:D. pose proof (drain_facts _ _ _ Hi D) as [[A1 [A2 A3]] [B [C _]]].
    pose proof (ticks_keeps (Z.to_nat t) s1 x A1 A3) as K. destruct (ticks (Z.to_nat t) s1) as [s2 n2].
    inversion S; subst s' out. cbn in *. apply K; [rewrite C; exact Hx|]. rewrite B.
    rewrite Z2Nat.id by exact Hwf. apply Hadv. reflexivity.
  - destruct (drain s) as [s1 ns] eqn:D. pose proof (drain_facts _ _ _ Hi D) as [_ [_ [C _]]].
    inversion S; subst. cbn. rewrite C. exact Hx.
  - destruct (queue s) as [|d r]; [inversion S; subst; exact Hx|].
    destruct (run_dfn (set_queue s r) d) as [s1 ns] eqn:R. inversion S; subst.
    apply run_dfn_facts in R as [_ [B _]]. rewrite B. exact Hx.
  - assert (Hlf : 0 <= life_of life) by (destruct life; cbn in *; lia).
    destruct (subscribe_now s c p o cf life) as [[s2 ok] code] eqn:SN.
    destruct (subscribe_now_facts _ _ _ _ _ _ _ _ _ Hi Hlf SN) as [_ [_ [_ K2]]]. inversion S; subst. apply K2; auto.
  - destruct (cancel_now s c p o) as [[s2 ok] code] eqn:CN.
    destruct (cancel_now_facts _ _ _ _ _ _ _ Hi CN) as [_ [_ [_ [_ K2]]]]. inversion S; subst. apply K2; auto.
  - inversion S; subst. exact Hx.
Qed.

(* the table never holds an elapsed subscription *)
Theorem table_unexpired : forall os es, NoDup (oids os) -> Forall wf_ev es ->
  let s := fst (run (init os) es) in
  forall x, In x (subs s) ->
    match s_task x with Some (t, _) => now s < t /\ 0 < s_life x | None => s_life x = 0 end.
Proof.
  intros os es Ho Hw s x Hx. pose proof (run_inv es (init os) (init_inv os Ho) Hw) as [_ [_ Hl]].
  rewrite Forall_forall in Hl. specialize (Hl x Hx). unfold sub_live in Hl.
  destruct (s_task x) as [[t k]|]; [tauto|exact Hl].
Qed.

Theorem increment_criterion : forall pr v i, inc_filter pr v i = true <-> i <= Z.abs (v - pr).
Proof. intros. rewrite inc_filter_abs. lia. Qed.
