(* CovRun.v — run-level consequences of CovFacts.step_facts: the statements C16.v exports. *)
From Coq Require Import ZifyBool ZifyN ZifyNat.
From Bac Require Import Base Cov CovFacts.
Ltac Zify.zify_post_hook ::= Z.to_euclidean_division_equations.
Open Scope Z_scope.

Lemma key_dec : forall a b : Z * Z * Z, {a = b} + {a <> b}.
Proof. decide equality; try apply Z.eq_dec. decide equality; apply Z.eq_dec. Qed.

Lemma init_inv : forall os, NoDup (oids os) -> inv (init os).
Proof. intros os H. unfold inv, init. cbn. repeat split; [constructor|exact H|constructor]. Qed.

Lemma run_inv : forall es s, inv s -> Forall wf_ev es -> inv (fst (run s es)).
Proof.
  induction es as [|e r IH]; intros s Hi Hw; [exact Hi|]. cbn. inversion Hw; subst.
  destruct (step s e) as [s1 o] eqn:S. destruct (step_facts _ _ _ _ Hi H1 S) as [Hi1 _].
  specialize (IH s1 Hi1 H2). destruct (run s1 r) as [s2 os]. exact IH.
Qed.

Theorem table_nodup : forall os es, NoDup (oids os) -> Forall wf_ev es ->
  NoDup (keys (subs (fst (run (init os) es)))).
Proof. intros os es Ho Hw. apply (run_inv es (init os) (init_inv os Ho) Hw). Qed.

(* a key that is not in the table gets nothing until somebody subscribes it *)
Theorem absent_no_ntf : forall es s k, inv s -> Forall wf_ev es -> ~ In k (keys (subs s)) ->
  Forall (fun e => ~ is_subscribe_of k e) es ->
  forall n, In n (all_ntfs (snd (run s es))) -> nkey n <> k.
Proof.
  induction es as [|e r IH]; intros s k Hi Hw Hk Hns n Hn; [destruct Hn|]. cbn in Hn.
  inversion Hw; subst. inversion Hns; subst.
  destruct (step s e) as [s1 o] eqn:S. destruct (step_facts _ _ _ _ Hi H1 S) as [Hi1 [_ [Hincl Hntf]]].
  specialize (IH s1 k Hi1 H2). destruct (run s1 r) as [s2 os]. cbn in *. apply in_app_or in Hn as [Hn|Hn].
  - destruct (Hntf n Hn) as [x [tau [Hx [_ [[Hkey _] _]]]]]. rewrite Hkey. intro E. destruct Hx as [Hx|[_ Hx]].
    + apply Hk. rewrite <- E. apply in_map. exact Hx.
    + rewrite E in Hx. contradiction.
  - apply IH; auto. intro Hin. apply in_map_iff in Hin as [x' [Hkx Hx']]. destruct (Hincl x' Hx') as [Hin|Hs].
    + apply Hk. rewrite <- Hkx. apply in_map. exact Hin.
    + rewrite Hkx in Hs. contradiction.
Qed.

Theorem no_notify_after_cancel : forall s c p o s' out es,
  inv s -> step s (Cancel c p o) = (s', out) -> o_ack out = 1 ->
  Forall wf_ev es -> Forall (fun e => ~ is_subscribe_of (c, p, o) e) es ->
  forall n, In n (all_ntfs (snd (run s' es))) -> nkey n <> (c, p, o).
Proof.
  intros s c p o s' out es Hi S Hack Hw Hns. cbn [step] in S.
  destruct (drain s) as [s1 ns] eqn:D. destruct (drain_facts _ _ _ Hi D) as [A _].
  destruct (do_cancel_facts _ _ _ _ _ _ _ A S) as [A' [_ [_ [_ [Hgone _]]]]].
  apply absent_no_ntf; auto.
Qed.

(* time remaining as a function of the expiry instant *)
Lemma trem_remaining : forall nw x, sub_live_le nw x ->
  trem nw x = match s_task x with Some (t, _) => remaining (s_life x) t nw | None => 0 end.
Proof.
  intros nw x H. unfold sub_live_le in H. unfold trem, remaining.
  destruct (s_task x) as [[t k]|]; [|rewrite H; reflexivity].
  destruct H as [H1 H2]. destruct (s_life x =? 0) eqn:E; [lia|]. unfold TICKS.
  destruct (Z.quot (t - nw) 8 =? 0) eqn:E2; lia.
Qed.

(* every notification goes to a table entry (or to the subscription just made), in its mode,
   not later than its expiry instant, with the time remaining computed from that instant *)
Theorem notification_content : forall s e s' out n,
  inv s -> wf_ev e -> step s e = (s', out) -> In n (o_ntfs out) ->
  exists x, (In x (subs s) \/ (In x (subs s') /\ is_subscribe_of (key x) e)) /\
    nkey n = key x /\ n_conf n = s_conf x /\ now s <= n_at n <= now s' /\
    match s_task x with
    | Some (t, _) => n_at n <= t /\ n_trem n = remaining (s_life x) t (n_at n) /\ 0 < s_life x
    | None => n_trem n = 0 /\ s_life x = 0
    end.
Proof.
  intros s e s' out n Hi Hw S Hn. destruct (step_facts _ _ _ _ Hi Hw S) as [_ [_ [_ Hntf]]].
  destruct (Hntf n Hn) as [x [tau [Hx [Ht [[Hk [Hc [Htr Hat]]] Hl]]]]]. exists x. rewrite Hat.
  split; [exact Hx|]. split; [exact Hk|]. split; [exact Hc|]. split; [exact Ht|].
  rewrite Htr, (trem_remaining _ _ Hl). unfold sub_live_le in Hl. destruct (s_task x) as [[t k]|]; [|auto].
  destruct Hl. auto.
Qed.

Theorem no_notify_after_expiry : forall es s x t k,
  inv s -> In x (subs s) -> s_task x = Some (t, k) -> Forall wf_ev es ->
  Forall (fun e => ~ is_subscribe_of (key x) e) es ->
  forall n, In n (all_ntfs (snd (run s es))) -> nkey n = key x ->
  n_at n <= t /\ n_trem n = remaining (s_life x) t (n_at n) /\ n_conf n = s_conf x.
Proof.
  induction es as [|e r IH]; intros s x t k Hi Hx Htask Hw Hns n Hn Hkey; [destruct Hn|]. cbn in Hn.
  inversion Hw; subst. inversion Hns; subst.
  destruct (step s e) as [s1 o] eqn:S. pose proof (step_facts _ _ _ _ Hi H1 S) as [Hi1 [_ [Hincl _]]].
  pose proof (notification_content s e s1 o) as NC.
  pose proof (absent_no_ntf r s1 (key x) Hi1 H2) as AB. specialize (IH s1 x t k Hi1).
  destruct (run s1 r) as [s2 os]. cbn in *. pose proof Hi as [Hnd _]. apply in_app_or in Hn as [Hn|Hn].
  - destruct (NC n) as [x0 [Hx0 [Hk0 [Hc0 [_ Hm]]]]]; auto.
    assert (x0 = x).
    { destruct Hx0 as [Hx0|[_ Hs]]; [|rewrite <- Hk0, Hkey in Hs; contradiction].
      apply (NoDup_key_eq (subs s)); auto. congruence. }
    subst x0. rewrite Htask in Hm. destruct Hm as [M1 [M2 _]]. auto.
  - destruct (in_dec key_dec (key x) (keys (subs s1))) as [Hin|Hout].
    + apply in_map_iff in Hin as [x' [Hkx Hx']]. assert (x' = x).
      { destruct (Hincl x' Hx') as [Hin|Hs]; [|rewrite Hkx in Hs; contradiction]. apply (NoDup_key_eq (subs s)); auto. }
      subst x'. apply IH; auto.
    + exfalso. apply (AB Hout H4 n Hn). exact Hkey.
Qed.

(* ------------------------------------------------------------------ one notification per triggered round *)
Lemma NoDup_app_intro : forall {A} (l1 l2 : list A),
  NoDup l1 -> NoDup l2 -> (forall a, In a l1 -> ~ In a l2) -> NoDup (l1 ++ l2).
Proof.
  intros A l1 l2. induction l1 as [|x r IH]; cbn; intros H1 H2 Hd; [exact H2|].
  inversion H1; subst. constructor.
  - rewrite in_app_iff. intros [H|H]; [contradiction|]. apply (Hd x); auto.
  - apply IH; auto.
Qed.

Lemma exec_all_nodup : forall nw sb os, NoDup (keys sb) -> NoDup (oids os) ->
  NoDup (map nkey (snd (exec_all nw sb os))).
Proof.
  intros nw sb. induction os as [|o r IH]; intros Hk Ho; [constructor|].
  pose proof (exec_all_ntfs nw sb r) as Hr. cbn in *.
  destruct (exec_obj nw sb o) as [o' n1] eqn:E1. destruct (exec_all nw sb r) as [r' n2] eqn:E2. cbn in *.
  inversion Ho as [|? ? Hnotin Ho']; subst. rewrite map_app. apply NoDup_app_intro; [| apply IH; auto |].
  - unfold exec_obj in E1. destruct (trig o); inversion E1; subst; [|constructor].
    rewrite map_map. unfold subs_of. cbn. apply (NoDup_map_filter key). exact Hk.
  - intros a Ha Hb. unfold exec_obj in E1. destruct (trig o); inversion E1; subst; [|destruct Ha].
    apply in_map_iff in Ha as [n [<- Hn]]. apply in_map_iff in Hn as [x [<- Hx]].
    unfold subs_of in Hx. apply filter_In in Hx as [_ Hox]. apply Z.eqb_eq in Hox.
    apply in_map_iff in Hb as [n2' [Hk2 Hn2]]. apply Hr in Hn2 as [o2 [x2 [Ho2 [_ [_ [Hox2 ->]]]]]].
    cbn in Hk2. inversion Hk2 as [[H1 H2 H3]]. apply Hnotin. rewrite <- Hox, <- H3, Hox2. apply in_map. exact Ho2.
Qed.

Theorem drain_round : forall s s' out, inv s -> step s Drain = (s', out) ->
  (forall x o, In x (subs s) -> find_obj (s_oid x) (objs s) = Some o ->
     (trig o = true -> In (mk_ntf (now s) o x) (o_ntfs out)) /\
     (trig o = false -> forall n, In n (o_ntfs out) -> nkey n <> key x)) /\
  NoDup (map nkey (o_ntfs out)) /\
  (forall o, In o (objs s') -> trig o = false) /\ subs s' = subs s.
Proof.
  intros s s' out [Hnd [Hod Hlive]] S. cbn [step] in S. rewrite drain_spec in S. inversion S; subst s' out; clear S.
  cbn [o_ntfs objs subs]. split; [|split; [apply exec_all_nodup; auto|split; [apply exec_all_clears|reflexivity]]].
  intros x o Hx Fo. pose proof (find_obj_some _ _ _ Fo) as [Hin Hoid]. split.
  - intro Ht. apply exec_all_ntfs. exists o, x. auto 6.
  - intros Ht n Hn. apply exec_all_ntfs in Hn as [o2 [x2 [Ho2 [Ht2 [Hx2 [Hox2 ->]]]]]]. cbn. intro E.
    inversion E as [[E1 E2 E3]]. assert (o2 = o); [|congruence].
    pose proof (find_obj_in _ _ Hod Ho2) as F2. rewrite <- Hox2, E3 in F2. congruence.
Qed.

(* ------------------------------------------------------------------ subscribe: ack + initial notification *)
Lemma exec_all_find : forall nw sb os i ob, find_obj i os = Some ob ->
  exists ob', find_obj i (fst (exec_all nw sb os)) = Some ob' /\
    pv ob' = pv ob /\ fl ob' = fl ob /\ okind ob' = okind ob.
Proof.
  intros nw sb. induction os as [|o r IH]; intros i ob F; [discriminate|]. unfold find_obj in *. cbn in *.
  destruct (exec_obj nw sb o) as [o' n1] eqn:E1. destruct (exec_all nw sb r) as [r' n2] eqn:E2. cbn in *.
  assert (Ho' : oid o' = oid o /\ pv o' = pv o /\ fl o' = fl o /\ okind o' = okind o).
  { unfold exec_obj in E1. destruct (trig o); inversion E1; subst; auto. unfold report.
    destruct (reports_prev (okind o)); cbn; auto. }
  destruct Ho' as [A [B [C D]]]. rewrite A. destruct (oid o =? i).
  - inversion F; subst. exists o'. auto.
  - apply IH. exact F.
Qed.

Theorem subscribe_initial : forall s c p o cf life s' out ob,
  inv s -> wf_ev (Subscribe c p o cf life) -> step s (Subscribe c p o cf life) = (s', out) ->
  find_obj o (objs s) = Some ob -> okind ob <> KNoCov ->
  o_ack out = 1 /\
  In (mkNtf c p o cf (life_of life) (pv ob) (fl ob) (now s)) (o_ntfs out) /\
  exists x, find_sub c p o (subs s') = Some x /\ s_conf x = cf /\ s_life x = life_of life /\
    (life_of life = 0 -> s_task x = None) /\
    (0 < life_of life -> exists k, s_task x = Some (now s + life_of life * TICKS, k)).
Proof.
  intros s c p o cf life s' out ob Hi Hwf S F HK. cbn [step] in S.
  assert (Hlf : 0 <= life_of life) by (destruct life; cbn in *; lia).
  destruct (drain s) as [s1 ns] eqn:D. pose proof (drain_facts _ _ _ Hi D) as [A [B [C _]]].
  rewrite drain_spec in D. inversion D as [[D1 D2]].
  destruct (exec_all_find (now s) (subs s) (objs s) o ob F) as [ob1 [F1 [Hpv [Hfl Hk]]]].
  assert (Fs1 : find_obj o (objs s1) = Some ob1) by (rewrite <- D1; exact F1).
  pose proof (do_subscribe_facts _ _ _ _ _ _ _ _ _ A Hlf S) as [[Hnd' _] _].
  unfold do_subscribe in S. rewrite Fs1 in S. fold (life_of life) in S. set (lf := life_of life) in *.
  assert (Htrem : forall k, trem (now s1) (mkSub c p o cf lf (if lf =? 0 then None else Some (now s1 + lf * TICKS, k))) = lf).
  { intro k. unfold trem, TICKS. cbn. destruct (lf =? 0) eqn:E; [lia|]. cbn.
    replace (now s1 + lf * 8 - now s1) with (lf * 8) by lia. rewrite Z.quot_mul by lia. destruct (lf =? 0); [discriminate|reflexivity]. }
  assert (Htrem2 : forall k, trem (now s1) (mkSub c p o cf lf (if 0 <? lf then Some (now s1 + lf * TICKS, k) else None)) = lf).
  { intro k. unfold trem, TICKS. cbn. destruct (lf =? 0) eqn:E; [lia|]. destruct (0 <? lf) eqn:E2; [|lia]. cbn.
    replace (now s1 + lf * 8 - now s1) with (lf * 8) by lia. rewrite Z.quot_mul by lia. rewrite E. reflexivity. }
  assert (Hb : forall g : obj -> obj, True) by auto.
  rewrite <- Hk in HK.
  destruct (okind ob1) eqn:K; try contradiction.
  all: destruct (find_sub c p o (subs s1)) as [y|] eqn:FS; inversion S; subst s' out; clear S; cbn [o_ack o_ntfs ack_out subs].
  all: split; [reflexivity|]; split;
       [apply in_or_app; right; left; unfold mk_ntf; cbn [s_cli s_proc s_oid s_conf];
        rewrite ?Htrem, ?Htrem2; unfold bind_obj; destruct (bound ob1); cbn; rewrite Hpv, Hfl, B; reflexivity|].
  (* renewals *)
  1,3,5: apply find_sub_some in FS as [Hy Hky];
         eexists; split;
         [ match goal with |- find_sub _ _ _ ?l = _ =>
             assert (Hin : In (mkSub c p o cf lf (if lf =? 0 then None else Some (now s1 + lf * TICKS, ctr s1))) l)
               by (apply in_map_iff; exists y; split; [apply key_eqb_iff in Hky; rewrite Hky; reflexivity|exact Hy]) end;
           exact (find_sub_in _ _ Hnd' Hin)
         | cbn; split; [reflexivity|split; [reflexivity|split;
             [intro E; rewrite E; reflexivity|intro E; destruct (lf =? 0) eqn:E0; [lia|rewrite <- B; eauto]]]]].
  (* new subscriptions *)
  all: eexists; split;
       [ match goal with |- find_sub _ _ _ (?l ++ [?x]) = _ =>
           assert (Hin : In x (l ++ [x])) by (apply in_or_app; right; left; reflexivity) end;
         exact (find_sub_in _ _ Hnd' Hin)
       | cbn; split; [reflexivity|split; [reflexivity|split;
           [intro E; rewrite E; reflexivity|intro E; destruct (0 <? lf) eqn:E0; [rewrite <- B; eauto|lia]]]]].
Qed.

(* ------------------------------------------------------------------ the active-subscriptions list *)
Lemma akey_mk_act : forall nw os x, akey (mk_act nw os x) = key x /\ a_conf (mk_act nw os x) = s_conf x
  /\ a_trem (mk_act nw os x) = trem nw x.
Proof.
  intros. unfold mk_act. destruct (find_obj (s_oid x) os) as [o|]; [destruct (okind o)|]; cbn; auto.
Qed.

Theorem active_list_exact : forall s c s' out, inv s -> step s (ReadActive c) = (s', out) ->
  exists l, o_act out = Some l /\ map akey l = keys (subs s) /\ NoDup (map akey l) /\
    forall a, In a l -> exists x, In x (subs s) /\ akey a = key x /\ a_conf a = s_conf x /\
      match s_task x with
      | Some (t, _) => now s < t /\ a_trem a = remaining (s_life x) t (now s)
      | None => a_trem a = 0 /\ s_life x = 0
      end.
Proof.
  intros s c s' out Hi S. cbn [step] in S. destruct (drain s) as [s1 ns] eqn:D.
  pose proof (drain_facts _ _ _ Hi D) as [A [B [C _]]]. inversion S; subst s' out; clear S. cbn [o_act].
  exists (read_active s1). split; [reflexivity|]. unfold read_active. rewrite C, B.
  assert (E : map akey (map (mk_act (now s) (objs s1)) (subs s)) = keys (subs s)).
  { rewrite map_map. apply map_ext. intro x. apply akey_mk_act. }
  split; [exact E|]. split; [rewrite E; apply Hi|].
  intros a Ha. apply in_map_iff in Ha as [x [<- Hx]]. exists x. split; [exact Hx|].
  destruct (akey_mk_act (now s) (objs s1) x) as [K1 [K2 K3]]. split; [exact K1|]. split; [exact K2|].
  destruct Hi as [_ [_ Hlive]]. rewrite Forall_forall in Hlive. specialize (Hlive x Hx).
  rewrite K3, (trem_remaining _ _ (live_le _ _ Hlive)). unfold sub_live in Hlive.
  destruct (s_task x) as [[t k]|]; [split; [tauto|reflexivity]|auto].
Qed.

(* ------------------------------------------------------------------ a subscription stays until cancelled or expired *)
Lemma fire_item_nodup : forall s it, NoDup (keys (subs s)) -> NoDup (keys (subs (fst (fire_item s it)))).
Proof.
  intros s it H. destruct (fire_item_subs s it) as [E|[c [p [o [y [_ [_ [_ E]]]]]]]]; rewrite E; [exact H|].
  apply NoDup_map_filter. exact H.
Qed.

Lemma fire_item_keeps : forall s it x, NoDup (keys (subs s)) -> In x (subs s) ->
  (forall k, s_task x <> Some (now s, k)) -> In x (subs (fst (fire_item s it))).
Proof.
  intros s it x Hnd Hx Hnot. destruct (fire_item_subs s it) as [E|[c [p [o [y [_ [F [[k Hy] E]]]]]]]]; rewrite E; [exact Hx|].
  apply remove_sub_in. split; [exact Hx|]. intro Hk. apply find_sub_some in F as [Hiny Hky].
  assert (y = x) by (apply (NoDup_key_eq (subs s)); auto; congruence). subst y. apply (Hnot k). exact Hy.
Qed.

Lemma fire_items_keeps : forall its s x, NoDup (keys (subs s)) -> In x (subs s) ->
  (forall k, s_task x <> Some (now s, k)) -> In x (subs (fst (fire_items its s))).
Proof.
  induction its as [|it r IH]; intros s x Hnd Hx Hnot; [exact Hx|]. cbn.
  pose proof (fire_item_nodup s it Hnd) as N1. pose proof (fire_item_keeps s it x Hnd Hx Hnot) as K1.
  pose proof (fire_item_now s it) as T1. destruct (fire_item s it) as [s1 n1]. cbn in *.
  specialize (IH s1 x N1 K1). destruct (fire_items r s1) as [s2 n2]. cbn in *. apply IH. rewrite T1. exact Hnot.
Qed.

Definition not_due_before (x : sub) (tm : Z) : Prop :=
  match s_task x with Some (t, _) => tm < t | None => True end.

Lemma ticks_keeps : forall n s x, NoDup (keys (subs s)) -> Forall (sub_live (now s)) (subs s) -> In x (subs s) ->
  not_due_before x (now s + Z.of_nat n) -> In x (subs (fst (ticks n s))).
Proof.
  induction n as [|n IH]; intros s x Hnd Hlive Hx Hdue; [exact Hx|]. cbn [ticks].
  pose proof (tick_inv s Hnd Hlive) as [A [B [C _]]].
  assert (K : In x (subs (fst (tick s)))).
  { unfold tick. apply fire_items_keeps; cbn; auto. intros k E. unfold not_due_before in Hdue. rewrite E in Hdue. lia. }
  destruct (tick s) as [s1 n1]. cbn in *. specialize (IH s1 x A B K).
  destruct (ticks n s1) as [s2 n2]. cbn in *. apply IH. unfold not_due_before in *. destruct (s_task x) as [[t k]|]; [lia|auto].
Qed.

Theorem subscription_persists : forall s e s' out x, inv s -> wf_ev e -> step s e = (s', out) ->
  In x (subs s) -> ~ is_subscribe_of (key x) e ->
  (forall c p o, e = Cancel c p o -> key x <> (c, p, o)) ->
  (forall t, e = Advance t -> not_due_before x (now s + t)) ->
  In x (subs s').
Proof.
  intros s e s' out x Hi Hwf S Hx Hns Hnc Hadv.
  destruct e as [i p v| |c p o cf life|c p o|t|c]; cbn [step] in S.
  - destruct (nth_error (objs s) i) as [ob|]; [destruct (has_prop (okind ob) p)|]; inversion S; subst; auto.
  - destruct (drain s) as [s1 ns] eqn:D. pose proof (drain_facts _ _ _ Hi D) as [_ [_ [C _]]].
    inversion S; subst. rewrite C. exact Hx.
  - destruct (drain s) as [s1 ns] eqn:D. pose proof (drain_facts _ _ _ Hi D) as [_ [_ [C _]]].
    cbn in Hns. unfold do_subscribe in S. destruct (find_obj o (objs s1)) as [ob|]; [|inversion S; subst; rewrite C; exact Hx].
    destruct (okind ob); try (inversion S; subst; rewrite C; exact Hx).
    all: destruct (find_sub c p o (subs s1)); inversion S; subst s' out; cbn [subs]; rewrite C.
    1,3,5: apply in_map_iff; exists x; split; [|exact Hx];
           destruct (key_eqb c p o x) eqn:E; [apply key_eqb_iff in E; contradiction|reflexivity].
    all: apply in_or_app; left; exact Hx.
  - destruct (drain s) as [s1 ns] eqn:D. pose proof (drain_facts _ _ _ Hi D) as [A [_ [C _]]].
    destruct (do_cancel_facts _ _ _ _ _ _ _ A S) as [_ [_ [_ [_ [_ K]]]]]. apply K; [rewrite C; exact Hx|].
    apply (Hnc c p o eq_refl).
  - destruct (drain s) as [s1 n1] eqn:D. pose proof (drain_facts _ _ _ Hi D) as [[A1 [A2 A3]] [B [C _]]].
    pose proof (ticks_keeps (Z.to_nat t) s1 x A1 A3) as K. destruct (ticks (Z.to_nat t) s1) as [s2 n2].
    inversion S; subst s' out. cbn in *. apply K; [rewrite C; exact Hx|]. rewrite B.
    rewrite Z2Nat.id by exact Hwf. apply Hadv. reflexivity.
  - destruct (drain s) as [s1 ns] eqn:D. pose proof (drain_facts _ _ _ Hi D) as [_ [_ [C _]]].
    inversion S; subst. cbn. rewrite C. exact Hx.
Qed.

(* the table never holds an elapsed subscription *)
Theorem table_unexpired : forall os es, NoDup (oids os) -> Forall wf_ev es ->
  let s := fst (run (init os) es) in
  forall x, In x (subs s) ->
    match s_task x with Some (t, _) => now s < t /\ 0 < s_life x | None => s_life x = 0 end.
Proof.
  intros os es Ho Hw s x Hx. pose proof (run_inv es (init os) (init_inv os Ho) Hw) as [_ [_ Hl]].
  rewrite Forall_forall in Hl. specialize (Hl x Hx). unfold sub_live in Hl.
  destruct (s_task x) as [[t k]|]; [tauto|exact Hl].
Qed.

Theorem increment_criterion : forall pr v i, inc_filter pr v i = true <-> i <= Z.abs (v - pr).
Proof. intros. rewrite inc_filter_abs. lia. Qed.
