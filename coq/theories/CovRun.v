(* CovRun.v — run-level consequences of CovFacts.step_facts: the statements C16.v exports. *)
From Coq Require Import ZifyBool ZifyN ZifyNat.
From Bac Require Import Base Cov CovFacts.
Ltac Zify.zify_post_hook ::= Z.to_euclidean_division_equations.
Open Scope Z_scope.

Lemma key_dec : forall a b : Z * Z * Z, {a = b} + {a <> b}.
Proof. decide equality; try apply Z.eq_dec. decide equality; apply Z.eq_dec. Qed.

Lemma init_inv : forall os, NoDup (oids os) -> inv (init os).
Proof. intros os H. unfold inv, init. cbn. repeat split; [constructor|exact H|constructor]. Qed.

Lemma run_inv : forall es s, inv s -> Forall wf_ev es -> inv (fst (run s es)).
Proof.
  induction es as [|e r IH]; intros s Hi Hw; [exact Hi|]. cbn. inversion Hw; subst.
  destruct (step s e) as [s1 o] eqn:S. destruct (step_facts _ _ _ _ Hi H1 S) as [Hi1 _].
  specialize (IH s1 Hi1 H2). destruct (run s1 r) as [s2 os]. exact IH.
Qed.

Theorem table_nodup : forall os es, NoDup (oids os) -> Forall wf_ev es ->
  NoDup (keys (subs (fst (run (init os) es)))).
Proof. intros os es Ho Hw. apply (run_inv es (init os) (init_inv os Ho) Hw). Qed.

(* a key that is not in the table gets nothing until somebody subscribes it *)
Theorem absent_no_ntf : forall es s k, inv s -> Forall wf_ev es -> ~ In k (keys (subs s)) ->
  Forall (fun e => ~ is_subscribe_of k e) es ->
  forall n, In n (all_ntfs (snd (run s es))) -> nkey n <> k.
Proof.
  induction es as [|e r IH]; intros s k Hi Hw Hk Hns n Hn; [destruct Hn|]. cbn in Hn.
  inversion Hw; subst. inversion Hns; subst.
  destruct (step s e) as [s1 o] eqn:S. destruct (step_facts _ _ _ _ Hi H1 S) as [Hi1 [_ [Hincl Hntf]]].
  specialize (IH s1 k Hi1 H2). destruct (run s1 r) as [s2 os]. cbn in *. apply in_app_or in Hn as [Hn|Hn].
  - destruct (Hntf n Hn) as [x [tau [Hx [_ [[Hkey _] _]]]]]. rewrite Hkey. intro E. destruct Hx as [Hx|[_ Hx]].
    + apply Hk. rewrite <- E. apply in_map. exact Hx.
    + rewrite E in Hx. contradiction.
  - apply IH; auto. intro Hin. apply in_map_iff in Hin as [x' [Hkx Hx']]. destruct (Hincl x' Hx') as [Hin|Hs].
    + apply Hk. rewrite <- Hkx. apply in_map. exact Hin.
    + rewrite Hkx in Hs. contradiction.
Qed.

Theorem no_notify_after_cancel : forall s c p o s' out es,
  inv s -> step s (Cancel c p o) = (s', out) -> o_ack out = 1 ->
  Forall wf_ev es -> Forall (fun e => ~ is_subscribe_of (c, p, o) e) es ->
  forall n, In n (all_ntfs (snd (run s' es))) -> nkey n <> (c, p, o).
Proof.
  intros s c p o s' out es Hi S Hack Hw Hns. cbn [step] in S.
  destruct (drain s) as [s1 ns] eqn:D. destruct (drain_facts _ _ _ Hi D) as [A _].
  destruct (do_cancel_facts _ _ _ _ _ _ _ A S) as [A' [_ [_ [_ [Hgone _]]]]].
  apply absent_no_ntf; auto.
Qed.

(* time remaining as a function of the expiry instant *)
Lemma trem_remaining : forall nw x, sub_live_le nw x ->
  trem nw x = match s_task x with Some (t, _) => remaining (s_life x) t nw | None => 0 end.
Proof.
  intros nw x H. unfold sub_live_le in H. unfold trem, remaining.
  destruct (s_task x) as [[t k]|]; [|rewrite H; reflexivity].
  destruct H as [H1 H2]. destruct (s_life x =? 0) eqn:E; [lia|]. unfold TICKS.
  destruct (Z.quot (t - nw) 8 =? 0) eqn:E2; lia.
Qed.

(* every notification goes to a table entry (or to the subscription just made), in its mode,
   not later than its expiry instant, with the time remaining computed from that instant *)
Theorem notification_content : forall s e s' out n,
  inv s -> wf_ev e -> step s e = (s', out) -> In n (o_ntfs out) ->
  exists x, (In x (subs s) \/ (In x (subs s') /\ is_subscribe_of (key x) e)) /\
    nkey n = key x /\ n_conf n = s_conf x /\ now s <= n_at n <= now s' /\
    match s_task x with
    | Some (t, _) => n_at n <= t /\ n_trem n = remaining (s_life x) t (n_at n) /\ 0 < s_life x
    | None => n_trem n = 0 /\ s_life x = 0
    end.
Proof.
  intros s e s' out n Hi Hw S Hn. destruct (step_facts _ _ _ _ Hi Hw S) as [_ [_ [_ Hntf]]].
  destruct (Hntf n Hn) as [x [tau [Hx [Ht [[Hk [Hc [Htr Hat]]] Hl]]]]]. exists x. rewrite Hat.
  split; [exact Hx|]. split; [exact Hk|]. split; [exact Hc|]. split; [exact Ht|].
  rewrite Htr, (trem_remaining _ _ Hl). unfold sub_live_le in Hl. destruct (s_task x) as [[t k]|]; [|auto].
  destruct Hl. auto.
Qed.

Theorem no_notify_after_expiry : forall es s x t k,
  inv s -> In x (subs s) -> s_task x = Some (t, k) -> Forall wf_ev es ->
  Forall (fun e => ~ is_subscribe_of (key x) e) es ->
  forall n, In n (all_ntfs (snd (run s es))) -> nkey n = key x ->
  n_at n <= t /\ n_trem n = remaining (s_life x) t (n_at n) /\ n_conf n = s_conf x.
Proof.
  induction es as [|e r IH]; intros s x t k Hi Hx Htask Hw Hns n Hn Hkey; [destruct Hn|]. cbn in Hn.
  inversion Hw; subst. inversion Hns; subst.
  destruct (step s e) as [s1 o] eqn:S. pose proof (step_facts _ _ _ _ Hi H1 S) as [Hi1 [_ [Hincl _]]].
  pose proof (notification_content s e s1 o) as NC.
  pose proof (absent_no_ntf r s1 (key x) Hi1 H2) as AB. specialize (IH s1 x t k Hi1).
  destruct (run s1 r) as [s2 os]. cbn in *. pose proof Hi as [Hnd _]. apply in_app_or in Hn as [Hn|Hn].
  - destruct (NC n) as [x0 [Hx0 [Hk0 [Hc0 [_ Hm]]]]]; auto.
    assert (x0 = x).
    { destruct Hx0 as [Hx0|[_ Hs]]; [|rewrite <- Hk0, Hkey in Hs; contradiction].
      apply (NoDup_key_eq (subs s)); auto. congruence. }
    subst x0. rewrite Htask in Hm. destruct Hm as [M1 [M2 _]]. auto.
  - destruct (in_dec key_dec (key x) (keys (subs s1))) as [Hin|Hout].
    + apply in_map_iff in Hin as [x' [Hkx Hx']]. assert (x' = x).
      { destruct (Hincl x' Hx') as [Hin|Hs]; [|rewrite Hkx in Hs; contradiction]. apply (NoDup_key_eq (subs s)); auto. }
      subst x'. apply IH; auto.
    + exfalso. apply (AB Hout H4 n Hn). exact Hkey.
Qed.
