(* SsmC04s.v — C04 on the serving side: a ServerSSM is in the table iff it is not COMPLETED/ABORTED, a removed one
   holds no timer, and one that stays has its timer armed after every handler that did not raise. *)
From Coq Require Import ZifyBool ZifyN ZifyNat.
From Bac Require Import Base PyRt Ssm SsmFacts SsmC04a.
From BacGen Require Import ApduFns.
Open Scope Z_scope.

Definition post_s (st : hst) (r : hst * option err) (armed_before : Prop) : Prop :=
  let st' := fst r in
  h_now st' = h_now st /\ h_ctr st <= h_ctr st' /\
  same_cfg (h_s st) (h_s st') /\
  (h_live st' = false <-> terminal (h_s st') = true) /\
  (h_live st' = false -> s_timer (h_s st') = None) /\
  (h_live st' = true -> snd r = None -> armed_before -> s_timer (h_s st') <> None).

Definition pre_s (st : hst) : Prop :=
  h_live st = true /\ terminal (h_s st) = false /\ 0 < s_app_to (h_s st) /\ 0 < s_seg_to (h_s st).

Ltac finish_s :=
  unfold post_s, same_cfg, terminal; mcbn; cbn [app];
  repeat split; intros; first [exact I | reflexivity | discriminate | assumption | congruence | lia | tauto | auto].

Ltac start_s :=
  intros [s outs ctr now live] (Hl & Ht & Ha & Hs); cbn [h_s h_outs h_live] in *; subst live;
  destruct_ssm s; unfold terminal in Ht; cbn [s_state s_app_to s_seg_to s_timer] in *.

Lemma s_idle_post : forall a st, pre_s st -> s_state (h_s st) = IDLE -> post_s st (s_idle a st) True.
Proof.
  intros a. start_s. intros Hi. cbn [h_s s_state] in Hi. subst x_state.
  unfold s_idle, s_abort.
  destruct (a_type a =? 0); cbn [negb]; [|finish_s].
  destruct (decode_max_apdu_length_accepted (a_maxresp a)) as [[dec|]|e0] eqn:Ed; [ | | destruct e0];
  destruct (dec_maxsegs (a_maxsegs a)) as [ms|e1] eqn:Ems;
  path_split; finish_s.
Qed.

Lemma s_segmented_request_post : forall a st, pre_s st -> post_s st (s_segmented_request a st) (s_timer (h_s st) <> None).
Proof.
  intros a. start_s.
  unfold s_segmented_request, s_abort, append_segment, actwin_z.
  path_split; finish_s.
Qed.

Lemma s_await_response_post : forall a st, pre_s st -> post_s st (s_await_response a st) (s_timer (h_s st) <> None).
Proof.
  intros a. start_s.
  unfold s_await_response.
  path_split; finish_s.
Qed.

Lemma s_segmented_response_post : forall a st, pre_s st -> post_s st (s_segmented_response a st) (s_timer (h_s st) <> None).
Proof.
  intros a. start_s.
  unfold s_segmented_response.
  path_split; finish_s.
Qed.

Lemma s_confirmation_post : forall a st, pre_s st -> post_s st (s_confirmation a st) (s_timer (h_s st) <> None).
Proof.
  intros a. start_s.
  unfold s_confirmation, s_abort.
  path_split; finish_s.
Qed.

Lemma s_timeouts_post : forall st, pre_s st -> post_s st (s_process_task st) True.
Proof.
  start_s.
  unfold s_process_task, s_segmented_request_timeout, s_await_response_timeout, s_segmented_response_timeout, s_abort.
  path_split; finish_s.
Qed.

(* ServerSSM.indication: whatever the frame, in whatever state *)
Lemma post_s_weaken : forall st r (P Q : Prop), (Q -> P) -> post_s st r P -> post_s st r Q.
Proof. intros st r P Q HPQ H. unfold post_s in *. intuition. Qed.

Lemma s_indication_post : forall a st, pre_s st -> post_s st (s_indication a st) (s_timer (h_s st) <> None \/ s_state (h_s st) = IDLE).
Proof.
  intros a st Hpre. unfold s_indication, withs.
  destruct (s_state (h_s st) =? IDLE) eqn:E0.
  { eapply post_s_weaken; [|apply s_idle_post; [assumption | lia]]. auto. }
  assert (Hw : s_timer (h_s st) <> None \/ s_state (h_s st) = IDLE -> s_timer (h_s st) <> None).
  { intros [H|H]; [exact H | unfold IDLE in *; lia]. }
  destruct (s_state (h_s st) =? SEGMENTED_REQUEST); [eapply post_s_weaken; [exact Hw | apply s_segmented_request_post; assumption]|].
  destruct (s_state (h_s st) =? AWAIT_RESPONSE); [eapply post_s_weaken; [exact Hw | apply s_await_response_post; assumption]|].
  destruct (s_state (h_s st) =? SEGMENTED_RESPONSE); [eapply post_s_weaken; [exact Hw | apply s_segmented_response_post; assumption]|].
  revert Hpre E0 Hw. destruct st as [s outs ctr now live]. intros (Hl & Ht & Ha & Hs) E0 Hw.
  cbn [h_s h_live] in *. subst live. destruct_ssm s. unfold terminal in Ht. cbn [s_state s_timer] in *.
  unfold ret. finish_s.
Qed.
