(* NpciRt.v — the vocabulary the TRANSLATED methods of npdu.py are written in
   (coq/gen/NpciFns.v, produced by translator/gen_npcifns.py on every run).  No proofs here.

   The translator turns every statement of NPCI.encode/decode, NPDU.encode/decode and the
   encode/decode methods of the twelve network-layer message classes into a Gallina term over
     - Python objects as records whose fields carry the Python attribute names
       (pyobj = a PCI/NPCI/NPDU/PDU object reduced to the attributes the codec touches;
        obj_<Class> = the parameter attributes of message class <Class>),
       `self.attr = e` becomes `set_attr e self`;
     - the octet readers/writers of Base.v lifted to objects with a pduData attribute
       (py_put, py_put_short, py_put_long, py_put_data, py_get, py_get_short, py_get_long, py_get_data);
     - the address values and routing-table entries of the hand model Npci.v
       (pdu.RemoteStation(n, a) -> RStation n a, RemoteBroadcast(n) -> RBroadcast n,
        GlobalBroadcast() -> GBroadcast, npdu.RoutingTableEntry(d, p, i) -> mkRte d p i:
        the documented constructor mapping of the translator; the attribute readers
        addrType/addrNet/addrLen/addrAddr and rtDNET/rtPortID/rtPortInfo are below);
     - `req` for the uses of a possibly-None value where Python raises TypeError
       (None & 0xFFFF, bytes([None]), bytearray += None, None >= 0x80, len(None)),
       `req_attr` for an attribute read on None (AttributeError);
     - fold_res / iter_res / while_res for `for x in list`, `for i in range(n)`, `while buf.pduData`. *)
From Bac Require Import Base Npci.
Open Scope N_scope.

(* ---- a PCI / NPCI / NPDU / PDU object, reduced to the attributes npdu.py reads or writes *)
Record pyobj : Type := mkObj {
  pduData : list N;
  pduExpectingReply : bool;
  pduNetworkPriority : N;
  npduVersion : N;
  npduControl : option N;
  npduDADR : option addr;
  npduSADR : option addr;
  npduHopCount : option N;
  npduNetMessage : option N;
  npduVendorID : option N }.

Definition set_pduData v o := mkObj v (pduExpectingReply o) (pduNetworkPriority o) (npduVersion o) (npduControl o) (npduDADR o) (npduSADR o) (npduHopCount o) (npduNetMessage o) (npduVendorID o).
Definition set_pduExpectingReply v o := mkObj (pduData o) v (pduNetworkPriority o) (npduVersion o) (npduControl o) (npduDADR o) (npduSADR o) (npduHopCount o) (npduNetMessage o) (npduVendorID o).
Definition set_pduNetworkPriority v o := mkObj (pduData o) (pduExpectingReply o) v (npduVersion o) (npduControl o) (npduDADR o) (npduSADR o) (npduHopCount o) (npduNetMessage o) (npduVendorID o).
Definition set_npduVersion v o := mkObj (pduData o) (pduExpectingReply o) (pduNetworkPriority o) v (npduControl o) (npduDADR o) (npduSADR o) (npduHopCount o) (npduNetMessage o) (npduVendorID o).
Definition set_npduControl v o := mkObj (pduData o) (pduExpectingReply o) (pduNetworkPriority o) (npduVersion o) v (npduDADR o) (npduSADR o) (npduHopCount o) (npduNetMessage o) (npduVendorID o).
Definition set_npduDADR v o := mkObj (pduData o) (pduExpectingReply o) (pduNetworkPriority o) (npduVersion o) (npduControl o) v (npduSADR o) (npduHopCount o) (npduNetMessage o) (npduVendorID o).
Definition set_npduSADR v o := mkObj (pduData o) (pduExpectingReply o) (pduNetworkPriority o) (npduVersion o) (npduControl o) (npduDADR o) v (npduHopCount o) (npduNetMessage o) (npduVendorID o).
Definition set_npduHopCount v o := mkObj (pduData o) (pduExpectingReply o) (pduNetworkPriority o) (npduVersion o) (npduControl o) (npduDADR o) (npduSADR o) v (npduNetMessage o) (npduVendorID o).
Definition set_npduNetMessage v o := mkObj (pduData o) (pduExpectingReply o) (pduNetworkPriority o) (npduVersion o) (npduControl o) (npduDADR o) (npduSADR o) (npduHopCount o) v (npduVendorID o).
Definition set_npduVendorID v o := mkObj (pduData o) (pduExpectingReply o) (pduNetworkPriority o) (npduVersion o) (npduControl o) (npduDADR o) (npduSADR o) (npduHopCount o) (npduNetMessage o) v.

(* ---- the parameter attributes of the twelve message classes (npdu.py, each class's __init__) *)
Record obj_WhoIsRouterToNetwork : Type := mk_WhoIsRouterToNetwork { wirtnNetwork : option N }.
Record obj_IAmRouterToNetwork : Type := mk_IAmRouterToNetwork { iartnNetworkList : list N }.
Record obj_ICouldBeRouterToNetwork : Type := mk_ICouldBeRouterToNetwork { icbrtnNetwork : N; icbrtnPerformanceIndex : N }.
Record obj_RejectMessageToNetwork : Type := mk_RejectMessageToNetwork { rmtnRejectionReason : N; rmtnDNET : N }.
Record obj_RouterBusyToNetwork : Type := mk_RouterBusyToNetwork { rbtnNetworkList : list N }.
Record obj_RouterAvailableToNetwork : Type := mk_RouterAvailableToNetwork { ratnNetworkList : list N }.
Record obj_InitializeRoutingTable : Type := mk_InitializeRoutingTable { irtTable : list rte }.
Record obj_InitializeRoutingTableAck : Type := mk_InitializeRoutingTableAck { irtaTable : list rte }.
Record obj_EstablishConnectionToNetwork : Type := mk_EstablishConnectionToNetwork { ectnDNET : N; ectnTerminationTime : N }.
Record obj_DisconnectConnectionToNetwork : Type := mk_DisconnectConnectionToNetwork { dctnDNET : N }.
Record obj_WhatIsNetworkNumber : Type := mk_WhatIsNetworkNumber { }.
Record obj_NetworkNumberIs : Type := mk_NetworkNumberIs { nniNet : N; nniFlag : N }.

Definition set_wirtnNetwork (v : option N) (o : obj_WhoIsRouterToNetwork) := mk_WhoIsRouterToNetwork v.
Definition set_iartnNetworkList (v : list N) (o : obj_IAmRouterToNetwork) := mk_IAmRouterToNetwork v.
Definition set_icbrtnNetwork (v : N) o := mk_ICouldBeRouterToNetwork v (icbrtnPerformanceIndex o).
Definition set_icbrtnPerformanceIndex (v : N) o := mk_ICouldBeRouterToNetwork (icbrtnNetwork o) v.
Definition set_rmtnRejectionReason (v : N) o := mk_RejectMessageToNetwork v (rmtnDNET o).
Definition set_rmtnDNET (v : N) o := mk_RejectMessageToNetwork (rmtnRejectionReason o) v.
Definition set_rbtnNetworkList (v : list N) (o : obj_RouterBusyToNetwork) := mk_RouterBusyToNetwork v.
Definition set_ratnNetworkList (v : list N) (o : obj_RouterAvailableToNetwork) := mk_RouterAvailableToNetwork v.
Definition set_irtTable (v : list rte) (o : obj_InitializeRoutingTable) := mk_InitializeRoutingTable v.
Definition set_irtaTable (v : list rte) (o : obj_InitializeRoutingTableAck) := mk_InitializeRoutingTableAck v.
Definition set_ectnDNET (v : N) o := mk_EstablishConnectionToNetwork v (ectnTerminationTime o).
Definition set_ectnTerminationTime (v : N) o := mk_EstablishConnectionToNetwork (ectnDNET o) v.
Definition set_dctnDNET (v : N) (o : obj_DisconnectConnectionToNetwork) := mk_DisconnectConnectionToNetwork v.
Definition set_nniNet (v : N) o := mk_NetworkNumberIs v (nniFlag o).
Definition set_nniFlag (v : N) o := mk_NetworkNumberIs (nniNet o) v.

(* ---- attribute readers of the address objects of pdu.py:530-600 (Address.* codes, pdu.py:55-60;
   NpciGenFacts.address_codes compares them with the constants the translator reads from pdu.py) *)
Definition addrType (a : addr) : N :=
  match a with RStation _ _ => 4 | RBroadcast _ => 3 | GBroadcast => 5 end.
Definition addrNet (a : addr) : option N :=
  match a with RStation n _ => Some n | RBroadcast n => Some n | GBroadcast => None end.
Definition addrLen (a : addr) : option N :=
  match a with RStation _ m => Some (lenN m) | _ => None end.
Definition addrAddr (a : addr) : option (list N) :=
  match a with RStation _ m => Some m | _ => None end.

(* ---- npdu.RoutingTableEntry *)
Definition rtDNET := rt_dnet.
Definition rtPortID := rt_port.
Definition rtPortInfo := rt_info.

(* ---- None where a value is needed *)
Definition req {A} (o : option A) : res A :=
  match o with Some v => Ok v | None => Err TypeErr end.
Definition req_attr {A} (o : option A) : res A :=
  match o with Some v => Ok v | None => Err AttrErr end.
Definition py_is_none {A} (o : option A) : bool := match o with None => true | Some _ => false end.
Definition py_nonempty {A} (l : list A) : bool := match l with [] => false | _ => true end.
(* a - b on Python ints: a negative result is outside the model (N) *)
Definition py_sub (a b : N) : res N := if a <? b then Err OtherErr else Ok (a - b).

(* ---- comm.PDUData on an object *)
Definition py_put (n : N) (o : pyobj) : res pyobj :=
  do b <- put n; Ok (set_pduData (pduData o ++ b) o).
Definition py_put_short (n : N) (o : pyobj) : res pyobj :=
  Ok (set_pduData (pduData o ++ put_short n) o).
Definition py_put_long (n : N) (o : pyobj) : res pyobj :=
  Ok (set_pduData (pduData o ++ put_long n) o).
Definition py_put_data (d : list N) (o : pyobj) : res pyobj :=
  Ok (set_pduData (pduData o ++ d) o).
Definition py_get (o : pyobj) : res (N * pyobj) :=
  do (v, r) <- get (pduData o); Ok (v, set_pduData r o).
Definition py_get_short (o : pyobj) : res (N * pyobj) :=
  do (v, r) <- get_short (pduData o); Ok (v, set_pduData r o).
Definition py_get_long (o : pyobj) : res (N * pyobj) :=
  do (v, r) <- get_long (pduData o); Ok (v, set_pduData r o).
Definition py_get_data (k : N) (o : pyobj) : res (list N * pyobj) :=
  do (v, r) <- get_data k (pduData o); Ok (v, set_pduData r o).

(* ---- loops *)
(* for x in l: body *)
Fixpoint fold_res {A S} (f : S -> A -> res S) (l : list A) (s : S) : res S :=
  match l with
  | [] => Ok s
  | x :: r => do s' <- f s x; fold_res f r s'
  end.
(* for i in range(n): body   (i not used in the body) *)
Fixpoint iter_res {S} (n : nat) (f : S -> res S) (s : S) : res S :=
  match n with
  | O => Ok s
  | S n' => do s' <- f s; iter_res n' f s'
  end.
(* while cond: body — data-driven, so it takes fuel; the translator passes 1 + the number of
   octets in the buffer the condition tests *)
Fixpoint while_res {S} (fuel : nat) (c : S -> bool) (f : S -> res S) (s : S) : res S :=
  match fuel with
  | O => Err OutOfFuel
  | S fuel' => if c s then do s' <- f s; while_res fuel' c f s' else Ok s
  end.
