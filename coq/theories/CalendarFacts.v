(* CalendarFacts.v — the AST-translated date matchers (BacGen.ScheduleFns, regenerated from
   local/schedule.py on every run) match exactly the dates their patterns denote (Calendar.v).
   These are the TABLE_OBLIGATIONS of C20: `make` re-proves them against the current source. *)
From Coq Require Import ZifyBool ZifyN ZifyNat.
From Bac Require Import Base PyRt Calendar.
From BacGen Require Import ScheduleFns.
Open Scope Z_scope.
Ltac Zify.zify_post_hook ::= Z.to_euclidean_division_equations.

Lemma odd_iff : forall m, Z.odd m = true <-> m mod 2 = 1.
Proof. intro m. rewrite (Zmod_odd m). destruct (Z.odd m); split; intro; try reflexivity; discriminate. Qed.
Lemma even_iff : forall m, Z.even m = true <-> m mod 2 = 0.
Proof. intro m. rewrite (Zmod_even m). destruct (Z.even m); split; intro; try reflexivity; discriminate. Qed.

Lemma leap_yearb_spec : forall y, leap_yearb y = true <-> leap_year y.
Proof. intro y. unfold leap_yearb, leap_year. lia. Qed.

Lemma last_day_table : forall y m, 1 <= m <= 12 -> last_day y m = days_in_month y m.
Proof.
  intros y m H.
  assert (C : m = 1 \/ m = 2 \/ m = 3 \/ m = 4 \/ m = 5 \/ m = 6 \/ m = 7 \/ m = 8 \/ m = 9 \/ m = 10 \/ m = 11 \/ m = 12) by lia.
  unfold last_day, days_in_month, month_table, is_leap, leap_yearb.
  set (L := ((y mod 4 =? 0) && negb (y mod 100 =? 0)) || (y mod 400 =? 0)).
  repeat (destruct C as [C | C]; [subst m; reflexivity |]).
  subst m; reflexivity.
Qed.
Lemma days_in_month_bounds : forall y m, 1 <= m <= 12 -> 28 <= days_in_month y m <= 31.
Proof.
  intros y m H.
  assert (C : m = 1 \/ m = 2 \/ m = 3 \/ m = 4 \/ m = 5 \/ m = 6 \/ m = 7 \/ m = 8 \/ m = 9 \/ m = 10 \/ m = 11 \/ m = 12) by lia.
  unfold days_in_month, month_table.
  set (L := leap_yearb y).
  repeat (destruct C as [C | C]; [subst m; cbv - [L]; destruct L; split; discriminate |]).
  subst m; cbv - [L]; split; discriminate.
Qed.

Lemma monthrange_last_valid : forall y m, 0 <= y <= 254 -> 1 <= m <= 12 ->
  monthrange_last (y + 1900) m = Ok (days_in_month (y + 1900) m).
Proof.
  intros y m Hy Hm. unfold monthrange_last.
  replace ((m <? 1) || (12 <? m)) with false by lia.
  replace ((y + 1900 <? 1) || (9999 <? y + 1900)) with false by lia.
  now rewrite last_day_table.
Qed.

Lemma valid_dateb_spec : forall d, valid_dateb d = true <-> valid_date d.
Proof. intros [[[y m] dd] w]. unfold valid_dateb, valid_date. lia. Qed.

Ltac split_ifs :=
  repeat match goal with
         | |- context [if ?c then _ else _] => let E := fresh "E" in destruct c eqn:E
         end.
Ltac leaf unf :=
  let HH := fresh "HH" in
  split; intro HH;
  [ try discriminate HH; clear HH; unf; rewrite ?odd_iff, ?even_iff; lia
  | try reflexivity; exfalso; revert HH; unf; rewrite ?odd_iff, ?even_iff; lia ].

(* ---- match_date *)
Lemma match_date_total : forall d p, valid_date d -> exists b, match_date d p = Ok b.
Proof.
  intros [[[y m] dd] w] [[[yp mp] dp] wp] (Hy & Hm & Hd & Hw).
  unfold match_date. rewrite (monthrange_last_valid y m Hy Hm). cbn [bind].
  split_ifs; eexists; reflexivity.
Qed.

Theorem match_date_denotes : forall d p, valid_date d ->
  (match_date d p = Ok true <-> date_denotes p d).
Proof.
  intros [[[y m] dd] w] [[[yp mp] dp] wp] (Hy & Hm & Hd & Hw).
  pose proof (days_in_month_bounds (y + 1900) m Hm) as Hb.
  unfold match_date. rewrite (monthrange_last_valid y m Hy Hm). cbn [bind].
  unfold date_denotes, year_denotes, month_denotes, day_denotes, dow_denotes.
  generalize dependent (days_in_month (y + 1900) m). intros L Hd Hb.
  split_ifs; leaf idtac.
Qed.

(* ---- match_weeknday *)
Lemma match_weeknday_total : forall d p, valid_date d -> exists b, match_weeknday d p = Ok b.
Proof.
  intros [[[y m] dd] w] [[mp kp] wp] (Hy & Hm & Hd & Hw).
  unfold match_weeknday. rewrite (monthrange_last_valid y m Hy Hm). cbn [bind].
  split_ifs; eexists; reflexivity.
Qed.

Theorem match_weeknday_denotes : forall d p, valid_date d -> wf_wnd p ->
  (match_weeknday d p = Ok true <-> wnd_denotes p d).
Proof.
  intros [[[y m] dd] w] [[mp kp] wp] (Hy & Hm & Hd & Hw) Hwf.
  pose proof (days_in_month_bounds (y + 1900) m Hm) as Hb.
  unfold match_weeknday. rewrite (monthrange_last_valid y m Hy Hm). cbn [bind].
  unfold wf_wnd in Hwf.
  unfold wnd_denotes, month_denotes, week_denotes, dow_denotes.
  generalize dependent (days_in_month (y + 1900) m). intros L Hd Hb.
  split_ifs; leaf idtac.
Qed.

(* ---- match_date_range (after the fix: unspecified ends are open) *)
Lemma match_date_range_total : forall d r, exists b, match_date_range d r = Ok b.
Proof.
  intros [[[y m] dd] w] [[[[ys ms] ds] ws] [[[ye me] de] we]].
  unfold match_date_range. cbn [fst snd d4_first3]. split_ifs; eexists; reflexivity.
Qed.

Theorem match_date_range_denotes : forall d r, valid_date d -> wf_range r ->
  (match_date_range d r = Ok true <-> range_denotes r d).
Proof.
  intros [[[y m] dd] w] [[[[ys ms] ds] ws] [[[ye me] de] we]] (Hy & Hm & Hd & Hw) [Hs He].
  pose proof (days_in_month_bounds (y + 1900) m Hm) as Hb.
  unfold match_date_range. cbn [fst snd d4_first3] in *.
  unfold t3_gt, t3_lt. unfold unspecified, specific in Hs, He.
  generalize dependent (days_in_month (y + 1900) m). intros L Hd Hb.
  split_ifs;
    leaf ltac:(unfold range_denotes, unspecified, ordinal; cbn [fst snd]).
Qed.

(* the successor of a valid date before 2154-12-31 is a valid date *)
Lemma next_date_valid : forall d, valid_date d -> (let '(y, m, dd, _) := d in (y, m, dd) <> (254, 12, 31)) ->
  valid_date (next_date d).
Proof.
  intros [[[y m] dd] w] (Hy & Hm & Hd & Hw) Hne.
  unfold next_date. rewrite (last_day_table (y + 1900) m Hm).
  pose proof (days_in_month_bounds (y + 1900) m Hm) as Hb.
  destruct (dd <? days_in_month (y + 1900) m) eqn:E1.
  - unfold valid_date. lia.
  - destruct (m <? 12) eqn:E2.
    + unfold valid_date. pose proof (days_in_month_bounds (y + 1900) (m + 1)). lia.
    + unfold valid_date. pose proof (days_in_month_bounds (y + 1 + 1900) 1).
      assert (m = 12) by lia. subst m.
      assert (days_in_month (y + 1900) 12 = 31) by (unfold days_in_month; cbn; reflexivity).
      assert (y <> 254) by (intro; subst y; apply Hne; replace dd with 31 by lia; reflexivity). lia.
Qed.
