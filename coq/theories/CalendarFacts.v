From Bac Require Import Base PyRt Calendar.
From BacGen Require Import ScheduleFns.
