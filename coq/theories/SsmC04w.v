(* SsmC04w.v — C04, bounded time composed: over a whole scheduled history of a client transaction the number of
   time-outs and the instant of every event are bounded in terms of the retry count, the two timeouts and the number K of
   received frames. *)
From Coq Require Import ZifyBool ZifyN ZifyNat.
From Bac Require Import Base PyRt Ssm SsmFacts SsmC04a SsmC04 SsmC04t.
Open Scope Z_scope.

Definition Tmax (s : ssm) : Z := Z.max (s_apdu_to s) (s_seg_to s).

(* what a handler run does to the counters and to the deadline *)
Definition post_w (st : hst) (r : hst * option err) : Prop :=
  let st' := fst r in
  s_retries (h_s st') = s_retries (h_s st) /\
  (s_segretry (h_s st') = 0 \/ s_segretry (h_s st') = s_segretry (h_s st)) /\
  (forall w c, s_timer (h_s st') = Some (w, c) -> w <= h_now st + Tmax (h_s st) \/ s_timer (h_s st) = Some (w, c)).

Ltac finish_w :=
  unfold post_w, Tmax; mcbn; cbn [app];
  repeat split; intros; try (left; reflexivity); try (right; reflexivity);
  try match goal with H : Some _ = Some _ |- _ => inversion H; subst; clear H end;
  try discriminate; first [left; lia | right; reflexivity | right; assumption | lia | auto].

Ltac start_w :=
  intros [s outs ctr now live]; destruct_ssm s.

Lemma c_segmented_request_w : forall a st, s_retry (h_s (fst (c_segmented_request a st))) = s_retry (h_s st) /\ post_w st (c_segmented_request a st).
Proof.
  intros a. start_w. unfold c_segmented_request, c_abort.
  path_split; (split; [mcbn; reflexivity | finish_w]).
Qed.

Lemma c_await_confirmation_w : forall a st, s_retry (h_s (fst (c_await_confirmation a st))) = s_retry (h_s st) /\ post_w st (c_await_confirmation a st).
Proof.
  intros a. start_w. unfold c_await_confirmation, c_abort.
  path_split; (split; [mcbn; reflexivity | finish_w]).
Qed.

Lemma c_segmented_confirmation_w : forall a st, s_retry (h_s (fst (c_segmented_confirmation a st))) = s_retry (h_s st) /\ post_w st (c_segmented_confirmation a st).
Proof.
  intros a. start_w. unfold c_segmented_confirmation, c_abort, append_segment, actwin_z.
  path_split; (split; [mcbn; reflexivity | finish_w]).
Qed.

Lemma c_confirmation_w : forall a st, s_retry (h_s (fst (c_confirmation a st))) = s_retry (h_s st) /\ post_w st (c_confirmation a st).
Proof.
  intros a st. unfold c_confirmation, withs.
  destruct (s_state (h_s st) =? SEGMENTED_REQUEST); [apply c_segmented_request_w|].
  destruct (s_state (h_s st) =? AWAIT_CONFIRMATION); [apply c_await_confirmation_w|].
  destruct (s_state (h_s st) =? SEGMENTED_CONFIRMATION); [apply c_segmented_confirmation_w|].
  destruct st as [s outs ctr now live]. destruct_ssm s. split; [reflexivity | finish_w].
Qed.

(* deadlines set by the time-out handlers *)
Lemma c_indication_deadline : forall a st w c, s_timer (h_s (fst (c_indication a st))) = Some (w, c) ->
  w <= h_now st + Tmax (h_s st) \/ s_timer (h_s st) = Some (w, c).
Proof.
  intros a. start_w. unfold c_indication, c_abort, Tmax.
  path_split; mcbn; intros w c H; try discriminate; try (right; exact H); inversion H; subst; left; lia.
Qed.

Lemma c_process_task_deadline : forall st w c, s_timer (h_s (fst (c_process_task st))) = Some (w, c) ->
  w <= h_now st + Tmax (h_s st) \/ s_timer (h_s st) = Some (w, c).
Proof.
  intros st. unfold c_process_task, withs.
  destruct (s_state (h_s st) =? SEGMENTED_REQUEST).
  { destruct st as [s outs ctr now live]. destruct_ssm s. unfold c_segmented_request_timeout, c_abort, Tmax.
    path_split; mcbn; intros w c H; try discriminate; try (right; exact H); inversion H; subst; left; lia. }
  destruct (s_state (h_s st) =? AWAIT_CONFIRMATION).
  { unfold c_await_confirmation_timeout, withs.
    destruct (s_retry (h_s st) <? s_retries (h_s st)).
    - rewrite mseq_run. cbv beta iota delta [upd].
      destruct (s_ctx (h_s st)) as [c0|].
      2:{ rewrite mseq_run. unfold raise. cbn [fst h_s]. intros w c H. right.
          destruct st as [s outs ctr now live]. destruct_ssm s. exact H. }
      rewrite mseq_run.
      match goal with |- context [c_indication c0 ?x] => set (st1 := x) end.
      pose proof (c_indication_deadline c0 st1) as Hd.
      destruct (c_indication c0 st1) as [st2 [e|]]; cbn [fst snd h_s] in *.
      + intros w c H. destruct (Hd w c H) as [Hd1|Hd1]; [left|right]; subst st1;
          destruct st as [s outs ctr now live]; destruct_ssm s; [exact Hd1 | exact Hd1].
      + intros w c H. destruct st2 as [s2 o2 c2 n2 l2]. cbn [h_s] in *.
        assert (H' : s_timer s2 = Some (w, c)) by (destruct s2; exact H).
        destruct (Hd w c H') as [Hd1|Hd1]; [left|right]; subst st1;
          destruct st as [s outs ctr now live]; destruct_ssm s; [exact Hd1 | exact Hd1].
    - destruct st as [s outs ctr now live]. destruct_ssm s. unfold c_abort, Tmax.
      path_split; mcbn; intros w c H; try discriminate; try (right; exact H). }
  destruct (s_state (h_s st) =? SEGMENTED_CONFIRMATION).
  { destruct st as [s outs ctr now live]. destruct_ssm s. unfold c_segmented_confirmation_timeout, c_abort, Tmax.
    path_split; mcbn; intros w c H; try discriminate; try (right; exact H). }
  destruct ((s_state (h_s st) =? COMPLETED) || (s_state (h_s st) =? ABORTED)); unfold ret, raise; cbn [fst];
    intros w c H; right; exact H.
Qed.

(* ---------- scheduled histories ---------- *)
Fixpoint n_rx (evs : list (Z * cevent)) : Z :=
  match evs with [] => 0 | (_, Rx _) :: r => 1 + n_rx r | (_, Timeout) :: r => n_rx r end.
Fixpoint n_to (evs : list (Z * cevent)) : Z :=
  match evs with [] => 0 | (_, Rx _) :: r => n_to r | (_, Timeout) :: r => 1 + n_to r end.
Fixpoint last_time (evs : list (Z * cevent)) (t0 : Z) : Z :=
  match evs with [] => t0 | (now, _) :: r => last_time r now end.

(* a history the scheduler can produce: instants do not go back; a frame is handled no later than the armed deadline, a
   time-out exactly at it (and in a state that has a time-out handler); no handler raises; nothing is handled after the
   transaction left the table *)
Fixpoint valid_run (evs : list (Z * cevent)) (s : ssm) (ctr tprev : Z) : Prop :=
  match evs with
  | [] => True
  | (now, ev) :: r =>
    tprev <= now /\
    (exists w c, s_timer s = Some (w, c) /\
                 match ev with Timeout => now = w /\ c_state_ok s = true | Rx _ => now <= w end) /\
    snd (c_handle ev s ctr now) = None /\
    (if h_live (fst (c_handle ev s ctr now))
     then valid_run r (h_s (fst (c_handle ev s ctr now))) (h_ctr (fst (c_handle ev s ctr now))) now
     else r = [])
  end.

Lemma set_timer_counters : forall s, cnt_ok (set_timer_f None s) = cnt_ok s /\ budget (set_timer_f None s) = budget s /\
  Tmax (set_timer_f None s) = Tmax s /\ s_retries (set_timer_f None s) = s_retries s /\ terminal (set_timer_f None s) = terminal s.
Proof. intros s. destruct_ssm s. repeat split. Qed.

Lemma step_facts : forall ev s ctr now tprev, c_ready s -> cnt_ok s -> tprev <= now ->
  (forall w c, s_timer s = Some (w, c) -> w <= tprev + Tmax s) ->
  (match ev with Timeout => c_state_ok s = true | Rx _ => True end) ->
  snd (c_handle ev s ctr now) = None ->
  h_live (fst (c_handle ev s ctr now)) = true ->
  let s' := h_s (fst (c_handle ev s ctr now)) in
  c_ready s' /\ cnt_ok s' /\ Tmax s' = Tmax s /\ s_retries s' = s_retries s /\
  (forall w c, s_timer s' = Some (w, c) -> w <= now + Tmax s) /\
  (match ev with Timeout => budget s' < budget s | Rx _ => budget s' <= budget s + s_retries s end).
Proof.
  intros ev s ctr now tprev Hr Hc Ht Hd Hok He Hl.
  destruct (c_handle_step ev s ctr now Hr) as (_ & _ & Hready & _). specialize (Hready Hl).
  destruct Hr as (Hterm & Ha & Hs).
  destruct ev as [a|]; unfold c_handle in *.
  - assert (Hpre : pre (mkH s [] ctr now true)) by (repeat split; auto).
    destruct (c_confirmation_post a _ Hpre) as (_ & _ & Hcfg & _).
    destruct Hcfg as (_ & Hc0 & Hc1 & Hc2 & _). cbn [h_s] in Hc0, Hc1, Hc2.
    destruct (c_confirmation_w a (mkH s [] ctr now true)) as (Hrty & Hw1 & Hw2 & Hw3). cbn [h_s h_now] in *.
    set (s' := h_s (fst (c_confirmation a (mkH s [] ctr now true)))) in *.
    cbv zeta. split; [exact Hready|]. split; [|split; [|split; [|split]]].
    + unfold cnt_ok. rewrite Hw1, Hrty. destruct Hc as ((? & ?) & (? & ?)). destruct Hw2 as [->| ->]; lia.
    + unfold Tmax. rewrite Hc1, Hc2. reflexivity.
    + exact Hw1.
    + intros w c Hwc. destruct (Hw3 w c Hwc) as [H|H]; [exact H|]. apply Hd in H. lia.
    + unfold budget. rewrite Hw1, Hrty. destruct Hc as ((? & ?) & (? & ?)). destruct Hw2 as [->| ->]; nia.
  - destruct (set_timer_counters s) as (S1 & S2 & S3 & S4 & S5).
    assert (Hpre : pre (mkH (set_timer_f None s) [] ctr now true)).
    { repeat split; auto; destruct_ssm s; assumption. }
    assert (Hok' : c_state_ok (h_s (mkH (set_timer_f None s) [] ctr now true)) = true) by (destruct_ssm s; exact Hok).
    destruct (c_process_task_post _ Hpre Hok') as (_ & _ & Hcfg & _).
    destruct Hcfg as (_ & Hc0 & Hc1 & Hc2 & _). cbn [h_s] in Hc0, Hc1, Hc2.
    assert (Hb := timeout_budget (mkH (set_timer_f None s) [] ctr now true) eq_refl).
    cbn [h_s] in Hb. rewrite S5, S1, S2 in Hb. specialize (Hb Hterm Hc He Hl). destruct Hb as (Hb1 & Hb2).
    pose proof (c_process_task_deadline (mkH (set_timer_f None s) [] ctr now true)) as Hdl. cbn [h_s h_now] in Hdl.
    cbv zeta. split; [exact Hready|]. split; [exact Hb2|]. split; [|split; [|split]].
    + unfold Tmax. rewrite Hc1, Hc2. fold (Tmax (set_timer_f None s)). exact S3.
    + rewrite Hc0. exact S4.
    + intros w c Hwc. destruct (Hdl w c Hwc) as [H|H]; [rewrite S3 in H; exact H|].
      destruct_ssm s. discriminate H.
    + exact Hb1.
Qed.

(* the composition: in a scheduled history with K received frames there are at most budget + K*retries + 1 time-outs,
   and the i-th event happens no later than i * max(apduTimeout, segmentTimeout) after the start *)
Lemma run_bound : forall evs s ctr tprev, c_ready s -> cnt_ok s ->
  (forall w c, s_timer s = Some (w, c) -> w <= tprev + Tmax s) ->
  valid_run evs s ctr tprev ->
  n_to evs <= budget s + n_rx evs * s_retries s + 1 /\
  last_time evs tprev <= tprev + (n_rx evs + n_to evs) * Tmax s /\ 0 <= n_rx evs.
Proof.
  induction evs as [|[now ev] r IH]; intros s ctr tprev Hr Hc Hd Hv.
  - cbn. pose proof (budget_nonneg s Hc). lia.
  - cbn [valid_run] in Hv. destruct Hv as (Ht & (w & c & Hw & Hev) & He & Hrest).
    assert (HT : 0 < Tmax s) by (destruct Hr as (_ & ? & ?); unfold Tmax; lia).
    assert (Hnow : now <= tprev + Tmax s).
    { apply Hd in Hw. destruct ev; [lia | destruct Hev; lia]. }
    assert (HR : 0 <= s_retries s) by (destruct Hc as ((? & ?) & _); lia).
    destruct (h_live (fst (c_handle ev s ctr now))) eqn:El.
    + assert (Hok : match ev with Timeout => c_state_ok s = true | Rx _ => True end) by (destruct ev; [exact I | tauto]).
      destruct (step_facts ev s ctr now tprev Hr Hc Ht Hd Hok He El) as (Hr' & Hc' & HT' & HR' & Hd' & Hb).
      rewrite <- HT' in Hd'.
      destruct (IH _ _ now Hr' Hc' Hd' Hrest) as (I1 & I2 & I3). rewrite HT', HR' in *.
      destruct ev; cbn [n_to n_rx last_time]; repeat split; try nia.
    + subst r. pose proof (budget_nonneg s Hc). destruct ev; cbn [n_to n_rx last_time]; repeat split; nia.
Qed.

(* C04_outcome_within: every event of a scheduled history — in particular the one that delivers the outcome — happens
   within (K + budget + K*retries + 1) * max(apduTimeout, segmentTimeout) of the start, K = number of frames received *)
Lemma outcome_within : forall evs s ctr t0, c_ready s -> cnt_ok s ->
  (forall w c, s_timer s = Some (w, c) -> w <= t0 + Tmax s) ->
  valid_run evs s ctr t0 ->
  last_time evs t0 <= t0 + (budget s + n_rx evs * (s_retries s + 1) + 1) * Tmax s.
Proof.
  intros evs s ctr t0 Hr Hc Hd Hv.
  destruct (run_bound evs s ctr t0 Hr Hc Hd Hv) as (H1 & H2 & H3).
  assert (HT : 0 < Tmax s) by (destruct Hr as (_ & ? & ?); unfold Tmax; lia).
  nia.
Qed.

(* for a request just submitted (retryCount = segmentRetryCount = 0) the budget is retries^2 + 3*retries + 1 *)
Lemma fresh_budget : forall s, s_retry s = 0 -> s_segretry s = 0 -> budget s = s_retries s * s_retries s + 3 * s_retries s + 1.
Proof. intros s H1 H2. unfold budget. rewrite H1, H2. nia. Qed.
