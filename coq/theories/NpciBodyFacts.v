(* NpciBodyFacts.v — message bodies cut short or followed by more octets; histories. *)
From Bac Require Import Base BytesFacts Npci NpciFacts NpciMsgFacts.
From Coq Require Import ZifyBool ZifyN ZifyNat.
Ltac Zify.zify_post_hook ::= Z.to_euclidean_division_equations.
Open Scope N_scope.

(* messages whose decoder reads a fixed sequence of fields (the count octet of a routing table
   included): everything except the three network lists and Who-Is-Router (optional network) *)
Definition fixed_msg (m : msg) : bool :=
  match m with
  | WhoIsRouter _ | IAmRouter _ | RouterBusy _ | RouterAvailable _ => false
  | _ => true
  end.
Definition fixed_types : list N := [2; 3; 6; 7; 8; 9; 0x12; 0x13].

Lemma fixed_msg_type m : fixed_msg m = true -> In (msg_type m) fixed_types.
Proof. destruct m; cbn; intros H; try discriminate; tauto. Qed.

Lemma fixed_registered t : In t fixed_types -> In t registered_types.
Proof. cbn. intros H. repeat destruct H as [H|H]; subst; tauto. Qed.

(* ---------- fixed messages: the decoders extend along a longer buffer ---------- *)
Lemma dec_rtes_ext n : extensible (dec_rtes n).
Proof.
  induction n as [|n IH]; intros a x r y H; cbn [dec_rtes] in *.
  - injection H as <- <-. reflexivity.
  - step_ext get_short_ext. step_ext get_ext. step_ext get_ext.
    step_ext (get_data_ext n2). step_ext IH.
    injection H as <- <-. reflexivity.
Qed.

Lemma dec_table_ext : extensible dec_table.
Proof.
  intros a x r y H. unfold dec_table in *.
  step_ext get_ext. exact (dec_rtes_ext _ _ _ _ y H).
Qed.

Lemma dec_msg_ext t : In t fixed_types -> extensible (dec_msg t).
Proof.
  intros Ht. cbn [In fixed_types] in Ht.
  repeat destruct Ht as [Ht|Ht]; try contradiction; subst t;
    intros a x r y H; cbn [dec_msg N.eqb Pos.eqb] in *.
  - step_ext get_short_ext. step_ext get_ext. injection H as <- <-. reflexivity.
  - step_ext get_ext. step_ext get_short_ext. injection H as <- <-. reflexivity.
  - step_ext dec_table_ext. injection H as <- <-. reflexivity.
  - step_ext dec_table_ext. injection H as <- <-. reflexivity.
  - step_ext get_short_ext. step_ext get_ext. injection H as <- <-. reflexivity.
  - step_ext get_short_ext. injection H as <- <-. reflexivity.
  - injection H as <- <-. reflexivity.
  - step_ext get_short_ext. step_ext get_ext. injection H as <- <-. reflexivity.
Qed.

(* trailing octets after a fixed message are left untouched in the buffer *)
Lemma msg_trailing_fixed m : wf_msg m = true -> fixed_msg m = true ->
  exists bs, enc_msg m = Ok bs /\ forall x, dec_msg (msg_type m) (bs ++ x) = Ok (m, x).
Proof.
  intros Hw Hf. destruct (msg_roundtrip m Hw) as (bs & Eb & Db). exists bs. split; [exact Eb|].
  intros x. exact (dec_msg_ext _ (fixed_msg_type m Hf) _ _ _ x Db).
Qed.

(* every proper prefix of a fixed message body is refused *)
Lemma msg_truncated_fixed m bs k : wf_msg m = true -> fixed_msg m = true -> enc_msg m = Ok bs ->
  (k < length bs)%nat -> dec_msg (msg_type m) (firstn k bs) = Err DecodingError.
Proof.
  intros Hw Hf Eb Hk. destruct (msg_roundtrip m Hw) as (bs' & Eb' & Db).
  rewrite Eb in Eb'. injection Eb' as <-.
  pose proof (fixed_msg_type m Hf) as Ht.
  destruct (dec_msg (msg_type m) (firstn k bs)) as [[m' r]|e] eqn:E.
  - exfalso. apply (dec_msg_ext _ Ht _ _ _ (skipn k bs)) in E. rewrite firstn_skipn in E.
    rewrite Db in E. injection E as _ E. symmetry in E. apply app_eq_nil in E as [_ E].
    apply (f_equal (@length N)) in E. rewrite skipn_length in E. cbn [length] in E. lia.
  - f_equal. exact (dec_msg_registered _ _ _ (fixed_registered _ Ht) E).
Qed.

(* ---------- network lists ---------- *)
Lemma put_nets_length l : length (put_nets l) = (2 * length l)%nat.
Proof.
  induction l as [|n l IH]; [reflexivity|].
  unfold put_nets. cbn [flat_map]. rewrite app_length. fold (put_nets l). rewrite IH.
  unfold put_short, be2. cbn [length]. lia.
Qed.

(* octets after a list are read as further networks: the decoder consumes the whole buffer *)
Lemma dec_nets_app l x : wf_nets l = true ->
  dec_nets (put_nets l ++ x) = do l' <- dec_nets x; Ok (l ++ l').
Proof.
  induction l as [|n l IH]; intros H.
  - cbn [put_nets flat_map app]. destruct (dec_nets x); reflexivity.
  - cbn [wf_nets forallb] in H. apply andb_true_iff in H as [Hn Hl].
    unfold put_nets. cbn [flat_map]. rewrite put_short_small by lia. cbn [app dec_nets].
    fold (put_nets l). rewrite IH by exact Hl.
    destruct (dec_nets x) as [l'|e]; cbn [bind]; [|reflexivity].
    f_equal. cbn [app]. f_equal. lia.
Qed.

(* a prefix of an encoded list: an even cut gives the shorter list, an odd cut is refused *)
Lemma dec_nets_prefix l : wf_nets l = true -> forall k, (k <= 2 * length l)%nat ->
  dec_nets (firstn k (put_nets l))
  = if Nat.even k then Ok (firstn (Nat.div2 k) l) else Err DecodingError.
Proof.
  induction l as [|n l IH]; intros H k Hk.
  - cbn [length] in Hk. assert (k = 0%nat) as -> by lia. reflexivity.
  - cbn [wf_nets forallb] in H. apply andb_true_iff in H as [Hn Hl].
    unfold put_nets. cbn [flat_map]. rewrite put_short_small by lia. cbn [app].
    fold (put_nets l).
    destruct k as [|[|k]].
    + reflexivity.
    + reflexivity.
    + cbn [firstn dec_nets]. cbn [length] in Hk. rewrite (IH Hl k) by lia.
      change (Nat.even (S (S k))) with (Nat.even k).
      change (Nat.div2 (S (S k))) with (S (Nat.div2 k)).
      destruct (Nat.even k); cbn [bind]; [|reflexivity].
      cbn [firstn]. f_equal. f_equal. lia.
Qed.

Definition nets_ctor (t : N) : option (list N -> msg) :=
  if t =? 1 then Some IAmRouter else if t =? 4 then Some RouterBusy
  else if t =? 5 then Some RouterAvailable else None.

Lemma dec_msg_nets t c bs : nets_ctor t = Some c ->
  dec_msg t bs = do l <- dec_nets bs; Ok (c l, []).
Proof.
  unfold nets_ctor.
  destruct (t =? 1) eqn:E1; [assert (t = 1) as -> by lia; intros H; injection H as <-; reflexivity|].
  destruct (t =? 4) eqn:E4; [assert (t = 4) as -> by lia; intros H; injection H as <-; reflexivity|].
  destruct (t =? 5) eqn:E5; [assert (t = 5) as -> by lia; intros H; injection H as <-; reflexivity|].
  discriminate.
Qed.

Lemma msg_trailing_nets t c l x : nets_ctor t = Some c -> wf_nets l = true ->
  enc_msg (c l) = Ok (put_nets l)
  /\ dec_msg t (put_nets l ++ x) = do l' <- dec_nets x; Ok (c (l ++ l'), []).
Proof.
  intros Hc Hl. split.
  - unfold nets_ctor in Hc.
    destruct (t =? 1); [injection Hc as <-; reflexivity|].
    destruct (t =? 4); [injection Hc as <-; reflexivity|].
    destruct (t =? 5); [injection Hc as <-; reflexivity|]. discriminate.
  - rewrite (dec_msg_nets t c _ Hc), dec_nets_app by exact Hl.
    destruct (dec_nets x); reflexivity.
Qed.

Lemma msg_truncated_nets t c l k : nets_ctor t = Some c -> wf_nets l = true ->
  (k <= length (put_nets l))%nat ->
  dec_msg t (firstn k (put_nets l))
  = if Nat.even k then Ok (c (firstn (Nat.div2 k) l), []) else Err DecodingError.
Proof.
  intros Hc Hl Hk. rewrite put_nets_length in Hk.
  rewrite (dec_msg_nets t c _ Hc), (dec_nets_prefix l Hl k Hk).
  destruct (Nat.even k); reflexivity.
Qed.

(* ---------- Who-Is-Router-To-Network: the network is optional ---------- *)
Lemma who_is_shapes :
  dec_msg 0 [] = Ok (WhoIsRouter None, [])
  /\ (forall a, dec_msg 0 [a] = Err DecodingError)
  /\ (forall a b x, dec_msg 0 (a :: b :: x) = Ok (WhoIsRouter (Some (a * 256 + b)), x)).
Proof. repeat split. Qed.

Lemma who_is_truncated_trailing n : n < 65536 ->
  enc_msg (WhoIsRouter (Some n)) = Ok (put_short n)
  /\ dec_msg 0 (firstn 0 (put_short n)) = Ok (WhoIsRouter None, [])
  /\ dec_msg 0 (firstn 1 (put_short n)) = Err DecodingError
  /\ forall x, dec_msg 0 (put_short n ++ x) = Ok (WhoIsRouter (Some n), x).
Proof.
  intros H. split; [reflexivity|]. rewrite put_short_small by lia.
  split; [reflexivity|]. split; [reflexivity|]. intros x.
  change (dec_msg 0 ((n / 256 :: n mod 256 :: []) ++ x)) with
    (do (n', r) <- get_short (n / 256 :: n mod 256 :: x); Ok (WhoIsRouter (Some n'), r)).
  rewrite get_short_net by lia. reflexivity.
Qed.

(* ---------- histories: decoding is a function of the octets alone ---------- *)
Lemma history_independent (before before' after : list op) (o : op) :
  nth (length before) (run_history (before ++ o :: after)) (run_op o) = run_op o
  /\ nth (length before) (run_history (before ++ o :: after)) (run_op o)
     = nth (length before') (run_history (before' ++ o :: [])) (run_op o).
Proof.
  assert (A : forall b a, nth (length b) (run_history (b ++ o :: a)) (run_op o) = run_op o).
  { intros b a. unfold run_history. rewrite map_app. cbn [map].
    rewrite app_nth2; rewrite map_length; [|lia]. rewrite Nat.sub_diag. reflexivity. }
  split; [apply A|]. rewrite !A. reflexivity.
Qed.

Lemma history_app h1 h2 : run_history (h1 ++ h2) = run_history h1 ++ run_history h2.
Proof. apply map_app. Qed.
