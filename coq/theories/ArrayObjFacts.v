(* ArrayObjFacts.v — lemmas about ArrayObj.v: the representation invariant of an ArrayOf object
   (cell 0 = number of element cells, every other cell an element) is established by the constructor and
   kept by every method; the object-level codec agrees with Codec.v's TArrayOf; whole-array and per-item
   round trips; Any.cast_out answers the elements and never the count. *)
From Bac Require Import Base.
From Bac Require Import BytesFacts.
From Bac Require Import Tag.
From Bac Require Import TagFacts.
From Bac Require Import Schema.
From Bac Require Import Codec.
From Bac Require Import CodecFacts.
From Bac Require Import Prim.
From Bac Require Import PrimInt.
From Bac Require Import ArrayObj.
From Coq Require Import ZifyBool ZifyN ZifyNat.
Ltac Zify.zify_post_hook ::= Z.to_euclidean_division_equations.
Open Scope N_scope.

Definition arr_of (vs : list val) : aval := CCount (lenN vs) :: map CItem vs.
Definition arr_ok (a : aval) : Prop := exists vs, a = arr_of vs.

Lemma cells_items_map vs : cells_items (map CItem vs) = Ok vs.
Proof. induction vs as [|v r IH]; cbn [map cells_items]; [reflexivity|]. rewrite IH. reflexivity. Qed.

Lemma arr_items_of vs : arr_items (arr_of vs) = Ok vs.
Proof. unfold arr_items, arr_of. cbn [tl]. apply cells_items_map. Qed.

Lemma count_of_of vs : count_of (arr_of vs) = Ok (lenN vs).
Proof. reflexivity. Qed.

(* the count is not an element: what the iterator / encoder / cast_out see has exactly `count` entries *)
Lemma arr_ok_items a : arr_ok a -> exists vs, arr_items a = Ok vs /\ count_of a = Ok (lenN vs) /\ a = arr_of vs.
Proof. intros [vs ->]. exists vs. rewrite arr_items_of. auto. Qed.

(* ---------- the methods on a well-formed object ---------- *)
Definition resize (dflt : val) (new : N) (vs : list val) : list val :=
  if new <? lenN vs then firstn (N.to_nat new) vs
  else vs ++ repeat dflt (N.to_nat new - length vs).

Lemma resize_len dflt new vs : lenN (resize dflt new vs) = new.
Proof.
  unfold resize, lenN. destruct (new <? N.of_nat (length vs)) eqn:E.
  - rewrite firstn_length. lia.
  - rewrite app_length, repeat_length. lia.
Qed.

Lemma fix_length_of dflt new vs : fix_length dflt new (arr_of vs) = Ok (arr_of (resize dflt new vs)).
Proof.
  unfold fix_length.
  assert (L : length (arr_of vs) = S (length vs)) by (unfold arr_of; cbn [length]; rewrite map_length; reflexivity).
  rewrite L.
  transitivity (Ok (CCount new :: map CItem (resize dflt new vs))).
  2: { unfold arr_of. rewrite resize_len. reflexivity. }
  unfold resize, lenN.
  destruct (S (N.to_nat new) <? S (length vs))%nat eqn:E1; destruct (new <? N.of_nat (length vs)) eqn:E2; try lia.
  - unfold arr_of. cbn [firstn set_count]. rewrite firstn_map. reflexivity.
  - unfold arr_of. cbn [app set_count]. rewrite map_app. f_equal. f_equal. f_equal.
    replace (S (N.to_nat new) - S (length vs))%nat with (N.to_nat new - length vs)%nat by lia.
    induction (N.to_nat new - length vs)%nat as [|k IH]; cbn [repeat map]; [reflexivity|]. rewrite IH. reflexivity.
Qed.

Lemma arr_append_of v vs : arr_append None v (arr_of vs) = Ok (arr_of (vs ++ [v])).
Proof.
  unfold arr_append, arr_of. cbn [app set_count]. rewrite map_app. cbn [map].
  f_equal. f_equal. f_equal. unfold lenN. cbn [length]. rewrite !app_length, map_length. cbn [length]. lia.
Qed.

Fixpoint upd (j : nat) (v : val) (vs : list val) : list val :=
  match vs, j with
  | [], _ => []
  | _ :: r, O => v :: r
  | x :: r, S k => x :: upd k v r
  end.
Lemma upd_len j v vs : length (upd j v vs) = length vs.
Proof. revert j; induction vs as [|x r IH]; intros [|k]; cbn [upd length]; auto. Qed.

Lemma set_nth_map j v vs : (j < length vs)%nat -> set_nth j (CItem v) (map CItem vs) = Ok (map CItem (upd j v vs)).
Proof.
  revert j; induction vs as [|x r IH]; intros j H; cbn [length] in H; [lia|].
  destruct j as [|k]; cbn [map set_nth upd]; [reflexivity|]. rewrite IH by lia. reflexivity.
Qed.

Lemma arr_set_of i v vs : 1 <= i -> i <= lenN vs ->
  arr_set i v (arr_of vs) = Ok (arr_of (upd (N.to_nat i - 1) v vs)).
Proof.
  intros H1 H2. unfold arr_set. rewrite count_of_of. cbn [bind].
  destruct (lenN vs <? i) eqn:E; [lia|]. destruct (i =? 0) eqn:E0; [lia|].
  unfold arr_of. destruct (N.to_nat i) as [|k] eqn:Ek; [lia|].
  cbn [set_nth]. unfold lenN in *. rewrite set_nth_map by lia. cbn [bind].
  replace (S k - 1)%nat with k by lia. rewrite upd_len. reflexivity.
Qed.

Fixpoint drop_nth (j : nat) (vs : list val) : list val :=
  match vs, j with
  | [], _ => []
  | _ :: r, O => r
  | x :: r, S k => x :: drop_nth k r
  end.
Lemma drop_nth_len j vs : (j < length vs)%nat -> S (length (drop_nth j vs)) = length vs.
Proof.
  revert j; induction vs as [|x r IH]; intros j H; cbn [length] in H; [lia|].
  destruct j as [|k]; cbn [drop_nth length]; [reflexivity|]. rewrite IH by lia. reflexivity.
Qed.
Lemma del_nth_map j vs : (j < length vs)%nat -> del_nth j (map CItem vs) = Ok (map CItem (drop_nth j vs)).
Proof.
  revert j; induction vs as [|x r IH]; intros j H; cbn [length] in H; [lia|].
  destruct j as [|k]; cbn [map del_nth drop_nth]; [reflexivity|]. rewrite IH by lia. reflexivity.
Qed.

Lemma arr_del_of i vs : 1 <= i -> i <= lenN vs ->
  arr_del None i (arr_of vs) = Ok (arr_of (drop_nth (N.to_nat i - 1) vs)).
Proof.
  intros H1 H2. unfold arr_del. rewrite count_of_of. cbn [bind].
  destruct ((i <? 1) || (lenN vs <? i)) eqn:E; [lia|].
  unfold arr_of. destruct (N.to_nat i) as [|k] eqn:Ek; [lia|].
  cbn [del_nth]. unfold lenN in *. rewrite del_nth_map by lia. cbn [bind set_count].
  replace (S k - 1)%nat with k by lia.
  pose proof (drop_nth_len k vs ltac:(lia)) as L. f_equal. f_equal. f_equal. lia.
Qed.

Lemma arr_decode_ok s fixed ts a r : arr_decode s fixed ts = Ok (a, r) ->
  exists vs, a = arr_of vs /\ dec_loop (decode s) (S (length ts)) ts = Ok (vs, r)
             /\ match fixed with Some n => lenN vs = n | None => True end.
Proof.
  unfold arr_decode. destruct (dec_loop (decode s) (S (length ts)) ts) as [[vs r']|e]; cbn [bind]; [|discriminate].
  destruct fixed as [n|].
  - destruct (lenN vs =? n) eqn:E; cbn [negb]; [|discriminate].
    intros H; injection H as <- <-. exists vs. repeat split. lia.
  - intros H; injection H as <- <-. exists vs. repeat split.
Qed.

(* ---------- the invariant: established by the constructor, kept by every call ---------- *)
Theorem arr_new_ok fixed dflt init a : arr_new fixed dflt init = Ok a ->
  arr_ok a /\ (forall n, fixed = Some n -> count_of a = Ok n)
  /\ (forall vs, init = Some vs -> a = arr_of vs).
Proof.
  unfold arr_new. destruct init as [vs|].
  - destruct fixed as [n|].
    + destruct (lenN vs =? n) eqn:E; cbn [negb]; [|discriminate]. intros H; injection H as <-.
      split; [exists vs; reflexivity|]. split.
      * intros m Hm; injection Hm as <-. cbn [count_of]. f_equal. lia.
      * intros ws Hw; injection Hw as <-. reflexivity.
    + intros H; injection H as <-. split; [exists vs; reflexivity|]. split; [discriminate|].
      intros ws Hw; injection Hw as <-. reflexivity.
  - destruct fixed as [n|].
    + change [CCount 0] with (arr_of []). rewrite fix_length_of. intros H; injection H as <-.
      split; [eexists; reflexivity|]. split; [|discriminate].
      intros m Hm; injection Hm as <-. rewrite count_of_of, resize_len. reflexivity.
    + intros H; injection H as <-. split; [exists []; reflexivity|]. split; discriminate.
Qed.

Theorem arr_step_ok s fixed dflt op a a' : arr_ok a -> arr_step s fixed dflt op a = Ok a' -> arr_ok a'.
Proof.
  intros [vs ->]. destruct op as [v|n|i v|i|ts]; cbn [arr_step].
  - destruct fixed; [cbn [arr_append]; discriminate|]. rewrite arr_append_of. intros H; injection H as <-. eexists; reflexivity.
  - unfold arr_set_len. rewrite count_of_of. cbn [bind]. destruct fixed as [m|].
    + destruct (negb (n =? lenN vs)); [discriminate|]. intros H; injection H as <-. eexists; reflexivity.
    + rewrite fix_length_of. intros H; injection H as <-. eexists; reflexivity.
  - destruct (i =? 0) eqn:E0.
    + unfold arr_set. rewrite count_of_of. cbn [bind]. replace i with 0 by lia.
      destruct (lenN vs <? 0) eqn:E; [lia|]. cbn [N.eqb]. discriminate.
    + destruct (lenN vs <? i) eqn:E.
      * unfold arr_set. rewrite count_of_of. cbn [bind]. rewrite E. discriminate.
      * rewrite arr_set_of by lia. intros H; injection H as <-. eexists; reflexivity.
  - destruct fixed; [cbn [arr_del]; discriminate|].
    destruct ((i <? 1) || (lenN vs <? i)) eqn:E.
    + unfold arr_del. rewrite count_of_of. cbn [bind]. rewrite E. discriminate.
    + rewrite arr_del_of by lia. intros H; injection H as <-. eexists; reflexivity.
  - destruct (arr_decode s fixed ts) as [[a'' r]|e] eqn:E; cbn [bind]; [|discriminate].
    intros H; injection H as <-. apply arr_decode_ok in E. destruct E as (ws & -> & _). exists ws; reflexivity.
Qed.

(* a fixed-length array keeps its length whatever is called on it *)
Theorem arr_step_fixed s n dflt op a a' : arr_ok a -> count_of a = Ok n ->
  arr_step s (Some n) dflt op a = Ok a' -> count_of a' = Ok n.
Proof.
  intros [vs ->] Hc. rewrite count_of_of in Hc. injection Hc as Hc.
  destruct op as [v|m|i v|i|ts]; cbn [arr_step arr_append arr_del]; try discriminate.
  - unfold arr_set_len. rewrite count_of_of. cbn [bind]. destruct (negb (m =? lenN vs)); [discriminate|].
    intros H; injection H as <-. rewrite count_of_of. f_equal. exact Hc.
  - destruct (i =? 0) eqn:E0.
    + unfold arr_set. rewrite count_of_of. cbn [bind]. replace i with 0 by lia.
      destruct (lenN vs <? 0) eqn:E; [lia|]. cbn [N.eqb]. discriminate.
    + destruct (lenN vs <? i) eqn:E.
      * unfold arr_set. rewrite count_of_of. cbn [bind]. rewrite E. discriminate.
      * rewrite arr_set_of by lia. intros H; injection H as <-. rewrite count_of_of. f_equal.
        unfold lenN in *. rewrite upd_len. exact Hc.
  - destruct (arr_decode s (Some n) ts) as [[a'' r]|e] eqn:E; cbn [bind]; [|discriminate].
    intros H; injection H as <-. apply arr_decode_ok in E. destruct E as (ws & -> & _ & L).
    rewrite count_of_of. f_equal. exact L.
Qed.

Theorem arr_run_ok s fixed dflt ops : forall a, arr_ok a -> arr_ok (snd (arr_run s fixed dflt ops a)).
Proof.
  induction ops as [|op r IH]; intros a Ha; cbn [arr_run snd]; [exact Ha|].
  destruct (arr_step s fixed dflt op a) as [a'|e] eqn:E.
  - specialize (IH a' (arr_step_ok _ _ _ _ _ _ Ha E)). destruct (arr_run s fixed dflt r a'). exact IH.
  - specialize (IH a Ha). destruct (arr_run s fixed dflt r a). exact IH.
Qed.

(* ---------- agreement with Codec.v's TArrayOf ---------- *)
Lemma arr_encode_of s vs : arr_encode s (arr_of vs) = enc_list (encode s) vs.
Proof. unfold arr_encode. rewrite arr_items_of. reflexivity. Qed.

Lemma arr_decode_tie s fixed ts :
  decode (TArrayOf s fixed) ts = do (a, r) <- arr_decode s fixed ts; do vs <- arr_items a; Ok (VList vs, r).
Proof.
  cbn [decode]. unfold arr_decode.
  destruct (dec_loop (decode s) (S (length ts)) ts) as [[vs r]|e]; cbn [bind]; [|reflexivity].
  destruct fixed as [n|].
  - destruct (lenN vs =? n); cbn [negb bind]; [|reflexivity]. change (CCount (lenN vs) :: map CItem vs) with (arr_of vs).
    rewrite arr_items_of. reflexivity.
  - cbn [bind]. change (CCount (lenN vs) :: map CItem vs) with (arr_of vs). rewrite arr_items_of. reflexivity.
Qed.

(* Any.cast_out(ArrayOf class) in the object model = Codec.cast_out at TArrayOf: the element list *)
Theorem arr_cast_out_tie s fixed ts :
  cast_out (TArrayOf s fixed) ts = do vs <- arr_cast_out s fixed ts; Ok (VList vs).
Proof.
  unfold cast_out, arr_cast_out. rewrite arr_decode_tie.
  destruct (arr_decode s fixed ts) as [[a r]|e] eqn:E; cbn [bind]; [|reflexivity].
  apply arr_decode_ok in E. destruct E as (vs & -> & _). rewrite arr_items_of. cbn [bind].
  destruct r; reflexivity.
Qed.

(* ---------- round trips ---------- *)
Theorem arr_obj_roundtrip s fixed vs ts rest :
  supported (TArrayOf s fixed) = true -> wf_ty (TArrayOf s fixed) = true ->
  has_ty (TArrayOf s fixed) (VList vs) -> arr_encode s (arr_of vs) = Ok ts -> rest_ok [PAny] rest ->
  arr_decode s fixed (ts ++ rest) = Ok (arr_of vs, rest) /\ arr_cast_out s fixed ts = Ok vs.
Proof.
  intros Hs Hw Ht He Hr. rewrite arr_encode_of in He.
  assert (Henc : encode (TArrayOf s fixed) (VList vs) = Ok ts).
  { cbn [encode]. destruct fixed as [n|]; [|exact He]. destruct Ht as [_ L]. destruct (lenN vs =? n) eqn:E; [exact He|lia]. }
  assert (D : forall rest', rest_ok [PAny] rest' ->
              arr_decode s fixed (ts ++ rest') = Ok (arr_of vs, rest')).
  { intros rest' Hr'. pose proof (roundtrip _ Hs Hw _ _ rest' Ht Henc Hr') as R.
    rewrite arr_decode_tie in R.
    destruct (arr_decode s fixed (ts ++ rest')) as [[a r]|e] eqn:E; cbn [bind] in R; [|discriminate].
    apply arr_decode_ok in E. destruct E as (ws & -> & _). rewrite arr_items_of in R. cbn [bind] in R.
    injection R as -> ->. reflexivity. }
  split; [exact (D rest Hr)|].
  unfold arr_cast_out. specialize (D [] I). rewrite app_nil_r in D. rewrite D. cbn [bind]. apply arr_items_of.
Qed.

(* index 0 on the wire is the count as an Unsigned, and it reads back as the count *)
Lemma spec_min_unsigned_len n : lenN (spec_min_unsigned n) =? 0 = false.
Proof.
  unfold spec_min_unsigned.
  destruct (n <? 256); [reflexivity|]. destruct (n <? 65536); [reflexivity|]. destruct (n <? 16777216); reflexivity.
Qed.

Theorem arr_item_roundtrip_count s dflt vs : lenN vs < 4294967296 ->
  exists t, arr_encode_item s 0 (arr_of vs) = Ok [t] /\
            forall rest, arr_decode_item s dflt 0 ([t] ++ rest) = Ok (CCount (lenN vs), rest).
Proof.
  intros H. unfold arr_encode_item, count_tag. cbn [N.eqb]. rewrite count_of_of. cbn [bind].
  rewrite enc_unsigned_spec by lia. cbn [bind]. rewrite N2Z.id.
  eexists. split; [reflexivity|]. intros rest. unfold arr_decode_item. cbn [N.eqb app].
  unfold atom_check. cbn [cls num data]. cbn [N.eqb andb negb Pos.eqb].
  rewrite spec_min_unsigned_len. cbn [orb bind]. rewrite unbe_spec_min_unsigned. reflexivity.
Qed.

Lemma atomic_encode_single s v ts : is_atomic s = true -> encode s v = Ok ts -> exists x, ts = [x].
Proof.
  destruct s; cbn [is_atomic]; try discriminate; intros _; cbn [encode]; destruct v; try discriminate;
  intros H; injection H as <-; eexists; reflexivity.
Qed.

(* index i >= 1 on the wire is the i-th element, and it reads back as that element *)
Theorem arr_item_roundtrip_elem s dflt vs i v ts rest :
  supported s = true -> wf_ty s = true -> has_ty s v ->
  1 <= i -> nth_error vs (N.to_nat i - 1) = Some v ->
  arr_encode_item s i (arr_of vs) = Ok ts -> rest_ok (avoid s) rest ->
  encode s v = Ok ts /\ arr_decode_item s dflt i (ts ++ rest) = Ok (CItem v, rest).
Proof.
  intros Hs Hw Ht Hi Hn He Hr. unfold arr_encode_item in He.
  destruct (i =? 0) eqn:E0; [lia|].
  unfold arr_of in He. destruct (N.to_nat i) as [|k] eqn:Ek; [lia|]. cbn [nth_error] in He.
  replace (S k - 1)%nat with k in Hn by lia.
  rewrite nth_error_map, Hn in He. cbn [option_map] in He.
  split; [exact He|].
  pose proof (roundtrip _ Hs Hw _ _ rest Ht He Hr) as R.
  unfold arr_decode_item. rewrite E0.
  destruct (ts ++ rest) as [|x r] eqn:Ea.
  - destruct (is_atomic s) eqn:A.
    + destruct (atomic_encode_single _ _ _ A He) as [x ->]. discriminate.
    + rewrite R. reflexivity.
  - rewrite R. destruct (is_atomic s); reflexivity.
Qed.
