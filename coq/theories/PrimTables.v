(* PrimTables.v — what C01 needs from the generated tables (gen/Enums.v): lookups by class name and
   the well-formedness predicates of the table obligations.  No proofs here (PrimFacts.v). *)
From Bac Require Export Prim.
From BacGen Require Export Enums.
Open Scope N_scope.

Fixpoint nodupb {A} (eqb : A -> A -> bool) (l : list A) : bool :=
  match l with
  | [] => true
  | x :: r => negb (existsb (eqb x) r) && nodupb eqb r
  end.

(* name <-> number is a bijection: no name twice, no number twice *)
Definition enum_bijective (tb : table) : bool :=
  nodupb String.eqb (map fst tb) && nodupb N.eqb (map snd tb).
(* every number fits what Enumerated.encode can pack *)
Definition enum_in_range (tb : table) : bool := forallb (fun p => snd p <? 4294967296) tb.

Definition bits_wf (b : N * table) : bool :=
  enum_bijective (snd b) && forallb (fun p => snd p <? fst b) (snd b).

Definition limits_of (name : string) : Z * option Z :=
  match find (fun p => String.eqb (fst p) name) unsigned_limits with
  | Some p => snd p
  | None => (0%Z, None)
  end.
Definition unsigned_ctor_of (name : string) (z : Z) : res prim :=
  unsigned_ctor (fst (limits_of name)) (snd (limits_of name)) z.

(* the whole table as the implementation sees it: per entry, the number its name maps to and the
   name that number maps back to (correspondence case 'table') *)
Definition table_dump (tb : table) : list Z :=
  flat_map (fun p =>
    match tbl_num tb (fst p) with
    | Some n => zN n :: match tbl_name tb n with Some s => canon_str s | None => [(-1)%Z] end
    | None => [(-2)%Z]
    end) tb.
