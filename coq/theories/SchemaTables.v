(* SchemaTables.v — table obligations about coq/gen/Schemas.v (re-checked by make on every run). *)
From Coq Require Import String.
From Bac Require Import Base.
From Bac Require Import Tag.
From Bac Require Import Schema.
From Bac Require Import Codec.
From BacGen Require Import Schemas.
Open Scope N_scope.

(* every definition of apdu.py / basetypes.py is LL(1)-deterministic: optional elements, choice
   alternatives and list items can be told apart by one tag; context numbers are encodable *)
Lemma C03_all_wf : forallb wf_ty all_types = true.
Proof. vm_compute. reflexivity. Qed.

(* no definition falls outside the fragment for which the round trip is proved (round 1: 12 did) *)
Definition unsupported_names : list string :=
  map fst (filter (fun p => negb (supported (snd p))) all_named).
Lemma C03_supported_or_listed : unsupported_names = [].
Proof. vm_compute. reflexivity. Qed.
Lemma C03_all_supported : forallb supported all_types = true.
Proof. vm_compute. reflexivity. Qed.

(* registries: service choices distinct, every registered class is a Sequence *)
Fixpoint nodupb (l : list N) : bool :=
  match l with [] => true | a :: r => negb (existsb (N.eqb a) r) && nodupb r end.
Definition is_seq (t : ty) : bool := match t with TSeq _ => true | _ => false end.
Definition registry_ok (r : list (N * ty)) : bool :=
  nodupb (map fst r) && forallb (fun p => is_seq (snd p) && (fst p <? 256)) r.
Lemma C03_registries_shape :
  registry_ok confirmed_request_types && registry_ok complex_ack_types &&
  registry_ok unconfirmed_request_types && registry_ok error_types = true
  /\ (length confirmed_request_types, length complex_ack_types,
      length unconfirmed_request_types, length error_types) = (27, 12, 11, 8)%nat.
Proof. vm_compute. split; reflexivity. Qed.

From Bac Require Import CodecFacts.
Lemma supported_or_listed : forall n t, In (n, t) all_named ->
  supported t = true \/ In n unsupported_names.
Proof.
  intros n t Hin. destruct (supported t) eqn:E; [left; reflexivity|right].
  unfold unsupported_names. apply in_map_iff. exists (n, t). split; [reflexivity|].
  apply filter_In. split; [exact Hin|]. cbn [snd]. rewrite E. reflexivity.
Qed.

Lemma all_types_wf t : In t all_types -> wf_ty t = true.
Proof. intros H. exact (proj1 (forallb_forall wf_ty all_types) C03_all_wf t H). Qed.

Lemma all_types_supported t : In t all_types -> supported t = true.
Proof. intros H. exact (proj1 (forallb_forall supported all_types) C03_all_supported t H). Qed.

Lemma tables_roundtrip : forall n t, In (n, t) all_named ->
  forall v ts rest, has_ty t v -> encode t v = Ok ts -> rest_ok (avoid t) rest ->
  decode t (ts ++ rest) = Ok (v, rest).
Proof.
  intros n t Hin. assert (Ht : In t all_types) by (unfold all_types; apply in_map_iff; exists (n, t); auto).
  apply roundtrip; [apply all_types_supported | apply all_types_wf]; exact Ht.
Qed.
