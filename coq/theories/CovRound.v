(* CovRound.v — whole notification ROUNDS, from one quiescent instant to the next: a write (or a burst of writes
   within one instant) followed by the drain of the deferred queue.  This composes the per-step facts
   (CovFacts.write_*, CovRun.execute_step, CovQueue.qinv) into the sentence of the property itself:
   "a change of at least the increment since the last reported value produces exactly one notification per
   active subscription carrying the current values; a smaller one produces none", and its companion for
   bursts: the value that becomes the new reference is the value that was actually REPORTED (the last one
   written in that instant), not the value that set the trigger. *)
From Coq Require Import ZifyBool ZifyN ZifyNat.
From Bac Require Import Base Cov CovFacts CovRun CovQueue.
Ltac Zify.zify_post_hook ::= Z.to_euclidean_division_equations.
Open Scope Z_scope.

(* ------------------------------------------------------------------ small facts *)
Lemma nth_error_upd_nth : forall {A} (f : A -> A) l i, nth_error (upd_nth i f l) i = option_map f (nth_error l i).
Proof. induction l as [|a r IH]; intros [|i]; cbn; auto. Qed.

Lemma last_cons : forall {A} (r : list A) v d, last (v :: r) d = last r v.
Proof.
  induction r as [|a r IH]; intros v d; [reflexivity|].
  change (last (v :: a :: r) d) with (last (a :: r) d). rewrite IH. symmetry. apply IH.
Qed.

Lemma set_queue_nil : forall s, queue s = [] -> set_queue s [] = s.
Proof. intros [n c os sb q] H. cbn in H. subst q. reflexivity. Qed.

(* what a write never touches *)
Lemma write_obj_det : forall o p v,
  oid (write_obj o p v) = oid o /\ gen (write_obj o p v) = gen o /\ bound (write_obj o p v) = bound o /\
  okind (write_obj o p v) = okind o.
Proof.
  intros o p v. unfold write_obj.
  repeat match goal with |- context [if ?b then _ else _] => destruct b end; destruct p; cbn; auto.
Qed.

(* a write of presentValue: the object's value is the written one whatever the detection does; flags, increment stay *)
Lemma write_pv_vals : forall o v, pv (write_obj o PPv v) = v /\ fl (write_obj o PPv v) = fl o /\ inc (write_obj o PPv v) = inc o.
Proof.
  intros o v. unfold write_obj.
  repeat match goal with |- context [if ?b then _ else _] => destruct b end; cbn; auto.
Qed.

(* on a triggered detection a write only stores the value *)
Lemma write_obj_triggered_eq : forall o p v, trig o = true -> write_obj o p v = set_val o p v.
Proof. intros o p v Ht. unfold write_obj. destruct (negb (bound o && tracked (okind o) p)); [reflexivity|]. rewrite Ht. reflexivity. Qed.

(* the reference the increment test of the next presentValue write uses: the last reported value, the value the
   object had before the write while nothing has been reported yet *)
Definition reference (o : obj) : Z := match prev o with Some x => x | None => pv o end.

Lemma write_pv_reference : forall o v, bound o = true -> trig o = false -> reports_prev (okind o) = true ->
  trig (write_obj o PPv v) = (inc o <=? Z.abs (v - reference o)) /\ prev (write_obj o PPv v) = Some (reference o).
Proof.
  intros o v Hb Ht Hk. unfold write_obj, reference.
  assert (Htr : tracked (okind o) PPv = true) by (destruct (okind o); try discriminate; reflexivity).
  rewrite Hb, Htr, Ht, Hk. cbn. rewrite inc_filter_abs. destruct (prev o); auto.
Qed.

Lemma find_obj_nth : forall os i o, NoDup (oids os) -> nth_error os i = Some o -> find_obj (oid o) os = Some o.
Proof. intros os i o Hnd N. apply find_obj_in; [exact Hnd|]. eapply nth_error_In; eauto. Qed.

(* ------------------------------------------------------------------ the pending state of one object *)
(* exactly the _execute of the live detection of object o is queued, and slot i holds its current record ox *)
Definition pending (s : st) (i : nat) (o ox : obj) : Prop :=
  queue s = [DExec (oid o) (gen o)] /\ nth_error (objs s) i = Some ox /\
  trig ox = true /\ bound ox = true /\ gen ox = gen o /\ oid ox = oid o.

(* A: a write at a quiescent instant *)
Lemma write_quiescent : forall s i p v o s1 o1,
  inv s -> queue s = [] -> nth_error (objs s) i = Some o -> has_prop (okind o) p = true ->
  bound o = true -> trig o = false -> step s (Write i p v) = (s1, o1) ->
  inv s1 /\ subs s1 = subs s /\ now s1 = now s /\ o_ntfs o1 = [] /\
  nth_error (objs s1) i = Some (write_obj o p v) /\
  (if trig (write_obj o p v) then pending s1 i o (write_obj o p v) else queue s1 = []).
Proof.
  intros s i p v o s1 o1 Hi Q N Hp Hb Ht S.
  destruct (step_facts s (Write i p v) _ _ Hi I S) as [Hi1 _]. split; [exact Hi1|].
  cbn [step] in S. unfold write_ev in S. rewrite N, Hp in S. inversion S; subst s1 o1; clear S.
  cbn [subs now o_ntfs objs queue]. split; [reflexivity|]. split; [reflexivity|]. split; [reflexivity|].
  assert (N1 : nth_error (upd_nth i (fun x => write_obj x p v) (objs s)) i = Some (write_obj o p v))
    by (rewrite nth_error_upd_nth, N; reflexivity).
  split; [exact N1|]. rewrite Ht, Q. cbn [negb andb app].
  destruct (write_obj_det o p v) as [W1 [W2 [W3 _]]].
  destruct (trig (write_obj o p v)) eqn:E; [|reflexivity].
  unfold pending. cbn [queue objs]. repeat split; auto. congruence.
Qed.

(* B: a further write in the same instant *)
Lemma write_pending : forall s i p v o ox s1 o1,
  inv s -> pending s i o ox -> has_prop (okind ox) p = true -> step s (Write i p v) = (s1, o1) ->
  inv s1 /\ subs s1 = subs s /\ now s1 = now s /\ o_ntfs o1 = [] /\ pending s1 i o (set_val ox p v).
Proof.
  intros s i p v o ox s1 o1 Hi [Q [N [Ht [Hb [Hg Ho]]]]] Hp S.
  destruct (step_facts s (Write i p v) _ _ Hi I S) as [Hi1 _]. split; [exact Hi1|].
  cbn [step] in S. unfold write_ev in S. rewrite N, Hp in S. inversion S; subst s1 o1; clear S.
  cbn [subs now o_ntfs objs queue]. split; [reflexivity|]. split; [reflexivity|]. split; [reflexivity|].
  rewrite Ht. cbn [negb andb]. unfold pending. cbn [queue objs]. split; [exact Q|].
  split. { rewrite nth_error_upd_nth, N. cbn. rewrite (write_obj_triggered_eq _ _ _ Ht). reflexivity. }
  destruct p; cbn; auto.
Qed.

(* C: the drain that follows *)
Lemma drain_pending : forall s i o ox s2 out,
  inv s -> pending s i o ox -> step s Drain = (s2, out) ->
  o_ntfs out = map (mk_ntf (now s) ox) (subs_of (oid o) (subs s)) /\
  queue s2 = [] /\ subs s2 = subs s /\ now s2 = now s /\
  find_obj (oid o) (objs s2) = Some (set_trig (report ox) false).
Proof.
  intros s i o ox s2 out [_ [Hnd _]] [Q [N [Ht [Hb [Hg Ho]]]]] S.
  pose proof (find_obj_nth _ _ _ Hnd N) as F. rewrite Ho in F.
  cbn [step] in S. unfold drain in S. rewrite Q in S. cbn [run_queue run_dfn] in S. cbn [objs set_queue] in S.
  rewrite F, Hb, Hg, Z.eqb_refl in S. cbn in S. inversion S; subst s2 out; clear S.
  cbn [o_ntfs queue subs now objs]. rewrite app_nil_r. repeat split; auto.
  apply (find_obj_upd _ _ _ ox F). cbn. rewrite oid_report. exact Ho.
Qed.

(* D: a drain at a quiescent instant does nothing *)
Lemma drain_quiescent : forall s s2 out, queue s = [] -> step s Drain = (s2, out) -> s2 = s /\ o_ntfs out = [].
Proof.
  intros s s2 out Q S. cbn [step] in S. unfold drain in S. rewrite Q in S. cbn in S. rewrite (set_queue_nil s Q) in S.
  inversion S; auto.
Qed.

(* ------------------------------------------------------------------ one write, one round *)
(* From a quiescent instant: a write to a bound object followed by the drain.  If the write sets the trigger, every
   subscription of the object gets exactly one notification with the values after the write and the detection
   ends untriggered with the reported value as reference; if not, nobody gets anything and the detection record is
   what the write left. *)
Theorem write_drain_round : forall s i p v o s1 o1 s2 out,
  inv s -> qinv s -> queue s = [] -> nth_error (objs s) i = Some o -> has_prop (okind o) p = true -> bound o = true ->
  step s (Write i p v) = (s1, o1) -> step s1 Drain = (s2, out) ->
  let o' := write_obj o p v in
  o_ntfs o1 = [] /\ queue s2 = [] /\ subs s2 = subs s /\ now s2 = now s /\
  (if trig o'
   then o_ntfs out = map (mk_ntf (now s) o') (subs_of (oid o) (subs s)) /\ NoDup (map nkey (o_ntfs out)) /\
        find_obj (oid o) (objs s2) = Some (set_trig (report o') false)
   else o_ntfs out = [] /\ find_obj (oid o) (objs s2) = Some o').
Proof.
  intros s i p v o s1 o1 s2 out Hi Hq Q N Hp Hb S1 S2 o'.
  assert (Ht : trig o = false).
  { destruct (pending_execute s o Hq (nth_error_In _ _ N)) as [_ [_ [_ H]]]. exact (H Q). }
  destruct (write_quiescent _ _ _ _ _ _ _ Hi Q N Hp Hb Ht S1) as [Hi1 [Hs [Hn [Ho1 [N1 P]]]]].
  split; [exact Ho1|]. fold o' in P, N1. destruct (trig o') eqn:E.
  - destruct (drain_pending _ _ _ _ _ _ Hi1 P S2) as [A [B [C [D F]]]]. rewrite Hs, Hn in *.
    repeat split; auto. rewrite A, map_map. unfold subs_of. cbn. apply (NoDup_map_filter key). apply Hi.
  - destruct (drain_quiescent _ _ _ P S2) as [-> A]. repeat split; auto.
    destruct Hi1 as [_ [Hnd1 _]]. pose proof (find_obj_nth _ _ _ Hnd1 N1) as F.
    destruct (write_obj_det o p v) as [W1 _]. unfold o' in F at 1. rewrite W1 in F. exact F.
Qed.

(* the sentence of the property for analog / pulse-converter objects.  `reference o` is the last reported value. *)
Theorem change_round_increment : forall s i v o s1 o1 s2 out,
  inv s -> qinv s -> queue s = [] -> nth_error (objs s) i = Some o -> bound o = true -> reports_prev (okind o) = true ->
  step s (Write i PPv v) = (s1, o1) -> step s1 Drain = (s2, out) ->
  o_ntfs o1 = [] /\ queue s2 = [] /\ subs s2 = subs s /\
  (inc o <= Z.abs (v - reference o) ->
     o_ntfs out = map (fun x => mkNtf (s_cli x) (s_proc x) (s_oid x) (s_conf x) (trem (now s) x) v (fl o) (now s))
                      (subs_of (oid o) (subs s)) /\
     NoDup (map nkey (o_ntfs out)) /\
     exists ob', find_obj (oid o) (objs s2) = Some ob' /\ reference ob' = v /\ pv ob' = v /\ trig ob' = false) /\
  (Z.abs (v - reference o) < inc o ->
     o_ntfs out = [] /\
     exists ob', find_obj (oid o) (objs s2) = Some ob' /\ reference ob' = reference o /\ pv ob' = v /\ trig ob' = false).
Proof.
  intros s i v o s1 o1 s2 out Hi Hq Q N Hb Hk S1 S2.
  assert (Ht : trig o = false).
  { destruct (pending_execute s o Hq (nth_error_In _ _ N)) as [_ [_ [_ H]]]. exact (H Q). }
  assert (Hp : has_prop (okind o) PPv = true) by (destruct (okind o); reflexivity).
  destruct (write_drain_round _ _ _ _ _ _ _ _ _ Hi Hq Q N Hp Hb S1 S2) as [A [B [C [_ R]]]].
  destruct (write_pv_reference o v Hb Ht Hk) as [T Pr]. destruct (write_pv_vals o v) as [V1 [V2 _]].
  destruct (write_obj_det o PPv v) as [_ [_ [_ K]]].
  split; [exact A|]. split; [exact B|]. split; [exact C|]. split.
  - intro Hge. assert (E : trig (write_obj o PPv v) = true) by (rewrite T; lia). rewrite E in R. destruct R as [R1 [R2 R3]].
    split. { rewrite R1. apply map_ext. intro x. unfold mk_ntf. rewrite V1, V2. reflexivity. }
    split; [exact R2|]. eexists. split; [exact R3|]. unfold report. rewrite K, Hk. unfold reference. cbn. auto.
  - intro Hlt. assert (E : trig (write_obj o PPv v) = false) by (rewrite T; lia). rewrite E in R. destruct R as [R1 R3].
    split; [exact R1|]. eexists. split; [exact R3|]. unfold reference at 1. rewrite Pr. auto.
Qed.

(* ... and for the other objects: any change of a tracked property, and only a change *)
Theorem change_round_generic : forall s i p v o s1 o1 s2 out,
  inv s -> qinv s -> queue s = [] -> nth_error (objs s) i = Some o -> bound o = true ->
  has_prop (okind o) p = true -> tracked (okind o) p = true -> (p = PPv -> reports_prev (okind o) = false) ->
  step s (Write i p v) = (s1, o1) -> step s1 Drain = (s2, out) ->
  (get_val o p <> v ->
     o_ntfs out = map (mk_ntf (now s) (set_val o p v)) (subs_of (oid o) (subs s)) /\ NoDup (map nkey (o_ntfs out))) /\
  (get_val o p = v -> o_ntfs out = []).
Proof.
  intros s i p v o s1 o1 s2 out Hi Hq Q N Hb Hp Htr Hk S1 S2.
  assert (Ht : trig o = false).
  { destruct (pending_execute s o Hq (nth_error_In _ _ N)) as [_ [_ [_ H]]]. exact (H Q). }
  destruct (write_drain_round _ _ _ _ _ _ _ _ _ Hi Hq Q N Hp Hb S1 S2) as [_ [_ [_ [_ R]]]].
  pose proof (write_generic_trig o p v Hb Ht Htr Hk) as T.
  assert (Vals : pv (write_obj o p v) = pv (set_val o p v) /\ fl (write_obj o p v) = fl (set_val o p v)).
  { unfold write_obj. repeat match goal with |- context [if ?b then _ else _] => destruct b end; destruct p; cbn; auto. }
  destruct Vals as [V1 V2]. split.
  - intro Hne. assert (E : trig (write_obj o p v) = true) by (rewrite T; apply negb_true_iff, Z.eqb_neq; exact Hne).
    rewrite E in R. destruct R as [R1 [R2 _]]. split; [|exact R2]. rewrite R1. apply map_ext. intro x. unfold mk_ntf.
    rewrite V1, V2. reflexivity.
  - intro He. assert (E : trig (write_obj o p v) = false) by (rewrite T; apply negb_false_iff, Z.eqb_eq; exact He).
    rewrite E in R. apply R.
Qed.

(* ------------------------------------------------------------------ bursts: what is reported is what is remembered *)
Lemma burst_pending : forall vs s i o ox s' outs,
  inv s -> pending s i o ox -> run s (map (Write i PPv) vs ++ [Drain]) = (s', outs) ->
  exists oy, pv oy = last vs (pv ox) /\ fl oy = fl ox /\ okind oy = okind ox /\
    all_ntfs outs = map (mk_ntf (now s) oy) (subs_of (oid o) (subs s)) /\
    find_obj (oid o) (objs s') = Some (set_trig (report oy) false) /\ subs s' = subs s /\ queue s' = [].
Proof.
  induction vs as [|v r IH]; intros s i o ox s' outs Hi P R.
  - cbn in R. destruct (let '(s1, ns) := drain s in (s1, mkOut 2 0 0 ns None)) as [s2 out] eqn:S.
    inversion R; subst s' outs; clear R.
    destruct (drain_pending s i o ox s2 out Hi P S) as [A [B [C [_ F]]]].
    exists ox. cbn [all_ntfs flat_map last]. rewrite app_nil_r. repeat split; auto.
  - cbn [map app run] in R. destruct (step s (Write i PPv v)) as [s1 o1] eqn:S1.
    destruct (run s1 (map (Write i PPv) r ++ [Drain])) as [s2 os] eqn:R2. inversion R; subst s' outs; clear R.
    assert (Hp : has_prop (okind ox) PPv = true) by (destruct (okind ox); reflexivity).
    destruct (write_pending _ _ _ _ _ _ _ _ Hi P Hp S1) as [Hi1 [Hs [Hn [Ho1 P1]]]].
    destruct (IH _ _ _ _ _ _ Hi1 P1 R2) as [oy [Y1 [Y2 [Y3 [Y4 [Y5 [Y6 Y7]]]]]]].
    exists oy. cbn [set_val pv fl okind] in Y1, Y2, Y3. rewrite last_cons.
    cbn [all_ntfs flat_map]. rewrite Ho1. cbn [app]. rewrite Hs, Hn in *. repeat split; auto.
Qed.

(* a burst within one instant on an analog / pulse-converter object: the first write crosses the increment, any
   number of further writes follow before the deferred notification runs.  Every subscription gets ONE notification,
   it carries the LAST value written, and that value — the one reported — is the reference from then on. *)
Theorem burst_reports_last : forall vs s i v1 o s' outs,
  inv s -> qinv s -> queue s = [] -> nth_error (objs s) i = Some o -> bound o = true -> reports_prev (okind o) = true ->
  inc o <= Z.abs (v1 - reference o) ->
  run s (Write i PPv v1 :: map (Write i PPv) vs ++ [Drain]) = (s', outs) ->
  let w := last vs v1 in
  all_ntfs outs = map (fun x => mkNtf (s_cli x) (s_proc x) (s_oid x) (s_conf x) (trem (now s) x) w (fl o) (now s))
                      (subs_of (oid o) (subs s)) /\
  NoDup (map nkey (all_ntfs outs)) /\ subs s' = subs s /\ queue s' = [] /\
  exists ob', find_obj (oid o) (objs s') = Some ob' /\ reference ob' = w /\ pv ob' = w /\ trig ob' = false.
Proof.
  intros vs s i v1 o s' outs Hi Hq Q N Hb Hk Hge R w.
  assert (Ht : trig o = false).
  { destruct (pending_execute s o Hq (nth_error_In _ _ N)) as [_ [_ [_ H]]]. exact (H Q). }
  assert (Hp : has_prop (okind o) PPv = true) by (destruct (okind o); reflexivity).
  cbn [run] in R. destruct (step s (Write i PPv v1)) as [s1 o1] eqn:S1.
  destruct (run s1 (map (Write i PPv) vs ++ [Drain])) as [s2 os] eqn:R2. inversion R; subst s' outs; clear R.
  destruct (write_quiescent _ _ _ _ _ _ _ Hi Q N Hp Hb Ht S1) as [Hi1 [Hs [Hn [Ho1 [_ P]]]]].
  destruct (write_pv_reference o v1 Hb Ht Hk) as [T _]. assert (E : trig (write_obj o PPv v1) = true) by (rewrite T; lia).
  rewrite E in P. destruct (write_pv_vals o v1) as [V1 [V2 _]]. destruct (write_obj_det o PPv v1) as [_ [_ [_ K]]].
  destruct (burst_pending _ _ _ _ _ _ _ Hi1 P R2) as [oy [Y1 [Y2 [Y3 [Y4 [Y5 [Y6 Y7]]]]]]].
  rewrite V1 in Y1. rewrite V2 in Y2. rewrite K in Y3. rewrite Hs, Hn in *. fold w in Y1.
  assert (A : all_ntfs (o1 :: os) =
              map (fun x => mkNtf (s_cli x) (s_proc x) (s_oid x) (s_conf x) (trem (now s) x) w (fl o) (now s))
                  (subs_of (oid o) (subs s))).
  { cbn [all_ntfs flat_map]. rewrite Ho1. cbn [app]. fold (all_ntfs os). rewrite Y4. apply map_ext. intro x.
    unfold mk_ntf. rewrite Y1, Y2. reflexivity. }
  split; [exact A|]. split. { rewrite A, map_map. unfold subs_of. cbn. apply (NoDup_map_filter key). apply Hi. }
  split; [exact Y6|]. split; [exact Y7|]. eexists. split; [exact Y5|].
  unfold report. rewrite Y3, Hk. unfold reference. cbn. auto.
Qed.
