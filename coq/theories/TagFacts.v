(* TagFacts.v — proofs about Tag.v *)
From Bac Require Import Base BytesFacts Tag TagHdr.
From Coq Require Import ZifyBool ZifyN ZifyNat.
Ltac Zify.zify_post_hook ::= Z.to_euclidean_division_equations.
Open Scope N_scope.

(* ---------- single tag round trip ---------- *)
Lemma hdr_ok t : wf_tag t = true -> exists h, hdr t = Ok h.
Proof. intros W. rewrite (hdr_spec t W). eauto. Qed.

Lemma tag_roundtrip t :
  wf_tag t = true ->
  exists bs, enc_tag t = Ok bs /\ forall rest, dec_tag (bs ++ rest) = Ok (t, rest).
Proof.
  intros W. destruct (hdr_ok t W) as [h Hh].
  exists (h ++ data t). rewrite enc_tag_hdr, Hh. cbn [bind]. split; [reflexivity|].
  intros rest. unfold dec_tag. rewrite <- app_assoc, (dec_hdr t rest W h Hh). reflexivity.
Qed.

Lemma enc_tag_spec t : wf_tag t = true -> enc_tag t = Ok (spec_header t ++ data t).
Proof. intros W. rewrite enc_tag_hdr, (hdr_spec t W). reflexivity. Qed.

Lemma spec_header_nonempty t : spec_header t <> [].
Proof. unfold spec_header. cbn [app]. discriminate. Qed.

(* ---------- what a successful decode looks like ---------- *)
Lemma dec_tag_raw_err bs e : dec_tag_raw bs = Err e -> e = DecodingError.
Proof.
  unfold dec_tag_raw, get, get_short, get_long, get_data.
  repeat match goal with
  | |- context [match ?x with _ => _ end] => destruct x eqn:?; cbn [bind]
  | |- context [if ?b then _ else _] => destruct b eqn:?; cbn [bind]
  end; intros H; try discriminate H; try (injection H as <-; reflexivity).
Qed.

Lemma dec_tag_err bs e : dec_tag bs = Err e -> e = InvalidTag.
Proof.
  unfold dec_tag. destruct (dec_tag_raw bs) as [x|e0] eqn:E; [discriminate|].
  apply dec_tag_raw_err in E as ->. now intros [= <-].
Qed.

Lemma dec_tag_ok_raw bs t r : dec_tag bs = Ok (t, r) -> dec_tag_raw bs = Ok (t, r).
Proof.
  unfold dec_tag. destruct (dec_tag_raw bs) as [x|e0] eqn:E; [auto|]. destruct e0; discriminate.
Qed.

(* the decoder reads a header of 1..7 octets, then exactly the data, nothing more *)
Lemma dec_tag_shape bs t r :
  dec_tag bs = Ok (t, r) ->
  exists h, bs = h ++ data t ++ r /\ (1 <= length h <= 7)%nat.
Proof.
  intros H. apply dec_tag_ok_raw in H. revert H.
  unfold dec_tag_raw, get, get_short, get_long.
  destruct bs as [|b bs]; cbn [bind]; [discriminate|].
  set (c0 := (b / 8) mod 2). set (n0 := b / 16). set (l0 := b mod 8).
  assert (Fin: forall (h : list N) c n l q, (1 <= length h <= 7)%nat -> b :: bs = h ++ q ->
     (if (c =? 0) && (n =? 1) then Ok (mkTag c n l [], q)
      else do (d, r3) <- get_data l q; Ok (mkTag c n l d, r3)) = Ok (t, r) ->
     exists h, b :: bs = h ++ data t ++ r /\ (1 <= length h <= 7)%nat).
  { intros h c n l q Hl Hq. destruct ((c =? 0) && (n =? 1)).
    - intros [= <- <-]. exists h. cbn [data app]. auto.
    - destruct (get_data l q) as [[d r3]|] eqn:G; cbn [bind]; [|discriminate].
      intros [= <- <-]. apply get_data_ok in G as [-> _]. exists h. cbn [data]. auto. }
  destruct (n0 =? 15).
  - destruct bs as [|n bs]; cbn [bind]; [discriminate|].
    destruct (l0 =? 5).
    + destruct bs as [|l1 bs]; cbn [bind]; [discriminate|].
      destruct (l1 =? 254).
      * destruct bs as [|x [|y bs]]; cbn [bind]; try discriminate.
        apply (Fin [b; n; l1; x; y]); cbn; auto; lia.
      * destruct (l1 =? 255).
        -- destruct bs as [|x [|y [|z [|w bs]]]]; cbn [bind]; try discriminate.
           apply (Fin [b; n; l1; x; y; z; w]); cbn; auto; lia.
        -- cbn [bind]. apply (Fin [b; n; l1]); cbn; auto; lia.
    + destruct (l0 =? 6); [|destruct (l0 =? 7)]; cbn [bind];
        apply (Fin [b; n]); cbn; auto; lia.
  - cbn [bind]. destruct (l0 =? 5).
    + destruct bs as [|l1 bs]; cbn [bind]; [discriminate|].
      destruct (l1 =? 254).
      * destruct bs as [|x [|y bs]]; cbn [bind]; try discriminate.
        apply (Fin [b; l1; x; y]); cbn; auto; lia.
      * destruct (l1 =? 255).
        -- destruct bs as [|x [|y [|z [|w bs]]]]; cbn [bind]; try discriminate.
           apply (Fin [b; l1; x; y; z; w]); cbn; auto; lia.
        -- cbn [bind]. apply (Fin [b; l1]); cbn; auto; lia.
    + destruct (l0 =? 6); [|destruct (l0 =? 7)]; cbn [bind];
        apply (Fin [b]); cbn; auto; lia.
Qed.

Lemma dec_tag_consumes bs t r : dec_tag bs = Ok (t, r) -> (length r < length bs)%nat.
Proof.
  intros H. apply dec_tag_shape in H as (h & -> & Hl). rewrite !app_length. lia.
Qed.

(* ---------- tag lists ---------- *)
Lemma dec_tags_fuel_irrel f1 : forall f2 bs,
  (length bs <= f1)%nat -> (length bs <= f2)%nat -> dec_tags_fuel f1 bs = dec_tags_fuel f2 bs.
Proof.
  induction f1 as [|f1 IH]; intros f2 bs H1 H2.
  - destruct bs; [|cbn in H1; lia]. destruct f2; reflexivity.
  - destruct bs as [|b bs]; [destruct f2; reflexivity|].
    destruct f2 as [|f2]; [cbn in H2; lia|].
    cbn [dec_tags_fuel]. destruct (dec_tag (b :: bs)) as [[t r]|e] eqn:E; cbn [bind]; [|reflexivity].
    apply dec_tag_consumes in E. cbn [length] in *.
    rewrite (IH f2 r) by lia. reflexivity.
Qed.

Lemma dec_tags_cons t bs r :
  dec_tag bs = Ok (t, r) -> bs <> [] ->
  dec_tags bs = do ts <- dec_tags r; Ok (t :: ts).
Proof.
  intros H Hne. unfold dec_tags. destruct bs as [|b bs]; [congruence|].
  cbn [length dec_tags_fuel]. rewrite H. cbn [bind].
  pose proof (dec_tag_consumes _ _ _ H) as Hc. cbn [length] in Hc.
  rewrite (dec_tags_fuel_irrel (length bs) (length r) r) by lia. reflexivity.
Qed.

Theorem list_roundtrip ts :
  forallb wf_tag ts = true -> exists bs, enc_tags ts = Ok bs /\ dec_tags bs = Ok ts.
Proof.
  induction ts as [|t ts IH]; intros W.
  - exists []. split; reflexivity.
  - cbn [forallb] in W. apply andb_true_iff in W as [Wt Wts].
    destruct (IH Wts) as (b & Eb & Db).
    destruct (tag_roundtrip t Wt) as (a & Ea & Da).
    exists (a ++ b). cbn [enc_tags]. rewrite Ea, Eb. cbn [bind]. split; [reflexivity|].
    rewrite (dec_tags_cons t (a ++ b) b (Da b)).
    + rewrite Db. reflexivity.
    + rewrite (enc_tag_spec t Wt) in Ea. injection Ea as <-.
      pose proof (spec_header_nonempty t). destruct (spec_header t); [congruence|discriminate].
Qed.

(* total: a tag list or InvalidTag; the fuel never runs out *)
Lemma dec_tags_fuel_total f : forall bs, (length bs <= f)%nat ->
  (exists ts, dec_tags_fuel f bs = Ok ts) \/ dec_tags_fuel f bs = Err InvalidTag.
Proof.
  induction f as [|f IH]; intros bs H.
  - destruct bs; [left; eexists; reflexivity|cbn in H; lia].
  - destruct bs as [|b bs]; [left; eexists; reflexivity|].
    cbn [dec_tags_fuel]. destruct (dec_tag (b :: bs)) as [[t r]|e] eqn:E; cbn [bind].
    + pose proof (dec_tag_consumes _ _ _ E) as Hc. cbn [length] in *.
      destruct (IH r) as [[ts Hts]|He]; [lia| |]; rewrite ?Hts, ?He; cbn [bind]; eauto.
    + right. apply dec_tag_err in E as ->. reflexivity.
Qed.

Theorem decode_total bs :
  (exists ts, dec_tags bs = Ok ts) \/ dec_tags bs = Err InvalidTag.
Proof. apply dec_tags_fuel_total. lia. Qed.

(* everything the decoder returns (from real octets) is well formed *)
Lemma dec_tag_wf bs t r :
  bytes_ok bs = true -> dec_tag bs = Ok (t, r) -> wf_tag t = true /\ bytes_ok r = true.
Proof.
  intros B H. pose proof (dec_tag_shape _ _ _ H) as (h & Hbs & Hl).
  assert (Bd: bytes_ok (data t) = true /\ bytes_ok r = true).
  { rewrite Hbs in B. rewrite !bytes_ok_app in B.
    apply andb_true_iff in B as [_ B]. apply andb_true_iff in B. exact B. }
  destruct Bd as [Bd Br]. split; [|exact Br].
  apply dec_tag_ok_raw in H. revert H.
  unfold dec_tag_raw, get, get_short, get_long.
  destruct bs as [|b bs]; cbn [bind]; [discriminate|].
  cbn [bytes_ok forallb] in B. apply andb_true_iff in B as [Bb B]. unfold byte_ok in Bb.
  set (c0 := (b / 8) mod 2). set (n0 := b / 16). set (l0 := b mod 8).
  assert (Hc0: c0 <= 1) by (subst c0; lia).
  assert (Hn0: n0 <= 15) by (subst n0; lia).
  assert (Hl0: l0 <= 7) by (subst l0; lia).
  assert (Fin: forall c n l q, c <= 3 -> n <= 255 -> l < 4294967296 ->
     ((c =? 2) || (c =? 3) = true -> l = 0) ->
     (if (c =? 0) && (n =? 1) then Ok (mkTag c n l [], q)
      else do (d, r3) <- get_data l q; Ok (mkTag c n l d, r3)) = Ok (t, r) ->
     wf_tag t = true).
  { intros c n l q Hc Hn Hl' Hoc. destruct ((c =? 0) && (n =? 1)) eqn:Eb.
    - intros [= <- <-]. unfold wf_tag; cbn [cls num lvt data bytes_ok forallb lenN length].
      rewrite Eb. change (lenN (@nil N)) with 0. destruct ((c =? 2) || (c =? 3)) eqn:E23; lia.
    - destruct (get_data l q) as [[d r3]|] eqn:G; cbn [bind]; [|discriminate].
      intros [= <- <-]. apply get_data_ok in G as [_ G]. cbn [data] in Bd.
      unfold wf_tag; cbn [cls num lvt data]. rewrite Eb, Bd.
      destruct ((c =? 2) || (c =? 3)) eqn:E23; [specialize (Hoc eq_refl)|]; lia. }
  assert (Bget: forall q x q', bytes_ok q = true -> q = x :: q' -> x < 256 /\ bytes_ok q' = true).
  { intros q x q' Bq ->. cbn [bytes_ok forallb] in Bq. apply andb_true_iff in Bq as [Bx Bq].
    unfold byte_ok in Bx. split; [lia|exact Bq]. }
  assert (Tail: forall n r1, n <= 255 -> bytes_ok r1 = true ->
     (do (cl, r2) <-
        (if l0 =? 5 then
           do (l1, q) <- match r1 with [] => Err DecodingError | b0 :: r0 => Ok (b0, r0) end;
           if l1 =? 254 then do (l2, q2) <- match q with a :: b0 :: r0 => Ok (a * 256 + b0, r0) | _ => Err DecodingError end; Ok ((c0, l2), q2)
           else if l1 =? 255 then do (l2, q2) <- match q with a :: b0 :: c :: d :: r0 => Ok (a * 16777216 + b0 * 65536 + c * 256 + d, r0) | _ => Err DecodingError end; Ok ((c0, l2), q2)
           else Ok ((c0, l1), q)
         else if l0 =? 6 then Ok ((2, 0), r1)
         else if l0 =? 7 then Ok ((3, 0), r1)
         else Ok ((c0, l0), r1));
      let '(c, l) := cl in
      if (c =? 0) && (n =? 1) then Ok (mkTag c n l [], r2)
      else do (d, r3) <- get_data l r2; Ok (mkTag c n l d, r3)) = Ok (t, r) -> wf_tag t = true).
  { intros n r1 Hn B1.
    destruct (l0 =? 5) eqn:E5.
    - destruct r1 as [|l1 q]; cbn [bind]; [discriminate|].
      destruct (Bget _ _ _ B1 eq_refl) as [Hl1 Bq].
      destruct (l1 =? 254) eqn:E254.
      + destruct q as [|x [|y q]]; cbn [bind]; try discriminate.
        destruct (Bget _ _ _ Bq eq_refl) as [Hx Bq1]. destruct (Bget _ _ _ Bq1 eq_refl) as [Hy Bq2].
        apply Fin; try lia.
      + destruct (l1 =? 255) eqn:E255.
        * destruct q as [|x [|y [|z [|w q]]]]; cbn [bind]; try discriminate.
          destruct (Bget _ _ _ Bq eq_refl) as [Hx Bq1]. destruct (Bget _ _ _ Bq1 eq_refl) as [Hy Bq2].
          destruct (Bget _ _ _ Bq2 eq_refl) as [Hz Bq3]. destruct (Bget _ _ _ Bq3 eq_refl) as [Hw Bq4].
          apply Fin; try lia.
        * cbn [bind]. apply Fin; try lia.
    - destruct (l0 =? 6) eqn:E6; [|destruct (l0 =? 7) eqn:E7]; cbn [bind]; apply Fin; try lia. }
  destruct (n0 =? 15) eqn:E15.
  - destruct bs as [|n bs]; cbn [bind]; [discriminate|].
    destruct (Bget _ _ _ B eq_refl) as [Hn Bb2]. apply Tail; [lia|exact Bb2].
  - cbn [bind]. apply Tail; [lia|exact B].
Qed.

Lemma dec_tags_fuel_wf f : forall bs ts, (length bs <= f)%nat ->
  bytes_ok bs = true -> dec_tags_fuel f bs = Ok ts -> forallb wf_tag ts = true.
Proof.
  induction f as [|f IH]; intros bs ts Hl B H.
  - destruct bs; [injection H as <-; reflexivity|cbn in Hl; lia].
  - destruct bs as [|b bs]; [injection H as <-; reflexivity|].
    cbn [dec_tags_fuel] in H. destruct (dec_tag (b :: bs)) as [[t r]|e] eqn:E; cbn [bind] in H; [|discriminate].
    destruct (dec_tags_fuel f r) as [ts'|] eqn:E2; cbn [bind] in H; [|discriminate].
    injection H as <-. destruct (dec_tag_wf _ _ _ B E) as [Wt Br].
    pose proof (dec_tag_consumes _ _ _ E) as Hc. cbn [length] in *.
    cbn [forallb]. rewrite Wt. cbn [andb]. apply (IH r); auto; lia.
Qed.

Theorem reencode_stable bs ts :
  bytes_ok bs = true -> dec_tags bs = Ok ts ->
  exists bs', enc_tags ts = Ok bs' /\ dec_tags bs' = Ok ts.
Proof.
  intros B H. apply list_roundtrip. apply (dec_tags_fuel_wf (length bs) bs); auto.
Qed.

(* ---------- balanced groups ---------- *)
Inductive balanced : list tag -> Prop :=
| bal_nil : balanced []
| bal_leaf t ts : cls t <> 2 -> cls t <> 3 -> balanced ts -> balanced (t :: ts)
| bal_group o body c rest :
    cls o = 2 -> cls c = 3 -> balanced body -> balanced rest ->
    balanced (o :: body ++ c :: rest).

Lemma collect_group_balanced body : balanced body -> forall lvl tl,
  collect_group lvl (body ++ tl) =
  match collect_group lvl tl with Some (g, r) => Some (body ++ g, r) | None => None end.
Proof.
  induction 1 as [|t ts H2 H3 _ IH|o body c rest Ho Hc _ IHb _ IHr]; intros lvl tl.
  - cbn [app]. destruct (collect_group lvl tl) as [[g r]|]; reflexivity.
  - cbn [app collect_group].
    destruct (cls t =? 2) eqn:E2; [lia|]. destruct (cls t =? 3) eqn:E3; [lia|].
    rewrite IH. destruct (collect_group lvl tl) as [[g r]|]; reflexivity.
  - cbn [app collect_group]. rewrite Ho. cbn [N.eqb Pos.eqb].
    rewrite <- app_assoc. rewrite IHb. cbn [app collect_group].
    rewrite Hc. cbn [N.eqb Pos.eqb]. rewrite IHr.
    destruct (collect_group lvl tl) as [[g r]|]; [|reflexivity].
    rewrite <- app_assoc. reflexivity.
Qed.

Lemma collect_group_nil lvl : collect_group lvl [] = None.
Proof. reflexivity. Qed.

Theorem get_context_group ctx o body c rest :
  cls o = 2 -> num o = ctx -> cls c = 3 -> balanced body ->
  get_context ctx (o :: body ++ c :: rest) = Ok (CtxGroup body).
Proof.
  intros Ho Hn Hc Hb. unfold get_context. cbn [length get_context_fuel].
  rewrite Ho. cbn [N.eqb Pos.eqb].
  rewrite (collect_group_balanced body Hb). cbn [collect_group]. rewrite Hc. cbn [N.eqb Pos.eqb].
  rewrite Hn, N.eqb_refl, app_nil_r. reflexivity.
Qed.

Theorem get_context_unbalanced ctx o body :
  cls o = 2 -> balanced body -> get_context ctx (o :: body) = Err InvalidTag.
Proof.
  intros Ho Hb. unfold get_context. cbn [length get_context_fuel].
  rewrite Ho. cbn [N.eqb Pos.eqb].
  rewrite <- (app_nil_r body), (collect_group_balanced body Hb). reflexivity.
Qed.

Lemma any_take_balanced body : balanced body -> forall lvl tl,
  any_take lvl (body ++ tl) = do (g, r) <- any_take lvl tl; Ok (body ++ g, r).
Proof.
  induction 1 as [|t ts H2 H3 _ IH|o body c rest Ho Hc _ IHb _ IHr]; intros lvl tl.
  - cbn [app]. destruct (any_take lvl tl) as [[g r]|]; reflexivity.
  - cbn [app any_take].
    destruct (cls t =? 2) eqn:E2; [lia|]. destruct (cls t =? 3) eqn:E3; [lia|].
    rewrite IH. destruct (any_take lvl tl) as [[g r]|]; reflexivity.
  - cbn [app any_take]. rewrite Ho. cbn [N.eqb Pos.eqb].
    rewrite <- app_assoc. rewrite IHb. cbn [app any_take].
    rewrite Hc. cbn [N.eqb Pos.eqb]. rewrite IHr.
    destruct (any_take lvl tl) as [[g r]|]; cbn [bind]; [|reflexivity].
    rewrite <- app_assoc. reflexivity.
Qed.

Theorem any_decode_balanced body c rest :
  balanced body -> cls c = 3 -> any_decode (body ++ c :: rest) = Ok (body, c :: rest).
Proof.
  intros Hb Hc. unfold any_decode. rewrite (any_take_balanced body Hb).
  cbn [any_take]. rewrite Hc. cbn [N.eqb Pos.eqb bind]. now rewrite app_nil_r.
Qed.

Theorem any_decode_all body : balanced body -> any_decode body = Ok (body, []).
Proof.
  intros Hb. unfold any_decode. rewrite <- (app_nil_r body) at 1.
  rewrite (any_take_balanced body Hb). cbn [any_take bind]. now rewrite app_nil_r.
Qed.

Theorem any_decode_unbalanced o body :
  cls o = 2 -> balanced body -> any_decode (o :: body) = Err DecodingError.
Proof.
  intros Ho Hb. unfold any_decode. cbn [any_take]. rewrite Ho. cbn [N.eqb Pos.eqb].
  rewrite <- (app_nil_r body), (any_take_balanced body Hb). reflexivity.
Qed.
