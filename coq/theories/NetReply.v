(* NetReply.v — the SADR spoof check, and why a reply to the source shown is routable (property C06). *)
From Coq Require Import ZifyBool ZifyN ZifyNat.
From Bac Require Import Base Net NetFacts.
Ltac Zify.zify_post_hook ::= Z.to_euclidean_division_equations.
Open Scope N_scope.

(* ---- a frame claiming to come from a directly connected network via a router is dropped whole: this is what
   stops application traffic that has gone round a cycle *)
Lemma spoof_dropped : forall n i src dst p snet sm j,
  n_sadr p = Some (snet, sm) -> find_net n (Some snet) = Some j ->
  modelled_config n = true -> nth_adapter n i <> None ->
  process_npdu n i src dst p = (n, []).
Proof.
  intros n i src dst p snet sm j Hs Hf Hm Ha. unfold process_npdu.
  destruct (nth_adapter n i); [|congruence]. rewrite Hm, Hs, Hf. reflexivity.
Qed.

(* ---- cache facts *)
Lemma optN_eqb_refl : forall o, optN_eqb o o = true.
Proof. intros [x|]; cbn; [apply N.eqb_refl|reflexivity]. Qed.

Lemma key_eqb_refl : forall k, key_eqb k k = true.
Proof. intros [a b]. unfold key_eqb. cbn. rewrite optN_eqb_refl, N.eqb_refl. reflexivity. Qed.

Lemma cache_get_set_same : forall c s d m, cache_get (cache_set c (s, d) m) s d = Some m.
Proof.
  induction c as [|[k m'] r IH]; intros s d m; cbn [cache_set cache_get].
  - rewrite key_eqb_refl. reflexivity.
  - destruct (key_eqb k (s, d)) eqn:E; cbn [cache_get].
    + rewrite key_eqb_refl. reflexivity.
    + rewrite E. apply IH.
Qed.

Lemma cache_learn_one : forall c s d m, cache_get (cache_update c s m [d]) s d = Some m.
Proof. intros. unfold cache_update. cbn [fold_left]. apply cache_get_set_same. Qed.

(* ---- the node after an application frame was handed up *)
Lemma process_npdu_up_state : forall n i src dst p n' acts s d x,
  process_npdu n i src dst p = (n', acts) -> In (Up s d x) acts ->
  exists ai, nth_adapter n i = Some ai /\
  n' = match n_sadr p with
       | Some (snet, _) => set_cache n (cache_update (rcache n) (a_net ai) src [snet])
       | None => n end.
Proof.
  intros n i src dst p n' acts s d x H Hin.
  destruct (process_npdu_up _ _ _ _ _ _ _ _ _ _ H Hin) as (ai & la & Ha & _ & _ & Hm & _).
  exists ai. split; [assumption|]. unfold process_npdu in H. rewrite Ha, Hm in H.
  destruct (negb (modelled_config n)); [inversion H; subst; split_in Hin|].
  match type of H with (if ?c then _ else _) = _ => destruct c end; [inversion H; subst; split_in Hin|].
  match type of H with context [match ?dec with Err _ => _ | Ok _ => _ end] => destruct dec as [[[pl fw]|]|e] end;
    [| inversion H; subst; split_in Hin | inversion H; subst; split_in Hin].
  match type of H with (if ?c then _ else _) = _ => destruct c end.
  - destruct (negb (apdu_ok (n_data p))); inversion H; subst; reflexivity.
  - inversion H; subst; reflexivity.
Qed.

(* A station (one adapter) that has been handed a routed packet showing source (sn, sm) has learned, from that
   very packet, that network sn is reached through the router `src` that delivered it; so its reply to the
   source shown leaves at once, addressed to that router, with DADR = the source shown and a full hop count. *)
Theorem reply_goes_back_via_delivering_router : forall n a src dst p n' acts sn sm d x data,
  adapters n = [a] ->
  process_npdu n 0 src dst p = (n', acts) ->
  n_sadr p = Some (sn, sm) -> In (Up (ARS sn sm) d x) acts ->
  a_net a <> Some sn -> pending_get (pending n) sn = None ->
  indication n' (ARS sn sm) data
  = (n', [Tx 0 (LStation src) (mkNpdu (Some (DStation sn sm)) None 255 None data)]).
Proof.
  intros n a src dst p n' acts sn sm d x data Had H Hs Hin Hnet Hpend.
  destruct (process_npdu_up_state _ _ _ _ _ _ _ _ _ _ H Hin) as (ai & Ha & Hn').
  unfold nth_adapter in Ha. rewrite Had in Ha. cbn in Ha. inversion Ha; subst ai. clear Ha.
  rewrite Hs in Hn'. subst n'.
  unfold indication, local_idx, nth_adapter, modelled_config, find_path. cbn [adapters set_cache rcache pending].
  rewrite Had. cbn [last_with_addr]. 
  assert (Hl : match match a_mac a with Some _ => Some 0%nat | None => None end with Some i => i | None => 0%nat end = 0%nat)
    by (destruct (a_mac a); reflexivity).
  rewrite Hl. cbn [nth_error negb].
  assert (Hne : optN_eqb (Some sn) (a_net a) = false).
  { destruct (optN_eqb (Some sn) (a_net a)) eqn:E; [|reflexivity]. apply optN_eqb_some in E. congruence. }
  rewrite Hne, Hpend. cbn [find_path_from]. rewrite cache_learn_one. reflexivity.
Qed.
