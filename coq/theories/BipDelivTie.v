(* BipDelivTie.v — the delivery-tree semantics (BipDeliv.v, proved exactly-once for every size)
   and the cascade model of the network (IpNet.v, tied to the implementation by the net-*
   correspondence) give the same deliveries on every configuration of the swept family and every
   origin; every family member is well-formed in the sense of BipDelivFacts.wf. *)
From Bac Require Import Base Bip BipFacts IpNet IpNetFacts BipDeliv BipDelivFacts.
Open Scope N_scope.

(* the abstract configuration of a family member; node order = IpNetFacts.cfg_world0's *)
Definition abs_sub (c : cfg) (k : nat) (n : nat) : sub :=
  mkSub (bbmd_addr k) (if nth k (c_onehop c) false then m24 else m32)
        (lan_bcast (mkLan (sub_ip k) m24 port))
        (map (fun j => (sub_ip k + 10 + N.of_nat j, port)) (seq 0 n)).
Fixpoint abs_subs (c : cfg) (k : nat) (ss : list nat) : list sub :=
  match ss with [] => [] | n :: r => abs_sub c k n :: abs_subs c (S k) r end.
Definition abs_cfg (c : cfg) : acfg :=
  mkAcfg (abs_subs c 0 (c_simple c))
         (map (fun j => ((fsub + 40 + N.of_nat j, port), bbmd_addr (Nat.modulo j (length (c_simple c))))) (seq 0 (c_foreign c)))
         keep_all.

Definition canon_up (w : world) (x : nat * addr * dest * npdu) : list Z :=
  match x with (i, s, d, p) =>
    canon_addr (match nth_error (w_nodes w) i with Some n => n_addr n | None => (0, 0) end)
    ++ canon_addr s ++ canon_dest d ++ [zN p]
  end.

Definition same_deliveries (c : cfg) : bool :=
  match cfg_world c with
  | Err _ => false
  | Ok w =>
      forallb (fun o =>
        match step w 900%Z (EBcast o 777), nth_error (all_rcvs (abs_cfg c)) o with
        | Ok (_, log), Some r =>
            list_eqb (list_eqb Z.eqb)
                     (IpNet.sort_lex (map (canon_up w) (ups log)))
                     (IpNet.sort_lex (map canon_delivery (broadcast 0 (abs_cfg c) r 777)))
        | _, _ => false
        end) (seq 0 (length (w_nodes w)))
  end.

Lemma family_wf_and_same : forallb (fun c => wf_b (abs_cfg c) && same_deliveries c) family = true.
Proof. vm_compute. reflexivity. Qed.

Theorem family_wf : forall c, In c family -> wf (abs_cfg c).
Proof.
  intros c I. apply wf_b_sound.
  pose proof (proj1 (forallb_forall _ _) family_wf_and_same c I) as H. apply andb_true_iff in H. apply H.
Qed.

Theorem deliv_matches_cascade : forall c, In c family -> same_deliveries c = true.
Proof.
  intros c I. pose proof (proj1 (forallb_forall _ _) family_wf_and_same c I) as H. apply andb_true_iff in H. apply H.
Qed.
