(* ObjTablesFacts.v — table obligations about gen/ObjTables.v (re-checked by every build against what the source says now) *)
From Bac Require Import Base PyRt Obj.
From BacGen Require Import ObjTables.
Open Scope Z_scope.

(* an element datatype the model handles: an application tag 0..12 with sane Unsigned limits, or a class id *)
Definition sdt_ok (s : sdt) : bool :=
  match s with
  | SAtom k lo hi => (0 <=? k) && (k <=? 12) && (0 <=? lo) && match hi with Some h => lo <=? h | None => true end
  | SAny => true
  | SCons cid => 1 <=? cid
  end.
Definition not_any (s : sdt) : bool := match s with SAny => false | _ => true end.
(* what fix_length appends is of the element kind (a primitive of that tag / an instance of that class) *)
Definition proto_ok (s : sdt) (e : elem) : bool :=
  match s, e with
  | SAtom k _ _, EAtom k' _ => k' =? k
  | SCons cid, ECons c' _ => c' =? cid
  | SCons cid, EBad c' _ => c' =? cid
  | _, _ => false
  end.
(* arrays and lists are never of AnyAtomic (cast_many has no such branch); fixed lengths are naturals *)
Definition dtype_ok (d : dtype) : bool :=
  match d with
  | DS s => sdt_ok s
  | DArray s fixed proto =>
      sdt_ok s && not_any s && proto_ok s proto && match fixed with Some f => 0 <=? f | None => true end
  | DList s => sdt_ok s && not_any s
  end.
Definition pdesc_ok (p : pdesc) : bool := (0 <=? p_id p) && dtype_ok (p_dt p).

Fixpoint mem_z (x : Z) (l : list Z) : bool := match l with [] => false | y :: r => (x =? y) || mem_z x r end.
Fixpoint nodup_z (l : list Z) : bool := match l with [] => true | x :: r => negb (mem_z x r) && nodup_z r end.

(* a table is a dictionary (find_prop = _properties.get): identifiers are distinct; every descriptor is handled *)
Definition table_ok (t : list pdesc) : bool := nodup_z (map p_id t) && forallb pdesc_ok t.

(* object classes (all but the restricted device table) declare objectIdentifier (75), objectName (77), objectType (79)
   and propertyList (371), none of them writable — also in the all-mutable subclasses of the harness *)
Definition fixed_props_ok (t : list pdesc) : bool :=
  forallb (fun pid => existsb (fun p => (p_id p =? pid) && negb (p_mut p)) t) [75; 77; 79; 371].

Theorem all_tables_ok : forallb table_ok all_tables = true.
Proof. vm_compute. reflexivity. Qed.

Theorem object_tables_fixed_props : forallb fixed_props_ok (removelast all_tables) = true.
Proof. vm_compute. reflexivity. Qed.

Lemma mem_z_In : forall x l, mem_z x l = true <-> In x l.
Proof.
  intros x l. induction l as [| y r IH]; cbn; [split; [discriminate | tauto] |].
  rewrite Bool.orb_true_iff, IH, Z.eqb_eq. split; intros [H | H]; auto.
Qed.
Lemma nodup_z_NoDup : forall l, nodup_z l = true -> NoDup l.
Proof.
  induction l as [| x r IH]; intros H; [constructor |]. cbn in H. apply andb_prop in H. destruct H as [H1 H2].
  constructor; [| apply IH; exact H2]. intro Hin. apply mem_z_In in Hin. rewrite Hin in H1. discriminate.
Qed.

(* lifted: every table of the generated file has distinct identifiers and only descriptors the model handles *)
Theorem all_tables_wf : forall t, In t all_tables ->
  NoDup (map p_id t) /\ forall p, In p t -> pdesc_ok p = true.
Proof.
  intros t Hin. pose proof all_tables_ok as H. rewrite forallb_forall in H. specialize (H t Hin).
  unfold table_ok in H. apply andb_prop in H. destruct H as [H1 H2].
  split; [apply nodup_z_NoDup; exact H1 | rewrite forallb_forall in H2; exact H2].
Qed.
