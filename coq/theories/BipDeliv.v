(* BipDeliv.v — delivery-tree semantics of one broadcast on an abstract B/IP configuration of
   ARBITRARY size.  No proofs here.

   The node behaviour is literally Bip.v's step functions (simple_confirmation,
   bbmd_confirmation, foreign_confirmation, *_indication).  What is simplified with respect to
   IpNet.v is the network: instead of IP subnets, masks and a router, a configuration lists its
   subnets (BBMD address, the mask its peers list it with, its directed-broadcast address, its
   ordinary nodes) and its foreign devices (address, BBMD they are registered with); a datagram
   to an address reaches the node with that address, or every member of the subnet whose
   broadcast address it is.  Node states do not change while a broadcast spreads (no
   Register / Delete / Result frame occurs), so the FIFO cascade of IpNet.v is replaced by a
   depth-bounded recursion over the delivery tree.  The two semantics are tied on the swept
   family of IpNetFacts (BipDelivFacts.deliv_matches_cascade) and against the implementation by
   the `deliv-*` correspondence cases. *)
From Bac Require Import Base Bip.
Open Scope N_scope.

Record sub := mkSub { sb_bbmd : addr;          (* its BBMD *)
                      sb_mask : N;             (* mask of its entry in the distribution tables *)
                      sb_bcast : addr;         (* directed-broadcast address of the subnet *)
                      sb_simple : list addr }. (* ordinary nodes *)

(* keep b p = BBMD b lists BBMD p (p may be b itself).  Full tables: keep = fun _ _ => true *)
Record acfg := mkAcfg { a_subs : list sub;
                        a_fds : list (addr * addr);          (* (foreign device, its BBMD) *)
                        a_keep : addr -> addr -> bool }.

Definition entry (s : sub) : bdte := mkBdte (sb_bbmd s) (sb_mask s).
Definition bdt_of (c : acfg) (b : addr) : list bdte :=
  map entry (filter (fun s => a_keep c b (sb_bbmd s)) (a_subs c)).
Definition fds_of (c : acfg) (b : addr) : list (addr * addr) :=
  filter (fun x => addr_eqb (snd x) b) (a_fds c).
Definition fdt_of (c : acfg) (b : addr) : list fdte := map (fun x => mkFdte (fst x) 30 35) (fds_of c b).
Definition bbmd_of (c : acfg) (s : sub) : bbmd :=
  mkBbmd (sb_bbmd s) (bdt_of c (sb_bbmd s)) (fdt_of c (sb_bbmd s)) true.
Definition foreign_of (x : addr * addr) : foreign := mkForeign 0 (Some (snd x)) (Some 30%Z) None None.

(* a node together with its role *)
Inductive rcv := RS (s : sub) (a : addr) | RB (s : sub) | RF (x : addr * addr).
Definition rcv_addr (r : rcv) : addr :=
  match r with RS _ a => a | RB s => sb_bbmd s | RF x => fst x end.
Definition members (s : sub) : list rcv := RB s :: map (RS s) (sb_simple s).

Definition all_rcvs (c : acfg) : list rcv := flat_map members (a_subs c) ++ map RF (a_fds c).
Definition all_addrs (c : acfg) : list addr := map rcv_addr (all_rcvs c).

(* who gets a datagram src -> dst (the sender never hears itself): every member of the subnet
   whose broadcast address dst is, and the node whose own address dst is *)
Definition receivers (c : acfg) (src dst : addr) : list (rcv * dest) :=
  flat_map (fun s => if addr_eqb dst (sb_bcast s)
                     then map (fun r => (r, DBcast)) (filter (fun r => negb (addr_eqb (rcv_addr r) src)) (members s))
                     else []) (a_subs c)
  ++ map (fun r => (r, DStation dst))
         (filter (fun r => addr_eqb (rcv_addr r) dst && negb (addr_eqb (rcv_addr r) src)) (all_rcvs c)).

Definition react (c : acfg) (r : rcv) (src : addr) (d : dest) (m : msg) : list action :=
  match r with
  | RS _ _ => simple_confirmation src d m
  | RB s => snd (bbmd_confirmation (bbmd_of c s) src d m)
  | RF x => match foreign_confirmation 0 (foreign_of x) src d m with Ok r => snd r | Err _ => [] end
  end.

(* LocalBroadcast means the sender's own subnet; a foreign device has no B/IP neighbours *)
Definition out_addr (r : rcv) (d : dest) : option addr :=
  match d with
  | DStation a => Some a
  | DBcast => match r with RS s _ | RB s => Some (sb_bcast s) | RF _ => None end
  end.

Definition delivery := (rcv * addr * dest * npdu)%type.     (* receiver, source shown, destination shown, NPDU *)

(* `sender` performs `acts`: its Ups are deliveries at the sender, its Downs travel on *)
Fixpoint spread (n : nat) (c : acfg) (sender : rcv) (acts : list action) : list delivery :=
  match n with
  | O => []
  | S k =>
      flat_map (fun a =>
        match a with
        | Up s d p => [(sender, s, d, p)]
        | Down d m =>
            match out_addr sender d with
            | None => []
            | Some dst => flat_map (fun rd => spread k c (fst rd) (react c (fst rd) (rcv_addr sender) (snd rd) m))
                                   (receivers c (rcv_addr sender) dst)
            end
        | Sap _ _ => []
        end) acts
  end.

Definition originate (c : acfg) (o : rcv) (p : npdu) : list action :=
  match o with
  | RS _ _ => simple_indication DBcast p
  | RB s => bbmd_indication (bbmd_of c s) DBcast p
  | RF x => match foreign_indication (foreign_of x) DBcast p with Ok a => a | Err _ => [] end
  end.

(* the deliveries caused by node o broadcasting p; 4 levels suffice, any larger bound gives the same *)
Definition broadcast (n : nat) (c : acfg) (o : rcv) (p : npdu) : list delivery :=
  spread (4 + n) c o (originate c o p).

Definition d_who (d : delivery) : rcv := fst (fst (fst d)).
Definition d_addr (d : delivery) : addr := rcv_addr (d_who d).

(* canonical output for the correspondence (the harness sorts both sides) *)
Definition canon_delivery (d : delivery) : list Z :=
  match d with (r, s, dd, p) => canon_addr (rcv_addr r) ++ canon_addr s ++ canon_dest dd ++ [zN p] end.

(* partial tables given as a list of (BBMD, listed BBMD) pairs *)
Definition keep_list (l : list (addr * addr)) (b p : addr) : bool :=
  existsb (fun x => addr_eqb (fst x) b && addr_eqb (snd x) p) l.
Definition keep_all (b p : addr) : bool := true.

(* decidable well-formedness (sound for BipDelivFacts.wf: BipDelivFacts.wf_b_sound) *)
Fixpoint nodupb (l : list addr) : bool :=
  match l with [] => true | x :: r => negb (existsb (addr_eqb x) r) && nodupb r end.
Definition fwd_addr (s : sub) : addr := (fwd_ip (fst (sb_bbmd s)) (sb_mask s), snd (sb_bbmd s)).
Definition wf_b (c : acfg) : bool :=
  nodupb (all_addrs c) && nodupb (map sb_bcast (a_subs c))
  && forallb (fun a => forallb (fun s => negb (addr_eqb a (sb_bcast s))) (a_subs c)) (all_addrs c)
  && forallb (fun x => existsb (fun s => addr_eqb (snd x) (sb_bbmd s)) (a_subs c)) (a_fds c)
  && forallb (fun s => addr_eqb (fwd_addr s) (sb_bbmd s) || addr_eqb (fwd_addr s) (sb_bcast s)) (a_subs c).

(* sorted canonical list of the deliveries caused by the o-th node (order of all_rcvs) *)
Fixpoint lex_leb (a b : list Z) : bool :=
  match a, b with
  | [], _ => true
  | _ :: _, [] => false
  | x :: a', y :: b' => if (x <? y)%Z then true else if (y <? x)%Z then false else lex_leb a' b'
  end.
Fixpoint insert_lex (x : list Z) (l : list (list Z)) : list (list Z) :=
  match l with [] => [x] | y :: r => if lex_leb x y then x :: l else y :: insert_lex x r end.
Definition sort_lex (l : list (list Z)) : list (list Z) := fold_right insert_lex [] l.
Definition canon_deliv (c : acfg) (o : nat) (p : npdu) : list Z :=
  match nth_error (all_rcvs c) o with
  | Some r => let l := sort_lex (map canon_delivery (broadcast 0 c r p)) in
              zb (wf_b c) :: zlen l :: flat_map (fun x => x) l
  | None => [(-1)%Z]
  end.
