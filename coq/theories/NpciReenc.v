(* NpciReenc.v — what the encoder writes never carries a reserved control bit, and re-encoding
   whatever was decoded gives the canonical clause 6.2 frame of the decoded fields. *)
From Bac Require Import Base BytesFacts Npci NpciFacts NpciSound.
From Coq Require Import ZifyBool ZifyN ZifyNat.
Ltac Zify.zify_post_hook ::= Z.to_euclidean_division_equations.
Open Scope N_scope.

Lemma bind_ok_inv {A B} (r : res A) (f : A -> res B) b :
  bind r f = Ok b -> exists a, r = Ok a /\ f a = Ok b.
Proof. destruct r as [a|e]; cbn [bind]; intros H; [exists a; split; [reflexivity|exact H] | discriminate]. Qed.

Lemma put_inv n l : put n = Ok l -> l = [n] /\ n < 256.
Proof. unfold put. destruct (n <? 256) eqn:E; intros H; [|discriminate]. injection H as <-. split; [reflexivity|lia]. Qed.

(* for EVERY header value (no well-formedness assumed): the control octet written is control_of h, and
   its bits 6 and 4 are clear *)
Lemma control_reserved_clear h : N.land (control_of h) 0x50 = 0 /\ control_of h < 256.
Proof.
  rewrite control_of_ctl, ctl_any.
  assert (Hp : prio h mod 4 < 4) by lia.
  destruct (ctl_spec (is_some (nmsg h)) (is_some (dadr h)) (is_some (sadr h)) (er h) (prio h mod 4) Hp)
    as (_ & L & _ & _ & _ & _ & _ & R).
  split; assumption.
Qed.

Lemma enc_npci_control h bs : enc_npci h = Ok bs ->
  exists rest, bs = ver h :: control_of h :: rest /\ N.land (control_of h) 0x50 = 0.
Proof.
  intros H. unfold enc_npci in H.
  apply bind_ok_inv in H as (v & Ev & H). apply bind_ok_inv in H as (c & Ec & H).
  apply bind_ok_inv in H as (d & _ & H). apply bind_ok_inv in H as (s & _ & H).
  apply bind_ok_inv in H as (hp & _ & H). apply bind_ok_inv in H as (m & _ & H).
  injection H as <-. apply put_inv in Ev as [-> _]. apply put_inv in Ec as [-> _].
  exists (d ++ s ++ hp ++ m). split; [reflexivity|]. exact (proj1 (control_reserved_clear h)).
Qed.

Lemma enc_npdu_control h payload bs : enc_npdu h payload = Ok bs ->
  exists rest, bs = ver h :: control_of h :: rest /\ N.land (control_of h) 0x50 = 0.
Proof.
  intros H. unfold enc_npdu in H. apply bind_ok_inv in H as (hd & E & H). injection H as <-.
  destruct (enc_npci_control h hd E) as (rest & -> & R). exists (rest ++ payload). split; [reflexivity|exact R].
Qed.

(* ---------- fields decoded from octets are always well-formed ---------- *)
Lemma ctl_fields_mask_all :
  forallb (fun c => ctl_fields c =? N.land c 0xAF) (map N.of_nat (seq 0 256)) = true.
Proof. vm_compute. reflexivity. Qed.

Lemma ctl_fields_mask c : c < 256 -> ctl_fields c = N.land c 0xAF.
Proof.
  intros Hc. pose proof (proj1 (forallb_forall _ _) ctl_fields_mask_all c) as H. cbv beta in H.
  assert (I : In c (map N.of_nat (seq 0 256))).
  { apply in_map_iff. exists (N.to_nat c). split; [apply N2Nat.id|]. apply in_seq. lia. }
  specialize (H I). lia.
Qed.

Lemma dec_dadr_wf bs a r : bytes_ok bs = true -> dec_dadr bs = Ok (a, r) ->
  wf_dadr a = true /\ bytes_ok r = true.
Proof.
  intros Hb H. unfold dec_dadr in H.
  destruct (get_short bs) as [[n q1]|] eqn:E1; cbn [bind] in H; [|discriminate].
  destruct (get q1) as [[dlen q2]|] eqn:E2; cbn [bind] in H; [|discriminate].
  destruct (get_data dlen q2) as [[mac q3]|] eqn:E3; cbn [bind] in H; [|discriminate].
  injection H as <- <-.
  destruct (addr_fields_inv bs n dlen mac q3 Hb) as (Eb & Hn & Hd & Hl & Hm & Hr).
  { rewrite E1. cbn [bind]. rewrite E2. cbn [bind]. rewrite E3. reflexivity. }
  split; [|exact Hr].
  destruct (n =? 65535) eqn:F1; [reflexivity|].
  destruct (dlen =? 0) eqn:F2; cbn [wf_dadr]; [lia|].
  unfold wf_station. rewrite Hm. lia.
Qed.

Lemma dec_npci_wf bs c h r : bytes_ok bs = true -> dec_npci bs = Ok (c, h, r) ->
  wf_npci h = true /\ spec_control h = N.land c 0xAF /\ c < 256.
Proof.
  intros Hb H. unfold dec_npci in H.
  destruct (lenN bs <? 2); [discriminate|].
  destruct (get bs) as [[v r1]|] eqn:E1; cbn [bind] in H; [|discriminate].
  destruct (negb (v =? 1)) eqn:Ev; [discriminate|].
  destruct (get r1) as [[c' r2]|] eqn:E2; cbn [bind] in H; [|discriminate].
  cbv zeta in H.
  apply get_inv in E1 as ->. apply get_inv in E2 as ->.
  apply bytes_ok_cons in Hb as [Hv Hb]. apply bytes_ok_cons in Hb as [Hc Hb2].
  destruct (dec_opt _ dec_dadr r2) as [[d r3]|] eqn:E3; cbn [bind] in H; [|discriminate].
  destruct (dec_opt _ dec_sadr r3) as [[s r4]|] eqn:E4; cbn [bind] in H; [|discriminate].
  destruct (dec_opt _ get r4) as [[hp r5]|] eqn:E5; cbn [bind] in H; [|discriminate].
  destruct (dec_opt _ dec_mt r5) as [[mv r6]|] eqn:E6; cbn [bind] in H; [|discriminate].
  injection H as <- <- <-.
  assert (v = 1) as -> by lia.
  pose proof (ctl_fields_mask c' Hc) as Dc. unfold ctl_fields in Dc.
  pose proof (land3_lt c') as Hp.
  unfold dec_opt in E3, E4, E5, E6.
  assert (S3 : is_some d = negb (N.land c' 32 =? 0) /\ wf_opt wf_dadr d = true /\ bytes_ok r3 = true).
  { destruct (negb (N.land c' 32 =? 0)).
    - destruct (dec_dadr r2) as [[a q]|] eqn:E; cbn [bind] in E3; [|discriminate].
      injection E3 as <- <-. destruct (dec_dadr_wf r2 a q Hb2 E) as (W & B).
      cbn [is_some wf_opt]. repeat split; assumption.
    - injection E3 as <- <-. cbn [is_some wf_opt]. repeat split; assumption. }
  destruct S3 as (I3 & W3 & B3).
  assert (S4 : is_some s = negb (N.land c' 8 =? 0) /\ wf_opt wf_sadr s = true /\ bytes_ok r4 = true).
  { destruct (negb (N.land c' 8 =? 0)).
    - destruct (dec_sadr r3) as [[a q]|] eqn:E; cbn [bind] in E4; [|discriminate].
      injection E4 as <- <-. destruct (dec_sadr_sound r3 a q B3 E) as (W & _ & B).
      cbn [is_some wf_opt]. repeat split; assumption.
    - injection E4 as <- <-. cbn [is_some wf_opt]. repeat split; assumption. }
  destruct S4 as (I4 & W4 & B4).
  assert (S5 : is_some hp = negb (N.land c' 32 =? 0) /\ wf_opt (fun x => x <? 256) hp = true /\ bytes_ok r5 = true).
  { destruct (negb (N.land c' 32 =? 0)).
    - destruct (get r4) as [[x q]|] eqn:E; cbn [bind] in E5; [|discriminate].
      injection E5 as <- <-. apply get_inv in E as ->. apply bytes_ok_cons in B4 as [Hx B4].
      cbn [is_some wf_opt]. repeat split; try assumption; lia.
    - injection E5 as <- <-. cbn [is_some wf_opt]. repeat split; assumption. }
  destruct S5 as (I5 & W5 & B5).
  set (m := option_map fst mv) in *.
  set (vd := match mv with Some (_, vd) => vd | None => None end) in *.
  assert (S6 : is_some m = negb (N.land c' 128 =? 0) /\ wf_mv m vd = true).
  { subst m vd. destruct (negb (N.land c' 128 =? 0)).
    - destruct (dec_mt r5) as [[[t vd] q]|] eqn:E; cbn [bind] in E6; [|discriminate].
      injection E6 as <- <-. destruct (dec_mt_sound r5 t vd q B5 E) as (W & _ & _).
      cbn [is_some option_map fst]. split; [reflexivity|assumption].
    - injection E6 as <- <-. cbn [is_some option_map wf_mv]. split; reflexivity. }
  destruct S6 as (I6 & W6).
  split; [|split; [|exact Hc]].
  - unfold wf_npci. cbn [Npci.ver Npci.er Npci.prio Npci.dadr Npci.sadr Npci.hop Npci.nmsg Npci.vendor].
    rewrite W3, W4. fold (wf_mv m vd). rewrite W6.
    assert (Hh : match d, hp with Some _, Some x => x <? 256 | None, None => true | _, _ => false end = true).
    { destruct d, hp; cbn [is_some wf_opt] in *; try assumption; try reflexivity; congruence. }
    rewrite Hh. cbn [N.eqb Pos.eqb andb]. lia.
  - unfold spec_control. cbn [Npci.er Npci.prio Npci.dadr Npci.sadr Npci.nmsg].
    rewrite I3, I4, I6. exact Dc.
Qed.

(* re-encoding the decoded object: always succeeds, gives the clause 6.2 layout of the decoded fields
   followed by the decoded payload, with control octet = the received one with bits 6 and 4 cleared;
   and that frame decodes to the same fields again *)
Lemma reenc_canonical bs c h r : bytes_ok bs = true -> dec_npci bs = Ok (c, h, r) ->
  reenc bs = Ok (spec6_2 h ++ r)
  /\ spec_control h = N.land c 0xAF
  /\ dec_npci (spec6_2 h ++ r) = Ok (N.land c 0xAF, h, r).
Proof.
  intros Hb H. destruct (dec_npci_wf bs c h r Hb H) as (W & C & _).
  split; [|split; [exact C|]].
  - unfold reenc. rewrite H. cbn [bind snd]. unfold enc_npdu. rewrite enc_npci_spec by exact W. reflexivity.
  - rewrite dec_npci_spec by exact W. rewrite C. reflexivity.
Qed.
