(* Tag.v — model of primitivedata.Tag / TagList (encode, decode, get_context) and of
   constructeddata.Any.decode.  Mirrors py34/bacpypes/primitivedata.py:99-178, 388-445.
   No proofs here (TagFacts.v). *)
From Bac Require Export Base.
Open Scope N_scope.

Record tag : Set := mkTag { cls : N; num : N; lvt : N; data : list N }.

Definition tag_eqb (a b : tag) : bool :=
  (cls a =? cls b) && (num a =? num b) && (lvt a =? lvt b) && list_eqb N.eqb (data a) (data b).

(* Tag.encode *)
Definition class_bits (c : N) : N :=
  if c =? 1 then 8 else if c =? 2 then 14 else if c =? 3 then 15 else 0.

Definition len_escape (l : N) : res (list N) :=
  if l <? 5 then Ok []
  else if l <=? 253 then put l
  else if l <=? 65535 then Ok (254 :: put_short l)
  else Ok (255 :: put_long l).

Definition enc_tag (t : tag) : res (list N) :=
  let d := class_bits (cls t)
           + (if num t <? 15 then num t * 16 else 240)
           + (if lvt t <? 5 then lvt t else 5) in
  do h <- put d;
  do x <- (if num t <? 15 then Ok [] else put (num t));
  do l <- len_escape (lvt t);
  Ok (h ++ x ++ l ++ data t).

Fixpoint enc_tags (ts : list tag) : res (list N) :=
  match ts with
  | [] => Ok []
  | t :: r => do a <- enc_tag t; do b <- enc_tags r; Ok (a ++ b)
  end.

(* Tag.decode: every DecodingError becomes InvalidTag *)
Definition dec_tag_raw (bs : list N) : res (tag * list N) :=
  do (b, r0) <- get bs;
  let c0 := (b / 8) mod 2 in
  let n0 := b / 16 in
  do (n, r1) <- (if n0 =? 15 then get r0 else Ok (n0, r0));
  let l0 := b mod 8 in
  do (cl, r2) <-
     (if l0 =? 5 then
        do (l1, q) <- get r1;
        if l1 =? 254 then do (l2, q2) <- get_short q; Ok ((c0, l2), q2)
        else if l1 =? 255 then do (l2, q2) <- get_long q; Ok ((c0, l2), q2)
        else Ok ((c0, l1), q)
      else if l0 =? 6 then Ok ((2, 0), r1)
      else if l0 =? 7 then Ok ((3, 0), r1)
      else Ok ((c0, l0), r1));
  let '(c, l) := cl in
  if (c =? 0) && (n =? 1) then Ok (mkTag c n l [], r2)
  else do (d, r3) <- get_data l r2; Ok (mkTag c n l d, r3).

Definition dec_tag (bs : list N) : res (tag * list N) :=
  match dec_tag_raw bs with
  | Err DecodingError => Err InvalidTag
  | x => x
  end.

(* TagList.decode: while pdu.pduData: append(Tag(pdu)) — fuel = number of octets *)
Fixpoint dec_tags_fuel (fuel : nat) (bs : list N) : res (list tag) :=
  match bs with
  | [] => Ok []
  | _ =>
    match fuel with
    | O => Err OutOfFuel
    | S f =>
      do (t, r) <- dec_tag bs;
      do ts <- dec_tags_fuel f r;
      Ok (t :: ts)
    end
  end.
Definition dec_tags (bs : list N) : res (list tag) := dec_tags_fuel (length bs) bs.

(* inner loop of TagList.get_context: collect until the matching close.
   Returns (collected, remaining-after-close) or None when the list ends first. *)
Fixpoint collect_group (lvl : nat) (ts : list tag) : option (list tag * list tag) :=
  match ts with
  | [] => None
  | t :: r =>
    if cls t =? 2 then
      match collect_group (S lvl) r with
      | Some (g, rest) => Some (t :: g, rest) | None => None end
    else if cls t =? 3 then
      match lvl with
      | O => Some ([], r)
      | S l' => match collect_group l' r with
                | Some (g, rest) => Some (t :: g, rest) | None => None end
      end
    else
      match collect_group lvl r with
      | Some (g, rest) => Some (t :: g, rest) | None => None end
  end.

Inductive ctx_result : Set := CtxNone | CtxTag (t : tag) | CtxGroup (g : list tag).

(* TagList.get_context(context); fuel = length of the list *)
Fixpoint get_context_fuel (fuel : nat) (ctx : N) (ts : list tag) : res ctx_result :=
  match fuel with
  | O => match ts with [] => Ok CtxNone | _ => Err OutOfFuel end
  | S f =>
    match ts with
    | [] => Ok CtxNone
    | t :: r =>
      if cls t =? 0 then get_context_fuel f ctx r
      else if cls t =? 1 then
        if num t =? ctx then Ok (CtxTag t) else get_context_fuel f ctx r
      else if cls t =? 2 then
        match collect_group 0 r with
        | None => Err InvalidTag
        | Some (g, rest) =>
            if num t =? ctx then Ok (CtxGroup g) else get_context_fuel f ctx rest
        end
      else Err InvalidTag
    end
  end.
Definition get_context (ctx : N) (ts : list tag) : res ctx_result :=
  get_context_fuel (length ts) ctx ts.

(* Any.decode(taglist): take tags until an unmatched closing tag; DecodingError when
   openings remain unmatched at the end.  Returns (taken, remaining). *)
Fixpoint any_take (lvl : nat) (ts : list tag) : res (list tag * list tag) :=
  match ts with
  | [] => match lvl with O => Ok ([], []) | S _ => Err DecodingError end
  | t :: r =>
    if cls t =? 2 then
      do (g, rest) <- any_take (S lvl) r; Ok (t :: g, rest)
    else if cls t =? 3 then
      match lvl with
      | O => Ok ([], ts)
      | S l' => do (g, rest) <- any_take l' r; Ok (t :: g, rest)
      end
    else do (g, rest) <- any_take lvl r; Ok (t :: g, rest)
  end.
Definition any_decode := any_take 0.

(* well-formed tags: the domain of the round-trip theorem *)
Definition wf_tag (t : tag) : bool :=
  (cls t <=? 3) && (num t <=? 255) && (lvt t <? 4294967296) && bytes_ok (data t) &&
  (if (cls t =? 2) || (cls t =? 3) then (lvt t =? 0) && (lenN (data t) =? 0)
   else if (cls t =? 0) && (num t =? 1) then lenN (data t) =? 0
   else lenN (data t) =? lvt t).

(* independent statement of the header the standard prescribes (clause 20.2.1) *)
Definition spec_header (t : tag) : list N :=
  let numpart := if num t <? 15 then num t else 15 in
  let clsbit := if cls t =? 0 then 0 else 1 in        (* context-specific class bit *)
  let lvtpart := if cls t =? 2 then 6 else if cls t =? 3 then 7
                 else if lvt t <? 5 then lvt t else 5 in
  [numpart * 16 + clsbit * 8 + lvtpart]
  ++ (if num t <? 15 then [] else [num t])
  ++ (if lvt t <? 5 then []
      else if lvt t <=? 253 then [lvt t]
      else if lvt t <=? 65535 then [254; lvt t / 256; lvt t mod 256]
      else [255; lvt t / 16777216; (lvt t / 65536) mod 256; (lvt t / 256) mod 256; lvt t mod 256]).

(* canonical outputs for the correspondence check *)
Definition canon_tag (t : tag) : list Z :=
  [zN (cls t); zN (num t); zN (lvt t); zlen (data t)] ++ zs (data t).
Definition canon_tags (ts : list tag) : list Z :=
  zlen ts :: flat_map canon_tag ts.
Definition canon_res {A} (f : A -> list Z) (r : res A) : list Z :=
  match r with Ok a => 0%Z :: f a | Err e => [1%Z; err_code e] end.
Definition canon_ctx (c : ctx_result) : list Z :=
  match c with
  | CtxNone => [0%Z] | CtxTag t => 1%Z :: canon_tag t | CtxGroup g => 2%Z :: canon_tags g
  end.
