(* DevCache.v — executable model of app.DeviceInfoCache (app.py:76-211: iam_device_info 97-128, get_device_info 130-137,
   update_device_info 139-174, acquire 176-199, release 201-211) and of the use the segmentation state machines make of it
   (appservice.py: SSM.__init__ 65 looks the record up by peer address; ClientSSM.__init__ 265-267 / ServerSSM.__init__
   701-703 acquire it when there is one; ClientSSM.set_state 279-284 / ServerSSM.set_state 715-720 take the transaction out
   of its table and THEN release the record - an exception raised there pre-empts the delivery of the outcome; ServerSSM.idle
   907-920 upgrades segmentationSupported in place and calls update_device_info).
   Records are Python objects shared by the cache (under two keys: device instance and address) and by every transaction
   that holds them: here a record is its position in `dc_recs` (creation order, never removed), the cache's one dict is two
   association lists (int keys / Address keys cannot collide) that keep insertion order as a Python dict does.
   No proofs here.  `dc_run` produces the canonical observation of harness/devcache_common.py: run_history. *)
From Bac Require Import Base.
Open Scope Z_scope.

(* dr_seg: 0 noSegmentation, 1 segmentedTransmit, 2 segmentedReceive, 3 segmentedBoth (ssm_common.SEG_NAMES);
   dr_keys: the record's _cache_keys (None until update_device_info has seen it) *)
Record drec := mkDrec { dr_inst : Z; dr_addr : Z; dr_maxapdu : Z; dr_seg : Z; dr_ref : Z; dr_keys : option (Z * Z) }.
Record dcache := mkDc { dc_recs : list drec; dc_by_id : list (Z * nat); dc_by_addr : list (Z * nat) }.

(* dict.get / d[k] = v (an existing key keeps its place) / del d[k] (KeyError when absent) *)
Fixpoint dget (k : Z) (d : list (Z * nat)) : option nat :=
  match d with [] => None | (k', v) :: r => if k =? k' then Some v else dget k r end.
Fixpoint dset (k : Z) (v : nat) (d : list (Z * nat)) : list (Z * nat) :=
  match d with [] => [(k, v)] | (k', v') :: r => if k =? k' then (k, v) :: r else (k', v') :: dset k v r end.
Fixpoint ddel (k : Z) (d : list (Z * nat)) : res (list (Z * nat)) :=
  match d with
  | [] => Err KeyErr
  | (k', v') :: r => if k =? k' then Ok r else match ddel k r with Ok r' => Ok ((k', v') :: r') | Err e => Err e end
  end.

Fixpoint upd_nth {A} (i : nat) (f : A -> A) (l : list A) : list A :=
  match l, i with [], _ => [] | x :: r, O => f x :: r | x :: r, S k => x :: upd_nth k f r end.
Fixpoint del_nth {A} (i : nat) (l : list A) : list A :=
  match l, i with [], _ => [] | _ :: r, O => r | x :: r, S k => x :: del_nth k r end.

Definition set_keys (k : option (Z * Z)) (r : drec) := mkDrec (dr_inst r) (dr_addr r) (dr_maxapdu r) (dr_seg r) (dr_ref r) k.
Definition set_ref (n : Z) (r : drec) := mkDrec (dr_inst r) (dr_addr r) (dr_maxapdu r) (dr_seg r) n (dr_keys r).
Definition set_seg (s : Z) (r : drec) := mkDrec (dr_inst r) (dr_addr r) (dr_maxapdu r) s (dr_ref r) (dr_keys r).
Definition set_iam (inst addr ma sg : Z) (r : drec) := mkDrec inst addr ma sg (dr_ref r) (dr_keys r).

(* update_device_info (139-174) for record i: what has been done before a KeyError stays done.  A record position that
   does not exist cannot be passed in Python (the argument is the object): OtherErr marks that impossible case *)
Definition update_device_info (i : nat) (c : dcache) : dcache * option err :=
  match nth_error (dc_recs c) i with
  | None => (c, Some OtherErr)
  | Some r =>
    match dr_keys r with
    | None =>
      (* not seen before: stored under both keys *)
      (mkDc (upd_nth i (set_keys (Some (dr_inst r, dr_addr r))) (dc_recs c))
            (dset (dr_inst r) i (dc_by_id c)) (dset (dr_addr r) i (dc_by_addr c)), None)
    | Some (kid, kad) =>
      let s3 := if negb (dr_inst r =? kid)
                then match ddel kid (dc_by_id c) with Ok d => Ok (dset (dr_inst r) i d) | Err e => Err e end
                else Ok (dc_by_id c) in
      match s3 with
      | Err e => (c, Some e)
      | Ok bid =>
        let s4 := if negb (dr_addr r =? kad)
                  then match ddel kad (dc_by_addr c) with Ok d => Ok (dset (dr_addr r) i d) | Err e => Err e end
                  else Ok (dc_by_addr c) in
        match s4 with
        | Err e => (mkDc (dc_recs c) bid (dc_by_addr c), Some e)
        | Ok bad => (mkDc (upd_nth i (set_keys (Some (dr_inst r, dr_addr r))) (dc_recs c)) bid bad, None)
        end
      end
    end
  end.

(* iam_device_info (97-128): the record of this instance, else the record at this address, else a new one
   (DeviceInfo.__init__: max-APDU 1024, noSegmentation; the reference count 0 is given by update_device_info) *)
Definition iam_device_info (inst addr ma sg : Z) (c : dcache) : dcache * option err :=
  let found := match dget inst (dc_by_id c) with Some i => Some i | None => dget addr (dc_by_addr c) end in
  let '(i, recs) := match found with
                    | Some i => (i, dc_recs c)
                    | None => (length (dc_recs c), dc_recs c ++ [mkDrec inst addr 1024 0 0 None])
                    end in
  update_device_info i (mkDc (upd_nth i (set_iam inst addr ma sg) recs) (dc_by_id c) (dc_by_addr c)).

Definition get_device_info (addr : Z) (c : dcache) : option nat := dget addr (dc_by_addr c).

(* acquire (176-199) with an Address key of a station (the only call sites pass the peer address of a transaction whose
   record was just found under that address) *)
Definition acquire (addr : Z) (c : dcache) : dcache * option nat :=
  match dget addr (dc_by_addr c) with
  | Some i => (mkDc (upd_nth i (fun r => set_ref (dr_ref r + 1) r) (dc_recs c)) (dc_by_id c) (dc_by_addr c), Some i)
  | None => (c, None)
  end.

(* release (201-211) *)
Definition release (i : nat) (c : dcache) : dcache * option err :=
  match nth_error (dc_recs c) i with
  | None => (c, Some OtherErr)
  | Some r => if dr_ref r =? 0 then (c, Some RuntimeErr)
              else (mkDc (upd_nth i (fun r => set_ref (dr_ref r - 1) r) (dc_recs c)) (dc_by_id c) (dc_by_addr c), None)
  end.

(* ---------- the transactions of one StateMachineAccessPoint as far as the cache is concerned ---------- *)
(* a live transaction: peer address and the record it holds (SSM.device_info) *)
Record dstate := mkDs { ds_cache : dcache; ds_live : list (Z * option nat) }.

Inductive dop :=
| DIam (inst addr ma sg : Z)      (* an I-Am is recorded *)
| DOpen (addr : Z)                (* ClientSSM(sap, addr) / ServerSSM(sap, addr) is created and put into its table *)
| DClose (k : nat)                (* the k-th live transaction reaches COMPLETED / ABORTED *)
| DUpgrade (k : nat).             (* ServerSSM.idle of the k-th live transaction sees a request with SA = 1 *)

Definition dstep (o : dop) (s : dstate) : dstate * option err :=
  let c := ds_cache s in
  match o with
  | DIam inst addr ma sg => let '(c', e) := iam_device_info inst addr ma sg c in (mkDs c' (ds_live s), e)
  | DOpen addr =>
    let di := get_device_info addr c in
    let c' := match di with Some _ => fst (acquire addr c) | None => c end in
    (mkDs c' (ds_live s ++ [(addr, di)]), None)
  | DClose k =>
    match nth_error (ds_live s) k with
    | None => (s, None)
    | Some (_, di) =>
      let live' := del_nth k (ds_live s) in          (* out of the table first ... *)
      match di with
      | Some i => let '(c', e) := release i c in (mkDs c' live', e)      (* ... then the release, which may raise *)
      | None => (mkDs c live', None)
      end
    end
  | DUpgrade k =>
    match nth_error (ds_live s) k with
    | Some (_, Some i) =>
      match nth_error (dc_recs c) i with
      | None => (s, Some OtherErr)
      | Some r =>
        let sg := dr_seg r in
        if (sg =? 0) || (sg =? 1) then
          let c1 := mkDc (upd_nth i (set_seg (sg + 2)) (dc_recs c)) (dc_by_id c) (dc_by_addr c) in
          let '(c', e) := update_device_info i c1 in (mkDs c' (ds_live s), e)
        else if (sg =? 2) || (sg =? 3) then (s, None)
        else (s, Some RuntimeErr)
      end
    | _ => (s, None)
    end
  end.

Definition ds_init : dstate := mkDs (mkDc [] [] []) [].

(* the run loop logs an exception and carries on *)
Fixpoint dsteps (ops : list dop) (s : dstate) : dstate :=
  match ops with [] => s | o :: r => dsteps r (fst (dstep o s)) end.

(* number of live transactions that hold record i *)
Fixpoint holders (i : nat) (l : list (Z * option nat)) : Z :=
  match l with
  | [] => 0
  | (_, Some j) :: r => (if Nat.eqb j i then 1 else 0) + holders i r
  | (_, None) :: r => holders i r
  end.

(* ---------- canonical observation (harness/devcache_common.py: observe) ---------- *)
Definition obs_rec (r : drec) : list Z := [dr_inst r; dr_addr r; dr_maxapdu r; dr_seg r; dr_ref r].
Definition obs_dict (d : list (Z * nat)) : list Z := flat_map (fun p => [fst p; Z.of_nat (snd p)]) d.
Definition obs_live (l : list (Z * option nat)) : list Z :=
  flat_map (fun p => [fst p; match snd p with Some i => Z.of_nat i | None => -1 end]) l.
Definition observe (s : dstate) : list Z :=
  let c := ds_cache s in
  [Z.of_nat (length (dc_recs c))] ++ flat_map obs_rec (dc_recs c)
  ++ [Z.of_nat (length (dc_by_id c))] ++ obs_dict (dc_by_id c)
  ++ [Z.of_nat (length (dc_by_addr c))] ++ obs_dict (dc_by_addr c)
  ++ [Z.of_nat (length (ds_live s))] ++ obs_live (ds_live s).

Fixpoint dc_run_from (ops : list dop) (s : dstate) : list Z :=
  match ops with
  | [] => []
  | o :: r => let '(s', e) := dstep o s in
              (match e with Some x => err_code x | None => 0 end) :: observe s' ++ dc_run_from r s'
  end.
Definition dc_run (ops : list dop) : list Z := dc_run_from ops ds_init.
