(* ApciSession.v — object histories over the APCI model (Apci.v): a store of APDU objects and the
   operations an application performs on them — decode octets into a fresh or an already used
   object, append to an object's pduData in place, use an object as the target of another
   encode, hand a decoded APDU to its typed class, re-encode.  The point of the model: what a
   decode yields is a function of the octets fed (and, for attributes the PDU type does not
   carry, of what the SAME object held before) — never of what happened to any other object.
   No proofs here (ApciSessionFacts.v). *)
From Bac Require Export Base Apci.
Open Scope Z_scope.

(* APCI.decode assigns only the attributes of the decoded type; decoding into an object that was
   used before leaves the others as they were (apdu.py:255-322 has no reset) *)
Definition pick {A} (new old : option A) : option A := match new with Some _ => new | None => old end.
Definition overlay (old new : apci) : apci :=
  mkApci (pick (aType new) (aType old))
         (pick (aSeg new) (aSeg old)) (pick (aMor new) (aMor old)) (pick (aSA new) (aSA old))
         (pick (aSrv new) (aSrv old)) (pick (aNak new) (aNak old))
         (pick (aSeq new) (aSeq old)) (pick (aWin new) (aWin old))
         (pick (aMaxSegs new) (aMaxSegs old)) (pick (aMaxResp new) (aMaxResp old))
         (pick (aService new) (aService old)) (pick (aInvokeID new) (aInvokeID old))
         (pick (aReason new) (aReason old)).

(* APDU.decode into an object whose attributes are `old`: header attributes overlaid, pduData
   REPLACED by the octets that follow the header (apdu.py:378-382) *)
Definition dec_into (old : apci) (bs : list N) : res (apci * list N) :=
  do (a, r) <- dec_apci bs; Ok (overlay old a, r).

Definition obj : Set := (apci * list N)%type.         (* attributes, pduData *)
Definition store : Set := list (nat * obj).
Definition fresh_obj : obj := (apci_none, []).
Fixpoint lookup (st : store) (o : nat) : obj :=
  match st with
  | [] => fresh_obj
  | (k, v) :: r => if Nat.eqb k o then v else lookup r o
  end.
Definition update (st : store) (o : nat) (v : obj) : store := (o, v) :: st.

Inductive op : Set :=
| OpDecode (o : nat) (bs : list N)              (* objs[o].decode(PDU(bs)); o fresh or used *)
| OpPut (o : nat) (extra : list N)              (* objs[o].put_data(extra): in-place append *)
| OpEncodeInto (o : nat) (h : apci) (p : list N)(* a fresh APDU (h, p) does .encode(objs[o]) *)
| OpTyped (dst src : nat)                       (* objs[dst].decode(objs[src]) with objs[dst] of a typed class — a new
                                                   apdu_types[t]() or one that was decoded into before: _APDU.decode
                                                   replaces whatever it held *)
| OpReencode (o : nat)                          (* objs[o] encoded into a fresh PDU; octets observed *)
(* round 3: the SOURCE of a decode / the TARGET of an encode is itself an object of the store that
   the application keeps using (relay through the same PDU, receive-buffer reuse) *)
| OpNew (o : nat)                               (* objs[o] = PDU(): fresh and empty *)
| OpDecodeFrom (o src : nat)                    (* objs[o].decode(objs[src]): APDU.decode drains the source *)
| OpEncodeTo (o dst : nat)                      (* objs[o].encode(objs[dst]): APDU.encode appends to the target *)
| OpPeek (o : nat).                             (* bytes(objs[o].pduData) observed *)

Definition framed (l : list Z) : list Z := zlen l :: l.

Definition step (st : store) (x : op) : store * list Z :=
  match x with
  | OpDecode o bs =>
      match dec_into (fst (lookup st o)) bs with
      | Ok (a, r) => (update st o (a, r), framed (canon_dec (Ok (a, r))))
      | Err e => (st, framed [1; err_code e])       (* the object is not used again (generator) *)
      end
  | OpPut o extra =>
      let '(a, p) := lookup st o in (update st o (a, p ++ extra), [])
  | OpEncodeInto o h p =>
      (* APCI.encode(self, pdu): PCI.update copies addressing only; octets are appended *)
      match enc_apdu h p with
      | Ok bs => let '(a, q) := lookup st o in (update st o (a, q ++ bs), framed [0])
      | Err e => (st, framed [1; err_code e])
      end
  | OpTyped dst src =>
      (* _APDU.decode: APCI.update(self, pdu) copies all thirteen attributes;
         self.pduData = pdu.get_data(len(pdu.pduData)) moves the payload out of the source *)
      let '(a, p) := lookup st src in (update (update st src (a, [])) dst (a, p), [])
  | OpReencode o =>
      let '(a, p) := lookup st o in (st, framed (canon_enc (enc_apdu a p)))
  | OpNew o => (update st o fresh_obj, [])
  | OpDecodeFrom o src =>
      (* APDU.decode(self, pdu): header attributes overlaid, self.pduData REPLACED by what follows the
         header, and pdu.get_data(len(pdu.pduData)) leaves the source empty (apdu.py:378-382) *)
      let '(sa, sbs) := lookup st src in
      match dec_into (fst (lookup st o)) sbs with
      | Ok (a, r) => (update (update st src (sa, [])) o (a, r), framed (canon_dec (Ok (a, r))))
      | Err e => (st, framed [1; err_code e])       (* neither object is used again (generator) *)
      end
  | OpEncodeTo o dst =>
      let '(a, p) := lookup st o in
      match enc_apdu a p with
      | Ok bs => let '(da, dd) := lookup st dst in (update st dst (da, dd ++ bs), framed [0])
      | Err e => (st, framed [1; err_code e])
      end
  | OpPeek o => (st, framed (zs (snd (lookup st o))))
  end.

Fixpoint run (st : store) (ops : list op) : list Z :=
  match ops with
  | [] => []
  | x :: r => let '(st', out) := step st x in out ++ run st' r
  end.
Definition canon_session (ops : list op) : list Z := run [] ops.

(* the objects an operation names *)
Definition touched (x : op) : list nat :=
  match x with
  | OpDecode o _ | OpPut o _ | OpEncodeInto o _ _ | OpReencode o | OpNew o | OpPeek o => [o]
  | OpTyped dst src | OpDecodeFrom dst src | OpEncodeTo src dst => [dst; src]
  end.

(* ---- large payloads (sizes at and around the largest APDU, 1476 octets, and far beyond): the
   payload is the pattern pat n k, and the canonical result says whether the octets after the
   header ARE that pattern, so that the case text stays small while every octet is compared *)
Definition pat (n : nat) (k : N) : list N :=
  map (fun i => ((N.of_nat i * 7 + k) mod 256)%N) (seq 0 n).
Definition same_octets (a b : list N) : Z := zb (list_eqb N.eqb a b).
Definition canon_enc_big (n : nat) (k : N) (r : res (list N)) : list Z :=
  cres (fun bs => let hl := (length bs - n)%nat in
                  zs (firstn hl bs) ++ [zlen bs; same_octets (skipn hl bs) (pat n k)]) r.
Definition canon_dec_big (n : nat) (k : N) (r : res (apci * list N)) : list Z :=
  cres (fun p => canon_apci (fst p) ++ [zlen (snd p); same_octets (snd p) (pat n k)]) r.
