(* SsmC04a.v — (slow part: symbolic execution of every ClientSSM handler)
   SsmC04.v — C04 on the client transaction: every handler of ClientSSM emits at most one application
   outcome, an outcome is emitted exactly when the transaction leaves the table, a transaction that left
   the table has no timer, one that stays has its timer armed, and time-outs use up a bounded budget. *)
From Coq Require Import ZifyBool ZifyN ZifyNat.
From Bac Require Import Base PyRt Ssm SsmFacts.
From BacGen Require Import ApduFns.
Open Scope Z_scope.
(* no div/mod reasoning in this file: the lia hook is left alone (it would slow every call down) *)

Definition is_toapp (o : out) : bool := match o with ToApp _ => true | Tx _ => false end.
Definition ntoapp (l : list out) : Z := zlen (filter is_toapp l).
Definition terminal (s : ssm) : bool := (s_state s =? COMPLETED) || (s_state s =? ABORTED).

(* configuration copied into the transaction never changes *)
Definition same_cfg (s s' : ssm) : Prop :=
  s_peer s' = s_peer s /\ s_retries s' = s_retries s /\ s_apdu_to s' = s_apdu_to s /\ s_seg_to s' = s_seg_to s /\
  s_propwin s' = s_propwin s /\ s_app_to s' = s_app_to s /\ s_segsupp s' = s_segsupp s /\ s_dinfo s' = s_dinfo s.

(* what one handler run guarantees, started on a listed, non-terminal transaction with nothing emitted yet.
   `armed_before` says whether the timer was armed when the handler started (it is for a frame, it is not for a
   time-out: the TaskManager has just popped it). *)
Definition post (st : hst) (r : hst * option err) : Prop :=
  let st' := fst r in
  h_now st' = h_now st /\ h_ctr st <= h_ctr st' /\
  same_cfg (h_s st) (h_s st') /\
  ntoapp (h_outs st') <= 1 /\
  (ntoapp (h_outs st') = 1 <-> h_live st' = false) /\
  (h_live st' = false <-> terminal (h_s st') = true) /\
  (h_live st' = false -> s_timer (h_s st') = None) /\
  (h_live st' = true -> snd r = None -> s_timer (h_s st') <> None) /\
  (h_live st' = true -> s_timer (h_s st) <> None -> s_timer (h_s st') <> None) /\
  (* the outcome is the last thing the handler emits (h_outs is newest first) *)
  (h_live st' = false -> match h_outs st' with ToApp _ :: _ => True | _ => False end).

Definition pre (st : hst) : Prop :=
  h_live st = true /\ h_outs st = [] /\ terminal (h_s st) = false /\ 0 < s_apdu_to (h_s st) /\ 0 < s_seg_to (h_s st).

Ltac destruct_ssm s :=
  destruct s as [x_peer x_inv x_state x_ctx x_segsz x_segcnt x_rty x_srty x_sall x_lsq x_isq x_awin
                 x_rts x_ato x_sto x_ssup x_msegs x_mapdu x_sra x_tmr x_dinf x_pwin x_appto].

(* ---------- fill_window only sends frames ---------- *)
Definition only_tx (l : list out) : Prop := forall o, In o l -> is_toapp o = false.

Lemma fill_loop_effect : forall n seqNum ix st st' e,
  fill_loop n seqNum ix st = (st', e) ->
  h_ctr st' = h_ctr st /\ h_now st' = h_now st /\ h_live st' = h_live st /\
  (exists b, h_s st' = set_sentall_f b (h_s st)) /\
  (exists txs, h_outs st' = txs ++ h_outs st /\ only_tx txs).
Proof.
  induction n as [|n IH]; intros seqNum ix [s outs ctr now live] st' e H; cbn [fill_loop] in H.
  - inversion H; subst. cbn. repeat split; auto.
    + exists (s_sentall s). destruct_ssm s; reflexivity.
    + exists []. split; [reflexivity | intros o []].
  - unfold withs in H. cbn [h_s] in H.
    destruct (get_segment s (seqNum + ix)) as [a|err] eqn:Eg.
    + unfold mseq, emit in H. cbn [h_s h_outs h_ctr h_now h_live] in H.
      destruct (a_mor a) eqn:Em.
      * apply IH in H. cbn [h_s h_outs h_ctr h_now h_live] in H. destruct H as (H1 & H2 & H3 & (b & H4) & (txs & H5 & H6)).
        repeat split; auto. { exists b; exact H4. }
        exists (txs ++ [Tx a]). split; [rewrite H5, <- app_assoc; reflexivity|].
        intros o Ho. apply in_app_or in Ho. destruct Ho as [Ho|[<-|[]]]; [auto | reflexivity].
      * unfold upd in H. cbn [h_s h_outs h_ctr h_now h_live] in H. inversion H; subst. cbn.
        repeat split; auto. { exists true; reflexivity. }
        exists [Tx a]. split; [reflexivity|]. intros o [<-|[]]. reflexivity.
    + unfold raise in H. inversion H; subst. cbn. repeat split; auto.
      * exists (s_sentall s). destruct_ssm s; reflexivity.
      * exists []. split; [reflexivity | intros o []].
Qed.

Lemma fill_window_effect : forall seqNum st st' e,
  fill_window seqNum st = (st', e) ->
  h_ctr st' = h_ctr st /\ h_now st' = h_now st /\ h_live st' = h_live st /\
  (exists b, h_s st' = set_sentall_f b (h_s st)) /\
  (exists txs, h_outs st' = txs ++ h_outs st /\ only_tx txs).
Proof.
  intros seqNum st st' e H. unfold fill_window, withs in H.
  destruct (s_actwin (h_s st)).
  - eapply fill_loop_effect; eauto.
  - unfold raise in H. inversion H; subst. repeat split; auto.
    + exists (s_sentall (h_s st')). destruct st' as [s ? ? ? ?]; destruct_ssm s; reflexivity.
    + exists []. split; [reflexivity | intros o []].
Qed.

Lemma ntoapp_only_tx : forall txs l, only_tx txs -> ntoapp (txs ++ l) = ntoapp l.
Proof.
  intros txs l H. unfold ntoapp. rewrite filter_app.
  replace (filter is_toapp txs) with (@nil out); [reflexivity|].
  induction txs as [|o r IH]; [reflexivity|]. cbn [filter].
  rewrite (H o (or_introl eq_refl)). apply IH. intros o' Ho'. apply H. right. exact Ho'.
Qed.

(* ---------- symbolic execution of the handlers ---------- *)
Ltac mcbn := cbv beta iota zeta delta
                 [mseq upd emit withs raise ret start_timer stop_timer unlist set_state send_seg
                  h_s h_outs h_ctr h_now h_live fst snd
                  s_peer s_invoke s_state s_ctx s_segsize s_segcount s_retry s_segretry s_sentall s_lastseq s_initseq s_actwin
                  s_retries s_apdu_to s_seg_to s_segsupp s_maxsegs s_maxapdu s_sra s_timer s_dinfo s_propwin s_app_to
                  set_state_f set_timer_f set_invoke_f set_ctx_f set_seg_f set_retry_f set_segretry_f set_sentall_f
                  set_lastseq_f set_initseq_f set_actwin_f set_limits_f].

Ltac finish_post :=
  unfold post, same_cfg, terminal; mcbn; cbn [app];
  rewrite ?ntoapp_only_tx by assumption;
  unfold ntoapp, zlen; cbn;
  repeat split; intros; first [exact I | reflexivity | discriminate | assumption | congruence | lia | auto].

(* one path: all tests decided; fill_window is replaced by its effect *)
Ltac path_split :=
  repeat (mcbn;
    lazymatch goal with
    | |- context [fill_window ?n ?st] =>
        let st' := fresh "st'" in let e := fresh "e" in let Hfw := fresh "Hfw" in
        let b := fresh "b" in let txs := fresh "txs" in let Htx := fresh "Htx" in
        destruct (fill_window n st) as [st' e] eqn:Hfw;
        apply fill_window_effect in Hfw;
        destruct st' as [? ? ? ? ?]; cbv beta iota delta [h_s h_outs h_ctr h_now h_live] in Hfw;
        destruct Hfw as (-> & -> & -> & (b & ->) & (txs & -> & Htx));
        destruct e
    | |- context [if ?b then _ else _] => let E := fresh "E" in destruct b eqn:E
    | |- context [match ?x with Some _ => _ | None => _ end] => let E := fresh "E" in destruct x eqn:E
    | |- context [match ?x with Ok _ => _ | Err _ => _ end] => let E := fresh "E" in destruct x eqn:E
    end).

Lemma c_await_confirmation_post : forall a st, pre st -> post st (c_await_confirmation a st).
Proof.
  intros a [s outs ctr now live] (Hl & Ho & Ht & Ha & Hs). cbn [h_s h_outs h_live] in *. subst live outs.
  destruct_ssm s. unfold terminal in Ht. cbn [s_state s_apdu_to s_seg_to s_timer] in *.
  unfold c_await_confirmation, c_abort.
  path_split; finish_post.
Qed.

Lemma c_segmented_request_post : forall a st, pre st -> post st (c_segmented_request a st).
Proof.
  intros a [s outs ctr now live] (Hl & Ho & Ht & Ha & Hs). cbn [h_s h_outs h_live] in *. subst live outs.
  destruct_ssm s. unfold terminal in Ht. cbn [s_state s_apdu_to s_seg_to s_timer] in *.
  unfold c_segmented_request, c_abort.
  path_split; finish_post.
Qed.

Ltac start_handler :=
  intros [s outs ctr now live] (Hl & Ho & Ht & Ha & Hs); cbn [h_s h_outs h_live] in *; subst live outs;
  destruct_ssm s; unfold terminal in Ht; cbn [s_state s_apdu_to s_seg_to s_timer] in *.

Lemma c_segmented_confirmation_post : forall a st, pre st -> post st (c_segmented_confirmation a st).
Proof.
  intros a. start_handler.
  unfold c_segmented_confirmation, c_abort, append_segment, actwin_z.
  path_split; finish_post.
Qed.

Lemma c_indication_post : forall a st, pre st -> post st (c_indication a st).
Proof.
  intros a. start_handler.
  unfold c_indication, c_abort.
  path_split; finish_post.
Qed.

Lemma c_segmented_request_timeout_post : forall st, pre st -> post st (c_segmented_request_timeout st).
Proof.
  start_handler.
  unfold c_segmented_request_timeout, c_abort.
  path_split; finish_post.
Qed.

(* changing the retry counter afterwards does not disturb any clause of `post` *)
Lemma post_then_retry : forall st st0 (m : M) v, post st (m st0) -> post st ((m ;; upd (set_retry_f v)) st0).
Proof.
  intros st st0 m v H. unfold mseq. destruct (m st0) as [[s' outs' ctr' now' live'] [e|]]; [exact H|].
  unfold post, same_cfg, terminal in *. destruct_ssm s'. revert H. mcbn. exact (fun H => H).
Qed.

Lemma c_await_confirmation_timeout_post : forall st, pre st -> post st (c_await_confirmation_timeout st).
Proof.
  intros st Hpre. unfold c_await_confirmation_timeout, withs.
  destruct (s_retry (h_s st) <? s_retries (h_s st)) eqn:E.
  - unfold mseq at 1.
    set (st1 := fst (upd (set_retry_f (s_retry (h_s st) + 1)) st)).
    assert (Hpre1 : pre st1).
    { destruct st as [s outs ctr now live]. destruct_ssm s. exact Hpre. }
    assert (Hst1 : forall r, post st1 r -> post st r).
    { destruct st as [s outs ctr now live]. destruct_ssm s. intros r Hr. exact Hr. }
    change (upd (set_retry_f (s_retry (h_s st) + 1)) st) with (st1, @None err). cbv iota beta.
    apply Hst1. apply post_then_retry.
    destruct (s_ctx (h_s st)) as [c|] eqn:Ec.
    + apply c_indication_post. exact Hpre1.
    + unfold raise. destruct st as [s outs ctr now live]. destruct_ssm s.
      destruct Hpre as (Hl & Ho & Ht & Ha & Hs). cbn [h_s h_outs h_live] in *. subst.
      unfold st1. unfold terminal in Ht. cbn [s_state] in Ht. finish_post.
  - revert Hpre. revert E. destruct st as [s outs ctr now live]. intros E (Hl & Ho & Ht & Ha & Hs).
    cbn [h_s h_outs h_live] in *. subst live outs. destruct_ssm s. unfold terminal in Ht. cbn [s_state] in Ht.
    unfold c_abort. path_split; finish_post.
Qed.

Lemma c_segmented_confirmation_timeout_post : forall st, pre st -> post st (c_segmented_confirmation_timeout st).
Proof.
  start_handler.
  unfold c_segmented_confirmation_timeout, c_abort.
  path_split; finish_post.
Qed.

