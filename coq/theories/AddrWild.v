(* AddrWild.v — which constructor ARGUMENTS denote the two route-free wildcard addresses.
   The tests `addr == "*"` / `addr == "*:*"` at the head of decode_address (pdu.py:99-107) are reached
   by every argument type.  Here: only the literal texts "*" / "*:*" (optionally followed by the one
   newline `$` tolerates) and an Address object that already IS that broadcast are read as the
   local / global broadcast; ints, raw octets and (host, port) tuples never are — whatever their
   content, in particular the octets 0x2A ("*") and 0x2A 0x3A 0x2A ("*:*"). *)
From Bac Require Import Base Addr AddrFacts AddrParse.
From Coq Require Import ZifyBool ZifyN ZifyNat.
Ltac Zify.zify_post_hook ::= Z.to_euclidean_division_equations.
Open Scope N_scope.

Definition non_text (a : arg) : bool :=
  match a with AInt _ | ABytes _ | ATuple _ _ => true | _ => false end.

(* ints, octets, tuples: a local station, never a broadcast *)
Lemma non_text_station a x : non_text a = true -> decode_address a = Ok x ->
  ty x = ALocalStation /\ net x = None /\ route x = None /\ exists m, mac x = Some m.
Proof.
  destruct a as [z|l|s|h port|y|]; cbn [non_text]; try discriminate; intros _ H; cbn [decode_address] in H.
  - destruct ((z <? 0)%Z || (256 <=? z)%Z); [discriminate|]. injection H as <-. cbn. eauto.
  - injection H as <-. cbn. eauto.
  - destruct (ip_from_tuple h port) as [p|e]; cbn [bind] in H; [|discriminate]. injection H as <-. cbn. eauto.
Qed.

(* raw octets are the station with exactly those octets — also behind a network *)
Lemma octets_key l x : decode_address (ABytes l) = Ok x -> key x = (ALocalStation, None, Some l) /\ route x = None.
Proof. cbn [decode_address]. intro H. injection H as <-. split; reflexivity. Qed.

Lemma octets_key2 n l : (0 <= n < 65535)%Z ->
  exists x, address2 n (ABytes l) = Ok x /\ key x = (ARemoteStation, Some n, Some l) /\ route x = None.
Proof.
  intro Hn. unfold address2. destruct ((n <? 0)%Z || (65535 <=? n)%Z) eqn:E; [lia|].
  cbn [decode_address bind ty]. eexists. repeat split.
Qed.

(* an Address object as argument: accepted exactly when it == the local / global broadcast; the
   result is that broadcast without route, and == the argument *)
Lemma addr_object y x : decode_address (AAddr y) = Ok x ->
  (x = bcast_local \/ x = bcast_global) /\ key y = key x /\ eqb y x = true.
Proof.
  cbn [decode_address]. intro H.
  destruct (eqb y bcast_local) eqn:E1.
  - injection H as <-. split; [now left|]. split; [|exact E1]. apply eqb_key; [now right|exact E1].
  - destruct (eqb y bcast_global) eqn:E2; [|discriminate].
    injection H as <-. split; [now right|]. split; [|exact E2]. apply eqb_key; [now right|exact E2].
Qed.
Lemma addr_object_refused y : ty y <> ALocalBroadcast -> ty y <> AGlobalBroadcast ->
  decode_address (AAddr y) = Err TypeErr.
Proof.
  intros H1 H2. cbn [decode_address].
  destruct (eqb y bcast_local) eqn:E1.
  { apply eqb_key in E1; [|now right]. unfold key in E1. cbn in E1. congruence. }
  destruct (eqb y bcast_global) eqn:E2; [|reflexivity].
  apply eqb_key in E2; [|now right]. unfold key in E2. cbn in E2. congruence.
Qed.

(* ------------------------------------------------------------------ texts *)
Lemma strip_nl_one s c : strip_nl s = [c] -> c <> 10 -> s = [c] \/ s = [c; 10].
Proof.
  unfold strip_nl. destruct s as [|x r]; [discriminate|].
  destruct (last (x :: r) 0 =? 10) eqn:E.
  - destruct r as [|y r']; [cbn; discriminate|].
    destruct r' as [|w r''].
    + cbn [removelast last] in *. intros H Hc. injection H as ->. right. f_equal. f_equal. lia.
    + cbn [removelast]. destruct r''; discriminate.
  - intros H _. now left.
Qed.
Lemma strip_nl_three s a b c : strip_nl s = [a; b; c] -> c <> 10 -> s = [a; b; c] \/ s = [a; b; c; 10].
Proof.
  unfold strip_nl. destruct s as [|x r]; [discriminate|].
  destruct (last (x :: r) 0 =? 10) eqn:E.
  - destruct r as [|x2 [|x3 [|x4 [|x5 r']]]]; cbn [removelast]; try discriminate.
    cbn [last] in E. intros H Hc. injection H as -> -> ->. right. repeat f_equal. lia.
  - intros H _. now left.
Qed.

(* the combined pattern yields (no prefix, "*", no route) only on the text "*" *)
Lemma mc_bcast_inv t : match_combined t = Some (PNone, CBcast, RNone) -> t = [42].
Proof.
  unfold match_combined.
  destruct (split_at 64 t) as [[b rs]|] eqn:E64.
  { destruct (match_route rs) as [r|] eqn:Er; [|discriminate].
    assert (r <> RNone).
    { unfold match_route in Er. destruct (is_field rs); [congruence|].
      destruct (ip_port rs) as [[h p]|]; congruence. }
    destruct (split_at 58 b) as [[a rest]|]; [destruct (digits a); [|destruct (str_eqb a [42])]|];
      match goal with |- context[match_core ?e] => destruct (match_core e) end; congruence. }
  assert (Hc : forall cs c, match_core cs = Some c -> c = CBcast -> cs = [42]).
  { intros cs c Hm ->. unfold match_core in Hm. destruct (str_eqb cs [42]) eqn:Es.
    - now apply list_eqb_N_eq in Es.
    - destruct (is_field cs); [discriminate|]. destruct (ip_mask_port cs) as [[[h m] p]|]; discriminate. }
  destruct (split_at 58 t) as [[a rest]|] eqn:E58.
  - destruct (digits a); [|destruct (str_eqb a [42])].
    + destruct (match_core rest); congruence.
    + destruct (match_core rest); congruence.
    + destruct (match_core t) as [c|] eqn:Em; [|discriminate]. intro H. injection H as ->. now apply (Hc t CBcast).
  - destruct (match_core t) as [c|] eqn:Em; [|discriminate]. intro H. injection H as ->. now apply (Hc t CBcast).
Qed.
(* ... and (prefix "*", "*", no route) only on "*:*" *)
Lemma mc_global_inv t : match_combined t = Some (PStar, CBcast, RNone) -> t = [42; 58; 42].
Proof.
  unfold match_combined.
  destruct (split_at 64 t) as [[b rs]|] eqn:E64.
  { destruct (match_route rs) as [r|] eqn:Er; [|discriminate].
    assert (r <> RNone).
    { unfold match_route in Er. destruct (is_field rs); [congruence|].
      destruct (ip_port rs) as [[h p]|]; congruence. }
    destruct (split_at 58 b) as [[a rest]|]; [destruct (digits a); [|destruct (str_eqb a [42])]|];
      match goal with |- context[match_core ?e] => destruct (match_core e) end; congruence. }
  assert (Hc : forall cs c, match_core cs = Some c -> c = CBcast -> cs = [42]).
  { intros cs c Hm ->. unfold match_core in Hm. destruct (str_eqb cs [42]) eqn:Es.
    - now apply list_eqb_N_eq in Es.
    - destruct (is_field cs); [discriminate|]. destruct (ip_mask_port cs) as [[[h m] p]|]; discriminate. }
  assert (Hs : forall c s a rest, split_at c s = Some (a, rest) -> s = a ++ c :: rest).
  { intros c s. induction s as [|x r IH]; [discriminate|]. intros a rest. cbn [split_at].
    destruct (x =? c) eqn:Ex.
    - intro H. injection H as <- <-. cbn. f_equal. lia.
    - destruct (split_at c r) as [[a' b']|]; [|discriminate]. intro H. injection H as <- <-.
      cbn. f_equal. now apply IH. }
  destruct (split_at 58 t) as [[a rest]|] eqn:E58.
  - destruct (digits a) eqn:Ed; [|destruct (str_eqb a [42]) eqn:Ea].
    + destruct (match_core rest); congruence.
    + destruct (match_core rest) as [c|] eqn:Em; [|discriminate]. intro H. injection H as ->.
      apply list_eqb_N_eq in Ea. subst a. rewrite (Hs _ _ _ _ E58), (Hc rest CBcast Em eq_refl). reflexivity.
    + destruct (match_core t); congruence.
  - destruct (match_core t); congruence.
Qed.

(* what decode_str builds once the combined pattern matched *)
Lemma matched_bcast p c r x :
  (do tn <- match p, c with
            | PStar, CBcast => Ok (AGlobalBroadcast, None)
            | PNet n, CBcast => do v <- net_check n; Ok (ARemoteBroadcast, Some v)
            | PNone, CBcast => Ok (ALocalBroadcast, None)
            | PNet n, _ => do v <- net_check n; Ok (ARemoteStation, Some v)
            | PStar, _ => Err ValueErr
            | PNone, _ => Ok (ALocalStation, None)
            end;
   do mi <- match c with
            | CBcast => Ok (None, None)
            | CField f => do m <- field_mac f; Ok (Some m, None)
            | CIp h m p => do x <- ip_from_text h m p; Ok (Some (fst x), Some (snd x))
            end;
   do ro <- route_of r;
   Ok (mkAddr (fst tn) (snd tn) (fst mi) ro (snd mi))) = Ok x ->
  route x = None ->
  (ty x = ALocalBroadcast -> p = PNone /\ c = CBcast /\ r = RNone) /\
  (ty x = AGlobalBroadcast -> p = PStar /\ c = CBcast /\ r = RNone).
Proof.
  intros H Hr.
  assert (R : r = RNone \/ forall o, route_of r = Ok o -> o <> None).
  { destruct r as [|f|h pp]; [now left|right|right]; intros o Ho; cbn [route_of] in Ho.
    - destruct (field_mac f); cbn [bind] in Ho; [|discriminate]. injection Ho as <-. discriminate.
    - destruct (ip_from_tuple _ _); cbn [bind] in Ho; [|discriminate]. injection Ho as <-. discriminate. }
  destruct (match p with PNone => _ | _ => _ end) as [tn|e] eqn:Etn; cbn [bind] in H; [|discriminate].
  destruct (match c with CBcast => Ok (None, None) | _ => _ end) as [mi|e] eqn:Emi; cbn [bind] in H; [|discriminate].
  destruct (route_of r) as [ro|e] eqn:Ero; cbn [bind] in H; [|discriminate].
  injection H as <-. cbn [route ty] in *. subst ro.
  destruct R as [->|R]; [|exfalso; now apply (R None eq_refl)].
  split; intro Ht.
  - destruct p as [|n|], c as [|f|h m pp]; cbn [bind] in Etn;
      try (destruct (net_check n); cbn [bind] in Etn); try discriminate;
      injection Etn as <-; cbn [fst] in Ht; try discriminate. auto.
  - destruct p as [|n|], c as [|f|h m pp]; cbn [bind] in Etn;
      try (destruct (net_check n); cbn [bind] in Etn); try discriminate;
      injection Etn as <-; cbn [fst] in Ht; try discriminate. auto.
Qed.

Lemma legacy_not_bcast s x :
  (let t := strip_nl s in
   if is_ethernet t then do b <- xtob s; Ok (station b)
   else if is_oldhex t then do b <- xtob (removelast (skipn 2 s)); Ok (station b)
   else match split_at 58 t, split_at 58 s with
        | Some (n, x), Some (_, xs) =>
            if digits n && is_oldhex x then
              do v <- net_check n;
              do b <- xtob (removelast (skipn 2 xs));
              Ok (mkAddr ARemoteStation (Some v) (Some b) None None)
            else Err ValueErr
        | _, _ => Err ValueErr
        end) = Ok x -> ty x = ALocalStation \/ ty x = ARemoteStation.
Proof.
  cbv zeta. destruct (is_ethernet (strip_nl s)).
  { destruct (xtob s); cbn [bind]; [|discriminate]. intro H. injection H as <-. now left. }
  destruct (is_oldhex (strip_nl s)).
  { destruct (xtob _); cbn [bind]; [|discriminate]. intro H. injection H as <-. now left. }
  destruct (split_at 58 (strip_nl s)) as [[n y]|]; [|discriminate].
  destruct (split_at 58 s) as [[n' xs]|]; [|discriminate].
  destruct (digits n && is_oldhex y); [|discriminate].
  destruct (net_check n); cbn [bind]; [|discriminate].
  destruct (xtob _); cbn [bind]; [|discriminate]. intro H. injection H as <-. now right.
Qed.

(* a text is read as the route-free local broadcast only if it is "*" (or "*\n"), as the route-free
   global broadcast only if it is "*:*" (or "*:*\n") *)
Lemma text_bcast_inv s x : decode_str s = Ok x -> route x = None ->
  (ty x = ALocalBroadcast -> s = [42] \/ s = [42; 10]) /\
  (ty x = AGlobalBroadcast -> s = [42; 58; 42] \/ s = [42; 58; 42; 10]).
Proof.
  unfold decode_str.
  destruct (str_eqb s [42]) eqn:E1.
  { apply list_eqb_N_eq in E1. subst s. intros H _. injection H as <-. split; [now left|discriminate]. }
  destruct (str_eqb s [42; 58; 42]) eqn:E2.
  { apply list_eqb_N_eq in E2. subst s. intros H _. injection H as <-. split; [discriminate|now left]. }
  destruct (match_combined (strip_nl s)) as [[[p c] r]|] eqn:Em.
  - intros H Hr. destruct (matched_bcast p c r x H Hr) as [L G]. split; intro Ht.
    + destruct (L Ht) as (-> & -> & ->). apply mc_bcast_inv in Em. apply strip_nl_one in Em; [exact Em|lia].
    + destruct (G Ht) as (-> & -> & ->). apply mc_global_inv in Em. apply strip_nl_three in Em; [exact Em|lia].
  - intros H _. apply legacy_not_bcast in H. split; intro Ht; destruct H as [H|H]; congruence.
Qed.

(* every argument: the route-free local (global) broadcast is denoted only by the text "*" ("*:*"),
   optionally followed by one newline, or by an Address object that == it *)
Definition is_wild_text (w : str) (a : arg) : Prop := a = AStr w \/ a = AStr (w ++ [10]).
Lemma broadcast_arguments a x : decode_address a = Ok x -> route x = None ->
  (ty x = ALocalBroadcast -> is_wild_text [42] a \/ exists y, a = AAddr y /\ key y = key bcast_local) /\
  (ty x = AGlobalBroadcast -> is_wild_text [42; 58; 42] a \/ exists y, a = AAddr y /\ key y = key bcast_global).
Proof.
  intros H Hr. destruct a as [z|l|s|h port|y|].
  - destruct (non_text_station (AInt z) x eq_refl H) as (T & _). split; congruence.
  - destruct (non_text_station (ABytes l) x eq_refl H) as (T & _). split; congruence.
  - cbn [decode_address] in H. destruct (text_bcast_inv s x H Hr) as [L G]. unfold is_wild_text.
    split; intro Ht; left; [destruct (L Ht) as [->| ->]|destruct (G Ht) as [->| ->]]; auto.
  - destruct (non_text_station (ATuple h port) x eq_refl H) as (T & _). split; congruence.
  - destruct (addr_object y x H) as ([->| ->] & K & _); split; intro Ht; try discriminate; right; eauto.
  - discriminate.
Qed.

(* conversely these arguments are accepted *)
Lemma wild_texts_accepted :
  decode_address (AStr [42]) = Ok bcast_local /\ decode_address (AStr [42; 10]) = Ok bcast_local /\
  decode_address (AStr [42; 58; 42]) = Ok bcast_global /\ decode_address (AStr [42; 58; 42; 10]) = Ok bcast_global.
Proof. vm_compute. repeat split. Qed.
Lemma wild_objects_accepted y :
  (key y = key bcast_local -> decode_address (AAddr y) = Ok bcast_local) /\
  (key y = key bcast_global -> decode_address (AAddr y) = Ok bcast_global).
Proof.
  split; intro K; cbn [decode_address].
  - assert (E : eqb y bcast_local = true) by (apply eqb_key; [now right|exact K]). now rewrite E.
  - assert (E : eqb y bcast_global = true) by (apply eqb_key; [now right|exact K]).
    destruct (eqb y bcast_local) eqn:E1; [|now rewrite E].
    apply eqb_key in E1; [|now right]. rewrite K in E1. discriminate.
Qed.

(* constructing after other constructions: nothing is inherited *)
Lemma built_after_independent e e' r : built_after e r = built_after e' r /\ built_after e r = r.
Proof. split; reflexivity. Qed.
