(* AddrEntry.v — refusals at every entry point; int / octets / tuple constructors. *)
From Bac Require Import Base Addr AddrFacts AddrParse.
From Coq Require Import ZifyBool ZifyN ZifyNat.
Ltac Zify.zify_post_hook ::= Z.to_euclidean_division_equations.
Open Scope N_scope.

(* any "<net>:<anything the pattern accepts>" with net >= 65535 is refused *)
Lemma net_refused_text n cs c : digits n = true -> 65535 <= dec_val n ->
  nonl cs = true -> ~ In 64 cs -> match_core cs = Some c ->
  decode_str (n ++ 58 :: cs) = Err ValueErr.
Proof.
  intros Hn Hv Hnl H64 Hc. destruct (net_text_facts n cs Hn Hnl) as (F1 & F2 & F3).
  rewrite (decode_of_match _ (PNet n) c F1 F2 F3); [|now apply mc_net].
  unfold decode_matched, net_check.
  destruct (65535 <=? Z.of_N (dec_val n))%Z eqn:E; [|lia]. destruct c; reflexivity.
Qed.

Lemma address2_net_refused n a : (n < 0 \/ 65535 <= n)%Z -> address2 n a = Err ValueErr.
Proof. intro H. unfold address2. destruct ((n <? 0)%Z || (65535 <=? n)%Z) eqn:E; [reflexivity|lia]. Qed.
Lemma remote_station_net_refused n a : (n < 0 \/ 65535 <= n)%Z -> remote_station n a = Err ValueErr.
Proof. intro H. unfold remote_station. destruct ((n <? 0)%Z || (65535 <=? n)%Z) eqn:E; [reflexivity|lia]. Qed.
Lemma remote_broadcast_net_refused n : (n < 0 \/ 65535 <= n)%Z -> remote_broadcast n = Err ValueErr.
Proof. intro H. unfold remote_broadcast. destruct ((n <? 0)%Z || (65535 <=? n)%Z) eqn:E; [reflexivity|lia]. Qed.

(* station numbers above 255 *)
Lemma station_refused_text s : digits s = true -> 256 <= dec_val s -> decode_str s = Err ValueErr.
Proof. intros H Hv. rewrite (decode_station s H). destruct (256 <=? dec_val s) eqn:E; [reflexivity|lia]. Qed.
Lemma net_station_refused_text n s : digits n = true -> digits s = true -> 256 <= dec_val s ->
  decode_str (n ++ 58 :: s) = Err ValueErr.
Proof.
  intros Hn Hs Hv. rewrite (decode_net_station n s Hn Hs).
  destruct (65535 <=? Z.of_N (dec_val n))%Z; [reflexivity|]. destruct (256 <=? dec_val s) eqn:E; [reflexivity|lia].
Qed.
Lemma station_mac_refused z : (z < 0 \/ 256 <= z)%Z -> station_mac (AInt z) = Err ValueErr.
Proof. intro H. unfold station_mac. destruct ((z <? 0)%Z || (256 <=? z)%Z) eqn:E; [reflexivity|lia]. Qed.
Lemma int_refused z : (z < 0 \/ 256 <= z)%Z ->
  address1 (AInt z) = Err ValueErr /\ local_station (AInt z) = Err ValueErr /\
  (forall n, exists e, address2 n (AInt z) = Err e) /\ (forall n, exists e, remote_station n (AInt z) = Err e).
Proof.
  intro H. repeat split.
  - unfold address1, decode_address. destruct ((z <? 0)%Z || (256 <=? z)%Z) eqn:E; [reflexivity|lia].
  - unfold local_station. now rewrite station_mac_refused.
  - intro n. unfold address2, decode_address. destruct ((n <? 0)%Z || (65535 <=? n)%Z); [eexists; reflexivity|].
    destruct ((z <? 0)%Z || (256 <=? z)%Z) eqn:E; [eexists; reflexivity|lia].
  - intro n. unfold remote_station. destruct ((n <? 0)%Z || (65535 <=? n)%Z); [eexists; reflexivity|].
    rewrite station_mac_refused by exact H. eexists; reflexivity.
Qed.

(* "*:<station>" (fix) *)
Lemma star_station_refused cs c : nonl cs = true -> ~ In 64 cs -> match_core cs = Some c -> c <> CBcast ->
  decode_str (42 :: 58 :: cs) = Err ValueErr.
Proof.
  intros Hnl H64 Hc Hnb.
  assert (Hcs : str_eqb cs [42] = false).
  { destruct (str_eqb cs [42]) eqn:E; [|reflexivity]. apply list_eqb_N_eq in E. subst cs.
    cbn in Hc. congruence. }
  assert (M : match_combined (42 :: 58 :: cs) = Some (PStar, c, RNone)).
  { unfold match_combined. rewrite (split_at_none 64).
    2:{ intros [E|[E|Hin]]; [discriminate E|discriminate E|exact (H64 Hin)]. }
    cbn [split_at N.eqb Pos.eqb digits forallb is_digit N.leb N.compare Pos.compare Pos.compare_cont andb str_eqb list_eqb].
    change (str_eqb [42] [42]) with true. cbn match. rewrite Hc. reflexivity. }
  rewrite (decode_of_match _ PStar c).
  - unfold decode_matched. destruct c; [congruence|reflexivity|reflexivity].
  - cbn [nonl forallb N.eqb Pos.eqb negb andb]. exact Hnl.
  - reflexivity.
  - unfold str_eqb in *. cbn [list_eqb N.eqb Pos.eqb andb]. exact Hcs.
  - exact M.
Qed.

(* int, raw octets, (host, port) tuples *)
Lemma int_denotation z : (0 <= z < 256)%Z -> address1 (AInt z) = Ok (station [Z.to_N z]).
Proof. intro H. unfold address1, decode_address. destruct ((z <? 0)%Z || (256 <=? z)%Z) eqn:E; [lia|reflexivity]. Qed.

Lemma octets_denotation l : exists x, address1 (ABytes l) = Ok x /\ key x = (ALocalStation, None, Some l) /\ route x = None.
Proof. eexists. repeat split. Qed.

Lemma octets6_ip a b c d p1 p2 :
  exists x i, address1 (ABytes [a; b; c; d; p1; p2]) = Ok x /\ ip x = Some i /\
    ipAddr i = Z.of_N (be_val [a; b; c; d]) /\ ipPort i = Z.of_N (p1 * 256 + p2) /\ ipMask i = M32.
Proof. eexists. eexists. repeat split. Qed.

Lemma tuple_denotation a b c d a' b' c' d' port :
  digits a = true -> digits b = true -> digits c = true -> digits d = true ->
  aton_part a = Some a' -> aton_part b = Some b' -> aton_part c = Some c' -> aton_part d = Some d' ->
  (0 <= port <= 65535)%Z ->
  exists x, address1 (ATuple (HStr (quad a b c d)) port) = Ok x /\
    key x = (ALocalStation, None, Some ([a'; b'; c'; d'] ++ be2 (Z.to_N port))) /\ route x = None.
Proof.
  intros Ha Hb Hc Hd A B C D Hp. unfold address1, decode_address, ip_from_tuple.
  destruct ((port <? 0)%Z || (65535 <? port)%Z) eqn:E; [lia|].
  destruct (quad_head a b c d Ha) as (x & r & Eq & _).
  rewrite Eq. rewrite <- Eq. rewrite (inet_aton_quad a b c d a' b' c' d' Ha Hb Hc Hd A B C D).
  cbn [bind fst snd]. eexists. repeat split. unfold key. cbn [ty net mac]. repeat f_equal.
  change 65535%Z with (Z.ones 16). rewrite Z.land_ones by lia. rewrite Z.mod_small; [reflexivity|].
  change (2 ^ 16)%Z with 65536%Z. lia.
Qed.

Lemma tuple_port_refused h port : (port < 0 \/ 65535 < port)%Z -> address1 (ATuple h port) = Err ValueErr.
Proof.
  intro H. unfold address1, decode_address, ip_from_tuple.
  destruct ((port <? 0)%Z || (65535 <? port)%Z) eqn:E; [reflexivity|lia].
Qed.

(* two-argument constructor = the typed constructors *)
Lemma address2_station n z : (0 <= n < 65535)%Z -> (0 <= z < 256)%Z ->
  address2 n (AInt z) = remote_station n (AInt z).
Proof.
  intros Hn Hz. unfold address2, remote_station, decode_address, station_mac.
  destruct ((n <? 0)%Z || (65535 <=? n)%Z) eqn:E; [lia|].
  destruct ((z <? 0)%Z || (256 <=? z)%Z) eqn:E2; [lia|]. reflexivity.
Qed.

(* with routes == is not transitive: "5@6" == "5" == "5@7" but "5@6" != "5@7" *)
Lemma eq_routes_not_transitive :
  exists a b c, decode_str [53; 64; 54] = Ok a /\ decode_str [53] = Ok b /\ decode_str [53; 64; 55] = Ok c /\
                eqb a b = true /\ eqb b c = true /\ eqb a c = false.
Proof. do 3 eexists. vm_compute. repeat split. Qed.

(* and with route_aware on, equal addresses can have different _tuple (hash) *)
Lemma eq_routes_hash_differs :
  exists a b, decode_str [53; 64; 54] = Ok a /\ decode_str [53] = Ok b /\
              eqb a b = true /\ tuple true a <> tuple true b.
Proof. do 2 eexists. vm_compute. repeat split. discriminate. Qed.
