(* Iocb.v — executable model of the client-side request bookkeeping above the state machines:
   iocb.IOCB (74-213), iocb.IOController.request_io/complete_io/abort_io (560-647), iocb.IOQueue.put/get/remove
   (445-523), iocb.IOQController.request_io/active_io/complete_io/abort_io/_trigger (693-831), iocb.SieveQueue (888-908),
   app.ApplicationIOController.process_io/_app_complete/_app_request/confirmation (426-497) and one batch of
   core.deferred functions.  The stack below is a script: it records the requests handed down and may refuse one.
   No proofs here.  `run_ops` produces the canonical observation of harness/iocb_common.py: run_history. *)
From Bac Require Import Base.
Open Scope Z_scope.

(* IOCB states *)
Definition IO_IDLE := 0.  Definition IO_PENDING := 1.  Definition IO_ACTIVE := 2.
Definition IO_COMPLETED := 3.  Definition IO_ABORTED := 4.

(* i_follow: the callback of this IOCB submits a follow-up request (IOCB number, address, refused below) *)
Record iocb := mkIo { i_state : Z; i_cb : Z; i_fail : bool; i_addr : Z; i_follow : option (Z * Z * bool) }.
(* one SieveQueue: the generation tells apart successive queue objects for one address *)
Record sq := mkSq { q_gen : Z; q_state : Z; q_active : option Z; q_queue : list Z }.

Record iow := mkIow {
  w_io : list (Z * iocb);            (* by IOCB number *)
  w_qs : list (Z * sq);              (* ApplicationIOController.queue_by_address *)
  w_def : list (Z * Z);              (* pending deferred IOQController._trigger calls: (address, generation) *)
  w_gen : Z;
  w_ev : list (list Z) }.            (* newest first *)

Inductive op := OSubmit (i addr : Z) (fail : bool) (follow : option (Z * Z * bool)) | OConfirm (addr : Z) (ok : bool) | OAbort (i : Z) | ORun.

Fixpoint lookup {A} (k : Z) (l : list (Z * A)) : option A :=
  match l with [] => None | (k', v) :: r => if k =? k' then Some v else lookup k r end.
Fixpoint update {A} (k : Z) (v : A) (l : list (Z * A)) : list (Z * A) :=
  match l with [] => [(k, v)] | (k', v') :: r => if k =? k' then (k, v) :: r else (k', v') :: update k v r end.
Fixpoint delete {A} (k : Z) (l : list (Z * A)) : list (Z * A) :=
  match l with [] => [] | (k', v') :: r => if k =? k' then delete k r else (k', v') :: delete k r end.
Fixpoint remove_id (i : Z) (l : list Z) : list Z :=
  match l with [] => [] | x :: r => if x =? i then r else x :: remove_id i r end.

Definition log (e : list Z) (w : iow) : iow := mkIow (w_io w) (w_qs w) (w_def w) (w_gen w) (e :: w_ev w).
Definition set_io (i : Z) (b : iocb) (w : iow) : iow := mkIow (update i b (w_io w)) (w_qs w) (w_def w) (w_gen w) (w_ev w).
Definition set_q (a : Z) (q : sq) (w : iow) : iow := mkIow (w_io w) (update a q (w_qs w)) (w_def w) (w_gen w) (w_ev w).
Definition del_q (a : Z) (w : iow) : iow := mkIow (w_io w) (delete a (w_qs w)) (w_def w) (w_gen w) (w_ev w).
Definition defer (a g : Z) (w : iow) : iow := mkIow (w_io w) (w_qs w) (w_def w ++ [(a, g)]) (w_gen w) (w_ev w).

Definition terminal_io (b : iocb) : bool := (i_state b =? IO_COMPLETED) || (i_state b =? IO_ABORTED).

(* The IOCB callbacks may call request_io again, so "finish an IOCB" and "submit an IOCB" call each other; `fin` is
   what finishing means for the callees (one level less fuel), the knot is tied by `fin` below. *)

(* IOQController.complete_io / abort_io for IOCB i at the queue of address a *)
Definition q_finish_w (fin : Z -> Z -> iow -> iow) (a i new : Z) (w : iow) : iow :=
  let w := fin i new w in
  match lookup a (w_qs w) with
  | None => w
  | Some q =>
    match q_active q with
    | Some j => if j =? i
                then defer a (q_gen q) (set_q a (mkSq (q_gen q) 0 None (q_queue q)) w)
                else w
    | None => w
    end
  end.

(* SieveQueue.process_io: active_io, then hand the request down; a refusal below is caught by the caller, which aborts *)
Definition process_io_w (fin : Z -> Z -> iow -> iow) (a i : Z) (w : iow) : iow :=
  match lookup i (w_io w), lookup a (w_qs w) with
  | Some b, Some q =>
    if negb ((i_state b =? IO_IDLE) || (i_state b =? IO_PENDING)) then q_finish_w fin a i IO_ABORTED w   (* RuntimeError in active_io *)
    else
      let w := set_io i (mkIo IO_ACTIVE (i_cb b) (i_fail b) (i_addr b) (i_follow b)) w in
      let w := set_q a (mkSq (q_gen q) 1 (Some i) (q_queue q)) w in
      let w := log [20; i] w in
      if i_fail b then q_finish_w fin a i IO_ABORTED w else w
  | _, _ => w
  end.

(* IOController.request_io -> ApplicationIOController.process_io -> IOQController.request_io *)
Definition submit_w (fin : Z -> Z -> iow -> iow) (i a : Z) (fail : bool) (fo : option (Z * Z * bool)) (w : iow) : iow :=
  match lookup i (w_io w) with
  | Some _ => w                                   (* the harness never submits a number twice *)
  | None =>
    let w := set_io i (mkIo IO_PENDING 0 fail a fo) w in
    let w := match lookup a (w_qs w) with
             | Some _ => w
             | None => mkIow (w_io w) (update a (mkSq (w_gen w) 0 None []) (w_qs w)) (w_def w) (w_gen w + 1) (w_ev w)
             end in
    match lookup a (w_qs w) with
    | None => w
    | Some q =>
      if negb (q_state q =? 0) then set_q a (mkSq (q_gen q) (q_state q) (q_active q) (q_queue q ++ [i])) w
      else process_io_w fin a i w
    end
  end.

(* IOController.complete_io / abort_io: nothing if already finished; else the new state, then IOCB.trigger: leave the queue
   it may be in, fire the callback — which may submit the follow-up request, synchronously *)
Fixpoint fin (fuel : nat) (i new : Z) (w : iow) : iow :=
  match fuel with
  | O => w
  | S k =>
    match lookup i (w_io w) with
    | None => w
    | Some b =>
      if terminal_io b then w
      else
        let w := set_io i (mkIo new (i_cb b + 1) (i_fail b) (i_addr b) (i_follow b)) w in
        let w := match lookup (i_addr b) (w_qs w) with
                 | Some q => set_q (i_addr b) (mkSq (q_gen q) (q_state q) (q_active q) (remove_id i (q_queue q))) w
                 | None => w end in
        let w := log [21; i; new] w in
        match i_follow b with
        | None => w
        | Some (j, a2, f2) => submit_w (fin k) j a2 f2 None (log [23; j] w)
        end
    end
  end.

Definition FUEL : nat := 64.
Definition finish := fin FUEL.
Definition q_finish := q_finish_w finish.
Definition process_io := process_io_w finish.
Definition submit := submit_w finish.

(* ApplicationIOController.confirmation -> _app_complete *)
Definition confirm (a : Z) (ok : bool) (w : iow) : iow :=
  match lookup a (w_qs w) with
  | None => w
  | Some q =>
    match q_active q with
    | None => w
    | Some i =>
      let w := q_finish a i (if ok then IO_COMPLETED else IO_ABORTED) w in
      match lookup a (w_qs w) with
      | Some q' => match q_queue q', q_active q' with [], None => del_q a w | _, _ => w end
      | None => w
      end
    end
  end.

(* IOCB.abort by the client *)
Definition abort_io (i : Z) (w : iow) : iow :=
  match lookup i (w_io w) with
  | None => w
  | Some b => if terminal_io b then w else q_finish (i_addr b) i IO_ABORTED w
  end.

(* IOQController._trigger of the queue object (a, g) *)
Definition trigger (a g : Z) (w : iow) : iow :=
  match lookup a (w_qs w) with
  | None => w
  | Some q =>
    if negb (q_gen q =? g) then w
    else if negb (q_state q =? 0) then w
    else match q_queue q with
         | [] => w
         | i :: r =>
           let w := set_q a (mkSq (q_gen q) (q_state q) (q_active q) r) w in
           let w := process_io a i w in
           match lookup a (w_qs w) with
           | Some q' => if q_state q' =? 0 then defer a g w else w
           | None => w
           end
         end
  end.

Definition run_batch (w : iow) : iow :=
  let batch := w_def w in
  fold_left (fun w e => trigger (fst e) (snd e) w) batch (mkIow (w_io w) (w_qs w) [] (w_gen w) (w_ev w)).

Definition do_op (o : op) (w : iow) : iow :=
  match o with
  | OSubmit i a f fo => submit i a f fo (log [10; 0] w)
  | OConfirm a ok => confirm a ok (log [10; 1] w)
  | OAbort i => abort_io i (log [10; 2] w)
  | ORun => run_batch (log [10; 3] w)
  end.

Definition run_world (ops : list op) : iow := fold_left (fun w o => do_op o w) ops (mkIow [] [] [] 0 []).

(* ---- canonical observation ---- *)
Fixpoint zrange (from : Z) (n : nat) : list Z := match n with O => [] | S k => from :: zrange (from + 1) k end.

Fixpoint insert_q (e : Z * sq) (l : list (Z * sq)) : list (Z * sq) :=
  match l with [] => [e] | x :: r => if fst e <? fst x then e :: l else x :: insert_q e r end.
Definition sort_qs (l : list (Z * sq)) : list (Z * sq) := fold_right insert_q [] l.

Definition obs_final (n : Z) (w : iow) : list Z :=
  [30] ++ flat_map (fun i => match lookup i (w_io w) with Some b => [i_state b; i_cb b] | None => [-1; 0] end) (zrange 0 (Z.to_nat n))
  ++ [31; zlen (w_qs w)]
  ++ flat_map (fun e => let q := snd e in
                 [fst e; q_state q; match q_active q with Some i => i | None => -1 end; zlen (q_queue q)] ++ q_queue q) (sort_qs (w_qs w))
  ++ [32; zlen (w_def w)].

Definition run_ops (n : Z) (ops : list op) : list Z :=
  let w := run_world ops in concat (rev (w_ev w)) ++ obs_final n w.
