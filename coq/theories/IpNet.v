(* IpNet.v — B/IP nodes on virtual IP subnets joined by a router: model of vlan.IPNetwork /
   IPNode / IPRouter (py34/bacpypes/vlan.py:28-282), of the multiplexer in front of each node
   (bvllservice.UDPMultiplexer:120-181; in the harness a socket-free shim) and of the scheduler
   events that matter here (1 s BBMD tick, foreign re-registration and expiry timers).
   No proofs here. *)
From Bac Require Import Base Bip.
Open Scope N_scope.

Inductive kind := KSimple | KBbmd (b : bbmd) | KForeign (f : foreign) | KProbe.
Record node := mkNode { n_lan : nat; n_addr : addr; n_up : bool; n_kind : kind }.
Record lan := mkLan { l_subnet : N; l_mask : N; l_port : N }.
Record dgram := mkDgram { g_lan : nat; g_src : addr; g_dst : addr; g_msg : msg }.
Record world := mkWorld { w_lans : list lan; w_nodes : list node; w_now : Z }.

(* Address("a.b.c.d/n").addrBroadcastTuple : subnet | ~mask *)
Definition lan_bcast (l : lan) : addr := (fwd_ip (l_subnet l) (l_mask l), l_port l).
Definition lan_of (w : world) (i : nat) : lan := nth i (w_lans w) (mkLan 0 0 0).

Inductive obs :=
| ODeliver (i : nat) (a : action)        (* Up / Sap at node i *)
| OFrame (g : dgram).                    (* a datagram on a LAN (Network.process_pdu) *)

(* what one node does with a datagram handed up by its multiplexer *)
Definition node_receive (now : Z) (n : node) (src : addr) (d : dest) (m : msg) : res (node * list action) :=
  match n_kind n with
  | KSimple => Ok (n, simple_confirmation src d m)
  | KBbmd b => let (b', acts) := bbmd_confirmation b src d m in
               Ok (mkNode (n_lan n) (n_addr n) (n_up n) (KBbmd b'), acts)
  | KForeign f => do r <- foreign_confirmation now f src d m;
                  Ok (mkNode (n_lan n) (n_addr n) (n_up n) (KForeign (fst r)), snd r)
  | KProbe => Ok (n, [])
  end.

(* the multiplexer turns request destinations into datagram destinations; a node whose link is
   down sends nothing *)
Definition emit (w : world) (i : nat) (n : node) (acts : list action) : list dgram * list obs :=
  (flat_map (fun a => match a with
                      | Down d m => if n_up n then
                                      [mkDgram (n_lan n) (n_addr n)
                                               (match d with DBcast => lan_bcast (lan_of w (n_lan n)) | DStation a => a end) m]
                                    else []
                      | _ => []
                      end) acts,
   flat_map (fun a => match a with Down _ _ => [] | _ => [ODeliver i a] end) acts).

(* Network.process_pdu (vlan.py:57-78) + the "from us" filter of the multiplexer: who gets a copy *)
Definition hears (w : world) (g : dgram) (n : node) : bool :=
  Nat.eqb (n_lan n) (g_lan g) && n_up n && negb (addr_eqb (n_addr n) (g_src g))
  && (addr_eqb (g_dst g) (lan_bcast (lan_of w (g_lan g))) || addr_eqb (n_addr n) (g_dst g)).

(* IPRouter.process_pdu (vlan.py:268-282): a copy onto every other LAN whose subnet holds the
   destination IP (the router's node is promiscuous, so it sees every datagram of its LANs) *)
Fixpoint routed_from (j : nat) (ls : list lan) (g : dgram) : list dgram :=
  match ls with
  | [] => []
  | l :: r => (if negb (Nat.eqb j (g_lan g)) && (N.land (fst (g_dst g)) (l_mask l) =? l_subnet l)
               then [mkDgram j (g_src g) (g_dst g) (g_msg g)] else [])
              ++ routed_from (S j) r g
  end.
Definition routed (w : world) (g : dgram) : list dgram := routed_from 0 (w_lans w) g.

(* deliver one datagram to every node that hears it, in node order *)
Fixpoint deliver (w : world) (g : dgram) (i : nat) (ns : list node)
  : res (list node * list dgram * list obs) :=
  match ns with
  | [] => Ok ([], [], [])
  | n :: r =>
      do x <- (if hears w g n then
                 do s <- node_receive (w_now w) n (g_src g)
                           (if addr_eqb (g_dst g) (lan_bcast (lan_of w (g_lan g))) then DBcast else DStation (g_dst g))
                           (g_msg g);
                 Ok (fst s, emit w i (fst s) (snd s))
               else Ok (n, ([], [])));
      do y <- deliver w g (S i) r;
      Ok (fst x :: fst (fst y), fst (snd x) ++ snd (fst y), snd (snd x) ++ snd y)
  end.

(* run the zero-delay deliveries to quiescence (FIFO, like the task heap at one instant) *)
Fixpoint cascade (fuel : nat) (w : world) (q : list dgram) (log : list obs) : res (world * list obs) :=
  match fuel with
  | O => Err OutOfFuel
  | S k =>
      match q with
      | [] => Ok (w, log)
      | g :: q' =>
          do y <- deliver w g 0 (w_nodes w);
          cascade k (mkWorld (w_lans w) (fst (fst y)) (w_now w))
                  (q' ++ routed w g ++ snd (fst y)) (log ++ OFrame g :: snd y)
      end
  end.

Definition cascade_fuel : nat := 4000.

(* replace node i *)
Fixpoint set_nth {A} (i : nat) (x : A) (l : list A) : list A :=
  match l, i with
  | [], _ => []
  | _ :: r, O => x :: r
  | y :: r, S k => y :: set_nth k x r
  end.
Definition set_node (w : world) (i : nat) (n : node) : world :=
  mkWorld (w_lans w) (set_nth i n (w_nodes w)) (w_now w).
Definition set_now (w : world) (t : Z) : world := mkWorld (w_lans w) (w_nodes w) t.

(* node i performs `acts` at the current instant, then everything is delivered *)
Definition act (w : world) (i : nat) (n : node) (acts : list action) (log : list obs) : res (world * list obs) :=
  let (ds, os) := emit w i n acts in
  cascade cascade_fuel (set_node w i n) ds (log ++ os).

(* ------------------------------------------------------------------ timers *)
Inductive timer := TTick | TRenew (i : nat) | TExpire (i : nat).

Definition due (now : Z) (o : option Z) : option Z :=
  match o with Some t => Some (Z.max t now) | None => None end.

(* earliest pending timer: whole-second tick first, then node order, renewal before expiry *)
Fixpoint foreign_timers (now : Z) (i : nat) (ns : list node) : list (Z * timer) :=
  match ns with
  | [] => []
  | n :: r =>
      match n_kind n with
      | KForeign f =>
          (match due now (f_renew f) with Some t => [(t, TRenew i)] | None => [] end)
          ++ (match due now (f_expire f) with Some t => [(t, TExpire i)] | None => [] end)
      | _ => []
      end ++ foreign_timers now (S i) r
  end.
Definition earliest (l : list (Z * timer)) (first : Z * timer) : Z * timer :=
  fold_left (fun best x => if (fst x <? fst best)%Z then x else best) l first.
Definition next_tick (now : Z) : Z := ((now / 1000 + 1) * 1000)%Z.

Definition tick_node (n : node) : node :=
  match n_kind n with
  | KBbmd b => mkNode (n_lan n) (n_addr n) (n_up n) (KBbmd (bbmd_tick b))
  | _ => n
  end.

Definition fire (w : world) (tm : timer) (log : list obs) : res (world * list obs) :=
  match tm with
  | TTick => Ok (mkWorld (w_lans w) (map tick_node (w_nodes w)) (w_now w), log)
  | TRenew i =>
      match nth_error (w_nodes w) i with
      | Some n => match n_kind n with
                  | KForeign f => do r <- foreign_renew (w_now w) f;
                                  act w i (mkNode (n_lan n) (n_addr n) (n_up n) (KForeign (fst r))) (snd r) log
                  | _ => Ok (w, log)
                  end
      | None => Ok (w, log)
      end
  | TExpire i =>
      match nth_error (w_nodes w) i with
      | Some n => match n_kind n with
                  | KForeign f => Ok (set_node w i (mkNode (n_lan n) (n_addr n) (n_up n) (KForeign (foreign_expired f))), log)
                  | _ => Ok (w, log)
                  end
      | None => Ok (w, log)
      end
  end.

(* process every timer due up to and including time T, then set the clock to T *)
Fixpoint advance (fuel : nat) (w : world) (T : Z) (log : list obs) : res (world * list obs) :=
  match fuel with
  | O => Err OutOfFuel
  | S k =>
      let (t, tm) := earliest (foreign_timers (w_now w) 0 (w_nodes w)) (next_tick (w_now w), TTick) in
      if (T <? t)%Z then Ok (set_now w (Z.max T (w_now w)), log)
      else do r <- fire (set_now w t) tm log; advance k (fst r) T (snd r)
  end.
Definition advance_fuel (w : world) (T : Z) : nat :=
  (Z.to_nat ((T - w_now w) / 1000 + 2) * (2 + 2 * length (w_nodes w)))%nat.

(* ------------------------------------------------------------------ script events *)
Inductive event :=
| EBcast (i : nat) (p : npdu)                       (* node i's network layer broadcasts p *)
| EUcast (i : nat) (a : addr) (p : npdu)
| ERegister (i : nat) (a : addr) (ttl : Z)          (* BIPForeign.register *)
| EUnregister (i : nat)                             (* BIPForeign.unregister *)
| ELink (i : nat) (up : bool)                       (* cable of node i *)
| EInject (i : nat) (d : option addr) (m : msg)     (* node i's multiplexer is made to send m (None = LAN broadcast) *)
| ENone.

Definition indication (n : node) (d : dest) (p : npdu) : res (list action) :=
  match n_kind n with
  | KSimple => Ok (simple_indication d p)
  | KBbmd b => Ok (bbmd_indication b d p)
  | KForeign f => foreign_indication f d p
  | KProbe => Ok []
  end.

Definition do_event (w : world) (e : event) (log : list obs) : res (world * list obs) :=
  match e with
  | ENone => Ok (w, log)
  | EBcast i p =>
      match nth_error (w_nodes w) i with
      | Some n => do a <- indication n DBcast p; act w i n a log
      | None => Err IndexErr
      end
  | EUcast i a p =>
      match nth_error (w_nodes w) i with
      | Some n => do a <- indication n (DStation a) p; act w i n a log
      | None => Err IndexErr
      end
  | ERegister i a ttl =>
      match nth_error (w_nodes w) i with
      | Some n => match n_kind n with
                  | KForeign f => do f' <- foreign_register f a ttl;
                                  let w' := set_node w i (mkNode (n_lan n) (n_addr n) (n_up n) (KForeign f')) in
                                  advance (advance_fuel w' (w_now w')) w' (w_now w') log
                  | _ => Err AttrErr
                  end
      | None => Err IndexErr
      end
  | EUnregister i =>
      match nth_error (w_nodes w) i with
      | Some n => match n_kind n with
                  | KForeign f => do r <- foreign_unregister f;
                                  act w i (mkNode (n_lan n) (n_addr n) (n_up n) (KForeign (fst r))) (snd r) log
                  | _ => Err AttrErr
                  end
      | None => Err IndexErr
      end
  | ELink i up =>
      match nth_error (w_nodes w) i with
      | Some n => Ok (set_node w i (mkNode (n_lan n) (n_addr n) up (n_kind n)), log)
      | None => Err IndexErr
      end
  | EInject i d m =>
      match nth_error (w_nodes w) i with
      | Some n => act w i n [Down (match d with None => DBcast | Some a => DStation a end) m] log
      | None => Err IndexErr
      end
  end.

(* one script item: let time pass until T, then the event happens at T *)
Definition step (w : world) (T : Z) (e : event) : res (world * list obs) :=
  do r <- advance (advance_fuel w T) w T [];
  do_event (fst r) e (snd r).

(* ------------------------------------------------------------------ canonical output *)
Definition zn (n : nat) : Z := Z.of_nat n.
Definition canon_obs (o : obs) : list Z :=
  match o with
  | ODeliver i a => 1%Z :: zn i :: canon_action a
  | OFrame g => 2%Z :: zn (g_lan g) :: canon_addr (g_src g) ++ canon_addr (g_dst g) ++ canon_msg (g_msg g)
  end.

Fixpoint lex_leb (a b : list Z) : bool :=
  match a, b with
  | [], _ => true
  | _ :: _, [] => false
  | x :: a', y :: b' => if (x <? y)%Z then true else if (y <? x)%Z then false else lex_leb a' b'
  end.
Fixpoint insert_lex (x : list Z) (l : list (list Z)) : list (list Z) :=
  match l with
  | [] => [x]
  | y :: r => if lex_leb x y then x :: l else y :: insert_lex x r
  end.
Definition sort_lex (l : list (list Z)) : list (list Z) := fold_right insert_lex [] l.
Definition canon_log_full (log : list obs) : list Z :=
  zlen log :: flat_map (fun r => zlen r :: r) (sort_lex (map canon_obs log)).
(* the case files carry a digest of each step's (sorted) observation list instead of the list
   itself: parsing 10^5 numerals costs more than evaluating the model *)
Definition digest (l : list Z) : Z :=
  fold_left (fun h x => ((h * 1000003 + x + 12345) mod 2305843009213693951)%Z) l 7%Z.
Definition canon_log (log : list obs) : list Z :=
  [zlen log; digest (canon_log_full log)].

Definition canon_node (n : node) : list Z :=
  match n_kind n with
  | KSimple => [0%Z]
  | KBbmd b => 1%Z :: canon_fdt (b_fdt b)
  | KForeign f => 2%Z :: canon_foreign f
  | KProbe => [3%Z]
  end.
Definition canon_world (w : world) : list Z := w_now w :: flat_map canon_node (w_nodes w).

(* run a whole script; output = per item the sorted observations, at the end the tables *)
Fixpoint run_script (w : world) (s : list (Z * event)) : res (list Z) :=
  match s with
  | [] => Ok (canon_world w)
  | (T, e) :: r =>
      do x <- step w T e;
      do y <- run_script (fst x) r;
      Ok (canon_log (snd x) ++ y)
  end.
Definition canon_run (w : world) (s : list (Z * event)) : list Z :=
  match run_script w s with Ok l => 0%Z :: l | Err e => [1%Z; err_code e] end.

Fixpoint run_script_full (w : world) (s : list (Z * event)) : res (list Z) :=
  match s with
  | [] => Ok (canon_world w)
  | (T, e) :: r =>
      do x <- step w T e;
      do y <- run_script_full (fst x) r;
      Ok (canon_log_full (snd x) ++ y)
  end.
Definition canon_run_full (w : world) (s : list (Z * event)) : list Z :=
  match run_script_full w s with Ok l => 0%Z :: l | Err e => [1%Z; err_code e] end.
