(* Schema.v — the wire-schema language of bacpypes' constructed data (constructeddata.py Element /
   Sequence / Choice / SequenceOf / Any / AnyAtomic, basetypes.NameValue), the neutral values that
   inhabit it, and the computable determinism analysis (FIRST sets, wf_ty, supported).
   coq/gen/Schemas.v (translated from apdu.py / basetypes.py on every run) defines one [ty] per class.
   No proofs here (CodecFacts.v). *)
From Bac Require Import Base.
From Bac Require Import Tag.
Open Scope N_scope.

(* element kinds of sequenceElements / choiceElements *)
Inductive ty : Set :=
| TAtom (k : N)               (* an Atomic subclass; k = its application tag number (0..12) *)
| TAnyAtomic                  (* constructeddata.AnyAtomic *)
| TAny                        (* constructeddata.Any *)
| TSeqOfAny                   (* constructeddata.SequenceOfAny (same codec as Any) *)
| TSeq (els : list elem)      (* Sequence subclass: its sequenceElements *)
| TChoice (els : list elem)   (* Choice subclass: its choiceElements *)
| TSeqOf (t : ty)             (* SequenceOf(t) / ListOf(t): identical encode/decode loops *)
| TArrayOf (t : ty) (fixed : option N)   (* ArrayOf(t, fixed_length): only as a top-level type *)
| TNameValue                  (* basetypes.NameValue: its own encode/decode *)
with elem : Set :=
| El (t : ty) (ctx : option N) (opt : bool).   (* Element(name, klass, context, optional) *)

Definition el_ty (e : elem) : ty := match e with El t _ _ => t end.
Definition el_ctx (e : elem) : option N := match e with El _ c _ => c end.
Definition el_opt (e : elem) : bool := match e with El _ _ o => o end.

(* neutral values.  An atomic leaf is abstract: it is the application tag the atomic class
   produces / accepts (property C01 owns the inside of that tag). *)
Inductive val : Set :=
| VAtom (t : tag)
| VTags (ts : list tag)                 (* Any: a balanced tag list *)
| VSeq (fs : list (option val))         (* one field per element; None = attribute is None *)
| VChoice (i : nat) (v : val)           (* the i-th alternative is set *)
| VList (vs : list val).

Definition is_list (t : ty) : bool := match t with TSeqOf _ => true | _ => false end.
Definition is_atomic (t : ty) : bool := match t with TAtom _ | TAnyAtomic => true | _ => false end.

(* ---------------------------------------------------------------------------------------------- *)
(* tag patterns and FIRST sets *)
Inductive pat : Set :=
| PApp (k : N)      (* application tag number k *)
| PAppAny           (* any application tag *)
| PCtx (c : N)      (* context tag c (primitive) *)
| POpen (c : N)     (* opening tag c *)
| PAny.             (* any tag that is not a closing tag *)

Definition pmatch (p : pat) (x : tag) : bool :=
  match p with
  | PApp k => (cls x =? 0) && (num x =? k)
  | PAppAny => cls x =? 0
  | PCtx c => (cls x =? 1) && (num x =? c)
  | POpen c => (cls x =? 2) && (num x =? c)
  | PAny => negb (cls x =? 3)
  end.
Definition pmatch_any (ps : list pat) (x : tag) : bool := existsb (fun p => pmatch p x) ps.

(* no tag matches both *)
Definition pdisj (p q : pat) : bool :=
  match p, q with
  | PAny, _ | _, PAny => false
  | PApp a, PApp b => negb (a =? b)
  | PApp _, PAppAny | PAppAny, PApp _ | PAppAny, PAppAny => false
  | PCtx a, PCtx b => negb (a =? b)
  | POpen a, POpen b => negb (a =? b)
  | _, _ => true
  end.
Definition pdisj_all (ps qs : list pat) : bool :=
  forallb (fun p => forallb (fun q => pdisj p q) qs) ps.
Fixpoint pairwise_disj (l : list (list pat)) : bool :=
  match l with
  | [] => true
  | a :: r => forallb (fun b => pdisj_all a b) r && pairwise_disj r
  end.

(* can the encoding be empty? *)
Fixpoint nullable (t : ty) : bool :=
  match t with
  | TSeq els => forallb nullable_el els
  | TSeqOf _ | TArrayOf _ _ | TAny | TSeqOfAny => true
  | _ => false
  end
with nullable_el (e : elem) : bool :=
  match e with
  | El t None o => o || nullable t
  | El _ (Some _) o => o
  end.

(* FIRST: patterns of the first tag of a non-empty encoding *)
Fixpoint first (t : ty) : list pat :=
  match t with
  | TAtom k => [PApp k]
  | TAnyAtomic => [PAppAny]
  | TAny | TSeqOfAny => [PAny]
  | TSeq els =>
      (fix go (l : list elem) : list pat :=
         match l with
         | [] => []
         | e :: r => first_el e ++ (if nullable_el e then go r else [])
         end) els
  | TChoice els => flat_map first_el els
  | TSeqOf s => first s
  | TArrayOf s _ => first s
  | TNameValue => [PCtx 0]
  end
with first_el (e : elem) : list pat :=
  match e with
  | El t (Some c) _ => if is_atomic t then [PCtx c] else [POpen c]
  | El t None _ => first t
  end.

Fixpoint first_els (l : list elem) : list pat :=
  match l with
  | [] => []
  | e :: r => first_el e ++ (if nullable_el e then first_els r else [])
  end.

(* a Sequence whose first element is required and context tagged (and not a list) refuses a tag that is
   not its own with InvalidTag — the error Sequence.decode's try / roll-back of an un-contexted optional
   structure catches *)
Definition clean_reject (t : ty) : bool :=
  match t with
  | TSeq (El t' (Some _) false :: _) => negb (is_list t')
  | _ => false
  end.

(* AVOID: patterns of tags that, placed right after the encoding of a value of this type, would be
   swallowed by its decoder (trailing optional elements, list loops, Any). *)
Fixpoint avoid (t : ty) : list pat :=
  match t with
  | TAny | TSeqOfAny | TSeqOf _ | TArrayOf _ _ => [PAny]
  | TSeq els =>
      (fix go (l : list elem) : list pat :=
         match l with
         | [] => []
         | e :: r => (if forallb nullable_el r then avoid_el e else []) ++ go r
         end) els
  | TNameValue => [PAppAny]
  | _ => []
  end
with avoid_el (e : elem) : list pat :=
  match e with
  | El t (Some c) o =>
      if o then (if is_list t then [PAny]            (* absent optional list: [] unless at the end *)
                 else if is_atomic t then [PCtx c] else [POpen c])
      else []
  | El t None o =>
      (if o then (if is_atomic t || clean_reject t then first t
                  else [PAny])                       (* try / roll-back only catches InvalidTag / DecodingError *)
       else []) ++ avoid t
  end.

Fixpoint avoid_els (l : list elem) : list pat :=
  match l with
  | [] => []
  | e :: r => (if forallb nullable_el r then avoid_el e else []) ++ avoid_els r
  end.

(* what a whole element must not be followed by, whatever comes after it in its group *)
Definition avoid_el_always (e : elem) : list pat := avoid_el e.

Definition ctx_ok (c : option N) : bool := match c with None => true | Some n => n <=? 254 end.

(* LL(1)-style determinism of a definition *)
Fixpoint wf_ty (t : ty) : bool :=
  match t with
  | TAtom k => k <=? 12
  | TSeq els =>
      (fix go (l : list elem) : bool :=
         match l with
         | [] => true
         | e :: r => wf_el e && pdisj_all (avoid_el e) (first_els r) && go r
         end) els
  | TChoice els =>
      forallb wf_el els && pairwise_disj (map first_el els)
      && forallb (fun e => negb (el_opt e) && negb (nullable_el e)) els
  | TSeqOf s => wf_ty s && negb (nullable s) && pdisj_all (avoid s) (first s)
  | TArrayOf s _ => wf_ty s && negb (nullable s) && pdisj_all (avoid s) (first s)
  | _ => true
  end
with wf_el (e : elem) : bool :=
  match e with
  | El t c o => wf_ty t && ctx_ok c &&
                (* AnyAtomic cannot be context tagged (Sequence.decode raises InvalidTag) *)
                match t, c with TAnyAtomic, Some _ => false | _, _ => true end
  end.

(* the fragment for which CodecFacts proves the round trip *)
Fixpoint supported (t : ty) : bool :=
  match t with
  | TAtom k => k <=? 12
  | TAnyAtomic | TAny | TSeqOfAny => true
  | TSeq els => forallb sup_seq_el els
  | TChoice els => forallb sup_alt_loose els
  | TSeqOf s => supported s && negb (is_list s)
  | TArrayOf s _ => supported s && negb (is_list s)
  | TNameValue => true
  end
with sup_seq_el (e : elem) : bool :=
  match e with
  | El t c o =>
      supported t &&
      (* an un-contexted required element whose encoding can be empty must be a list
         (Sequence.decode turns end-of-tags into [] only for lists) *)
      (match c with None => o || negb (nullable t) || is_list t | Some _ => true end) &&
      match t, c, o with
      | TAnyAtomic, Some _, _ => false                (* never decodable *)
      | TSeqOf _, None, true => false                 (* absent and empty have the same encoding *)
      | (TAny | TSeqOfAny), None, true => false       (* idem *)
      | (TSeq _ | TChoice _ | TNameValue), None, true => negb (nullable t)
                                                      (* un-contexted optional structure: try / roll-back *)
      | TArrayOf _ _, _, _ => false                   (* ArrayOf elements are not table-driven *)
      | _, _, _ => true
      end
  end
(* any alternative, including a constructed one without context (reaching it raises NotImplementedError:
   finding C03-K1); a value may only choose an alternative with sup_alt itself and all before it *)
with sup_alt_loose (e : elem) : bool :=
  match e with
  | El t c o =>
      supported t && match t with TAnyAtomic | TArrayOf _ _ => false | _ => true end
  end.

(* an alternative Choice.decode can select or skip *)
Definition sup_alt (e : elem) : bool :=
  match e with
  | El t c o =>
      supported t &&
      match t, c with
      | (TAtom _), _ => true
      | TAnyAtomic, _ => false
      | TArrayOf _ _, _ => false
      | _, Some _ => true
      | _, None => false                              (* NotImplementedError in Choice.decode *)
      end
  end.
