(* NetTerm.v — global broadcasts terminate on EVERY topology (cycles included): the hop count is a
   decreasing measure of the frames in flight.  Lemmas about Net.v (property C06). *)
From Coq Require Import ZifyBool ZifyN ZifyNat.
From Bac Require Import Base Net NetFacts.
Ltac Zify.zify_post_hook ::= Z.to_euclidean_division_equations.
Open Scope N_scope.

(* an application-layer global broadcast *)
Definition gb_npdu (p : npdu) : Prop := n_msg p = None /\ n_dadr p = Some DGlobal.
Definition gb_frame (f : frame) : Prop := gb_npdu (f_npdu f).

(* frames a node emits for an arriving global broadcast: only forwarded copies, broadcast, one hop less *)
Definition gb_action (h : N) (a : action) : Prop :=
  match a with
  | Tx _ _ _ => False
  | Fwd _ d q => d = LBcast /\ gb_npdu q /\ n_hop q + 1 = h
  | _ => True
  end.

Lemma forward_gb : forall n i ai src p, gb_npdu p ->
  Forall (gb_action (n_hop p)) (forward n i ai src p DGlobal).
Proof.
  intros n i ai src p [Hm Hd]. unfold forward.
  destruct (negb (is_router n)); [constructor|].
  destruct (n_hop p =? 0) eqn:Eh; [constructor|]. apply N.eqb_neq in Eh.
  destruct (a_net ai); [|repeat constructor].
  apply Forall_forall. intros a Ha. apply in_map_iff in Ha. destruct Ha as [j [Hj _]]. subst a.
  cbn. repeat split; auto. lia.
Qed.

Lemma process_npdu_gb : forall n i src dst p n' acts,
  process_npdu n i src dst p = (n', acts) -> gb_npdu p -> Forall (gb_action (n_hop p)) acts.
Proof.
  intros n i src dst p n' acts H Hg. pose proof Hg as [Hm Hd]. unfold process_npdu in H.
  destruct (nth_adapter n i) as [ai|]; [|inversion H; subst; repeat constructor].
  destruct (negb (modelled_config n)); [inversion H; subst; repeat constructor|].
  match type of H with (if ?s then _ else _) = _ => destruct s end; [inversion H; subst; constructor|].
  rewrite Hd, Hm in H. cbv iota beta in H.
  match type of H with (if ?c then _ else _) = _ => destruct c end.
  - destruct (negb (apdu_ok (n_data p))); inversion H; subst; clear H; [repeat constructor|].
    constructor; [exact I|]. apply forward_gb. assumption.
  - inversion H; subst; clear H. apply forward_gb. assumption.
Qed.

(* ---- frames produced by emit *)
Lemma emit_gb : forall w who h acts fs os,
  emit w who acts = (fs, os) -> Forall (gb_action h) acts ->
  Forall (fun g => gb_frame g /\ n_hop (f_npdu g) + 1 = h) fs /\
  (length fs <= length (filter is_fwd acts))%nat.
Proof.
  intros w who h. induction acts as [|a r IH]; intros fs os H Hall; cbn [emit] in H.
  - inversion H; subst. split; [constructor|cbn; lia].
  - destruct (emit w who r) as [fs0 os0] eqn:Er. inversion Hall; subst.
    destruct (IH _ _ eq_refl H3) as [IH1 IH2].
    destruct a; cbn [gb_action] in H2; try contradiction.
    + destruct (nth_error (w_ports w) port) as [[lan m]|]; inversion H; subst; clear H.
      * destruct H2 as (Hd & Hg & Hh). split; [constructor; [split; assumption|assumption]|cbn; lia].
      * split; [assumption|cbn; lia].
    + inversion H; subst. split; [assumption|cbn; lia].
    + inversion H; subst. split; [assumption|cbn; lia].
    + inversion H; subst. split; [assumption|cbn; lia].
Qed.

(* ---- one frame delivered to the members of its LAN *)
Definition nodes_ok (A : nat) (ns : list wnode) : Prop :=
  Forall (fun wn => (length (adapters (w_node wn)) <= A)%nat) ns.

Lemma set_nth_Forall : forall {X} (P : X -> Prop) l i x, Forall P l -> P x -> Forall P (set_nth l i x).
Proof.
  intros X P. induction l as [|a l IH]; intros i x Hl Hx; cbn; [constructor|].
  inversion Hl; subst. destruct i; constructor; auto.
Qed.

Lemma deliver_gb : forall A members ns f q tr ns' q' tr',
  deliver ns f members q tr = (ns', q', tr') -> gb_frame f -> nodes_ok A ns ->
  exists new, q' = q ++ new /\
    Forall (fun g => gb_frame g /\ n_hop (f_npdu g) + 1 = n_hop (f_npdu f)) new /\
    (length new <= length members * S A)%nat /\ nodes_ok A ns'.
Proof.
  intros A. induction members as [|[who port] r IH]; intros ns f q tr ns' q' tr' H Hg Hok; cbn [deliver] in H.
  - inversion H; subst. exists []. rewrite app_nil_r. repeat split; [constructor|cbn; lia|assumption].
  - destruct (nth_error ns who) as [w|] eqn:En.
    2:{ destruct (IH _ _ _ _ _ _ _ H Hg Hok) as (new & A1 & A2 & A3 & A4). exists new. repeat split; auto. cbn; lia. }
    destruct (nth_error (w_ports w) port) as [[lan wmac]|].
    2:{ destruct (IH _ _ _ _ _ _ _ H Hg Hok) as (new & A1 & A2 & A3 & A4). exists new. repeat split; auto. cbn; lia. }
    destruct (accepts wmac f).
    2:{ destruct (IH _ _ _ _ _ _ _ H Hg Hok) as (new & A1 & A2 & A3 & A4). exists new. repeat split; auto. cbn; lia. }
    destruct (process_npdu (w_node w) port (f_src f) (f_dst f) (f_npdu f)) as [n' acts] eqn:Ep.
    destruct (emit (mkW n' (w_ports w)) who acts) as [fs os] eqn:Ee.
    pose proof (process_npdu_gb _ _ _ _ _ _ _ Ep Hg) as Hacts.
    destruct (emit_gb _ _ _ _ _ _ Ee Hacts) as [Hfs Hlen].
    pose proof (thm_fanout _ _ _ _ _ _ _ Ep) as Hfan.
    pose proof (process_npdu_adapters _ _ _ _ _ _ _ Ep) as Had.
    assert (Hw : (length (adapters (w_node w)) <= A)%nat).
    { unfold nodes_ok in Hok. rewrite Forall_forall in Hok. apply (Hok w). eapply nth_error_In; eauto. }
    assert (Hok' : nodes_ok A (set_nth ns who (mkW n' (w_ports w)))).
    { apply set_nth_Forall; [assumption|]. cbn. rewrite Had. assumption. }
    destruct (IH _ _ _ _ _ _ _ H Hg Hok') as (new & A1 & A2 & A3 & A4).
    exists (fs ++ new). repeat split.
    + rewrite A1, app_assoc. reflexivity.
    + apply Forall_app. split; assumption.
    + rewrite app_length. cbn [length Nat.mul]. lia.
    + assumption.
Qed.

(* ---- the measure *)
Fixpoint mu (K : N) (q : list frame) : N :=
  match q with [] => 0 | f :: r => K ^ n_hop (f_npdu f) + mu K r end.

Lemma mu_app : forall K a b, mu K (a ++ b) = mu K a + mu K b.
Proof. intros K. induction a as [|x a IH]; intro b; cbn [app mu]; [reflexivity|]. rewrite IH. lia. Qed.

Lemma mu_new : forall K h new,
  Forall (fun g => gb_frame g /\ n_hop (f_npdu g) + 1 = h) new ->
  mu K new = N.of_nat (length new) * K ^ (h - 1).
Proof.
  intros K h. induction new as [|g r IH]; intro H; [cbn; lia|].
  inversion H; subst. destruct H2 as [_ Hh]. cbn [mu length]. rewrite (IH H3).
  replace (n_hop (f_npdu g)) with (h - 1) by lia.
  rewrite Nat2N.inj_succ, N.mul_succ_l. lia.
Qed.

Lemma new_lt_pow : forall K h (len : nat) new,
  Forall (fun g => gb_frame g /\ n_hop (f_npdu g) + 1 = h) new ->
  (length new <= len)%nat -> N.of_nat len < K ->
  mu K new < K ^ h.
Proof.
  intros K h len new Hn Hl HK. rewrite (mu_new K h new Hn).
  destruct new as [|g r].
  - cbn. apply N.neq_0_lt_0. apply N.pow_nonzero. lia.
  - pose proof (Forall_inv Hn) as [_ Hh].
    assert (E : K ^ h = K * K ^ (h - 1)).
    { replace h with (N.succ (h - 1)) at 1 by lia. apply N.pow_succ_r'. }
    rewrite E. apply N.mul_lt_mono_pos_r; [apply N.neq_0_lt_0; apply N.pow_nonzero; lia|]. lia.
Qed.

Lemma step_gb : forall A M w f q,
  queue w = f :: q -> Forall gb_frame (queue w) -> nodes_ok A (nodes w) ->
  (forall lan, (length (lan_members (lans w) lan) <= M)%nat) ->
  exists w', step w = Some w' /\ lans w' = lans w /\ nodes_ok A (nodes w') /\ Forall gb_frame (queue w') /\
             mu (N.of_nat (M * S A) + 1) (queue w') < mu (N.of_nat (M * S A) + 1) (queue w).
Proof.
  intros A M w f q Hq Hall Hok HM. unfold step, step_core. rewrite Hq in *.
  inversion Hall; subst.
  destruct (deliver (nodes w) f (lan_members (lans w) (f_lan f)) q [OFrame f]) as [[ns q'] os] eqn:Ed.
  destruct (deliver_gb A _ _ _ _ _ _ _ _ Ed H1 Hok) as (new & A1 & A2 & A3 & A4).
  eexists. split; [reflexivity|]. cbn [lans nodes queue]. repeat split; auto.
  - subst q'. apply Forall_app. split; [assumption|].
    eapply Forall_impl; [|exact A2]. intros g [Hg _]. exact Hg.
  - subst q'. rewrite mu_app. cbn [mu].
    assert (Hlt : mu (N.of_nat (M * S A) + 1) new < (N.of_nat (M * S A) + 1) ^ n_hop (f_npdu f)).
    { apply (new_lt_pow _ _ (M * S A)%nat); [assumption| |lia].
      specialize (HM (f_lan f)). nia. }
    lia.
Qed.

Lemma gb_terminates_bounded : forall A M m w,
  (N.to_nat (mu (N.of_nat (M * S A) + 1) (queue w)) < m)%nat ->
  Forall gb_frame (queue w) -> nodes_ok A (nodes w) ->
  (forall lan, (length (lan_members (lans w) lan) <= M)%nat) ->
  exists k, queue (run k w) = [].
Proof.
  intros A M. induction m as [|m IH]; intros w Hm Hall Hok HM; [lia|].
  destruct (queue w) as [|f q] eqn:Hq; [exists 0%nat; cbn; assumption|].
  rewrite <- Hq in Hall, Hm.
  destruct (step_gb A M w f q Hq Hall Hok HM) as (w' & Hs & Hl & Hok' & Hall' & Hlt).
  destruct (IH w') as [k Hk]; auto; [lia|intro lan; rewrite Hl; apply HM|].
  exists (S k). cbn [run]. rewrite Hs. assumption.
Qed.

Lemma lan_members_bound : forall lns lan,
  (length (lan_members lns lan) <= list_max (map (fun kv => length (snd kv)) lns))%nat.
Proof.
  induction lns as [|[k m] r IH]; intro lan; cbn [lan_members map list_max fold_right]; [cbn; lia|].
  destruct (k =? lan); cbn [snd]; [lia|]. specialize (IH lan). unfold list_max in IH. lia.
Qed.

(* Any internetwork — any topology, any cache contents, any parked packets — whose frames in flight are
   application-layer global broadcasts reaches quiescence. *)
Theorem global_broadcast_terminates : forall w,
  Forall gb_frame (queue w) -> exists k, queue (run k w) = [].
Proof.
  intros w Hall.
  set (A := list_max (map (fun wn => length (adapters (w_node wn))) (nodes w))).
  set (M := list_max (map (fun kv : N * list (nat * nat) => length (snd kv)) (lans w))).
  apply (gb_terminates_bounded A M (S (N.to_nat (mu (N.of_nat (M * S A) + 1) (queue w))))); auto.
  - unfold nodes_ok. assert (H : (list_max (map (fun wn => length (adapters (w_node wn))) (nodes w)) <= A)%nat) by (subst A; lia).
    apply list_max_le in H. rewrite Forall_map in H. exact H.
  - intro lan. apply lan_members_bound.
Qed.

(* a global broadcast submitted to a quiet internetwork puts only such frames in flight *)
Definition gb_out (a : action) : Prop :=
  match a with Tx _ _ q | Fwd _ _ q => gb_npdu q | _ => True end.

Lemma emit_all_gb : forall w who acts fs os,
  emit w who acts = (fs, os) -> Forall gb_out acts -> Forall gb_frame fs.
Proof.
  intros w who. induction acts as [|x r IH]; intros fs os H Hall; cbn [emit] in H.
  - inversion H; subst. constructor.
  - destruct (emit w who r) as [fs0 os0] eqn:Er. inversion Hall; subst.
    specialize (IH _ _ eq_refl H3).
    destruct x; cbn [gb_out] in H2;
      try (destruct (nth_error (w_ports w) port) as [[lan m]|]; inversion H; subst; auto; constructor; auto);
      inversion H; subst; auto.
Qed.

Lemma indication_gb : forall n data, Forall gb_out (snd (indication n AGB data)).
Proof.
  intros. unfold indication.
  destruct (nth_adapter n (local_idx n)); [|repeat constructor].
  destruct (negb (modelled_config n)); [repeat constructor|]. cbn [snd].
  apply Forall_forall. intros x Hx. apply in_map_iff in Hx. destruct Hx as [j [Hj _]]. subst x.
  split; reflexivity.
Qed.

Lemma submit_gb : forall w who data,
  queue w = [] -> Forall gb_frame (queue (submit w who AGB data)).
Proof.
  intros w who data Hq. unfold submit.
  destruct (nth_error (nodes w) who) as [wn|]; [|rewrite Hq; constructor].
  pose proof (indication_gb (w_node wn) data) as Hi.
  destruct (indication (w_node wn) AGB data) as [n' acts] eqn:Ei. cbn [snd] in Hi.
  destruct (emit (mkW n' (w_ports wn)) who acts) as [fs os] eqn:Ee.
  cbn [queue]. rewrite Hq. cbn [app]. eapply emit_all_gb; eauto.
Qed.

Theorem global_broadcast_from_quiet_terminates : forall w who data,
  queue w = [] -> exists k, queue (run k (submit w who AGB data)) = [].
Proof. intros. apply global_broadcast_terminates. apply submit_gb. assumption. Qed.
