(* ScheduleTzFacts.v — lemmas about ScheduleTz (the wall clock of process_task / datetime_to_time in a
   zone whose UTC offset changes).  The calendar facts come from the complete sweep in ScheduleTzDays.v. *)
From Coq Require Import ZifyBool ZifyN ZifyNat.
From Bac Require Import Base PyRt Calendar CalendarFacts ScheduleEval ScheduleSpec ScheduleFacts ScheduleTz ScheduleTzDays.
Open Scope Z_scope.
Ltac Zify.zify_post_hook ::= Z.to_euclidean_division_equations.

(* the wall clock split into date and time and put together again *)
Lemma wall_of_split : forall l, day_in_range (l / 86400) ->
  wall_of (date_of_days (l / 86400)) (time_of_secs (l mod 86400)) = l.
Proof.
  intros l H. pose proof (civil_roundtrip _ H) as R. unfold wall_of, date_of_days, time_of_secs.
  destruct (civil_from_days (l / 86400)) as [[y m] d].
  replace (y - 1900 + 1900) with y by lia. rewrite R.
  set (s := l mod 86400). assert (0 <= s < 86400) by (subst s; lia).
  assert (l = (l / 86400) * 86400 + s) by (subst s; lia).
  assert (s / 3600 * 3600 + (s / 60) mod 60 * 60 + s mod 60 = s) by lia. lia.
Qed.

Lemma time_of_secs_valid : forall s, 0 <= s < 86400 -> valid_time (time_of_secs s).
Proof. intros s H. unfold time_of_secs, valid_time. lia. Qed.

Lemma days_in_month_le : forall y m, days_in_month y m <= 31.
Proof.
  intros y m. unfold days_in_month, month_table. set (k := Z.to_nat (m - 1)). clearbody k.
  destruct (leap_yearb y); do 12 (destruct k as [|k]; [cbn; lia|]); destruct k; cbn; lia.
Qed.

Lemma valid_date_no255 : forall d, valid_date d -> has255 d = false.
Proof.
  intros [[[y m] dd] w] (Hy & Hm & Hd & Hw). unfold has255.
  pose proof (days_in_month_le (y + 1900) m). lia.
Qed.

Lemma valid_time_no255 : forall t, valid_time t -> has255 t = false.
Proof. intros [[[h m] s] x] H. unfold valid_time in H. unfold has255. lia. Qed.

(* ---- mktime: any wall clock that some instant shows is read back exactly *)
Lemma mktime_z_reads : forall off o1 o2 w, two_offsets off o1 o2 ->
  (exists e, wall off e = w) -> wall off (mktime_z off o1 o2 w) = w.
Proof.
  intros off o1 o2 w H2 [e He]. unfold mktime_z, wall in *.
  destruct (off (w - o2) =? o2) eqn:E2.
  - lia.
  - destruct (H2 e) as [H | H].
    + replace (w - o1) with e by lia. lia.
    + exfalso. replace (w - o2) with e in E2 by lia. lia.
Qed.

(* in the skipped hour the answer is the standard reading *)
Lemma mktime_z_gap : forall off o1 o2 w, (forall e, wall off e <> w) -> mktime_z off o1 o2 w = w - o1.
Proof.
  intros off o1 o2 w H. unfold mktime_z. destruct (off (w - o2) =? o2) eqn:E; auto.
  exfalso. apply (H (w - o2)). unfold wall. lia.
Qed.

Lemma off_tbl_two_offsets : forall o1 o2 tbl cur, (cur = o1 \/ cur = o2) ->
  Forall (fun x => snd x = o1 \/ snd x = o2) tbl -> two_offsets (off_tbl cur tbl) o1 o2.
Proof.
  intros o1 o2 tbl. induction tbl as [|[a o] r IH]; intros cur Hc Hf e; cbn [off_tbl]; auto.
  inversion Hf as [|? ? Ho Hr]; subst. destruct (a <=? e); auto. now apply IH.
Qed.

(* the instants whose local date lies in 1900..2154 *)
Definition in_years (off : Z -> Z) (e : Z) : Prop := day_in_range (wall off e / 86400).

(* datetime_to_time applied to a local reading gives an instant with that reading (dtt_requirement
   of ScheduleSpec for every zone with two offsets) *)
Theorem dtt_reads_back : forall off o1 o2 e, two_offsets off o1 o2 -> in_years off e ->
  exists a, datetime_to_time_z off o1 o2 (fst (localtime_z off e)) (snd (localtime_z off e)) = Ok a /\
            localtime_z off a = localtime_z off e.
Proof.
  intros off o1 o2 e H2 Hy. unfold in_years in Hy. unfold localtime_z, split_wall. cbn [fst snd].
  set (l := wall off e) in *. unfold datetime_to_time_z.
  rewrite (valid_date_no255 _ (date_of_days_valid _ Hy)).
  rewrite (valid_time_no255 _ (time_of_secs_valid (l mod 86400) ltac:(lia))). cbn [orb].
  eexists. split; [reflexivity|]. rewrite (wall_of_split l Hy).
  rewrite (mktime_z_reads off o1 o2 l H2) by (exists e; reflexivity). reflexivity.
Qed.

(* wall clock of the reported transition on the date d: 24:00 is 00:00 of the successor date *)
Lemma wall_of_next_day : forall z, day_in_range z ->
  wall_of (date_of_days z) next_day = wall_of (date_of_days (z + 1)) (0, 0, 0, 0) \/ z = day_hi.
Proof.
  intros z H. destruct (Z.eq_dec z day_hi) as [E | E]; [now right | left].
  assert (H1 : day_in_range (z + 1)) by (unfold day_in_range, day_lo, day_hi in *; lia).
  pose proof (civil_roundtrip _ H) as R. pose proof (civil_roundtrip _ H1) as R1.
  unfold wall_of, date_of_days, next_day.
  destruct (civil_from_days z) as [[y m] d]. destruct (civil_from_days (z + 1)) as [[y1 m1] d1].
  replace (y - 1900 + 1900) with y by lia. replace (y1 - 1900 + 1900) with y1 by lia. rewrite R, R1. lia.
Qed.

Lemma wall_of_ahead : forall d t n, valid_time t -> arm_ok n -> t4_lt t n = true -> wall_of d t < wall_of d n.
Proof.
  intros [[[y m] dd] w] [[[h mi] s] x] [[[h' mi'] s'] x'] Ht Ha Hn. unfold wall_of.
  unfold valid_time in Ht. unfold t4_lt in Hn.
  destruct Ha as [Ha | [Hv Hx]]; [inversion Ha; subst; lia|]. unfold valid_time in Hv. subst x'. lia.
Qed.

Lemma valid_lt_next_day : forall t, valid_time t -> t4_lt t next_day = true.
Proof. intros [[[h mi] s] x] Ht. unfold valid_time in Ht. unfold t4_lt, next_day. lia. Qed.

(* ---- one firing of process_task at the instant e in any zone with two offsets: never raises,
   shows the prescribed value inside the effective period (for the LOCAL date and time), keeps the
   old value outside, and arms the timer for the instant whose local reading is the reported
   transition (same date, strictly later wall clock, or 24:00 = the next local midnight) whenever some
   instant has that reading; with the same offset at both instants the armed instant is strictly
   later. *)
Theorem step_z_rearms : forall off o1 o2 c e pv, two_offsets off o1 o2 -> in_years off e ->
  wf_sched c (fst (localtime_z off e)) -> good_sched c ->
  exists pv' a n, let d := fst (localtime_z off e) in let t := snd (localtime_z off e) in
    step_z off o1 o2 c e pv = Ok (pv', a) /\
    (in_effect c d -> spec_value c d t pv') /\ (~ in_effect c d -> pv' = pv) /\
    t4_lt t n = true /\ arm_ok n /\ a = mktime_z off o1 o2 (wall_of d n) /\
    ((exists e', wall off e' = wall_of d n) -> wall off a = wall_of d n) /\
    (wall off a = wall_of d n -> off a = off e -> e < a).
Proof.
  intros off o1 o2 c e pv H2 Hy Hwf Hg. unfold in_years in Hy.
  unfold step_z. unfold localtime_z, split_wall in *. cbn [fst snd] in *.
  assert (Hlt : wall_of (date_of_days (wall off e / 86400)) (time_of_secs (wall off e mod 86400)) = wall off e)
    by (apply wall_of_split; exact Hy).
  assert (Hd : valid_date (date_of_days (wall off e / 86400))) by (apply date_of_days_valid; exact Hy).
  assert (Ht : valid_time (time_of_secs (wall off e mod 86400))) by (apply time_of_secs_valid; lia).
  remember (date_of_days (wall off e / 86400)) as d eqn:Ed.
  remember (time_of_secs (wall off e mod 86400)) as t eqn:Et.
  assert (Hstrict : forall n a, arm_ok n -> t4_lt t n = true -> wall off a = wall_of d n -> off a = off e -> e < a).
  { intros n a Ha Hn Hw Ho. pose proof (wall_of_ahead d t n Ht Ha Hn) as Hah. rewrite Hlt in Hah.
    unfold wall in *. lia. }
  destruct (eval_total c d t Hd Hwf) as [Hin Hout].
  destruct (eval c d t) as [[[v n]|]|err] eqn:E.
  - cbn [bind].
    pose proof (eval_arm c d t v n Hd Hwf Hg E) as Harm.
    destruct (eval_next_ahead c d t v n Hd Hwf Ht E) as [Hah _].
    destruct (eval_spec c d t v n Hd Hwf E) as [Heff Hspec].
    destruct (normalise_arm d n Harm) as [H255 _].
    unfold datetime_to_time_z. rewrite (valid_date_no255 d Hd), H255. cbn [orb bind].
    exists v, (mktime_z off o1 o2 (wall_of d n)), n. cbn zeta.
    split; [reflexivity|]. split; [auto|]. split; [intro Hc; contradiction|]. split; [exact Hah|].
    split; [exact Harm|]. split; [reflexivity|]. split.
    + intro Hex. now apply mktime_z_reads.
    + intros Hw Ho. eapply Hstrict; eauto.
  - cbn [bind]. unfold datetime_to_time_z. rewrite (valid_date_no255 d Hd).
    replace (has255 next_day) with false by reflexivity. cbn [orb bind].
    pose proof (valid_lt_next_day t Ht) as Hnd.
    exists pv, (mktime_z off o1 o2 (wall_of d next_day)), next_day. cbn zeta.
    split; [reflexivity|]. split.
    { intro Hc. destruct (Hin Hc) as (v & n & Hc'). discriminate. }
    split; [auto|]. split; [exact Hnd|]. split; [now left|]. split; [reflexivity|]. split.
    + intro Hex. now apply mktime_z_reads.
    + intros Hw Ho. eapply Hstrict; eauto. now left.
  - exfalso. destruct (classic_in_effect c d Hd Hwf) as [Hc | Hc].
    + destruct (Hin Hc) as (v & n & Hc'). discriminate.
    + specialize (Hout Hc). discriminate.
Qed.

(* ---- the conversion that uses the standard offset only (calendar.timegm(tuple) + time.timezone)
   does NOT meet the requirement: in the zone EST5EDT of 2024 (daylight time from 2024-03-10 07:00 UTC
   to 2024-11-03 06:00 UTC) the reading 2024-07-01 08:00:00 is converted to an instant that reads 09:00:00 *)
Definition est5edt_2024 : Z -> Z := off_tbl (-18000) [(1710054000, -14400); (1730613600, -18000)].

Lemma est5edt_2024_two : two_offsets est5edt_2024 (-18000) (-14400).
Proof.
  apply off_tbl_two_offsets; [now left|].
  constructor; [right; reflexivity | constructor; [left; reflexivity | constructor]].
Qed.

Lemma dtt_std_only_refuted : exists off o1 o2 e, two_offsets off o1 o2 /\ in_years off e /\
  localtime_z off (dtt_std_only o1 (fst (localtime_z off e)) (snd (localtime_z off e))) <> localtime_z off e.
Proof.
  exists est5edt_2024, (-18000), (-14400), 1719835200. split; [exact est5edt_2024_two|].
  split; [unfold in_years, day_in_range, day_lo, day_hi; vm_compute; split; discriminate|].
  vm_compute. discriminate.
Qed.

(* constant offset: the zone model is ScheduleEval.normalise (the armed reading of C20_arm_reading) *)
Lemma localtime_z_example :
  localtime_z est5edt_2024 1719835200 = ((124, 7, 1, 1), (8, 0, 0, 0)) /\
  datetime_to_time_z est5edt_2024 (-18000) (-14400) (124, 7, 1, 1) (17, 0, 0, 0) = Ok 1719867600 /\
  localtime_z est5edt_2024 1719867600 = ((124, 7, 1, 1), (17, 0, 0, 0)) /\
  datetime_to_time_z est5edt_2024 (-18000) (-14400) (124, 3, 10, 7) (2, 30, 0, 0) = Ok 1710055800 /\
  localtime_z est5edt_2024 1710055800 = ((124, 3, 10, 7), (3, 30, 0, 0)) /\
  datetime_to_time_z est5edt_2024 (-18000) (-14400) (124, 11, 3, 7) (1, 30, 0, 0) = Ok 1730611800 /\
  datetime_to_time_z est5edt_2024 (-18000) (-14400) (124, 11, 2, 6) (24, 0, 0, 0) = Ok 1730606400.
Proof. vm_compute. repeat split; reflexivity. Qed.
