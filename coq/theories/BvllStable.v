(* BvllStable.v — whatever the decoder accepts is a well-formed message, hence re-encodes to a
   frame that decodes to the same message (model Bvll.v). *)
From Bac Require Import Base BytesFacts Bvll BvllFacts BvllRound BvllTotal.
From Coq Require Import ZifyBool ZifyN ZifyNat.
Ltac Zify.zify_post_hook ::= Z.to_euclidean_division_equations.
Open Scope N_scope.

Lemma bytes_ok_cons a l : bytes_ok (a :: l) = (a <? 256) && bytes_ok l.
Proof. reflexivity. Qed.

Lemma dec_addr_wf bs a r : dec_addr bs = Ok (a, r) -> bytes_ok bs = true ->
  wf_addr a = true /\ bytes_ok r = true /\ (length r <= length bs)%nat.
Proof.
  unfold dec_addr. destruct (get_data 6 bs) as [[d r']|e] eqn:E; cbn [bind]; [|discriminate].
  intros H; injection H as <- <-. intros B. apply get_data_ok in E as [-> Hl].
  rewrite bytes_ok_app in B. apply andb_true_iff in B as [B1 B2]. cbn [wf_addr]. rewrite B1, app_length.
  repeat split; [|assumption|lia]. destruct (lenN d =? 6) eqn:E6; [reflexivity|lia].
Qed.

Lemma get_short_wf bs v r : get_short bs = Ok (v, r) -> bytes_ok bs = true ->
  v < 65536 /\ bytes_ok r = true /\ (length r <= length bs)%nat.
Proof.
  destruct bs as [|a [|b r']]; cbn [get_short]; try discriminate.
  intros H; injection H as <- <-. rewrite !bytes_ok_cons. intros B.
  apply andb_true_iff in B as [Ba B]. apply andb_true_iff in B as [Bb B].
  repeat split; [lia|assumption|cbn [length]; lia].
Qed.

Lemma get_long_wf bs v r : get_long bs = Ok (v, r) -> bytes_ok bs = true ->
  v < 4294967296 /\ bytes_ok r = true /\ (length r <= length bs)%nat.
Proof.
  destruct bs as [|a [|b [|c [|d r']]]]; cbn [get_long]; try discriminate.
  intros H; injection H as <- <-. rewrite !bytes_ok_cons. intros B.
  apply andb_true_iff in B as [Ba B]. apply andb_true_iff in B as [Bb B].
  apply andb_true_iff in B as [Bc B]. apply andb_true_iff in B as [Bd B].
  repeat split; [lia|assumption|cbn [length]; lia].
Qed.

Lemma wf_short_of_N v : v < 65536 -> wf_short (Some (Z.of_N v)) = true.
Proof. intros H. cbn [wf_short]. lia. Qed.

Lemma dec_bdt_fuel_wf fuel : forall bs t, dec_bdt_fuel fuel bs = Ok t -> bytes_ok bs = true ->
  forallb wf_bdte t = true.
Proof.
  induction fuel as [|f IH]; intros bs t H B.
  - destruct bs; cbn [dec_bdt_fuel] in H; [injection H as <-; reflexivity|discriminate].
  - destruct bs as [|x bs']; [injection H as <-; reflexivity|].
    cbn [dec_bdt_fuel] in H.
    destruct (dec_addr (x :: bs')) as [[a r]|e] eqn:Ea; cbn [bind] in H; [|discriminate].
    destruct (dec_addr_wf _ _ _ Ea B) as (Wa & Br & _).
    destruct (get_long r) as [[v r2]|e] eqn:El; cbn [bind] in H; [|discriminate].
    destruct (get_long_wf _ _ _ El Br) as (Hv & Br2 & _).
    destruct (dec_bdt_fuel f r2) as [t'|e] eqn:Et; cbn [bind] in H; [|discriminate].
    injection H as <-. cbn [forallb]. rewrite (IH _ _ Et Br2), andb_true_r.
    unfold wf_bdte; cbn [b_addr b_mask]. rewrite Wa. cbn [andb]. lia.
Qed.

Lemma dec_fdt_fuel_wf fuel : forall bs t, dec_fdt_fuel fuel bs = Ok t -> bytes_ok bs = true ->
  forallb wf_fdte t = true.
Proof.
  induction fuel as [|f IH]; intros bs t H B.
  - destruct bs; cbn [dec_fdt_fuel] in H; [injection H as <-; reflexivity|discriminate].
  - destruct bs as [|x bs']; [injection H as <-; reflexivity|].
    cbn [dec_fdt_fuel] in H.
    destruct (dec_addr (x :: bs')) as [[a r]|e] eqn:Ea; cbn [bind] in H; [|discriminate].
    destruct (dec_addr_wf _ _ _ Ea B) as (Wa & Br & _).
    destruct (get_short r) as [[v r2]|e] eqn:E1; cbn [bind] in H; [|discriminate].
    destruct (get_short_wf _ _ _ E1 Br) as (Hv & Br2 & _).
    destruct (get_short r2) as [[w r3]|e] eqn:E2; cbn [bind] in H; [|discriminate].
    destruct (get_short_wf _ _ _ E2 Br2) as (Hw & Br3 & _).
    destruct (dec_fdt_fuel f r3) as [t'|e] eqn:Et; cbn [bind] in H; [|discriminate].
    injection H as <-. cbn [forallb]. rewrite (IH _ _ Et Br3), andb_true_r.
    unfold wf_fdte; cbn [f_addr f_ttl f_rem]. rewrite Wa, !wf_short_of_N by assumption. reflexivity.
Qed.

Lemma dec_body_wf k body m : dec_body k body = Ok m -> bytes_ok body = true -> wf_msg m = true.
Proof.
  destruct k; cbn [dec_body]; intros H B.
  - destruct (get_short body) as [[v r]|e] eqn:E; cbn [bind] in H; [|discriminate]. injection H as <-.
    destruct (get_short_wf _ _ _ E B) as (Hv & _). now apply wf_short_of_N.
  - unfold dec_bdt in H. destruct (dec_bdt_fuel _ body) as [t|e] eqn:E; cbn [bind] in H; [|discriminate].
    injection H as <-. exact (dec_bdt_fuel_wf _ _ _ E B).
  - injection H as <-. reflexivity.
  - unfold dec_bdt in H. destruct (dec_bdt_fuel _ body) as [t|e] eqn:E; cbn [bind] in H; [|discriminate].
    injection H as <-. exact (dec_bdt_fuel_wf _ _ _ E B).
  - destruct (dec_addr body) as [[a r]|e] eqn:E; cbn [bind] in H; [|discriminate]. injection H as <-.
    destruct (dec_addr_wf _ _ _ E B) as (Wa & Br & _). cbn [wf_msg]. now rewrite Wa, Br.
  - destruct (get_short body) as [[v r]|e] eqn:E; cbn [bind] in H; [|discriminate]. injection H as <-.
    destruct (get_short_wf _ _ _ E B) as (Hv & _). now apply wf_short_of_N.
  - injection H as <-. reflexivity.
  - unfold dec_fdt in H. destruct (dec_fdt_fuel _ body) as [t|e] eqn:E; cbn [bind] in H; [|discriminate].
    injection H as <-. exact (dec_fdt_fuel_wf _ _ _ E B).
  - destruct (dec_addr body) as [[a r]|e] eqn:E; cbn [bind] in H; [|discriminate]. injection H as <-.
    destruct (dec_addr_wf _ _ _ E B) as (Wa & _). exact Wa.
  - injection H as <-. exact B.
  - injection H as <-. exact B.
  - injection H as <-. exact B.
Qed.

Lemma dec_frame_wf bs m : bytes_ok bs = true -> dec_frame bs = Ok m -> wf_msg m = true.
Proof.
  intros B. unfold dec_frame. destruct (dec_bvlci bs) as [[[f l] b]|e] eqn:E; cbn [bind fst]; [|discriminate].
  apply dec_bvlci_inv in E as (hi & lo & -> & _). unfold dec_msg.
  destruct (lookup_fn f bvl_pdu_types) as [k|]; [|discriminate]. intros H.
  apply (dec_body_wf _ _ _ H). rewrite !bytes_ok_cons in B.
  repeat (apply andb_true_iff in B as [_ B]). exact B.
Qed.

(* the canonical frame of a decoded message is never longer than the datagram it came from
   (classes with fixed parameters ignore trailing octets), so it always fits the length field *)
Lemma dec_body_len k body m : dec_body k body = Ok m -> frame_len m <= lenN body + 4.
Proof.
  intros H. destruct (dec_body_total k body) as [_|E]; [|congruence].
  destruct k; cbn [dec_body] in H.
  - destruct (get_short body) as [[v r]|e] eqn:E; cbn [bind] in H; [|discriminate]. injection H as <-.
    destruct body as [|a [|b r']]; cbn [get_short] in E; try discriminate. cbn [frame_len]. rewrite !lenN_cons. lia.
  - unfold dec_bdt in H. destruct (dec_bdt_fuel _ body) as [t|e] eqn:E; cbn [bind] in H; [|discriminate].
    injection H as <-. cbn [frame_len].
    enough (G: forall fuel bs t, dec_bdt_fuel fuel bs = Ok t -> 10 * lenN t <= lenN bs) by (specialize (G _ _ _ E); lia).
    clear. induction fuel as [|f IH]; intros bs t H.
    + destruct bs; cbn [dec_bdt_fuel] in H; [injection H as <-; cbn; lia|discriminate].
    + destruct bs as [|x bs']; [injection H as <-; cbn; lia|]. cbn [dec_bdt_fuel] in H.
      destruct (dec_addr_cases (x :: bs')) as [Ha|(l & r & Ha & Hbs & Hl)]; rewrite Ha in H; cbn [bind] in H; [discriminate|].
      destruct r as [|a [|b [|c [|d r2]]]]; cbn [get_long bind] in H; try discriminate.
      destruct (dec_bdt_fuel f r2) as [t'|e] eqn:Et; cbn [bind] in H; [|discriminate]. injection H as <-.
      specialize (IH _ _ Et). rewrite Hbs, lenN_app, !lenN_cons. lia.
  - injection H as <-. cbn [frame_len]. lia.
  - unfold dec_bdt in H. destruct (dec_bdt_fuel _ body) as [t|e] eqn:E; cbn [bind] in H; [|discriminate].
    injection H as <-. cbn [frame_len].
    enough (G: forall fuel bs t, dec_bdt_fuel fuel bs = Ok t -> 10 * lenN t <= lenN bs) by (specialize (G _ _ _ E); lia).
    clear. induction fuel as [|f IH]; intros bs t H.
    + destruct bs; cbn [dec_bdt_fuel] in H; [injection H as <-; cbn; lia|discriminate].
    + destruct bs as [|x bs']; [injection H as <-; cbn; lia|]. cbn [dec_bdt_fuel] in H.
      destruct (dec_addr_cases (x :: bs')) as [Ha|(l & r & Ha & Hbs & Hl)]; rewrite Ha in H; cbn [bind] in H; [discriminate|].
      destruct r as [|a [|b [|c [|d r2]]]]; cbn [get_long bind] in H; try discriminate.
      destruct (dec_bdt_fuel f r2) as [t'|e] eqn:Et; cbn [bind] in H; [|discriminate]. injection H as <-.
      specialize (IH _ _ Et). rewrite Hbs, lenN_app, !lenN_cons. lia.
  - destruct (dec_addr_cases body) as [Ha|(l & r & Ha & Hbs & Hl)]; rewrite Ha in H; cbn [bind] in H; [discriminate|].
    injection H as <-. cbn [frame_len]. rewrite Hbs, lenN_app. lia.
  - destruct (get_short body) as [[v r]|e] eqn:E; cbn [bind] in H; [|discriminate]. injection H as <-.
    destruct body as [|a [|b r']]; cbn [get_short] in E; try discriminate. cbn [frame_len]. rewrite !lenN_cons. lia.
  - injection H as <-. cbn [frame_len]. lia.
  - unfold dec_fdt in H. destruct (dec_fdt_fuel _ body) as [t|e] eqn:E; cbn [bind] in H; [|discriminate].
    injection H as <-. cbn [frame_len].
    enough (G: forall fuel bs t, dec_fdt_fuel fuel bs = Ok t -> 10 * lenN t <= lenN bs) by (specialize (G _ _ _ E); lia).
    clear. induction fuel as [|f IH]; intros bs t H.
    + destruct bs; cbn [dec_fdt_fuel] in H; [injection H as <-; cbn; lia|discriminate].
    + destruct bs as [|x bs']; [injection H as <-; cbn; lia|]. cbn [dec_fdt_fuel] in H.
      destruct (dec_addr_cases (x :: bs')) as [Ha|(l & r & Ha & Hbs & Hl)]; rewrite Ha in H; cbn [bind] in H; [discriminate|].
      destruct r as [|a [|b [|c [|d r2]]]]; cbn [get_short bind] in H; try discriminate.
      destruct (dec_fdt_fuel f r2) as [t'|e] eqn:Et; cbn [bind] in H; [|discriminate]. injection H as <-.
      specialize (IH _ _ Et). rewrite Hbs, lenN_app, !lenN_cons. lia.
  - destruct (dec_addr_cases body) as [Ha|(l & r & Ha & Hbs & Hl)]; rewrite Ha in H; cbn [bind] in H; [discriminate|].
    injection H as <-. cbn [frame_len]. rewrite Hbs, lenN_app. lia.
  - injection H as <-. cbn [frame_len]. lia.
  - injection H as <-. cbn [frame_len]. lia.
  - injection H as <-. cbn [frame_len]. lia.
Qed.

Lemma reencode_stable bs m : bytes_ok bs = true -> dec_frame bs = Ok m ->
  exists bs', enc_frame m = Ok bs' /\ dec_frame bs' = Ok m /\ lenN bs' <= lenN bs.
Proof.
  intros B H. pose proof (dec_frame_wf _ _ B H) as W.
  assert (L: frame_len m <= lenN bs /\ lenN bs < 65536).
  { unfold dec_frame in H. destruct (dec_bvlci bs) as [[[f l] b]|e] eqn:E; cbn [bind fst] in H; [|discriminate].
    apply dec_bvlci_inv in E as (hi & lo & -> & Hl & Hl2). unfold dec_msg in H.
    destruct (lookup_fn f bvl_pdu_types) as [k|]; [|discriminate]. apply dec_body_len in H.
    rewrite !bytes_ok_cons in B. rewrite !lenN_cons in *. lia. }
  destruct (frame_roundtrip m W) as (bs' & He & Hd & Hlen); [lia|].
  exists bs'. repeat split; try assumption. lia.
Qed.
