(* ApciFacts.v — TABLE OBLIGATIONS: facts about the AST-translated code-table functions of
   gen/ApduFns.v (apdu.py:58-108), for every integer argument (not a grid).  Rebuilt by make
   whenever the translator changes the generated text, so a change to the tables or to the
   rounding loops in the source breaks the build. *)
From Bac Require Import Base PyRt.
From BacGen Require Import ApduFns.
From Coq Require Import ZifyBool ZifyN ZifyNat.
Ltac Zify.zify_post_hook ::= Z.to_euclidean_division_equations.
Open Scope Z_scope.

Notation enc_ms := encode_max_segments_accepted.
Notation dec_ms := decode_max_segments_accepted.
Notation enc_ml := encode_max_apdu_length_accepted.
Notation dec_ml := decode_max_apdu_length_accepted.

(* table look-ups at literal indices are computed; comparisons with the argument stay *)
Ltac lookups :=
  repeat match goal with
  | |- context [tbl_get_o ?t ?i] =>
      let v := eval vm_compute in (tbl_get_o t i) in change (tbl_get_o t i) with v
  end.
Ltac simp := cbn [bind oz_cmp_le_l oz_cmp_ge_r oz_ord negb oz_truth].

(* the two tables are the standard's (clause 20.1.2.4 and 20.1.2.5) *)
Lemma maxsegs_table_std :
  _max_segments_accepted_encoding = [None; Some 2; Some 4; Some 8; Some 16; Some 32; Some 64; None].
Proof. reflexivity. Qed.
Lemma maxapdu_table_std :
  _max_apdu_length_encoding = [Some 50; Some 128; Some 206; Some 480; Some 1024; Some 1476;
                               None; None; None; None; None; None; None; None; None; None].
Proof. reflexivity. Qed.

(* the generated encoders, with the look-ups evaluated: a decision list over the argument *)
Lemma enc_ms_eq n : enc_ms n =
  if n =? 0 then Ok 0 else if n >? 64 then Ok 7
  else if 64 <=? n then Ok 6 else if 32 <=? n then Ok 5 else if 16 <=? n then Ok 4
  else if 8 <=? n then Ok 3 else if 4 <=? n then Ok 2 else if 2 <=? n then Ok 1
  else Err ValueErr.
Proof.
  unfold encode_max_segments_accepted. lookups. simp.
  destruct (n =? 0); reflexivity.
Qed.

Lemma enc_ml_eq n : enc_ml n =
  if n >=? 1476 then Ok 5 else if n >=? 1024 then Ok 4 else if n >=? 480 then Ok 3
  else if n >=? 206 then Ok 2 else if n >=? 128 then Ok 1 else if n >=? 50 then Ok 0
  else Err ValueErr.
Proof. unfold encode_max_apdu_length_accepted. lookups. simp. reflexivity. Qed.

(* decoders: list indexing with Python's negative-index rule *)
Lemma dec_ms_range c : c < -8 \/ 8 <= c -> dec_ms c = Err IndexErr.
Proof.
  intros H. unfold decode_max_segments_accepted, tbl_get_o, py_index.
  rewrite maxsegs_table_std. cbn [length Z.of_nat Pos.of_succ_nat Pos.succ].
  destruct (c <? 0) eqn:E1.
  - destruct (c + 8 <? 0) eqn:E2; [reflexivity|]. destruct (8 <=? c + 8) eqn:E3; [reflexivity|]. lia.
  - destruct (c <? 0) eqn:E2; [lia|]. destruct (8 <=? c) eqn:E3; [reflexivity|]. lia.
Qed.

Lemma dec_ml_range c : c < -16 \/ 16 <= c -> dec_ml c = Err IndexErr.
Proof.
  intros H. unfold decode_max_apdu_length_accepted, tbl_get_o, py_index.
  rewrite maxapdu_table_std. cbn [length Z.of_nat Pos.of_succ_nat Pos.succ].
  destruct (c <? 0) eqn:E1.
  - destruct (c + 16 <? 0) eqn:E2; [reflexivity|]. destruct (16 <=? c + 16) eqn:E3; [reflexivity|]. lia.
  - destruct (c <? 0) eqn:E2; [lia|]. destruct (16 <=? c) eqn:E3; [reflexivity|]. lia.
Qed.

Ltac enum16 c :=
  let H := fresh in
  assert (H : c = -8 \/ c = -7 \/ c = -6 \/ c = -5 \/ c = -4 \/ c = -3 \/ c = -2 \/ c = -1 \/
              c = 0 \/ c = 1 \/ c = 2 \/ c = 3 \/ c = 4 \/ c = 5 \/ c = 6 \/ c = 7) by lia;
  repeat (destruct H as [-> | H]); [.. | subst c].
Ltac enum32 c :=
  let H := fresh in
  assert (H : c = -16 \/ c = -15 \/ c = -14 \/ c = -13 \/ c = -12 \/ c = -11 \/ c = -10 \/ c = -9 \/
              c = -8 \/ c = -7 \/ c = -6 \/ c = -5 \/ c = -4 \/ c = -3 \/ c = -2 \/ c = -1 \/
              c = 0 \/ c = 1 \/ c = 2 \/ c = 3 \/ c = 4 \/ c = 5 \/ c = 6 \/ c = 7 \/
              c = 8 \/ c = 9 \/ c = 10 \/ c = 11 \/ c = 12 \/ c = 13 \/ c = 14 \/ c = 15) by lia;
  repeat (destruct H as [-> | H]); [.. | subst c].

(* whatever index is used, a decoded number is one of the standard's *)
Lemma dec_ms_values c v : dec_ms c = Ok (Some v) ->
  v = 2 \/ v = 4 \/ v = 8 \/ v = 16 \/ v = 32 \/ v = 64.
Proof.
  intros H. destruct (Z_lt_dec c (-8)) as [L|L]; [rewrite dec_ms_range in H by lia; discriminate|].
  destruct (Z_le_dec 8 c) as [G|G]; [rewrite dec_ms_range in H by lia; discriminate|].
  enum16 c; vm_compute in H; try discriminate; injection H as <-; lia.
Qed.

Lemma dec_ml_values c v : dec_ml c = Ok (Some v) ->
  v = 50 \/ v = 128 \/ v = 206 \/ v = 480 \/ v = 1024 \/ v = 1476.
Proof.
  intros H. destruct (Z_lt_dec c (-16)) as [L|L]; [rewrite dec_ml_range in H by lia; discriminate|].
  destruct (Z_le_dec 16 c) as [G|G]; [rewrite dec_ml_range in H by lia; discriminate|].
  enum32 c; vm_compute in H; try discriminate; injection H as <-; lia.
Qed.

(* ---- max-segments-accepted *)

(* decoding follows the table: code c in 1..6 means 2^c segments; 0 (unspecified) and
   7 (more than 64) carry no number *)
Lemma maxsegs_decode_table :
  (forall c, 1 <= c <= 6 -> dec_ms c = Ok (Some (2 ^ c))) /\
  dec_ms 0 = Ok None /\ dec_ms 7 = Ok None.
Proof.
  repeat split; try reflexivity.
  intros c H.
  assert (Hc : c = 1 \/ c = 2 \/ c = 3 \/ c = 4 \/ c = 5 \/ c = 6) by lia.
  repeat (destruct Hc as [-> | Hc]); try subst c; reflexivity.
Qed.

(* a capability of two or more segments is rounded DOWN to the nearest table entry; more than
   64 becomes code 7 *)
Lemma maxsegs_round_down n : 2 <= n ->
  exists c, enc_ms n = Ok c /\
    (n <= 64 -> 1 <= c <= 6 /\
       exists lo, dec_ms c = Ok (Some lo) /\ lo <= n < 2 * lo /\
         (c < 6 -> dec_ms (c + 1) = Ok (Some (2 * lo)))) /\
    (64 < n -> c = 7).
Proof.
  intros H. rewrite enc_ms_eq.
  destruct (n =? 0) eqn:E0; [lia|].
  destruct (n >? 64) eqn:E1; [exists 7; repeat split; lia|].
  destruct (64 <=? n) eqn:E2;
    [exists 6; split; [reflexivity|]; split; [intros _; split; [lia|]; exists 64; repeat split; lia | lia]|].
  destruct (32 <=? n) eqn:E3;
    [exists 5; split; [reflexivity|]; split; [intros _; split; [lia|]; exists 32; repeat split; lia | lia]|].
  destruct (16 <=? n) eqn:E4;
    [exists 4; split; [reflexivity|]; split; [intros _; split; [lia|]; exists 16; repeat split; lia | lia]|].
  destruct (8 <=? n) eqn:E5;
    [exists 3; split; [reflexivity|]; split; [intros _; split; [lia|]; exists 8; repeat split; lia | lia]|].
  destruct (4 <=? n) eqn:E6;
    [exists 2; split; [reflexivity|]; split; [intros _; split; [lia|]; exists 4; repeat split; lia | lia]|].
  destruct (2 <=? n) eqn:E7; [|lia].
  exists 1; split; [reflexivity|]; split; [intros _; split; [lia|]; exists 2; repeat split; lia | lia].
Qed.

(* never up: the number the chosen code stands for is the greatest table entry not above n *)
Lemma maxsegs_greatest n c lo c' v : enc_ms n = Ok c -> dec_ms c = Ok (Some lo) ->
  dec_ms c' = Ok (Some v) -> v <= n -> lo <= n /\ v <= lo.
Proof.
  rewrite enc_ms_eq. intros He Hd Hv Hle. apply dec_ms_values in Hv.
  destruct (n =? 0) eqn:E0; [injection He as <-; discriminate|].
  destruct (n >? 64) eqn:E1; [injection He as <-; discriminate|].
  destruct (64 <=? n) eqn:E2; [injection He as <-; injection Hd as <-; lia|].
  destruct (32 <=? n) eqn:E3; [injection He as <-; injection Hd as <-; lia|].
  destruct (16 <=? n) eqn:E4; [injection He as <-; injection Hd as <-; lia|].
  destruct (8 <=? n) eqn:E5; [injection He as <-; injection Hd as <-; lia|].
  destruct (4 <=? n) eqn:E6; [injection He as <-; injection Hd as <-; lia|].
  destruct (2 <=? n) eqn:E7; [injection He as <-; injection Hd as <-; lia|].
  discriminate.
Qed.

(* one segment (or a negative number) cannot be rounded down to a table entry: refused *)
Lemma maxsegs_refuse_below n : n < 0 \/ n = 1 -> enc_ms n = Err ValueErr.
Proof.
  intros H. rewrite enc_ms_eq.
  destruct (n =? 0) eqn:E0; [lia|]. destruct (n >? 64) eqn:E1; [lia|].
  destruct (64 <=? n) eqn:E2; [lia|]. destruct (32 <=? n) eqn:E3; [lia|].
  destruct (16 <=? n) eqn:E4; [lia|]. destruct (8 <=? n) eqn:E5; [lia|].
  destruct (4 <=? n) eqn:E6; [lia|]. destruct (2 <=? n) eqn:E7; [lia|]. reflexivity.
Qed.

Lemma maxsegs_unspecified : enc_ms 0 = Ok 0 /\ dec_ms 0 = Ok None.
Proof. split; reflexivity. Qed.

(* the encoder is total on Z: a code in 0..7 or ValueError *)
Lemma maxsegs_encode_total n : (exists c, enc_ms n = Ok c /\ 0 <= c <= 7) \/ enc_ms n = Err ValueErr.
Proof.
  rewrite enc_ms_eq.
  destruct (n =? 0); [left; exists 0; split; [reflexivity|lia]|].
  destruct (n >? 64); [left; exists 7; split; [reflexivity|lia]|].
  destruct (64 <=? n); [left; exists 6; split; [reflexivity|lia]|].
  destruct (32 <=? n); [left; exists 5; split; [reflexivity|lia]|].
  destruct (16 <=? n); [left; exists 4; split; [reflexivity|lia]|].
  destruct (8 <=? n); [left; exists 3; split; [reflexivity|lia]|].
  destruct (4 <=? n); [left; exists 2; split; [reflexivity|lia]|].
  destruct (2 <=? n); [left; exists 1; split; [reflexivity|lia]|].
  right; reflexivity.
Qed.

(* ---- max-APDU-length-accepted *)

Lemma maxapdu_decode_table :
  dec_ml 0 = Ok (Some 50) /\ dec_ml 1 = Ok (Some 128) /\ dec_ml 2 = Ok (Some 206) /\
  dec_ml 3 = Ok (Some 480) /\ dec_ml 4 = Ok (Some 1024) /\ dec_ml 5 = Ok (Some 1476).
Proof. repeat split; reflexivity. Qed.

(* the ten reserved code points are refused with ValueError *)
Lemma maxapdu_decode_reserved c : 6 <= c <= 15 -> dec_ml c = Err ValueErr.
Proof.
  intros H.
  assert (Hc : c = 6 \/ c = 7 \/ c = 8 \/ c = 9 \/ c = 10 \/ c = 11 \/ c = 12 \/ c = 13 \/ c = 14 \/ c = 15) by lia.
  repeat (destruct Hc as [-> | Hc]); try subst c; reflexivity.
Qed.

Lemma maxapdu_round_down n : 50 <= n ->
  exists c lo, enc_ml n = Ok c /\ 0 <= c <= 5 /\ dec_ml c = Ok (Some lo) /\ lo <= n /\
    (c < 5 -> exists hi, dec_ml (c + 1) = Ok (Some hi) /\ n < hi).
Proof.
  intros H. rewrite enc_ml_eq.
  destruct (n >=? 1476) eqn:E5; [exists 5, 1476; repeat split; lia|].
  destruct (n >=? 1024) eqn:E4;
    [exists 4, 1024; repeat split; try lia; intros _; exists 1476; split; [reflexivity|lia]|].
  destruct (n >=? 480) eqn:E3;
    [exists 3, 480; repeat split; try lia; intros _; exists 1024; split; [reflexivity|lia]|].
  destruct (n >=? 206) eqn:E2;
    [exists 2, 206; repeat split; try lia; intros _; exists 480; split; [reflexivity|lia]|].
  destruct (n >=? 128) eqn:E1;
    [exists 1, 128; repeat split; try lia; intros _; exists 206; split; [reflexivity|lia]|].
  destruct (n >=? 50) eqn:E0; [|lia].
  exists 0, 50; repeat split; try lia; intros _; exists 128; split; [reflexivity|lia].
Qed.

Lemma maxapdu_greatest n c lo c' v : enc_ml n = Ok c -> dec_ml c = Ok (Some lo) ->
  dec_ml c' = Ok (Some v) -> v <= n -> lo <= n /\ v <= lo.
Proof.
  rewrite enc_ml_eq. intros He Hd Hv Hle. apply dec_ml_values in Hv.
  destruct (n >=? 1476) eqn:E5; [injection He as <-; injection Hd as <-; lia|].
  destruct (n >=? 1024) eqn:E4; [injection He as <-; injection Hd as <-; lia|].
  destruct (n >=? 480) eqn:E3; [injection He as <-; injection Hd as <-; lia|].
  destruct (n >=? 206) eqn:E2; [injection He as <-; injection Hd as <-; lia|].
  destruct (n >=? 128) eqn:E1; [injection He as <-; injection Hd as <-; lia|].
  destruct (n >=? 50) eqn:E0; [injection He as <-; injection Hd as <-; lia|].
  discriminate.
Qed.

(* below the smallest entry every code would promise too much: refused *)
Lemma maxapdu_refuse_below n : n < 50 -> enc_ml n = Err ValueErr.
Proof.
  intros H. rewrite enc_ml_eq.
  destruct (n >=? 1476) eqn:E5; [lia|]. destruct (n >=? 1024) eqn:E4; [lia|].
  destruct (n >=? 480) eqn:E3; [lia|]. destruct (n >=? 206) eqn:E2; [lia|].
  destruct (n >=? 128) eqn:E1; [lia|]. destruct (n >=? 50) eqn:E0; [lia|]. reflexivity.
Qed.

(* ---- both ways: encode (decode c) = c on every code point that stands for a number *)
Lemma tables_inverse :
  (forall c, 1 <= c <= 6 -> exists v, dec_ms c = Ok (Some v) /\ enc_ms v = Ok c) /\
  (forall c, 0 <= c <= 5 -> exists v, dec_ml c = Ok (Some v) /\ enc_ml v = Ok c).
Proof.
  split; intros c H.
  - assert (Hc : c = 1 \/ c = 2 \/ c = 3 \/ c = 4 \/ c = 5 \/ c = 6) by lia.
    repeat (destruct Hc as [-> | Hc]); try subst c; eexists; split; reflexivity.
  - assert (Hc : c = 0 \/ c = 1 \/ c = 2 \/ c = 3 \/ c = 4 \/ c = 5) by lia.
    repeat (destruct Hc as [-> | Hc]); try subst c; eexists; split; reflexivity.
Qed.

(* and decode (encode n) never exceeds n, for every n the encoder accepts with a numeric code *)
Lemma tables_never_up :
  (forall n c v, enc_ms n = Ok c -> dec_ms c = Ok (Some v) -> v <= n) /\
  (forall n c v, enc_ml n = Ok c -> dec_ml c = Ok (Some v) -> v <= n).
Proof.
  split; intros n c v He Hd.
  - assert (Hv : dec_ms 1 = Ok (Some 2)) by reflexivity.
    destruct (Z_le_dec 2 n) as [L|L].
    + exact (proj1 (maxsegs_greatest n c v 1 2 He Hd Hv L)).
    + destruct (Z.eq_dec n 0) as [->|N0].
      * vm_compute in He. injection He as <-. discriminate.
      * rewrite maxsegs_refuse_below in He by lia. discriminate.
  - assert (Hv : dec_ml 0 = Ok (Some 50)) by reflexivity.
    destruct (Z_le_dec 50 n) as [L|L].
    + exact (proj1 (maxapdu_greatest n c v 0 50 He Hd Hv L)).
    + rewrite maxapdu_refuse_below in He by lia. discriminate.
Qed.
