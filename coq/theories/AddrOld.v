(* AddrOld.v — the legacy X'<hex pairs>' notation (with optional network), which only the
   regular expressions after the combined pattern accept. *)
From Bac Require Import Base Addr AddrFacts AddrParse.
From Coq Require Import ZifyBool ZifyN ZifyNat.
Ltac Zify.zify_post_hook ::= Z.to_euclidean_division_equations.
Open Scope N_scope.

Definition oldtext (h : str) : str := 88 :: 39 :: h ++ [39].
(* characters of X'..' *)
Definition och (c : N) : bool := is_hex c || (c =? 88) || (c =? 39).

Lemma oldtext_och h : forallb is_hex h = true -> forallb och (oldtext h) = true.
Proof.
  intro H. unfold oldtext. cbn [forallb]. change (och 88) with true. change (och 39) with true. cbn [andb].
  rewrite forallb_app. cbn [forallb]. change (och 39) with true. cbn [andb]. rewrite andb_true_r.
  revert H. apply forallb_imp. intros x Hx. unfold och. rewrite Hx. reflexivity.
Qed.

Lemma och_nonl s : forallb och s = true -> nonl s = true.
Proof. apply forallb_imp. intros x. unfold och, is_hex, is_digit. lia. Qed.

Lemma core_old_none h : forallb is_hex h = true -> match_core (oldtext h) = None.
Proof.
  intro H. pose proof (oldtext_och h H) as O. unfold match_core.
  change (str_eqb (oldtext h) [42]) with false. cbv iota.
  unfold is_field. change (digits (oldtext h)) with false. change (starts_0x (oldtext h)) with false. cbn [orb andb].
  unfold ip_mask_port.
  rewrite (split_at_none 58) by (apply (forallb_notin och); [exact O|reflexivity]).
  rewrite (split_at_none 47) by (apply (forallb_notin och); [exact O|reflexivity]).
  unfold is_dotted, dotted.
  rewrite (split_at_none 46) by (apply (forallb_notin och); [exact O|reflexivity]).
  reflexivity.
Qed.

Lemma eth_old_false k h : h <> [] -> eth_groups (S k) (oldtext h) = false.
Proof.
  intro Hne. destruct h as [|c r]; [congruence|]. unfold oldtext. cbn [app eth_groups].
  change (is_hex 88) with false. rewrite andb_false_r. reflexivity.
Qed.

Lemma is_oldhex_text h : hex_pairs h = true -> is_oldhex (oldtext h) = true.
Proof.
  intro H. unfold is_oldhex, oldtext. rewrite last_last, removelast_last, H. reflexivity.
Qed.

(* "X'<hex pairs>'" *)
Lemma decode_oldhex h : hex_pairs h = true ->
  exists b, unhex h = Ok b /\ decode_str (oldtext h) = Ok (station b).
Proof.
  intro H. destruct (hex_pairs_forall h H) as [Hf Hne].
  assert (He : N.even (lenN h) = true).
  { unfold hex_pairs in H. destruct h; [discriminate|]. now apply andb_true_iff in H as [H _]. }
  destruct (unhex_total h Hf He) as [b Hb]. exists b. split; [exact Hb|].
  pose proof (oldtext_och h Hf) as O.
  unfold decode_str. change (str_eqb (oldtext h) [42]) with false.
  change (str_eqb (oldtext h) [42; 58; 42]) with false. cbv iota.
  rewrite (strip_nl_nonl _ (och_nonl _ O)).
  assert (M : match_combined (oldtext h) = None).
  { unfold match_combined.
    rewrite (split_at_none 64) by (apply (forallb_notin och); [exact O|reflexivity]).
    rewrite (split_at_none 58) by (apply (forallb_notin och); [exact O|reflexivity]).
    rewrite (core_old_none h Hf). reflexivity. }
  rewrite M. unfold is_ethernet. rewrite (eth_old_false 4 h Hne), (is_oldhex_text h H).
  unfold oldtext at 1. cbn [skipn]. rewrite removelast_last. unfold xtob. rewrite (filter_all _ _ Hf), Hb. reflexivity.
Qed.

Lemma eth_net_old_false n h : digits n = true -> h <> [] -> is_ethernet (n ++ 58 :: oldtext h) = false.
Proof.
  intros Hn Hne. unfold is_ethernet. apply digits_forall in Hn.
  destruct n as [|a [|b [|c n']]].
  - cbn [app eth_groups]. unfold oldtext. reflexivity.
  - cbn [app eth_groups]. unfold oldtext. reflexivity.
  - cbn [app]. change (eth_groups 5 (a :: b :: 58 :: oldtext h))
      with ((58 =? 58) && is_hex a && is_hex b && eth_groups 4 (oldtext h)).
    rewrite (eth_old_false 3 h Hne). apply andb_false_r.
  - cbn [app eth_groups]. cbn [forallb] in Hn.
    apply andb_true_iff in Hn as [_ Hn]. apply andb_true_iff in Hn as [_ Hn]. apply andb_true_iff in Hn as [Hc _].
    apply is_digit_spec in Hc. destruct (c =? 58) eqn:E; [lia|]. reflexivity.
Qed.

(* "<net>:X'<hex pairs>'" *)
Lemma decode_net_oldhex n h : digits n = true -> hex_pairs h = true ->
  exists b, unhex h = Ok b /\
  decode_str (n ++ 58 :: oldtext h) =
    if (65535 <=? Z.of_N (dec_val n))%Z then Err ValueErr
    else Ok (mkAddr ARemoteStation (Some (Z.of_N (dec_val n))) (Some b) None None).
Proof.
  intros Hn H. destruct (hex_pairs_forall h H) as [Hf Hne].
  assert (He : N.even (lenN h) = true).
  { unfold hex_pairs in H. destruct h; [discriminate|]. now apply andb_true_iff in H as [H _]. }
  destruct (unhex_total h Hf He) as [b Hb]. exists b. split; [exact Hb|].
  pose proof (oldtext_och h Hf) as O.
  destruct (net_text_facts n _ Hn (och_nonl _ O)) as (F1 & F2 & F3).
  unfold decode_str. rewrite F2, F3, (strip_nl_nonl _ F1).
  assert (H58 : ~ In 58 n) by (apply notin_digits; [exact Hn|reflexivity]).
  assert (M : match_combined (n ++ 58 :: oldtext h) = None).
  { unfold match_combined. rewrite (split_at_none 64).
    2:{ intro Hin. apply in_app_or in Hin as [Hin|[Hin|Hin]]; [|discriminate|].
        - revert Hin. apply notin_digits; [exact Hn|reflexivity].
        - revert Hin. apply (forallb_notin och); [exact O|reflexivity]. }
    rewrite (split_at_app 58 n _ H58), Hn, (core_old_none h Hf). reflexivity. }
  rewrite M, (eth_net_old_false n h Hn Hne).
  assert (NO : is_oldhex (n ++ 58 :: oldtext h) = false).
  { destruct (digit_head n Hn) as (c & r & -> & Hc). cbn [app]. unfold is_oldhex.
    destruct r as [|y r']; cbn [app]; (destruct (c =? 88) eqn:E; [lia|reflexivity]). }
  rewrite NO, (split_at_app 58 n _ H58), Hn, (is_oldhex_text h H). cbn [andb].
  unfold net_check. destruct (65535 <=? Z.of_N (dec_val n))%Z; cbn [bind]; [reflexivity|].
  unfold oldtext at 1. cbn [skipn]. rewrite removelast_last. unfold xtob. rewrite (filter_all _ _ Hf), Hb. reflexivity.
Qed.
