(* Sched.v — model of task.py (TaskManager, _Task/OneShotTask/RecurringTask) and of the
   event loops core.run_once / core.run, over a virtual clock.

   Time is `Z` ticks (any fixed unit; `jit` is the 1e-6 s "jitter" of
   RecurringTask.install_task expressed in that unit).  The heap
   `TaskManager.tasks` of `(time, counter, task)` tuples is kept as a list sorted by
   `(time, counter)`: only the pop order of `heapq` is observable (heapq itself is
   trusted).  Tasks are numbered; what a task's callback does is static configuration:
   it records that it fired, hands `t_defers` to `core.deferred`, performs the scheduling
   actions `t_acts` in order (install / re-install / suspend / resume of itself or of another
   task; an API call that raises ends the callback with that exception), then raises iff
   `t_raises`.  Deferred functions do the same with their `spawns` and `acts`.

   code map (py34/bacpypes):
     _Task.install_task            task.py:58-79     do_install_when / _after / reinstall
     RecurringTask.install_task    task.py:179-216   rec_install, next_slot
     TaskManager.install_task      task.py:295-314   tm_install
     TaskManager.suspend_task      task.py:316-333   tm_suspend
     TaskManager.resume_task       task.py:335-339   tm_install
     TaskManager.get_next_task     task.py:341-370   get_next_task
     TaskManager.process_task      task.py:372-382   process_task
     core.run_once                 core.py:187-233   run_once_loop
     core.run (no sockets, spin=0) core.py:123-181   run_loop
   No proofs here (SchedFacts.v). *)
From Bac Require Export Base Deferred.
Open Scope Z_scope.

Inductive kind : Set := OneShot | Recurring (iv off : Z).
Record tcfg : Set := mkT { t_kind : kind; t_raises : bool; t_defers : list dfn; t_acts : list sact }.
Definition cfg := list tcfg.
Definition cfg_get (c : cfg) (i : nat) : tcfg := nth i c (mkT OneShot false [] []).

Definition entry : Set := (Z * N * nat)%type.          (* (taskTime, counter, task) *)
Definition e_when (e : entry) : Z := fst (fst e).
Definition e_seq (e : entry) : N := snd (fst e).
Definition e_tid (e : entry) : nat := snd e.

Record st : Type := mkSt {
  now : Z;                         (* the virtual clock read by task._time() *)
  ctr : N;                         (* TaskManager.counter *)
  heap : list entry;               (* TaskManager.tasks, in pop order *)
  sched : nat -> bool;             (* task.isScheduled *)
  ttime : nat -> option Z;         (* task.taskTime *)
  dq : list dfn                    (* core.deferredFns *)
}.

Definition st0 : st := mkSt 0 0 [] (fun _ => false) (fun _ => None) [].

Definition upd {A} (f : nat -> A) (i : nat) (v : A) : nat -> A :=
  fun j => if Nat.eqb j i then v else f j.

(* tuple order of the heap entries: (time, counter) — the counter is unique, the task
   object itself is never compared *)
Definition e_lt (a b : entry) : bool :=
  (e_when a <? e_when b) || ((e_when a =? e_when b) && (e_seq a <? e_seq b)%N).

Fixpoint insert (e : entry) (h : list entry) : list entry :=       (* heappush *)
  match h with
  | [] => [e]
  | x :: r => if e_lt e x then e :: h else x :: insert e r
  end.

(* suspend_task's scan: delete the (first) entry of the task; None = not found *)
Fixpoint remove_tid (i : nat) (h : list entry) : option (list entry) :=
  match h with
  | [] => None
  | x :: r => if Nat.eqb (e_tid x) i then Some r
              else match remove_tid i r with Some r' => Some (x :: r') | None => None end
  end.

Definition set_heap (s : st) h := mkSt (now s) (ctr s) h (sched s) (ttime s) (dq s).
Definition set_sched (s : st) f := mkSt (now s) (ctr s) (heap s) f (ttime s) (dq s).
Definition set_ttime (s : st) f := mkSt (now s) (ctr s) (heap s) (sched s) f (dq s).
Definition set_now (s : st) t := mkSt t (ctr s) (heap s) (sched s) (ttime s) (dq s).
Definition set_dq (s : st) q := mkSt (now s) (ctr s) (heap s) (sched s) (ttime s) q.

(* TaskManager.suspend_task *)
Definition tm_suspend (s : st) (i : nat) : st :=
  match remove_tid i (heap s) with
  | Some h => mkSt (now s) (ctr s) h (upd (sched s) i false) (ttime s) (dq s)
  | None => s
  end.

(* TaskManager.install_task *)
Definition tm_install (s : st) (i : nat) : res st :=
  match ttime s i with
  | None => Err RuntimeErr                                  (* "task time is None" *)
  | Some t =>
      let s1 := if sched s i then tm_suspend s i else s in
      Ok (mkSt (now s1) (ctr s1 + 1)%N (insert (t, ctr s1, i) (heap s1))
               (upd (sched s1) i true) (ttime s1) (dq s1))
  end.

(* RecurringTask.install_task: (now - off) + iv - ((now - off) % iv) + off, now = time + jitter *)
Definition next_slot (jit iv off t : Z) : Z :=
  let x := t + jit - off in x + iv - x mod iv + off.

Definition rec_install (jit : Z) (s : st) (i : nat) (iv off : Z) : res st :=
  if iv <=? 0 then Err RuntimeErr                           (* "interval must be greater than zero" *)
  else tm_install (set_ttime s (upd (ttime s) i (Some (next_slot jit iv off (now s))))) i.

(* task.install_task(when=t) *)
Definition do_install_when (c : cfg) (s : st) (i : nat) (t : Z) : res st :=
  match t_kind (cfg_get c i) with
  | OneShot => tm_install (set_ttime s (upd (ttime s) i (Some t))) i
  | Recurring _ _ => Err TypeErr                            (* no such keyword *)
  end.

(* task.install_task() *)
Definition do_reinstall (jit : Z) (c : cfg) (s : st) (i : nat) : res st :=
  match t_kind (cfg_get c i) with
  | OneShot => match ttime s i with
               | None => Err RuntimeErr                     (* "schedule missing" *)
               | Some _ => tm_install s i
               end
  | Recurring iv off => rec_install jit s i iv off
  end.

(* TaskManager.get_next_task: (task popped with its entry, state, `delta == 0.0`) *)
Definition get_next_task (s : st) : option entry * st * bool :=
  match heap s with
  | [] => (None, s, false)
  | e :: r =>
      if e_when e <=? now s then
        (Some e,
         mkSt (now s) (ctr s) r (upd (sched s) (e_tid e) false) (ttime s) (dq s),
         match r with [] => false | e' :: _ => e_when e' <=? now s end)
      else (None, s, false)
  end.

Inductive event : Set :=
| EvFire (i : nat) (due : Z) (seq : N) (at_ : Z)     (* process_task callback entered *)
| EvCall (id : nat)                                  (* a deferred function was called *)
| EvRaise                                            (* an exception reached a handler of the loops *)
| EvErr (e : err)                                    (* an API call of the history raised / fuel ran out *)
(* ghost events: not observable, dropped by the canonical output; they let trace theorems speak
   about the queue at the moment of a firing and about (re-)installations *)
| EvPop (e : entry) (rest : list entry)              (* get_next_task popped e, `rest` stayed queued *)
| EvInst (i : nat) (auto : bool)                     (* TaskManager.install_task succeeded for task i;
                                                        auto = the re-install of a recurring task by process_task *)
.

Definition is_ghost (x : event) : bool :=
  match x with EvPop _ _ | EvInst _ _ => true | _ => false end.

(* one scheduling action of a callback: the result state and the ghost trace, or the exception *)
Definition do_act (jit : Z) (c : cfg) (s : st) (a : sact) : res (st * list event) :=
  match a with
  | AInstall i t => do s' <- do_install_when c s i t; Ok (s', [EvInst i false])
  | AInstallAfter i d => do s' <- do_install_when c s i (now s + d); Ok (s', [EvInst i false])
  | AReinstall i => do s' <- do_reinstall jit c s i; Ok (s', [EvInst i false])
  | ASuspend i => Ok (tm_suspend s i, [])
  | AResume i => do s' <- tm_install s i; Ok (s', [EvInst i false])
  end.

(* the actions of one callback, in order; true = an API call raised (the rest is skipped) *)
Fixpoint run_acts (jit : Z) (c : cfg) (s : st) (l : list sact) : st * list event * bool :=
  match l with
  | [] => (s, [], false)
  | a :: r => match do_act jit c s a with
              | Ok (s', ev) => let '(s2, ev2, x) := run_acts jit c s' r in (s2, ev ++ ev2, x)
              | Err _ => (s, [], true)
              end
  end.

(* TaskManager.process_task: the callback, then the re-install of a recurring task *)
Definition process_task (jit : Z) (c : cfg) (s : st) (e : entry) : st * list event * bool :=
  let i := e_tid e in
  let k := cfg_get c i in
  let s1 := set_dq s (dq s ++ t_defers k) in
  let ev := [EvFire i (e_when e) (e_seq e) (now s)] in
  let '(s2, ev2, failed) := run_acts jit c s1 (t_acts k) in
  if failed || t_raises k then (s2, ev ++ ev2, true)
  else match t_kind k with
       | OneShot => (s2, ev ++ ev2, false)
       | Recurring iv off =>
           match rec_install jit s2 i iv off with
           | Ok s3 => (s3, ev ++ ev2 ++ [EvInst i true], false)
           | Err _ => (s2, ev ++ ev2, true)
           end
       end.

(* the `for` over one detached batch, threading the scheduler state: every call is logged, the
   exception of a call (its own, or of one of its API calls) is logged by the handler that
   catches it — the per-call one (guard), or the loop's, which ends the pass (no guard) *)
Fixpoint call_batch_s (guard : bool) (jit : Z) (c : cfg) (s : st) (b : list dfn) : st * list event * bool :=
  match b with
  | [] => (s, [], false)
  | d :: rest =>
      let s1 := set_dq s (dq s ++ d_spawns d) in
      let '(s2, ev2, failed) := run_acts jit c s1 (d_acts d) in
      let r := failed || d_raises d in
      let ev := EvCall (d_id d) :: ev2 ++ (if r then [EvRaise] else []) in
      if r && negb guard then (s2, ev, true)
      else let '(s3, ev3, x) := call_batch_s guard jit c s2 rest in (s3, ev ++ ev3, x)
  end.

(* the `while deferredFns:` block; third component: an exception left it (or the fuel ran out) *)
Fixpoint sdrain (guard : bool) (jit : Z) (c : cfg) (fuel : nat) (s : st) : st * list event * bool :=
  match dq s with
  | [] => (s, [], false)
  | b =>
      match fuel with
      | O => (s, [EvErr OutOfFuel], true)
      | S f =>
          let '(s1, ev, x) := call_batch_s guard jit c (set_dq s []) b in
          if x then (s1, ev, true)
          else let '(s2, ev2, x2) := sdrain guard jit c f s1 in (s2, ev ++ ev2, x2)
      end
  end.

Definition do_drain (guard : bool) (jit : Z) (c : cfg) (s : st) : st * list event * bool :=
  sdrain guard jit c (f_size (dq s)) s.

(* get_next_task seen from the loops: the pop with its ghost record *)
Definition pop_events (s : st) (e : entry) (s1 : st) : list event := [EvPop e (heap s1)].

(* core.run_once: `while delta == 0.0:` inside one try *)
Fixpoint run_once_loop (guard : bool) (jit : Z) (c : cfg) (fuel : nat) (s : st) : st * list event :=
  match fuel with
  | O => (s, [EvErr OutOfFuel])
  | S f =>
      let '(t, s1, zero) := get_next_task s in
      let '(s2, ev1, r1) := match t with
                            | Some e => let '(s2, ev, r) := process_task jit c s1 e in
                                        (s2, pop_events s e s1 ++ ev, r)
                            | None => (s1, [], false)
                            end in
      if r1 then (s2, ev1 ++ [EvRaise])
      else let '(s3, ev2, r2) := do_drain guard jit c s2 in
           if r2 then (s3, ev1 ++ ev2)
           else if zero then let '(s4, ev3) := run_once_loop guard jit c f s3 in (s4, ev1 ++ ev2 ++ ev3)
                else (s3, ev1 ++ ev2)
  end.

Definition due_count (s : st) : nat := length (filter (fun e => e_when e <=? now s) (heap s)).
(* callbacks that keep installing due tasks make the real loop spin for ever; the model gives up
   (OutOfFuel) after `slack` more iterations than there were due entries.  SchedOrder/SchedRun show
   that the fuel is never exhausted when callbacks have no scheduling actions. *)
Definition slack : nat := 64.
Definition run_once (guard : bool) (jit : Z) (c : cfg) (s : st) : st * list event :=
  run_once_loop guard jit c (S (due_count s) + slack) s.

(* core.run with spin = 0 and no sockets, stopped as soon as nothing is due and nothing
   is deferred: one `try` per iteration *)
Definition quiescent (s : st) : bool :=
  match dq s with
  | [] => match heap s with [] => true | e :: _ => negb (e_when e <=? now s) end
  | _ :: _ => false
  end.

Fixpoint run_loop (guard : bool) (jit : Z) (c : cfg) (fuel : nat) (s : st) : st * list event :=
  if quiescent s then (s, [])
  else match fuel with
       | O => (s, [EvErr OutOfFuel])
       | S f =>
           let '(t, s1, _) := get_next_task s in
           let '(s2, ev1, r1) := match t with
                                 | Some e => let '(s2, ev, r) := process_task jit c s1 e in
                                             (s2, pop_events s e s1 ++ ev, r)
                                 | None => (s1, [], false)
                                 end in
           let '(s3, ev2) :=
             if r1 then (s2, ev1 ++ [EvRaise])
             else let '(s3, ev2, _) := do_drain guard jit c s2 in (s3, ev1 ++ ev2) in
           let '(s4, ev3) := run_loop guard jit c f s3 in (s4, ev2 ++ ev3)
       end.

Definition run (guard : bool) (jit : Z) (c : cfg) (s : st) : st * list event :=
  run_loop guard jit c (2 * due_count s + 2 + slack) s.

(* the operations a history is made of *)
Inductive op : Set :=
| Install (i : nat) (t : Z)         (* task.install_task(when=t) *)
| InstallAfter (i : nat) (d : Z)    (* task.install_task(delta=d) *)
| Reinstall (i : nat)               (* task.install_task() *)
| Suspend (i : nat)                 (* task.suspend_task() *)
| Resume (i : nat)                  (* task.resume_task() *)
| Advance (d : Z)                   (* the clock moves by d *)
| ToDue                             (* the clock moves to the head's due time if that is later *)
| Poll                              (* task, _ = tm.get_next_task(); if task: tm.process_task(task) *)
| Defer (f : dfn)                   (* core.deferred(f) *)
| RunOnce                           (* core.run_once() *)
| Run                               (* core.run(spin=0) until quiescent *)
.

Definition lift (s : st) (r : res (st * list event)) : st * list event :=
  match r with Ok p => p | Err e => (s, [EvErr e]) end.

Definition step (guard : bool) (jit : Z) (c : cfg) (s : st) (o : op) : st * list event :=
  match o with
  | Install i t => lift s (do_act jit c s (AInstall i t))
  | InstallAfter i d => lift s (do_act jit c s (AInstallAfter i d))
  | Reinstall i => lift s (do_act jit c s (AReinstall i))
  | Suspend i => lift s (do_act jit c s (ASuspend i))
  | Resume i => lift s (do_act jit c s (AResume i))
  | Advance d => (set_now s (now s + d), [])
  | ToDue => (match heap s with [] => s | e :: _ => set_now s (Z.max (now s) (e_when e)) end, [])
  | Poll => let '(t, s1, _) := get_next_task s in
            match t with
            | Some e => let '(s2, ev, r) := process_task jit c s1 e in
                        (s2, pop_events s e s1 ++ ev ++ (if r then [EvRaise] else []))
            | None => (s1, [])
            end
  | Defer f => (set_dq s (dq s ++ [f]), [])
  | RunOnce => run_once guard jit c s
  | Run => run guard jit c s
  end.

Fixpoint run_ops (guard : bool) (jit : Z) (c : cfg) (s : st) (ops : list op) : st * list event :=
  match ops with
  | [] => (s, [])
  | o :: r => let '(s1, ev1) := step guard jit c s o in
              let '(s2, ev2) := run_ops guard jit c s1 r in (s2, ev1 ++ ev2)
  end.

(* ---- canonical output for the correspondence (list Z) ---- *)
Definition oz (o : option Z) : list Z := match o with None => [0] | Some t => [1; t] end.

Definition canon_event (tc : nat -> Z -> Z) (e : event) : list Z :=
  match e with
  | EvFire i due _ at_ => [1; zn i; tc i due; tc i at_]
  | EvCall id => [2; zn id]
  | EvRaise => [3]
  | EvErr x => [4; err_code x]
  | EvPop _ _ | EvInst _ _ => []
  end.

Definition canon_entry (tc : nat -> Z -> Z) (e : entry) : list Z :=
  [tc (e_tid e) (e_when e); Z.of_N (e_seq e); zn (e_tid e)].

Fixpoint canon_tasks (tc : nat -> Z -> Z) (s : st) (n i : nat) : list Z :=
  match n with
  | O => []
  | S n' => zb (sched s i)
            :: (match ttime s i with None => [0] | Some t => [1; tc i t] end)
            ++ canon_tasks tc s n' (S i)
  end.

(* whole observable outcome of a history over `n` tasks: the event trace, then the heap
   in pop order, the counter, every task's isScheduled/taskTime, the deferred queue.
   `tc i t` is how a time belonging to task i is shown (identity, or the slot index of a
   recurring task when floats are involved on the other side). *)
Definition canon_run (tc : nat -> Z -> Z) (showclock : bool) (n : nat) (r : st * list event) : list Z :=
  let '(s, ev) := r in
  zlen (filter (fun x => negb (is_ghost x)) ev) :: flat_map (canon_event tc) ev
  ++ zlen (heap s) :: flat_map (canon_entry tc) (heap s)
  ++ Z.of_N (ctr s) :: (if showclock then [now s] else [])
  ++ canon_tasks tc s n 0 ++ zlen (dq s) :: ids (dq s).

Definition tc_id (_ : nat) (t : Z) : Z := t.
(* slot index of a time of task i (recurring: floor((t - off) / iv)); fire times `at`
   and one-shot times are shown as 0 in this mode *)
Definition tc_slot (c : cfg) (i : nat) (t : Z) : Z :=
  match t_kind (cfg_get c i) with
  | Recurring iv off => (t - off) / iv
  | OneShot => 0
  end.
