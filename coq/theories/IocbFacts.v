(* IocbFacts.v — C04 at the IOCB layer: over any history of submissions, confirmations from below, client aborts and
   deferred batches every IOCB's callback fires at most once, exactly when it reaches COMPLETED/ABORTED; a finished IOCB
   is never touched again (complete/abort idempotent); the per-address queue advances; an idle empty queue is dropped. *)
From Coq Require Import ZifyBool ZifyN ZifyNat.
From Bac Require Import Base Iocb.
Open Scope Z_scope.

Lemma lookup_update_eq : forall {A} k (v : A) l, lookup k (update k v l) = Some v.
Proof.
  intros A k v l. induction l as [|[k' v'] r IH]; cbn [update lookup].
  - rewrite Z.eqb_refl. reflexivity.
  - destruct (k =? k') eqn:E; cbn [lookup]; [rewrite Z.eqb_refl; reflexivity | rewrite E; exact IH].
Qed.

Lemma lookup_update_ne : forall {A} k k' (v : A) l, k' <> k -> lookup k' (update k v l) = lookup k' l.
Proof.
  intros A k k' v l Hne. induction l as [|[k2 v2] r IH]; cbn [update lookup].
  - replace (k' =? k) with false by lia. reflexivity.
  - destruct (k =? k2) eqn:E; cbn [lookup].
    + assert (k = k2) by lia. subst. replace (k' =? k2) with false by lia. reflexivity.
    + destruct (k' =? k2); [reflexivity | exact IH].
Qed.

Lemma lookup_delete_eq : forall {A} k (l : list (Z * A)), lookup k (delete k l) = None.
Proof.
  intros A k l. induction l as [|[k' v'] r IH]; cbn [delete lookup]; [reflexivity|].
  destruct (k =? k') eqn:E; [exact IH | cbn [lookup]; rewrite E; exact IH].
Qed.

(* the callback count says exactly whether the IOCB is finished *)
Definition inv_io (b : iocb) : Prop :=
  (i_cb b = 0 /\ terminal_io b = false) \/ (i_cb b = 1 /\ terminal_io b = true).

(* how a step may change the table of IOCBs: none disappears, a finished one is left exactly as it is, the invariant is
   kept, new ones satisfy it *)
Definition io_ok (l l' : list (Z * iocb)) : Prop :=
  forall i, match lookup i l, lookup i l' with
            | Some b, Some b' => (terminal_io b = true -> b' = b) /\ (inv_io b -> inv_io b')
            | Some _, None => False
            | None, Some b' => inv_io b'
            | None, None => True
            end.

Lemma io_ok_refl : forall l, io_ok l l.
Proof. intros l i. destruct (lookup i l); auto. Qed.

Lemma io_ok_trans : forall l1 l2 l3, io_ok l1 l2 -> io_ok l2 l3 -> io_ok l1 l3.
Proof.
  intros l1 l2 l3 H12 H23 i. specialize (H12 i). specialize (H23 i).
  destruct (lookup i l1) as [b1|], (lookup i l2) as [b2|], (lookup i l3) as [b3|]; try tauto.
  all: try (destruct H12 as (A1 & A2), H23 as (B1 & B2); split; [intros Ht; specialize (A1 Ht); subst b2; auto | tauto]).
  all: try (destruct H23 as (B1 & B2); auto).
Qed.

Lemma io_ok_set : forall l i b b', lookup i l = Some b -> (terminal_io b = true -> b' = b) -> (inv_io b -> inv_io b') ->
  io_ok l (update i b' l).
Proof.
  intros l i b b' Hl H1 H2 j. destruct (Z.eq_dec j i) as [->|Hne].
  - rewrite Hl, lookup_update_eq. auto.
  - rewrite lookup_update_ne by assumption. destruct (lookup j l); auto.
Qed.

Lemma io_ok_new : forall l i b', lookup i l = None -> inv_io b' -> io_ok l (update i b' l).
Proof.
  intros l i b' Hl H j. destruct (Z.eq_dec j i) as [->|Hne].
  - rewrite Hl, lookup_update_eq. exact H.
  - rewrite lookup_update_ne by assumption. destruct (lookup j l); auto.
Qed.

Definition is_final (new : Z) : Prop := new = IO_COMPLETED \/ new = IO_ABORTED.

(* what the callees may assume about "finishing" *)
Definition fin_good (f : Z -> Z -> iow -> iow) : Prop := forall i new w, is_final new -> io_ok (w_io w) (w_io (f i new w)).

Lemma q_finish_w_ok : forall f a i new w, fin_good f -> is_final new -> io_ok (w_io w) (w_io (q_finish_w f a i new w)).
Proof.
  intros f a i new w Hf Hn. unfold q_finish_w.
  pose proof (Hf i new w Hn) as H.
  destruct (lookup a (w_qs (f i new w))) as [q|]; [|exact H].
  destruct (q_active q) as [j|]; [|exact H]. destruct (j =? i); exact H.
Qed.

Lemma process_io_w_ok : forall f a i w, fin_good f -> io_ok (w_io w) (w_io (process_io_w f a i w)).
Proof.
  intros f a i w Hf. unfold process_io_w.
  destruct (lookup i (w_io w)) as [b|] eqn:El; [|apply io_ok_refl].
  destruct (lookup a (w_qs w)) as [q|]; [|apply io_ok_refl].
  destruct ((i_state b =? IO_IDLE) || (i_state b =? IO_PENDING)) eqn:Es; cbn [negb].
  - set (w1 := log _ _).
    assert (H1 : io_ok (w_io w) (w_io w1)).
    { unfold w1. cbn [log set_q set_io w_io]. eapply io_ok_set; [exact El | |].
      - unfold terminal_io, IO_IDLE, IO_PENDING, IO_COMPLETED, IO_ABORTED in *. intros; lia.
      - intros [(Hc & Ht)|(Hc & Ht)].
        + left. cbn [i_cb]. split; [exact Hc | reflexivity].
        + unfold terminal_io, IO_IDLE, IO_PENDING, IO_COMPLETED, IO_ABORTED in *. lia. }
    destruct (i_fail b); [|exact H1].
    eapply io_ok_trans; [exact H1 | apply q_finish_w_ok; [exact Hf | right; reflexivity]].
  - apply q_finish_w_ok; [exact Hf | right; reflexivity].
Qed.

Lemma submit_w_ok : forall f i a fl fo w, fin_good f -> io_ok (w_io w) (w_io (submit_w f i a fl fo w)).
Proof.
  intros f i a fl fo w Hf. unfold submit_w.
  destruct (lookup i (w_io w)) eqn:El; [apply io_ok_refl|].
  set (w1 := set_io i _ w).
  assert (H1 : io_ok (w_io w) (w_io w1)).
  { unfold w1. cbn [set_io w_io]. apply io_ok_new; [exact El|]. left. split; reflexivity. }
  set (w2 := match lookup a (w_qs w1) with Some _ => w1 | None => _ end).
  assert (H2 : w_io w2 = w_io w1) by (unfold w2; destruct (lookup a (w_qs w1)); reflexivity).
  destruct (lookup a (w_qs w2)) as [q|]; [|rewrite H2; exact H1].
  destruct (negb (q_state q =? 0)).
  - cbn [set_q w_io]. rewrite H2. exact H1.
  - eapply io_ok_trans; [rewrite <- H2 in H1; exact H1 | apply process_io_w_ok; exact Hf].
Qed.

Lemma fin_ok : forall fuel, fin_good (fin fuel).
Proof.
  induction fuel as [|k IH]; intros i new w Hn; cbn [fin]; [apply io_ok_refl|].
  destruct (lookup i (w_io w)) as [b|] eqn:El; [|apply io_ok_refl].
  destruct (terminal_io b) eqn:Et; [apply io_ok_refl|].
  assert (H : io_ok (w_io w) (update i (mkIo new (i_cb b + 1) (i_fail b) (i_addr b) (i_follow b)) (w_io w))).
  { eapply io_ok_set; [exact El | congruence |].
    intros [(Hc & _)|(_ & Hc)]; [|congruence]. right. cbn [i_cb]. split; [lia|].
    unfold terminal_io. cbn [i_state]. destruct Hn as [->| ->]; reflexivity. }
  set (w1 := log [21; i; new] _).
  assert (H1 : w_io w1 = update i (mkIo new (i_cb b + 1) (i_fail b) (i_addr b) (i_follow b)) (w_io w)).
  { unfold w1. cbn [log set_io w_io w_qs]. destruct (lookup (i_addr b) (w_qs w)); reflexivity. }
  destruct (i_follow b) as [[[j a2] f2]|]; [|rewrite H1; exact H].
  eapply io_ok_trans; [rewrite <- H1 in H; exact H|].
  apply (submit_w_ok (fin k) j a2 f2 None (log [23; j] w1) IH).
Qed.

Lemma finish_ok : forall i new w, is_final new -> io_ok (w_io w) (w_io (finish i new w)).
Proof. exact (fin_ok FUEL). Qed.

Lemma q_finish_ok : forall a i new w, is_final new -> io_ok (w_io w) (w_io (q_finish a i new w)).
Proof. intros. apply q_finish_w_ok; [exact (fin_ok FUEL) | assumption]. Qed.

Lemma process_io_ok : forall a i w, io_ok (w_io w) (w_io (process_io a i w)).
Proof. intros. apply process_io_w_ok. exact (fin_ok FUEL). Qed.

Lemma submit_ok : forall i a f fo w, io_ok (w_io w) (w_io (submit i a f fo w)).
Proof. intros. apply submit_w_ok. exact (fin_ok FUEL). Qed.

Lemma confirm_ok : forall a ok w, io_ok (w_io w) (w_io (confirm a ok w)).
Proof.
  intros a ok w. unfold confirm.
  destruct (lookup a (w_qs w)) as [q|]; [|apply io_ok_refl].
  destruct (q_active q) as [i|]; [|apply io_ok_refl].
  assert (H : io_ok (w_io w) (w_io (q_finish a i (if ok then IO_COMPLETED else IO_ABORTED) w))).
  { apply q_finish_ok. destruct ok; [left | right]; reflexivity. }
  destruct (lookup a (w_qs (q_finish a i (if ok then IO_COMPLETED else IO_ABORTED) w))) as [q'|]; [|exact H].
  destruct (q_queue q'); [destruct (q_active q')|]; exact H.
Qed.

Lemma abort_ok : forall i w, io_ok (w_io w) (w_io (abort_io i w)).
Proof.
  intros i w. unfold abort_io. destruct (lookup i (w_io w)) as [b|]; [|apply io_ok_refl].
  destruct (terminal_io b); [apply io_ok_refl | apply q_finish_ok; right; reflexivity].
Qed.

Lemma trigger_ok : forall a g w, io_ok (w_io w) (w_io (trigger a g w)).
Proof.
  intros a g w. unfold trigger.
  destruct (lookup a (w_qs w)) as [q|]; [|apply io_ok_refl].
  destruct (negb (q_gen q =? g)); [apply io_ok_refl|].
  destruct (negb (q_state q =? 0)); [apply io_ok_refl|].
  destruct (q_queue q) as [|i r]; [apply io_ok_refl|].
  set (w1 := set_q a _ w).
  assert (H : io_ok (w_io w) (w_io (process_io a i w1))) by (apply (process_io_ok a i w1)).
  destruct (lookup a (w_qs (process_io a i w1))) as [q'|]; [|exact H].
  destruct (q_state q' =? 0); exact H.
Qed.

Lemma run_batch_ok : forall w, io_ok (w_io w) (w_io (run_batch w)).
Proof.
  intros w. unfold run_batch.
  set (w0 := mkIow (w_io w) (w_qs w) [] (w_gen w) (w_ev w)).
  change (w_io w) with (w_io w0) at 1. generalize w0. clear w0.
  induction (w_def w) as [|e r IH]; intros w0; cbn [fold_left]; [apply io_ok_refl|].
  eapply io_ok_trans; [apply trigger_ok | apply IH].
Qed.

Lemma do_op_ok : forall o w, io_ok (w_io w) (w_io (do_op o w)).
Proof.
  intros o w. destruct o; cbn [do_op].
  - apply (submit_ok i addr fail follow (log [10; 0] w)).
  - apply (confirm_ok addr ok (log [10; 1] w)).
  - apply (abort_ok i (log [10; 2] w)).
  - apply (run_batch_ok (log [10; 3] w)).
Qed.

Lemma run_from_ok : forall ops w, io_ok (w_io w) (w_io (fold_left (fun w o => do_op o w) ops w)).
Proof.
  induction ops as [|o r IH]; intros w; cbn [fold_left]; [apply io_ok_refl|].
  eapply io_ok_trans; [apply do_op_ok | apply IH].
Qed.

(* C04_iocb_once *)
Lemma iocb_once : forall ops i b, lookup i (w_io (run_world ops)) = Some b -> inv_io b.
Proof.
  intros ops i b H. unfold run_world in H.
  pose proof (run_from_ok ops (mkIow [] [] [] 0 []) i) as Hk. cbn [w_io lookup] in Hk. rewrite H in Hk. exact Hk.
Qed.

(* complete / abort / anything on a finished IOCB: it stays exactly as it is, whatever else happens *)
Lemma iocb_finished_untouched : forall ops w i b, lookup i (w_io w) = Some b -> terminal_io b = true ->
  lookup i (w_io (fold_left (fun w o => do_op o w) ops w)) = Some b.
Proof.
  intros ops w i b H Ht. pose proof (run_from_ok ops w i) as Hk. rewrite H in Hk.
  destruct (lookup i (w_io (fold_left (fun w o => do_op o w) ops w))) as [b'|]; [|contradiction].
  destruct Hk as (Hk & _). rewrite (Hk Ht). reflexivity.
Qed.

(* the queue advances: a deferred _trigger on an idle queue starts its first waiting IOCB *)
Lemma trigger_advances : forall a g w q i r b,
  lookup a (w_qs w) = Some q -> q_gen q = g -> q_state q = 0 -> q_queue q = i :: r ->
  lookup i (w_io w) = Some b -> i_state b = IO_PENDING -> i_fail b = false ->
  let w' := trigger a g w in
  lookup a (w_qs w') = Some (mkSq g 1 (Some i) r) /\
  lookup i (w_io w') = Some (mkIo IO_ACTIVE (i_cb b) false (i_addr b) (i_follow b)) /\
  w_ev w' = [20; i] :: w_ev w.
Proof.
  intros a g w q i r b Hq Hg Hs Hqq Hi Hst Hf. destruct q as [qg qs qa qq]. cbn [q_gen q_state q_queue] in *. subst qg qs qq.
  destruct b as [bs bc bf ba bfo]. cbn [i_state i_fail i_cb i_addr i_follow] in *. subst bs bf.
  unfold trigger. rewrite Hq. cbn [q_gen q_state q_queue q_active]. rewrite Z.eqb_refl. cbn [negb Z.eqb].
  unfold process_io, process_io_w. cbn [set_q w_io w_qs]. rewrite Hi, lookup_update_eq.
  cbn [i_state i_fail i_cb i_addr i_follow IO_PENDING IO_IDLE Z.eqb Pos.eqb orb negb q_gen q_state q_active q_queue
       log set_q set_io w_io w_qs w_ev w_def w_gen].
  rewrite !lookup_update_eq. cbn [q_state Z.eqb Pos.eqb].
  repeat split; cbn [log set_q set_io w_io w_qs]; apply lookup_update_eq.
Qed.

(* queue_by_address cleanup: the confirmation for the only request of an address removes its queue — unless the callback
   submits a follow-up request (then the queue has to stay: the follow-up may be waiting in it) *)
Lemma confirm_cleanup : forall a ok w q i,
  lookup a (w_qs w) = Some q -> q_active q = Some i -> q_queue q = [] ->
  (forall b, lookup i (w_io w) = Some b -> i_follow b = None) ->
  lookup a (w_qs (confirm a ok w)) = None.
Proof.
  intros a ok w q i Hq Ha Hqq Hnf. destruct q as [qg qs qa qq]. cbn [q_active q_queue] in *. subst qa qq.
  unfold confirm. rewrite Hq. cbn [q_active].
  set (new := if ok then IO_COMPLETED else IO_ABORTED).
  assert (Hf : lookup a (w_qs (finish i new w)) = Some (mkSq qg qs (Some i) [])).
  { unfold finish, FUEL. cbn [fin]. destruct (lookup i (w_io w)) as [b|] eqn:Eb; [|exact Hq].
    destruct (terminal_io b); [exact Hq|]. rewrite (Hnf b eq_refl).
    cbn [set_io w_qs]. destruct (lookup (i_addr b) (w_qs w)) as [q2|] eqn:E2; cbn [log set_q w_qs]; [|exact Hq].
    destruct (Z.eq_dec a (i_addr b)) as [e|Hne].
    - subst a. rewrite Hq in E2. inversion E2; subst q2. rewrite lookup_update_eq. reflexivity.
    - rewrite lookup_update_ne by assumption. exact Hq. }
  unfold q_finish, q_finish_w. fold (finish i new w). rewrite Hf. cbn [q_active]. rewrite Z.eqb_refl.
  cbn [defer set_q w_qs q_gen q_queue]. rewrite lookup_update_eq. cbn [q_queue q_active del_q defer set_q w_qs].
  apply lookup_delete_eq.
Qed.

(* ... and with a follow-up to the same address it does stay, holding the follow-up (the case the seeded defect breaks) *)
Lemma confirm_keeps_queue_for_followup :
  let w := run_world [OSubmit 0 10 false (Some (1, 10, false))] in
  let w' := confirm 10 true w in
  exists q, lookup 10 (w_qs w') = Some q /\ q_queue q = [1] /\ q_active q = None.
Proof. vm_compute. eexists. repeat split. Qed.
