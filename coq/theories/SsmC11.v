(* SsmC11.v — C11: an inbound PDU is applied to the transaction with equal peer address and invoke id, to no
   other, and to none when there is no such transaction; duplicates of a request being processed are dropped. *)
From Coq Require Import ZifyBool ZifyN ZifyNat.
From Bac Require Import Base PyRt Ssm SsmFacts SsmC04a SsmWorld.
Open Scope Z_scope.

Lemma to_client_side_type : forall a, to_client_side a = true -> (a_type a =? 0) = false /\ (a_type a =? 1) = false.
Proof. intros a H. unfold to_client_side in H. lia. Qed.

(* a reply / server-side segment-ack / server abort for which no client transaction with that (peer, id) is
   live — other peer, other id, or after completion — changes nothing at all *)
Lemma deliver_reply_no_match : forall src dst a w n,
  to_client_side a = true -> get_node dst (w_nodes w) = Some n ->
  find_tr (a_invoke a) src (n_ctr n) O = None -> deliver src dst a w = w.
Proof.
  intros src dst a w n Hc Hn Hf. unfold deliver. rewrite Hn.
  destruct (c_raw (n_cfg n)); [reflexivity|].
  destruct (to_client_side_type a Hc) as [-> ->]. rewrite Hc, Hf. reflexivity.
Qed.

(* the same for what is addressed to the serving side (client's segment-ack, client's abort) *)
Lemma deliver_to_server_no_match : forall src dst a w n,
  to_client_side a = false -> (a_type a = 4 \/ a_type a = 7) -> get_node dst (w_nodes w) = Some n ->
  find_tr (a_invoke a) src (n_str n) O = None -> deliver src dst a w = w.
Proof.
  intros src dst a w n Hc Ht Hn Hf. unfold deliver. rewrite Hn.
  destruct (c_raw (n_cfg n)); [reflexivity|].
  replace (a_type a =? 0) with false by lia. replace (a_type a =? 1) with false by lia.
  rewrite Hc. replace ((a_type a =? 4) || (a_type a =? 7)) with true by lia. rewrite Hf. reflexivity.
Qed.

(* the medium and the client application do not touch any transaction table *)
Lemma schedule_copies_nodes : forall fate it w, w_nodes (schedule_copies fate it w) = w_nodes w.
Proof.
  induction fate as [|d r IH]; intros it w; cbn [schedule_copies]; [reflexivity|].
  rewrite IH. destruct (d =? 0); reflexivity.
Qed.

Lemma sent_nodes : forall src dst a w, w_nodes (sent src dst a w) = w_nodes w.
Proof.
  intros. unfold sent.
  match goal with |- w_nodes (fold_left ?f (w_injs ?w1) ?w1) = _ =>
    assert (H : w_nodes w1 = w_nodes w) by (rewrite schedule_copies_nodes; reflexivity);
    generalize (w_injs w1); generalize dependent w1
  end.
  intros w1 H l. revert w1 H.
  induction l as [|i r IH]; intros w1 H; cbn [fold_left]; [exact H|].
  apply IH. destruct (i_after i =? w_nframes w); exact H.
Qed.

Lemma process_outs_client_nodes : forall outs node peer w, w_nodes (process_outs true node peer outs w) = w_nodes w.
Proof.
  induction outs as [|o r IH]; intros node peer w; cbn [process_outs]; [reflexivity|].
  destruct o; rewrite IH; [apply sent_nodes | reflexivity].
Qed.

(* with no request chaining scripted, the client application does not touch any table either *)
Lemma schedule_copies_chains : forall fate it w, w_chains (schedule_copies fate it w) = w_chains w.
Proof.
  induction fate as [|d r IH]; intros it w; cbn [schedule_copies]; [reflexivity|].
  rewrite IH. destruct (d =? 0); reflexivity.
Qed.

Lemma sent_chains : forall src dst a w, w_chains (sent src dst a w) = w_chains w.
Proof.
  intros. unfold sent.
  match goal with |- w_chains (fold_left ?f (w_injs ?w1) ?w1) = _ =>
    assert (H : w_chains w1 = w_chains w) by (rewrite schedule_copies_chains; reflexivity);
    generalize (w_injs w1); generalize dependent w1
  end.
  intros w1 H l. revert w1 H.
  induction l as [|i r IH]; intros w1 H; cbn [fold_left]; [exact H|].
  apply IH. destruct (i_after i =? w_nframes w); exact H.
Qed.

Lemma process_outs_c_nodes : forall outs node peer w, w_chains w = [] -> w_nodes (process_outs_c node peer outs w) = w_nodes w.
Proof.
  induction outs as [|o r IH]; intros node peer w Hc; cbn [process_outs_c]; [reflexivity|].
  destruct o.
  - rewrite IH; [apply sent_nodes | rewrite sent_chains; exact Hc].
  - cbn [w_chains log]. rewrite Hc. cbn [take_chain]. rewrite IH; [reflexivity | exact Hc].
Qed.

Lemma get_put_other : forall n ns addr, addr <> c_addr (n_cfg n) -> get_node addr (put_node n ns) = get_node addr ns.
Proof.
  intros n ns addr Hne. induction ns as [|m r IH]; [reflexivity|]. cbn [put_node].
  destruct (c_addr (n_cfg m) =? c_addr (n_cfg n)) eqn:E; cbn [get_node].
  - replace (c_addr (n_cfg n) =? addr) with false by lia. replace (c_addr (n_cfg m) =? addr) with false by lia. reflexivity.
  - destruct (c_addr (n_cfg m) =? addr); [reflexivity | exact IH].
Qed.

(* a reply that does match: only that one entry of that one table is replaced or removed *)
Lemma deliver_reply_only_match : forall src dst a w n i t,
  to_client_side a = true -> get_node dst (w_nodes w) = Some n -> c_raw (n_cfg n) = false ->
  find_tr (a_invoke a) src (n_ctr n) O = Some (i, t) -> w_chains w = [] ->
  s_peer t = src /\ s_invoke t = a_invoke a /\
  exists l', w_nodes (deliver src dst a w) = put_node (mkN (n_cfg n) (n_next n) l' (n_str n)) (w_nodes w) /\
             ((exists t', l' = replace_nth i t' (n_ctr n)) \/ l' = remove_nth i (n_ctr n)).
Proof.
  intros src dst a w n i t Hc Hn Hraw Hf Hch.
  destruct (find_tr_spec _ _ _ _ _ _ Hf) as (_ & _ & Hm & _). apply tr_matches_eq in Hm. destruct Hm as (Hm1 & Hm2).
  split; [auto|]. split; [auto|].
  unfold deliver. rewrite Hn, Hraw. destruct (to_client_side_type a Hc) as [-> ->]. rewrite Hc, Hf.
  unfold run_on. destruct (c_confirmation a _) as [st e].
  eexists. split.
  - destruct e; cbn [w_nodes log]; rewrite process_outs_c_nodes by exact Hch; cbn [w_nodes set_tctr set_nodes]; reflexivity.
  - destruct (h_live st); [left; eexists; reflexivity | right; reflexivity].
Qed.

(* equal invoke ids from different peers never select each other's transaction *)
Lemma find_tr_peer : forall i p l k j t, find_tr i p l k = Some (j, t) -> s_peer t = p /\ s_invoke t = i.
Proof.
  intros i p l k j t H. destruct (find_tr_spec _ _ _ _ _ _ H) as (_ & _ & Hm & _).
  apply tr_matches_eq in Hm. destruct Hm; auto.
Qed.

(* a retransmitted request that meets its transaction still waiting for the application: nothing happens *)
Lemma duplicate_request_dropped : forall a st, s_state (h_s st) = AWAIT_RESPONSE -> a_type a = 0 ->
  s_indication a st = (st, None).
Proof.
  intros a st Hs Ht. unfold s_indication, withs. rewrite Hs. cbn [Z.eqb IDLE SEGMENTED_REQUEST AWAIT_RESPONSE Pos.eqb].
  unfold s_await_response. rewrite Ht. reflexivity.
Qed.

(* ... so that at world level the request is not indicated again: the world only gains nothing *)
Lemma duplicate_request_world : forall src dst a w n i t,
  a_type a = 0 -> get_node dst (w_nodes w) = Some n -> c_raw (n_cfg n) = false ->
  find_tr (a_invoke a) src (n_str n) O = Some (i, t) -> s_state t = AWAIT_RESPONSE ->
  w_trace (deliver src dst a w) = w_trace w /\ w_inflight (deliver src dst a w) = w_inflight w /\
  w_delayed (deliver src dst a w) = w_delayed w.
Proof.
  intros src dst a w n i t Ht Hn Hraw Hf Hs. unfold deliver. rewrite Hn, Hraw, Ht. cbn [Z.eqb]. rewrite Hf.
  unfold run_on. rewrite duplicate_request_dropped by assumption. cbn [h_live h_s h_outs h_ctr rev process_outs].
  repeat split.
Qed.
